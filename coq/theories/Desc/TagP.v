(* Proofs about the struct-tag codec model (Desc/TagModel.v). *)
From Coq Require Import List Arith NArith ZArith Lia Bool.
From Coq Require Import ZifyBool ZifyNat ZifyN.
From PB Require Import Base.PBytes Desc.TagModel.
Ltac Zify.zify_post_hook ::= Z.div_mod_to_equations.
Import ListNotations.
Open Scope N_scope.

(* ---------- byte strings ---------- *)
Lemma beqb_refl b : beqb b b = true.
Proof. unfold beqb. apply N.eqb_refl. Qed.

Lemma beqb_eq a b : beqb a b = true -> a = b.
Proof.
  unfold beqb. intros H. apply N.eqb_eq in H.
  rewrite <- (n2b_b2n a), <- (n2b_b2n b). now rewrite H.
Qed.

Lemma str_eqb_refl s : str_eqb s s = true.
Proof. induction s as [|b s IH]; [reflexivity|]. cbn [str_eqb]. now rewrite beqb_refl, IH. Qed.

Lemma str_eqb_eq a b : str_eqb a b = true -> a = b.
Proof.
  revert b. induction a as [|x a IH]; intros [|y b] H; try discriminate; [reflexivity|].
  cbn [str_eqb] in H. apply andb_prop in H. destruct H as [H1 H2].
  apply beqb_eq in H1. apply IH in H2. now subst.
Qed.

Lemma str_eqb_neq a b : str_eqb a b = false -> a <> b.
Proof. intros H ->. now rewrite str_eqb_refl in H. Qed.

Lemma has_prefix_app p x : has_prefix p (p ++ x) = true.
Proof. induction p as [|b p IH]; [reflexivity|]. cbn [app has_prefix]. now rewrite beqb_refl, IH. Qed.

Definition no_comma (s : str) : Prop := forallb (fun b => negb (beqb b comma)) s = true.

Lemma no_comma_app a b : no_comma a -> no_comma b -> no_comma (a ++ b).
Proof. unfold no_comma. intros Ha Hb. now rewrite forallb_app, Ha, Hb. Qed.

Lemma cut_comma_app s r : no_comma s -> cut_comma (s ++ comma :: r) = (s, r).
Proof.
  unfold no_comma. induction s as [|b s IH]; intros H.
  - cbn [app cut_comma]. now rewrite beqb_refl.
  - cbn [forallb] in H. apply andb_prop in H. destruct H as [H1 H2].
    cbn [app cut_comma]. apply negb_true_iff in H1. rewrite H1. now rewrite IH.
Qed.

Lemma cut_comma_last s : no_comma s -> cut_comma s = (s, []).
Proof.
  unfold no_comma. induction s as [|b s IH]; intros H; [reflexivity|].
  cbn [forallb] in H. apply andb_prop in H. destruct H as [H1 H2].
  cbn [cut_comma]. apply negb_true_iff in H1. rewrite H1. now rewrite IH.
Qed.

(* the first segment of "def=..." starts with "def=" whatever follows *)
Lemma cut_comma_def d : exists s r, cut_comma (s_def ++ d) = (s, r) /\ has_prefix s_def s = true.
Proof.
  unfold s_def. cbn [app cut_comma].
  change (beqb x64 comma) with false. change (beqb x65 comma) with false.
  change (beqb x66 comma) with false. change (beqb x3d comma) with false. cbv iota.
  destruct (cut_comma d) as [a r]. exists (x64 :: x65 :: x66 :: x3d :: a), r. split; reflexivity.
Qed.

(* ---------- decimal numbers ---------- *)
Lemma forallb_rev {A} (f : A -> bool) l : forallb f (rev l) = forallb f l.
Proof.
  induction l as [|x l IH]; [reflexivity|].
  cbn [rev forallb]. rewrite forallb_app, IH. cbn [forallb]. rewrite andb_true_r. apply andb_comm.
Qed.

Lemma digit_byte d : d < 10 -> b2n (n2b (48 + d)) = 48 + d.
Proof. intros H. apply b2n_n2b. lia. Qed.

Lemma lsd_digits_spec : forall fuel n,
  n < 10 ^ N.of_nat fuel ->
  val_lsd (lsd_digits fuel n) = n /\ forallb is_digit (lsd_digits fuel n) = true /\
  ((0 < fuel)%nat -> lsd_digits fuel n <> []).
Proof.
  induction fuel as [|f IH]; intros n Hn.
  - change (10 ^ N.of_nat 0) with 1 in Hn. assert (n = 0) by lia. subst. cbn. repeat split; lia.
  - cbn [lsd_digits]. destruct (n <? 10) eqn:E.
    + cbn [val_lsd forallb]. rewrite digit_byte by lia.
      unfold is_digit. rewrite digit_byte by lia.
      split; [lia|]. split; [|intros _; discriminate].
      replace (48 <=? 48 + n) with true by lia. replace (48 + n <=? 57) with true by lia. reflexivity.
    + assert (Hd : n / 10 < 10 ^ N.of_nat f).
      { rewrite Nat2N.inj_succ, N.pow_succ_r' in Hn. apply N.div_lt_upper_bound; lia. }
      destruct (IH (n / 10) Hd) as (H1 & H2 & H3).
      cbn [val_lsd forallb]. rewrite H1, H2. rewrite digit_byte by lia.
      unfold is_digit. rewrite digit_byte by lia.
      split; [lia|]. split; [|intros _; discriminate].
      replace (48 <=? 48 + n mod 10) with true by lia. replace (48 + n mod 10 <=? 57) with true by lia. reflexivity.
Qed.

Lemma itoa_n_spec n :
  n < 2^32 ->
  forallb is_digit (itoa_n n) = true /\ itoa_n n <> [] /\ parse_uint32 (itoa_n n) = n.
Proof.
  intros Hn. unfold itoa_n, parse_uint32.
  assert (H40 : n < 10 ^ N.of_nat 40).
  { eapply N.lt_trans; [exact Hn|]. now vm_compute. }
  destruct (lsd_digits_spec 40 n H40) as (H1 & H2 & H3).
  rewrite forallb_rev, rev_involutive, H1. split; [exact H2|]. split.
  - intros C. apply (f_equal (@rev _)) in C. rewrite rev_involutive in C. apply H3; [lia|exact C].
  - change 4294967296 with (2^32). replace (n <? 2^32) with true by lia. reflexivity.
Qed.

Lemma digits_no_comma s : forallb is_digit s = true -> no_comma s.
Proof.
  unfold no_comma. induction s as [|b s IH]; [reflexivity|].
  cbn [forallb]. intros H. apply andb_prop in H. destruct H as [H1 H2].
  rewrite IH by exact H2. rewrite andb_true_r.
  unfold is_digit in H1. unfold beqb, comma. change (b2n x2c) with 44. lia.
Qed.

Lemma digits_first s (p0 : byte) p :
  forallb is_digit s = true -> s <> [] -> (b2n p0 <? 48) || (57 <? b2n p0) = true ->
  has_prefix (p0 :: p) s = false.
Proof.
  destruct s as [|b s]; [congruence|]. cbn [forallb has_prefix]. intros H _ Hp.
  apply andb_prop in H. destruct H as [H1 _]. unfold is_digit in H1.
  replace (beqb p0 b) with false; [reflexivity|]. unfold beqb. lia.
Qed.

(* ---------- classification of the segments Marshal writes ---------- *)
Lemma classify_name n : classify (s_name ++ n) = SName n.
Proof. unfold classify. now rewrite has_prefix_app. Qed.

Lemma classify_json j : classify (s_json ++ j) = SJson j.
Proof. reflexivity. Qed.

Lemma classify_enum e : classify (s_enum ++ e) = SEnum.
Proof. reflexivity. Qed.

Lemma classify_number z :
  (0 <= z < 2147483648)%Z -> classify (itoa z) = SNum z.
Proof.
  intros Hz. unfold itoa.
  assert (E : itoa_n (Z.to_N z) = match z with Zneg p => x2d :: itoa_n (N.pos p) | _ => itoa_n (Z.to_N z) end).
  { destruct z; try reflexivity. lia. }
  rewrite <- E. clear E.
  assert (Hn : Z.to_N z < 2^32) by (change (2^32) with 4294967296; lia).
  destruct (itoa_n_spec _ Hn) as (Hd & Hne & Hp).
  unfold classify, s_name.
  rewrite (digits_first _ x6e _ Hd Hne) by reflexivity.
  rewrite Hd, Hp. unfold to_int32.
  replace (Z.to_N z <? 2147483648) with true by lia.
  f_equal. lia.
Qed.

(* ---------- the loop ---------- *)
Definition seg_ok (s : str) : Prop := no_comma s /\ s <> [] /\ has_prefix s_def s = false.

Definition run (gk : gokind) (segs : list str) (u : ufield) : ufield :=
  fold_left (fun u s => apply_seg gk (classify s) u) segs u.

Definition set_def (u : ufield) (d : str) : ufield :=
  {| u_name := u_name u; u_number := u_number u; u_card := u_card u; u_kind := u_kind u; u_json := u_json u;
     u_packed := u_packed u; u_proto3 := u_proto3 u; u_def := Some d |}.

Lemma loop_empty fuel gk u : unmarshal_loop fuel gk [] u = u.
Proof. destruct fuel; reflexivity. Qed.

Lemma join_comma_cons s r : r <> [] -> join_comma (s :: r) = s ++ comma :: join_comma r.
Proof. destruct r; [congruence|reflexivity]. Qed.

Lemma app_cons_nonempty {A} (s : list A) c r : s ++ c :: r <> [].
Proof. destruct s; discriminate. Qed.

(* comma-free segments followed by an arbitrary tail *)
Lemma loop_segs gk : forall segs fuel u tail,
  Forall seg_ok segs -> (length segs <= fuel)%nat ->
  unmarshal_loop fuel gk (fold_right (fun s acc => s ++ comma :: acc) tail segs) u
  = unmarshal_loop (fuel - length segs) gk tail (run gk segs u).
Proof.
  induction segs as [|s segs IH]; intros fuel u tail Hok Hf.
  - cbn [fold_right length run fold_left]. now rewrite Nat.sub_0_r.
  - inversion Hok as [|? ? (Hnc & Hne & Hnd) Hok']; subst.
    destruct fuel as [|fuel]; [cbn [length] in Hf; lia|].
    cbn [fold_right]. cbn [unmarshal_loop].
    destruct (s ++ comma :: fold_right (fun s acc => s ++ comma :: acc) tail segs) eqn:E.
    { exfalso. revert E. apply app_cons_nonempty. }
    rewrite <- E. rewrite cut_comma_app by exact Hnc. rewrite Hnd.
    rewrite IH; [|exact Hok'|cbn [length] in Hf; lia].
    cbn [length run fold_left]. reflexivity.
Qed.

Lemma join_as_fold segs last :
  join_comma (segs ++ [last]) = fold_right (fun s acc => s ++ comma :: acc) last segs.
Proof.
  induction segs as [|s segs IH]; [reflexivity|].
  cbn [app]. rewrite join_comma_cons by (destruct segs; discriminate). cbn [fold_right]. now rewrite IH.
Qed.

(* all segments comma-free: the tag is processed segment by segment *)
Lemma loop_all gk segs u fuel :
  Forall seg_ok segs -> (length segs < fuel)%nat ->
  unmarshal_loop fuel gk (join_comma segs) u = run gk segs u.
Proof.
  intros Hok Hf.
  destruct (rev segs) as [|last rsegs] eqn:E.
  - apply (f_equal (@rev _)) in E. rewrite rev_involutive in E. subst. cbn. apply loop_empty.
  - apply (f_equal (@rev _)) in E. rewrite rev_involutive in E. cbn [rev] in E. subst segs.
    apply Forall_app in Hok. destruct Hok as [Hpre Hlast]. inversion Hlast as [|? ? (Hnc & Hne & Hnd) _]; subst.
    rewrite app_length in Hf. cbn [length] in Hf.
    rewrite join_as_fold, loop_segs by (auto; lia).
    destruct (fuel - length (rev rsegs))%nat as [|f'] eqn:Ef; [lia|].
    cbn [unmarshal_loop]. destruct last as [|l0 last]; [congruence|].
    rewrite cut_comma_last by exact Hnc. rewrite Hnd. rewrite loop_empty.
    unfold run. now rewrite fold_left_app.
Qed.

(* ... and a final "def=" segment swallows the rest, commas included *)
Lemma loop_def gk segs d u fuel :
  Forall seg_ok segs -> (length segs < fuel)%nat ->
  unmarshal_loop fuel gk (join_comma (segs ++ [s_def ++ d])) u = set_def (run gk segs u) d.
Proof.
  intros Hok Hf.
  rewrite join_as_fold, loop_segs by (auto; lia).
  destruct (fuel - length segs)%nat as [|f'] eqn:Ef; [lia|].
  cbn [unmarshal_loop].
  destruct (cut_comma_def d) as (s & r & Hc & Hp).
  change (s_def ++ d) with (x64 :: (x65 :: x66 :: x3d :: d)) at 1. cbv iota.
  change (x64 :: (x65 :: x66 :: x3d :: d)) with (s_def ++ d).
  rewrite Hc, Hp. reflexivity.
Qed.
