(* Desc/ConvertP.v -- proofs about Desc/ConvertModel.v (C34, C37). *)
From Coq Require Import List NArith ZArith Bool Lia.
From Coq Require Import ZifyBool ZifyNat ZifyN.
From PB Require Import Base.PBytes Desc.ConvertModel.
Import ListNotations.
Open Scope N_scope.

(* ------------------------------------------------------------------ bytes *)
Lemma beq_byte_refl c : beq_byte c c = true.
Proof. unfold beq_byte. apply Byte.byte_dec_lb. reflexivity. Qed.

Lemma beq_byte_eq a b : beq_byte a b = true -> a = b.
Proof. unfold beq_byte. apply Byte.byte_dec_bl. Qed.

Lemma beq_refl s : beq s s = true.
Proof. induction s; cbn; [reflexivity|]. now rewrite beq_byte_refl, IHs. Qed.

Lemma beq_eq a : forall b, beq a b = true -> a = b.
Proof.
  induction a as [|x a IH]; intros [|y b]; cbn; try discriminate; [reflexivity|].
  intros H. apply andb_prop in H as [H1 H2]. apply beq_byte_eq in H1. apply IH in H2. congruence.
Qed.

Lemma beq_neq a b : beq a b = false -> a <> b.
Proof. intros H E. subst. rewrite beq_refl in H. discriminate. Qed.

(* ------------------------------------------------------------------ dotted names *)
Definition no_dot (s : bytes) : bool := forallb (fun c => negb (is_dot c)) s.

Lemma letter_or_digit_not_dot c : is_letter_or_digit c = true -> is_dot c = false.
Proof. destruct c; vm_compute; congruence. Qed.

Lemma ident_no_dot s : ident_ok s = true -> no_dot s = true.
Proof.
  destruct s as [|c r]; cbn; [discriminate|].
  intros H. apply andb_prop in H as [H1 H2].
  assert (Hc : is_dot c = false).
  { apply letter_or_digit_not_dot. unfold is_letter_or_digit. now rewrite H1. }
  rewrite Hc. cbn.
  unfold no_dot. rewrite forallb_forall in *. intros x Hx. specialize (H2 x Hx).
  now rewrite (letter_or_digit_not_dot x H2).
Qed.

Lemma split_last_no_dot s : no_dot s = true -> split_last s = None.
Proof.
  induction s as [|c r IH]; cbn; [reflexivity|].
  intros H. apply andb_prop in H as [H1 H2]. rewrite (IH H2).
  destruct (is_dot c); [discriminate|reflexivity].
Qed.

Lemma split_last_app p n : no_dot n = true -> split_last (p ++ c_dot :: n) = Some (p, n).
Proof.
  intros Hn. induction p as [|c p IH]; cbn.
  - rewrite (split_last_no_dot n Hn). reflexivity.
  - cbn in IH. now rewrite IH.
Qed.

(* FullName.Parent and FullName.Name invert FullName.Append for a valid short name *)
Lemma fn_name_append p n : ident_ok n = true -> fn_name (fn_append p n) = n.
Proof.
  intros H. apply ident_no_dot in H. unfold fn_name, fn_append. destruct p as [|c p].
  - now rewrite (split_last_no_dot n H).
  - now rewrite (split_last_app (c :: p) n H).
Qed.

Lemma fn_parent_append p n : ident_ok n = true -> fn_parent (fn_append p n) = p.
Proof.
  intros H. apply ident_no_dot in H. unfold fn_parent, fn_append. destruct p as [|c p].
  - now rewrite (split_last_no_dot n H).
  - now rewrite (split_last_app (c :: p) n H).
Qed.

Lemma split_last_shorter s : forall a b, split_last s = Some (a, b) -> (length a < length s)%nat.
Proof.
  induction s as [|c r IH]; cbn; [discriminate|].
  intros a b. destruct (split_last r) as [[a' b']|] eqn:E.
  - intros H. inversion H; subst. cbn. specialize (IH a' b eq_refl). lia.
  - destruct (is_dot c); [|discriminate]. intros H. inversion H; subst. cbn. lia.
Qed.

Lemma fn_parent_shorter s : s <> [] -> (length (fn_parent s) < length s)%nat.
Proof.
  intros Hs. unfold fn_parent. destruct (split_last s) as [[a b]|] eqn:E.
  - eapply split_last_shorter; eauto.
  - destruct s; [congruence|cbn; lia].
Qed.

(* ------------------------------------------------------------------ name resolution *)
(* what a lookup can see under a given full name *)
Definition visible (tbl : list Decl) (env : list RemoteD) (s : bytes) : bool :=
  match find_decl tbl s with
  | Some _ => true
  | None => match find_remote env s with Some r => r_imported r | None => false end
  end.

(* the scopes tried, innermost first *)
Fixpoint scope_chain (fuel : nat) (scope : bytes) : list bytes :=
  scope :: match scope, fuel with
           | [], _ => []
           | _, O => []
           | _, S k => scope_chain k (fn_parent scope)
           end.

Lemma scope_chain_head fuel scope : scope_chain fuel scope = [] ++ scope :: tl (scope_chain fuel scope).
Proof. destruct fuel; reflexivity. Qed.

Lemma find_loop_found tbl env ref : forall fuel scope nimp s k me loc,
  find_loop tbl env fuel scope ref nimp = LFound s k me loc ->
  exists pre sc post,
    scope_chain fuel scope = pre ++ sc :: post /\ s = fn_append sc ref /\
    visible tbl env s = true /\
    forallb (fun c => negb (visible tbl env (fn_append c ref))) pre = true /\
    (loc = true <-> find_decl tbl s <> None).
Proof.
  assert (Here : forall fuel scope s k me loc,
    match find_decl tbl (fn_append scope ref) with
    | Some d => LFound (fn_append scope ref) (d_kind d) (d_mapentry d) true = LFound s k me loc
    | None => match find_remote env (fn_append scope ref) with
              | Some r => r_imported r = true /\ LFound (fn_append scope ref) (r_kind r) (r_mapentry r) false = LFound s k me loc
              | None => False
              end
    end ->
    exists pre sc post,
      scope_chain fuel scope = pre ++ sc :: post /\ s = fn_append sc ref /\
      visible tbl env s = true /\
      forallb (fun c => negb (visible tbl env (fn_append c ref))) pre = true /\
      (loc = true <-> find_decl tbl s <> None)).
  { intros fuel scope s k me loc H.
    exists [], scope, (tl (scope_chain fuel scope)).
    split; [apply scope_chain_head|].
    destruct (find_decl tbl (fn_append scope ref)) as [d|] eqn:Ed.
    - inversion H; subst. split; [reflexivity|]. split; [unfold visible; now rewrite Ed|].
      split; [reflexivity|]. split; [intros _; congruence|reflexivity].
    - destruct (find_remote env (fn_append scope ref)) as [r|] eqn:Er; [|contradiction].
      destruct H as [Hi H]. inversion H; subst. split; [reflexivity|].
      split; [unfold visible; now rewrite Ed, Er|].
      split; [reflexivity|]. split; [discriminate|intros Hn; congruence]. }
  assert (Step : forall fuel c sc s loc pre sc' post,
    visible tbl env (fn_append (c :: sc) ref) = false ->
    scope_chain fuel (fn_parent (c :: sc)) = pre ++ sc' :: post ->
    s = fn_append sc' ref -> visible tbl env s = true ->
    forallb (fun c => negb (visible tbl env (fn_append c ref))) pre = true ->
    (loc = true <-> find_decl tbl s <> None) ->
    exists pre sc0 post,
      scope_chain (S fuel) (c :: sc) = pre ++ sc0 :: post /\ s = fn_append sc0 ref /\
      visible tbl env s = true /\
      forallb (fun c => negb (visible tbl env (fn_append c ref))) pre = true /\
      (loc = true <-> find_decl tbl s <> None)).
  { intros fuel c sc s loc pre sc' post Hnv Hc Hs Hv Hpre Hloc.
    exists ((c :: sc) :: pre), sc', post.
    split; [cbn [scope_chain]; rewrite Hc; reflexivity|].
    split; [exact Hs|]. split; [exact Hv|].
    split; [cbn [forallb]; rewrite Hnv; exact Hpre|exact Hloc]. }
  induction fuel as [|fuel IH]; intros scope nimp s k me loc; cbn [find_loop].
  - intros H. apply (Here _ _ _ k me).
    destruct (find_decl tbl (fn_append scope ref)) as [d|]; [exact H|].
    destruct (find_remote env (fn_append scope ref)) as [r|].
    + destruct (r_imported r); [split; [reflexivity|exact H]|destruct scope; discriminate].
    + destruct scope; destruct nimp; discriminate.
  - destruct (find_decl tbl (fn_append scope ref)) as [d|] eqn:Ed.
    { intros H. apply (Here _ _ _ k me). rewrite Ed. exact H. }
    destruct (find_remote env (fn_append scope ref)) as [r|] eqn:Er.
    + destruct (r_imported r) eqn:Ei.
      { intros H. apply (Here _ _ _ k me). rewrite Ed, Er. split; [exact Ei|exact H]. }
      destruct scope as [|c sc]; [discriminate|].
      intros H. apply IH in H as (pre & sc' & post & Hc & Hs & Hv & Hpre & Hloc).
      eapply Step; eauto. unfold visible. now rewrite Ed, Er.
    + destruct scope as [|c sc]; [destruct nimp; discriminate|].
      intros H. apply IH in H as (pre & sc' & post & Hc & Hs & Hv & Hpre & Hloc).
      eapply Step; eauto. unfold visible. now rewrite Ed, Er.
Qed.

Lemma find_loop_missing tbl env ref : forall fuel scope nimp,
  find_loop tbl env fuel scope ref nimp = LNotFound \/ find_loop tbl env fuel scope ref nimp = LNotImported ->
  forallb (fun c => negb (visible tbl env (fn_append c ref))) (scope_chain fuel scope) = true.
Proof.
  assert (Nv : forall scope, find_decl tbl (fn_append scope ref) = None ->
               match find_remote env (fn_append scope ref) with Some r => r_imported r = false | None => True end ->
               negb (visible tbl env (fn_append scope ref)) = true).
  { intros scope Ed H. unfold visible. rewrite Ed.
    destruct (find_remote env (fn_append scope ref)) as [r|]; [now rewrite H|reflexivity]. }
  induction fuel as [|fuel IH]; intros scope nimp; cbn [find_loop].
  - destruct (find_decl tbl (fn_append scope ref)) eqn:Ed; [intros [H|H]; discriminate|].
    intros H.
    assert (Hs : scope_chain 0 scope = [scope]) by (destruct scope; reflexivity).
    rewrite Hs. cbn [forallb]. rewrite Nv; [reflexivity|exact Ed|].
    destruct (find_remote env (fn_append scope ref)) as [r|]; [|exact I].
    destruct (r_imported r); [destruct H; discriminate|reflexivity].
  - destruct (find_decl tbl (fn_append scope ref)) eqn:Ed; [intros [H|H]; discriminate|].
    intros H.
    assert (Hr : match find_remote env (fn_append scope ref) with Some r => r_imported r = false | None => True end).
    { destruct (find_remote env (fn_append scope ref)) as [r|]; [|exact I].
      destruct (r_imported r); [destruct H; discriminate|reflexivity]. }
    destruct scope as [|c sc].
    + change (scope_chain (S fuel) []) with [@nil byte]. cbn [forallb]. now rewrite (Nv [] Ed Hr).
    + cbn [scope_chain forallb]. rewrite (Nv (c :: sc) Ed Hr). cbn [andb].
      destruct (find_remote env (fn_append (c :: sc) ref)) as [r|].
      * rewrite Hr in H. eapply IH; eauto.
      * eapply IH; eauto.
Qed.

(* with enough fuel the chain of scopes ends at the global scope *)
Lemma scope_chain_last : forall fuel scope, (length scope <= fuel)%nat -> last (scope_chain fuel scope) [c_dot] = [].
Proof.
  induction fuel as [|fuel IH]; intros scope H.
  - destruct scope; [reflexivity|cbn in H; lia].
  - destruct scope as [|c sc]; [reflexivity|].
    cbn [scope_chain].
    assert (Hl : (length (fn_parent (c :: sc)) <= fuel)%nat).
    { pose proof (fn_parent_shorter (c :: sc)) as Hs. cbn [length] in *. assert (c :: sc <> []) by congruence. specialize (Hs H0). lia. }
    specialize (IH _ Hl).
    destruct (scope_chain fuel (fn_parent (c :: sc))) eqn:E.
    + destruct fuel; destruct (fn_parent (c :: sc)); discriminate.
    + exact IH.
Qed.

(* C34 name_resolution_innermost_first, relative references *)
Theorem resolution_innermost_first tbl env scope ref s k me loc :
  pn_is_full ref = false ->
  find_descriptor tbl env scope ref = LFound s k me loc ->
  exists pre sc post,
    scope_chain (length scope) scope = pre ++ sc :: post /\
    s = fn_append sc ref /\
    visible tbl env s = true /\
    forallb (fun c => negb (visible tbl env (fn_append c ref))) pre = true /\
    (loc = true <-> find_decl tbl s <> None).
Proof.
  unfold find_descriptor. intros Hf. rewrite Hf.
  destruct (negb (pn_valid ref)); [discriminate|].
  apply find_loop_found.
Qed.

Theorem resolution_absolute tbl env scope ref s k me loc :
  pn_is_full ref = true ->
  find_descriptor tbl env scope ref = LFound s k me loc ->
  s = pn_strip ref /\ visible tbl env s = true.
Proof.
  unfold find_descriptor. intros Hf. rewrite Hf.
  destruct (negb (pn_valid ref)); [discriminate|].
  intros H. apply find_loop_found in H as (pre & sc & post & Hc & Hs & Hv & _).
  cbn in Hc. destruct pre as [|x pre]; cbn in Hc.
  - inversion Hc; subst. split; [reflexivity|exact Hv].
  - inversion Hc. destruct pre; discriminate.
Qed.

Theorem resolution_complete tbl env scope ref :
  pn_is_full ref = false -> pn_valid ref = true ->
  (find_descriptor tbl env scope ref = LNotFound \/ find_descriptor tbl env scope ref = LNotImported) ->
  forallb (fun c => negb (visible tbl env (fn_append c ref))) (scope_chain (length scope) scope) = true.
Proof.
  unfold find_descriptor. intros Hf Hv. rewrite Hf, Hv. cbn. apply find_loop_missing.
Qed.
