(* Desc/ConvertP.v -- proofs about Desc/ConvertModel.v (C34, C37). *)
From Coq Require Import List NArith ZArith Bool Lia.
From Coq Require Import ZifyBool ZifyNat ZifyN.
From PB Require Import Base.PBytes Desc.ConvertModel.
Import ListNotations.
Open Scope N_scope.

(* ------------------------------------------------------------------ bytes *)
Lemma beq_byte_refl c : beq_byte c c = true.
Proof. unfold beq_byte. apply Byte.byte_dec_lb. reflexivity. Qed.

Lemma beq_byte_eq a b : beq_byte a b = true -> a = b.
Proof. unfold beq_byte. apply Byte.byte_dec_bl. Qed.

Lemma beq_refl s : beq s s = true.
Proof. induction s; cbn; [reflexivity|]. now rewrite beq_byte_refl, IHs. Qed.

Lemma beq_eq a : forall b, beq a b = true -> a = b.
Proof.
  induction a as [|x a IH]; intros [|y b]; cbn; try discriminate; [reflexivity|].
  intros H. apply andb_prop in H as [H1 H2]. apply beq_byte_eq in H1. apply IH in H2. congruence.
Qed.

Lemma beq_neq a b : beq a b = false -> a <> b.
Proof. intros H E. subst. rewrite beq_refl in H. discriminate. Qed.

(* ------------------------------------------------------------------ dotted names *)
Definition no_dot (s : bytes) : bool := forallb (fun c => negb (is_dot c)) s.

Lemma letter_or_digit_not_dot c : is_letter_or_digit c = true -> is_dot c = false.
Proof. destruct c; vm_compute; congruence. Qed.

Lemma ident_no_dot s : ident_ok s = true -> no_dot s = true.
Proof.
  destruct s as [|c r]; cbn; [discriminate|].
  intros H. apply andb_prop in H as [H1 H2].
  assert (Hc : is_dot c = false).
  { apply letter_or_digit_not_dot. unfold is_letter_or_digit. now rewrite H1. }
  rewrite Hc. cbn.
  unfold no_dot. rewrite forallb_forall in *. intros x Hx. specialize (H2 x Hx).
  now rewrite (letter_or_digit_not_dot x H2).
Qed.

Lemma split_last_no_dot s : no_dot s = true -> split_last s = None.
Proof.
  induction s as [|c r IH]; cbn; [reflexivity|].
  intros H. apply andb_prop in H as [H1 H2]. rewrite (IH H2).
  destruct (is_dot c); [discriminate|reflexivity].
Qed.

Lemma split_last_app p n : no_dot n = true -> split_last (p ++ c_dot :: n) = Some (p, n).
Proof.
  intros Hn. induction p as [|c p IH]; cbn.
  - rewrite (split_last_no_dot n Hn). reflexivity.
  - cbn in IH. now rewrite IH.
Qed.

(* FullName.Parent and FullName.Name invert FullName.Append for a valid short name *)
Lemma fn_name_append p n : ident_ok n = true -> fn_name (fn_append p n) = n.
Proof.
  intros H. apply ident_no_dot in H. unfold fn_name, fn_append. destruct p as [|c p].
  - now rewrite (split_last_no_dot n H).
  - now rewrite (split_last_app (c :: p) n H).
Qed.

Lemma fn_parent_append p n : ident_ok n = true -> fn_parent (fn_append p n) = p.
Proof.
  intros H. apply ident_no_dot in H. unfold fn_parent, fn_append. destruct p as [|c p].
  - now rewrite (split_last_no_dot n H).
  - now rewrite (split_last_app (c :: p) n H).
Qed.

Lemma split_last_shorter s : forall a b, split_last s = Some (a, b) -> (length a < length s)%nat.
Proof.
  induction s as [|c r IH]; cbn; [discriminate|].
  intros a b. destruct (split_last r) as [[a' b']|] eqn:E.
  - intros H. inversion H; subst. cbn. specialize (IH a' b eq_refl). lia.
  - destruct (is_dot c); [|discriminate]. intros H. inversion H; subst. cbn. lia.
Qed.

Lemma fn_parent_shorter s : s <> [] -> (length (fn_parent s) < length s)%nat.
Proof.
  intros Hs. unfold fn_parent. destruct (split_last s) as [[a b]|] eqn:E.
  - eapply split_last_shorter; eauto.
  - destruct s; [congruence|cbn; lia].
Qed.

(* ------------------------------------------------------------------ name resolution *)
(* what a lookup can see under a given full name *)
Definition visible (tbl : list Decl) (env : list RemoteD) (s : bytes) : bool :=
  match find_decl tbl s with
  | Some _ => true
  | None => match find_remote env s with Some r => r_imported r | None => false end
  end.

(* the scopes tried, innermost first *)
Fixpoint scope_chain (fuel : nat) (scope : bytes) : list bytes :=
  scope :: match scope, fuel with
           | [], _ => []
           | _, O => []
           | _, S k => scope_chain k (fn_parent scope)
           end.

Lemma scope_chain_head fuel scope : scope_chain fuel scope = [] ++ scope :: tl (scope_chain fuel scope).
Proof. destruct fuel; reflexivity. Qed.

Lemma find_loop_found tbl env ref : forall fuel scope nimp s k me loc,
  find_loop tbl env fuel scope ref nimp = LFound s k me loc ->
  exists pre sc post,
    scope_chain fuel scope = pre ++ sc :: post /\ s = fn_append sc ref /\
    visible tbl env s = true /\
    forallb (fun c => negb (visible tbl env (fn_append c ref))) pre = true /\
    (loc = true <-> find_decl tbl s <> None).
Proof.
  assert (Here : forall fuel scope s k me loc,
    match find_decl tbl (fn_append scope ref) with
    | Some d => LFound (fn_append scope ref) (d_kind d) (d_mapentry d) true = LFound s k me loc
    | None => match find_remote env (fn_append scope ref) with
              | Some r => r_imported r = true /\ LFound (fn_append scope ref) (r_kind r) (r_mapentry r) false = LFound s k me loc
              | None => False
              end
    end ->
    exists pre sc post,
      scope_chain fuel scope = pre ++ sc :: post /\ s = fn_append sc ref /\
      visible tbl env s = true /\
      forallb (fun c => negb (visible tbl env (fn_append c ref))) pre = true /\
      (loc = true <-> find_decl tbl s <> None)).
  { intros fuel scope s k me loc H.
    exists [], scope, (tl (scope_chain fuel scope)).
    split; [apply scope_chain_head|].
    destruct (find_decl tbl (fn_append scope ref)) as [d|] eqn:Ed.
    - inversion H; subst. split; [reflexivity|]. split; [unfold visible; now rewrite Ed|].
      split; [reflexivity|]. split; [intros _; congruence|reflexivity].
    - destruct (find_remote env (fn_append scope ref)) as [r|] eqn:Er; [|contradiction].
      destruct H as [Hi H]. inversion H; subst. split; [reflexivity|].
      split; [unfold visible; now rewrite Ed, Er|].
      split; [reflexivity|]. split; [discriminate|intros Hn; congruence]. }
  assert (Step : forall fuel c sc s loc pre sc' post,
    visible tbl env (fn_append (c :: sc) ref) = false ->
    scope_chain fuel (fn_parent (c :: sc)) = pre ++ sc' :: post ->
    s = fn_append sc' ref -> visible tbl env s = true ->
    forallb (fun c => negb (visible tbl env (fn_append c ref))) pre = true ->
    (loc = true <-> find_decl tbl s <> None) ->
    exists pre sc0 post,
      scope_chain (S fuel) (c :: sc) = pre ++ sc0 :: post /\ s = fn_append sc0 ref /\
      visible tbl env s = true /\
      forallb (fun c => negb (visible tbl env (fn_append c ref))) pre = true /\
      (loc = true <-> find_decl tbl s <> None)).
  { intros fuel c sc s loc pre sc' post Hnv Hc Hs Hv Hpre Hloc.
    exists ((c :: sc) :: pre), sc', post.
    split; [cbn [scope_chain]; rewrite Hc; reflexivity|].
    split; [exact Hs|]. split; [exact Hv|].
    split; [cbn [forallb]; rewrite Hnv; exact Hpre|exact Hloc]. }
  induction fuel as [|fuel IH]; intros scope nimp s k me loc; cbn [find_loop].
  - intros H. apply (Here _ _ _ k me).
    destruct (find_decl tbl (fn_append scope ref)) as [d|]; [exact H|].
    destruct (find_remote env (fn_append scope ref)) as [r|].
    + destruct (r_imported r); [split; [reflexivity|exact H]|destruct scope; discriminate].
    + destruct scope; destruct nimp; discriminate.
  - destruct (find_decl tbl (fn_append scope ref)) as [d|] eqn:Ed.
    { intros H. apply (Here _ _ _ k me). rewrite Ed. exact H. }
    destruct (find_remote env (fn_append scope ref)) as [r|] eqn:Er.
    + destruct (r_imported r) eqn:Ei.
      { intros H. apply (Here _ _ _ k me). rewrite Ed, Er. split; [exact Ei|exact H]. }
      destruct scope as [|c sc]; [discriminate|].
      intros H. apply IH in H as (pre & sc' & post & Hc & Hs & Hv & Hpre & Hloc).
      eapply Step; eauto. unfold visible. now rewrite Ed, Er.
    + destruct scope as [|c sc]; [destruct nimp; discriminate|].
      intros H. apply IH in H as (pre & sc' & post & Hc & Hs & Hv & Hpre & Hloc).
      eapply Step; eauto. unfold visible. now rewrite Ed, Er.
Qed.

Lemma find_loop_missing tbl env ref : forall fuel scope nimp,
  find_loop tbl env fuel scope ref nimp = LNotFound \/ find_loop tbl env fuel scope ref nimp = LNotImported ->
  forallb (fun c => negb (visible tbl env (fn_append c ref))) (scope_chain fuel scope) = true.
Proof.
  assert (Nv : forall scope, find_decl tbl (fn_append scope ref) = None ->
               match find_remote env (fn_append scope ref) with Some r => r_imported r = false | None => True end ->
               negb (visible tbl env (fn_append scope ref)) = true).
  { intros scope Ed H. unfold visible. rewrite Ed.
    destruct (find_remote env (fn_append scope ref)) as [r|]; [now rewrite H|reflexivity]. }
  induction fuel as [|fuel IH]; intros scope nimp; cbn [find_loop].
  - destruct (find_decl tbl (fn_append scope ref)) eqn:Ed; [intros [H|H]; discriminate|].
    intros H.
    assert (Hs : scope_chain 0 scope = [scope]) by (destruct scope; reflexivity).
    rewrite Hs. cbn [forallb]. rewrite Nv; [reflexivity|exact Ed|].
    destruct (find_remote env (fn_append scope ref)) as [r|]; [|exact I].
    destruct (r_imported r); [destruct H; discriminate|reflexivity].
  - destruct (find_decl tbl (fn_append scope ref)) eqn:Ed; [intros [H|H]; discriminate|].
    intros H.
    assert (Hr : match find_remote env (fn_append scope ref) with Some r => r_imported r = false | None => True end).
    { destruct (find_remote env (fn_append scope ref)) as [r|]; [|exact I].
      destruct (r_imported r); [destruct H; discriminate|reflexivity]. }
    destruct scope as [|c sc].
    + change (scope_chain (S fuel) []) with [@nil byte]. cbn [forallb]. now rewrite (Nv [] Ed Hr).
    + cbn [scope_chain forallb]. rewrite (Nv (c :: sc) Ed Hr). cbn [andb].
      destruct (find_remote env (fn_append (c :: sc) ref)) as [r|].
      * rewrite Hr in H. eapply IH; eauto.
      * eapply IH; eauto.
Qed.

(* with enough fuel the chain of scopes ends at the global scope *)
Lemma scope_chain_last : forall fuel scope, (length scope <= fuel)%nat -> last (scope_chain fuel scope) [c_dot] = [].
Proof.
  induction fuel as [|fuel IH]; intros scope H.
  - destruct scope; [reflexivity|cbn in H; lia].
  - destruct scope as [|c sc]; [reflexivity|].
    cbn [scope_chain].
    assert (Hl : (length (fn_parent (c :: sc)) <= fuel)%nat).
    { pose proof (fn_parent_shorter (c :: sc)) as Hs. cbn [length] in *. assert (c :: sc <> []) by congruence. specialize (Hs H0). lia. }
    specialize (IH _ Hl).
    destruct (scope_chain fuel (fn_parent (c :: sc))) eqn:E.
    + destruct fuel; destruct (fn_parent (c :: sc)); discriminate.
    + exact IH.
Qed.

(* C34 name_resolution_innermost_first, relative references *)
Theorem resolution_innermost_first tbl env scope ref s k me loc :
  pn_is_full ref = false ->
  find_descriptor tbl env scope ref = LFound s k me loc ->
  exists pre sc post,
    scope_chain (length scope) scope = pre ++ sc :: post /\
    s = fn_append sc ref /\
    visible tbl env s = true /\
    forallb (fun c => negb (visible tbl env (fn_append c ref))) pre = true /\
    (loc = true <-> find_decl tbl s <> None).
Proof.
  unfold find_descriptor. intros Hf. rewrite Hf.
  destruct (negb (pn_valid ref)); [discriminate|].
  apply find_loop_found.
Qed.

Theorem resolution_absolute tbl env scope ref s k me loc :
  pn_is_full ref = true ->
  find_descriptor tbl env scope ref = LFound s k me loc ->
  s = pn_strip ref /\ visible tbl env s = true.
Proof.
  unfold find_descriptor. intros Hf. rewrite Hf.
  destruct (negb (pn_valid ref)); [discriminate|].
  intros H. apply find_loop_found in H as (pre & sc & post & Hc & Hs & Hv & _).
  cbn in Hc. destruct pre as [|x pre]; cbn in Hc.
  - inversion Hc; subst. split; [reflexivity|exact Hv].
  - inversion Hc. destruct pre; discriminate.
Qed.

Theorem resolution_complete tbl env scope ref :
  pn_is_full ref = false -> pn_valid ref = true ->
  (find_descriptor tbl env scope ref = LNotFound \/ find_descriptor tbl env scope ref = LNotImported) ->
  forallb (fun c => negb (visible tbl env (fn_append c ref))) (scope_chain (length scope) scope) = true.
Proof.
  unfold find_descriptor. intros Hf Hv. rewrite Hf, Hv. cbn. apply find_loop_missing.
Qed.

(* ------------------------------------------------------------------ generic list lemmas *)
Lemma mapM_map_rt {A B C} (f : A -> Res B) (g : B -> C) (h : A -> C) :
  forall l l', Forall (fun a => forall b, f a = Ok b -> g b = h a) l ->
  mapM f l = Ok l' -> map g l' = map h l.
Proof.
  induction l as [|x l IH]; intros l' HF; cbn.
  - intros H; inversion H; reflexivity.
  - inversion HF as [|? ? Hx Hl]; subst.
    destruct (f x) as [y|e] eqn:Ex; cbn; [|discriminate].
    destruct (mapM f l) as [ys|e] eqn:El; cbn; [|discriminate].
    intros H; inversion H; subst. cbn. rewrite (Hx y eq_refl). f_equal. now apply IH.
Qed.

Lemma mapM_length {A B} (f : A -> Res B) : forall l l', mapM f l = Ok l' -> length l' = length l.
Proof.
  induction l as [|x l IH]; intros l'; cbn.
  - intros H; inversion H; reflexivity.
  - destruct (f x); cbn; [|discriminate]. destruct (mapM f l); cbn; [|discriminate].
    intros H; inversion H; subst. cbn. f_equal. now apply IH.
Qed.

Lemma Forall_flat_map {A B} (P : B -> Prop) (f : A -> list B) (l : list A) :
  Forall P (flat_map f l) -> Forall (fun a => Forall P (f a)) l.
Proof.
  induction l as [|x l IH]; cbn; intros H; [constructor|].
  apply Forall_app in H as [H1 H2]. constructor; auto.
Qed.

Lemma Forall_map_inv {A B} (P : B -> Prop) (f : A -> B) (l : list A) :
  Forall P (map f l) -> Forall (fun a => P (f a)) l.
Proof. induction l; cbn; intros H; inversion H; subst; constructor; auto. Qed.

(* ------------------------------------------------------------------ induction on messages *)
Section MsgInd.
  Variable P : MsgP -> Prop.
  Hypothesis Hm : forall name fields exts nested enums xr oneofs rr rn opts vis,
      Forall P nested -> P (mkMsgP name fields exts nested enums xr oneofs rr rn opts vis).
  Fixpoint MsgP_ind2 (m : MsgP) : P m :=
    match m with
    | mkMsgP name fields exts nested enums xr oneofs rr rn opts vis =>
        Hm name fields exts nested enums xr oneofs rr rn opts vis
           ((fix go (l : list MsgP) : Forall P l :=
               match l with
               | [] => Forall_nil P
               | x :: r => Forall_cons x (MsgP_ind2 x) (go r)
               end) nested)
    end.
End MsgInd.

(* the nested loop of [res_msg] is [mapM] *)
Lemma res_msg_unfold canon S tbl env scope parent name fields exts nested enums xr oneofs rr rn opts vis :
  res_msg canon S tbl env scope parent (mkMsgP name fields exts nested enums xr oneofs rr rn opts vis) =
  let full := fn_append scope name in
  let ef := merge_feat parent (msg_feat opts) in
  let me := msg_is_map_entry opts in
  bind (mapM (res_field canon S tbl env full ef me (length oneofs)) fields) (fun rfields =>
  bind (mapM (res_enum S full ef) enums) (fun renums =>
  bind (mapM (res_msg canon S tbl env full ef) nested) (fun rmsgs =>
  bind (mapM (res_ext canon S tbl env full ef) exts) (fun rexts =>
  Ok (mkRMsg full me rfields
             (map (fun o => mkROneof (fn_append full (o_name o)) (o_opts o)) oneofs)
             renums rmsgs rexts xr rr rn ef opts vis))))).
Proof.
  cbn [res_msg]. cbv zeta.
  destruct (mapM (res_field canon S tbl env (fn_append scope name) (merge_feat parent (msg_feat opts))
                            (msg_is_map_entry opts) (length oneofs)) fields); [|reflexivity].
  cbn [bind].
  destruct (mapM (res_enum S (fn_append scope name) (merge_feat parent (msg_feat opts))) enums); [|reflexivity].
  cbn [bind].
  match goal with |- bind (?F nested) _ = _ =>
    assert (E : forall l, F l = mapM (res_msg canon S tbl env (fn_append scope name) (merge_feat parent (msg_feat opts))) l)
  end.
  { induction l as [|x l IH]; [reflexivity|]. cbn [mapM]. rewrite <- IH. reflexivity. }
  rewrite E. reflexivity.
Qed.

(* ------------------------------------------------------------------ to_proto (new_file p) = normalize p *)
Definition okd (d : Decl) : Prop := ident_ok (d_name d) = true.

Lemma decls_check_names : forall todo seen, decls_check seen todo = true -> Forall okd todo.
Proof.
  induction todo as [|d r IH]; intros seen; cbn; [constructor|].
  intros H. apply andb_prop in H as [H H3]. apply andb_prop in H as [H1 H2].
  constructor; [exact H1|eauto].
Qed.

Section RoundTrip.
  Variable canon : N -> bytes -> bytes.
  Variable tbl : list Decl.
  Variable env : list RemoteD.
  Variable syn : N.

  Lemma res_target_PD k scope f :
    res_target PD tbl env k scope f = find_target tbl env k scope (opt_get (f_type_name f) []).
  Proof.
    unfold res_target, find_target. cbn [st_ref st_kind0 PD].
    destruct (k =? KIND_ENUM); [reflexivity|].
    destruct ((k =? KIND_MESSAGE) || (k =? KIND_GROUP)); [reflexivity|].
    destruct (k =? 0) eqn:E0; [|reflexivity].
    apply N.eqb_eq in E0. subst. reflexivity.
  Qed.

  Lemma field_rt scope parent pme noneofs f rf :
    ident_ok (f_name f) = true ->
    res_field canon PD tbl env scope parent pme noneofs f = Ok rf ->
    field_to_proto syn rf = norm_field canon tbl env syn scope parent pme false f.
  Proof.
    intros Hn. unfold res_field. rewrite res_target_PD. cbn [st_field_ef PD].
    unfold norm_field.
    set (ef := pd_field_ef parent (f_opts f)).
    destruct (f_oneof_index f) as [oi|] eqn:Eo; cbn [bind].
    - destruct ((0 <=? oi)%Z && (Z.to_nat oi <? noneofs)%nat); cbn [bind]; [|discriminate].
      destruct (find_target tbl env (kind0 ef f) scope (opt_get (f_type_name f) [])) as [[[k en] ms]|e]; cbn [bind]; [|discriminate].
      intros H; inversion H; subst; clear H.
      unfold field_to_proto, has_json_name, json_name, has_optional_keyword, rf_is_ext, out_type, out_label.
      cbn [rf_full rf_number rf_card rf_kind rf_json rf_p3opt rf_lazy rf_default rf_oneof rf_msg rf_enum rf_extendee rf_ef rf_opts].
      rewrite (fn_name_append scope (f_name f) Hn). cbn [negb andb orb option_map].
      f_equal.
      + generalize (if (k =? KIND_GROUP) && (tref_mapentry ms || pme) then KIND_MESSAGE else k). intros K.
        destruct (kind_valid K); destruct (syn =? 4); cbn [andb]; try reflexivity.
        destruct (K =? KIND_GROUP); reflexivity.
      + destruct (f_json_name f); reflexivity.
    - destruct (find_target tbl env (kind0 ef f) scope (opt_get (f_type_name f) [])) as [[[k en] ms]|e]; cbn [bind]; [|discriminate].
      intros H; inversion H; subst; clear H.
      unfold field_to_proto, has_json_name, json_name, has_optional_keyword, rf_is_ext, out_type, out_label.
      cbn [rf_full rf_number rf_card rf_kind rf_json rf_p3opt rf_lazy rf_default rf_oneof rf_msg rf_enum rf_extendee rf_ef rf_opts].
      rewrite (fn_name_append scope (f_name f) Hn). cbn [negb andb orb option_map].
      f_equal.
      + generalize (if (k =? KIND_GROUP) && (tref_mapentry ms || pme) then KIND_MESSAGE else k). intros K.
        destruct (kind_valid K); destruct (syn =? 4); cbn [andb]; try reflexivity.
        destruct (K =? KIND_GROUP); reflexivity.
      + destruct (f_json_name f); reflexivity.
  Qed.

  Lemma ext_rt scope parent f rf :
    ident_ok (f_name f) = true ->
    res_ext canon PD tbl env scope parent f = Ok rf ->
    field_to_proto syn rf = norm_field canon tbl env syn scope parent false true f.
  Proof.
    intros Hn. unfold res_ext. rewrite res_target_PD. cbn [st_field_ef st_ref st_ext_lazy PD].
    unfold norm_field, abs_ref.
    set (ef := pd_field_ef parent (f_opts f)).
    destruct (find_kind K_MSG tbl env scope (opt_get (f_extendee f) [])) as [xt|e]; cbn [bind]; [|discriminate].
    destruct (find_target tbl env (kind0 ef f) scope (opt_get (f_type_name f) [])) as [[[k en] ms]|e]; cbn [bind]; [|discriminate].
    intros H; inversion H; subst; clear H.
    unfold field_to_proto, has_json_name, json_name, has_optional_keyword, rf_is_ext, out_type, out_label, card_of.
    cbn [rf_full rf_number rf_card rf_kind rf_json rf_p3opt rf_lazy rf_default rf_oneof rf_msg rf_enum rf_extendee rf_ef rf_opts].
    rewrite (fn_name_append scope (f_name f) Hn). cbn [negb andb orb option_map].
    f_equal.
    - destruct (kind_valid k); destruct (syn =? 4); cbn [andb]; try reflexivity.
      destruct (k =? KIND_GROUP); reflexivity.
    - destruct (f_json_name f); reflexivity.
  Qed.

  Lemma enum_rt S scope parent e re :
    Forall okd (decls_enum scope e) ->
    res_enum S scope parent e = Ok re -> enum_to_proto re = e.
  Proof.
    unfold decls_enum. intros HF. inversion HF as [|? ? Hn Hv]; subst. unfold okd in Hn. cbn [d_name decl] in Hn.
    apply Forall_map_inv in Hv.
    unfold res_enum. intros H; inversion H; subst; clear H.
    unfold enum_to_proto. cbn [re_full re_values re_rranges re_rnames re_opts re_vis].
    rewrite (fn_name_append scope (e_name e) Hn).
    rewrite map_map. cbn [rv_full rv_number rv_opts]. clear HF.
    assert (E : map (fun x => mkEnumValP (fn_name (fn_append (fn_parent (fn_append scope (e_name e))) (ev_name x)))
                                   (ev_number x) (ev_opts x)) (e_values e) = e_values e).
    { rewrite <- (map_id (e_values e)) at 2. apply map_ext_in. intros v Hv'.
      rewrite Forall_forall in Hv. specialize (Hv v Hv'). unfold okd in Hv. cbn [d_name decl] in Hv.
      rewrite (fn_name_append _ (ev_name v) Hv). destruct v; reflexivity. }
    rewrite E. destruct e; reflexivity.
  Qed.

  Lemma msg_rt : forall m scope parent rm,
    Forall okd (decls_msg scope m) ->
    res_msg canon PD tbl env scope parent m = Ok rm ->
    msg_to_proto syn rm = norm_msg canon tbl env syn scope parent m.
  Proof.
    induction m as [name fields exts nested enums xr oneofs rr rn opts vis IH] using MsgP_ind2.
    intros scope parent rm HF. rewrite res_msg_unfold. cbv zeta.
    cbn [decls_msg] in HF. inversion HF as [|? ? Hn HF1]; subst. unfold okd in Hn. cbn [d_name decl] in Hn.
    apply Forall_app in HF1 as [Hfields HF2]. apply Forall_app in HF2 as [Honeofs HF3].
    apply Forall_app in HF3 as [Henums HF4]. apply Forall_app in HF4 as [Hnested Hexts].
    apply Forall_map_inv in Hfields. apply Forall_map_inv in Honeofs. apply Forall_map_inv in Hexts.
    apply Forall_flat_map in Henums. apply Forall_flat_map in Hnested.
    set (full := fn_append scope name). set (ef := merge_feat parent (msg_feat opts)).
    destruct (mapM (res_field canon PD tbl env full ef (msg_is_map_entry opts) (length oneofs)) fields) as [rfields|] eqn:Ef; cbn [bind]; [|discriminate].
    destruct (mapM (res_enum PD full ef) enums) as [renums|] eqn:Ee; cbn [bind]; [|discriminate].
    destruct (mapM (res_msg canon PD tbl env full ef) nested) as [rmsgs|] eqn:Em; cbn [bind]; [|discriminate].
    destruct (mapM (res_ext canon PD tbl env full ef) exts) as [rexts|] eqn:Ex; cbn [bind]; [|discriminate].
    intros H; inversion H; subst; clear H.
    cbn [msg_to_proto norm_msg]. fold full. fold ef.
    replace (fn_name full) with name by (unfold full; now rewrite fn_name_append).
    f_equal.
    - eapply mapM_map_rt; [|exact Ef].
      eapply Forall_impl; [|exact Hfields]. intros f Hf b Hb. cbn beta in Hf. unfold okd in Hf. cbn [d_name decl] in Hf.
      eapply field_rt; eauto.
    - eapply mapM_map_rt; [|exact Ex].
      eapply Forall_impl; [|exact Hexts]. intros f Hf b Hb. cbn beta in Hf. unfold okd in Hf. cbn [d_name decl] in Hf.
      eapply ext_rt; eauto.
    - eapply mapM_map_rt; [|exact Em].
      apply Forall_forall. intros x Hx b Hb.
      rewrite Forall_forall in IH. rewrite Forall_forall in Hnested.
      eapply IH; [exact Hx|apply Hnested; exact Hx|exact Hb].
    - rewrite <- (map_id enums). eapply mapM_map_rt; [|exact Ee].
      eapply Forall_impl; [|exact Henums]. intros e He b Hb. eapply enum_rt; [exact He|exact Hb].
    - rewrite map_map. rewrite <- (map_id oneofs) at 2. apply map_ext_in.
      intros o Ho. cbn [ro_full ro_opts].
      rewrite Forall_forall in Honeofs. specialize (Honeofs o Ho). unfold okd in Honeofs. cbn [d_name decl] in Honeofs.
      rewrite (fn_name_append full (o_name o) Honeofs). destruct o; reflexivity.
  Qed.

  (* top level *)
  Theorem to_proto_res_file p d :
    Forall okd (decls_file p) ->
    (forall s0 e0, syntax_of p = Some (s0, e0) -> s0 = syn) ->
    tbl = decls_file p ->
    res_file canon PD tbl env p = Ok d ->
    to_proto d = normalize canon env p.
  Proof.
    intros HF Hsyn Htbl. unfold res_file, normalize.
    destruct (syntax_of p) as [[s0 ed]|] eqn:Es; [|discriminate].
    specialize (Hsyn s0 ed eq_refl). subst s0.
    unfold decls_file in HF.
    apply Forall_app in HF as [Henums HF]. apply Forall_app in HF as [Hmsgs HF]. apply Forall_app in HF as [Hexts Hsvcs].
    apply Forall_flat_map in Henums. apply Forall_flat_map in Hmsgs. apply Forall_map_inv in Hexts. apply Forall_flat_map in Hsvcs.
    set (pkg := pkg_of p). set (ef := merge_feat (ef_defaults ed) (gen_feat (fp_opts p))).
    destruct (mapM (res_enum PD pkg ef) (fp_enums p)) as [renums|] eqn:Ee; cbn [bind]; [|discriminate].
    destruct (mapM (res_msg canon PD tbl env pkg ef) (fp_msgs p)) as [rmsgs|] eqn:Em; cbn [bind]; [|discriminate].
    destruct (mapM (res_ext canon PD tbl env pkg ef) (fp_exts p)) as [rexts|] eqn:Ex; cbn [bind]; [|discriminate].
    intros H; inversion H; subst d; clear H.
    unfold to_proto.
    cbn [rfl_path rfl_package rfl_syntax rfl_edition rfl_deps rfl_public rfl_enums rfl_msgs rfl_exts rfl_svcs rfl_opts].
    rewrite <- Htbl. fold pkg. fold ef.
    f_equal.
    - destruct pkg; reflexivity.
    - eapply mapM_map_rt; [|exact Em].
      eapply Forall_impl; [|exact Hmsgs]. intros m Hm b Hb. eapply msg_rt; [exact Hm|exact Hb].
    - rewrite <- (map_id (fp_enums p)). eapply mapM_map_rt; [|exact Ee].
      eapply Forall_impl; [|exact Henums]. intros e He b Hb. eapply enum_rt; [exact He|exact Hb].
    - eapply mapM_map_rt; [|exact Ex].
      eapply Forall_impl; [|exact Hexts]. intros f Hf b Hb. cbn beta in Hf. unfold okd in Hf. cbn [d_name decl] in Hf.
      eapply ext_rt; eauto.
    - rewrite map_map. rewrite <- (map_id (fp_svcs p)) at 2. apply map_ext_in.
      intros s Hs. cbn [rs_full rs_methods rs_opts].
      rewrite Forall_forall in Hsvcs. specialize (Hsvcs s Hs). inversion Hsvcs as [|? ? Hn Hms]; subst.
      unfold okd in Hn. cbn [d_name decl] in Hn. apply Forall_map_inv in Hms.
      rewrite (fn_name_append pkg (s_name s) Hn). rewrite map_map.
      assert (E : map (fun x => fn_name (fn_append (fn_append pkg (s_name s)) x)) (s_methods s) = s_methods s).
      { rewrite <- (map_id (s_methods s)) at 2. apply map_ext_in. intros x Hx.
        rewrite Forall_forall in Hms. specialize (Hms x Hx). unfold okd in Hms. cbn [d_name decl] in Hms.
        now rewrite fn_name_append. }
      rewrite E. destruct s; reflexivity.
  Qed.
End RoundTrip.

(* C34 to_proto_new_file *)
Theorem to_proto_new_file canon env p d :
  new_file canon env p = Ok d -> to_proto d = normalize canon env p.
Proof.
  unfold new_file.
  destruct (fp_name p) as [[|c n]|] eqn:En; try discriminate.
  destruct (negb (beq (pkg_of p) [] || fullname_ok (pkg_of p))); [discriminate|].
  destruct (syntax_of p) as [[s0 e0]|] eqn:Es; [|discriminate].
  destruct (decls_check [] (decls_file p)) eqn:Ec; [|discriminate].
  intros H. eapply (to_proto_res_file canon (decls_file p) env s0); eauto.
  - eapply decls_check_names; eauto.
  - intros s1 e1 E. congruence.
Qed.

(* ------------------------------------------------------------------ C37: the two builders agree *)
(* Well-formedness of the builder's input (what protoc-gen-go embeds): every type is set and
   every reference is absolute; plus the exclusion of the two recorded divergences:
   FK2 an extension with lazy = true,
   FK3 a field with both an explicit packed option and features.repeated_field_encoding. *)
Definition ref_abs (r : option bytes) : bool := match r with Some r => pn_is_full r | None => true end.
Definition no_packed_clash (o : option FieldOpts) : bool :=
  match o with
  | Some o => match o_packed o, o_feat o with
              | Some _, Some fs => match fo_rep fs with Some _ => false | None => true end
              | _, _ => true
              end
  | None => true
  end.
Definition wf37_field (f : FieldP) : bool :=
  match f_type f with Some k => negb (k =? 0) | None => false end
  && ref_abs (f_type_name f) && no_packed_clash (f_opts f).
Definition wf37_ext (f : FieldP) : bool :=
  wf37_field f && ref_abs (f_extendee f) && negb (opts_lazy (f_opts f)).
Fixpoint wf37_msg (m : MsgP) : bool :=
  match m with
  | mkMsgP _ fields exts nested enums _ _ _ _ _ _ =>
      forallb wf37_field fields && forallb wf37_ext exts && forallb wf37_msg nested
  end.
Definition wf37 (p : FileP) : bool :=
  forallb wf37_msg (fp_msgs p) && forallb wf37_ext (fp_exts p).

Lemma mapM_agree {A B} (f g : A -> Res B) :
  forall l l', Forall (fun a => forall b, f a = Ok b -> g a = Ok b) l -> mapM f l = Ok l' -> mapM g l = Ok l'.
Proof.
  induction l as [|x l IH]; intros l' HF; cbn; [auto|].
  inversion HF as [|? ? Hx Hl]; subst.
  destruct (f x) as [y|] eqn:Ex; cbn; [|discriminate].
  destruct (mapM f l) as [ys|] eqn:El; cbn; [|discriminate].
  intros H; inversion H; subst. rewrite (Hx y eq_refl). cbn. rewrite (IH ys Hl eq_refl). reflexivity.
Qed.

Lemma field_ef_agree parent o : no_packed_clash o = true -> fd_field_ef parent o = pd_field_ef parent o.
Proof.
  unfold no_packed_clash, fd_field_ef, pd_field_ef, field_feat.
  destruct o as [[pk lz ft rest]|]; cbn [o_packed o_feat]; [|reflexivity].
  destruct pk as [b|]; [|reflexivity].
  destruct ft as [[a1 a2 a3 a4 a5 a6 ar]|]; cbn [fo_rep]; [|reflexivity].
  destruct a3; [discriminate|]. intros _. destruct parent. reflexivity.
Qed.

Lemma find_decl_kind_of tbl want s : forall d,
  find_decl tbl s = Some d -> d_kind d = want -> find_decl_kind tbl want s = Some d.
Proof.
  induction tbl as [|x tbl IH]; cbn; [discriminate|].
  intros d. destruct (beq (d_full x) s) eqn:E.
  - intros H; inversion H; subst. intros Hk. rewrite Hk, N.eqb_refl. reflexivity.
  - intros H Hk. rewrite andb_false_r. auto.
Qed.

Lemma find_decl_kind_none tbl want s : find_decl tbl s = None -> find_decl_kind tbl want s = None.
Proof.
  induction tbl as [|x tbl IH]; cbn; [reflexivity|].
  destruct (beq (d_full x) s); [discriminate|]. rewrite andb_false_r. exact IH.
Qed.

Lemma ref_agree want tbl env scope ref t :
  pn_is_full ref = true \/ ref = [] ->
  find_kind want tbl env scope ref = Ok t -> fd_ref want tbl env scope ref = Ok t.
Proof.
  intros [Hf|Hn].
  - unfold find_kind, find_descriptor, fd_ref. rewrite Hf. cbn [negb].
    destruct (negb (pn_valid ref)); [discriminate|].
    cbn [find_loop]. change (fn_append [] (pn_strip ref)) with (pn_strip ref).
    destruct (find_decl tbl (pn_strip ref)) as [d|] eqn:Ed.
    + destruct (d_kind d =? want) eqn:Ek; [|discriminate].
      intros H; inversion H; subst. apply N.eqb_eq in Ek.
      now rewrite (find_decl_kind_of tbl want (pn_strip ref) d Ed Ek).
    + rewrite (find_decl_kind_none tbl want _ Ed).
      destruct (find_remote env (pn_strip ref)) as [r|]; [|discriminate].
      destruct (r_imported r); [|discriminate].
      destruct (r_kind r =? want); [|discriminate].
      intros H; inversion H; reflexivity.
  - subst. unfold find_kind, find_descriptor. cbn. discriminate.
Qed.

Lemma ref_abs_cases r : ref_abs r = true -> pn_is_full (opt_get r []) = true \/ opt_get r [] = [].
Proof. destruct r; cbn; auto. Qed.

Section Agree.
  Variable canon : N -> bytes -> bytes.
  Variable tbl : list Decl.
  Variable env : list RemoteD.

  Lemma target_agree k scope f kem :
    negb (k =? 0) = true -> ref_abs (f_type_name f) = true ->
    res_target PD tbl env k scope f = Ok kem -> res_target FD tbl env k scope f = Ok kem.
  Proof.
    intros Hk Hr. apply ref_abs_cases in Hr.
    unfold res_target. cbn [st_ref st_kind0 PD FD].
    destruct (k =? KIND_ENUM) eqn:E1.
    { destruct (find_kind K_ENUM tbl env scope (opt_get (f_type_name f) [])) as [t|] eqn:E; cbn [bind]; [|discriminate].
      now rewrite (ref_agree _ _ _ _ _ _ Hr E). }
    destruct ((k =? KIND_MESSAGE) || (k =? KIND_GROUP)) eqn:E2.
    { destruct (find_kind K_MSG tbl env scope (opt_get (f_type_name f) [])) as [t|] eqn:E; cbn [bind]; [|discriminate].
      now rewrite (ref_agree _ _ _ _ _ _ Hr E). }
    destruct (k =? 0) eqn:E0; [discriminate|].
    unfold find_target. rewrite E1, E2, E0.
    destruct (opt_get (f_type_name f) []); [|discriminate].
    destruct (kind_valid k); [|discriminate]. auto.
  Qed.

  Lemma kind0_nonzero ef f : match f_type f with Some k => negb (k =? 0) | None => false end = true ->
    negb (kind0 ef f =? 0) = true.
  Proof.
    unfold kind0. destruct (f_type f) as [k|]; [|discriminate]. cbn [opt_get]. intros H.
    destruct ((k =? KIND_MESSAGE) && ef_delim ef); [reflexivity|exact H].
  Qed.

  Lemma field_agree scope parent pme n f rf :
    wf37_field f = true ->
    res_field canon PD tbl env scope parent pme n f = Ok rf ->
    res_field canon FD tbl env scope parent pme n f = Ok rf.
  Proof.
    unfold wf37_field. intros H. apply andb_prop in H as [H H3]. apply andb_prop in H as [H1 H2].
    unfold res_field. cbn [st_field_ef PD FD]. rewrite (field_ef_agree parent (f_opts f) H3).
    set (ef := pd_field_ef parent (f_opts f)).
    destruct (match f_oneof_index f with
              | Some k => if (0 <=? k)%Z && (Z.to_nat k <? n)%nat then Ok (Some (Z.to_nat k)) else Err 2
              | None => Ok None end) as [oo|]; cbn [bind]; [|discriminate].
    destruct (res_target PD tbl env (kind0 ef f) scope f) as [kem|] eqn:E; cbn [bind]; [|discriminate].
    rewrite (target_agree _ _ _ _ (kind0_nonzero ef f H1) H2 E). cbn [bind]. auto.
  Qed.

  Lemma ext_agree scope parent f rf :
    wf37_ext f = true ->
    res_ext canon PD tbl env scope parent f = Ok rf ->
    res_ext canon FD tbl env scope parent f = Ok rf.
  Proof.
    unfold wf37_ext, wf37_field. intros H. apply andb_prop in H as [H H5]. apply andb_prop in H as [H H4].
    apply andb_prop in H as [H H3]. apply andb_prop in H as [H1 H2].
    unfold res_ext. cbn [st_field_ef st_ref st_ext_lazy PD FD]. rewrite (field_ef_agree parent (f_opts f) H3).
    set (ef := pd_field_ef parent (f_opts f)).
    destruct (find_kind K_MSG tbl env scope (opt_get (f_extendee f) [])) as [xt|] eqn:Ex; cbn [bind]; [|discriminate].
    rewrite (ref_agree _ _ _ _ _ _ (ref_abs_cases _ H4) Ex). cbn [bind].
    destruct (res_target PD tbl env (kind0 ef f) scope f) as [kem|] eqn:E; cbn [bind]; [|discriminate].
    rewrite (target_agree _ _ _ _ (kind0_nonzero ef f H1) H2 E). cbn [bind].
    destruct (opts_lazy (f_opts f)); [discriminate|]. auto.
  Qed.

  Lemma enum_agree scope parent e re :
    res_enum PD scope parent e = Ok re -> res_enum FD scope parent e = Ok re.
  Proof. unfold res_enum. cbn [st_enum_ef PD FD]. auto. Qed.

  Lemma msg_agree : forall m scope parent rm,
    wf37_msg m = true ->
    res_msg canon PD tbl env scope parent m = Ok rm -> res_msg canon FD tbl env scope parent m = Ok rm.
  Proof.
    induction m as [name fields exts nested enums xr oneofs rr rn opts vis IH] using MsgP_ind2.
    intros scope parent rm Hwf. rewrite !res_msg_unfold. cbv zeta.
    cbn [wf37_msg] in Hwf. apply andb_prop in Hwf as [Hwf Hn].
    apply andb_prop in Hwf as [Hf Hx].
    rewrite forallb_forall in Hf, Hx, Hn.
    set (full := fn_append scope name). set (ef := merge_feat parent (msg_feat opts)).
    destruct (mapM (res_field canon PD tbl env full ef (msg_is_map_entry opts) (length oneofs)) fields) as [rfields|] eqn:Ef; cbn [bind]; [|discriminate].
    rewrite (mapM_agree (res_field canon PD tbl env full ef (msg_is_map_entry opts) (length oneofs)) (res_field canon FD tbl env full ef (msg_is_map_entry opts) (length oneofs))fields rfields); [|
      apply Forall_forall; intros f Hin b Hb; apply field_agree; auto | exact Ef].
    cbn [bind].
    destruct (mapM (res_enum PD full ef) enums) as [renums|] eqn:Ee; cbn [bind]; [|discriminate].
    rewrite (mapM_agree (res_enum PD full ef) (res_enum FD full ef)enums renums); [|
      apply Forall_forall; intros e Hin b Hb; apply enum_agree; auto | exact Ee].
    cbn [bind].
    destruct (mapM (res_msg canon PD tbl env full ef) nested) as [rmsgs|] eqn:Em; cbn [bind]; [|discriminate].
    rewrite (mapM_agree (res_msg canon PD tbl env full ef) (res_msg canon FD tbl env full ef)nested rmsgs); [|
      apply Forall_forall; intros x Hin b Hb; rewrite Forall_forall in IH; apply IH; auto | exact Em].
    cbn [bind].
    destruct (mapM (res_ext canon PD tbl env full ef) exts) as [rexts|] eqn:Ex; cbn [bind]; [|discriminate].
    rewrite (mapM_agree (res_ext canon PD tbl env full ef) (res_ext canon FD tbl env full ef)exts rexts); [|
      apply Forall_forall; intros f Hin b Hb; apply ext_agree; auto | exact Ex].
    cbn [bind]. auto.
  Qed.

  Lemma file_agree p d :
    wf37 p = true -> res_file canon PD tbl env p = Ok d -> res_file canon FD tbl env p = Ok d.
  Proof.
    unfold wf37. intros Hwf. apply andb_prop in Hwf as [Hm Hx].
    rewrite forallb_forall in Hm, Hx.
    unfold res_file. destruct (syntax_of p) as [[syn ed]|]; [|discriminate].
    set (pkg := pkg_of p). set (ef := merge_feat (ef_defaults ed) (gen_feat (fp_opts p))).
    destruct (mapM (res_enum PD pkg ef) (fp_enums p)) as [renums|] eqn:Ee; cbn [bind]; [|discriminate].
    rewrite (mapM_agree (res_enum PD pkg ef) (res_enum FD pkg ef)(fp_enums p) renums); [|
      apply Forall_forall; intros e Hin b Hb; apply enum_agree; auto | exact Ee].
    cbn [bind].
    destruct (mapM (res_msg canon PD tbl env pkg ef) (fp_msgs p)) as [rmsgs|] eqn:Em; cbn [bind]; [|discriminate].
    rewrite (mapM_agree (res_msg canon PD tbl env pkg ef) (res_msg canon FD tbl env pkg ef)(fp_msgs p) rmsgs); [|
      apply Forall_forall; intros x Hin b Hb; apply msg_agree; auto | exact Em].
    cbn [bind].
    destruct (mapM (res_ext canon PD tbl env pkg ef) (fp_exts p)) as [rexts|] eqn:Ex; cbn [bind]; [|discriminate].
    rewrite (mapM_agree (res_ext canon PD tbl env pkg ef) (res_ext canon FD tbl env pkg ef)(fp_exts p) rexts); [|
      apply Forall_forall; intros f Hin b Hb; apply ext_agree; auto | exact Ex].
    cbn [bind]. auto.
  Qed.
End Agree.

(* C37 builders_agree_partial (on the decoded proto) *)
Theorem builders_agree canon env p d :
  wf37 p = true -> new_file canon env p = Ok d -> fd_build canon env p = Ok d.
Proof.
  unfold new_file, fd_build. intros Hwf.
  destruct (fp_name p) as [[|c n]|]; try discriminate.
  destruct (negb (beq (pkg_of p) [] || fullname_ok (pkg_of p))); [discriminate|].
  destruct (syntax_of p) as [[s0 e0]|]; [|discriminate].
  destruct (decls_check [] (decls_file p)); [|discriminate].
  apply file_agree. exact Hwf.
Qed.

(* ... and on the raw descriptor, for any decoder that inverts the encoder *)
Section Raw.
  Variable encode : FileP -> bytes.
  Variable decode : bytes -> option FileP.
  Hypothesis decode_encode : forall p, decode (encode p) = Some p.

  Definition raw_build canon env (raw : bytes) : Res RFile :=
    match decode raw with Some p => fd_build canon env p | None => Err 3 end.

  Theorem builders_agree_raw canon env p d :
    wf37 p = true -> new_file canon env p = Ok d -> raw_build canon env (encode p) = Ok d.
  Proof. intros Hwf H. unfold raw_build. rewrite decode_encode. now apply builders_agree. Qed.
End Raw.

(* ------------------------------------------------------------------ validity of full names *)
Lemma split_dots_nonempty s : split_dots s <> [].
Proof.
  induction s as [|c r IH]; cbn; [discriminate|].
  destruct (is_dot c); [discriminate|]. destruct (split_dots r); discriminate.
Qed.

Lemma split_dots_app p n : split_dots (p ++ c_dot :: n) = split_dots p ++ split_dots n.
Proof.
  induction p as [|c p IH].
  - cbn [app split_dots]. unfold is_dot at 1. rewrite beq_byte_refl. reflexivity.
  - cbn [app split_dots]. destruct (is_dot c); [now rewrite IH|].
    rewrite IH. pose proof (split_dots_nonempty p) as Hne.
    destruct (split_dots p) as [|h t]; [congruence|reflexivity].
Qed.

Lemma split_dots_no_dot n : no_dot n = true -> split_dots n = [n].
Proof.
  induction n as [|c r IH]; cbn; [reflexivity|].
  intros H. apply andb_prop in H as [H1 H2]. destruct (is_dot c); [discriminate|].
  now rewrite (IH H2).
Qed.

Definition scope_ok (s : bytes) : Prop := s = [] \/ fullname_ok s = true.

Lemma fullname_ok_append p n : scope_ok p -> ident_ok n = true -> fullname_ok (fn_append p n) = true.
Proof.
  intros Hp Hn. pose proof (split_dots_no_dot n (ident_no_dot n Hn)) as En.
  unfold fullname_ok, fn_append. destruct p as [|c p].
  - rewrite En. cbn. now rewrite Hn.
  - destruct Hp as [Hp|Hp]; [discriminate|].
    rewrite split_dots_app, forallb_app, En. unfold fullname_ok in Hp. rewrite Hp. cbn. now rewrite Hn.
Qed.

Lemma fullname_ok_join p r : scope_ok p -> fullname_ok r = true -> fullname_ok (fn_append p r) = true.
Proof.
  intros Hp Hr. unfold fn_append. destruct p as [|c p]; [exact Hr|].
  destruct Hp as [Hp|Hp]; [discriminate|].
  unfold fullname_ok in *. now rewrite split_dots_app, forallb_app, Hp, Hr.
Qed.

Lemma split_last_split_dots s : forall a b, split_last s = Some (a, b) -> split_dots s = split_dots a ++ split_dots b.
Proof.
  induction s as [|c r IH]; cbn [split_last]; [discriminate|].
  intros a b. destruct (split_last r) as [[a' b']|] eqn:E.
  - intros H; inversion H; subst. cbn [split_dots]. rewrite (IH a' b eq_refl).
    destruct (is_dot c); [reflexivity|].
    pose proof (split_dots_nonempty a') as Hne. destruct (split_dots a'); [congruence|reflexivity].
  - destruct (is_dot c) eqn:Ec; [|discriminate]. intros H; inversion H; subst.
    cbn [split_dots]. rewrite Ec. reflexivity.
Qed.

Lemma scope_ok_parent s : scope_ok s -> scope_ok (fn_parent s).
Proof.
  intros [Hs|Hs]; [subst; left; reflexivity|].
  unfold fn_parent. destruct (split_last s) as [[a b]|] eqn:E; [|left; reflexivity].
  right. unfold fullname_ok in *. rewrite (split_last_split_dots s a b E), forallb_app in Hs.
  now apply andb_prop in Hs as [Ha _].
Qed.

Definition vald (d : Decl) : Prop := fullname_ok (d_full d) = true.

Lemma decls_enum_valid scope e : scope_ok scope -> Forall okd (decls_enum scope e) -> Forall vald (decls_enum scope e).
Proof.
  intros Hs HF. unfold decls_enum in *. inversion HF as [|? ? Hn Hv]; subst. unfold okd in Hn. cbn [d_name decl] in Hn.
  constructor; [unfold vald; cbn [d_full decl]; now apply fullname_ok_append|].
  rewrite (fn_parent_append scope (e_name e) Hn) in *.
  apply Forall_map_inv in Hv. apply Forall_forall. intros d Hd. apply in_map_iff in Hd as (v & <- & Hin).
  rewrite Forall_forall in Hv. specialize (Hv v Hin). unfold okd in Hv. cbn [d_name decl] in Hv.
  unfold vald. cbn [d_full decl]. now apply fullname_ok_append.
Qed.

Lemma Forall_flat_map_intro {A B} (P : B -> Prop) (f : A -> list B) (l : list A) :
  Forall (fun a => Forall P (f a)) l -> Forall P (flat_map f l).
Proof. induction l; cbn; intros H; [constructor|]. inversion H; subst. apply Forall_app; auto. Qed.

Lemma names_valid scope (names : list bytes) k :
  scope_ok scope -> Forall (fun n => ident_ok n = true) names ->
  Forall vald (map (fun n => decl scope n k false) names).
Proof.
  intros Hs HF. apply Forall_forall. intros d Hd. apply in_map_iff in Hd as (n & <- & Hin).
  rewrite Forall_forall in HF. unfold vald. cbn [d_full decl]. apply fullname_ok_append; auto.
Qed.

Lemma decls_msg_valid : forall m scope, scope_ok scope -> Forall okd (decls_msg scope m) -> Forall vald (decls_msg scope m).
Proof.
  induction m as [name fields exts nested enums xr oneofs rr rn opts vis IH] using MsgP_ind2.
  intros scope Hs HF. cbn [decls_msg] in *. inversion HF as [|? ? Hn HF1]; subst. unfold okd in Hn. cbn [d_name decl] in Hn.
  apply Forall_app in HF1 as [Hfields HF2]. apply Forall_app in HF2 as [Honeofs HF3].
  apply Forall_app in HF3 as [Henums HF4]. apply Forall_app in HF4 as [Hnested Hexts].
  assert (Hfull : scope_ok (fn_append scope name)) by (right; now apply fullname_ok_append).
  constructor; [unfold vald; cbn [d_full decl]; now apply fullname_ok_append|].
  apply Forall_app; split; [|apply Forall_app; split; [|apply Forall_app; split; [|apply Forall_app; split]]].
  - apply Forall_forall. intros d Hd. apply in_map_iff in Hd as (f & <- & Hin).
    rewrite Forall_forall in Hfields. specialize (Hfields _ (in_map _ _ _ Hin)). unfold okd in Hfields. cbn [d_name decl] in Hfields.
    unfold vald. cbn [d_full decl]. now apply fullname_ok_append.
  - apply Forall_forall. intros d Hd. apply in_map_iff in Hd as (f & <- & Hin).
    rewrite Forall_forall in Honeofs. specialize (Honeofs _ (in_map _ _ _ Hin)). unfold okd in Honeofs. cbn [d_name decl] in Honeofs.
    unfold vald. cbn [d_full decl]. now apply fullname_ok_append.
  - apply Forall_flat_map_intro. apply Forall_flat_map in Henums.
    eapply Forall_impl; [|exact Henums]. intros e He. now apply decls_enum_valid.
  - apply Forall_flat_map_intro. apply Forall_flat_map in Hnested.
    apply Forall_forall. intros x Hx. rewrite Forall_forall in IH, Hnested. apply IH; auto.
  - apply Forall_forall. intros d Hd. apply in_map_iff in Hd as (f & <- & Hin).
    rewrite Forall_forall in Hexts. specialize (Hexts _ (in_map _ _ _ Hin)). unfold okd in Hexts. cbn [d_name decl] in Hexts.
    unfold vald. cbn [d_full decl]. now apply fullname_ok_append.
Qed.

Lemma decls_file_valid p : scope_ok (pkg_of p) -> Forall okd (decls_file p) -> Forall vald (decls_file p).
Proof.
  intros Hs HF. unfold decls_file in *.
  apply Forall_app in HF as [Henums HF]. apply Forall_app in HF as [Hmsgs HF]. apply Forall_app in HF as [Hexts Hsvcs].
  apply Forall_app; split; [|apply Forall_app; split; [|apply Forall_app; split]].
  - apply Forall_flat_map_intro. apply Forall_flat_map in Henums.
    eapply Forall_impl; [|exact Henums]. intros e He. now apply decls_enum_valid.
  - apply Forall_flat_map_intro. apply Forall_flat_map in Hmsgs.
    eapply Forall_impl; [|exact Hmsgs]. intros m Hm. now apply decls_msg_valid.
  - apply Forall_forall. intros d Hd. apply in_map_iff in Hd as (f & <- & Hin).
    rewrite Forall_forall in Hexts. specialize (Hexts _ (in_map _ _ _ Hin)). unfold okd in Hexts. cbn [d_name decl] in Hexts.
    unfold vald. cbn [d_full decl]. now apply fullname_ok_append.
  - apply Forall_flat_map_intro. apply Forall_flat_map in Hsvcs.
    eapply Forall_impl; [|exact Hsvcs]. intros s Hsv. cbn beta in *.
    inversion Hsv as [|? ? Hn Hms]; subst. unfold okd in Hn. cbn [d_name decl] in Hn.
    constructor; [unfold vald; cbn [d_full decl]; now apply fullname_ok_append|].
    apply Forall_forall. intros d Hd. apply in_map_iff in Hd as (m & <- & Hin).
    rewrite Forall_forall in Hms. specialize (Hms _ (in_map _ _ _ Hin)). unfold okd in Hms. cbn [d_name decl] in Hms.
    unfold vald. cbn [d_full decl]. apply fullname_ok_append; [right; now apply fullname_ok_append|exact Hms].
Qed.

(* ------------------------------------------------------------------ concrete witnesses *)
From Coq Require Import String.
Local Open Scope string_scope.
Definition bs (s : string) : bytes := list_byte_of_string s.
Definition idc : N -> bytes -> bytes := fun _ s => s.

Definition mk_field (name : string) (num : Z) (label ty : N) (tn : option string) (o : option FieldOpts) : FieldP :=
  mkFieldP (bs name) num label (Some ty) (option_map bs tn) None None None None None o.
Definition mk_msg (name : string) (fields : list FieldP) (nested : list MsgP) (enums : list EnumP) : MsgP :=
  mkMsgP (bs name) fields [] nested enums [] [] [] [] None 0.
Definition mk_enum (name : string) (vals : list (string * Z)) (o : option GenOpts) : EnumP :=
  mkEnumP (bs name) (map (fun v => mkEnumValP (bs (fst v)) (snd v) None) vals) [] [] o 0.
Definition mk_file (name pkg : string) (syntax : option string) (ed : option N) msgs enums exts : FileP :=
  mkFileP (Some (bs name)) (Some (bs pkg)) (option_map bs syntax) ed [] [] msgs enums exts [] None.

(* proto2: message a.M { optional M f = 1 (relative name); optional E e = 2; message M {} }  enum a.E *)
Definition ex_file : FileP :=
  mk_file "x.proto" "a" None None
    [mk_msg "M" [mk_field "f" 1 1 11 (Some "M") None; mk_field "e" 2 1 14 (Some ".a.E") None]
                 [mk_msg "M" [] [] []] []]
    [mk_enum "E" [("Z", 0%Z)] None] [].

Definition is_ok {A} (r : Res A) : bool := match r with Ok _ => true | Err _ => false end.

Lemma ex_file_accepted : is_ok (new_file idc [] ex_file) = true.
Proof. vm_compute. reflexivity. Qed.

(* the relative name M inside a.M resolves to the nested a.M.M *)
Definition ex_abs_name : bytes := bs ".a.M.M".
Lemma ex_file_normal_form :
  match normalize idc [] ex_file with
  | mkFileP _ _ _ _ _ _ [mkMsgP _ (f :: _) _ _ _ _ _ _ _ _ _] _ _ _ _ => f_type_name f = Some ex_abs_name
  | _ => False
  end.
Proof. vm_compute. reflexivity. Qed.

Lemma ex_file_wf37 : wf37 (normalize idc [] ex_file) = true /\ is_ok (new_file idc [] (normalize idc [] ex_file)) = true.
Proof. vm_compute. split; reflexivity. Qed.

(* regression input for the repaired FK1 (commit 42c075f): an enum with its own features,
   edition 2023, enum E { option features.enum_type = CLOSED; }: both builders say closed *)
Definition feat_closed : FeatOv := mkFeatOv None (Some 2) None None None None [].
Definition fk1_file : FileP :=
  mk_file "fk1.proto" "c" (Some "editions") (Some 1000) []
    [mk_enum "E" [("A", 1%Z)] (Some (mkGenOpts (Some feat_closed) []))] [].
Definition first_enum_open (r : Res RFile) : option bool :=
  match r with Ok d => match rfl_enums d with e :: _ => Some (ef_open (re_ef e)) | [] => None end | Err _ => None end.

Lemma builders_agree_enum_features_example :
  wf37 fk1_file = true /\
  first_enum_open (new_file idc [] fk1_file) = Some false /\ first_enum_open (fd_build idc [] fk1_file) = Some false.
Proof. vm_compute. repeat split; reflexivity. Qed.

(* FK3: packed = false together with features.repeated_field_encoding = PACKED *)
Definition feat_packed : FeatOv := mkFeatOv None None (Some 1) None None None [].
Definition fk3_file : FileP :=
  mk_file "fk3.proto" "c" (Some "editions") (Some 1000)
    [mk_msg "M" [mk_field "r" 1 3 5 None (Some (mkFieldOpts (Some false) None (Some feat_packed) []))] [] []] [] [].
Definition first_field_packed (r : Res RFile) : option bool :=
  match r with
  | Ok d => match rfl_msgs d with
            | mkRMsg _ _ (f :: _) _ _ _ _ _ _ _ _ _ _ :: _ => Some (is_packed f)
            | _ => None end
  | Err _ => None end.

Theorem builders_disagree_packed_feature :
  exists p, first_field_packed (new_file idc [] p) = Some false /\ first_field_packed (fd_build idc [] p) = Some true.
Proof. exists fk3_file. vm_compute. split; reflexivity. Qed.

(* FK2: extension with lazy = true *)
Definition fk2_file : FileP :=
  mkFileP (Some (bs "fk2.proto")) (Some (bs "c")) None None [] []
    [mkMsgP (bs "M") [] [] [] [] [(100%Z, 200%Z, None)] [] [] [] None 0] []
    [mkFieldP (bs "x") 100 1 (Some 11) (Some (bs ".c.M")) (Some (bs ".c.M")) None None None None
              (Some (mkFieldOpts None (Some true) None []))] [] None.
Definition first_ext_lazy (r : Res RFile) : option bool :=
  match r with Ok d => match rfl_exts d with f :: _ => Some (rf_lazy f) | [] => None end | Err _ => None end.

Theorem builders_disagree_extension_lazy :
  exists p, first_ext_lazy (new_file idc [] p) = Some false /\ first_ext_lazy (fd_build idc [] p) = Some true.
Proof. exists fk2_file. vm_compute. split; reflexivity. Qed.

(* FK4 witness: an editions file that says LABEL_REQUIRED the proto2 way *)
Definition fk4_file : FileP :=
  mk_file "fk4.proto" "c" (Some "editions") (Some 1000)
    [mk_msg "M" [mk_field "r" 1 2 5 None None] [] []] [] [].
