(* Proofs about the protojson FieldMask model (C23): marshal succeeds exactly on
   valid reversible paths, and unmarshal inverts it. *)
From Coq Require Import List NArith ZArith Bool Lia Arith.
From Coq Require Import ZifyBool ZifyNat ZifyN.
From PB Require Import Base.PBytes Known.FieldMaskModel Known.FieldMaskP Known.FieldMaskValidP Known.WktJsonModel.
Import ListNotations.

(* letters (without '_'), digits and '.' : what a camel-cased valid path consists of *)
Definition Q (c : byte) : bool := is_lower c || is_upper c || is_digit c || beq c dot.
(* ... plus the separator *)
Definition R (c : byte) : bool := Q c || beq c ch_comma.

Definition path_ok (p : path) : Prop := fullname_valid p = true /\ json_snake_case (json_camel_case p) = p.

Lemma Q_not_us c : Q c = true -> beq c ch_us = false.
Proof. destruct c; intros H; try discriminate H; reflexivity. Qed.
Lemma Q_not_comma c : Q c = true -> c <> ch_comma.
Proof. intros H ->. discriminate H. Qed.
Lemma to_upper_Q c : is_lower c = true -> Q (to_upper c) = true.
Proof. destruct c; intros H; try discriminate H; reflexivity. Qed.
Lemma idchar_Q c : is_letter_digit c || beq c dot = true -> beq c ch_us = false -> Q c = true.
Proof. destruct c; intros H1 H2; try discriminate H1; try discriminate H2; reflexivity. Qed.

Lemma fullname_chars s : forall start, fullname_aux start s = true -> Forall (fun c => is_letter_digit c || beq c dot = true) s.
Proof.
  induction s as [|c r IH]; intros start; [constructor|]. cbn [fullname_aux].
  destruct start.
  - rewrite andb_true_iff. intros [H1 H2]. constructor; [|eauto].
    cbv beta. unfold is_letter_digit. now rewrite H1.
  - destruct (beq c dot) eqn:E.
    + intros H. constructor; [|eauto]. cbv beta. apply orb_true_iff. right. apply beq_true. now apply beq_true in E.
    + rewrite andb_true_iff. intros [H1 H2]. constructor; [|eauto]. cbv beta. now rewrite H1.
Qed.

Lemma camel_Q s : Forall (fun c => is_letter_digit c || beq c dot = true) s ->
  forall w, Forall (fun c => Q c = true) (camel_aux w s).
Proof.
  induction 1 as [|c r Hc Hr IH]; intros w; cbn [camel_aux]; [constructor|].
  destruct (beq c ch_us) eqn:E; [apply IH|].
  constructor; [|apply IH].
  destruct (w && is_lower c) eqn:E2.
  - apply andb_true_iff in E2. now apply to_upper_Q.
  - now apply idchar_Q.
Qed.

Lemma existsb_us_false l : Forall (fun c => Q c = true) l -> existsb (fun c => beq c ch_us) l = false.
Proof.
  induction 1 as [|c r Hc Hr IH]; [reflexivity|]. cbn [existsb]. now rewrite (Q_not_us _ Hc), IH.
Qed.

Lemma camel_paths_spec paths :
  (forall l, camel_paths paths = inr l -> Forall path_ok paths /\ l = map json_camel_case paths) /\
  (Forall path_ok paths -> camel_paths paths = inr (map json_camel_case paths)).
Proof.
  induction paths as [|p t [IH1 IH2]]; cbn [camel_paths map].
  - split; [intros l H; inversion H; auto | reflexivity].
  - split.
    + intros l. destruct (fullname_valid p) eqn:V; cbn [negb]; [|discriminate].
      destruct (bytes_eqb p (json_snake_case (json_camel_case p))) eqn:B; cbn [negb]; [|discriminate].
      apply bytes_eqb_true in B.
      destruct (camel_paths t) as [e|l'] eqn:C; [discriminate|].
      intros H; inversion H; subst. destruct (IH1 _ eq_refl) as [H1 ->].
      split; [constructor; [split; auto|exact H1] | reflexivity].
    + intros H. inversion H as [|? ? [V B] Ht]; subst. rewrite V. cbn [negb].
      assert (bytes_eqb p (json_snake_case (json_camel_case p)) = true) as -> by (apply bytes_eqb_true; auto).
      cbn [negb]. now rewrite (IH2 Ht).
Qed.

(* marshal succeeds <-> every path is a valid full name whose camel-casing is reversible *)
Theorem marshal_fieldmask_accepts paths :
  (exists out, marshal_fieldmask paths = MOk out) <-> Forall path_ok paths.
Proof.
  unfold marshal_fieldmask. destruct (camel_paths_spec paths) as [H1 H2]. split.
  - intros [out H]. destruct (camel_paths paths) as [e|l] eqn:C; [discriminate|]. now destruct (H1 _ eq_refl).
  - intros H. rewrite (H2 H). eauto.
Qed.

Lemma marshal_fieldmask_value paths : Forall path_ok paths ->
  marshal_fieldmask paths = MOk (join_bytes ch_comma (map json_camel_case paths)).
Proof. intros H. unfold marshal_fieldmask. destruct (camel_paths_spec paths) as [_ H2]. now rewrite (H2 H). Qed.

Lemma join_bytes_join_on sep l : join_bytes sep l = join_on sep l.
Proof. induction l as [|s r IH]; [reflexivity|]. cbn [join_bytes join_on]. destruct r; [reflexivity|]. now rewrite IH. Qed.

Lemma R_no_space_prefix c r : R c = true -> space_prefix_len (c :: r) = 0%nat.
Proof. destruct c; intros H; try discriminate H; reflexivity. Qed.
Lemma R_no_space_suffix c r : R c = true -> space_suffix_len (c :: r) = 0%nat.
Proof. destruct c; intros H; try discriminate H; reflexivity. Qed.

Lemma trim_space_id s : Forall (fun c => R c = true) s -> trim_space s = s.
Proof.
  intros H. unfold trim_space.
  assert (trim_left_space (length s) s = s) as ->.
  { destruct s as [|c r]; [reflexivity|]. inversion H; subst. cbn [length trim_left_space].
    now rewrite R_no_space_prefix. }
  assert (Forall (fun c => R c = true) (rev s)) as Hr by (apply Forall_rev; exact H).
  assert (trim_right_space_rev (length s) (rev s) = rev s) as ->.
  { rewrite <- rev_length. destruct (rev s) as [|c r]; [reflexivity|]. inversion Hr; subst.
    cbn [length trim_right_space_rev]. now rewrite R_no_space_suffix. }
  apply rev_involutive.
Qed.

Lemma join_R l : Forall (fun s => Forall (fun c => Q c = true) s) l ->
  Forall (fun c => R c = true) (join_on ch_comma l).
Proof.
  induction 1 as [|s r Hs Hr IH]; [constructor|]. cbn [join_on].
  assert (Forall (fun c => R c = true) s) as Hs'.
  { eapply Forall_impl; [|exact Hs]. intros c Hc. unfold R. now rewrite Hc. }
  destruct r; [exact Hs'|]. apply Forall_app. split; [exact Hs'|]. constructor; [reflexivity | exact IH].
Qed.

Lemma snake_paths_camel paths : Forall path_ok paths ->
  snake_paths (map json_camel_case paths) = Some paths.
Proof.
  induction 1 as [|p t [V B] Ht IH]; [reflexivity|]. cbn [map snake_paths].
  rewrite B, V. cbn [negb].
  rewrite existsb_us_false; [|apply camel_Q; eapply fullname_chars; exact V].
  cbn [orb]. now rewrite IH.
Qed.

(* ... and then unmarshal returns the original paths *)
Theorem fieldmask_json_reversible paths :
  Forall path_ok paths ->
  exists out, marshal_fieldmask paths = MOk out /\ unmarshal_fieldmask out = Some paths.
Proof.
  intros H. rewrite (marshal_fieldmask_value _ H). eexists. split; [reflexivity|].
  rewrite join_bytes_join_on. unfold unmarshal_fieldmask.
  assert (Forall (fun s => Forall (fun c => Q c = true) s) (map json_camel_case paths)) as HQ.
  { apply Forall_map. eapply Forall_impl; [|exact H]. intros p [V _]. apply camel_Q. eapply fullname_chars; exact V. }
  rewrite trim_space_id by (apply join_R; exact HQ).
  destruct paths as [|p t]; [reflexivity|].
  assert (join_on ch_comma (map json_camel_case (p :: t)) <> []) as Hne.
  { inversion H as [|? ? [V B] Ht]; subst. cbn [map join_on].
    assert (json_camel_case p <> []) as Hc.
    { intros E. rewrite E in B. cbn in B. subst p. discriminate V. }
    destruct (map json_camel_case t); [exact Hc|]. destruct (json_camel_case p); [congruence | discriminate]. }
  destruct (join_on ch_comma (map json_camel_case (p :: t))) as [|c0' r0] eqn:EJ; [congruence|].
  rewrite <- EJ. rewrite split_join_on.
  - now apply snake_paths_camel.
  - discriminate.
  - eapply Forall_impl; [|exact HQ]. intros s Hs Hin. rewrite Forall_forall in Hs.
    apply Hs in Hin. discriminate Hin.
Qed.
