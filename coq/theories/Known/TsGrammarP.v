(* The grammar of the Timestamp parser model (C23): parse_ts len s succeeds exactly on
   yyyy-mm-ddThh:mm:ss[.d+](Z|[+-]hh:mm) with the field ranges of RFC 3339 (len = false),
   resp. with the four leniencies of the layout-driven time.Parse (len = true). *)
From Coq Require Import List NArith ZArith Bool Lia Arith.
From Coq Require Import ZifyBool ZifyNat ZifyN.
From PB Require Import Base.PBytes Known.FieldMaskModel Known.FieldMaskP Known.DurationModel Known.DurationP
  Known.WktJsonModel Known.DurJsonP Known.CivilModel Known.TsJsonModel Known.TsJsonP.
Import ListNotations.
Open Scope Z_scope.
Ltac Zify.zify_post_hook ::= Z.to_euclidean_division_equations.

Definition digits_n (k : nat) (ds : list byte) : Prop := Forall D ds /\ length ds = k.

Lemma take_digits_sound k : forall s ds rest, take_digits k s = Some (ds, rest) -> s = ds ++ rest /\ digits_n k ds.
Proof.
  induction k as [|k IH]; intros s ds rest; cbn [take_digits].
  - intros H; inversion H; subst. repeat split; constructor.
  - destruct s as [|c r]; [discriminate|]. destruct (is_digit c) eqn:E; [|discriminate].
    destruct (take_digits k r) as [[ds' rest']|] eqn:T; [|discriminate].
    intros H; inversion H; subst. destruct (IH _ _ _ T) as [-> [H1 H2]].
    repeat split; [constructor; auto | cbn; now rewrite H2].
Qed.

Lemma num_spec k lo hi s v rest :
  num k lo hi s = Some (v, rest) <->
  exists ds, s = ds ++ rest /\ digits_n k ds /\ v = dec_value ds /\ lo <= v <= hi.
Proof.
  unfold num, in_range. split.
  - destruct (take_digits k s) as [[ds r]|] eqn:T; [|discriminate].
    destruct (take_digits_sound _ _ _ _ T) as [-> [Hd Hl]].
    destruct ((lo <=? dec_value ds) && (dec_value ds <=? hi)) eqn:E; [|discriminate].
    intros H; inversion H; subst. exists ds. split; [reflexivity|]. split; [split; auto|]. split; [reflexivity|]. lia.
  - intros [ds [-> [[Hd Hl] [-> Hr]]]]. rewrite take_digits_app by assumption.
    assert ((lo <=? dec_value ds) && (dec_value ds <=? hi) = true) as -> by lia. reflexivity.
Qed.

Lemma expect_spec c s r : expect c s = Some r <-> s = c :: r.
Proof.
  unfold expect. destruct s as [|x t]; [split; discriminate|].
  destruct (beq x c) eqn:E.
  - apply beq_true in E; subst. split; intros H; inversion H; reflexivity.
  - split; [discriminate|]. intros H; inversion H; subst. now rewrite beq_refl in E.
Qed.

Lemma digits2_nonneg ds : Forall D ds -> 0 <= dec_value ds.
Proof. apply dec_value_nonneg. Qed.

Lemma hour_spec len s v rest : stops rest ->
  (hour_num len s = Some (v, rest) <->
   exists H, s = H ++ rest /\ Forall D H /\ (length H = 2 \/ (len = true /\ length H = 1))%nat /\
             v = dec_value H /\ v <= 23).
Proof.
  intros Hst. unfold hour_num. split.
  - destruct (num 2 0 23 s) as [[v' r']|] eqn:N.
    + intros H; inversion H; subst. apply num_spec in N. destruct N as [ds [-> [[Hd Hl] [-> Hr]]]].
      exists ds. repeat split; auto; lia.
    + destruct len; [|discriminate]. destruct s as [|c r]; [discriminate|].
      destruct (is_digit c) eqn:Ec; [|discriminate].
      assert (digit_val c <= 23) as H23 by (pose proof (is_digit_range c Ec); lia).
      destruct r as [|c2 r2].
      * intros H; inversion H; subst. exists [c]. split; [reflexivity|]. split; [repeat constructor; exact Ec|].
        split; [right; auto|]. unfold dec_value; cbn [fold_left]. split; lia.
      * destruct (is_digit c2) eqn:E2; [discriminate|]. intros H; inversion H; subst.
        exists [c]. split; [reflexivity|]. split; [repeat constructor; exact Ec|].
        split; [right; auto|]. unfold dec_value; cbn [fold_left]. split; lia.
  - intros [H [-> [Hd [Hl [-> Hr]]]]].
    destruct Hl as [Hl|[-> Hl]].
    + assert (num 2 0 23 (H ++ rest) = Some (dec_value H, rest)) as ->; [|reflexivity].
      apply num_spec. exists H. repeat split; auto. now apply dec_value_nonneg.
    + destruct H as [|c [|? ?]]; try discriminate Hl. inversion Hd; subst.
      assert (num 2 0 23 ([c] ++ rest) = None) as ->.
      { unfold num. cbn [app take_digits]. rewrite H1. destruct rest as [|c2 r2]; [reflexivity|].
        cbn [stops] in Hst. cbn [take_digits]. now rewrite Hst. }
      cbn [app]. rewrite H1. destruct rest as [|c2 r2].
      * reflexivity.
      * cbn [stops] in Hst. rewrite Hst. reflexivity.
Qed.

Inductive zone_syntax (len : bool) : list byte -> Z -> Prop :=
| zs_Z : zone_syntax len [ch_Z] 0
| zs_off sg HH MM :
    (sg = ch_plus \/ sg = ch_minus) -> digits_n 2 HH -> digits_n 2 MM ->
    dec_value HH <= (if len then 24 else 23) -> dec_value MM <= (if len then 60 else 59) ->
    zone_syntax len (sg :: HH ++ ch_colon :: MM)
      ((if beq sg ch_plus then 1 else -1) * ((dec_value HH * 60 + dec_value MM) * 60)).

Lemma zone_spec len s off : zone len s = Some off <-> zone_syntax len s off.
Proof.
  split.
  - unfold zone. destruct s as [|sg r]; [discriminate|].
    destruct r as [|r0 r'].
    + destruct (beq sg ch_Z) eqn:E; [|discriminate]. apply beq_true in E; subst.
      intros H; inversion H; subst. constructor.
    + destruct (num 2 0 (if len then 24 else 23) (r0 :: r')) as [[hh r1]|] eqn:N1; [|discriminate].
      destruct (expect ch_colon r1) as [r2|] eqn:Ex; [|discriminate].
      destruct (num 2 0 (if len then 60 else 59) r2) as [[mm r3]|] eqn:N2; [|discriminate].
      destruct r3; [|discriminate].
      apply num_spec in N1. destruct N1 as [HH [E1 [D1 [-> R1]]]].
      apply expect_spec in Ex. subst r1.
      apply num_spec in N2. destruct N2 as [MM [E2 [D2 [-> R2]]]]. rewrite app_nil_r in E2. subst r2.
      rewrite E1.
      destruct (beq sg ch_plus) eqn:Ep.
      * apply beq_true in Ep; subst sg. intros H; inversion H; subst.
        replace ((dec_value HH * 60 + dec_value MM) * 60) with
          ((if beq ch_plus ch_plus then 1 else -1) * ((dec_value HH * 60 + dec_value MM) * 60)) by (rewrite beq_refl; lia).
        constructor; auto; lia.
      * destruct (beq sg ch_minus) eqn:Em; [|discriminate]. apply beq_true in Em; subst sg.
        intros H; inversion H; subst.
        replace (- ((dec_value HH * 60 + dec_value MM) * 60)) with
          ((if beq ch_minus ch_plus then 1 else -1) * ((dec_value HH * 60 + dec_value MM) * 60)) by (rewrite Ep; lia).
        constructor; auto; lia.
  - intros H. destruct H as [|sg HH MM Hsg [D1 L1] [D2 L2] R1 R2]; [reflexivity|].
    unfold zone. destruct HH as [|h0 [|h1 [|? ?]]]; try discriminate L1.
    cbn [app].
    assert (num 2 0 (if len then 24 else 23) (h0 :: h1 :: ch_colon :: MM) = Some (dec_value [h0; h1], ch_colon :: MM)) as ->.
    { apply num_spec. exists [h0; h1]. repeat split; auto. now apply dec_value_nonneg. }
    cbn [expect]. rewrite beq_refl.
    assert (num 2 0 (if len then 60 else 59) MM = Some (dec_value MM, [])) as ->.
    { apply num_spec. exists MM. rewrite app_nil_r. repeat split; auto. now apply dec_value_nonneg. }
    destruct Hsg as [-> | ->].
    + rewrite !beq_refl. f_equal. lia.
    + change (beq ch_minus ch_plus) with false. cbv iota. rewrite beq_refl. f_equal; lia.
Qed.

Lemma zone_syntax_head len s off : zone_syntax len s off ->
  exists c r, s = c :: r /\ (c = ch_Z \/ c = ch_plus \/ c = ch_minus).
Proof. intros [|sg HH MM [-> | ->]]; eauto 6. Qed.

Definition is_sep (len : bool) (c : byte) : bool := beq c dot || (len && beq c ch_comma).

Lemma zone_head_facts c : (c = ch_Z \/ c = ch_plus \/ c = ch_minus) ->
  is_digit c = false /\ forall len, is_sep len c = false.
Proof. intros [-> |[-> | ->]]; split; try reflexivity; intros []; reflexivity. Qed.

(* the complete syntactic description *)
Definition ts_syntax (len : bool) (s : list byte) (y m d hh mi ss : Z) (fr : option (list byte)) (off : Z) : Prop :=
  exists Y M Dd H MI S sep Zs,
    s = Y ++ ch_minus :: M ++ ch_minus :: Dd ++ ch_T :: H ++ ch_colon :: MI ++ ch_colon :: S ++
        (match fr with None => [] | Some fd => sep :: fd end) ++ Zs /\
    digits_n 4 Y /\ y = dec_value Y /\
    digits_n 2 M /\ m = dec_value M /\ 1 <= m <= 12 /\
    digits_n 2 Dd /\ d = dec_value Dd /\ 1 <= d <= days_in m y /\
    Forall D H /\ (length H = 2 \/ (len = true /\ length H = 1))%nat /\ hh = dec_value H /\ hh <= 23 /\
    digits_n 2 MI /\ mi = dec_value MI /\ mi <= 59 /\
    digits_n 2 S /\ ss = dec_value S /\ ss <= 59 /\
    is_sep len sep = true /\
    (match fr with None => True | Some fd => Forall D fd /\ fd <> [] end) /\
    zone_syntax len Zs off.

Definition ts_value (y m d hh mi ss : Z) (fr : option (list byte)) (off : Z) : Z * Z :=
  (days_from_civil y m d * 86400 + hh * 3600 + mi * 60 + ss - off,
   match fr with None => 0 | Some fd => firstn9_value fd end).

Lemma frac_sec_none len s : (match s with c :: _ => is_sep len c = false | [] => True end) -> frac_sec len s = (0, s).
Proof. destruct s as [|c r]; [reflexivity|]. unfold frac_sec, is_sep. now intros ->. Qed.

Lemma frac_sec_some len sep fd rest : is_sep len sep = true -> Forall D fd -> fd <> [] -> stops rest ->
  frac_sec len (sep :: fd ++ rest) = (firstn9_value fd, rest).
Proof.
  intros Hs Hd Hne Hst. unfold frac_sec. unfold is_sep in Hs. rewrite Hs.
  destruct fd as [|f0 fd']; [congruence|]. cbn [app]. pose proof (Forall_inv Hd) as Hf0. unfold D in Hf0. rewrite Hf0.
  change (f0 :: fd' ++ rest) with ((f0 :: fd') ++ rest). now rewrite (span_digits_app _ _ Hd Hst).
Qed.

Lemma frac_sec_sound len s ns rest : frac_sec len s = (ns, rest) ->
  (ns = 0 /\ rest = s) \/
  (exists sep fd, is_sep len sep = true /\ s = sep :: fd ++ rest /\ Forall D fd /\ fd <> [] /\ ns = firstn9_value fd).
Proof.
  unfold frac_sec. destruct s as [|c r]; [intros H; inversion H; auto|].
  destruct (beq c dot || len && beq c ch_comma) eqn:Es; [|intros H; inversion H; auto].
  destruct r as [|d0 r']; [intros H; inversion H; auto|].
  destruct (is_digit d0) eqn:Ed; [|intros H; inversion H; auto].
  destruct (span_digits (d0 :: r')) as [ds rest'] eqn:SD. intros H; inversion H; subst.
  destruct (span_digits_sound _ _ _ SD) as [E [Hd _]].
  right. exists c, ds. repeat split; auto.
  - now rewrite E.
  - intros ->. cbn [span_digits] in SD. rewrite Ed in SD. destruct (span_digits r'); discriminate SD.
Qed.

Theorem timestamp_grammar len s secs ns :
  parse_ts len s = Some (secs, ns) <->
  exists y m d hh mi ss fr off, ts_syntax len s y m d hh mi ss fr off /\ (secs, ns) = ts_value y m d hh mi ss fr off.
Proof.
  split.
  - unfold parse_ts.
    destruct (num 4 0 9999 s) as [[y s1]|] eqn:N1; [|discriminate].
    destruct (expect ch_minus s1) as [s2|] eqn:X1; [|discriminate].
    destruct (num 2 1 12 s2) as [[m s3]|] eqn:N2; [|discriminate].
    destruct (expect ch_minus s3) as [s4|] eqn:X2; [|discriminate].
    destruct (num 2 1 (days_in m y) s4) as [[d s5]|] eqn:N3; [|discriminate].
    destruct (expect ch_T s5) as [s6|] eqn:X3; [|discriminate].
    destruct (hour_num len s6) as [[hh s7]|] eqn:N4; [|discriminate].
    destruct (expect ch_colon s7) as [s8|] eqn:X4; [|discriminate].
    destruct (num 2 0 59 s8) as [[mi s9]|] eqn:N5; [|discriminate].
    destruct (expect ch_colon s9) as [s10|] eqn:X5; [|discriminate].
    destruct (num 2 0 59 s10) as [[ss s11]|] eqn:N6; [|discriminate].
    destruct (frac_sec len s11) as [ns' s12] eqn:FS.
    destruct (zone len s12) as [off|] eqn:Zn; [|discriminate].
    intros HH; inversion HH; subst secs ns'. clear HH.
    apply num_spec in N1. destruct N1 as [Y [E1 [DY [-> RY]]]].
    apply expect_spec in X1. apply num_spec in N2. destruct N2 as [M [E2 [DM [-> RM]]]].
    apply expect_spec in X2. apply num_spec in N3. destruct N3 as [Dd [E3 [DD [-> RD]]]].
    apply expect_spec in X3. apply expect_spec in X4. subst s7.
    apply (hour_spec len s6 hh (ch_colon :: s8)) in N4; [|reflexivity]. destruct N4 as [H [E4 [DH [LH [-> RH]]]]].
    apply num_spec in N5. destruct N5 as [MI [E5 [DMI [-> RMI]]]].
    apply expect_spec in X5. apply num_spec in N6. destruct N6 as [S [E6 [DS [-> RS]]]].
    apply zone_spec in Zn.
    destruct DY as [? ?], DM as [? ?], DD as [? ?], DMI as [? ?], DS as [? ?].
    destruct (frac_sec_sound _ _ _ _ FS) as [[-> ->]|[sep [fd [Hsep [E7 [Dfd [Nfd ->]]]]]]].
    + exists (dec_value Y), (dec_value M), (dec_value Dd), (dec_value H), (dec_value MI), (dec_value S), None, off.
      split; [|reflexivity].
      exists Y, M, Dd, H, MI, S, dot, s11. split; [subst; reflexivity|].
      repeat split; auto; try lia; try (intros []; reflexivity).
    + exists (dec_value Y), (dec_value M), (dec_value Dd), (dec_value H), (dec_value MI), (dec_value S), (Some fd), off.
      split; [|reflexivity].
      exists Y, M, Dd, H, MI, S, sep, s12. split; [subst; cbn [app]; reflexivity|].
      repeat split; auto; try lia.
  - intros [y [m [d [hh [mi [ss [fr [off [Hsyn Hval]]]]]]]]].
    destruct Hsyn as [Y [M [Dd [H [MI [S [sep [Zs [-> [DY [-> [DM [-> [RM [DD [-> [RD [DH [LH [-> [RH [DMI [-> [RMI [DS [-> [RS [Hsep [Hfr Hz]]]]]]]]]]]]]]]]]]]]]]]]]]]]].
    unfold ts_value in Hval. inversion Hval; subst secs ns. clear Hval.
    unfold parse_ts.
    assert (num 4 0 9999 (Y ++ ch_minus :: M ++ ch_minus :: Dd ++ ch_T :: H ++ ch_colon :: MI ++ ch_colon :: S ++
             match fr with Some fd => sep :: fd | None => [] end ++ Zs) = Some (dec_value Y, ch_minus :: M ++ ch_minus :: Dd ++ ch_T :: H ++ ch_colon :: MI ++ ch_colon :: S ++
             match fr with Some fd => sep :: fd | None => [] end ++ Zs)) as ->.
    { apply num_spec. exists Y. repeat split; try apply DY; [now apply dec_value_nonneg; apply DY|].
      destruct DY as [DY LY]. pose proof (dec_value_bound _ DY) as B. rewrite LY in B. change (10 ^ Z.of_nat 4) with 10000 in B. lia. }
    cbn [expect]. rewrite beq_refl.
    assert (forall tl, num 2 1 12 (M ++ tl) = Some (dec_value M, tl)) as ->.
    { intros tl. apply num_spec. exists M. repeat split; try apply DM; lia. }
    cbn [expect]. rewrite beq_refl.
    assert (forall tl, num 2 1 (days_in (dec_value M) (dec_value Y)) (Dd ++ tl) = Some (dec_value Dd, tl)) as ->.
    { intros tl. apply num_spec. exists Dd. repeat split; try apply DD; lia. }
    cbn [expect]. rewrite beq_refl.
    assert (forall tl, hour_num len (H ++ ch_colon :: tl) = Some (dec_value H, ch_colon :: tl)) as ->.
    { intros tl. apply hour_spec; [reflexivity|]. exists H. repeat split; auto. }
    cbn [expect]. rewrite beq_refl.
    assert (forall tl, num 2 0 59 (MI ++ tl) = Some (dec_value MI, tl)) as ->.
    { intros tl. apply num_spec. exists MI. repeat split; try apply DMI; [apply dec_value_nonneg; apply DMI | lia]. }
    cbn [expect]. rewrite beq_refl.
    assert (forall tl, num 2 0 59 (S ++ tl) = Some (dec_value S, tl)) as ->.
    { intros tl. apply num_spec. exists S. repeat split; try apply DS; [apply dec_value_nonneg; apply DS | lia]. }
    destruct (zone_syntax_head _ _ _ Hz) as [zc [zr [EZ HZc]]].
    destruct (zone_head_facts zc HZc) as [Zd Zsep].
    assert (frac_sec len (match fr with Some fd => sep :: fd | None => [] end ++ Zs) =
            (match fr with None => 0 | Some fd => firstn9_value fd end, Zs)) as ->.
    { destruct fr as [fd|].
      - destruct Hfr as [Dfd Nfd]. cbn [app]. apply frac_sec_some; auto. rewrite EZ. exact Zd.
      - cbn [app]. apply frac_sec_none. rewrite EZ. apply Zsep. }
    apply zone_spec in Hz. rewrite Hz. reflexivity.
Qed.

(* the strict grammar is contained in the lenient one *)
Lemma ts_syntax_false_true s y m d hh mi ss fr off :
  ts_syntax false s y m d hh mi ss fr off -> ts_syntax true s y m d hh mi ss fr off.
Proof.
  intros [Y [M [Dd [H [MI [S [sep [Zs [E [A1 [A2 [A3 [A4 [A5 [A6 [A7 [A8 [A9 [A10 [A11 [A12 [A13 [A14 [A15 [A16 [A17 [A18 [A19 [A20 A21]]]]]]]]]]]]]]]]]]]]]]]]]]]]].
  exists Y, M, Dd, H, MI, S, sep, Zs.
  repeat (split; [assumption|]).
  split; [destruct A10 as [?|[C _]]; [now left | discriminate C]|].
  repeat (split; [assumption|]).
  split; [unfold is_sep in *; destruct (beq sep dot); [reflexivity | discriminate A19]|].
  split; [assumption|].
  destruct A21 as [|sg HH MM Hsg B1 B2 R1 R2]; constructor; auto; lia.
Qed.

Definition f3b_deviation (s : list byte) : Prop :=
  exists y m d hh mi ss fr off, ts_syntax true s y m d hh mi ss fr off /\ ~ ts_syntax false s y m d hh mi ss fr off.

(* everything the lenient (layout-driven) parser accepts is either accepted, with the same
   value, by the strict RFC 3339 parser, or has the lenient shape but not the strict one *)
Theorem timestamp_lenient_only_f3b s secs ns :
  parse_ts true s = Some (secs, ns) -> parse_ts false s = Some (secs, ns) \/ f3b_deviation s.
Proof.
  intros H. pose proof H as H0. apply timestamp_grammar in H. destruct H as [y [m [d [hh [mi [ss [fr [off [Hs Hv]]]]]]]]].
  destruct (parse_ts false s) as [[a b]|] eqn:E.
  - apply timestamp_grammar in E. destruct E as [y' [m' [d' [hh' [mi' [ss' [fr' [off' [Hs' Hv']]]]]]]]].
    assert (parse_ts true s = Some (a, b)) as Ht.
    { apply timestamp_grammar. exists y', m', d', hh', mi', ss', fr', off'. split; [|exact Hv'].
      now apply ts_syntax_false_true. }
    rewrite Ht in H0. inversion H0; subst. now left.
  - right. exists y, m, d, hh, mi, ss, fr, off. split; [exact Hs|].
    intros Hf. assert (parse_ts false s = Some (secs, ns)) as C.
    { apply timestamp_grammar. exists y, m, d, hh, mi, ss, fr, off. auto. }
    congruence.
Qed.

(* witnesses of the F3b leniencies (replayed on the implementation by the harness corpus) *)
Theorem timestamp_strict_grammar_refuted :
  exists s1 s2 s3 s4,
    parse_ts false s1 = None /\ unmarshal_timestamp s1 = UOk 946684800 123456789 /\   (* "2000-01-01T00:00:00,1234567890123Z" *)
    parse_ts false s2 = None /\ unmarshal_timestamp s2 = UOk 946688400 0 /\           (* "2000-01-01T1:00:00Z" *)
    parse_ts false s3 = None /\ unmarshal_timestamp s3 = UOk 946598400 0 /\           (* "2000-01-01T00:00:00+24:00" *)
    parse_ts false s4 = None /\ unmarshal_timestamp s4 = UOk 946681200 0.             (* "2000-01-01T00:00:00+00:60" *)
Proof.
  exists [x32;x30;x30;x30;x2d;x30;x31;x2d;x30;x31;x54;x30;x30;x3a;x30;x30;x3a;x30;x30;x2c;x31;x32;x33;x34;x35;x36;x37;x38;x39;x30;x31;x32;x33;x5a],
         [x32;x30;x30;x30;x2d;x30;x31;x2d;x30;x31;x54;x31;x3a;x30;x30;x3a;x30;x30;x5a],
         [x32;x30;x30;x30;x2d;x30;x31;x2d;x30;x31;x54;x30;x30;x3a;x30;x30;x3a;x30;x30;x2b;x32;x34;x3a;x30;x30],
         [x32;x30;x30;x30;x2d;x30;x31;x2d;x30;x31;x54;x30;x30;x3a;x30;x30;x3a;x30;x30;x2b;x30;x30;x3a;x36;x30].
  vm_compute. repeat split; reflexivity.
Qed.

Theorem timestamp_accepts_except_f3b :
  forall s secs nanos, unmarshal_timestamp s = UOk secs nanos ->
  (exists ns, parse_ts false s = Some (secs, ns)) \/
  (parse_ts false s = None /\ exists ns, parse_ts true s = Some (secs, ns)).
Proof.
  intros s secs nanos. unfold unmarshal_timestamp, parse_go.
  destruct (parse_ts false s) as [[a b]|] eqn:E1.
  - destruct ((a <? min_timestamp_seconds) || (max_timestamp_seconds <? a)); [discriminate|].
    match goal with |- context[if ?c then _ else _] => destruct c end; [discriminate|].
    intros H; inversion H; subst. left. eauto.
  - destruct (parse_ts true s) as [[a b]|] eqn:E2; [|discriminate].
    destruct ((a <? min_timestamp_seconds) || (max_timestamp_seconds <? a)); [discriminate|].
    match goal with |- context[if ?c then _ else _] => destruct c end; [discriminate|].
    intros H; inversion H; subst. right. eauto.
Qed.

