(* Proofs about the protojson Duration model (C23): grammar of parseDuration,
   marshal/parse round trip. *)
From Coq Require Import List NArith ZArith Bool Lia Arith.
From Coq Require Import ZifyBool ZifyNat ZifyN.
From PB Require Import Base.PBytes Known.FieldMaskModel Known.FieldMaskP Known.DurationModel Known.DurationP Known.WktJsonModel.
Import ListNotations.
Open Scope Z_scope.
Ltac Zify.zify_post_hook ::= Z.to_euclidean_division_equations.

(* ------------------------------------------------------------------ digits *)
Definition D (b : byte) : Prop := is_digit b = true.

Lemma digit_cases d : 0 <= d <= 9 -> d = 0 \/ d = 1 \/ d = 2 \/ d = 3 \/ d = 4 \/ d = 5 \/ d = 6 \/ d = 7 \/ d = 8 \/ d = 9.
Proof. lia. Qed.
Ltac digit_case d H := destruct (digit_cases d H) as [->|[->|[->|[->|[->|[->|[->|[->|[->| ->]]]]]]]]].

Lemma digit_byte_is_digit d : 0 <= d <= 9 -> D (digit_byte d).
Proof. intros H. digit_case d H; reflexivity. Qed.
Lemma digit_val_byte d : 0 <= d <= 9 -> digit_val (digit_byte d) = d.
Proof. intros H. digit_case d H; reflexivity. Qed.
Lemma digit_byte_19 d : 0 <= d <= 9 -> is_digit19 (digit_byte d) = (1 <=? d).
Proof. intros H. digit_case d H; reflexivity. Qed.
Lemma digit_byte_zero d : 0 <= d <= 9 -> beq (digit_byte d) c0 = (d =? 0).
Proof. intros H. digit_case d H; reflexivity. Qed.

Lemma is_digit_range b : D b -> 0 <= digit_val b <= 9.
Proof. unfold D, is_digit, digit_val. lia. Qed.
Lemma digit_not_special b : D b -> beq b dot = false /\ beq b ch_minus = false /\ beq b ch_plus = false /\ beq b ch_s = false.
Proof.
  unfold D, is_digit, beq. intros H.
  change (b2n dot) with 46%N. change (b2n ch_minus) with 45%N. change (b2n ch_plus) with 43%N. change (b2n ch_s) with 115%N.
  lia.
Qed.
Lemma is_digit19_digit b : is_digit19 b = true -> D b.
Proof. unfold D, is_digit19, is_digit. lia. Qed.
Lemma is_digit_zero_or_19 b : D b -> beq b c0 = true \/ is_digit19 b = true.
Proof. unfold D, is_digit, is_digit19, beq. change (b2n c0) with 48%N. lia. Qed.
Lemma c0_not_19 : is_digit19 c0 = false.
Proof. reflexivity. Qed.
Lemma digit19_not_zero b : is_digit19 b = true -> beq b c0 = false.
Proof. unfold is_digit19, beq. change (b2n c0) with 48%N. lia. Qed.
Lemma dot_not_digit : is_digit dot = false.
Proof. reflexivity. Qed.
Lemma digit_val_c0 : digit_val c0 = 0.
Proof. reflexivity. Qed.

(* ------------------------------------------------------------------ dec_value *)
Lemma dec_value_fold a ds : fold_left (fun a b => a * 10 + digit_val b) ds a = a * 10 ^ Z.of_nat (length ds) + dec_value ds.
Proof.
  unfold dec_value. revert a. induction ds as [|d ds IH]; intros a; cbn [fold_left length].
  - cbn. lia.
  - rewrite IH. rewrite (IH (0 * 10 + digit_val d)). rewrite Nat2Z.inj_succ, Z.pow_succ_r by lia. ring.
Qed.
Lemma dec_value_cons d ds : dec_value (d :: ds) = digit_val d * 10 ^ Z.of_nat (length ds) + dec_value ds.
Proof. unfold dec_value at 1. cbn [fold_left]. rewrite dec_value_fold. lia. Qed.
Lemma dec_value_app a b : dec_value (a ++ b) = dec_value a * 10 ^ Z.of_nat (length b) + dec_value b.
Proof. unfold dec_value at 1. rewrite fold_left_app. fold (dec_value a). apply dec_value_fold. Qed.
Lemma dec_value_snoc a d : dec_value (a ++ [d]) = dec_value a * 10 + digit_val d.
Proof.
  rewrite dec_value_app. change (dec_value [d]) with (0 * 10 + digit_val d).
  change (10 ^ Z.of_nat (length [d])) with 10. lia.
Qed.
Lemma dec_value_nonneg ds : Forall D ds -> 0 <= dec_value ds.
Proof.
  induction 1 as [|d ds Hd Hds IH]; [cbn; lia|]. rewrite dec_value_cons.
  pose proof (is_digit_range _ Hd). assert (0 <= 10 ^ Z.of_nat (length ds)) by (apply Z.pow_nonneg; lia). nia.
Qed.
Lemma dec_value_bound ds : Forall D ds -> dec_value ds < 10 ^ Z.of_nat (length ds).
Proof.
  induction 1 as [|d ds Hd Hds IH]; [cbn; lia|]. rewrite dec_value_cons. cbn [length].
  rewrite Nat2Z.inj_succ, Z.pow_succ_r by lia.
  pose proof (is_digit_range _ Hd). assert (0 < 10 ^ Z.of_nat (length ds)) by (apply Z.pow_pos_nonneg; lia). nia.
Qed.
Lemma dec_value_zeros k : dec_value (repeat c0 k) = 0.
Proof. induction k; [reflexivity|]. cbn [repeat]. rewrite dec_value_cons, IHk, digit_val_c0. lia. Qed.
Lemma repeat_c0_digits k : Forall D (repeat c0 k).
Proof. induction k; constructor; auto. reflexivity. Qed.

Lemma trim_left_zeros_value l : dec_value (trim_left_zeros l) = dec_value l.
Proof.
  induction l as [|c r IH]; cbn [trim_left_zeros]; [reflexivity|].
  destruct (beq c c0) eqn:E; [|reflexivity].
  apply beq_true in E; subst c. rewrite IH, dec_value_cons, digit_val_c0. lia.
Qed.

(* ------------------------------------------------------------------ %d and %0kd *)
Lemma dec_fuel_spec f : forall n acc, 0 <= n < 10 ^ Z.of_nat (S f) ->
  exists h ds, dec_fuel (S f) n acc = (h :: ds) ++ acc /\ Forall D (h :: ds) /\ dec_value (h :: ds) = n /\
               (n = 0 -> h = c0 /\ ds = []) /\ (0 < n -> is_digit19 h = true).
Proof.
  induction f as [|f IH]; intros n acc Hn.
  { change (10 ^ Z.of_nat 1) with 10 in Hn. cbn [dec_fuel].
    assert (n <? 10 = true) as -> by lia. assert (0 <= n mod 10 <= 9) as Hd by lia.
    exists (digit_byte (n mod 10)), []. assert (n mod 10 = n) as -> by lia. repeat split.
    + repeat constructor. apply digit_byte_is_digit. lia.
    + rewrite dec_value_cons. cbn. rewrite digit_val_byte; lia.
    + subst. reflexivity.
    + rewrite digit_byte_19; lia. }
  remember (S f) as f1. cbn [dec_fuel]. rewrite Nat2Z.inj_succ, Z.pow_succ_r in Hn by lia.
  assert (0 <= n mod 10 <= 9) as Hd by lia.
  destruct (n <? 10) eqn:E.
  - exists (digit_byte (n mod 10)), []. assert (n mod 10 = n) as -> by lia. repeat split.
    + repeat constructor. apply digit_byte_is_digit. lia.
    + rewrite dec_value_cons. cbn. rewrite digit_val_byte; lia.
    + subst. reflexivity.
    + rewrite digit_byte_19; lia.
  - destruct (IH (n / 10) (digit_byte (n mod 10) :: acc)) as [h [ds [E1 [E2 [E3 [E4 E5]]]]]]; [lia|].
    exists h, (ds ++ [digit_byte (n mod 10)]). repeat split.
    + rewrite E1. cbn [app]. now rewrite <- app_assoc.
    + change (h :: ds ++ [digit_byte (n mod 10)]) with ((h :: ds) ++ [digit_byte (n mod 10)]).
      apply Forall_app. split; [exact E2|]. repeat constructor. now apply digit_byte_is_digit.
    + change (h :: ds ++ [digit_byte (n mod 10)]) with ((h :: ds) ++ [digit_byte (n mod 10)]).
      rewrite dec_value_snoc, E3, digit_val_byte; lia.
    + lia.
    + lia.
    + intros. apply E5. lia.
Qed.

Lemma dec_spec n : 0 <= n <= max_int64 ->
  exists h ds, dec n = h :: ds /\ Forall D (h :: ds) /\ dec_value (h :: ds) = n /\
               (n = 0 -> h = c0 /\ ds = []) /\ (0 < n -> is_digit19 h = true).
Proof.
  intros H. unfold dec. destruct (dec_fuel_spec 19 n []) as [h [ds [E1 R]]].
  - unfold max_int64 in H. change (10 ^ Z.of_nat 20) with 100000000000000000000. lia.
  - exists h, ds. rewrite E1, app_nil_r. auto.
Qed.

Lemma pad_dec_spec k : forall n acc, 0 <= n ->
  exists ds, pad_dec k n acc = ds ++ acc /\ length ds = k /\ Forall D ds /\ dec_value ds = n mod 10 ^ Z.of_nat k.
Proof.
  induction k as [|k IH]; intros n acc Hn; cbn [pad_dec].
  - exists []. repeat split; auto. cbn. lia.
  - destruct (IH (n / 10) (digit_byte (n mod 10) :: acc)) as [ds [E1 [E2 [E3 E4]]]]; [lia|].
    assert (0 <= n mod 10 <= 9) as Hd by lia.
    exists (ds ++ [digit_byte (n mod 10)]). repeat split.
    + rewrite E1. now rewrite <- app_assoc.
    + rewrite app_length, E2. cbn. lia.
    + apply Forall_app. split; auto. repeat constructor. now apply digit_byte_is_digit.
    + rewrite dec_value_snoc, E4, digit_val_byte by lia.
      rewrite Nat2Z.inj_succ, Z.pow_succ_r by lia.
      assert (0 < 10 ^ Z.of_nat k) by (apply Z.pow_pos_nonneg; lia).
      rewrite (Z.rem_mul_r n 10 (10 ^ Z.of_nat k)) by lia. lia.
Qed.

Definition pad3 (v : Z) : list byte := pad_dec 3 v [].

Lemma pad3_digits v : 0 <= v -> Forall D (pad3 v) /\ length (pad3 v) = 3%nat /\ dec_value (pad3 v) = v mod 1000.
Proof.
  intros H. destruct (pad_dec_spec 3 v [] H) as [ds [E1 [E2 [E3 E4]]]].
  unfold pad3. rewrite E1, app_nil_r. auto.
Qed.

Lemma digit_byte_inj0 d : 0 <= d <= 9 -> digit_byte d = c0 -> d = 0.
Proof. intros H. digit_case d H; intros E; try reflexivity; discriminate E. Qed.

Lemma pad3_z3 v : 0 <= v < 1000 -> (pad3 v = z3 <-> v = 0).
Proof.
  intros H. split; [|intros ->; reflexivity].
  unfold pad3, z3. cbn [pad_dec]. intros E. injection E as E1 E2 E3.
  apply digit_byte_inj0 in E1, E2, E3; lia.
Qed.

Lemma pad9_split n : 0 <= n < 1000000000 ->
  pad_dec 9 n [] = pad3 (n / 1000000) ++ pad3 ((n / 1000) mod 1000) ++ pad3 (n mod 1000).
Proof.
  intros H. unfold pad3. cbn [pad_dec app].
  repeat (apply f_equal2; [apply f_equal; lia|]). reflexivity.
Qed.

(* ------------------------------------------------------------------ TrimSuffix *)
Lemma strip_prefix_app pre s : strip_prefix pre (pre ++ s) = Some s.
Proof. induction pre as [|a pre IH]; cbn [strip_prefix app]; [reflexivity|]. now rewrite beq_refl. Qed.

Lemma trim_suffix_hit x suf : trim_suffix (x ++ suf) suf = x.
Proof. unfold trim_suffix. rewrite rev_app_distr, strip_prefix_app. apply rev_involutive. Qed.

Lemma trim_suffix_z3_miss pre t : length t = 3%nat -> t <> z3 -> trim_suffix (pre ++ t) z3 = pre ++ t.
Proof.
  intros L N. destruct t as [|a [|b [|c [|? ?]]]]; try discriminate L.
  unfold trim_suffix. rewrite rev_app_distr. cbn [rev app z3 strip_prefix].
  destruct (beq c0 c) eqn:E1; [|reflexivity]. destruct (beq c0 b) eqn:E2; [|reflexivity].
  destruct (beq c0 a) eqn:E3; [|reflexivity].
  apply beq_true in E1, E2, E3. subst. now contradiction N.
Qed.

Lemma trim_suffix_dotz3_miss pre t : length t = 3%nat -> t <> z3 -> trim_suffix (pre ++ t) dot_z3 = pre ++ t.
Proof.
  intros L N. destruct t as [|a [|b [|c [|? ?]]]]; try discriminate L.
  unfold trim_suffix. rewrite rev_app_distr. cbn [rev app z3 dot_z3 strip_prefix].
  destruct (beq c0 c) eqn:E1; [|reflexivity]. destruct (beq c0 b) eqn:E2; [|reflexivity].
  destruct (beq c0 a) eqn:E3; [|reflexivity].
  apply beq_true in E1, E2, E3. subst. now contradiction N.
Qed.

(* the fraction that marshalDuration / marshalTimestamp print for n nanoseconds *)
Definition frac_out (n : Z) : list byte :=
  if n =? 0 then []
  else if n mod 1000000 =? 0 then dot :: pad3 (n / 1000000)
  else if n mod 1000 =? 0 then dot :: pad3 (n / 1000000) ++ pad3 ((n / 1000) mod 1000)
  else dot :: pad_dec 9 n [].

Lemma trim_frac_spec pre n : 0 <= n < 1000000000 ->
  trim_frac (pre ++ dot :: pad_dec 9 n []) = pre ++ frac_out n.
Proof.
  intros H. rewrite (pad9_split n H). unfold trim_frac, frac_out.
  set (a := n / 1000000). set (b := (n / 1000) mod 1000). set (c := n mod 1000).
  assert (0 <= a < 1000 /\ 0 <= b < 1000 /\ 0 <= c < 1000) as [Ha [Hb Hc]] by (unfold a, b, c; lia).
  destruct (pad3_digits a) as [_ [La _]]; [lia|]. destruct (pad3_digits b) as [_ [Lb _]]; [lia|].
  destruct (pad3_digits c) as [_ [Lc _]]; [lia|].
  destruct (Z.eq_dec c 0) as [Ec|Ec].
  - assert (pad3 c = z3) as -> by (apply pad3_z3; lia).
    replace (pre ++ dot :: pad3 a ++ pad3 b ++ z3) with ((pre ++ dot :: pad3 a ++ pad3 b) ++ z3)
      by (rewrite <- !app_assoc; cbn [app]; now rewrite <- !app_assoc).
    rewrite trim_suffix_hit.
    destruct (Z.eq_dec b 0) as [Eb|Eb].
    + assert (pad3 b = z3) as -> by (apply pad3_z3; lia).
      replace (pre ++ dot :: pad3 a ++ z3) with ((pre ++ dot :: pad3 a) ++ z3)
        by (rewrite <- !app_assoc; reflexivity).
      rewrite trim_suffix_hit.
      destruct (Z.eq_dec a 0) as [Ea|Ea].
      * assert (pad3 a = z3) as -> by (apply pad3_z3; lia).
        change (pre ++ dot :: z3) with (pre ++ dot_z3). rewrite trim_suffix_hit.
        assert (n =? 0 = true) as -> by (unfold a, b, c in *; lia). now rewrite app_nil_r.
      * replace (pre ++ dot :: pad3 a) with ((pre ++ [dot]) ++ pad3 a) by (now rewrite <- app_assoc).
        rewrite trim_suffix_dotz3_miss; [|exact La|rewrite pad3_z3; lia].
        assert (n =? 0 = false) as -> by (unfold a, b, c in *; lia).
        assert (n mod 1000000 =? 0 = true) as -> by (unfold a, b, c in *; lia).
        now rewrite <- app_assoc.
    + replace (pre ++ dot :: pad3 a ++ pad3 b) with ((pre ++ dot :: pad3 a) ++ pad3 b)
        by (rewrite <- !app_assoc; reflexivity).
      rewrite trim_suffix_z3_miss; [|exact Lb|rewrite pad3_z3; lia].
      rewrite trim_suffix_dotz3_miss; [|exact Lb|rewrite pad3_z3; lia].
      assert (n =? 0 = false) as -> by (unfold a, b, c in *; lia).
      assert (n mod 1000000 =? 0 = false) as -> by (unfold a, b, c in *; lia).
      assert (c =? 0 = true) as -> by (unfold a, b, c in *; lia).
      rewrite <- !app_assoc. reflexivity.
  - replace (pre ++ dot :: pad3 a ++ pad3 b ++ pad3 c) with ((pre ++ dot :: pad3 a ++ pad3 b) ++ pad3 c)
      by (rewrite <- !app_assoc; cbn [app]; now rewrite <- !app_assoc).
    rewrite trim_suffix_z3_miss; [|exact Lc|rewrite pad3_z3; lia].
    rewrite trim_suffix_z3_miss; [|exact Lc|rewrite pad3_z3; lia].
    rewrite trim_suffix_dotz3_miss; [|exact Lc|rewrite pad3_z3; lia].
    assert (n =? 0 = false) as -> by (unfold a, b, c in *; lia).
    assert (n mod 1000000 =? 0 = false) as -> by (unfold a, b, c in *; lia).
    assert (c =? 0 = false) as -> by (unfold a, b, c in *; lia).
    rewrite (pad9_split n H). rewrite <- !app_assoc. reflexivity.
Qed.

(* frac_out n is either empty (n = 0) or '.' followed by 3, 6 or 9 digits whose value,
   right-padded with zeros to 9 digits, is n *)
Lemma frac_out_spec n : 0 <= n < 1000000000 ->
  (n = 0 /\ frac_out n = []) \/
  (0 < n /\ exists fd, frac_out n = dot :: fd /\ Forall D fd /\
     (length fd = 3 \/ length fd = 6 \/ length fd = 9)%nat /\
     dec_value (fd ++ repeat c0 (9 - length fd)) = n).
Proof.
  intros H. unfold frac_out.
  set (a := n / 1000000). set (b := (n / 1000) mod 1000). set (c := n mod 1000).
  assert (0 <= a < 1000 /\ 0 <= b < 1000 /\ 0 <= c < 1000) as [Ha [Hb Hc]] by (unfold a, b, c; lia).
  destruct (pad3_digits a) as [Da [La Va]]; [lia|]. destruct (pad3_digits b) as [Db [Lb Vb]]; [lia|].
  destruct (pad3_digits c) as [Dc [Lc Vc]]; [lia|].
  destruct (n =? 0) eqn:E0; [left; split; [lia|reflexivity]|]. right. split; [lia|].
  destruct (n mod 1000000 =? 0) eqn:E1; [|destruct (c =? 0) eqn:E2].
  - exists (pad3 a). split; [reflexivity|]. split; [exact Da|]. split; [left; exact La|].
    rewrite La. change (9 - 3)%nat with 6%nat.
    rewrite dec_value_app, dec_value_zeros, Va, repeat_length. change (10 ^ Z.of_nat 6) with 1000000.
    unfold a in *. lia.
  - exists (pad3 a ++ pad3 b). split; [reflexivity|]. split; [apply Forall_app; auto|].
    split; [right; left; rewrite app_length, La, Lb; reflexivity|].
    rewrite app_length, La, Lb. change (9 - (3 + 3))%nat with 3%nat.
    rewrite !dec_value_app, dec_value_zeros, Va, Vb, repeat_length, Lb.
    change (10 ^ Z.of_nat 3) with 1000. unfold a, b in *. lia.
  - rewrite (pad9_split n H). fold a b c. exists (pad3 a ++ pad3 b ++ pad3 c). split; [reflexivity|].
    split; [repeat (apply Forall_app; split); auto|].
    split; [right; right; rewrite !app_length, La, Lb, Lc; reflexivity|].
    rewrite !app_length, La, Lb, Lc. change (9 - (3 + (3 + 3)))%nat with 0%nat. cbn [repeat]. rewrite app_nil_r.
    rewrite !dec_value_app, Va, Vb, Vc, !app_length, Lb, Lc.
    change (10 ^ Z.of_nat (3 + 3)) with 1000000. change (10 ^ Z.of_nat 3) with 1000.
    unfold a, b, c in *. lia.
Qed.

(* ------------------------------------------------------------------ parser stages *)
Lemma split_last_app body x : split_last (body ++ [x]) = Some (body, x).
Proof.
  induction body as [|a body IH]; [reflexivity|].
  cbn [app split_last]. destruct (body ++ [x]) eqn:E; [destruct body; discriminate|]. now rewrite IH.
Qed.
Lemma split_last_sound l i x : split_last l = Some (i, x) -> l = i ++ [x].
Proof.
  revert i; induction l as [|a t IH]; intros i; cbn [split_last]; [discriminate|].
  destruct t as [|b t']; [intros H; inversion H; reflexivity|].
  destruct (split_last (b :: t')) as [[i' y]|]; [|discriminate].
  intros H; inversion H; subst. cbn [app]. f_equal. now apply IH.
Qed.

(* "rest does not start with a digit" *)
Definition stops (rest : list byte) : Prop := match rest with [] => True | c :: _ => is_digit c = false end.

Lemma span_digits_app ds rest : Forall D ds -> stops rest -> span_digits (ds ++ rest) = (ds, rest).
Proof.
  induction 1 as [|d ds Hd Hds IH]; intros Hs; cbn [app span_digits].
  - destruct rest as [|c r]; [reflexivity|]. cbn [stops] in Hs. cbn [span_digits]. now rewrite Hs.
  - rewrite Hd, (IH Hs). reflexivity.
Qed.
Lemma span_digits_sound b : forall ds rest, span_digits b = (ds, rest) -> b = ds ++ rest /\ Forall D ds /\ stops rest.
Proof.
  induction b as [|c r IH]; intros ds rest; cbn [span_digits].
  - intros H; inversion H; subst. repeat split; constructor.
  - destruct (is_digit c) eqn:E.
    + destruct (span_digits r) as [ds' rest'] eqn:S. intros H; inversion H; subst.
      destruct (IH _ _ eq_refl) as [-> [H1 H2]]. repeat split; auto.
    + intros H; inversion H; subst. repeat split; [constructor | exact E].
Qed.

Lemma span_digits_max_all k ds : Forall D ds -> (length ds <= k)%nat -> span_digits_max k ds = (ds, []).
Proof.
  revert ds; induction k as [|k IH]; intros ds Hd Hl.
  - destruct ds; [reflexivity | cbn in Hl; lia].
  - destruct ds as [|d ds]; [reflexivity|]. inversion Hd; subst. cbn [span_digits_max].
    rewrite H1, IH; auto. cbn in Hl. lia.
Qed.
Lemma span_digits_max_sound k : forall b ds rest, span_digits_max k b = (ds, rest) ->
  b = ds ++ rest /\ Forall D ds /\ (length ds <= k)%nat.
Proof.
  induction k as [|k IH]; intros b ds rest; cbn [span_digits_max].
  - intros H; inversion H; subst. repeat split; auto.
  - destruct b as [|c r]; [intros H; inversion H; subst; repeat split; auto; cbn; lia|].
    destruct (is_digit c) eqn:E.
    + destruct (span_digits_max k r) as [ds' rest'] eqn:S. intros H; inversion H; subst.
      destruct (IH _ _ _ S) as [-> [H1 H2]]. repeat split; auto. cbn. lia.
    + intros H; inversion H; subst. repeat split; auto. cbn; lia.
Qed.

(* ------------------------------------------------------------------ the grammar *)
(* integer literal: "0" or a non-zero digit followed by digits *)
Definition int_lit (ip : list byte) : Prop :=
  ip = [c0] \/ exists c ds, ip = c :: ds /\ is_digit19 c = true /\ Forall D ds.

(* s = sign ip frac "s":  [+-]? ( int_lit ( "." d{0,9} )? | "." d{1,9} ) "s" *)
Definition dur_syntax (s : list byte) (neg : bool) (ip : list byte) (fo : option (list byte)) : Prop :=
  exists sign,
    ((sign = [] /\ neg = false) \/ (sign = [ch_plus] /\ neg = false) \/ (sign = [ch_minus] /\ neg = true)) /\
    s = sign ++ ip ++ (match fo with None => [] | Some fd => dot :: fd end) ++ [ch_s] /\
    (int_lit ip \/ ip = []) /\
    match fo with
    | None => ip <> []
    | Some fd => Forall D fd /\ (length fd <= 9)%nat /\ (ip = [] -> fd <> [])
    end.

Definition frac_value (fo : option (list byte)) : Z :=
  match fo with None => 0 | Some fd => dec_value (fd ++ repeat c0 (9 - length fd)) end.
Definition apply_sign (neg : bool) (v : Z) : Z := if neg then - v else v.

Lemma frac_nanos_spec fd : Forall D fd -> (length fd <= 9)%nat ->
  frac_nanos fd = Some (frac_value (Some fd)) /\ 0 <= frac_value (Some fd) < 1000000000.
Proof.
  intros Hd Hl. unfold frac_nanos, frac_value.
  set (padded := fd ++ repeat c0 (9 - length fd)).
  assert (Forall D padded) as Hp by (apply Forall_app; split; auto using repeat_c0_digits).
  assert (length padded = 9%nat) as L9 by (unfold padded; rewrite app_length, repeat_length; lia).
  pose proof (dec_value_nonneg _ Hp) as H0. pose proof (dec_value_bound _ Hp) as H1. rewrite L9 in H1.
  change (10 ^ Z.of_nat 9) with 1000000000 in H1. split; [|lia].
  pose proof (trim_left_zeros_value padded) as Hv.
  destruct (trim_left_zeros padded) as [|x xs] eqn:T.
  - cbn in Hv. now rewrite <- Hv.
  - unfold parse_int_digits. rewrite Hv. unfold max_int32.
    assert (2 ^ 31 - 1 <? dec_value padded = false) as -> by lia. reflexivity.
Qed.

Lemma int_lit_head ip : int_lit ip -> exists c r, ip = c :: r /\ D c /\ Forall D r.
Proof.
  intros [->|[c [ds [-> [H1 H2]]]]].
  - exists c0, []. repeat split; auto.
  - exists c, ds. repeat split; auto. now apply is_digit19_digit.
Qed.

Lemma frac_stops fo : stops ((match fo with None => [] | Some fd => dot :: fd end) ++ [ch_s]).
Proof. destruct fo; cbn; reflexivity. Qed.

(* completeness: everything the grammar describes is accepted, with the described value *)
Lemma parse_duration_complete s neg ip fo :
  dur_syntax s neg ip fo -> dec_value ip <= max_int64 ->
  parse_duration s = Some (apply_sign neg (dec_value ip), apply_sign neg (frac_value fo)).
Proof.
  intros [sign [Hsign [-> [Hip Hfo]]]] Hmax.
  set (F := match fo with None => [] | Some fd => dot :: fd end).
  unfold parse_duration.
  replace (sign ++ ip ++ F ++ [ch_s]) with ((sign ++ ip ++ F) ++ [ch_s]) by (now rewrite <- !app_assoc).
  rewrite split_last_app. rewrite beq_refl. cbn [negb].
  (* body is not empty *)
  assert (ip ++ F <> []) as Hne.
  { destruct Hip as [Hl| ->].
    - destruct (int_lit_head _ Hl) as [c [r [-> _]]]. discriminate.
    - destruct fo as [fd|]; [discriminate | now contradiction Hfo]. }
  (* head of ip ++ F is a digit or a dot, never a sign *)
  assert (exists c r, ip ++ F = c :: r /\ beq c ch_minus = false /\ beq c ch_plus = false) as [hc [hr [Hhd [Hm Hp]]]].
  { destruct Hip as [Hl| ->].
    - destruct (int_lit_head _ Hl) as [c [r [-> [Hc _]]]]. exists c, (r ++ F). split; [reflexivity|].
      now destruct (digit_not_special _ Hc) as [_ [? [? _]]].
    - destruct fo as [fd|]; [|now contradiction Hfo]. exists dot, fd. repeat split; reflexivity. }
  assert (take_sign (sign ++ ip ++ F) = (neg, ip ++ F)) as Hts.
  { destruct Hsign as [[-> ->]|[[-> ->]|[-> ->]]]; cbn [app take_sign].
    - rewrite Hhd. cbn [take_sign]. rewrite Hm, Hp. reflexivity.
    - reflexivity.
    - reflexivity. }
  destruct (sign ++ ip ++ F) as [|b0 body] eqn:Ebody.
  { destruct sign; cbn in Ebody; [contradiction | discriminate]. }
  rewrite Hts. clear Ebody Hts b0 body.
  (* integer part *)
  assert (exists intp, int_part (ip ++ F) = Some (intp, negb (match ip with [] => true | _ => false end), if match ip with [] => true | _ => false end then F else F)
          /\ (match intp with [] => Some 0 | _ :: _ => parse_int_digits max_int64 intp end) = Some (dec_value ip)) as [intp [Hint Hsecs]].
  { destruct Hip as [[->|[c [ds [-> [Hc Hds]]]]]| ->].
    - exists []. cbn [app int_part]. rewrite beq_refl. split; reflexivity.
    - exists (c :: ds). cbn [app int_part]. rewrite (digit19_not_zero _ Hc), Hc.
      assert (stops F) as Hst by (unfold F; destruct fo; cbn; reflexivity).
      rewrite (span_digits_app ds F Hds Hst). split; [reflexivity|].
      unfold parse_int_digits. assert (max_int64 <? dec_value (c :: ds) = false) as -> by lia. reflexivity.
    - destruct fo as [fd|]; [|now contradiction Hfo]. exists []. unfold F. cbn [app int_part].
      assert (beq dot c0 = false) as -> by reflexivity. assert (is_digit19 dot = false) as -> by reflexivity.
      rewrite beq_refl. split; reflexivity. }
  rewrite Hint. clear Hint.
  assert ((if match ip with [] => true | _ :: _ => false end then F else F) = F) as -> by (destruct ip; reflexivity).
  (* fraction *)
  assert (frac_part (negb match ip with [] => true | _ :: _ => false end) F = Some fo /\
          (match fo with None => Some 0 | Some fd => frac_nanos fd end) = Some (frac_value fo) /\
          0 <= frac_value fo < 1000000000) as [Hfp [Hn Hnr]].
  { unfold F. destruct fo as [fd|].
    - destruct Hfo as [Hd [Hl Hne']]. cbn [frac_part]. rewrite beq_refl. cbn [negb].
      rewrite (span_digits_max_all 9 fd Hd Hl).
      destruct (frac_nanos_spec fd Hd Hl) as [E1 E2]. split; [|split; assumption].
      destruct ip as [|i0 ip']; cbn [negb andb].
      + destruct fd; [now contradiction Hne'|]. reflexivity.
      + now rewrite andb_false_r.
    - cbn. repeat split; lia. }
  rewrite Hfp, Hsecs, Hn.
  assert (0 <= dec_value ip) as Hnn.
  { destruct Hip as [Hl| ->]; [|cbn; lia]. destruct (int_lit_head _ Hl) as [c [r [-> [Hc Hr]]]].
    apply dec_value_nonneg. now constructor. }
  f_equal. f_equal.
  - unfold apply_sign. destruct neg; cbn [andb]; [|reflexivity].
    destruct (0 <? dec_value ip) eqn:E; lia.
  - unfold apply_sign. destruct neg; cbn [andb].
    + destruct (0 <? frac_value fo) eqn:E; rewrite wrap32_id; unfold in_int32, min_int32, max_int32; lia.
    + rewrite wrap32_id; unfold in_int32, min_int32, max_int32; lia.
Qed.

(* soundness: whatever is accepted has the shape of the grammar *)
Lemma parse_duration_sound s secs nanos :
  parse_duration s = Some (secs, nanos) ->
  exists neg ip fo, dur_syntax s neg ip fo /\ dec_value ip <= max_int64.
Proof.
  unfold parse_duration.
  destruct (split_last s) as [[body last]|] eqn:SL; [|discriminate].
  apply split_last_sound in SL. subst s.
  destruct (beq last ch_s) eqn:El; [|discriminate]. apply beq_true in El; subst last. cbn [negb].
  destruct body as [|b0 body']; [discriminate|].
  destruct (take_sign (b0 :: body')) as [neg b] eqn:TS.
  assert (exists sign, ((sign = [] /\ neg = false) \/ (sign = [ch_plus] /\ neg = false) \/ (sign = [ch_minus] /\ neg = true))
                       /\ b0 :: body' = sign ++ b) as [sign [Hsign Hbody]].
  { cbn [take_sign] in TS. destruct (beq b0 ch_minus) eqn:E1.
    - apply beq_true in E1; subst. inversion TS; subst. exists [ch_minus]. split; auto.
    - destruct (beq b0 ch_plus) eqn:E2.
      + apply beq_true in E2; subst. inversion TS; subst. exists [ch_plus]. split; auto.
      + inversion TS; subst. exists []. split; auto. }
  rewrite Hbody. clear TS Hbody b0 body'.
  destruct (int_part b) as [[[intp hasInt] rest]|] eqn:IP; [|discriminate].
  destruct (frac_part hasInt rest) as [fo|] eqn:FP; [|discriminate].
  (* decode the integer part *)
  assert (exists ip, b = ip ++ rest /\ (int_lit ip \/ ip = []) /\ hasInt = negb (match ip with [] => true | _ => false end) /\
                     (intp = [] /\ (ip = [c0] \/ ip = []) \/ intp = ip /\ ip <> [] )) as [ip [Hb [Hlit [Hhas Hintp]]]].
  { destruct b as [|c r]; [discriminate|]. cbn [int_part] in IP.
    destruct (beq c c0) eqn:E0.
    - apply beq_true in E0; subst. inversion IP; subst. exists [c0]. repeat split; auto. left. now left.
    - destruct (is_digit19 c) eqn:E19.
      + destruct (span_digits r) as [ds rest'] eqn:SD. inversion IP; subst.
        destruct (span_digits_sound _ _ _ SD) as [-> [Hds _]].
        exists (c :: ds). repeat split; auto.
        * left. right. exists c, ds. auto.
        * right. split; [reflexivity | discriminate].
      + destruct (beq c dot) eqn:Ed; [|discriminate]. apply beq_true in Ed; subst. inversion IP; subst.
        exists []. repeat split; auto. }
  subst b.
  (* decode the fraction *)
  assert (rest = match fo with None => [] | Some fd => dot :: fd end /\
          match fo with None => hasInt = true \/ True | Some fd => Forall D fd /\ (length fd <= 9)%nat /\ (hasInt = false -> fd <> []) end)
    as [Hrest Hfo].
  { clear Hhas Hintp IP. destruct rest as [|c r]; cbn [frac_part] in FP.
    - injection FP as <-. split; auto.
    - destruct (beq c dot) eqn:Ed; [|discriminate]. apply beq_true in Ed; subst c. cbn [negb] in FP.
      destruct (span_digits_max 9 r) as [fd rest'] eqn:SM.
      destruct rest' as [|? ?]; [|discriminate].
      destruct (span_digits_max_sound _ _ _ _ SM) as [Er [Hd Hl]]. rewrite app_nil_r in Er. subst r.
      destruct ((length fd =? 0)%nat && negb hasInt) eqn:E; [discriminate|]. injection FP as <-.
      split; [reflexivity|]. split; [exact Hd|]. split; [exact Hl|]. intros Eh Ef. subst hasInt fd. discriminate E. }
  (* value of the integer part *)
  destruct (match intp with [] => Some 0 | _ :: _ => parse_int_digits max_int64 intp end) as [sv|] eqn:PS; [|discriminate].
  intros _.
  exists neg, ip, fo. split.
  - exists sign. repeat split; auto.
    + rewrite Hrest, <- !app_assoc. reflexivity.
    + destruct fo as [fd|].
      * destruct Hfo as [H1 [H2 H3]]. repeat split; auto. intros ->. apply H3. now rewrite Hhas.
      * (* no fraction: rest = [], and the parser demanded a digit *)
        intros ->. cbn in Hhas. subst hasInt. cbn [app] in IP. subst rest.
        cbn in IP. discriminate IP.
  - destruct Hintp as [[-> [->| ->]]|[-> Hne]]; try (cbn; unfold max_int64; lia).
    destruct ip as [|i0 ip']; [congruence|]. unfold parse_int_digits in PS.
    destruct (max_int64 <? dec_value (i0 :: ip')) eqn:E; [discriminate|]. lia.
Qed.

Theorem duration_grammar s secs nanos :
  parse_duration s = Some (secs, nanos) <->
  exists neg ip fo, dur_syntax s neg ip fo /\ dec_value ip <= max_int64 /\
                    secs = apply_sign neg (dec_value ip) /\ nanos = apply_sign neg (frac_value fo).
Proof.
  split.
  - intros H. destruct (parse_duration_sound _ _ _ H) as [neg [ip [fo [Hs Hm]]]].
    exists neg, ip, fo. rewrite (parse_duration_complete _ _ _ _ Hs Hm) in H. inversion H. auto.
  - intros [neg [ip [fo [Hs [Hm [-> ->]]]]]]. now apply parse_duration_complete.
Qed.

Theorem duration_unmarshal_grammar s secs nanos :
  unmarshal_duration s = UOk secs nanos <->
  exists neg ip fo, dur_syntax s neg ip fo /\ dec_value ip <= 315576000000 /\
                    secs = apply_sign neg (dec_value ip) /\ nanos = apply_sign neg (frac_value fo).
Proof.
  unfold unmarshal_duration. split.
  - destruct (parse_duration s) as [[s0 n0]|] eqn:P; [|intros X; discriminate X].
    apply duration_grammar in P. destruct P as [neg [ip [fo [Hs [Hm [-> ->]]]]]].
    unfold max_seconds_in_duration.
    match goal with |- context[if ?c then _ else _] => destruct c eqn:E end; [intros X; discriminate X|].
    intros H; inversion H; subst. exists neg, ip, fo. repeat split; auto.
    unfold apply_sign in E. destruct neg; lia.
  - intros [neg [ip [fo [Hs [Hm [-> ->]]]]]].
    assert (0 <= dec_value ip) as Hnn.
    { destruct Hs as [sign [_ [_ [[Hl| ->] _]]]]; [|cbn; lia].
      destruct (int_lit_head _ Hl) as [c [r [-> [Hc Hr]]]]. apply dec_value_nonneg. now constructor. }
    rewrite (parse_duration_complete _ _ _ _ Hs) by (unfold max_int64; lia).
    unfold max_seconds_in_duration, apply_sign.
    destruct neg; match goal with |- context[if ?c then _ else _] => destruct c eqn:E end; try reflexivity; lia.
Qed.

(* ------------------------------------------------------------------ marshal: accepted range, round trip *)
Theorem marshal_duration_accepts secs nanos :
  (exists out, marshal_duration secs nanos = MOk out) <-> dur_check secs nanos = 0.
Proof.
  unfold marshal_duration, dur_check, max_seconds_in_duration, seconds_in_nanos, abs_duration, e9.
  split.
  - intros [out H]. revert H.
    repeat match goal with |- context[if ?c then _ else _] => destruct c eqn:? end; try discriminate; try lia.
  - repeat match goal with |- context[if ?c then _ else _] => destruct c eqn:? end; try discriminate; try lia; eauto.
Qed.

Definition after_dot_len (out : list byte) : nat :=
  (fix go (l : list byte) : nat :=
     match l with [] => O | c :: r => if beq c dot then Nat.pred (length r) else go r end) out.

Lemma marshal_duration_shape secs nanos : dur_check secs nanos = 0 ->
  let neg := (secs <? 0) || (nanos <? 0) in
  let s := Z.abs secs in let n := Z.abs nanos in
  marshal_duration secs nanos = MOk ((if neg then [ch_minus] else []) ++ dec s ++ frac_out n ++ [ch_s]).
Proof.
  intros H. apply dur_check_ranges_exact in H. destruct H as [Hs [Hn [H1 H2]]].
  unfold marshal_duration, max_seconds_in_duration, seconds_in_nanos.
  do 3 (match goal with |- (if ?c then _ else _) = _ => destruct c eqn:?E; [exfalso; lia|] end).
  cbv zeta.
  assert ((if (secs <? 0) || (nanos <? 0) then -1 * secs else secs) = Z.abs secs) as -> by (destruct ((secs <? 0) || (nanos <? 0)) eqn:EE; lia).
  assert ((if (secs <? 0) || (nanos <? 0) then -1 * nanos else nanos) = Z.abs nanos) as -> by (destruct ((secs <? 0) || (nanos <? 0)) eqn:EE; lia).
  f_equal.
  rewrite app_assoc. rewrite trim_frac_spec by lia. now rewrite <- !app_assoc.
Qed.

Theorem duration_json_roundtrip secs nanos :
  dur_check secs nanos = 0 ->
  exists out, marshal_duration secs nanos = MOk out /\
              parse_duration out = Some (secs, nanos) /\
              unmarshal_duration out = UOk secs nanos.
Proof.
  intros H. rewrite (marshal_duration_shape _ _ H).
  apply dur_check_ranges_exact in H. destruct H as [Hs [Hn [H1 H2]]].
  eexists. split; [reflexivity|].
  set (neg := (secs <? 0) || (nanos <? 0)).
  destruct (dec_spec (Z.abs secs)) as [h [ds [Ed [Dd [Vd [Z0 P0]]]]]]; [unfold max_int64; lia|].
  assert (0 <= Z.abs nanos < 1000000000) as Hna by lia.
  (* the syntax triple of the output *)
  assert (exists fo, frac_out (Z.abs nanos) = (match fo with None => [] | Some fd => dot :: fd end) /\
                     match fo with None => True | Some fd => Forall D fd /\ (length fd <= 9)%nat /\ fd <> [] end /\
                     frac_value fo = Z.abs nanos) as [fo [Efo [Hfo Vfo]]].
  { destruct (frac_out_spec _ Hna) as [[E0 ->]|[Hp [fd [-> [Hd [Hl Hv]]]]]].
    - exists None. repeat split. cbn. lia.
    - exists (Some fd). repeat split; auto; [lia | destruct fd; [cbn in Hl; lia | discriminate]]. }
  assert (dur_syntax ((if neg then [ch_minus] else []) ++ dec (Z.abs secs) ++ frac_out (Z.abs nanos) ++ [ch_s]) neg (dec (Z.abs secs)) fo) as Hsyn.
  { exists (if neg then [ch_minus] else []). repeat split.
    - destruct neg; auto.
    - now rewrite Efo.
    - left. rewrite Ed. destruct (Z.eq_dec (Z.abs secs) 0) as [E|E].
      + destruct (Z0 E) as [-> ->]. now left.
      + right. exists h, ds. repeat split; auto; [apply P0; lia | now inversion Dd].
    - destruct fo as [fd|]; [|rewrite Ed; discriminate]. destruct Hfo as [A [B C]]. repeat split; auto. }
  assert (dec_value (dec (Z.abs secs)) = Z.abs secs) as Vs by (now rewrite Ed).
  assert (apply_sign neg (Z.abs secs) = secs /\ apply_sign neg (Z.abs nanos) = nanos) as [As An].
  { unfold apply_sign, neg. destruct ((secs <? 0) || (nanos <? 0)) eqn:E; lia. }
  split.
  - rewrite (parse_duration_complete _ _ _ _ Hsyn) by (rewrite Vs; unfold max_int64; lia).
    now rewrite Vs, Vfo, As, An.
  - apply duration_unmarshal_grammar. exists neg, (dec (Z.abs secs)), fo. rewrite Vs, Vfo, As, An. repeat split; auto. lia.
Qed.

(* the output has 0, 3, 6 or 9 fractional digits *)
Theorem duration_json_frac_digits secs nanos :
  dur_check secs nanos = 0 ->
  exists pre fd, marshal_duration secs nanos = MOk (pre ++ (match fd with [] => [] | _ => dot :: fd end) ++ [ch_s]) /\
                 ~ In dot pre /\ Forall D fd /\
                 (length fd = 0 \/ length fd = 3 \/ length fd = 6 \/ length fd = 9)%nat.
Proof.
  intros H. rewrite (marshal_duration_shape _ _ H).
  apply dur_check_ranges_exact in H. destruct H as [Hs [Hn [H1 H2]]].
  destruct (dec_spec (Z.abs secs)) as [h [ds [Ed [Dd [Vd [Z0 P0]]]]]]; [unfold max_int64; lia|].
  assert (0 <= Z.abs nanos < 1000000000) as Hna by lia.
  exists ((if (secs <? 0) || (nanos <? 0) then [ch_minus] else []) ++ dec (Z.abs secs)).
  assert (~ In dot ((if (secs <? 0) || (nanos <? 0) then [ch_minus] else []) ++ dec (Z.abs secs))) as Hnd.
  { intros Hin. apply in_app_or in Hin. destruct Hin as [Hin|Hin].
    - destruct ((secs <? 0) || (nanos <? 0)); [destruct Hin as [E|[]]; discriminate E | destruct Hin].
    - rewrite Ed in Hin. rewrite Forall_forall in Dd. apply Dd in Hin. discriminate Hin. }
  destruct (frac_out_spec _ Hna) as [[E0 ->]|[Hp [fd [-> [Hd [Hl Hv]]]]]].
  - exists []. rewrite <- app_assoc. repeat split; auto.
  - exists fd. rewrite <- app_assoc. destruct fd as [|f0 fd']; [cbn in Hl; lia|].
    split; [reflexivity|]. split; [exact Hnd|]. split; [exact Hd|]. lia.
Qed.
