(* Tier T for C43 / C23: the Gallina translation of the Go source (Gen/KnownGo.v, regenerated
   from /repo on every check by srcmodel_known) computes exactly the hand-written models
   Known/DurationModel.v and Known/TimestampModel.v on all int64 / int32 inputs, and the
   constants of the source are those of the models. *)
From Coq Require Import ZArith Bool Lia.
From Coq Require Import ZifyBool.
From PB Require Import Base.GoInt Gen.KnownGo Known.DurationModel Known.DurationP Known.TimestampModel Known.TimestampP
  Known.WktJsonModel Known.TsJsonModel.
Open Scope Z_scope.
Ltac Zify.zify_post_hook ::= Z.to_euclidean_division_equations.

Lemma wrap_i64_wrap64 z : wrap_i64 z = wrap64 z.
Proof. reflexivity. Qed.
Lemma wrap_i32_wrap32 z : wrap_i32 z = wrap32 z.
Proof. reflexivity. Qed.

(* ---- constants ---- *)
Theorem known_constants_match_source :
  c_dur_check_absDuration = abs_duration /\
  c_ts_check_minTimestamp = min_timestamp /\ c_ts_check_maxTimestamp = max_timestamp /\
  (c_dur_invalidNil, c_dur_invalidUnderflow, c_dur_invalidOverflow, c_dur_invalidNanosRange, c_dur_invalidNanosSign) = (1, 2, 3, 4, 5) /\
  (c_ts_invalidNil, c_ts_invalidUnderflow, c_ts_invalidOverflow, c_ts_invalidNanos) = (1, 2, 3, 4).
Proof. repeat split; reflexivity. Qed.

Theorem json_constants_match_source :
  c_pj_secondsInNanos = seconds_in_nanos /\ c_pj_maxSecondsInDuration = max_seconds_in_duration /\
  c_pj_maxTimestampSeconds = max_timestamp_seconds /\ c_pj_minTimestampSeconds = min_timestamp_seconds /\
  (* the JSON layer and the helper layer agree on the ranges *)
  c_pj_maxSecondsInDuration = c_dur_check_absDuration /\
  c_pj_maxTimestampSeconds = c_ts_check_maxTimestamp /\ c_pj_minTimestampSeconds = c_ts_check_minTimestamp.
Proof. repeat split; reflexivity. Qed.

(* ---- durationpb ---- *)
Theorem go_dur_New_model d : in_int64 d -> go_dur_New d = dur_new d.
Proof.
  intros H. unfold go_dur_New, dur_new, e9. change wrap_i64 with wrap64. change wrap_i32 with wrap32.
  rewrite (wrap64_id d H).
  assert (in_int64 (Z.quot d 1000000000)) as Hq by (unfold in_int64, min_int64, max_int64 in *; lia).
  rewrite !(wrap64_id _ Hq). reflexivity.
Qed.

Theorem go_dur_getters x_nil secs nanos :
  go_dur_Duration_GetSeconds x_nil secs nanos = (if x_nil then 0 else secs) /\
  go_dur_Duration_GetNanos x_nil secs nanos = (if x_nil then 0 else nanos).
Proof. destruct x_nil; split; reflexivity. Qed.

Theorem go_dur_AsDuration_model secs nanos :
  in_int64 secs -> in_int32 nanos -> go_dur_Duration_AsDuration false secs nanos = as_duration secs nanos.
Proof.
  intros Hs Hn. unfold go_dur_Duration_AsDuration, as_duration, e9. cbn [go_dur_Duration_GetSeconds go_dur_Duration_GetNanos negb].
  change wrap_i64 with wrap64. rewrite !(wrap64_id secs Hs).
  assert (in_int64 nanos) as Hn64 by (unfold in_int64, in_int32, min_int64, max_int64, min_int32, max_int32 in *; lia).
  rewrite !(wrap64_id nanos Hn64). rewrite Z.mul_1_r, !(wrap64_id nanos Hn64).
  pose proof (wrap64_range (secs * 1000000000)) as Hr.
  assert (in_int64 (Z.quot (wrap64 (secs * 1000000000)) 1000000000)) as Hq
    by (unfold in_int64, min_int64, max_int64 in *; lia).
  rewrite (wrap64_id _ Hq). reflexivity.
Qed.

Theorem go_dur_AsDuration_nil secs nanos : go_dur_Duration_AsDuration true secs nanos = 0.
Proof. reflexivity. Qed.

Theorem go_dur_check_model x_nil secs nanos :
  go_dur_Duration_check x_nil secs nanos = dur_check_opt (if x_nil then None else Some (secs, nanos)).
Proof.
  destruct x_nil; [reflexivity|].
  unfold go_dur_Duration_check, dur_check_opt, dur_check, abs_duration, e9.
  cbn [go_dur_Duration_GetSeconds go_dur_Duration_GetNanos negb]. reflexivity.
Qed.

Theorem go_dur_IsValid_model x_nil secs nanos :
  go_dur_Duration_IsValid x_nil secs nanos = (dur_check_opt (if x_nil then None else Some (secs, nanos)) =? 0).
Proof. unfold go_dur_Duration_IsValid. now rewrite go_dur_check_model. Qed.

(* ---- timestamppb ---- *)
Theorem go_ts_New_model t : time_ok t -> go_ts_New (time_unix t) (time_nanosecond t) = ts_new t.
Proof.
  intros [H1 H2]. unfold go_ts_New, ts_new. change wrap_i64 with wrap64. change wrap_i32 with wrap32.
  rewrite (wrap64_id (time_unix t)); [reflexivity|]. unfold time_unix. apply wrap64_range.
Qed.

Theorem go_ts_check_model x_nil secs nanos :
  go_ts_Timestamp_check x_nil secs nanos = ts_check_opt (if x_nil then None else Some (secs, nanos)).
Proof.
  destruct x_nil; [reflexivity|].
  unfold go_ts_Timestamp_check, ts_check_opt, ts_check, min_timestamp, max_timestamp, e9.
  cbn [go_ts_Timestamp_GetSeconds go_ts_Timestamp_GetNanos negb]. reflexivity.
Qed.

Theorem go_ts_IsValid_model x_nil secs nanos :
  go_ts_Timestamp_IsValid x_nil secs nanos = (ts_check_opt (if x_nil then None else Some (secs, nanos)) =? 0).
Proof. unfold go_ts_Timestamp_IsValid. now rewrite go_ts_check_model. Qed.

(* ---- the headline theorems on the translated source ---- *)
Theorem go_duration_new_as_inverse d :
  in_int64 d -> let '(s, n) := go_dur_New d in go_dur_Duration_AsDuration false s n = d.
Proof.
  intros H. rewrite (go_dur_New_model d H). pose proof (duration_new_as_inverse d H) as R.
  rewrite (dur_new_spec d H) in *.
  rewrite go_dur_AsDuration_model; [exact R | |];
    unfold in_int64, in_int32, min_int64, max_int64, min_int32, max_int32, e9 in *; lia.
Qed.

Theorem go_as_duration_exact_clamped_except_F4 secs nanos :
  in_int64 secs -> in_int32 nanos -> f4_class secs nanos = false ->
  go_dur_Duration_AsDuration false secs nanos = clamp64 (secs * e9 + nanos).
Proof. intros. rewrite go_dur_AsDuration_model by assumption. now apply as_duration_exact_clamped_except_F4. Qed.
