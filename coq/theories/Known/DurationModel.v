(* Model of types/known/durationpb/duration.pb.go: New, AsDuration, check
   (IsValid / CheckValid).  Definitions only.

   int64 / int32 values are [Z]; Go's two's-complement wrap-around is explicit
   ([wrap64], [wrap32]) at every arithmetic operation of the Go code, "/" and
   "%" on signed integers are truncated ([Z.quot], [Z.rem]). *)
From Coq Require Import ZArith Bool.
Open Scope Z_scope.

Definition min_int64 : Z := - 2^63.
Definition max_int64 : Z := 2^63 - 1.
Definition min_int32 : Z := - 2^31.
Definition max_int32 : Z := 2^31 - 1.
Definition in_int64 (z : Z) : Prop := min_int64 <= z <= max_int64.
Definition in_int32 (z : Z) : Prop := min_int32 <= z <= max_int32.
Definition in_int64b (z : Z) : bool := (min_int64 <=? z) && (z <=? max_int64).

Definition wrap64 (z : Z) : Z := (z + 2^63) mod 2^64 - 2^63.
Definition wrap32 (z : Z) : Z := (z + 2^31) mod 2^32 - 2^31.
Definition clamp64 (z : Z) : Z :=
  if z <? min_int64 then min_int64 else if max_int64 <? z then max_int64 else z.

Definition e9 : Z := 1000000000.

(* func New(d time.Duration) *Duration *)
Definition dur_new (d : Z) : Z * Z :=
  let nanos := d in
  let secs := Z.quot nanos e9 in
  let nanos := wrap64 (nanos - wrap64 (secs * e9)) in
  (secs, wrap32 nanos).

(* func (x *Duration) AsDuration() time.Duration *)
Definition as_duration (secs nanos : Z) : Z :=
  let d := wrap64 (secs * e9) in
  let overflow := negb (Z.quot d e9 =? secs) in
  let d := wrap64 (d + nanos) in
  let overflow := overflow || ((secs <? 0) && (nanos <? 0) && (0 <? d)) in
  let overflow := overflow || ((0 <? secs) && (0 <? nanos) && (d <? 0)) in
  if overflow then
    if secs <? 0 then min_int64
    else if 0 <? secs then max_int64
    else d
  else d.

(* func (x *Duration) check() uint, for non-nil x:
   0 valid, 2 invalidUnderflow, 3 invalidOverflow, 4 invalidNanosRange, 5 invalidNanosSign
   (1 = invalidNil is [dur_check_opt None]) *)
Definition abs_duration : Z := 315576000000.
Definition dur_check (secs nanos : Z) : Z :=
  if secs <? - abs_duration then 2
  else if abs_duration <? secs then 3
  else if (nanos <=? - e9) || (e9 <=? nanos) then 4
  else if ((0 <? secs) && (nanos <? 0)) || ((secs <? 0) && (0 <? nanos)) then 5
  else 0.
Definition dur_check_opt (x : option (Z * Z)) : Z :=
  match x with None => 1 | Some (s, n) => dur_check s n end.

(* The class of inputs on which AsDuration does not return the exact clamped value
   (known finding F4): the product seconds*10^9 alone leaves the int64 range while
   seconds*10^9 + nanos is strictly inside it.  Decidable; used as the harness recogniser. *)
Definition f4_class (secs nanos : Z) : bool :=
  ((max_int64 <? secs * e9) && (secs * e9 + nanos <? max_int64)) ||
  ((secs * e9 <? min_int64) && (min_int64 <? secs * e9 + nanos)).
