(* Proofs about the structpb model (StructModel.v). *)
From Coq Require Import List NArith ZArith Bool Lia.
From Coq Require Import ZifyBool ZifyNat ZifyN.
Require Import PB.Base.PBytes PB.Known.StructModel.
Import ListNotations.
Open Scope N_scope.
Ltac Zify.zify_post_hook ::= Z.div_mod_to_equations.

(* ------------------------------------------------------------------ induction principles *)
Section GvalInd.
  Variable P : gval -> Prop.
  Hypothesis Hnil : P GNil.
  Hypothesis Hbool : forall b, P (GBool b).
  Hypothesis Hnum : forall b, P (GNum b).
  Hypothesis Hf32 : forall b, P (GF32 b).
  Hypothesis Hint : forall z, P (GInt z).
  Hypothesis Hstr : forall s, P (GStr s).
  Hypothesis Hbytes : forall s, P (GBytes s).
  Hypothesis Hlist : forall l, Forall P l -> P (GList l).
  Hypothesis Hmap : forall m, Forall (fun kv => P (snd kv)) m -> P (GMap m).
  Hypothesis Hbad : P GBad.

  Fixpoint gval_ind2 (v : gval) : P v :=
    match v with
    | GNil => Hnil
    | GBool b => Hbool b
    | GNum b => Hnum b
    | GF32 b => Hf32 b
    | GInt z => Hint z
    | GStr s => Hstr s
    | GBytes s => Hbytes s
    | GList l =>
      Hlist l ((fix go (l : list gval) : Forall P l :=
                  match l with
                  | [] => Forall_nil _
                  | x :: r => Forall_cons _ (gval_ind2 x) (go r)
                  end) l)
    | GMap m =>
      Hmap m ((fix go (m : list (list byte * gval)) : Forall (fun kv => P (snd kv)) m :=
                 match m with
                 | [] => Forall_nil _
                 | kv :: r => Forall_cons kv (gval_ind2 (snd kv)) (go r)
                 end) m)
    | GBad => Hbad
    end.
End GvalInd.

Section PvalInd.
  Variable P : pval -> Prop.
  Hypothesis Hunset : P PUnset.
  Hypothesis Hnull : P PNull.
  Hypothesis Hnum : forall b, P (PNumber b).
  Hypothesis Hstr : forall s, P (PString s).
  Hypothesis Hbool : forall b, P (PBool b).
  Hypothesis Hstruct : forall m, Forall (fun kv => P (snd kv)) m -> P (PStruct m).
  Hypothesis Hlist : forall l, Forall P l -> P (PList l).

  Fixpoint pval_ind2 (v : pval) : P v :=
    match v with
    | PUnset => Hunset
    | PNull => Hnull
    | PNumber b => Hnum b
    | PString s => Hstr s
    | PBool b => Hbool b
    | PStruct m =>
      Hstruct m ((fix go (m : list (list byte * pval)) : Forall (fun kv => P (snd kv)) m :=
                    match m with
                    | [] => Forall_nil _
                    | kv :: r => Forall_cons kv (pval_ind2 (snd kv)) (go r)
                    end) m)
    | PList l =>
      Hlist l ((fix go (l : list pval) : Forall P l :=
                  match l with
                  | [] => Forall_nil _
                  | x :: r => Forall_cons _ (pval_ind2 x) (go r)
                  end) l)
    end.
End PvalInd.

(* ------------------------------------------------------------------ NewList / NewStruct as named functions *)
Section Aux.
  Variable f : gval -> option pval.
  Fixpoint new_list_aux (l : list gval) : option (list pval) :=
    match l with
    | [] => Some []
    | x :: r =>
      match f x with
      | None => None
      | Some p => match new_list_aux r with None => None | Some ps => Some (p :: ps) end
      end
    end.
  Fixpoint new_struct_aux (m : list (list byte * gval)) : option (list (list byte * pval)) :=
    match m with
    | [] => Some []
    | (k, x) :: r =>
      if utf8_valid k then
        match f x with
        | None => None
        | Some p => match new_struct_aux r with None => None | Some ps => Some ((k, p) :: ps) end
        end
      else None
    end.
End Aux.

(* NewList *)
Definition new_list (l : list gval) : option (list pval) := new_list_aux new_value l.
(* NewStruct *)
Definition new_struct (m : list (list byte * gval)) : option (list (list byte * pval)) := new_struct_aux new_value m.

Lemma new_value_list l :
  new_value (GList l) = match new_list l with None => None | Some ps => Some (PList ps) end.
Proof. reflexivity. Qed.

Lemma new_value_map m :
  new_value (GMap m) = match new_struct m with None => None | Some ps => Some (PStruct ps) end.
Proof. reflexivity. Qed.

(* ------------------------------------------------------------------ NewValue then AsInterface = documented conversion *)
Lemma new_list_as_interface l :
  Forall (fun v => forall p, new_value v = Some p -> as_interface p = norm v) l ->
  forall ps, new_list l = Some ps -> map as_interface ps = map norm l.
Proof.
  unfold new_list. induction 1 as [|x r Hx Hr IH]; intros ps H; cbn [new_list_aux] in H.
  - inversion H; reflexivity.
  - destruct (new_value x) as [p|] eqn:Ex; [|discriminate].
    destruct (new_list_aux new_value r) as [qs|] eqn:Er; [|discriminate].
    inversion H; subst. cbn [map]. rewrite (Hx p eq_refl), (IH qs eq_refl). reflexivity.
Qed.

Lemma new_struct_as_interface m :
  Forall (fun kv => forall p, new_value (snd kv) = Some p -> as_interface p = norm (snd kv)) m ->
  forall ps, new_struct m = Some ps ->
  map (fun kv => (fst kv, as_interface (snd kv))) ps = map (fun kv => (fst kv, norm (snd kv))) m.
Proof.
  unfold new_struct. induction 1 as [|[k x] r Hx Hr IH]; intros ps H; cbn [new_struct_aux] in H.
  - inversion H; reflexivity.
  - cbn [snd] in Hx. destruct (utf8_valid k); [|discriminate].
    destruct (new_value x) as [p|] eqn:Ex; [|discriminate].
    destruct (new_struct_aux new_value r) as [qs|] eqn:Er; [|discriminate].
    inversion H; subst. cbn [map fst snd]. rewrite (Hx p eq_refl), (IH qs eq_refl). reflexivity.
Qed.

Theorem new_value_as_interface :
  forall v p, new_value v = Some p -> as_interface p = norm v.
Proof.
  induction v using gval_ind2; intros p Hp.
  - inversion Hp; reflexivity.
  - inversion Hp; reflexivity.
  - inversion Hp; reflexivity.
  - inversion Hp; reflexivity.
  - inversion Hp; reflexivity.
  - cbn [new_value] in Hp. destruct (utf8_valid s); inversion Hp; reflexivity.
  - inversion Hp; reflexivity.
  - rewrite new_value_list in Hp. destruct (new_list l) as [ps|] eqn:E; [|discriminate].
    inversion Hp; subst. cbn [as_interface norm]. f_equal. now apply new_list_as_interface.
  - rewrite new_value_map in Hp. destruct (new_struct m) as [ps|] eqn:E; [|discriminate].
    inversion Hp; subst. cbn [as_interface norm]. f_equal. now apply new_struct_as_interface.
  - discriminate.
Qed.

(* ------------------------------------------------------------------ exactly the rejected inputs fail *)
Lemma new_list_none l :
  Forall (fun v => new_value v = None <-> rejected v = true) l ->
  (new_list l = None <-> existsb rejected l = true).
Proof.
  unfold new_list. induction 1 as [|x r Hx Hr IH]; cbn [new_list_aux existsb].
  - split; discriminate.
  - destruct (new_value x) as [p|] eqn:Ex.
    + assert (rejected x = false) as ->.
      { destruct (rejected x) eqn:R; [|reflexivity]. destruct Hx as [_ Hx]. specialize (Hx eq_refl). discriminate. }
      cbn [orb]. destruct (new_list_aux new_value r) eqn:Er.
      * split; [discriminate|]. intros H. apply IH in H. discriminate.
      * split; [intros _; now apply IH|reflexivity].
    + assert (rejected x = true) as -> by now apply Hx. split; reflexivity.
Qed.

Lemma new_struct_none m :
  Forall (fun kv => new_value (snd kv) = None <-> rejected (snd kv) = true) m ->
  (new_struct m = None <-> existsb (fun kv => negb (utf8_valid (fst kv)) || rejected (snd kv)) m = true).
Proof.
  unfold new_struct. induction 1 as [|[k x] r Hx Hr IH]; cbn [new_struct_aux existsb fst snd].
  - split; discriminate.
  - cbn [snd] in Hx. destruct (utf8_valid k); cbn [negb orb]; [|split; reflexivity].
    destruct (new_value x) as [p|] eqn:Ex.
    + assert (rejected x = false) as ->.
      { destruct (rejected x) eqn:R; [|reflexivity]. destruct Hx as [_ Hx]. specialize (Hx eq_refl). discriminate. }
      cbn [orb]. destruct (new_struct_aux new_value r) eqn:Er.
      * split; [discriminate|]. intros H. apply IH in H. discriminate.
      * split; [intros _; now apply IH|reflexivity].
    + assert (rejected x = true) as -> by now apply Hx. split; reflexivity.
Qed.

Theorem new_value_none_iff :
  forall v, new_value v = None <-> rejected v = true.
Proof.
  induction v using gval_ind2; try (cbn; split; discriminate).
  - cbn [new_value rejected]. destruct (utf8_valid s); cbn; split; congruence.
  - rewrite new_value_list. cbn [rejected]. rewrite <- (new_list_none l H).
    destruct (new_list l); split; congruence.
  - rewrite new_value_map. cbn [rejected]. rewrite <- (new_struct_none m H).
    destruct (new_struct m); split; congruence.
  - cbn; split; reflexivity.
Qed.

(* ------------------------------------------------------------------ the JSON-like domain *)
Lemma finite_num_as_interface bits : f64_finite bits = true -> num_as_interface bits = GNum bits.
Proof.
  unfold num_as_interface, f64_is_nan, f64_finite. intros H.
  destruct (f64_exp bits =? 2047) eqn:E; [discriminate|]. cbn [andb].
  destruct (bits =? f64_pinf) eqn:E1.
  { apply N.eqb_eq in E1. subst. vm_compute in E. discriminate. }
  destruct (bits =? f64_ninf) eqn:E2.
  { apply N.eqb_eq in E2. subst. vm_compute in E. discriminate. }
  reflexivity.
Qed.

Lemma map_id_Forall {A} (f : A -> A) l : Forall (fun x => f x = x) l -> map f l = l.
Proof. induction 1; cbn; congruence. Qed.

Theorem json_like_norm : forall v, json_like v = true -> norm v = v.
Proof.
  induction v using gval_ind2; cbn [json_like norm]; intros J; try reflexivity; try discriminate.
  - apply andb_prop in J. now apply finite_num_as_interface.
  - f_equal. apply map_id_Forall. rewrite forallb_forall in J. rewrite Forall_forall in *.
    intros x Hx. apply H; [assumption|now apply J].
  - f_equal. apply map_id_Forall. rewrite forallb_forall in J. rewrite Forall_forall in *.
    intros [k x] Hx. cbn [fst snd]. f_equal. apply (H (k, x) Hx).
    specialize (J _ Hx). cbn [fst snd] in J. now apply andb_prop in J.
Qed.

Theorem json_like_not_rejected : forall v, json_like v = true -> rejected v = false.
Proof.
  induction v using gval_ind2; cbn [json_like rejected]; intros J; try reflexivity; try discriminate.
  - now rewrite J.
  - destruct (existsb rejected l) eqn:E; [|reflexivity].
    apply existsb_exists in E. destruct E as [x [Hx R]]. rewrite forallb_forall in J. rewrite Forall_forall in H.
    rewrite (H x Hx (J x Hx)) in R. discriminate.
  - match goal with |- ?e = false => destruct e eqn:E end; [|reflexivity].
    apply existsb_exists in E. destruct E as [[k x] [Hx R]]. rewrite forallb_forall in J. rewrite Forall_forall in H.
    specialize (J _ Hx). cbn [fst snd] in *. apply andb_prop in J. destruct J as [J1 J2].
    pose proof (H (k, x) Hx) as Hk. cbn [snd] in Hk. rewrite J1, (Hk J2) in R. discriminate.
Qed.

Theorem value_roundtrip :
  forall v, json_like v = true -> exists p, new_value v = Some p /\ as_interface p = v.
Proof.
  intros v J. destruct (new_value v) as [p|] eqn:E.
  - exists p. split; [reflexivity|]. rewrite (new_value_as_interface v p E). now apply json_like_norm.
  - apply new_value_none_iff in E. rewrite (json_like_not_rejected v J) in E. discriminate.
Qed.

(* the documented domain: everything except invalid strings/keys and unsupported types is accepted,
   and the result is the documented conversion *)
Theorem value_roundtrip_conversions :
  forall v, rejected v = false -> exists p, new_value v = Some p /\ as_interface p = norm v.
Proof.
  intros v R. destruct (new_value v) as [p|] eqn:E.
  - exists p. split; [reflexivity|]. now apply new_value_as_interface.
  - apply new_value_none_iff in E. congruence.
Qed.

(* invalid UTF-8 anywhere is rejected *)
Fixpoint has_invalid_utf8 (v : gval) : bool :=
  match v with
  | GStr s => negb (utf8_valid s)
  | GList l => existsb has_invalid_utf8 l
  | GMap m => existsb (fun kv => negb (utf8_valid (fst kv)) || has_invalid_utf8 (snd kv)) m
  | _ => false
  end.

Lemma has_invalid_rejected : forall v, has_invalid_utf8 v = true -> rejected v = true.
Proof.
  induction v using gval_ind2; cbn [has_invalid_utf8 rejected]; intros Hv; try discriminate; try assumption.
  - apply existsb_exists in Hv. destruct Hv as [x [Hx R]]. apply existsb_exists. exists x. split; [assumption|].
    rewrite Forall_forall in H. now apply H.
  - apply existsb_exists in Hv. destruct Hv as [[k x] [Hx R]]. apply existsb_exists. exists (k, x). split; [assumption|].
    rewrite Forall_forall in H. cbn [fst snd] in *. apply orb_prop in R. destruct R as [R|R].
    + now rewrite R.
    + pose proof (H (k, x) Hx) as Hk. cbn [snd] in Hk. rewrite (Hk R). apply orb_true_r.
Qed.

Theorem value_invalid_utf8_rejected : forall v, has_invalid_utf8 v = true -> new_value v = None.
Proof. intros v Hv. apply new_value_none_iff. now apply has_invalid_rejected. Qed.

(* the result of a successful NewValue never contains an unset Value or an invalid string:
   it is always acceptable to protojson except for non-finite numbers *)
Fixpoint pval_wf (p : pval) : bool :=
  match p with
  | PUnset => false
  | PString s => utf8_valid s
  | PStruct m => forallb (fun kv => utf8_valid (fst kv) && pval_wf (snd kv)) m
  | PList l => forallb pval_wf l
  | _ => true
  end.

(* ------------------------------------------------------------------ base64 *)
Lemma lt64_cases (P : N -> Prop) :
  (forall n, In n (map N.of_nat (seq 0 64)) -> P n) -> forall n, n < 64 -> P n.
Proof.
  intros H n Hn. apply H. apply in_map_iff. exists (N.to_nat n). split; [lia|]. apply in_seq. lia.
Qed.

Lemma b64_val_char n : n < 64 -> b64_val (b64_char n) = Some n.
Proof.
  revert n. apply lt64_cases. intros n Hn.
  assert (F : forallb (fun n => match b64_val (b64_char n) with Some m => m =? n | None => false end)
                      (map N.of_nat (seq 0 64)) = true) by (vm_compute; reflexivity).
  rewrite forallb_forall in F. specialize (F n Hn).
  destruct (b64_val (b64_char n)); [|discriminate]. apply N.eqb_eq in F. now subst.
Qed.

Lemma b64_char_not_pad n : n < 64 -> is_pad (b64_char n) = false.
Proof.
  revert n. apply lt64_cases. intros n Hn.
  assert (F : forallb (fun n => negb (is_pad (b64_char n))) (map N.of_nat (seq 0 64)) = true) by (vm_compute; reflexivity).
  rewrite forallb_forall in F. specialize (F n Hn). now destruct (is_pad (b64_char n)).
Qed.

Lemma is_pad_pad : is_pad b64_pad = true.
Proof. vm_compute. reflexivity. Qed.

Lemma list_ind3 {A} (P : list A -> Prop) :
  P [] -> (forall a, P [a]) -> (forall a b, P [a; b]) ->
  (forall a b c r, P r -> P (a :: b :: c :: r)) -> forall l, P l.
Proof.
  intros H0 H1 H2 H3.
  assert (forall l, P l /\ (forall a, P (a :: l)) /\ (forall a b, P (a :: b :: l))) as H.
  { induction l as [|x l [IH0 [IH1 IH2]]].
    - repeat split; auto.
    - repeat split; auto. }
  intros l. apply H.
Qed.

Theorem b64_decode_encode : forall bs, b64_decode (b64_encode bs) = Some bs.
Proof.
  induction bs as [|a|a b|a b c r IH] using list_ind3.
  - reflexivity.
  - pose proof (b2n_lt a) as Ha. cbn [b64_encode b64_decode].
    rewrite !b64_val_char by lia. rewrite is_pad_pad.
    replace ((b2n a mod 4 * 16) mod 16 =? 0) with true by (symmetry; apply N.eqb_eq; lia).
    replace (b2n a / 4 * 4 + b2n a mod 4 * 16 / 16) with (b2n a) by lia.
    now rewrite n2b_b2n.
  - pose proof (b2n_lt a) as Ha. pose proof (b2n_lt b) as Hb. cbn [b64_encode b64_decode].
    rewrite !b64_val_char by lia. rewrite is_pad_pad. rewrite b64_char_not_pad by lia.
    replace ((b2n b mod 16 * 4) mod 4 =? 0) with true by (symmetry; apply N.eqb_eq; lia).
    replace (b2n a / 4 * 4 + (b2n a mod 4 * 16 + b2n b / 16) / 16) with (b2n a) by lia.
    replace ((b2n a mod 4 * 16 + b2n b / 16) mod 16 * 16 + b2n b mod 16 * 4 / 4) with (b2n b) by lia.
    now rewrite !n2b_b2n.
  - pose proof (b2n_lt a) as Ha. pose proof (b2n_lt b) as Hb. pose proof (b2n_lt c) as Hc.
    cbn [b64_encode]. cbn [b64_decode]. fold b64_decode.
    rewrite !b64_val_char by lia. rewrite !b64_char_not_pad by lia. rewrite IH.
    replace (b2n a / 4 * 4 + (b2n a mod 4 * 16 + b2n b / 16) / 16) with (b2n a) by lia.
    replace ((b2n a mod 4 * 16 + b2n b / 16) mod 16 * 16 + (b2n b mod 16 * 4 + b2n c / 64) / 4) with (b2n b) by lia.
    replace ((b2n b mod 16 * 4 + b2n c / 64) mod 4 * 64 + b2n c mod 64) with (b2n c) by lia.
    now rewrite !n2b_b2n.
Qed.

Corollary b64_encode_injective : forall a b, b64_encode a = b64_encode b -> a = b.
Proof.
  intros a b H. apply (f_equal b64_decode) in H. rewrite !b64_decode_encode in H. congruence.
Qed.

(* base64 text is ASCII, hence valid UTF-8: NewValue([]byte) always stores a valid string *)
Lemma ascii_utf8_valid l : Forall (fun b => b2n b < 128) l -> utf8_valid l = true.
Proof.
  induction 1 as [|b r Hb Hr IH]; [reflexivity|]. cbn [utf8_valid].
  replace (b2n b <? 128) with true by (symmetry; apply N.ltb_lt; assumption). assumption.
Qed.

Lemma b64_char_ascii n : b2n (b64_char n) < 128.
Proof.
  unfold b64_char.
  destruct (n <? 26) eqn:E1; [rewrite b2n_n2b; lia|].
  destruct (n <? 52) eqn:E2; [rewrite b2n_n2b; lia|].
  destruct (n <? 62) eqn:E3; [rewrite b2n_n2b; lia|].
  destruct (n =? 62); rewrite b2n_n2b; lia.
Qed.

Lemma b64_encode_ascii : forall bs, Forall (fun b => b2n b < 128) (b64_encode bs).
Proof.
  assert (Hp : b2n b64_pad < 128) by (vm_compute; reflexivity).
  induction bs as [|a|a b|a b c r IH] using list_ind3; cbn [b64_encode];
    repeat (constructor; try apply b64_char_ascii; try assumption).
Qed.

Theorem b64_encode_utf8_valid : forall bs, utf8_valid (b64_encode bs) = true.
Proof. intros. apply ascii_utf8_valid, b64_encode_ascii. Qed.

(* ------------------------------------------------------------------ integers up to 2^53 convert exactly *)
Lemma pow52 : 2^52 = 4503599627370496. Proof. reflexivity. Qed.
Lemma pow63 : 2^63 = 9223372036854775808. Proof. reflexivity. Qed.

Lemma f64_fields (s e f : N) :
  s < 2 -> e < 2048 -> f < 2^52 ->
  f64_exp (s * 2^63 + e * 2^52 + f) = e /\ f64_frac (s * 2^63 + e * 2^52 + f) = f /\
  f64_sign (s * 2^63 + e * 2^52 + f) = (s =? 1).
Proof.
  intros Hs He Hf. unfold f64_exp, f64_frac, f64_sign. rewrite pow52, pow63 in *.
  repeat split.
  - assert ((s * 9223372036854775808 + e * 4503599627370496 + f) / 4503599627370496 = s * 2048 + e) as -> by lia.
    lia.
  - lia.
  - destruct (s =? 1) eqn:E; lia.
Qed.

(* a significand a with exactly L <= 53 bits *)
Lemma mag_exact (L a : N) :
  1 <= L -> L <= 53 -> 2^(L-1) <= a -> a < 2^L ->
  let bits := (L - 1 + 1023) * 2^52 + (a * 2^(53 - L) - 2^52) in
  bits < 2^63 /\ f64_exp bits = L + 1022 /\ f64_frac bits = a * 2^(53 - L) - 2^52.
Proof.
  intros HL1 HL2 Hlo Hhi bits.
  assert (Hk : 2^(L-1) * 2^(53-L) = 2^52) by (rewrite <- N.pow_add_r; f_equal; lia).
  assert (Hk2 : 2^L * 2^(53-L) = 2^53) by (rewrite <- N.pow_add_r; f_equal; lia).
  assert (Hp : 0 < 2^(53-L)) by (apply N.neq_0_lt_0, N.pow_nonzero; lia).
  assert (Hm1 : 2^52 <= a * 2^(53-L)) by (rewrite <- Hk; apply N.mul_le_mono_r; assumption).
  assert (Hm2 : a * 2^(53-L) < 2^53) by (rewrite <- Hk2; apply N.mul_lt_mono_pos_r; assumption).
  set (m := a * 2^(53-L)) in *.
  assert (H53 : 2^53 = 2 * 2^52) by reflexivity.
  destruct (f64_fields 0 (L - 1 + 1023) (m - 2^52)) as [E1 [E2 E3]]; [lia|lia|lia|].
  replace (0 * 2^63 + (L - 1 + 1023) * 2^52 + (m - 2^52)) with bits in * by (unfold bits; lia).
  repeat split.
  - unfold bits. rewrite pow63. rewrite pow52 in *.
    assert ((L - 1 + 1023) <= 1075) by lia. nia.
  - rewrite E1. lia.
  - exact E2.
Qed.

Lemma size_bounds a : a <> 0 -> 1 <= N.size a /\ 2^(N.size a - 1) <= a /\ a < 2^(N.size a).
Proof.
  intros Ha. destruct a as [|p]; [congruence|].
  pose proof (N.size_gt (Npos p)) as Hgt.
  pose proof (N.size_le (Npos p)) as Hle.
  assert (H1 : 1 <= N.size (Npos p)) by (cbn; lia).
  repeat split; try assumption.
  set (L := N.size (N.pos p)) in *.
  replace (2 ^ L) with (2 * 2^(L - 1)) in Hle.
  2:{ rewrite <- N.pow_succ_r'. f_equal. lia. }
  rewrite N.succ_double_spec in Hle. lia.
Qed.

Lemma n_to_f64_mag_exact a :
  a <> 0 -> a < 2^53 ->
  let bits := n_to_f64_mag a in
  bits < 2^63 /\ f64_to_Z bits = Some (Z.of_N a) /\ f64_to_Z (2^63 + bits) = Some (- Z.of_N a)%Z.
Proof.
  intros Ha Hlt.
  destruct (size_bounds a Ha) as [HL1 [Hlo Hhi]].
  set (L := N.size a) in *.
  assert (HL2 : L <= 53).
  { destruct (N.le_gt_cases L 53) as [|Hgt]; [assumption|exfalso].
    assert (2^53 <= 2^(L-1)) by (apply N.pow_le_mono_r; lia). lia. }
  cbv zeta. unfold n_to_f64_mag. fold L.
  replace (L <=? 53) with true by (symmetry; apply N.leb_le; assumption).
  clearbody L.
  destruct (mag_exact L a HL1 HL2 Hlo Hhi) as [Hb [He Hf]].
  set (bits := (L - 1 + 1023) * 2 ^ 52 + (a * 2 ^ (53 - L) - 2 ^ 52)) in *.
  assert (Hk : 2^(L-1) * 2^(53-L) = 2^52) by (rewrite <- N.pow_add_r; f_equal; lia).
  assert (Hp : 0 < 2^(53-L)) by (apply N.neq_0_lt_0, N.pow_nonzero; lia).
  assert (Hm1 : 2^52 <= a * 2^(53-L)) by (rewrite <- Hk; apply N.mul_le_mono_r; assumption).
  (* the magnitude decoded from exponent L+1022 and fraction a*2^(53-L) - 2^52 is a *)
  assert (Hmag : forall bits', f64_exp bits' = L + 1022 -> f64_frac bits' = a * 2^(53-L) - 2^52 ->
            f64_to_Z bits' = Some (if f64_sign bits' then Z.opp (Z.of_N a) else Z.of_N a)).
  { intros bits' E1 E2. unfold f64_to_Z. rewrite E1, E2.
    replace (L + 1022 =? 2047) with false by (symmetry; apply N.eqb_neq; lia).
    replace (L + 1022 =? 0) with false by (symmetry; apply N.eqb_neq; lia).
    replace (2^52 + (a * 2^(53-L) - 2^52)) with (a * 2^(53-L)) by lia.
    destruct (1075 <=? L + 1022) eqn:EL.
    - apply N.leb_le in EL. assert (L = 53) by lia. subst L.
      replace (53 + 1022 - 1075) with 0 by lia. replace (53 - 53) with 0 by lia.
      rewrite N.pow_0_r, !N.mul_1_r. reflexivity.
    - apply N.leb_gt in EL. replace (1075 - (L + 1022)) with (53 - L) by lia.
      rewrite N.mod_mul by lia. rewrite N.eqb_refl. rewrite N.div_mul by lia. reflexivity. }
  repeat split.
  - assumption.
  - rewrite (Hmag bits He Hf). unfold f64_sign.
    replace (2^63 <=? bits) with false by (symmetry; apply N.leb_gt; assumption). reflexivity.
  - destruct (f64_fields 1 (L + 1022) (a * 2^(53-L) - 2^52)) as [E1 [E2 E3]]; [lia| lia | |].
    { assert (a * 2^(53-L) < 2^53).
      { replace (2^53) with (2^L * 2^(53-L)) by (rewrite <- N.pow_add_r; f_equal; lia).
        apply N.mul_lt_mono_pos_r; assumption. }
      change (2^53) with (2 * 2^52) in *. lia. }
    assert (Hbits : 2^63 + bits = 1 * 2^63 + (L + 1022) * 2^52 + (a * 2^(53-L) - 2^52)).
    { unfold bits. lia. }
    rewrite Hbits. rewrite (Hmag _ E1 E2). rewrite E3. reflexivity.
Qed.

Theorem z_to_f64_exact : forall z, (Z.abs z <= 2^53)%Z -> f64_to_Z (z_to_f64 z) = Some z.
Proof.
  intros z Hz.
  destruct (Z.eq_dec (Z.abs z) (2^53)) as [E|NE].
  { (* the boundary value itself: 2^53 has 54 bits and an even quotient *)
    destruct z as [|p|p]; cbn in E; try discriminate.
    - inversion E; subst. vm_compute. reflexivity.
    - inversion E; subst. vm_compute. reflexivity. }
  destruct z as [|p|p].
  - vm_compute. reflexivity.
  - cbn [z_to_f64]. destruct (n_to_f64_mag_exact (Npos p)) as [_ [H _]]; [discriminate| |].
    + change (2^53) with 9007199254740992. cbn in Hz, NE. lia.
    + rewrite H. reflexivity.
  - cbn [z_to_f64]. destruct (n_to_f64_mag_exact (Npos p)) as [_ [_ H]]; [discriminate| |].
    + change (2^53) with 9007199254740992. cbn in Hz, NE. lia.
    + rewrite H. reflexivity.
Qed.

(* integers of that range never become NaN or an infinity, so AsInterface returns the number *)
Theorem z_to_f64_finite : forall z, (Z.abs z <= 2^53)%Z -> f64_finite (z_to_f64 z) = true.
Proof.
  intros z Hz. pose proof (z_to_f64_exact z Hz) as H. unfold f64_to_Z in H. unfold f64_finite.
  destruct (f64_exp (z_to_f64 z) =? 2047); [discriminate|reflexivity].
Qed.

(* ------------------------------------------------------------------ JSON agreement at tree level *)
Section JAux.
  Variable fg : gval -> option jval.
  Variable fp : pval -> option jval.
  Fixpoint jlist_g (l : list gval) : option (list jval) :=
    match l with
    | [] => Some []
    | x :: r => match fg x, jlist_g r with Some j, Some js => Some (j :: js) | _, _ => None end
    end.
  Fixpoint jmap_g (m : list (list byte * gval)) : option (list (list byte * jval)) :=
    match m with
    | [] => Some []
    | (k, x) :: r => if utf8_valid k then
                       match fg x, jmap_g r with Some j, Some js => Some ((k, j) :: js) | _, _ => None end
                     else None
    end.
  Fixpoint jlist_p (l : list pval) : option (list jval) :=
    match l with
    | [] => Some []
    | x :: r => match fp x, jlist_p r with Some j, Some js => Some (j :: js) | _, _ => None end
    end.
  Fixpoint jmap_p (m : list (list byte * pval)) : option (list (list byte * jval)) :=
    match m with
    | [] => Some []
    | (k, x) :: r => if utf8_valid k then
                       match fp x, jmap_p r with Some j, Some js => Some ((k, j) :: js) | _, _ => None end
                     else None
    end.
End JAux.

Lemma json_of_gval_list l :
  json_of_gval (GList l) = match jlist_g json_of_gval l with Some js => Some (JArr js) | None => None end.
Proof. reflexivity. Qed.
Lemma json_of_gval_map m :
  json_of_gval (GMap m) = match jmap_g json_of_gval m with Some js => Some (JObj js) | None => None end.
Proof. reflexivity. Qed.
Lemma json_of_pval_list l :
  json_of_pval (PList l) = match jlist_p json_of_pval l with Some js => Some (JArr js) | None => None end.
Proof. reflexivity. Qed.
Lemma json_of_pval_map m :
  json_of_pval (PStruct m) = match jmap_p json_of_pval m with Some js => Some (JObj js) | None => None end.
Proof. reflexivity. Qed.

Theorem value_json_agrees_tree :
  forall p j, json_of_pval p = Some j -> json_of_gval (as_interface p) = Some j.
Proof.
  induction p using pval_ind2; intros j Hj.
  - discriminate.
  - exact Hj.
  - cbn [json_of_pval] in Hj. destruct (f64_finite b) eqn:F; [|discriminate].
    cbn [as_interface]. rewrite finite_num_as_interface by assumption. cbn [json_of_gval]. now rewrite F.
  - exact Hj.
  - exact Hj.
  - rewrite json_of_pval_map in Hj. cbn [as_interface]. rewrite json_of_gval_map.
    destruct (jmap_p json_of_pval m) as [js|] eqn:E; [|discriminate]. inversion Hj; subst. clear Hj.
    assert (jmap_g json_of_gval (map (fun kv => (fst kv, as_interface (snd kv))) m) = Some js) as ->; [|reflexivity].
    revert js E. induction H as [|[k x] r Hx Hr IH]; intros js E; cbn [jmap_p map jmap_g fst snd] in *.
    + assumption.
    + destruct (utf8_valid k); [|discriminate].
      destruct (json_of_pval x) as [jx|] eqn:Ex; [|discriminate].
      destruct (jmap_p json_of_pval r) as [jr|] eqn:Er; [|discriminate].
      rewrite (Hx jx eq_refl), (IH jr eq_refl). assumption.
  - rewrite json_of_pval_list in Hj. cbn [as_interface]. rewrite json_of_gval_list.
    destruct (jlist_p json_of_pval l) as [js|] eqn:E; [|discriminate]. inversion Hj; subst. clear Hj.
    assert (jlist_g json_of_gval (map as_interface l) = Some js) as ->; [|reflexivity].
    revert js E. induction H as [|x r Hx Hr IH]; intros js E; cbn [jlist_p map jlist_g] in *.
    + assumption.
    + destruct (json_of_pval x) as [jx|] eqn:Ex; [|discriminate].
      destruct (jlist_p json_of_pval r) as [jr|] eqn:Er; [|discriminate].
      rewrite (Hx jx eq_refl), (IH jr eq_refl). assumption.
Qed.

(* ------------------------------------------------------------------ combined statements used by Props/C45.v *)
Theorem int_conversion_exact :
  forall z, (Z.abs z <= 2^53)%Z -> f64_to_Z (z_to_f64 z) = Some z /\ f64_finite (z_to_f64 z) = true.
Proof. intros z H. split; [exact (z_to_f64_exact z H)|exact (z_to_f64_finite z H)]. Qed.

Theorem bytes_conversion_invertible :
  forall bs, b64_decode (b64_encode bs) = Some bs /\ utf8_valid (b64_encode bs) = true.
Proof. intros bs. split; [exact (b64_decode_encode bs)|exact (b64_encode_utf8_valid bs)]. Qed.
