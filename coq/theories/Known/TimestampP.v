(* Proofs about the timestamppb helper model (C43). *)
From Coq Require Import ZArith Bool Lia.
From Coq Require Import ZifyBool.
From PB Require Import Known.DurationModel Known.DurationP Known.TimestampModel.
Open Scope Z_scope.
Ltac Zify.zify_post_hook ::= Z.to_euclidean_division_equations.

Lemma wrap64_add_sub z c : in_int64 z -> wrap64 (wrap64 (z - c) + c) = z.
Proof. unfold in_int64, min_int64, max_int64, wrap64. intros H. lia. Qed.

(* AsTime(New(t)) = t for every time.Time (any internal second count, any location:
   the model identifies times that time.Time.Equal identifies) *)
Theorem timestamp_new_as_inverse t :
  time_ok t -> let '(s, n) := ts_new t in as_time s n = t.
Proof.
  destruct t as [isec nsec]. unfold time_ok, ts_new, as_time, go_unix, time_unix, time_nanosecond.
  cbn [t_isec t_nsec]. intros [H1 H2].
  assert (wrap32 nsec = nsec) as -> by (apply wrap32_id; unfold in_int32, min_int32, max_int32, e9 in *; lia).
  assert ((nsec <? 0) || (e9 <=? nsec) = false) as -> by lia.
  f_equal. now apply wrap64_add_sub.
Qed.

(* New(t) of any time has nanos in [0, 10^9) and seconds = Unix seconds *)
Theorem ts_new_fields t :
  time_ok t -> let '(s, n) := ts_new t in in_int64 s /\ 0 <= n < e9 /\ s = time_unix t /\ n = t_nsec t.
Proof.
  destruct t as [isec nsec]. unfold time_ok, ts_new, time_unix, time_nanosecond. cbn [t_isec t_nsec].
  intros [H1 H2].
  assert (wrap32 nsec = nsec) as -> by (apply wrap32_id; unfold in_int32, min_int32, max_int32, e9 in *; lia).
  repeat split; try lia; apply wrap64_range.
Qed.

(* AsTime on arbitrary field values: the nanos are normalised into [0,10^9) with carry,
   seconds wrap only at the int64 limits *)
Theorem as_time_spec secs nanos :
  in_int64 secs -> in_int32 nanos ->
  let t := as_time secs nanos in
  time_ok t /\
  t_nsec t = nanos mod e9 /\
  time_unix t = wrap64 (secs + nanos / e9).
Proof.
  unfold in_int64, in_int32, min_int64, max_int64, min_int32, max_int32.
  intros Hs Hn. unfold as_time, go_unix, time_ok, time_unix, e9.
  destruct ((nanos <? 0) || (1000000000 <=? nanos)) eqn:E.
  - set (n := Z.quot nanos 1000000000).
    assert (-3 <= n <= 3) as Hq by (unfold n; lia).
    assert (wrap64 (n * 1000000000) = n * 1000000000) as -> by (apply wrap64_id; unfold in_int64, min_int64, max_int64; lia).
    assert (nanos - n * 1000000000 = Z.rem nanos 1000000000) as -> by (unfold n; lia).
    assert (wrap64 (Z.rem nanos 1000000000) = Z.rem nanos 1000000000) as ->
      by (apply wrap64_id; unfold in_int64, min_int64, max_int64; lia).
    destruct (Z.rem nanos 1000000000 <? 0) eqn:E2; cbn [t_isec t_nsec].
    + assert (wrap64 (Z.rem nanos 1000000000 + 1000000000) = Z.rem nanos 1000000000 + 1000000000) as ->
        by (apply wrap64_id; unfold in_int64, min_int64, max_int64; lia).
      repeat split; try (unfold in_int64, min_int64, max_int64, wrap64; lia).
    + repeat split; try (unfold in_int64, min_int64, max_int64, wrap64; lia).
  - cbn [t_isec t_nsec].
    repeat split; try (unfold in_int64, min_int64, max_int64, wrap64; lia).
Qed.

(* for valid nanos and every int64 seconds: New(AsTime(x)) = x *)
Theorem timestamp_as_new_inverse secs nanos :
  in_int64 secs -> 0 <= nanos < e9 -> ts_new (as_time secs nanos) = (secs, nanos).
Proof.
  unfold in_int64, min_int64, max_int64, e9. intros Hs Hn.
  unfold ts_new, as_time, go_unix, time_unix, time_nanosecond, e9.
  assert ((nanos <? 0) || (1000000000 <=? nanos) = false) as -> by lia.
  cbn [t_isec t_nsec]. f_equal.
  - unfold wrap64, unix_to_internal. lia.
  - apply wrap32_id. unfold in_int32, min_int32, max_int32. lia.
Qed.

Theorem ts_check_ranges_exact secs nanos :
  ts_check secs nanos = 0 <->
  (-62135596800 <= secs <= 253402300799 /\ 0 <= nanos <= 999999999).
Proof. unfold ts_check, min_timestamp, max_timestamp, e9. split_ifs. Qed.

Theorem ts_check_classes secs nanos :
  (ts_check secs nanos = 2 <-> secs < -62135596800) /\
  (ts_check secs nanos = 3 <-> secs > 253402300799) /\
  (ts_check secs nanos = 4 <-> -62135596800 <= secs <= 253402300799 /\ (nanos < 0 \/ nanos >= 1000000000)).
Proof. unfold ts_check, min_timestamp, max_timestamp, e9. split_ifs. Qed.
