(* Model of the Duration and FieldMask parts of encoding/protojson/well_known_types.go
   (marshalDuration, parseDuration, unmarshalDuration, marshalFieldMask,
   unmarshalFieldMask) and of internal/strs JSONCamelCase / JSONSnakeCase,
   protoreflect.FullName.IsValid.  Definitions only.  The Timestamp part is in
   TsJsonModel.v.

   Strings are byte lists: the model works on the *content* of the JSON string
   (tok.ParsedString() on input, the argument of e.WriteString on output). *)
From Coq Require Import List NArith ZArith Bool.
From PB Require Import Base.PBytes Known.FieldMaskModel Known.DurationModel.
Import ListNotations.
Open Scope Z_scope.

(* ---------- decimal digits ---------- *)
Definition c0 : byte := "0"%byte.
Definition is_digit (b : byte) : bool := ((48 <=? b2n b) && (b2n b <=? 57))%N.
Definition is_digit19 (b : byte) : bool := ((49 <=? b2n b) && (b2n b <=? 57))%N.
Definition digit_val (b : byte) : Z := Z.of_N (b2n b) - 48.
Definition digit_byte (d : Z) : byte := n2b (Z.to_N (48 + d)).

(* value of a digit string (strconv.ParseInt on digits only, before the range check) *)
Definition dec_value (ds : list byte) : Z := fold_left (fun a b => a * 10 + digit_val b) ds 0.

(* fmt "%d" of a non-negative number *)
Fixpoint dec_fuel (fuel : nat) (n : Z) (acc : list byte) : list byte :=
  match fuel with
  | O => acc
  | S f => let acc' := digit_byte (n mod 10) :: acc in
           if n <? 10 then acc' else dec_fuel f (n / 10) acc'
  end.
Definition dec (n : Z) : list byte := dec_fuel 20 n [].

(* fmt "%0kd" of a number below 10^k *)
Fixpoint pad_dec (k : nat) (n : Z) (acc : list byte) : list byte :=
  match k with
  | O => acc
  | S k' => pad_dec k' (n / 10) (digit_byte (n mod 10) :: acc)
  end.

(* strings.TrimSuffix *)
Fixpoint strip_prefix (pre s : list byte) : option (list byte) :=
  match pre, s with
  | [], _ => Some s
  | a :: pre', b :: s' => if beq a b then strip_prefix pre' s' else None
  | _ :: _, [] => None
  end.
Definition trim_suffix (x suf : list byte) : list byte :=
  match strip_prefix (rev suf) (rev x) with Some r => rev r | None => x end.

Definition z3 : list byte := [c0; c0; c0].
Definition dot_z3 : list byte := dot :: z3.
Definition ch_s : byte := "s"%byte.
Definition ch_minus : byte := "-"%byte.
Definition ch_plus : byte := "+"%byte.

Definition max_seconds_in_duration : Z := 315576000000.
Definition seconds_in_nanos : Z := 999999999.

(* ---------- marshalDuration ----------
   error classes: 1 "seconds out of range", 2 "nanos out of range", 3 "signs ... do not match" *)
Inductive mres := MOk (s : list byte) | MErr (code : Z).

(* the common tail of marshalDuration and marshalTimestamp:
   x = TrimSuffix(TrimSuffix(TrimSuffix(x, "000"), "000"), ".000") *)
Definition trim_frac (x : list byte) : list byte :=
  trim_suffix (trim_suffix (trim_suffix x z3) z3) dot_z3.

Definition marshal_duration (secs nanos : Z) : mres :=
  if (secs <? - max_seconds_in_duration) || (max_seconds_in_duration <? secs) then MErr 1
  else if (nanos <? - seconds_in_nanos) || (seconds_in_nanos <? nanos) then MErr 2
  else if ((0 <? secs) && (nanos <? 0)) || ((secs <? 0) && (0 <? nanos)) then MErr 3
  else
    let neg := (secs <? 0) || (nanos <? 0) in
    let s := if neg then -1 * secs else secs in
    let n := if neg then -1 * nanos else nanos in
    let x := (if neg then [ch_minus] else []) ++ dec s ++ dot :: pad_dec 9 n [] in
    MOk (trim_frac x ++ [ch_s]).

(* ---------- parseDuration ---------- *)
Fixpoint split_last (l : list byte) : option (list byte * byte) :=
  match l with
  | [] => None
  | x :: t => match t with
              | [] => Some ([], x)
              | _ :: _ => match split_last t with
                          | Some (i, y) => Some (x :: i, y)
                          | None => None
                          end
              end
  end.

(* "for len(b) > 0 && '0' <= b[0] && b[0] <= '9'" *)
Fixpoint span_digits (b : list byte) : list byte * list byte :=
  match b with
  | c :: r => if is_digit c then let '(ds, rest) := span_digits r in (c :: ds, rest) else ([], b)
  | [] => ([], [])
  end.
(* "for len(b) > 0 && n < 9 && digit" : at most k digits *)
Fixpoint span_digits_max (k : nat) (b : list byte) : list byte * list byte :=
  match k with
  | O => ([], b)
  | S k' => match b with
            | c :: r => if is_digit c then let '(ds, rest) := span_digits_max k' r in (c :: ds, rest) else ([], b)
            | [] => ([], [])
            end
  end.

(* bytes.TrimLeft(frac[:], "0") *)
Fixpoint trim_left_zeros (l : list byte) : list byte :=
  match l with
  | c :: r => if beq c c0 then trim_left_zeros r else l
  | [] => []
  end.

(* strconv.ParseInt(digits, 10, bits) on a non-empty all-digit string: range error only *)
Definition parse_int_digits (maxv : Z) (ds : list byte) : option Z :=
  let v := dec_value ds in if maxv <? v then None else Some v.

(* sign: (neg, rest) *)
Definition take_sign (b : list byte) : bool * list byte :=
  match b with
  | c :: r => if beq c ch_minus then (true, r) else if beq c ch_plus then (false, r) else (false, b)
  | [] => (false, [])
  end.

(* integer part: (intp, hasInt, rest) *)
Definition int_part (b : list byte) : option (list byte * bool * list byte) :=
  match b with
  | [] => None                            (* "if len(b) == 0 return false" *)
  | c :: r =>
    if beq c c0 then Some ([], true, r)
    else if is_digit19 c then let '(ds, rest) := span_digits r in Some (c :: ds, true, rest)
    else if beq c dot then Some ([], false, b)
    else None
  end.

(* fractional part: None = reject, Some None = absent, Some (Some digits) = present *)
Definition frac_part (hasInt : bool) (b : list byte) : option (option (list byte)) :=
  match b with
  | [] => Some None
  | c :: r =>
    if negb (beq c dot) then None
    else let '(fd, rest) := span_digits_max 9 r in
         match rest with
         | _ :: _ => None
         | [] => if (Nat.eqb (length fd) 0) && negb hasInt then None else Some (Some fd)
         end
  end.

Definition frac_nanos (fd : list byte) : option Z :=
  let padded := fd ++ repeat c0 (9 - length fd) in
  let nanob := trim_left_zeros padded in
  match nanob with [] => Some 0 | _ :: _ => parse_int_digits max_int32 nanob end.

Definition parse_duration (input : list byte) : option (Z * Z) :=
  match split_last input with
  | None => None
  | Some (body, last) =>
    if negb (beq last ch_s) then None
    else match body with
    | [] => None                          (* size < 2 *)
    | _ :: _ =>
      let '(neg, b) := take_sign body in
      match int_part b with
      | None => None
      | Some (intp, hasInt, b) =>
        match frac_part hasInt b with
        | None => None
        | Some fo =>
          match (match intp with [] => Some 0 | _ :: _ => parse_int_digits max_int64 intp end) with
          | None => None
          | Some secs =>
            match (match fo with None => Some 0 | Some fd => frac_nanos fd end) with
            | None => None
            | Some nanos =>
              let secs := if neg && (0 <? secs) then - secs else secs in
              let nanos := if neg && (0 <? nanos) then - nanos else nanos in
              Some (secs, wrap32 nanos)
            end
          end
        end
      end
    end
  end.

(* unmarshalDuration on the string content: 0 ok, 1 "invalid ... value", 2 "value out of range" *)
Inductive ures := UOk (secs nanos : Z) | UErr (code : Z).
Definition unmarshal_duration (input : list byte) : ures :=
  match parse_duration input with
  | None => UErr 1
  | Some (secs, nanos) =>
    if (secs <? - max_seconds_in_duration) || (max_seconds_in_duration <? secs) then UErr 2
    else UOk secs nanos
  end.

(* ---------- internal/strs ---------- *)
Definition ch_us : byte := "_"%byte.
Definition ch_comma : byte := ","%byte.
Definition is_lower (b : byte) : bool := ((97 <=? b2n b) && (b2n b <=? 122))%N.
Definition is_upper (b : byte) : bool := ((65 <=? b2n b) && (b2n b <=? 90))%N.
Definition to_upper (b : byte) : byte := n2b (b2n b - 32)%N.   (* c -= 'a' - 'A' *)
Definition to_lower (b : byte) : byte := n2b (b2n b + 32)%N.   (* c += 'a' - 'A' *)

Fixpoint camel_aux (was_us : bool) (s : list byte) : list byte :=
  match s with
  | [] => []
  | c :: r =>
    if beq c ch_us then camel_aux true r
    else (if was_us && is_lower c then to_upper c else c) :: camel_aux false r
  end.
Definition json_camel_case (s : list byte) : list byte := camel_aux false s.

Fixpoint json_snake_case (s : list byte) : list byte :=
  match s with
  | [] => []
  | c :: r => if is_upper c then ch_us :: to_lower c :: json_snake_case r else c :: json_snake_case r
  end.

(* protoreflect.FullName.IsValid *)
Definition is_letter (b : byte) : bool := beq b ch_us || is_lower b || is_upper b.
Definition is_letter_digit (b : byte) : bool := is_letter b || is_digit b.
(* [start] = an identifier must start here *)
Fixpoint fullname_aux (start : bool) (s : list byte) : bool :=
  match s with
  | [] => negb start
  | c :: r =>
    if start then is_letter c && fullname_aux false r
    else if beq c dot then fullname_aux true r
    else is_letter_digit c && fullname_aux false r
  end.
Definition fullname_valid (s : list byte) : bool := fullname_aux true s.

(* ---------- marshalFieldMask: 1 "invalid path", 2 "irreversible value" ---------- *)
Fixpoint camel_paths (paths : list path) : Z + list (list byte) :=
  match paths with
  | [] => inr []
  | s :: t =>
    if negb (fullname_valid s) then inl 1
    else let cc := json_camel_case s in
         if negb (bytes_eqb s (json_snake_case cc)) then inl 2
         else match camel_paths t with inl e => inl e | inr l => inr (cc :: l) end
  end.

Fixpoint join_bytes (sep : byte) (l : list (list byte)) : list byte :=
  match l with
  | [] => []
  | s :: rest => match rest with [] => s | _ :: _ => s ++ sep :: join_bytes sep rest end
  end.

Definition marshal_fieldmask (paths : list path) : mres :=
  match camel_paths paths with
  | inl e => MErr e
  | inr l => MOk (join_bytes ch_comma l)
  end.

(* ---------- unmarshalFieldMask ---------- *)
(* strings.TrimSpace on valid UTF-8: ASCII \t \n \v \f \r ' ' and the Unicode White_Space
   code points U+0085 U+00A0 U+1680 U+2000..U+200A U+2028 U+2029 U+202F U+205F U+3000 *)
Definition space_prefix_len (s : list byte) : nat :=
  match map b2n s with
  | (9 | 10 | 11 | 12 | 13 | 32)%N :: _ => 1
  | 194%N :: (133 | 160)%N :: _ => 2
  | 225%N :: 154%N :: 128%N :: _ => 3
  | 226%N :: 128%N :: (128 | 129 | 130 | 131 | 132 | 133 | 134 | 135 | 136 | 137 | 138 | 168 | 169 | 175)%N :: _ => 3
  | 226%N :: 129%N :: 159%N :: _ => 3
  | 227%N :: 128%N :: 128%N :: _ => 3
  | _ => 0
  end.
(* the same sequences, read backwards from the end of the string *)
Definition space_suffix_len (r : list byte) : nat :=
  match map b2n r with
  | (9 | 10 | 11 | 12 | 13 | 32)%N :: _ => 1
  | (133 | 160)%N :: 194%N :: _ => 2
  | 128%N :: 154%N :: 225%N :: _ => 3
  | (128 | 129 | 130 | 131 | 132 | 133 | 134 | 135 | 136 | 137 | 138 | 168 | 169 | 175)%N :: 128%N :: 226%N :: _ => 3
  | 159%N :: 129%N :: 226%N :: _ => 3
  | 128%N :: 128%N :: 227%N :: _ => 3
  | _ => 0
  end.
Fixpoint trim_left_space (fuel : nat) (s : list byte) : list byte :=
  match fuel with
  | O => s
  | S f => match space_prefix_len s with O => s | n => trim_left_space f (skipn n s) end
  end.
Fixpoint trim_right_space_rev (fuel : nat) (r : list byte) : list byte :=
  match fuel with
  | O => r
  | S f => match space_suffix_len r with O => r | n => trim_right_space_rev f (skipn n r) end
  end.
Definition trim_space (s : list byte) : list byte :=
  let s := trim_left_space (length s) s in
  rev (trim_right_space_rev (length s) (rev s)).

Fixpoint snake_paths (l : list (list byte)) : option (list path) :=
  match l with
  | [] => Some []
  | s0 :: t =>
    let s := json_snake_case s0 in
    if existsb (fun c => beq c ch_us) s0 || negb (fullname_valid s) then None
    else match snake_paths t with Some r => Some (s :: r) | None => None end
  end.

(* None = error "contains invalid path"; Some l = the paths appended to the (empty) mask *)
Definition unmarshal_fieldmask (input : list byte) : option (list path) :=
  let str := trim_space input in
  match str with
  | [] => Some []
  | _ :: _ => snake_paths (split_on ch_comma str)
  end.
