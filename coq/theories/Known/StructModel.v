(* Model of types/known/structpb (struct.pb.go): NewValue / NewStruct / NewList and
   AsInterface / AsMap / AsSlice.

   Go side                                   model
   -------                                   -----
   any (the argument of NewValue)            gval
   *structpb.Value                           pval   (PUnset = nil *Value or Kind == nil)
   error                                     None   (one error class)
   float64                                   its IEEE-754 bit pattern (N, < 2^64)
   string, []byte                            list byte
   map[string]any / map[string]*Value        association list in strictly increasing key
                                             order (the harness prints maps sorted by key);
                                             every function below works entry by entry, so
                                             the order is irrelevant for the results
   []any(nil) and []any{} (and nil/empty     the same GList [] / GMap []  (NewValue turns a
   maps, nil/empty *Struct, *ListValue)      nil slice into an empty non-nil one: documented
                                             conversion, see norm)

   Definitions only; proofs are in StructP.v. *)
From Coq Require Import List NArith ZArith Bool.
Require Import PB.Base.PBytes.
Import ListNotations.
Open Scope N_scope.

(* ------------------------------------------------------------------ UTF-8 *)
(* unicode/utf8.ValidString: well-formed UTF-8 (Unicode table 3-7): no overlong forms,
   no surrogates, nothing above U+10FFFF. *)
Definition is_cont (c : N) : bool := (0x80 <=? c) && (c <=? 0xBF).

Fixpoint utf8_valid (bs : list byte) : bool :=
  match bs with
  | [] => true
  | b0 :: r0 =>
    let c0 := b2n b0 in
    if c0 <? 0x80 then utf8_valid r0 else
    if c0 <? 0xC2 then false else
    match r0 with
    | [] => false
    | b1 :: r1 =>
      let c1 := b2n b1 in
      if c0 <? 0xE0 then is_cont c1 && utf8_valid r1 else
      match r1 with
      | [] => false
      | b2 :: r2 =>
        let c2 := b2n b2 in
        if c0 <? 0xF0 then
          (if c0 =? 0xE0 then (0xA0 <=? c1) && (c1 <=? 0xBF)
           else if c0 =? 0xED then (0x80 <=? c1) && (c1 <=? 0x9F)
           else is_cont c1)
          && is_cont c2 && utf8_valid r2
        else
        match r2 with
        | [] => false
        | b3 :: r3 =>
          let c3 := b2n b3 in
          if c0 <? 0xF5 then
            (if c0 =? 0xF0 then (0x90 <=? c1) && (c1 <=? 0xBF)
             else if c0 =? 0xF4 then (0x80 <=? c1) && (c1 <=? 0x8F)
             else is_cont c1)
            && is_cont c2 && is_cont c3 && utf8_valid r3
          else false
        end
      end
    end
  end.

(* ------------------------------------------------------------------ base64 *)
(* encoding/base64.StdEncoding: alphabet A-Z a-z 0-9 + /, '=' padding. *)
Definition b64_char (n : N) : byte :=
  n2b (if n <? 26 then 65 + n
       else if n <? 52 then 97 + (n - 26)
       else if n <? 62 then 48 + (n - 52)
       else if n =? 62 then 43 else 47).

Definition b64_pad : byte := n2b 61.

Fixpoint b64_encode (bs : list byte) : list byte :=
  match bs with
  | [] => []
  | [a] =>
    let x := b2n a in
    [b64_char (x / 4); b64_char ((x mod 4) * 16); b64_pad; b64_pad]
  | [a; b] =>
    let x := b2n a in let y := b2n b in
    [b64_char (x / 4); b64_char ((x mod 4) * 16 + y / 16); b64_char ((y mod 16) * 4); b64_pad]
  | a :: b :: c :: r =>
    let x := b2n a in let y := b2n b in let z := b2n c in
    b64_char (x / 4) :: b64_char ((x mod 4) * 16 + y / 16)
      :: b64_char ((y mod 16) * 4 + z / 64) :: b64_char (z mod 64) :: b64_encode r
  end.

(* the inverse (used only to state that the documented []byte conversion loses nothing) *)
Definition b64_val (b : byte) : option N :=
  let c := b2n b in
  if (65 <=? c) && (c <=? 90) then Some (c - 65)
  else if (97 <=? c) && (c <=? 122) then Some (c - 97 + 26)
  else if (48 <=? c) && (c <=? 57) then Some (c - 48 + 52)
  else if c =? 43 then Some 62
  else if c =? 47 then Some 63
  else None.

Definition is_pad (b : byte) : bool := b2n b =? 61.

Fixpoint b64_decode (cs : list byte) : option (list byte) :=
  match cs with
  | [] => Some []
  | c0 :: c1 :: c2 :: c3 :: r =>
    match b64_val c0, b64_val c1 with
    | Some v0, Some v1 =>
      if is_pad c2 then
        if is_pad c3 then
          match r with
          | [] => if (v1 mod 16) =? 0 then Some [n2b (v0 * 4 + v1 / 16)] else None
          | _ => None
          end
        else None
      else
      match b64_val c2 with
      | None => None
      | Some v2 =>
        if is_pad c3 then
          match r with
          | [] => if (v2 mod 4) =? 0
                  then Some [n2b (v0 * 4 + v1 / 16); n2b ((v1 mod 16) * 16 + v2 / 4)] else None
          | _ => None
          end
        else
        match b64_val c3 with
        | None => None
        | Some v3 =>
          match b64_decode r with
          | None => None
          | Some t => Some (n2b (v0 * 4 + v1 / 16) :: n2b ((v1 mod 16) * 16 + v2 / 4)
                              :: n2b ((v2 mod 4) * 64 + v3) :: t)
          end
        end
      end
    | _, _ => None
    end
  | _ => None
  end.

(* ------------------------------------------------------------------ float64 bit patterns *)
Definition f64_exp (bits : N) : N := (bits / 2^52) mod 2048.
Definition f64_frac (bits : N) : N := bits mod 2^52.
Definition f64_sign (bits : N) : bool := 2^63 <=? bits.

Definition f64_is_nan (bits : N) : bool := (f64_exp bits =? 2047) && negb (f64_frac bits =? 0).
Definition f64_pinf : N := 0x7FF0000000000000.
Definition f64_ninf : N := 0xFFF0000000000000.
Definition f64_finite (bits : N) : bool := negb (f64_exp bits =? 2047).

(* Go's float64(v) for an integer v (int, int8 ... uint64): round to nearest, ties to even.
   [a] is |v| > 0, [L] its bit length. *)
Definition n_to_f64_mag (a : N) : N :=
  let L := N.size a in
  if L <=? 53 then
    (L - 1 + 1023) * 2^52 + (a * 2^(53 - L) - 2^52)
  else
    let sh := L - 53 in
    let q := a / 2^sh in
    let r := a mod 2^sh in
    let half := 2^(sh - 1) in
    let q' := if (half <? r) || ((r =? half) && N.odd q) then q + 1 else q in
    (* a carry out of the 53-bit significand moves into the exponent field *)
    (L - 1 + 1023) * 2^52 + (q' - 2^52).

Definition z_to_f64 (z : Z) : N :=
  match z with
  | Z0 => 0
  | Zpos p => n_to_f64_mag (Npos p)
  | Zneg p => 2^63 + n_to_f64_mag (Npos p)
  end.

(* the integer denoted by a bit pattern, when it denotes one (used to state exactness) *)
Definition f64_to_Z (bits : N) : option Z :=
  let e := f64_exp bits in
  let f := f64_frac bits in
  if e =? 2047 then None else
  let m := if e =? 0 then f else 2^52 + f in          (* value = m * 2^(e' - 1075), e' = max e 1 *)
  let e' := if e =? 0 then 1 else e in
  let mag :=
    if 1075 <=? e' then Some (m * 2^(e' - 1075))
    else if m mod 2^(1075 - e') =? 0 then Some (m / 2^(1075 - e')) else None in
  match mag with
  | None => None
  | Some a => Some (if f64_sign bits then Z.opp (Z.of_N a) else Z.of_N a)
  end.

(* Go's float64(v) for a float32 v given by its 32-bit pattern: exact widening.
   A NaN keeps sign and payload (shifted) and becomes quiet, as the hardware conversion does. *)
Definition f32_to_f64 (b : N) : N :=
  let s := if 2^31 <=? b then 2^63 else 0 in
  let e := (b / 2^23) mod 256 in
  let f := b mod 2^23 in
  if e =? 255 then
    if f =? 0 then s + 2047 * 2^52
    else s + 2047 * 2^52 + N.lor (f * 2^29) (2^51)
  else if e =? 0 then
    if f =? 0 then s
    else
      let L := N.size f in                         (* value = f * 2^-149, 2^(L-1) <= f < 2^L *)
      s + (L - 1 + 1023 - 149) * 2^52 + (f * 2^(53 - L) - 2^52)
  else s + (e + 1023 - 127) * 2^52 + f * 2^29.

(* ------------------------------------------------------------------ the two trees *)
Inductive gval : Type :=
  | GNil                                   (* nil interface *)
  | GBool (b : bool)
  | GNum (bits : N)                        (* float64 *)
  | GF32 (bits : N)                        (* float32 *)
  | GInt (z : Z)                           (* int, int8, ..., uint64 *)
  | GStr (s : list byte)
  | GBytes (s : list byte)                 (* []byte *)
  | GList (l : list gval)                  (* []any *)
  | GMap (m : list (list byte * gval))     (* map[string]any *)
  | GBad.                                  (* any other dynamic type: "invalid type" *)

Inductive pval : Type :=
  | PUnset                                 (* nil *Value, or no oneof member set *)
  | PNull
  | PNumber (bits : N)
  | PString (s : list byte)
  | PBool (b : bool)
  | PStruct (m : list (list byte * pval))
  | PList (l : list pval).

(* structpb.NewValue (with NewStruct and NewList inlined as the two local fixpoints) *)
Fixpoint new_value (v : gval) : option pval :=
  match v with
  | GNil => Some PNull
  | GBool b => Some (PBool b)
  | GNum bits => Some (PNumber bits)
  | GF32 bits => Some (PNumber (f32_to_f64 bits))
  | GInt z => Some (PNumber (z_to_f64 z))
  | GStr s => if utf8_valid s then Some (PString s) else None
  | GBytes s => Some (PString (b64_encode s))
  | GList l =>
    match (fix go (l : list gval) : option (list pval) :=
             match l with
             | [] => Some []
             | x :: r =>
               match new_value x with
               | None => None
               | Some p => match go r with None => None | Some ps => Some (p :: ps) end
               end
             end) l with
    | None => None
    | Some ps => Some (PList ps)
    end
  | GMap m =>
    match (fix go (m : list (list byte * gval)) : option (list (list byte * pval)) :=
             match m with
             | [] => Some []
             | (k, x) :: r =>
               if utf8_valid k then
                 match new_value x with
                 | None => None
                 | Some p => match go r with None => None | Some ps => Some ((k, p) :: ps) end
                 end
               else None
             end) m with
    | None => None
    | Some ps => Some (PStruct ps)
    end
  | GBad => None
  end.

Definition str_NaN : list byte := [n2b 78; n2b 97; n2b 78].
Definition str_Infinity : list byte := [n2b 73; n2b 110; n2b 102; n2b 105; n2b 110; n2b 105; n2b 116; n2b 121].
Definition str_mInfinity : list byte := n2b 45 :: str_Infinity.

(* what AsInterface does with a number *)
Definition num_as_interface (bits : N) : gval :=
  if f64_is_nan bits then GStr str_NaN
  else if bits =? f64_pinf then GStr str_Infinity
  else if bits =? f64_ninf then GStr str_mInfinity
  else GNum bits.

(* Value.AsInterface with AsMap and AsSlice *)
Fixpoint as_interface (p : pval) : gval :=
  match p with
  | PUnset => GNil
  | PNull => GNil
  | PNumber bits => num_as_interface bits
  | PString s => GStr s
  | PBool b => GBool b
  | PStruct m => GMap (map (fun kv => (fst kv, as_interface (snd kv))) m)
  | PList l => GList (map as_interface l)
  end.

(* The documented conversions, as a function on the Go value: what NewValue(v).AsInterface()
   is specified to return. *)
Fixpoint norm (v : gval) : gval :=
  match v with
  | GNil => GNil
  | GBool b => GBool b
  | GNum bits => num_as_interface bits
  | GF32 bits => num_as_interface (f32_to_f64 bits)
  | GInt z => num_as_interface (z_to_f64 z)
  | GStr s => GStr s
  | GBytes s => GStr (b64_encode s)
  | GList l => GList (map norm l)
  | GMap m => GMap (map (fun kv => (fst kv, norm (snd kv))) m)
  | GBad => GBad
  end.

(* the JSON-like domain on which NewValue/AsInterface is the identity *)
Fixpoint json_like (v : gval) : bool :=
  match v with
  | GNil => true
  | GBool _ => true
  | GNum bits => (bits <? 2^64) && f64_finite bits
  | GStr s => utf8_valid s
  | GList l => forallb json_like l
  | GMap m => forallb (fun kv => utf8_valid (fst kv) && json_like (snd kv)) m
  | GF32 _ | GInt _ | GBytes _ | GBad => false
  end.

(* the inputs NewValue rejects: an invalid string or key, or an unsupported type, anywhere *)
Fixpoint rejected (v : gval) : bool :=
  match v with
  | GStr s => negb (utf8_valid s)
  | GList l => existsb rejected l
  | GMap m => existsb (fun kv => negb (utf8_valid (fst kv)) || rejected (snd kv)) m
  | GBad => true
  | _ => false
  end.

(* ------------------------------------------------------------------ JSON level (abstract) *)
(* What encoding/json produces for an AsInterface result and what protojson produces for the
   Value, as abstract JSON trees (text-level formatting is compared by the harness only). *)
Inductive jval : Type :=
  | JNull | JBool (b : bool) | JNum (bits : N) | JStr (s : list byte)
  | JArr (l : list jval) | JObj (m : list (list byte * jval)).

(* encoding/json.Marshal of a gval in the image of as_interface (None = error / not in image) *)
Fixpoint json_of_gval (v : gval) : option jval :=
  match v with
  | GNil => Some JNull
  | GBool b => Some (JBool b)
  | GNum bits => if f64_finite bits then Some (JNum bits) else None
  | GStr s => if utf8_valid s then Some (JStr s) else None   (* encoding/json would substitute U+FFFD *)
  | GList l =>
    match (fix go (l : list gval) : option (list jval) :=
             match l with
             | [] => Some []
             | x :: r => match json_of_gval x, go r with
                         | Some j, Some js => Some (j :: js) | _, _ => None end
             end) l with
    | Some js => Some (JArr js) | None => None end
  | GMap m =>
    match (fix go (m : list (list byte * gval)) : option (list (list byte * jval)) :=
             match m with
             | [] => Some []
             | (k, x) :: r => if utf8_valid k then
                                match json_of_gval x, go r with
                                | Some j, Some js => Some ((k, j) :: js) | _, _ => None end
                              else None
             end) m with
    | Some js => Some (JObj js) | None => None end
  | _ => None
  end.

(* protojson.Marshal of a Value (marshalKnownValue): unset oneof, NaN/Inf and invalid UTF-8 are errors *)
Fixpoint json_of_pval (p : pval) : option jval :=
  match p with
  | PUnset => None
  | PNull => Some JNull
  | PBool b => Some (JBool b)
  | PNumber bits => if f64_finite bits then Some (JNum bits) else None
  | PString s => if utf8_valid s then Some (JStr s) else None
  | PList l =>
    match (fix go (l : list pval) : option (list jval) :=
             match l with
             | [] => Some []
             | x :: r => match json_of_pval x, go r with
                         | Some j, Some js => Some (j :: js) | _, _ => None end
             end) l with
    | Some js => Some (JArr js) | None => None end
  | PStruct m =>
    match (fix go (m : list (list byte * pval)) : option (list (list byte * jval)) :=
             match m with
             | [] => Some []
             | (k, x) :: r => if utf8_valid k then
                                match json_of_pval x, go r with
                                | Some j, Some js => Some ((k, j) :: js) | _, _ => None end
                              else None
             end) m with
    | Some js => Some (JObj js) | None => None end
  end.
