(* Model of types/known/timestamppb/timestamp.pb.go: New, AsTime, check.
   Definitions only.

   A time.Time is modelled by what Equal / Unix / Nanosecond observe: the pair
   (internal seconds since 0001-01-01T00:00:00Z as int64, nanoseconds in [0, 10^9)).
   time.Unix and Time.Unix are modelled after src/time/time.go (go1.23), including
   the int64 wrap-around of "sec + unixToInternal". *)
From Coq Require Import ZArith Bool.
From PB Require Import Known.DurationModel.
Open Scope Z_scope.

(* (1969*365 + 1969/4 - 1969/100 + 1969/400) * 86400 *)
Definition unix_to_internal : Z := 62135596800.

Record gotime := { t_isec : Z; t_nsec : Z }.
Definition time_ok (t : gotime) : Prop := in_int64 (t_isec t) /\ 0 <= t_nsec t < e9.

(* func (t Time) Unix() int64 ; func (t Time) Nanosecond() int *)
Definition time_unix (t : gotime) : Z := wrap64 (t_isec t - unix_to_internal).
Definition time_nanosecond (t : gotime) : Z := t_nsec t.

(* func Unix(sec int64, nsec int64) Time *)
Definition go_unix (sec nsec : Z) : gotime :=
  let '(sec, nsec) :=
    if (nsec <? 0) || (e9 <=? nsec) then
      let n := Z.quot nsec e9 in
      let sec := wrap64 (sec + n) in
      let nsec := wrap64 (nsec - wrap64 (n * e9)) in
      if nsec <? 0 then (wrap64 (sec - 1), wrap64 (nsec + e9)) else (sec, nsec)
    else (sec, nsec) in
  {| t_isec := wrap64 (sec + unix_to_internal); t_nsec := nsec |}.

(* func New(t time.Time) *Timestamp = {Seconds: int64(t.Unix()), Nanos: int32(t.Nanosecond())} *)
Definition ts_new (t : gotime) : Z * Z := (time_unix t, wrap32 (time_nanosecond t)).

(* func (x *Timestamp) AsTime() time.Time = time.Unix(int64(secs), int64(nanos)).UTC() *)
Definition as_time (secs nanos : Z) : gotime := go_unix secs nanos.

(* func (x *Timestamp) check() uint for non-nil x:
   0 valid, 2 invalidUnderflow, 3 invalidOverflow, 4 invalidNanos (1 = invalidNil) *)
Definition min_timestamp : Z := -62135596800.
Definition max_timestamp : Z := 253402300799.
Definition ts_check (secs nanos : Z) : Z :=
  if secs <? min_timestamp then 2
  else if max_timestamp <? secs then 3
  else if (nanos <? 0) || (e9 <=? nanos) then 4
  else 0.
Definition ts_check_opt (x : option (Z * Z)) : Z :=
  match x with None => 1 | Some (s, n) => ts_check s n end.
