(* Proofs about the protojson Timestamp model (C23): accepted range, format/parse round trip. *)
From Coq Require Import List NArith ZArith Bool Lia Arith.
From Coq Require Import ZifyBool ZifyNat ZifyN.
From PB Require Import Base.PBytes Known.FieldMaskModel Known.FieldMaskP Known.DurationModel Known.DurationP
  Known.TimestampModel Known.TimestampP Known.WktJsonModel Known.DurJsonP Known.CivilModel Known.CivilP Known.TsJsonModel.
Import ListNotations.
Open Scope Z_scope.
Ltac Zify.zify_post_hook ::= Z.to_euclidean_division_equations.

Theorem marshal_timestamp_accepts secs nanos :
  (exists out, marshal_timestamp secs nanos = MOk out) <-> ts_check secs nanos = 0.
Proof.
  unfold marshal_timestamp, ts_check, min_timestamp_seconds, max_timestamp_seconds, seconds_in_nanos,
    min_timestamp, max_timestamp, e9.
  split.
  - intros [out H]. revert H.
    repeat match goal with |- context[if ?c then _ else _] => destruct c eqn:? end; try discriminate; try lia.
  - repeat match goal with |- context[if ?c then _ else _] => destruct c eqn:? end; try discriminate; try lia; eauto.
Qed.

(* ---- parsing what pad_dec printed ---- *)
Lemma take_digits_app k : forall ds rest, Forall D ds -> length ds = k -> take_digits k (ds ++ rest) = Some (ds, rest).
Proof.
  induction k as [|k IH]; intros ds rest Hd Hl.
  - destruct ds; [reflexivity | discriminate].
  - destruct ds as [|c ds]; [discriminate|]. inversion Hd; subst. cbn [app take_digits].
    rewrite H1, IH; auto.
Qed.

Lemma num_pad k lo hi v rest : 0 <= v < 10 ^ Z.of_nat k -> in_range v lo hi = true ->
  num k lo hi (pad_dec k v [] ++ rest) = Some (v, rest).
Proof.
  intros Hv Hr. destruct (pad_dec_spec k v []) as [ds [E1 [E2 [E3 E4]]]]; [lia|].
  rewrite E1, app_nil_r. unfold num. rewrite take_digits_app by assumption.
  rewrite E4, Z.mod_small by lia. now rewrite Hr.
Qed.

Lemma pad_dec_digits k v : 0 <= v -> Forall D (pad_dec k v []) /\ length (pad_dec k v []) = k.
Proof.
  intros H. destruct (pad_dec_spec k v [] H) as [ds [E1 [E2 [E3 E4]]]]. rewrite E1, app_nil_r. auto.
Qed.

Lemma pad_dec_length k v : 0 <= v -> length (pad_dec k v []) = k.
Proof. intros H. apply (pad_dec_digits k v H). Qed.

Definition pre_civil (y m d hh mi ss : Z) : list byte :=
  pad_dec 4 y [] ++ ch_minus :: pad_dec 2 m [] ++ ch_minus :: pad_dec 2 d [] ++ ch_T ::
  pad_dec 2 hh [] ++ ch_colon :: pad_dec 2 mi [] ++ ch_colon :: pad_dec 2 ss [].

Lemma pre_civil_length y m d hh mi ss :
  0 <= y -> 0 <= m -> 0 <= d -> 0 <= hh -> 0 <= mi -> 0 <= ss -> length (pre_civil y m d hh mi ss) = 19%nat.
Proof.
  intros. unfold pre_civil. repeat (rewrite app_length; cbn [length]).
  rewrite !pad_dec_length by assumption. reflexivity.
Qed.

(* the bytes of pre_civil: digits, '-', 'T', ':' *)
Definition pre_char (c : byte) : Prop := D c \/ c = ch_minus \/ c = ch_T \/ c = ch_colon.
Lemma pre_civil_chars y m d hh mi ss :
  0 <= y -> 0 <= m -> 0 <= d -> 0 <= hh -> 0 <= mi -> 0 <= ss -> Forall pre_char (pre_civil y m d hh mi ss).
Proof.
  intros. unfold pre_civil.
  assert (forall k v, 0 <= v -> Forall pre_char (pad_dec k v [])) as P.
  { intros k v Hv. eapply Forall_impl; [|apply (pad_dec_digits k v Hv)]. intros c Hc. now left. }
  repeat (apply Forall_app; split; [now apply P|]; constructor; [unfold pre_char; auto|]).
  now apply P.
Qed.

Lemma parse_ts_formatted y m d hh mi ss ns F :
  0 <= y <= 9999 -> 1 <= m <= 12 -> 1 <= d <= days_in m y -> 0 <= hh <= 23 -> 0 <= mi <= 59 -> 0 <= ss <= 59 ->
  frac_sec false (F ++ [ch_Z]) = (ns, [ch_Z]) ->
  parse_ts false (pre_civil y m d hh mi ss ++ F ++ [ch_Z]) =
    Some (days_from_civil y m d * 86400 + hh * 3600 + mi * 60 + ss - 0, ns).
Proof.
  intros Hy Hm Hd Hh Hmi Hss HF.
  assert (d <= 31) as Hd31.
  { unfold days_in in Hd. destruct (m =? 2); [destruct (is_leap y); lia|].
    destruct ((m =? 4) || (m =? 6) || (m =? 9) || (m =? 11)); lia. }
  unfold pre_civil, parse_ts. repeat (rewrite <- app_assoc; cbn [app]).
  rewrite num_pad; [|change (10 ^ Z.of_nat 4) with 10000; lia | unfold in_range; lia].
  cbn [expect]. rewrite beq_refl.
  rewrite num_pad; [|change (10 ^ Z.of_nat 2) with 100; lia | unfold in_range; lia].
  cbn [expect]. rewrite beq_refl.
  rewrite num_pad; [|change (10 ^ Z.of_nat 2) with 100; lia | unfold in_range; lia].
  cbn [expect]. rewrite beq_refl.
  unfold hour_num.
  rewrite num_pad; [|change (10 ^ Z.of_nat 2) with 100; lia | unfold in_range; lia].
  cbn [expect]. rewrite beq_refl.
  rewrite num_pad; [|change (10 ^ Z.of_nat 2) with 100; lia | unfold in_range; lia].
  cbn [expect]. rewrite beq_refl.
  rewrite num_pad; [|change (10 ^ Z.of_nat 2) with 100; lia | unfold in_range; lia].
  rewrite HF. cbn [zone]. reflexivity.
Qed.

Lemma frac_sec_frac_out n : 0 <= n < 1000000000 -> frac_sec false (frac_out n ++ [ch_Z]) = (n, [ch_Z]).
Proof.
  intros H. destruct (frac_out_spec n H) as [[-> ->]|[Hp [fd [-> [Hd [Hl Hv]]]]]]; [reflexivity|].
  cbn [app frac_sec]. rewrite beq_refl. cbn [orb].
  destruct fd as [|f0 fd']; [cbn in Hl; lia|]. cbn [app]. pose proof (Forall_inv Hd) as Hf0. cbv beta in Hf0.
  unfold D in Hf0. rewrite Hf0.
  change (f0 :: fd' ++ [ch_Z]) with ((f0 :: fd') ++ [ch_Z]).
  rewrite (span_digits_app (f0 :: fd') [ch_Z] Hd); [|reflexivity].
  unfold firstn9_value. rewrite firstn_all2 by lia. now rewrite Hv.
Qed.

(* ---- strings.LastIndex* ---- *)
Lemma last_index_aux_none p s : Forall (fun c => p c = false) s -> forall i acc, last_index_aux p s i acc = acc.
Proof. induction 1 as [|c r Hc Hr IH]; intros i acc; cbn [last_index_aux]; [reflexivity|]. now rewrite Hc, IH. Qed.
Lemma last_index_aux_last p a x b : p x = true -> Forall (fun c => p c = false) b ->
  forall i acc, last_index_aux p (a ++ x :: b) i acc = i + Z.of_nat (length a).
Proof.
  intros Hx Hb. induction a as [|c a IH]; intros i acc; cbn [app last_index_aux length].
  - rewrite Hx, last_index_aux_none by assumption. lia.
  - rewrite IH. lia.
Qed.

(* ---- the year of an in-range instant ---- *)
Lemma civil_year_range days : -719162 <= days <= 2932896 ->
  let '(y, m, d) := civil_from_days days in 1 <= y <= 9999.
Proof.
  intros H. pose proof (days_from_civil_from_days days) as C.
  destruct (civil_from_days days) as [[y m] d]. destruct C as [E [Hm Hd]].
  assert (d <= 31) as Hd31.
  { unfold days_in in Hd. destruct (m =? 2); [destruct (is_leap y); lia|].
    destruct ((m =? 4) || (m =? 6) || (m =? 9) || (m =? 11)); lia. }
  unfold days_from_civil in E. cbv zeta in E.
  destruct (m <=? 2) eqn:Em; cbv iota in E.
  - assert (m = 1 \/ m = 2) as Cm by lia. destruct Cm as [-> | ->]; lia.
  - assert (m = 3 \/ m = 4 \/ m = 5 \/ m = 6 \/ m = 7 \/ m = 8 \/ m = 9 \/ m = 10 \/ m = 11 \/ m = 12) as Cm by lia.
    destruct Cm as [->|[->|[->|[->|[->|[->|[->|[->|[->| ->]]]]]]]]]; lia.
Qed.

Theorem timestamp_format_parse_roundtrip secs nanos :
  ts_check secs nanos = 0 ->
  exists out, marshal_timestamp secs nanos = MOk out /\
              parse_ts false out = Some (secs, nanos) /\
              unmarshal_timestamp out = UOk secs nanos.
Proof.
  intros H. apply ts_check_ranges_exact in H. destruct H as [Hs Hn].
  unfold marshal_timestamp, min_timestamp_seconds, max_timestamp_seconds, seconds_in_nanos.
  do 2 (match goal with |- exists _, (if ?c then _ else _) = _ /\ _ => destruct c eqn:?E; [exfalso; lia|] end).
  eexists. split; [reflexivity|].
  (* shape of the output *)
  unfold format_civil.
  set (days := secs / 86400). set (sod := secs mod 86400).
  assert (-719162 <= days <= 2932896) as Hdays by (unfold days; lia).
  pose proof (civil_year_range days Hdays) as Hyr.
  pose proof (days_from_civil_from_days days) as Hciv.
  destruct (civil_from_days days) as [[y m] d]. destruct Hciv as [Ed [Hm Hd]].
  assert (0 <= sod / 3600 <= 23 /\ 0 <= sod / 60 mod 60 <= 59 /\ 0 <= sod mod 60 <= 59) as [Hh [Hmi Hss]] by (unfold sod; lia).
  assert (pad_dec 4 y [] ++ ch_minus :: pad_dec 2 m [] ++ ch_minus :: pad_dec 2 d [] ++ ch_T ::
          pad_dec 2 (sod / 3600) [] ++ ch_colon :: pad_dec 2 (sod / 60 mod 60) [] ++ ch_colon :: pad_dec 2 (sod mod 60) [] ++
          dot :: pad_dec 9 nanos [] =
          pre_civil y m d (sod / 3600) (sod / 60 mod 60) (sod mod 60) ++ dot :: pad_dec 9 nanos []) as ->.
  { unfold pre_civil. repeat (rewrite <- app_assoc; cbn [app]). reflexivity. }
  rewrite trim_frac_spec by lia.
  set (PRE := pre_civil y m d (sod / 3600) (sod / 60 mod 60) (sod mod 60)).
  assert (parse_ts false ((PRE ++ frac_out nanos) ++ [ch_Z]) = Some (secs, nanos)) as Hparse.
  { rewrite <- app_assoc. unfold PRE.
    rewrite (parse_ts_formatted y m d _ _ _ nanos (frac_out nanos)); try lia.
    - f_equal. f_equal. rewrite Ed. unfold days, sod. lia.
    - apply frac_sec_frac_out. lia. }
  split; [exact Hparse|].
  unfold unmarshal_timestamp, parse_go. rewrite Hparse.
  unfold min_timestamp_seconds, max_timestamp_seconds.
  match goal with |- (if ?c then _ else _) = _ => destruct c eqn:?E; [exfalso; lia|] end.
  assert (wrap32 nanos = nanos) as -> by (apply wrap32_id; unfold in_int32, min_int32, max_int32; lia).
  (* the fraction-length check *)
  assert (length PRE = 19%nat) as LP by (apply pre_civil_length; lia).
  assert (Forall pre_char PRE) as CP by (apply pre_civil_chars; lia).
  set (pdot := fun c => beq c dot). set (pz := fun c => beq c ch_Z || beq c ch_minus || beq c ch_plus).
  assert (Forall (fun c => pdot c = false) PRE) as NoDot.
  { eapply Forall_impl; [|exact CP]. intros c [Hc|[->|[->| ->]]]; try reflexivity.
    unfold pdot. now destruct (digit_not_special _ Hc). }
  assert (forall fd, Forall D fd -> Forall (fun c => pdot c = false) (fd ++ [ch_Z])) as NoDotF.
  { intros fd Hfd. apply Forall_app. split; [|repeat constructor].
    eapply Forall_impl; [|exact Hfd]. intros c Hc. unfold pdot. now destruct (digit_not_special _ Hc). }
  destruct (frac_out_spec nanos) as [[Ez ->]|[Hp [fd [-> [Hdd [Hl Hv]]]]]]; [lia| |].
  - (* no fraction: no '.' at all *)
    rewrite app_nil_r.
    assert (last_index pdot (PRE ++ [ch_Z]) = -1) as ->.
    { unfold last_index. apply last_index_aux_none. apply Forall_app. split; [exact NoDot | repeat constructor]. }
    cbn [Z.leb andb]. reflexivity.
  - assert (last_index pdot ((PRE ++ dot :: fd) ++ [ch_Z]) = 19) as ->.
    { rewrite <- app_assoc. cbn [app]. unfold last_index.
      rewrite last_index_aux_last; [rewrite LP; reflexivity | reflexivity | now apply NoDotF]. }
    assert (last_index pz ((PRE ++ dot :: fd) ++ [ch_Z]) = 20 + Z.of_nat (length fd)) as ->.
    { unfold last_index. rewrite last_index_aux_last; [|reflexivity|constructor].
      rewrite app_length, LP. cbn [length]. lia. }
    assert ((0 <=? 19) && (19 <=? 20 + Z.of_nat (length fd)) && (10 <? 20 + Z.of_nat (length fd) - 19) = false) as -> by lia.
    reflexivity.
Qed.

(* output shape: strict RFC 3339, UTC "Z", 0/3/6/9 fractional digits *)
Theorem timestamp_json_shape secs nanos :
  ts_check secs nanos = 0 ->
  exists y m d hh mi ss fd,
    marshal_timestamp secs nanos = MOk (pre_civil y m d hh mi ss ++ (match fd with [] => [] | _ => dot :: fd end) ++ [ch_Z]) /\
    1 <= y <= 9999 /\ valid_date y m d /\ 0 <= hh <= 23 /\ 0 <= mi <= 59 /\ 0 <= ss <= 59 /\
    secs = days_from_civil y m d * 86400 + hh * 3600 + mi * 60 + ss /\
    Forall D fd /\ (length fd = 0 \/ length fd = 3 \/ length fd = 6 \/ length fd = 9)%nat.
Proof.
  intros H. apply ts_check_ranges_exact in H. destruct H as [Hs Hn].
  unfold marshal_timestamp, min_timestamp_seconds, max_timestamp_seconds, seconds_in_nanos.
  do 2 (match goal with |- context[if ?c then _ else _] => destruct c eqn:?E; [exfalso; lia|] end).
  unfold format_civil.
  set (days := secs / 86400). set (sod := secs mod 86400).
  assert (-719162 <= days <= 2932896) as Hdays by (unfold days; lia).
  pose proof (civil_year_range days Hdays) as Hyr.
  pose proof (days_from_civil_from_days days) as Hciv.
  destruct (civil_from_days days) as [[y m] d]. destruct Hciv as [Ed Hv].
  exists y, m, d, (sod / 3600), (sod / 60 mod 60), (sod mod 60).
  assert (pad_dec 4 y [] ++ ch_minus :: pad_dec 2 m [] ++ ch_minus :: pad_dec 2 d [] ++ ch_T ::
          pad_dec 2 (sod / 3600) [] ++ ch_colon :: pad_dec 2 (sod / 60 mod 60) [] ++ ch_colon :: pad_dec 2 (sod mod 60) [] ++
          dot :: pad_dec 9 nanos [] =
          pre_civil y m d (sod / 3600) (sod / 60 mod 60) (sod mod 60) ++ dot :: pad_dec 9 nanos []) as ->.
  { unfold pre_civil. repeat (rewrite <- app_assoc; cbn [app]). reflexivity. }
  rewrite trim_frac_spec by lia.
  destruct (frac_out_spec nanos) as [[Ez ->]|[Hp [fd [-> [Hdd [Hl Hvv]]]]]]; [lia| |].
  - exists []. rewrite app_nil_r. repeat split; try (unfold sod, days in *; lia); try apply Hv; auto.
  - exists fd. destruct fd as [|f0 fd']; [cbn in Hl; lia|].
    rewrite <- app_assoc. repeat split; try (unfold sod, days in *; lia); try apply Hv; auto; lia.
Qed.
