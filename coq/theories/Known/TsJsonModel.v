(* Model of marshalTimestamp / unmarshalTimestamp (encoding/protojson/well_known_types.go).
   Definitions only.

   Go's time.Time.Format("2006-01-02T15:04:05.000000000") on a UTC time and
   time.Parse(time.RFC3339Nano, s) are standard-library code: they are replaced by
   [format_civil] and [parse_go] below, written after src/time/format.go and
   src/time/format_rfc3339.go of go1.23.  [parse_go] first tries the strict
   RFC 3339 parser (parseRFC3339) and, when that fails, the layout-driven parser,
   which differs in exactly four leniencies (flag [len]): one-digit hour, ','
   as fraction separator, offset hour 24, offset minute 60 (known finding F3b). *)
From Coq Require Import List NArith ZArith Bool.
From PB Require Import Base.PBytes Known.FieldMaskModel Known.DurationModel Known.WktJsonModel Known.CivilModel.
Import ListNotations.
Open Scope Z_scope.

Definition ch_T : byte := "T"%byte.
Definition ch_Z : byte := "Z"%byte.
Definition ch_colon : byte := ":"%byte.

Definition max_timestamp_seconds : Z := 253402300799.
Definition min_timestamp_seconds : Z := -62135596800.

(* ---------- marshalTimestamp ---------- *)
Definition format_civil (secs nanos : Z) : list byte :=
  let days := secs / 86400 in
  let sod := secs mod 86400 in
  let '(y, m, d) := civil_from_days days in
  pad_dec 4 y [] ++ ch_minus :: pad_dec 2 m [] ++ ch_minus :: pad_dec 2 d [] ++ ch_T ::
  pad_dec 2 (sod / 3600) [] ++ ch_colon :: pad_dec 2 (sod / 60 mod 60) [] ++ ch_colon :: pad_dec 2 (sod mod 60) [] ++
  dot :: pad_dec 9 nanos [].

(* 1 "seconds out of range", 2 "nanos out of range" *)
Definition marshal_timestamp (secs nanos : Z) : mres :=
  if (secs <? min_timestamp_seconds) || (max_timestamp_seconds <? secs) then MErr 1
  else if (nanos <? 0) || (seconds_in_nanos <? nanos) then MErr 2
  else MOk (trim_frac (format_civil secs nanos) ++ [ch_Z]).

(* ---------- time.Parse(RFC3339Nano) ---------- *)
(* exactly k digits *)
Fixpoint take_digits (k : nat) (s : list byte) : option (list byte * list byte) :=
  match k with
  | O => Some ([], s)
  | S k' => match s with
            | c :: r => if is_digit c then
                          match take_digits k' r with Some (ds, rest) => Some (c :: ds, rest) | None => None end
                        else None
            | [] => None
            end
  end.

Definition expect (c : byte) (s : list byte) : option (list byte) :=
  match s with x :: r => if beq x c then Some r else None | [] => None end.

Definition in_range (v lo hi : Z) : bool := (lo <=? v) && (v <=? hi).

(* fixed-width number within [lo, hi] *)
Definition num (k : nat) (lo hi : Z) (s : list byte) : option (Z * list byte) :=
  match take_digits k s with
  | Some (ds, rest) => let v := dec_value ds in if in_range v lo hi then Some (v, rest) else None
  | None => None
  end.

(* hour: two digits; the layout-driven parser (getnum(value, false)) also takes a single digit *)
Definition hour_num (len : bool) (s : list byte) : option (Z * list byte) :=
  match num 2 0 23 s with
  | Some r => Some r
  | None =>
    if len then
      match s with
      | c :: r => if is_digit c then
                    match r with
                    | c2 :: _ => if is_digit c2 then None else Some (digit_val c, r)
                    | [] => Some (digit_val c, r)
                    end
                  else None
      | [] => None
      end
    else None
  end.

(* fraction: '.' (or ',' when lenient) followed by at least one digit; all digits are consumed,
   the first nine give the nanoseconds (parseNanoseconds) *)
Definition firstn9_value (ds : list byte) : Z :=
  let ds9 := firstn 9 ds in dec_value (ds9 ++ repeat c0 (9 - length ds9)).

Definition frac_sec (len : bool) (s : list byte) : Z * list byte :=
  match s with
  | c :: r =>
    if beq c dot || (len && beq c ch_comma) then
      match r with
      | d :: _ => if is_digit d then let '(ds, rest) := span_digits r in (firstn9_value ds, rest) else (0, s)
      | [] => (0, s)
      end
    else (0, s)
  | [] => (0, s)
  end.

(* zone: "Z", or [+-]hh:mm ; returns the offset in seconds; nothing may follow *)
Definition zone (len : bool) (s : list byte) : option Z :=
  match s with
  | [c] => if beq c ch_Z then Some 0 else None
  | sg :: r =>
    match num 2 0 (if len then 24 else 23) r with
    | Some (hh, r1) =>
      match expect ch_colon r1 with
      | Some r2 =>
        match num 2 0 (if len then 60 else 59) r2 with
        | Some (mm, []) =>
          let off := (hh * 60 + mm) * 60 in
          if beq sg ch_plus then Some off else if beq sg ch_minus then Some (- off) else None
        | _ => None
        end
      | None => None
      end
    | None => None
    end
  | [] => None
  end.

(* (unix seconds, nanoseconds) *)
Definition parse_ts (len : bool) (s : list byte) : option (Z * Z) :=
  match num 4 0 9999 s with None => None | Some (y, s) =>
  match expect ch_minus s with None => None | Some s =>
  match num 2 1 12 s with None => None | Some (m, s) =>
  match expect ch_minus s with None => None | Some s =>
  match num 2 1 (days_in m y) s with None => None | Some (d, s) =>
  match expect ch_T s with None => None | Some s =>
  match hour_num len s with None => None | Some (hh, s) =>
  match expect ch_colon s with None => None | Some s =>
  match num 2 0 59 s with None => None | Some (mi, s) =>
  match expect ch_colon s with None => None | Some s =>
  match num 2 0 59 s with None => None | Some (ss, s) =>
  let '(ns, s) := frac_sec len s in
  match zone len s with None => None | Some off =>
    Some (days_from_civil y m d * 86400 + hh * 3600 + mi * 60 + ss - off, ns)
  end end end end end end end end end end end end.

Definition parse_go (s : list byte) : option (Z * Z) :=
  match parse_ts false s with Some r => Some r | None => parse_ts true s end.

(* ---------- unmarshalTimestamp ---------- *)
(* strings.LastIndexByte / LastIndexAny as index from the start, -1 when absent *)
Fixpoint last_index_aux (p : byte -> bool) (s : list byte) (i : Z) (acc : Z) : Z :=
  match s with
  | [] => acc
  | c :: r => last_index_aux p r (i + 1) (if p c then i else acc)
  end.
Definition last_index (p : byte -> bool) (s : list byte) : Z := last_index_aux p s 0 (-1).

(* 0 ok; 1 "invalid ... value"; 2 "value out of range" *)
Definition unmarshal_timestamp (s : list byte) : ures :=
  match parse_go s with
  | None => UErr 1
  | Some (secs, nanos) =>
    if (secs <? min_timestamp_seconds) || (max_timestamp_seconds <? secs) then UErr 2
    else
      let i := last_index (fun c => beq c dot) s in
      let j := last_index (fun c => beq c ch_Z || beq c ch_minus || beq c ch_plus) s in
      if (0 <=? i) && (i <=? j) && (10 <? j - i) then UErr 1
      else UOk secs (wrap32 nanos)
  end.
