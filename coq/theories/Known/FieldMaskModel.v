(* Model of types/known/fieldmaskpb/field_mask.pb.go (helpers of FieldMask).
   Definitions only.

   Paths are byte lists (Go strings).  [sort_paths] stands for the call
   sort.Slice(paths, lessPath): the theorems in FieldMaskP.v show that *any*
   function returning a lessPath-sorted permutation of its input computes
   exactly [sort_paths] (sorted permutations are unique because lessPath is a
   strict total order on strings), so the only thing assumed about Go's sort is
   that contract. *)
From Coq Require Import List NArith Bool.
From PB Require Import Base.PBytes.
Import ListNotations.
Open Scope N_scope.

Definition path := list byte.
Definition dot : byte := "."%byte.

Definition beq (a b : byte) : bool := b2n a =? b2n b.

Fixpoint bytes_eqb (x y : list byte) : bool :=
  match x, y with
  | [], [] => true
  | a :: x', b :: y' => beq a b && bytes_eqb x' y'
  | _, _ => false
  end.

(* lessPath: "return (x[i] - '.') < (y[i] - '.')" is uint8 arithmetic, so the
   difference wraps: '.' (0x2e) maps to 0, 0x2f to 1, ..., 0x2d to 255. *)
Definition key (b : byte) : N := (b2n b + 210) mod 256.

Fixpoint less_path (x y : path) : bool :=
  match x, y with
  | [], [] => false
  | [], _ :: _ => true
  | _ :: _, [] => false
  | a :: x', b :: y' => if beq a b then less_path x' y' else key a <? key b
  end.

(* hasPathPrefix(path, prefix) =
     strings.HasPrefix(path, prefix) && (len(path) == len(prefix) || path[len(prefix)] == '.') *)
Fixpoint has_path_prefix (p q : path) : bool :=
  match q, p with
  | [], [] => true
  | [], c :: _ => beq c dot
  | _ :: _, [] => false
  | b :: q', a :: p' => beq a b && has_path_prefix p' q'
  end.

(* ---------- sort.Slice(paths, lessPath) ---------- *)
Fixpoint ins_path (x : path) (l : list path) : list path :=
  match l with
  | [] => [x]
  | h :: t => if less_path h x then h :: ins_path x t else x :: h :: t
  end.
Fixpoint sort_paths (l : list path) : list path :=
  match l with
  | [] => []
  | x :: t => ins_path x (sort_paths t)
  end.

(* ---------- normalizePaths ---------- *)
(* the loop "if len(out) > 0 && hasPathPrefix(path, out[len(out)-1]) continue; out = append(out, path)";
   [prev] is out[len(out)-1] *)
Fixpoint elide (prev : option path) (l : list path) : list path :=
  match l with
  | [] => []
  | p :: t =>
    if (match prev with Some q => has_path_prefix p q | None => false end)
    then elide prev t
    else p :: elide (Some p) t
  end.
Definition normalize (paths : list path) : list path := elide None (sort_paths paths).

(* ---------- Union ---------- *)
Definition fm_union (mx my : list path) (ms : list (list path)) : list path :=
  normalize (mx ++ my ++ concat ms).

(* ---------- Intersect ---------- *)
(* the two-pointer loop over ss1 (= l1) and ss2 (= l2); the four switch cases
   in source order.  When none of the first three holds, s1 <> s2 (else case 1)
   and not (s1 < s2), so lessPath(s2, s1) is the remaining case. *)
Fixpoint isect (l1 : list path) : list path -> list path :=
  fix go (l2 : list path) : list path :=
    match l1, l2 with
    | [], _ => []
    | _, [] => []
    | s1 :: t1, s2 :: t2 =>
      if has_path_prefix s1 s2 then s1 :: isect t1 l2
      else if has_path_prefix s2 s1 then s2 :: go t2
      else if less_path s1 s2 then isect t1 l2
      else go t2
    end.

(* intersect := func(out, in) : ss1 = normalize(in), ss2 = normalize(out) *)
Definition isect_step (out inp : list path) : list path :=
  isect (normalize inp) (normalize out).

Definition fm_intersect (mx my : list path) (ms : list (list path)) : list path :=
  let out := fm_union mx my ms in
  let out := isect_step out mx in
  let out := isect_step out my in
  let out := fold_left isect_step ms out in
  normalize out.

(* ---------- numValidPaths / IsValid / Append / New over an abstract schema ---------- *)
(* A field: its name, its text-format name fd.TextName() (the message name for group-like
   fields, the field name otherwise), whether Kind() is scalar / MessageKind / GroupKind
   (with the index of the message type in the schema), and [f_rep] = IsList() || IsMap(). *)
Inductive fkind := KScalar | KMessage (ref : nat) | KGroup (ref : nat).
Record field := { f_name : list byte; f_text : list byte; f_kind : fkind; f_rep : bool }.
Record msgtype := { m_name : list byte; m_fields : list field }.
Definition schema := list msgtype.

Definition kind_msg (k : fkind) : option nat :=
  match k with KScalar => None | KMessage r => Some r | KGroup r => Some r end.

Fixpoint by_name (fs : list field) (n : list byte) : option field :=
  match fs with
  | [] => None
  | f :: t => if bytes_eqb (f_name f) n then Some f else by_name t n
  end.

(* strings.ToLower restricted to ASCII (descriptor names are ASCII identifiers) *)
Definition lower_byte (b : byte) : byte :=
  let n := b2n b in if (65 <=? n) && (n <=? 90) then n2b (n + 32) else b.
Definition lower (s : list byte) : list byte := map lower_byte s.

(* the closure passed to rangeFields: which field does segment [seg] select in message [md]
     fd := ByName(field)
     if fd == nil { gd := ByName(ToLower(field)); if gd != nil && gd.TextName() == field { fd = gd } }
     else if fd.TextName() != field { fd = nil } *)
Definition lookup_seg (sc : schema) (md : nat) (seg : list byte) : option field :=
  match nth_error sc md with
  | None => None
  | Some m =>
    match by_name (m_fields m) seg with
    | Some fd => if bytes_eqb (f_text fd) seg then Some fd else None
    | None =>
      match by_name (m_fields m) (lower seg) with
      | Some gd => if bytes_eqb (f_text gd) seg then Some gd else None
      | None => None
      end
    end
  end.

(* strings.Split(s, sep) for a one-byte separator *)
Fixpoint split_on (sep : byte) (p : list byte) : list (list byte) :=
  match p with
  | [] => [[]]
  | c :: t =>
    if beq c sep then [] :: split_on sep t
    else match split_on sep t with
         | h :: r => (c :: h) :: r
         | [] => [[c]]
         end
  end.
(* rangeFields: the fields are those of strings.Split(path, ".") *)
Definition split_dots (p : list byte) : list (list byte) := split_on dot p.

Fixpoint walk (sc : schema) (md : option nat) (segs : list (list byte)) : bool :=
  match segs with
  | [] => true
  | seg :: rest =>
    match md with
    | None => false
    | Some i =>
      match lookup_seg sc i seg with
      | None => false
      | Some fd => walk sc (if f_rep fd then None else kind_msg (f_kind fd)) rest
      end
    end
  end.

Definition path_valid (sc : schema) (root : nat) (p : path) : bool :=
  walk sc (Some root) (split_dots p).

Fixpoint num_valid_paths (sc : schema) (root : nat) (paths : list path) : nat :=
  match paths with
  | [] => O
  | p :: t => if path_valid sc root p then S (num_valid_paths sc root t) else O
  end.

(* x.IsValid(m) for non-nil x *)
Definition fm_is_valid (sc : schema) (root : nat) (paths : list path) : bool :=
  Nat.eqb (num_valid_paths sc root paths) (length paths).

(* x.Append(m, paths...) = (new x.Paths, error?) *)
Definition fm_append (sc : schema) (root : nat) (have paths : list path) : list path * bool :=
  let n := num_valid_paths sc root paths in
  (have ++ firstn n paths, negb (Nat.eqb n (length paths))).

Definition fm_new (sc : schema) (root : nat) (paths : list path) : list path * bool :=
  fm_append sc root [] paths.
