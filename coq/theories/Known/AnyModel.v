(* Model of types/known/anypb (any.pb.go): type-URL handling of
   New / MarshalFrom / UnmarshalTo / UnmarshalNew / MessageIs / MessageName.
   Strings are byte lists.  Definitions only; proofs are in AnyP.v. *)
From Coq Require Import List NArith Bool Arith.
Require Import PB.Base.PBytes.
Import ListNotations.

Definition slash : byte := n2b 47%N.
Definition dot : byte := n2b 46%N.
Definition byte_eqb (a b : byte) : bool := N.eqb (b2n a) (b2n b).

Fixpoint bytes_eqb (a b : list byte) : bool :=
  match a, b with
  | [], [] => true
  | x :: a', y :: b' => byte_eqb x y && bytes_eqb a' b'
  | _, _ => false
  end.

(* "type.googleapis.com/" *)
Definition url_prefix : list byte :=
  map (fun n => n2b (N.of_nat n))
      [116; 121; 112; 101; 46; 103; 111; 111; 103; 108; 101; 97; 112; 105; 115; 46; 99; 111; 109; 47]%nat.

(* MarshalFrom: dst.TypeUrl = urlPrefix + FullName *)
Definition any_new_url (name : list byte) : list byte := url_prefix ++ name.

(* ---- reflect/protoreflect FullName.IsValid *)
Definition is_letter (b : byte) : bool :=
  let c := b2n b in
  ((c =? 95) || ((97 <=? c) && (c <=? 122)) || ((65 <=? c) && (c <=? 90)))%N.
Definition is_letter_digit (b : byte) : bool :=
  let c := b2n b in
  (is_letter b || ((48 <=? c) && (c <=? 57)))%N.

(* consumeIdent: the rest after the longest identifier prefix; None if there is none *)
Fixpoint skip_letter_digits (s : list byte) : list byte :=
  match s with
  | c :: r => if is_letter_digit c then skip_letter_digits r else s
  | [] => []
  end.
Definition consume_ident (s : list byte) : option (list byte) :=
  match s with
  | c :: r => if is_letter c then Some (skip_letter_digits r) else None
  | [] => None
  end.

(* the loop of IsValid; fuel = length of the string (each round consumes at least 2 bytes) *)
Fixpoint full_name_rest (fuel : nat) (s : list byte) : bool :=
  match s with
  | [] => true
  | c :: r =>
    if byte_eqb c dot then
      match consume_ident r with
      | None => false
      | Some r' => match fuel with O => false | S f => full_name_rest f r' end
      end
    else false
  end.
Definition full_name_valid (s : list byte) : bool :=
  match consume_ident s with
  | None => false
  | Some r => full_name_rest (length s) r
  end.

(* ---- strings.LastIndexByte(url, '/') and the slice after it *)
(* after_last_slash s = Some t  iff  s = p ++ "/" ++ t with no '/' in t *)
Fixpoint after_last_slash (s : list byte) : option (list byte) :=
  match s with
  | [] => None
  | c :: r =>
    match after_last_slash r with
    | Some t => Some t
    | None => if byte_eqb c slash then Some r else None
    end
  end.

(* the name a URL refers to, before validation (also used by protoregistry.FindMessageByURL) *)
Definition url_name (url : list byte) : list byte :=
  match after_last_slash url with Some t => t | None => url end.

(* Any.MessageName *)
Definition message_name (url : list byte) : list byte :=
  let name := url_name url in
  if full_name_valid name then name else [].

(* strings.HasSuffix *)
Definition has_suffix (s suf : list byte) : bool :=
  (length suf <=? length s)%nat && bytes_eqb (skipn (length s - length suf) s) suf.

(* Any.MessageIs for a non-nil message with full name [name] *)
Definition message_is (url name : list byte) : bool :=
  if has_suffix url name then
    (length url =? length name)%nat ||
    match nth_error url (length url - length name - 1) with
    | Some c => byte_eqb c slash
    | None => false
    end
  else false.

(* ---- pack / unpack through an abstract codec *)
Section AnyCodec.
  Variable msg : Type.
  Variable name_of : msg -> list byte.                      (* Descriptor().FullName() *)
  Variable marshal : msg -> option (list byte).             (* proto.Marshal *)
  Variable unmarshal : list byte -> list byte -> option msg. (* proto.Unmarshal into a fresh message of the named type *)
  Variable resolve : list byte -> bool.                     (* the resolver knows a type of that name *)

  Record any := mkAny { type_url : list byte; value : list byte }.

  (* anypb.New *)
  Definition any_new (m : msg) : option any :=
    match marshal m with
    | Some b => Some (mkAny (any_new_url (name_of m)) b)
    | None => None
    end.

  (* anypb.UnmarshalTo into a message whose type is named [dst_name] *)
  Definition unmarshal_to (a : any) (dst_name : list byte) : option msg :=
    if message_is (type_url a) dst_name then unmarshal dst_name (value a) else None.

  (* anypb.UnmarshalNew: the resolver is asked for the part after the last '/' *)
  Definition unmarshal_new (a : any) : option msg :=
    match type_url a with
    | [] => None
    | _ => let n := url_name (type_url a) in
           if resolve n then unmarshal n (value a) else None
    end.
End AnyCodec.
