(* Finite facts about the calendar algorithms, established by evaluating a boolean check
   on every day of a 400-year era (vm_compute), plus the bounded-forall combinator. *)
From Coq Require Import ZArith NArith Bool Lia.
From Coq Require Import ZifyBool.
From PB Require Import Known.CivilModel.
Open Scope Z_scope.
Ltac Zify.zify_post_hook ::= Z.to_euclidean_division_equations.

(* ---- bounded universal quantification by computation ---- *)
Definition forall_below (n : N) (f : Z -> bool) : bool :=
  snd (N.iter n (fun '(k, ok) => (k + 1, ok && f k)) (0, true)).

Lemma forall_below_spec n f : forall_below n f = true -> forall k, 0 <= k < Z.of_N n -> f k = true.
Proof.
  unfold forall_below.
  set (step := fun '(k, ok) => (k + 1, ok && f k)).
  assert (forall m, let r := N.iter m step (0, true) in
                    fst r = Z.of_N m /\ (snd r = true -> forall k, 0 <= k < Z.of_N m -> f k = true)) as H.
  { intros m. induction m as [|m IH] using N.peano_ind.
    - cbn. split; [reflexivity|]. intros _ k Hk. lia.
    - rewrite N.iter_succ. cbv zeta in *. destruct (N.iter m step (0, true)) as [k0 ok] eqn:E.
      cbn [fst snd] in IH. destruct IH as [IH1 IH2]. cbn [step fst snd]. split; [lia|].
      rewrite andb_true_iff. intros [H1 H2] k Hk.
      destruct (Z.eq_dec k k0) as [->|Hne]; [exact H2|]. apply IH2; [exact H1 | lia]. }
  intros Hs. apply (H n). exact Hs.
Qed.

(* the day-of-era facts, checked for all 146097 days of an era *)
Definition leap_yoe (yoe : Z) : bool := is_leap (yoe + 1).
Definition g_yoe (yoe : Z) : Z := 365 * yoe + yoe / 4 - yoe / 100.

Definition doe_check (doe : Z) : bool :=
  let yoe := yoe_of_doe doe in
  let doy := doe - g_yoe yoe in
  (0 <=? yoe) && (yoe <=? 399) && (0 <=? doy) && (doy <=? 364 + (if leap_yoe yoe then 1 else 0)).

Lemma doe_facts_computed : forall_below 146097 doe_check = true.
Proof. vm_compute. reflexivity. Qed.

Lemma doe_facts doe : 0 <= doe < 146097 ->
  let yoe := yoe_of_doe doe in let doy := doe - g_yoe yoe in
  0 <= yoe <= 399 /\ 0 <= doy <= 364 + (if leap_yoe yoe then 1 else 0).
Proof.
  intros H. pose proof (forall_below_spec _ _ doe_facts_computed doe H) as C.
  unfold doe_check in C. cbv zeta in *. lia.
Qed.

(* the converse: every (yoe, doy) maps to a doe from which yoe is recovered *)
Definition yd_check (k : Z) : bool :=
  let yoe := k / 366 in let doy := k mod 366 in
  if doy <=? 364 + (if leap_yoe yoe then 1 else 0)
  then (yoe_of_doe (g_yoe yoe + doy) =? yoe) && (g_yoe yoe + doy <? 146097) else true.

Lemma yd_facts_computed : forall_below 146400 yd_check = true.
Proof. vm_compute. reflexivity. Qed.

Lemma yd_facts yoe doy : 0 <= yoe <= 399 -> 0 <= doy <= 364 + (if leap_yoe yoe then 1 else 0) ->
  yoe_of_doe (g_yoe yoe + doy) = yoe /\ 0 <= g_yoe yoe + doy < 146097.
Proof.
  intros Hy Hd.
  assert (0 <= yoe * 366 + doy < Z.of_N 146400) as Hk by (destruct (leap_yoe yoe); lia).
  pose proof (forall_below_spec _ _ yd_facts_computed _ Hk) as C. unfold yd_check in C.
  assert ((yoe * 366 + doy) / 366 = yoe) as E1 by (destruct (leap_yoe yoe); lia).
  assert ((yoe * 366 + doy) mod 366 = doy) as E2 by (destruct (leap_yoe yoe); lia).
  rewrite E1, E2 in C.
  assert (doy <=? 364 + (if leap_yoe yoe then 1 else 0) = true) as E3 by (destruct (leap_yoe yoe); lia).
  rewrite E3 in C. unfold g_yoe in *. lia.
Qed.

(* month / day-of-month <-> day-of-year (March-based), all 12 * 31 cases *)
Definition md_check (k : Z) : bool :=
  let mp := k / 31 in let d := k mod 31 + 1 in
  let doy := (153 * mp + 2) / 5 + d - 1 in
  let len := (153 * (mp + 1) + 2) / 5 - (153 * mp + 2) / 5 in
  if (mp <=? 11) && (d <=? len) then ((5 * doy + 2) / 153 =? mp) && (doy - (153 * ((5 * doy + 2) / 153) + 2) / 5 + 1 =? d) else true.
Lemma md_facts_computed : forall_below 372 md_check = true.
Proof. vm_compute. reflexivity. Qed.

Definition mlen (mp : Z) : Z := (153 * (mp + 1) + 2) / 5 - (153 * mp + 2) / 5.

Lemma md_facts mp d : 0 <= mp <= 11 -> 1 <= d <= mlen mp ->
  let doy := (153 * mp + 2) / 5 + d - 1 in
  (5 * doy + 2) / 153 = mp /\ doy - (153 * mp + 2) / 5 + 1 = d.
Proof.
  intros Hm Hd. unfold mlen in Hd.
  assert (0 <= mp * 31 + (d - 1) < Z.of_N 372) as Hk by lia.
  pose proof (forall_below_spec _ _ md_facts_computed _ Hk) as C. unfold md_check in C.
  assert ((mp * 31 + (d - 1)) / 31 = mp) as E1 by lia.
  assert ((mp * 31 + (d - 1)) mod 31 + 1 = d) as E2 by lia.
  rewrite E1, E2 in C.
  assert ((mp <=? 11) && (d <=? (153 * (mp + 1) + 2) / 5 - (153 * mp + 2) / 5) = true) as E3 by lia.
  rewrite E3 in C. cbv zeta. lia.
Qed.

(* day-of-year -> (mp, d) : all 366 cases *)
Definition doy_check (doy : Z) : bool :=
  let mp := (5 * doy + 2) / 153 in
  let d := doy - (153 * mp + 2) / 5 + 1 in
  (0 <=? mp) && (mp <=? 11) && (1 <=? d) && (d <=? mlen mp).
Lemma doy_facts_computed : forall_below 366 doy_check = true.
Proof. vm_compute. reflexivity. Qed.
Lemma doy_facts doy : 0 <= doy <= 365 ->
  let mp := (5 * doy + 2) / 153 in let d := doy - (153 * mp + 2) / 5 + 1 in
  0 <= mp <= 11 /\ 1 <= d <= mlen mp.
Proof.
  intros H. assert (0 <= doy < Z.of_N 366) as Hk by lia.
  pose proof (forall_below_spec _ _ doy_facts_computed _ Hk) as C. unfold doy_check in C. cbv zeta. lia.
Qed.

