(* Proofs about the anypb model (AnyModel.v). *)
From Coq Require Import List NArith Bool Arith Lia.
From Coq Require Import ZifyBool ZifyNat ZifyN.
Require Import PB.Base.PBytes PB.Known.AnyModel.
Import ListNotations.
Open Scope nat_scope.

(* ------------------------------------------------------------------ byte string equality *)
Lemma byte_eqb_eq a b : byte_eqb a b = true <-> a = b.
Proof.
  unfold byte_eqb. rewrite N.eqb_eq. split; [|now intros ->].
  intros H. rewrite <- (n2b_b2n a), <- (n2b_b2n b). now rewrite H.
Qed.

Lemma byte_eqb_refl a : byte_eqb a a = true.
Proof. now apply byte_eqb_eq. Qed.

Lemma bytes_eqb_eq : forall a b, bytes_eqb a b = true <-> a = b.
Proof.
  induction a as [|x a IH]; destruct b as [|y b]; cbn [bytes_eqb]; try (split; [discriminate|congruence]).
  - split; reflexivity.
  - rewrite andb_true_iff, byte_eqb_eq, IH. split; [intros [-> ->]; reflexivity|intros H; inversion H; auto].
Qed.

(* ------------------------------------------------------------------ strings.HasSuffix *)
Lemma has_suffix_spec s suf : has_suffix s suf = true <-> exists p, s = p ++ suf.
Proof.
  unfold has_suffix. rewrite andb_true_iff, Nat.leb_le, bytes_eqb_eq. split.
  - intros [Hl He]. exists (firstn (length s - length suf) s).
    rewrite <- He at 2. symmetry. apply firstn_skipn.
  - intros [p ->]. rewrite app_length. split; [lia|].
    replace (length p + length suf - length suf) with (length p) by lia.
    rewrite skipn_app, skipn_all, Nat.sub_diag. reflexivity.
Qed.

(* ------------------------------------------------------------------ MessageIs = the suffix rule *)
Theorem message_is_suffix_rule :
  forall url name, message_is url name = true <-> (url = name \/ exists p, url = p ++ slash :: name).
Proof.
  intros url name. unfold message_is. split.
  - destruct (has_suffix url name) eqn:S; [|discriminate].
    apply has_suffix_spec in S. destruct S as [p ->]. rewrite app_length.
    induction p as [|c p' _] using rev_ind; intros H; [left; reflexivity|].
    rewrite app_length in H. cbn [length] in H.
    apply orb_prop in H. destruct H as [H|H].
    + apply Nat.eqb_eq in H. lia.
    + replace (length p' + 1 + length name - length name - 1) with (length p') in H by lia.
      rewrite <- app_assoc in H. rewrite nth_error_app2 in H by lia. rewrite Nat.sub_diag in H. cbn in H.
      apply byte_eqb_eq in H. subst c.
      right. exists p'. now rewrite <- app_assoc.
  - intros [->|[p ->]].
    + assert (has_suffix name name = true) as -> by (apply has_suffix_spec; now exists []).
      now rewrite Nat.eqb_refl.
    + assert (has_suffix (p ++ slash :: name) name = true) as ->.
      { apply has_suffix_spec. exists (p ++ [slash]). now rewrite <- app_assoc. }
      rewrite app_length. cbn [length].
      replace (length p + S (length name) - length name - 1) with (length p) by lia.
      rewrite nth_error_app2 by lia. rewrite Nat.sub_diag. cbn [nth_error]. rewrite byte_eqb_refl. apply orb_true_r.
Qed.

(* ------------------------------------------------------------------ LastIndexByte *)
Definition no_slash (s : list byte) : Prop := Forall (fun c => byte_eqb c slash = false) s.

Lemma after_last_slash_none s : no_slash s -> after_last_slash s = None.
Proof.
  induction 1 as [|c r Hc Hr IH]; [reflexivity|]. cbn [after_last_slash]. now rewrite IH, Hc.
Qed.

Lemma after_last_slash_some p t : no_slash t -> after_last_slash (p ++ slash :: t) = Some t.
Proof.
  intros Ht. induction p as [|c p IH]; cbn [app after_last_slash].
  - rewrite (after_last_slash_none t Ht). now rewrite byte_eqb_refl.
  - now rewrite IH.
Qed.

Lemma url_name_no_slash s : no_slash s -> url_name s = s.
Proof. intros H. unfold url_name. now rewrite after_last_slash_none. Qed.

Lemma url_name_after_slash p t : no_slash t -> url_name (p ++ slash :: t) = t.
Proof. intros H. unfold url_name. now rewrite after_last_slash_some. Qed.

(* the part after the last slash never contains a slash, and is a suffix *)
Lemma after_last_slash_spec s t :
  after_last_slash s = Some t -> no_slash t /\ exists p, s = p ++ slash :: t.
Proof.
  revert t. induction s as [|c r IH]; intros t H; [discriminate|]. cbn [after_last_slash] in H.
  destruct (after_last_slash r) as [t'|] eqn:E.
  - inversion H; subst. destruct (IH t eq_refl) as [Hn [p ->]]. split; [assumption|].
    exists (c :: p). reflexivity.
  - destruct (byte_eqb c slash) eqn:Ec; [|discriminate]. inversion H; subst.
    apply byte_eqb_eq in Ec. subst c. split; [|exists []; reflexivity].
    clear IH H. induction t as [|x t IHt]; [constructor|].
    cbn [after_last_slash] in E. destruct (after_last_slash t); [discriminate|].
    destruct (byte_eqb x slash) eqn:Ex; [discriminate|]. constructor; [assumption|now apply IHt].
Qed.

(* ------------------------------------------------------------------ valid full names contain no slash *)
Definition name_char (c : byte) : bool := is_letter_digit c || byte_eqb c dot.

Lemma name_char_not_slash c : name_char c = true -> byte_eqb c slash = false.
Proof.
  intros H. destruct (byte_eqb c slash) eqn:E; [|reflexivity].
  apply byte_eqb_eq in E. subst c. vm_compute in H. discriminate.
Qed.

Lemma skip_letter_digits_spec s :
  exists p, s = p ++ skip_letter_digits s /\ Forall (fun c => name_char c = true) p.
Proof.
  induction s as [|c r [p [Hp Hf]]]; [exists []; split; [reflexivity|constructor]|].
  cbn [skip_letter_digits]. destruct (is_letter_digit c) eqn:E.
  - exists (c :: p). split; [cbn; now rewrite <- Hp|]. constructor; [|assumption].
    unfold name_char. now rewrite E.
  - exists []. split; [reflexivity|constructor].
Qed.

Lemma consume_ident_spec s r :
  consume_ident s = Some r -> exists p, s = p ++ r /\ Forall (fun c => name_char c = true) p.
Proof.
  destruct s as [|c t]; [discriminate|]. cbn [consume_ident].
  destruct (is_letter c) eqn:E; [|discriminate]. intros H. inversion H; subst.
  destruct (skip_letter_digits_spec t) as [p [Hp Hf]].
  exists (c :: p). split; [cbn; now rewrite <- Hp|]. constructor; [|assumption].
  unfold name_char, is_letter_digit. now rewrite E.
Qed.

Lemma full_name_rest_chars fuel : forall s,
  full_name_rest fuel s = true -> Forall (fun c => name_char c = true) s.
Proof.
  induction fuel as [|f IH]; intros s H; destruct s as [|c r]; try constructor; cbn [full_name_rest] in H;
    destruct (byte_eqb c dot) eqn:Ec; try discriminate;
    destruct (consume_ident r) as [r'|] eqn:Er; try discriminate.
  - unfold name_char. rewrite Ec. apply orb_true_r.
  - destruct (consume_ident_spec r r' Er) as [p [-> Hf]].
    apply Forall_app. split; [assumption|]. now apply IH.
Qed.

Theorem full_name_valid_chars s : full_name_valid s = true -> Forall (fun c => name_char c = true) s.
Proof.
  unfold full_name_valid. destruct (consume_ident s) as [r|] eqn:E; [|discriminate]. intros H.
  destruct (consume_ident_spec s r E) as [p [-> Hf]].
  apply Forall_app. split; [assumption|]. now apply (full_name_rest_chars (length (p ++ r))).
Qed.

Lemma full_name_valid_no_slash s : full_name_valid s = true -> no_slash s.
Proof.
  intros H. apply full_name_valid_chars in H. unfold no_slash.
  eapply Forall_impl; [|exact H]. intros c. apply name_char_not_slash.
Qed.

Lemma full_name_valid_nonempty s : full_name_valid s = true -> s <> [].
Proof. intros H ->. vm_compute in H. discriminate. Qed.

(* ------------------------------------------------------------------ New / MessageIs / MessageName *)
Definition url_prefix_body : list byte := removelast url_prefix.

Lemma url_prefix_split : url_prefix = url_prefix_body ++ [slash].
Proof. vm_compute. reflexivity. Qed.

Lemma any_new_url_split name : any_new_url name = url_prefix_body ++ slash :: name.
Proof. unfold any_new_url. rewrite url_prefix_split, <- app_assoc. reflexivity. Qed.

(* MessageIs holds right after New, whatever the name is *)
Theorem message_is_name : forall name, message_is (any_new_url name) name = true.
Proof.
  intros name. apply message_is_suffix_rule. right. exists url_prefix_body. apply any_new_url_split.
Qed.

(* MessageName recovers the full name after New *)
Theorem message_name_new : forall name, full_name_valid name = true -> message_name (any_new_url name) = name.
Proof.
  intros name H. unfold message_name. rewrite any_new_url_split.
  rewrite url_name_after_slash by now apply full_name_valid_no_slash. now rewrite H.
Qed.

(* MessageName and MessageIs agree on valid names *)
Theorem message_is_then_name :
  forall url name, full_name_valid name = true -> message_is url name = true -> message_name url = name.
Proof.
  intros url name Hv H. pose proof (full_name_valid_no_slash name Hv) as Hn.
  apply message_is_suffix_rule in H. unfold message_name. destruct H as [->|[p ->]].
  - rewrite url_name_no_slash by assumption. now rewrite Hv.
  - rewrite url_name_after_slash by assumption. now rewrite Hv.
Qed.

Theorem message_name_then_is :
  forall url, message_name url <> [] -> message_is url (message_name url) = true.
Proof.
  intros url H. unfold message_name in *. destruct (full_name_valid (url_name url)) eqn:Hv; [|congruence].
  apply message_is_suffix_rule. unfold url_name in *.
  destruct (after_last_slash url) as [t|] eqn:E.
  - right. destruct (after_last_slash_spec url t E) as [_ [p ->]]. now exists p.
  - now left.
Qed.

(* a message of a different (valid) name is not the packed one *)
Theorem message_is_other_false :
  forall name other, full_name_valid name = true -> full_name_valid other = true -> other <> name ->
  message_is (any_new_url name) other = false.
Proof.
  intros name other Hn Ho Hne. destruct (message_is (any_new_url name) other) eqn:E; [|reflexivity].
  exfalso. apply Hne. rewrite <- (message_is_then_name _ _ Ho E). now apply message_name_new.
Qed.

(* ------------------------------------------------------------------ pack / unpack *)
Section AnyRoundTrip.
  Variable msg : Type.
  Variable name_of : msg -> list byte.
  Variable marshal : msg -> option (list byte).
  Variable unmarshal : list byte -> list byte -> option msg.
  Variable resolve : list byte -> bool.
  (* C03 for the codec: decoding the encoding into a fresh message of the same type gives the message back *)
  Hypothesis codec_roundtrip : forall m b, marshal m = Some b -> unmarshal (name_of m) b = Some m.

  Theorem any_roundtrip_to :
    forall m a, any_new msg name_of marshal m = Some a ->
    unmarshal_to msg unmarshal a (name_of m) = Some m.
  Proof.
    intros m a H. unfold any_new in H. destruct (marshal m) as [b|] eqn:E; [|discriminate].
    inversion H; subst. unfold unmarshal_to. cbn [type_url value].
    rewrite message_is_name. now apply codec_roundtrip.
  Qed.

  Theorem any_roundtrip_new :
    forall m a, any_new msg name_of marshal m = Some a ->
    full_name_valid (name_of m) = true -> resolve (name_of m) = true ->
    unmarshal_new msg unmarshal resolve a = Some m.
  Proof.
    intros m a H Hv Hr. unfold any_new in H. destruct (marshal m) as [b|] eqn:E; [|discriminate].
    inversion H; subst. unfold unmarshal_new. cbn [type_url value].
    rewrite any_new_url_split. rewrite url_name_after_slash by now apply full_name_valid_no_slash.
    rewrite Hr. destruct (url_prefix_body ++ slash :: name_of m) eqn:El.
    - destruct url_prefix_body; discriminate.
    - now apply codec_roundtrip.
  Qed.

  Theorem any_wrong_type_rejected :
    forall m a other, any_new msg name_of marshal m = Some a ->
    full_name_valid (name_of m) = true -> full_name_valid other = true -> other <> name_of m ->
    unmarshal_to msg unmarshal a other = None.
  Proof.
    intros m a other H Hv Ho Hne. unfold any_new in H. destruct (marshal m) as [b|] eqn:E; [|discriminate].
    inversion H; subst. unfold unmarshal_to. cbn [type_url value].
    now rewrite message_is_other_false.
  Qed.
End AnyRoundTrip.

(* ------------------------------------------------------------------ FullName.IsValid = the grammar *)
(* the grammar of FullName.IsValid: ident ( "." ident )*, ident = letter (letter | digit)* *)
Inductive ident : list byte -> Prop :=
  | ident_intro c r : is_letter c = true -> Forall (fun x => is_letter_digit x = true) r -> ident (c :: r).

Inductive full_name : list byte -> Prop :=
  | fn_one i : ident i -> full_name i
  | fn_more i r : ident i -> full_name r -> full_name (i ++ dot :: r).

Lemma dot_not_letter_digit : is_letter_digit dot = false.
Proof. vm_compute. reflexivity. Qed.

Lemma skip_letter_digits_split s :
  exists p, s = p ++ skip_letter_digits s /\ Forall (fun x => is_letter_digit x = true) p /\
            (skip_letter_digits s = [] \/ exists c t, skip_letter_digits s = c :: t /\ is_letter_digit c = false).
Proof.
  induction s as [|c r [p [Hp [Hf Hr]]]].
  - exists []. split; [reflexivity|]. split; [constructor|now left].
  - cbn [skip_letter_digits]. destruct (is_letter_digit c) eqn:E.
    + exists (c :: p). split; [cbn; now rewrite <- Hp|]. split; [now constructor|exact Hr].
    + exists []. split; [reflexivity|]. split; [constructor|]. right. now exists c, r.
Qed.

Lemma consume_ident_split s r :
  consume_ident s = Some r ->
  exists i, s = i ++ r /\ ident i /\ (r = [] \/ exists c t, r = c :: t /\ is_letter_digit c = false).
Proof.
  destruct s as [|c t]; [discriminate|]. cbn [consume_ident].
  destruct (is_letter c) eqn:E; [|discriminate]. intros H. inversion H; subst.
  destruct (skip_letter_digits_split t) as [p [Hp [Hf Hr]]].
  exists (c :: p). split; [cbn; now rewrite <- Hp|]. split; [constructor; assumption|exact Hr].
Qed.

Lemma skip_letter_digits_app p r :
  Forall (fun x => is_letter_digit x = true) p ->
  (r = [] \/ exists c t, r = c :: t /\ is_letter_digit c = false) ->
  skip_letter_digits (p ++ r) = r.
Proof.
  intros Hp Hr. induction Hp as [|x p Hx Hp IH]; cbn [app skip_letter_digits].
  - destruct Hr as [->|[c [t [-> Hc]]]]; [reflexivity|]. cbn [skip_letter_digits]. now rewrite Hc.
  - now rewrite Hx.
Qed.

Lemma consume_ident_app i r :
  ident i -> (r = [] \/ exists c t, r = c :: t /\ is_letter_digit c = false) ->
  consume_ident (i ++ r) = Some r.
Proof.
  intros [c p Hc Hp] Hr. cbn [app consume_ident]. rewrite Hc. now rewrite skip_letter_digits_app.
Qed.

Lemma full_name_rest_sound fuel : forall r,
  full_name_rest fuel r = true -> r = [] \/ exists t, r = dot :: t /\ full_name t.
Proof.
  induction fuel as [|f IH]; intros r H; destruct r as [|c r1]; auto; cbn [full_name_rest] in H;
    destruct (byte_eqb c dot) eqn:Ec; try discriminate;
    destruct (consume_ident r1) as [r'|] eqn:Er; try discriminate.
  apply byte_eqb_eq in Ec. subst c. right. exists r1. split; [reflexivity|].
  destruct (consume_ident_split r1 r' Er) as [i [-> [Hi _]]].
  destruct (IH r' H) as [->|[t [-> Ht]]].
  - rewrite app_nil_r. now constructor.
  - now apply fn_more.
Qed.

Lemma ident_nonempty i : ident i -> 1 <= length i.
Proof. intros [c p _ _]. cbn. lia. Qed.

Lemma full_name_rest_complete t :
  full_name t -> forall fuel, length t <= fuel -> full_name_rest fuel (dot :: t) = true.
Proof.
  induction 1 as [i Hi|i r Hi Hr IH]; intros fuel Hf.
  - pose proof (ident_nonempty i Hi). destruct fuel as [|f]; [lia|].
    cbn [full_name_rest]. rewrite byte_eqb_refl.
    rewrite <- (app_nil_r i). rewrite consume_ident_app by auto. destruct f; reflexivity.
  - pose proof (ident_nonempty i Hi). rewrite app_length in Hf. cbn [length] in Hf.
    destruct fuel as [|f]; [lia|].
    cbn [full_name_rest]. rewrite byte_eqb_refl.
    rewrite consume_ident_app; [|assumption|right; exists dot, r; split; [reflexivity|apply dot_not_letter_digit]].
    apply IH. lia.
Qed.

(* FullName.IsValid accepts exactly the grammar; in particular the fuel of the model's loop never runs out *)
Theorem full_name_valid_iff s : full_name_valid s = true <-> full_name s.
Proof.
  unfold full_name_valid. split.
  - destruct (consume_ident s) as [r|] eqn:E; [|discriminate]. intros H.
    destruct (consume_ident_split s r E) as [i [-> [Hi _]]].
    destruct (full_name_rest_sound _ _ H) as [->|[t [-> Ht]]].
    + rewrite app_nil_r. now constructor.
    + now apply fn_more.
  - intros H. destruct H as [i Hi|i r Hi Hr].
    + rewrite <- (app_nil_r i) at 1. rewrite consume_ident_app by auto.
      destruct (length i); reflexivity.
    + rewrite consume_ident_app; [|assumption|right; exists dot, r; split; [reflexivity|apply dot_not_letter_digit]].
      apply full_name_rest_complete; [assumption|]. rewrite app_length. cbn. lia.
Qed.

(* ------------------------------------------------------------------ combined statements used by Props/C45.v *)
Theorem message_is_name_both :
  forall name, message_is (any_new_url name) name = true /\
               (full_name_valid name = true -> message_name (any_new_url name) = name).
Proof. intros name. split; [exact (message_is_name name)|exact (message_name_new name)]. Qed.

Theorem message_name_is_agree :
  (forall url name, full_name_valid name = true -> message_is url name = true -> message_name url = name) /\
  (forall url, message_name url <> [] -> message_is url (message_name url) = true).
Proof. split; [exact message_is_then_name|exact message_name_then_is]. Qed.

Theorem any_roundtrip_all :
  forall (msg : Type) (name_of : msg -> list byte) (marshal : msg -> option (list byte))
         (unmarshal : list byte -> list byte -> option msg) (resolve : list byte -> bool),
  (forall m b, marshal m = Some b -> unmarshal (name_of m) b = Some m) ->
  forall m a, any_new msg name_of marshal m = Some a ->
  unmarshal_to msg unmarshal a (name_of m) = Some m /\
  (full_name_valid (name_of m) = true -> resolve (name_of m) = true ->
   unmarshal_new msg unmarshal resolve a = Some m) /\
  (forall other, full_name_valid (name_of m) = true -> full_name_valid other = true -> other <> name_of m ->
   unmarshal_to msg unmarshal a other = None).
Proof.
  intros msg name_of marshal unmarshal resolve Hc m a Ha. repeat split.
  - exact (any_roundtrip_to msg name_of marshal unmarshal Hc m a Ha).
  - exact (any_roundtrip_new msg name_of marshal unmarshal resolve Hc m a Ha).
  - intros other. exact (any_wrong_type_rejected msg name_of marshal unmarshal m a other Ha).
Qed.
