(* Proofs about the FieldMask model (C44). *)
From Coq Require Import List NArith ZArith Bool Lia Sorted Permutation.
From Coq Require Import ZifyBool ZifyNat ZifyN.
From PB Require Import Base.PBytes Known.FieldMaskModel.
Import ListNotations.
Open Scope N_scope.
Ltac Zify.zify_post_hook ::= Z.div_mod_to_equations.

(* ------------------------------------------------------------------ bytes *)
Lemma b2n_inj a b : b2n a = b2n b -> a = b.
Proof. intros H. rewrite <- (n2b_b2n a), <- (n2b_b2n b). now rewrite H. Qed.

Lemma beq_true a b : beq a b = true <-> a = b.
Proof.
  unfold beq. rewrite N.eqb_eq. split; [apply b2n_inj | now intros ->].
Qed.
Lemma beq_false a b : beq a b = false <-> a <> b.
Proof.
  unfold beq. rewrite N.eqb_neq. split; intros H E; apply H; [now subst | now apply b2n_inj].
Qed.
Lemma beq_refl a : beq a a = true.
Proof. now apply beq_true. Qed.
Lemma beq_sym a b : beq a b = beq b a.
Proof. unfold beq. apply N.eqb_sym. Qed.

Lemma bytes_eqb_true x y : bytes_eqb x y = true <-> x = y.
Proof.
  revert y; induction x as [|a x IH]; intros [|b y]; cbn [bytes_eqb]; try (split; congruence).
  rewrite andb_true_iff, beq_true, IH. split; [intros [-> ->]; reflexivity | intros H; inversion H; auto].
Qed.

Lemma key_inj a b : key a = key b -> a = b.
Proof.
  unfold key. intros H. apply b2n_inj.
  pose proof (b2n_lt a). pose proof (b2n_lt b). lia.
Qed.

Lemma key_dot : key dot = 0.
Proof. reflexivity. Qed.

(* ------------------------------------------------------------------ lessPath is a strict total order *)
Lemma less_irrefl x : less_path x x = false.
Proof. induction x as [|a x IH]; cbn [less_path]; [reflexivity|]. now rewrite beq_refl. Qed.

Lemma less_trans x y z : less_path x y = true -> less_path y z = true -> less_path x z = true.
Proof.
  revert y z; induction x as [|a x IH]; intros [|b y] [|c z]; cbn [less_path]; try congruence.
  destruct (beq a b) eqn:Eab.
  - apply beq_true in Eab; subst b. destruct (beq a c) eqn:Eac; [apply IH | auto].
  - destruct (beq b c) eqn:Ebc.
    + apply beq_true in Ebc; subst c. rewrite Eab. auto.
    + intros H1 H2. destruct (beq a c) eqn:Eac.
      * apply beq_true in Eac; subst c. apply N.ltb_lt in H1, H2. lia.
      * apply N.ltb_lt in H1, H2. apply N.ltb_lt. lia.
Qed.

Lemma less_total x y : less_path x y = false -> less_path y x = false -> x = y.
Proof.
  revert y; induction x as [|a x IH]; intros [|b y]; cbn [less_path]; try congruence.
  rewrite (beq_sym b a). destruct (beq a b) eqn:E.
  - apply beq_true in E; subst b. intros H1 H2. f_equal. now apply IH.
  - intros H1 H2. apply N.ltb_ge in H1, H2. exfalso. apply beq_false in E. apply E, key_inj. lia.
Qed.

Lemma less_asym x y : less_path x y = true -> less_path y x = false.
Proof.
  intros H. destruct (less_path y x) eqn:E; [|reflexivity].
  pose proof (less_trans _ _ _ H E) as C. now rewrite less_irrefl in C.
Qed.

Definition lt_path (x y : path) : Prop := less_path x y = true.
Definition le_path (x y : path) : Prop := less_path y x = false.

Theorem less_path_strict_total :
  (forall x, ~ lt_path x x) /\
  (forall x y z, lt_path x y -> lt_path y z -> lt_path x z) /\
  (forall x y, lt_path x y \/ x = y \/ lt_path y x) /\
  (* '.' is the least byte, every other byte is ordered by (b - '.') mod 256 *)
  (forall a b x y, a <> b -> (lt_path (a :: x) (b :: y) <-> (b2n a + 210) mod 256 < (b2n b + 210) mod 256)) /\
  (forall a x y, lt_path (a :: x) (a :: y) <-> lt_path x y) /\
  (forall y, lt_path [] y <-> y <> []).
Proof.
  unfold lt_path. repeat split.
  - intros x. now rewrite less_irrefl.
  - apply less_trans.
  - intros x y. destruct (less_path x y) eqn:E1; [now left|].
    destruct (less_path y x) eqn:E2; [now right; right|]. right; left. now apply less_total.
  - cbn [less_path]. apply beq_false in H. rewrite H. unfold key. apply N.ltb_lt.
  - cbn [less_path]. apply beq_false in H. rewrite H. unfold key. apply N.ltb_lt.
  - cbn [less_path]. now rewrite beq_refl.
  - cbn [less_path]. now rewrite beq_refl.
  - destruct y; cbn [less_path]; congruence.
  - destruct y; cbn [less_path]; congruence.
Qed.

Lemma le_refl x : le_path x x.
Proof. apply less_irrefl. Qed.

Lemma le_trans x y z : le_path x y -> le_path y z -> le_path x z.
Proof.
  unfold le_path. intros H1 H2. destruct (less_path z x) eqn:E; [|reflexivity]. exfalso.
  destruct (less_path y z) eqn:E3.
  - pose proof (less_trans _ _ _ E3 E). congruence.
  - pose proof (less_total _ _ E3 H2). subst. congruence.
Qed.

Lemma le_antisym x y : le_path x y -> le_path y x -> x = y.
Proof. unfold le_path. intros. now apply less_total. Qed.

Lemma lt_le x y : less_path x y = true -> le_path x y.
Proof. apply less_asym. Qed.

Lemma le_cases x y : le_path x y \/ le_path y x.
Proof.
  unfold le_path. destruct (less_path y x) eqn:E; [right; now apply less_asym | now left].
Qed.

(* ------------------------------------------------------------------ sorting *)
Lemma ins_perm x l : Permutation (x :: l) (ins_path x l).
Proof.
  induction l as [|h t IH]; cbn [ins_path]; [reflexivity|].
  destruct (less_path h x); [|reflexivity].
  rewrite perm_swap. now constructor.
Qed.

Lemma sort_perm l : Permutation l (sort_paths l).
Proof.
  induction l as [|x t IH]; cbn [sort_paths]; [constructor|].
  rewrite <- ins_perm. now constructor.
Qed.

Lemma ins_sorted x l : StronglySorted le_path l -> StronglySorted le_path (ins_path x l).
Proof.
  induction 1 as [|h t Hs IH Hf]; cbn [ins_path]; [repeat constructor|].
  destruct (less_path h x) eqn:E.
  - constructor; [exact IH|].
    apply (Permutation_Forall (ins_perm x t)). constructor; [now apply lt_le | exact Hf].
  - constructor; [now constructor|].
    constructor; [exact E|].
    eapply Forall_impl; [|exact Hf]. intros y Hy. now apply (le_trans _ h).
Qed.

Lemma sort_sorted l : StronglySorted le_path (sort_paths l).
Proof. induction l; cbn [sort_paths]; [constructor | now apply ins_sorted]. Qed.

Lemma sorted_sort_id l : StronglySorted le_path l -> sort_paths l = l.
Proof.
  induction 1 as [|h t Hs IH Hf]; cbn [sort_paths]; [reflexivity|].
  rewrite IH. destruct t as [|k t']; [reflexivity|]. cbn [ins_path].
  inversion Hf; subst. unfold le_path in H1. now rewrite H1.
Qed.

(* a sorted permutation is unique: whatever sort.Slice does internally, if it
   returns a lessPath-sorted permutation it returns [sort_paths] *)
Lemma sorted_perm_unique l1 l2 :
  StronglySorted le_path l1 -> StronglySorted le_path l2 -> Permutation l1 l2 -> l1 = l2.
Proof.
  intros H1; revert l2; induction H1 as [|a t1 Hs1 IH Hf1]; intros l2 H2 HP.
  - apply Permutation_nil in HP. now subst.
  - destruct H2 as [|b t2 Hs2 Hf2]; [apply Permutation_sym, Permutation_nil in HP; discriminate|].
    assert (a = b).
    { apply le_antisym.
      - assert (In b (a :: t1)) as Hin by (apply (Permutation_in _ (Permutation_sym HP)); now left).
        destruct Hin as [->|Hin]; [apply le_refl|]. rewrite Forall_forall in Hf1. now apply Hf1.
      - assert (In a (b :: t2)) as Hin by (apply (Permutation_in _ HP); now left).
        destruct Hin as [->|Hin]; [apply le_refl|]. rewrite Forall_forall in Hf2. now apply Hf2. }
    subst b. f_equal. apply IH; [exact Hs2|]. now apply Permutation_cons_inv in HP.
Qed.

Theorem sort_spec_unique (srt : list path -> list path) :
  (forall l, Permutation l (srt l) /\ StronglySorted le_path (srt l)) ->
  forall l, srt l = sort_paths l.
Proof.
  intros H l. destruct (H l) as [HP HS].
  apply sorted_perm_unique; [exact HS | apply sort_sorted|].
  rewrite <- HP. apply sort_perm.
Qed.

(* ------------------------------------------------------------------ hasPathPrefix *)
Lemma hpp_spec p q : has_path_prefix p q = true <-> (q = p \/ exists w, p = q ++ dot :: w).
Proof.
  revert p; induction q as [|b q IH]; intros [|a p]; cbn [has_path_prefix app].
  - split; auto.
  - rewrite beq_true. split.
    + intros ->. right. now exists p.
    + intros [H|[w H]]; [discriminate | now inversion H].
  - split; [discriminate|]. intros [H|[w H]]; discriminate.
  - rewrite andb_true_iff, beq_true, IH. split.
    + intros [-> [->|[w' ->]]]; [now left | right; now exists w'].
    + intros [H|[w' H]]; inversion H; subst; split; auto. right; now exists w'.
Qed.

Lemma hpp_refl p : has_path_prefix p p = true.
Proof. apply hpp_spec. now left. Qed.

Lemma hpp_trans p q r : has_path_prefix p q = true -> has_path_prefix q r = true -> has_path_prefix p r = true.
Proof.
  rewrite !hpp_spec. intros [->|[w ->]] [->|[v ->]]; eauto.
  right. exists (v ++ dot :: w). now rewrite <- !app_assoc.
Qed.

(* a prefix is not greater than the path *)
Lemma hpp_le p q : has_path_prefix p q = true -> le_path q p.
Proof.
  unfold le_path. revert p; induction q as [|b q IH]; intros [|a p]; cbn [has_path_prefix less_path]; try congruence.
  rewrite andb_true_iff, beq_true. intros [-> H]. rewrite beq_refl. now apply IH.
Qed.

Lemma hpp_antisym p q : has_path_prefix p q = true -> has_path_prefix q p = true -> p = q.
Proof. intros H1 H2. apply le_antisym; now apply hpp_le. Qed.

(* the paths covered by [a] form a contiguous block that starts at [a] *)
Lemma covered_block_contiguous a b c :
  le_path a b -> le_path b c -> has_path_prefix c a = true -> has_path_prefix b a = true.
Proof.
  unfold le_path. revert b c; induction a as [|h a IH]; intros b c.
  - destruct c as [|x c]; cbn [has_path_prefix].
    + destruct b; cbn [less_path]; [reflexivity|congruence].
    + rewrite beq_true. intros _ Hbc ->. destruct b as [|y b]; [reflexivity|].
      cbn [has_path_prefix]. cbn [less_path] in Hbc.
      destruct (beq dot y) eqn:E; [rewrite beq_sym; exact E|].
      rewrite key_dot in Hbc. apply N.ltb_ge in Hbc.
      assert (key y = key dot) by (rewrite key_dot; lia). apply key_inj in H. subst.
      now rewrite beq_refl in E.
  - destruct c as [|x c]; cbn [has_path_prefix]; [congruence|].
    rewrite andb_true_iff, beq_true. intros Hab Hbc [-> Hc].
    destruct b as [|y b]; cbn [less_path] in Hab, Hbc; [congruence|].
    cbn [has_path_prefix].
    destruct (beq h y) eqn:E.
    + apply beq_true in E; subst y. rewrite beq_refl in *. cbn [andb]. now apply (IH b c).
    + rewrite beq_sym in Hab. rewrite E in Hab. apply N.ltb_ge in Hab, Hbc.
      assert (key h = key y) by lia. apply key_inj in H. subst. now rewrite beq_refl in E.
Qed.

Lemma hpp_comparable p a b :
  has_path_prefix p a = true -> has_path_prefix p b = true ->
  has_path_prefix a b = true \/ has_path_prefix b a = true.
Proof.
  intros Ha Hb. destruct (le_cases a b) as [L|L].
  - right. apply (covered_block_contiguous a b p); auto. now apply hpp_le.
  - left. apply (covered_block_contiguous b a p); auto. now apply hpp_le.
Qed.

(* ------------------------------------------------------------------ coverage *)
Definition covers (mask : list path) (p : path) : Prop :=
  exists q, In q mask /\ (q = p \/ exists w, p = q ++ dot :: w).

Lemma covers_hpp mask p : covers mask p <-> exists q, In q mask /\ has_path_prefix p q = true.
Proof. unfold covers. split; intros [q [H1 H2]]; exists q; split; auto; now apply hpp_spec. Qed.

Lemma covers_perm l1 l2 p : Permutation l1 l2 -> covers l1 p -> covers l2 p.
Proof. intros HP [q [H1 H2]]. exists q. split; auto. now apply (Permutation_in _ HP). Qed.

Lemma covers_app l1 l2 p : covers (l1 ++ l2) p <-> covers l1 p \/ covers l2 p.
Proof.
  unfold covers. split.
  - intros [q [H1 H2]]. apply in_app_or in H1. destruct H1; [left|right]; exists q; auto.
  - intros [[q [H1 H2]]|[q [H1 H2]]]; exists q; split; auto; apply in_or_app; auto.
Qed.

Lemma covers_concat ms p : covers (concat ms) p <-> exists m, In m ms /\ covers m p.
Proof.
  unfold covers. split.
  - intros [q [H1 H2]]. apply in_concat in H1. destruct H1 as [m [Hm Hq]]. exists m. split; auto. exists q; auto.
  - intros [m [Hm [q [H1 H2]]]]. exists q. split; auto. apply in_concat. exists m; auto.
Qed.

(* ------------------------------------------------------------------ elide / normalize *)
Lemma elide_incl prev l x : In x (elide prev l) -> In x l.
Proof.
  revert prev; induction l as [|p t IH]; intros prev; cbn [elide]; [auto|].
  destruct (match prev with Some q => has_path_prefix p q | None => false end).
  - intros H. right. eauto.
  - intros [->|H]; [now left | right; eauto].
Qed.

(* every input path is covered by a kept path (or by the previous kept one) *)
Lemma elide_keeps_cover prev l x :
  In x l -> exists k, (In k (elide prev l) \/ prev = Some k) /\ has_path_prefix x k = true.
Proof.
  revert prev; induction l as [|p t IH]; intros prev; cbn [elide]; [intros []|].
  intros [->|Hin].
  - destruct prev as [q|].
    + destruct (has_path_prefix x q) eqn:E.
      * exists q. auto.
      * exists x. split; [left; now left | apply hpp_refl].
    + exists x. split; [left; now left | apply hpp_refl].
  - destruct (match prev with Some q => has_path_prefix p q | None => false end) eqn:E.
    + apply IH; exact Hin.
    + destruct (IH (Some p) Hin) as [k [[Hk|Hk] Hc]].
      * exists k. split; [left; now right | exact Hc].
      * inversion Hk; subst k. exists p. split; [left; now left | exact Hc].
Qed.

Theorem normalize_same_cover paths p : covers (normalize paths) p <-> covers paths p.
Proof.
  unfold normalize. rewrite !covers_hpp. split.
  - intros [q [H1 H2]]. exists q. split; auto.
    apply elide_incl in H1. now apply (Permutation_in _ (Permutation_sym (sort_perm paths))).
  - intros [q [H1 H2]].
    apply (Permutation_in _ (sort_perm paths)) in H1.
    destruct (elide_keeps_cover None _ _ H1) as [k [[Hk|Hk] Hc]]; [|discriminate].
    exists k. split; auto. now apply (hpp_trans _ q).
Qed.

Fixpoint adj_nc (prev : option path) (l : list path) : Prop :=
  match l with
  | [] => True
  | h :: t => (match prev with Some q => has_path_prefix h q = false | None => True end) /\ adj_nc (Some h) t
  end.

Lemma elide_adj prev l : adj_nc prev (elide prev l).
Proof.
  revert prev; induction l as [|p t IH]; intros prev; cbn [elide]; [exact I|].
  destruct (match prev with Some q => has_path_prefix p q | None => false end) eqn:E; [apply IH|].
  cbn [adj_nc]. split; [|apply IH]. destruct prev; auto.
Qed.

Lemma adj_elide_id prev l : adj_nc prev l -> elide prev l = l.
Proof.
  revert prev; induction l as [|p t IH]; intros prev; cbn [elide adj_nc]; [reflexivity|].
  intros [H1 H2]. destruct prev as [q|]; [rewrite H1|]; now rewrite IH.
Qed.

Lemma elide_sorted R prev l : StronglySorted R l -> StronglySorted R (elide prev l).
Proof.
  intros H; revert prev; induction H as [|p t Hs IH Hf]; intros prev; cbn [elide]; [constructor|].
  destruct (match prev with Some q => has_path_prefix p q | None => false end); [apply IH|].
  constructor; [apply IH|]. rewrite Forall_forall in *. intros x Hx. apply Hf. eapply elide_incl; eauto.
Qed.

(* in a sorted list whose neighbours do not cover each other, no element covers a later one *)
Definition nc (a x : path) : Prop := le_path a x /\ has_path_prefix x a = false.

Lemma adj_nc_all a l :
  StronglySorted le_path (a :: l) -> adj_nc (Some a) l -> Forall (nc a) l.
Proof.
  intros Hs Ha. inversion Hs as [|? ? Hs' Hf]; subst.
  destruct l as [|b t]; [constructor|]. cbn [adj_nc] in Ha. destruct Ha as [Hb _].
  rewrite Forall_forall in *. intros x Hx. split; [now apply Hf|].
  destruct (has_path_prefix x a) eqn:E; [|reflexivity].
  rewrite <- Hb. symmetry. apply (covered_block_contiguous a b x); auto.
  - apply Hf. now left.
  - destruct Hx as [->|Hx]; [apply le_refl|].
    inversion Hs' as [|? ? _ Hf']; subst. rewrite Forall_forall in Hf'. now apply Hf'.
Qed.

Lemma adj_nc_weaken prev l : adj_nc prev l -> adj_nc None l.
Proof. destruct l; cbn [adj_nc]; tauto. Qed.

Lemma adj_nc_pairwise l :
  StronglySorted le_path l -> adj_nc None l -> StronglySorted nc l.
Proof.
  induction 1 as [|a t Hs IH Hf]; intros Ha; [constructor|].
  cbn [adj_nc] in Ha. destruct Ha as [_ Ha]. constructor.
  - apply IH. eapply adj_nc_weaken; eauto.
  - apply adj_nc_all; auto. now constructor.
Qed.

Lemma ssorted_cases {A} (R : A -> A -> Prop) l x y :
  StronglySorted R l -> In x l -> In y l -> x = y \/ R x y \/ R y x.
Proof.
  induction 1 as [|a t Hs IH Hf]; intros Hx Hy; [destruct Hx|].
  rewrite Forall_forall in Hf.
  destruct Hx as [->|Hx], Hy as [->|Hy]; auto.
Qed.

Definition sorted_prefix_free (l : list path) : Prop :=
  StronglySorted lt_path l /\
  (forall x y, In x l -> In y l -> has_path_prefix x y = true -> x = y).

Lemma nc_lt a x : nc a x -> lt_path a x.
Proof.
  intros [H1 H2]. unfold lt_path. destruct (less_path a x) eqn:E; [reflexivity|].
  pose proof (less_total _ _ E H1). subst. now rewrite hpp_refl in H2.
Qed.

Lemma ssorted_impl {A} (R S : A -> A -> Prop) l :
  (forall a b, R a b -> S a b) -> StronglySorted R l -> StronglySorted S l.
Proof.
  intros H; induction 1; constructor; auto. eapply Forall_impl; [|eassumption]. auto.
Qed.

Lemma nc_sorted_prefix_free l : StronglySorted nc l -> sorted_prefix_free l.
Proof.
  intros H. split.
  - eapply ssorted_impl; [|exact H]. apply nc_lt.
  - intros x y Hx Hy Hc.
    destruct (ssorted_cases _ _ _ _ H Hx Hy) as [E|[[H1 H2]|[H1 H2]]]; auto.
    + apply le_antisym; auto. now apply hpp_le.
    + congruence.
Qed.

Lemma normalize_nc paths : StronglySorted nc (normalize paths).
Proof.
  unfold normalize. apply adj_nc_pairwise.
  - apply elide_sorted, sort_sorted.
  - apply elide_adj.
Qed.

Theorem normalize_sorted_prefix_free paths : sorted_prefix_free (normalize paths).
Proof. apply nc_sorted_prefix_free, normalize_nc. Qed.

Lemma nc_fixed l : StronglySorted nc l -> normalize l = l.
Proof.
  intros H. unfold normalize.
  assert (StronglySorted le_path l) as Hs by (eapply ssorted_impl; [|exact H]; now intros a b [? _]).
  rewrite (sorted_sort_id _ Hs).
  apply adj_elide_id.
  clear Hs. induction H as [|a t Hs IH Hf]; cbn [adj_nc]; [exact I|]. split; [exact I|].
  destruct t as [|b t']; [exact I|]. cbn [adj_nc] in *. destruct IH as [_ IH]. split; [|exact IH].
  inversion Hf; subst. now destruct H1.
Qed.

Theorem normalize_idempotent paths : normalize (normalize paths) = normalize paths.
Proof. apply nc_fixed, normalize_nc. Qed.

(* a sorted prefix-free list is a fixed point: normalize yields THE canonical form *)
Lemma sorted_prefix_free_nc l : sorted_prefix_free l -> StronglySorted nc l.
Proof.
  intros [Hs Hp]. induction Hs as [|a t Hs IH Hf]; [constructor|].
  constructor.
  - apply IH. intros x y Hx Hy. apply Hp; now right.
  - rewrite Forall_forall in *. intros x Hx. split.
    + apply lt_le. now apply Hf.
    + destruct (has_path_prefix x a) eqn:E; [|reflexivity].
      assert (x = a) by (apply Hp; auto; [now right | now left]). subst.
      specialize (Hf _ Hx). unfold lt_path in Hf. now rewrite less_irrefl in Hf.
Qed.

Theorem normalize_canonical l : sorted_prefix_free l <-> normalize l = l.
Proof.
  split.
  - intros H. now apply nc_fixed, sorted_prefix_free_nc.
  - intros H. rewrite <- H. apply normalize_sorted_prefix_free.
Qed.

(* ------------------------------------------------------------------ Union *)
Theorem union_cover mx my ms p :
  covers (fm_union mx my ms) p <-> covers mx p \/ covers my p \/ exists m, In m ms /\ covers m p.
Proof.
  unfold fm_union. now rewrite normalize_same_cover, !covers_app, covers_concat.
Qed.

(* ------------------------------------------------------------------ Intersect *)
Lemma isect_eq s1 t1 s2 t2 :
  isect (s1 :: t1) (s2 :: t2) =
  if has_path_prefix s1 s2 then s1 :: isect t1 (s2 :: t2)
  else if has_path_prefix s2 s1 then s2 :: isect (s1 :: t1) t2
  else if less_path s1 s2 then isect t1 (s2 :: t2)
  else isect (s1 :: t1) t2.
Proof. reflexivity. Qed.
Lemma isect_nil_l l2 : isect [] l2 = [].
Proof. destruct l2; reflexivity. Qed.
Lemma isect_nil_r l1 : isect l1 [] = [].
Proof. destruct l1; reflexivity. Qed.

Lemma isect_sound l1 l2 x :
  In x (isect l1 l2) ->
  (In x l1 /\ exists b, In b l2 /\ has_path_prefix x b = true) \/
  (In x l2 /\ exists a, In a l1 /\ has_path_prefix x a = true).
Proof.
  revert l2; induction l1 as [|s1 t1 IH1]; intros l2; [rewrite isect_nil_l; intros []|].
  induction l2 as [|s2 t2 IH2]; [rewrite isect_nil_r; intros []|].
  rewrite isect_eq.
  destruct (has_path_prefix s1 s2) eqn:E1; [|destruct (has_path_prefix s2 s1) eqn:E2; [|destruct (less_path s1 s2)]].
  - intros [<-|H].
    + left. split; [now left|]. exists s2. split; [now left | exact E1].
    + destruct (IH1 _ H) as [[Ha [b [Hb Hc]]]|[Ha [a [Hb Hc]]]].
      * left. split; [now right|]. eauto.
      * right. split; [exact Ha|]. exists a. split; [now right | exact Hc].
  - intros [<-|H].
    + right. split; [now left|]. exists s1. split; [now left | exact E2].
    + destruct (IH2 H) as [[Ha [b [Hb Hc]]]|[Ha [a [Hb Hc]]]].
      * left. split; [exact Ha|]. exists b. split; [now right | exact Hc].
      * right. split; [now right|]. eauto.
  - intros H. destruct (IH1 _ H) as [[Ha [b [Hb Hc]]]|[Ha [a [Hb Hc]]]].
    + left. split; [now right|]. eauto.
    + right. split; [exact Ha|]. exists a. split; [now right | exact Hc].
  - intros H. destruct (IH2 H) as [[Ha [b [Hb Hc]]]|[Ha [a [Hb Hc]]]].
    + left. split; [exact Ha|]. exists b. split; [now right | exact Hc].
    + right. split; [now right|]. eauto.
Qed.

Lemma nc_tail a l : StronglySorted nc (a :: l) -> StronglySorted nc l.
Proof. now inversion 1. Qed.

Lemma nc_head_le a l x : StronglySorted nc (a :: l) -> In x (a :: l) -> le_path a x.
Proof.
  inversion 1 as [|? ? _ Hf]; subst. intros [->|Hx]; [apply le_refl|].
  rewrite Forall_forall in Hf. now apply Hf in Hx as [? _].
Qed.

Lemma nc_prefix_free l x y :
  StronglySorted nc l -> In x l -> In y l -> has_path_prefix x y = true -> x = y.
Proof. intros H. apply nc_sorted_prefix_free in H. destruct H as [_ H]. apply H. Qed.

Lemma isect_complete l1 l2 :
  StronglySorted nc l1 -> StronglySorted nc l2 ->
  forall a b, In a l1 -> In b l2 ->
    (has_path_prefix a b = true -> In a (isect l1 l2)) /\
    (has_path_prefix b a = true -> In b (isect l1 l2)).
Proof.
  revert l2; induction l1 as [|s1 t1 IH1]; intros l2 N1; [intros _ a b []|].
  induction l2 as [|s2 t2 IH2]; intros N2 a b Ha Hb; [destruct Hb|].
  rewrite isect_eq.
  pose proof (nc_tail _ _ N1) as N1'. pose proof (nc_tail _ _ N2) as N2'.
  destruct (has_path_prefix s1 s2) eqn:E1; [|destruct (has_path_prefix s2 s1) eqn:E2; [|destruct (less_path s1 s2) eqn:E3]].
  - (* emit s1, advance l1 *)
    destruct Ha as [<-|Ha].
    + split; [intros _; now left|]. intros Hc.
      (* b covered by s1 covered by s2, both b and s2 in l2 *)
      assert (b = s2) by (apply (nc_prefix_free _ _ _ N2 Hb); [now left | now apply (hpp_trans _ s1)]).
      subst b. assert (s1 = s2) by now apply hpp_antisym. subst. now left.
    + destruct (IH1 _ N1' N2 a b Ha Hb) as [H1 H2]. split; intros H; right; auto.
  - destruct Hb as [<-|Hb].
    + split; [|intros _; now left].
      intros Hc. assert (a = s1) by (apply (nc_prefix_free _ _ _ N1 Ha); [now left | now apply (hpp_trans _ s2)]).
      subst a. congruence.
    + destruct (IH2 N2' a b Ha Hb) as [H1 H2]. split; intros H; right; auto.
  - (* s1 < s2, neither covers the other: s1 is in no pair *)
    destruct Ha as [<-|Ha]; [|now apply IH1].
    pose proof (nc_head_le _ _ _ N2 Hb) as L2. split; intros C; exfalso.
    + (* b is a prefix of s1: b <= s1 < s2 <= b *)
      apply hpp_le in C. pose proof (le_trans _ _ _ L2 C) as L. unfold le_path in L. congruence.
    + (* s1 <= s2 <= b and b covered by s1: s2 covered by s1 *)
      assert (has_path_prefix s2 s1 = true); [|congruence].
      apply (covered_block_contiguous s1 s2 b); auto. now apply lt_le.
  - (* s2 <= s1, neither covers the other: s2 is in no pair *)
    destruct Hb as [<-|Hb]; [|now apply IH2].
    pose proof (nc_head_le _ _ _ N1 Ha) as L1. split; intros C; exfalso.
    + assert (has_path_prefix s1 s2 = true); [|congruence].
      apply (covered_block_contiguous s2 s1 a); auto.
    + apply hpp_le in C. pose proof (le_trans _ _ _ L1 C) as L.
      assert (s1 = s2) by (apply le_antisym; auto). subst. rewrite hpp_refl in E1. discriminate.
Qed.

Definition both_cover (l1 l2 : list path) (p : path) : Prop := covers l1 p /\ covers l2 p.

Lemma isect_cover l1 l2 p :
  StronglySorted nc l1 -> StronglySorted nc l2 ->
  (covers (isect l1 l2) p <-> covers l1 p /\ covers l2 p).
Proof.
  intros N1 N2. rewrite !covers_hpp. split.
  - intros [x [Hx Hc]]. destruct (isect_sound _ _ _ Hx) as [[Ha [b [Hb Hxb]]]|[Ha [a [Hb Hxa]]]].
    + split; [exists x; auto | exists b; split; auto; now apply (hpp_trans _ x)].
    + split; [exists a; split; auto; now apply (hpp_trans _ x) | exists x; auto].
  - intros [[a [Ha Hpa]] [b [Hb Hpb]]].
    destruct (isect_complete _ _ N1 N2 a b Ha Hb) as [H1 H2].
    destruct (hpp_comparable _ _ _ Hpa Hpb) as [C|C]; [exists a | exists b]; auto.
Qed.

Lemma isect_step_cover out inp p :
  covers (isect_step out inp) p <-> covers inp p /\ covers out p.
Proof.
  unfold isect_step. rewrite isect_cover by apply normalize_nc.
  now rewrite !normalize_same_cover.
Qed.

Lemma fold_isect_cover ms out p :
  covers (fold_left isect_step ms out) p <-> covers out p /\ forall m, In m ms -> covers m p.
Proof.
  revert out; induction ms as [|m ms IH]; intros out; cbn [fold_left].
  - split; [intros H; split; [exact H | intros ? []] | tauto].
  - rewrite IH, isect_step_cover. split.
    + intros [[Hm Ho] Hall]. split; auto. intros m' [<-|Hin]; auto.
    + intros [Ho Hall]. split; [split; auto; apply Hall; now left | intros m' Hin; apply Hall; now right].
Qed.

Theorem intersect_cover mx my ms p :
  covers (fm_intersect mx my ms) p <->
  covers mx p /\ covers my p /\ forall m, In m ms -> covers m p.
Proof.
  unfold fm_intersect. rewrite normalize_same_cover, fold_isect_cover, !isect_step_cover, union_cover.
  tauto.
Qed.

Theorem intersect_sorted_prefix_free mx my ms : sorted_prefix_free (fm_intersect mx my ms).
Proof. apply normalize_sorted_prefix_free. Qed.
Theorem union_sorted_prefix_free mx my ms : sorted_prefix_free (fm_union mx my ms).
Proof. apply normalize_sorted_prefix_free. Qed.

