(* Proleptic Gregorian calendar arithmetic (days since 1970-01-01 <-> year/month/day),
   used by the Timestamp JSON model in place of Go's time.Date / Time.Date.
   Definitions only.  Algorithms: H. Hinnant, "chrono-compatible low-level date
   algorithms" (era = 400-year cycle, years starting on March 1). *)
From Coq Require Import ZArith Bool.
Open Scope Z_scope.

Definition is_leap (y : Z) : bool := (y mod 4 =? 0) && (negb (y mod 100 =? 0) || (y mod 400 =? 0)).

(* daysIn(month, year) of src/time *)
Definition days_in (m y : Z) : Z :=
  if m =? 2 then (if is_leap y then 29 else 28)
  else if (m =? 4) || (m =? 6) || (m =? 9) || (m =? 11) then 30 else 31.

Definition days_from_civil (y m d : Z) : Z :=
  let y' := if m <=? 2 then y - 1 else y in
  let era := y' / 400 in
  let yoe := y' - era * 400 in
  let mp := (m + 9) mod 12 in
  let doy := (153 * mp + 2) / 5 + d - 1 in
  let doe := yoe * 365 + yoe / 4 - yoe / 100 + doy in
  era * 146097 + doe - 719468.

Definition yoe_of_doe (doe : Z) : Z := (doe - doe / 1460 + doe / 36524 - doe / 146096) / 365.

Definition civil_from_days (z : Z) : Z * Z * Z :=
  let z' := z + 719468 in
  let era := z' / 146097 in
  let doe := z' - era * 146097 in
  let yoe := yoe_of_doe doe in
  let y' := yoe + era * 400 in
  let doy := doe - (365 * yoe + yoe / 4 - yoe / 100) in
  let mp := (5 * doy + 2) / 153 in
  let d := doy - (153 * mp + 2) / 5 + 1 in
  let m := if mp <? 10 then mp + 3 else mp - 9 in
  (if m <=? 2 then y' + 1 else y', m, d).

Definition valid_date (y m d : Z) : Prop := 1 <= m <= 12 /\ 1 <= d <= days_in m y.
