(* days_from_civil and civil_from_days are mutually inverse (all years). *)
From Coq Require Import ZArith NArith Bool Lia.
From Coq Require Import ZifyBool.
From PB Require Import Known.CivilModel Known.CivilFactsP.
Open Scope Z_scope.
Ltac Zify.zify_post_hook ::= Z.to_euclidean_division_equations.

Lemma is_leap_shift y k : is_leap (y + k * 400) = is_leap y.
Proof.
  unfold is_leap.
  replace ((y + k * 400) mod 4) with (y mod 4) by lia.
  replace ((y + k * 400) mod 100) with (y mod 100) by lia.
  replace ((y + k * 400) mod 400) with (y mod 400) by lia. reflexivity.
Qed.

(* month numbering *)
Lemma mp_of_m m : 1 <= m <= 12 -> let mp := (m + 9) mod 12 in
  0 <= mp <= 11 /\ (if mp <? 10 then mp + 3 else mp - 9) = m /\ (m <=? 2) = (10 <=? mp).
Proof.
  intros H. cbv zeta.
  assert (m = 1 \/ m = 2 \/ m = 3 \/ m = 4 \/ m = 5 \/ m = 6 \/ m = 7 \/ m = 8 \/ m = 9 \/ m = 10 \/ m = 11 \/ m = 12) as C by lia.
  destruct C as [->|[->|[->|[->|[->|[->|[->|[->|[->|[->|[->| ->]]]]]]]]]]]; cbn; repeat split; lia.
Qed.
Lemma m_of_mp mp : 0 <= mp <= 11 -> let m := if mp <? 10 then mp + 3 else mp - 9 in
  1 <= m <= 12 /\ (m + 9) mod 12 = mp /\ (m <=? 2) = (10 <=? mp).
Proof.
  intros H. cbv zeta.
  assert (mp = 0 \/ mp = 1 \/ mp = 2 \/ mp = 3 \/ mp = 4 \/ mp = 5 \/ mp = 6 \/ mp = 7 \/ mp = 8 \/ mp = 9 \/ mp = 10 \/ mp = 11) as C by lia.
  destruct C as [->|[->|[->|[->|[->|[->|[->|[->|[->|[->|[->| ->]]]]]]]]]]]; cbn; repeat split; lia.
Qed.

(* length of the March-based month vs days_in *)
Lemma mlen_days_in m y : 1 <= m <= 12 ->
  mlen ((m + 9) mod 12) = if m =? 2 then 30 else days_in m y.
Proof.
  intros H. unfold mlen, days_in.
  assert (m = 1 \/ m = 2 \/ m = 3 \/ m = 4 \/ m = 5 \/ m = 6 \/ m = 7 \/ m = 8 \/ m = 9 \/ m = 10 \/ m = 11 \/ m = 12) as C by lia.
  destruct C as [->|[->|[->|[->|[->|[->|[->|[->|[->|[->|[->| ->]]]]]]]]]]]; reflexivity.
Qed.

Theorem days_from_civil_from_days z :
  let '(y, m, d) := civil_from_days z in days_from_civil y m d = z /\ valid_date y m d.
Proof.
  unfold civil_from_days. cbv zeta.
  set (era := (z + 719468) / 146097). set (doe := z + 719468 - era * 146097).
  assert (0 <= doe < 146097) as Hdoe by (unfold doe, era; lia).
  destruct (doe_facts doe Hdoe) as [Hy Hd]. cbv zeta in Hy, Hd.
  set (yoe := yoe_of_doe doe) in *. unfold g_yoe in Hd.
  set (doy := doe - (365 * yoe + yoe / 4 - yoe / 100)) in *.
  assert (0 <= doy <= 365) as Hd' by (destruct (leap_yoe yoe); lia).
  destruct (doy_facts doy Hd') as [Hmp Hdd]. cbv zeta in Hmp, Hdd.
  set (mp := (5 * doy + 2) / 153) in *. set (d := doy - (153 * mp + 2) / 5 + 1) in *.
  destruct (m_of_mp mp Hmp) as [Hm [Hmp' Hle]]. cbv zeta in Hm, Hmp', Hle.
  set (m := if mp <? 10 then mp + 3 else mp - 9) in *.
  split.
  - unfold days_from_civil. cbv zeta. rewrite Hmp'.
    assert ((if m <=? 2 then (if m <=? 2 then yoe + era * 400 + 1 else yoe + era * 400) - 1
             else (if m <=? 2 then yoe + era * 400 + 1 else yoe + era * 400)) = yoe + era * 400) as -> by (destruct (m <=? 2); lia).
    assert ((yoe + era * 400) / 400 = era) as -> by lia.
    assert (yoe + era * 400 - era * 400 = yoe) as -> by lia.
    unfold d, doy, doe. lia.
  - unfold valid_date. split; [exact Hm|].
    rewrite <- Hmp' in Hdd. rewrite (mlen_days_in m (if m <=? 2 then yoe + era * 400 + 1 else yoe + era * 400) Hm) in Hdd.
    destruct (m =? 2) eqn:E2; [|lia].
    (* February: day 29 only in leap years *)
    assert (mp = 11) as Emp by lia.
    assert (m <=? 2 = true) as -> by lia.
    unfold days_in. rewrite E2.
    assert (is_leap (yoe + era * 400 + 1) = leap_yoe yoe) as ->.
    { unfold leap_yoe. replace (yoe + era * 400 + 1) with (yoe + 1 + era * 400) by lia. apply is_leap_shift. }
    unfold d. rewrite Emp in *. change ((153 * 11 + 2) / 5) with 337.
    destruct (leap_yoe yoe); lia.
Qed.

Theorem civil_from_days_from_civil y m d :
  valid_date y m d -> civil_from_days (days_from_civil y m d) = (y, m, d).
Proof.
  intros [Hm Hd]. unfold days_from_civil. cbv zeta.
  destruct (mp_of_m m Hm) as [Hmp [Hm' Hle]]. cbv zeta in Hmp, Hm', Hle.
  set (mp := (m + 9) mod 12) in *.
  set (y' := if m <=? 2 then y - 1 else y).
  set (era := y' / 400). set (yoe := y' - era * 400).
  assert (0 <= yoe <= 399) as Hy by (unfold yoe, era; lia).
  set (doy := (153 * mp + 2) / 5 + d - 1).
  (* d within the March-based month *)
  assert (1 <= d <= mlen mp) as Hdm.
  { unfold mp. rewrite (mlen_days_in m y Hm). destruct (m =? 2) eqn:E; [|lia].
    unfold days_in in Hd. rewrite E in Hd. destruct (is_leap y); lia. }
  assert (is_leap y = leap_yoe yoe \/ 3 <= m) as Hleap.
  { destruct (m <=? 2) eqn:E; [left|right; lia].
    unfold leap_yoe. replace (yoe + 1) with (y + (- era) * 400) by (unfold yoe, y'; lia).
    symmetry. apply is_leap_shift. }
  assert (0 <= doy <= 364 + (if leap_yoe yoe then 1 else 0)) as Hdoy.
  { unfold doy. unfold mlen in Hdm.
    assert (0 <= (153 * mp + 2) / 5 + d - 1 <= 364 \/ (mp = 11 /\ d = 29)) as [C|[Emp Ed]].
    { assert (mp = 0 \/ mp = 1 \/ mp = 2 \/ mp = 3 \/ mp = 4 \/ mp = 5 \/ mp = 6 \/ mp = 7 \/ mp = 8 \/ mp = 9 \/ mp = 10 \/ mp = 11) as C by lia.
      assert (mp = 11 -> d <= 29) as H11.
      { intros E11. assert (m = 2) as Em by (rewrite E11 in Hm'; cbn in Hm'; lia).
        unfold days_in in Hd. rewrite Em in Hd. cbn in Hd. destruct (is_leap y); lia. }
      destruct C as [E|[E|[E|[E|[E|[E|[E|[E|[E|[E|[E|E]]]]]]]]]]]; rewrite E in Hdm |- *; lia. }
    - destruct (leap_yoe yoe); lia.
    - (* 29 February: the year is leap *)
      assert (m = 2) as Em by (rewrite Emp in Hm'; cbn in Hm'; lia).
      unfold days_in in Hd. rewrite Em in Hd. cbn in Hd.
      destruct Hleap as [Hl|Hl]; [|lia]. rewrite Hl in Hd. rewrite Emp, Ed.
      destruct (leap_yoe yoe); [cbn; lia | lia]. }
  destruct (yd_facts yoe doy Hy Hdoy) as [Hyoe Hdoe]. unfold g_yoe in Hyoe, Hdoe.
  destruct (md_facts mp d Hmp Hdm) as [Hmp2 Hd2]. cbv zeta in Hmp2, Hd2. fold doy in Hmp2, Hd2.
  unfold civil_from_days. cbv zeta.
  set (doe := yoe * 365 + yoe / 4 - yoe / 100 + doy) in *.
  assert (doe = 365 * yoe + yoe / 4 - yoe / 100 + doy) as Edoe by (unfold doe; lia).
  rewrite <- Edoe in Hyoe, Hdoe.
  assert ((era * 146097 + doe - 719468 + 719468) / 146097 = era) as -> by lia.
  assert (era * 146097 + doe - 719468 + 719468 - era * 146097 = doe) as -> by lia.
  rewrite Hyoe.
  assert (doe - (365 * yoe + yoe / 4 - yoe / 100) = doy) as -> by lia.
  rewrite Hmp2, Hm'.
  assert (doy - (153 * mp + 2) / 5 + 1 = d) as -> by lia.
  f_equal. f_equal. unfold yoe, y'. destruct (m <=? 2); lia.
Qed.
