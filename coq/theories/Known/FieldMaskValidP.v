(* Proofs about numValidPaths / IsValid / Append / New of the FieldMask model (C44). *)
From Coq Require Import List NArith ZArith Bool Lia Arith.
From Coq Require Import ZifyBool ZifyNat ZifyN.
From PB Require Import Base.PBytes Known.FieldMaskModel Known.FieldMaskP.
Import ListNotations.

(* ------------------------------------------------------------------ numValidPaths / IsValid / Append / New *)
Fixpoint join_on (sep : byte) (segs : list (list byte)) : list byte :=
  match segs with
  | [] => []
  | s :: rest => match rest with [] => s | _ :: _ => s ++ sep :: join_on sep rest end
  end.
Definition join_dots := join_on dot.
Definition nosep (sep : byte) (s : list byte) : Prop := ~ In sep s.
Definition nodot := nosep dot.

Lemma split_on_nonnil sep p : split_on sep p <> [].
Proof.
  destruct p as [|c t]; cbn [split_on]; [discriminate|].
  destruct (beq c sep); [discriminate|]. destruct (split_on sep t); discriminate.
Qed.

Lemma join_on_cons sep s rest : rest <> [] -> join_on sep (s :: rest) = s ++ sep :: join_on sep rest.
Proof. destruct rest; [congruence | reflexivity]. Qed.

Lemma join_split_on sep p : join_on sep (split_on sep p) = p.
Proof.
  induction p as [|c t IH]; cbn [split_on]; [reflexivity|].
  destruct (beq c sep) eqn:E.
  - apply beq_true in E; subst c. rewrite join_on_cons by apply split_on_nonnil. now rewrite IH.
  - pose proof (split_on_nonnil sep t). destruct (split_on sep t) as [|h r] eqn:S; [congruence|].
    destruct r as [|h2 r2].
    + cbn [join_on] in *. now rewrite IH.
    + rewrite join_on_cons in * by discriminate. cbn [app]. now rewrite IH.
Qed.

Lemma split_on_nosep sep p : Forall (nosep sep) (split_on sep p).
Proof.
  induction p as [|c t IH]; cbn [split_on].
  - constructor; [intros []|constructor].
  - destruct (beq c sep) eqn:E.
    + constructor; [intros []|exact IH].
    + pose proof (split_on_nonnil sep t). destruct (split_on sep t) as [|h r]; [congruence|].
      inversion IH; subst. constructor; [|assumption].
      intros [->|Hin]; [now rewrite beq_refl in E | contradiction].
Qed.

Lemma split_on_nosep_seg sep s : nosep sep s -> split_on sep s = [s].
Proof.
  induction s as [|c t IH]; intros H; cbn [split_on]; [reflexivity|].
  destruct (beq c sep) eqn:E; [apply beq_true in E; subst; exfalso; apply H; now left|].
  rewrite IH; [reflexivity|]. intros Hin. apply H. now right.
Qed.

Lemma split_on_app_sep sep s rest : nosep sep s -> split_on sep (s ++ sep :: rest) = s :: split_on sep rest.
Proof.
  induction s as [|c t IH]; intros H; cbn [split_on app].
  - now rewrite beq_refl.
  - destruct (beq c sep) eqn:E; [apply beq_true in E; subst; exfalso; apply H; now left|].
    rewrite IH; [reflexivity|]. intros Hin. apply H. now right.
Qed.

Lemma split_join_on sep segs : segs <> [] -> Forall (nosep sep) segs -> split_on sep (join_on sep segs) = segs.
Proof.
  induction segs as [|s rest IH]; [congruence|]. intros _ H. inversion H; subst.
  cbn [join_on]. destruct rest as [|s' rest'].
  - now apply split_on_nosep_seg.
  - rewrite split_on_app_sep by assumption. f_equal. apply IH; [discriminate | assumption].
Qed.

Lemma split_nonnil p : split_dots p <> [].
Proof. apply split_on_nonnil. Qed.
Lemma join_split p : join_dots (split_dots p) = p.
Proof. apply join_split_on. Qed.
Lemma split_nodot p : Forall nodot (split_dots p).
Proof. apply split_on_nosep. Qed.
Lemma split_join segs : segs <> [] -> Forall nodot segs -> split_dots (join_dots segs) = segs.
Proof. apply split_join_on. Qed.

(* segment [seg] names field [fd] of message [md]: by its field name, except that a
   group-kind field is named by its message name (and only when the field name is
   the lower-cased message name or the message name itself) *)
Definition names (sc : schema) (md : nat) (seg : list byte) (fd : field) : Prop :=
  exists m, nth_error sc md = Some m /\
  ((by_name (m_fields m) seg = Some fd /\
    (forall r, f_kind fd = KGroup r -> msg_name_is sc r seg = true)) \/
   (by_name (m_fields m) seg = None /\ by_name (m_fields m) (lower seg) = Some fd /\
    exists r, f_kind fd = KGroup r /\ msg_name_is sc r seg = true)).

Lemma lookup_seg_names sc md seg fd : lookup_seg sc md seg = Some fd <-> names sc md seg fd.
Proof.
  unfold lookup_seg, names. destruct (nth_error sc md) as [m|].
  2:{ split; [discriminate | intros [m [H _]]; discriminate]. }
  split.
  - intros H. exists m. split; [reflexivity|].
    destruct (by_name (m_fields m) seg) as [f|] eqn:B.
    + left. destruct (f_kind f) eqn:K.
      * inversion H; subst. split; [reflexivity|]. intros r Hr. congruence.
      * inversion H; subst. split; [reflexivity|]. intros r Hr. congruence.
      * destruct (msg_name_is sc ref seg) eqn:M; [|discriminate]. inversion H; subst.
        split; [reflexivity|]. intros r Hr. congruence.
    + right. split; [reflexivity|].
      destruct (by_name (m_fields m) (lower seg)) as [g|]; [|discriminate].
      destruct (f_kind g) eqn:K; try discriminate.
      destruct (msg_name_is sc ref seg) eqn:M; [|discriminate]. inversion H; subst. eauto.
  - intros [m' [E H]]. inversion E; subst m'. clear E.
    destruct H as [[B G]|[B [L [r [K M]]]]].
    + rewrite B. destruct (f_kind fd) eqn:K; try reflexivity. now rewrite (G _ eq_refl).
    + rewrite B, L, K, M. reflexivity.
Qed.

(* the segments name a chain of fields; every non-final one is a singular message field *)
Inductive reach (sc : schema) : nat -> list (list byte) -> Prop :=
| reach_last md seg fd : names sc md seg fd -> reach sc md [seg]
| reach_step md seg fd md' rest :
    names sc md seg fd -> f_rep fd = false -> kind_msg (f_kind fd) = Some md' ->
    rest <> [] -> reach sc md' rest -> reach sc md (seg :: rest).

Lemma walk_reach sc segs : segs <> [] -> forall md, walk sc (Some md) segs = true <-> reach sc md segs.
Proof.
  induction segs as [|seg rest IH]; [congruence|]. intros _ md. cbn [walk].
  split.
  - destruct (lookup_seg sc md seg) as [fd|] eqn:L; [|discriminate].
    apply lookup_seg_names in L. destruct rest as [|s2 r2]; [intros _; eapply reach_last; eauto|].
    destruct (f_rep fd) eqn:R; [cbn [walk]; discriminate|].
    destruct (kind_msg (f_kind fd)) as [md'|] eqn:K; [|cbn [walk]; discriminate].
    intros H. eapply reach_step; eauto; [discriminate|]. apply IH; [discriminate | exact H].
  - intros H. inversion H; subst.
    + apply lookup_seg_names in H2. rewrite H2. reflexivity.
    + apply lookup_seg_names in H2. rewrite H2, H3, H4. apply IH; assumption.
Qed.

Theorem valid_paths_exact sc root p :
  path_valid sc root p = true <->
  exists segs, segs <> [] /\ Forall nodot segs /\ p = join_dots segs /\ reach sc root segs.
Proof.
  unfold path_valid. rewrite walk_reach by apply split_nonnil. split.
  - intros H. exists (split_dots p). repeat split; auto using split_nonnil, split_nodot.
    now rewrite join_split.
  - intros [segs [H1 [H2 [-> H4]]]]. now rewrite split_join.
Qed.

(* when no field is of group kind a segment simply is a field name *)
Lemma names_plain sc md seg fd :
  (forall m f r, In m sc -> In f (m_fields m) -> f_kind f <> KGroup r) ->
  (names sc md seg fd <-> exists m, nth_error sc md = Some m /\ by_name (m_fields m) seg = Some fd).
Proof.
  intros NG. unfold names.
  assert (forall fs n f, by_name fs n = Some f -> In f fs) as BIn.
  { induction fs as [|g t IH]; cbn [by_name]; [discriminate|]. intros n f.
    destruct (bytes_eqb (f_name g) n); [intros H; inversion H; now left | intros H; right; eauto]. }
  split.
  - intros [m [E [[B _]|[_ [L [r [K _]]]]]]]; [eauto|].
    exfalso. eapply NG; eauto using nth_error_In.
  - intros [m [E B]]. exists m. split; [exact E|]. left. split; [exact B|].
    intros r K. exfalso. eapply NG; eauto using nth_error_In.
Qed.

Lemma num_valid_le sc root paths : (num_valid_paths sc root paths <= length paths)%nat.
Proof. induction paths; cbn [num_valid_paths length]; [lia|]. destruct (path_valid sc root a); lia. Qed.

(* numValidPaths = length of the longest prefix of valid paths *)
Theorem num_valid_paths_spec sc root paths :
  let n := num_valid_paths sc root paths in
  Forall (fun p => path_valid sc root p = true) (firstn n paths) /\
  (forall p, nth_error paths n = Some p -> path_valid sc root p = false).
Proof.
  induction paths as [|a t IH]; cbn [num_valid_paths].
  - split; [constructor | intros p H; discriminate].
  - destruct (path_valid sc root a) eqn:V.
    + cbn [firstn nth_error]. destruct IH as [IH1 IH2]. split; [constructor; auto | exact IH2].
    + cbn [firstn nth_error]. split; [constructor | intros p H; now inversion H; subst].
Qed.

Theorem is_valid_exact sc root paths :
  fm_is_valid sc root paths = true <-> Forall (fun p => path_valid sc root p = true) paths.
Proof.
  unfold fm_is_valid. rewrite Nat.eqb_eq.
  induction paths as [|a t IH]; cbn [num_valid_paths length].
  - split; [constructor | reflexivity].
  - destruct (path_valid sc root a) eqn:V.
    + split; [intros H; constructor; [exact V | apply IH; lia] | intros H; inversion H; subst; f_equal; now apply IH].
    + split; [discriminate | intros H; inversion H; congruence].
Qed.

Theorem append_exact sc root have paths :
  let '(out, err) := fm_append sc root have paths in
  exists pre post, paths = pre ++ post /\ out = have ++ pre /\
    Forall (fun p => path_valid sc root p = true) pre /\
    (err = false <-> post = []) /\
    (forall p post', post = p :: post' -> path_valid sc root p = false).
Proof.
  unfold fm_append. set (n := num_valid_paths sc root paths).
  exists (firstn n paths), (skipn n paths).
  destruct (num_valid_paths_spec sc root paths) as [H1 H2]. fold n in H1, H2.
  pose proof (num_valid_le sc root paths) as Hle. fold n in Hle.
  repeat split.
  - now rewrite firstn_skipn.
  - exact H1.
  - rewrite negb_false_iff, Nat.eqb_eq. intros ->. apply skipn_all.
  - intros H. rewrite negb_false_iff, Nat.eqb_eq.
    assert (length (skipn n paths) = 0%nat) by now rewrite H. rewrite skipn_length in H0. lia.
  - intros p post' H. apply H2. rewrite <- (firstn_skipn n paths) at 1.
    rewrite nth_error_app2; rewrite firstn_length_le by exact Hle; [|lia].
    now rewrite Nat.sub_diag, H.
Qed.
