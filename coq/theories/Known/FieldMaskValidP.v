(* Proofs about numValidPaths / IsValid / Append / New of the FieldMask model (C44). *)
From Coq Require Import List NArith ZArith Bool Lia Arith.
From Coq Require Import ZifyBool ZifyNat ZifyN.
From PB Require Import Base.PBytes Known.FieldMaskModel Known.FieldMaskP.
Import ListNotations.

(* ------------------------------------------------------------------ numValidPaths / IsValid / Append / New *)
Fixpoint join_on (sep : byte) (segs : list (list byte)) : list byte :=
  match segs with
  | [] => []
  | s :: rest => match rest with [] => s | _ :: _ => s ++ sep :: join_on sep rest end
  end.
Definition join_dots := join_on dot.
Definition nosep (sep : byte) (s : list byte) : Prop := ~ In sep s.
Definition nodot := nosep dot.

Lemma split_on_nonnil sep p : split_on sep p <> [].
Proof.
  destruct p as [|c t]; cbn [split_on]; [discriminate|].
  destruct (beq c sep); [discriminate|]. destruct (split_on sep t); discriminate.
Qed.

Lemma join_on_cons sep s rest : rest <> [] -> join_on sep (s :: rest) = s ++ sep :: join_on sep rest.
Proof. destruct rest; [congruence | reflexivity]. Qed.

Lemma join_split_on sep p : join_on sep (split_on sep p) = p.
Proof.
  induction p as [|c t IH]; cbn [split_on]; [reflexivity|].
  destruct (beq c sep) eqn:E.
  - apply beq_true in E; subst c. rewrite join_on_cons by apply split_on_nonnil. now rewrite IH.
  - pose proof (split_on_nonnil sep t). destruct (split_on sep t) as [|h r] eqn:S; [congruence|].
    destruct r as [|h2 r2].
    + cbn [join_on] in *. now rewrite IH.
    + rewrite join_on_cons in * by discriminate. cbn [app]. now rewrite IH.
Qed.

Lemma split_on_nosep sep p : Forall (nosep sep) (split_on sep p).
Proof.
  induction p as [|c t IH]; cbn [split_on].
  - constructor; [intros []|constructor].
  - destruct (beq c sep) eqn:E.
    + constructor; [intros []|exact IH].
    + pose proof (split_on_nonnil sep t). destruct (split_on sep t) as [|h r]; [congruence|].
      inversion IH; subst. constructor; [|assumption].
      intros [->|Hin]; [now rewrite beq_refl in E | contradiction].
Qed.

Lemma split_on_nosep_seg sep s : nosep sep s -> split_on sep s = [s].
Proof.
  induction s as [|c t IH]; intros H; cbn [split_on]; [reflexivity|].
  destruct (beq c sep) eqn:E; [apply beq_true in E; subst; exfalso; apply H; now left|].
  rewrite IH; [reflexivity|]. intros Hin. apply H. now right.
Qed.

Lemma split_on_app_sep sep s rest : nosep sep s -> split_on sep (s ++ sep :: rest) = s :: split_on sep rest.
Proof.
  induction s as [|c t IH]; intros H; cbn [split_on app].
  - now rewrite beq_refl.
  - destruct (beq c sep) eqn:E; [apply beq_true in E; subst; exfalso; apply H; now left|].
    rewrite IH; [reflexivity|]. intros Hin. apply H. now right.
Qed.

Lemma split_join_on sep segs : segs <> [] -> Forall (nosep sep) segs -> split_on sep (join_on sep segs) = segs.
Proof.
  induction segs as [|s rest IH]; [congruence|]. intros _ H. inversion H; subst.
  cbn [join_on]. destruct rest as [|s' rest'].
  - now apply split_on_nosep_seg.
  - rewrite split_on_app_sep by assumption. f_equal. apply IH; [discriminate | assumption].
Qed.

Lemma split_nonnil p : split_dots p <> [].
Proof. apply split_on_nonnil. Qed.
Lemma join_split p : join_dots (split_dots p) = p.
Proof. apply join_split_on. Qed.
Lemma split_nodot p : Forall nodot (split_dots p).
Proof. apply split_on_nosep. Qed.
Lemma split_join segs : segs <> [] -> Forall nodot segs -> split_dots (join_dots segs) = segs.
Proof. apply split_join_on. Qed.

(* the code's rule: segment [seg] selects field [fd] of message [md] *)
Definition names (sc : schema) (md : nat) (seg : list byte) (fd : field) : Prop :=
  exists m, nth_error sc md = Some m /\
  ((by_name (m_fields m) seg = Some fd /\ f_text fd = seg) \/
   (by_name (m_fields m) seg = None /\ by_name (m_fields m) (lower seg) = Some fd /\ f_text fd = seg)).

Lemma lookup_seg_names sc md seg fd : lookup_seg sc md seg = Some fd <-> names sc md seg fd.
Proof.
  unfold lookup_seg, names. destruct (nth_error sc md) as [m|].
  2:{ split; [discriminate | intros [m [H _]]; discriminate]. }
  split.
  - intros H. exists m. split; [reflexivity|].
    destruct (by_name (m_fields m) seg) as [f|] eqn:B.
    + left. destruct (bytes_eqb (f_text f) seg) eqn:T; [|discriminate]. inversion H; subst.
      split; [reflexivity | now apply bytes_eqb_true].
    + right. split; [reflexivity|].
      destruct (by_name (m_fields m) (lower seg)) as [g|]; [|discriminate].
      destruct (bytes_eqb (f_text g) seg) eqn:T; [|discriminate]. inversion H; subst.
      split; [reflexivity | now apply bytes_eqb_true].
  - intros [m' [E H]]. inversion E; subst m'. clear E.
    destruct H as [[B T]|[B [L T]]].
    + rewrite B. apply bytes_eqb_true in T. now rewrite T.
    + rewrite B, L. apply bytes_eqb_true in T. now rewrite T.
Qed.

(* the property's rule: [seg] is the text-format name of a field of the message *)
Definition names_text (sc : schema) (md : nat) (seg : list byte) (fd : field) : Prop :=
  exists m, nth_error sc md = Some m /\ In fd (m_fields m) /\ f_text fd = seg.

(* the segments name a chain of fields; every non-final one is a singular message field *)
Inductive reachN (N : nat -> list byte -> field -> Prop) : nat -> list (list byte) -> Prop :=
| reach_last md seg fd : N md seg fd -> reachN N md [seg]
| reach_step md seg fd md' rest :
    N md seg fd -> f_rep fd = false -> kind_msg (f_kind fd) = Some md' ->
    rest <> [] -> reachN N md' rest -> reachN N md (seg :: rest).
Definition reach (sc : schema) := reachN (names sc).
Definition reach_text (sc : schema) := reachN (names_text sc).

Lemma walk_reach sc segs : segs <> [] -> forall md, walk sc (Some md) segs = true <-> reach sc md segs.
Proof.
  induction segs as [|seg rest IH]; [congruence|]. intros _ md. cbn [walk].
  split.
  - destruct (lookup_seg sc md seg) as [fd|] eqn:L; [|discriminate].
    apply lookup_seg_names in L. destruct rest as [|s2 r2]; [intros _; eapply (reach_last (names sc)); eauto|].
    destruct (f_rep fd) eqn:R; [cbn [walk]; discriminate|].
    destruct (kind_msg (f_kind fd)) as [md'|] eqn:K; [|cbn [walk]; discriminate].
    intros H. eapply (reach_step (names sc)); eauto; [discriminate|]. apply IH; [discriminate | exact H].
  - intros H. inversion H; subst.
    + apply lookup_seg_names in H2. rewrite H2. reflexivity.
    + apply lookup_seg_names in H2. rewrite H2, H3, H4. apply IH; assumption.
Qed.

Theorem valid_paths_exact sc root p :
  path_valid sc root p = true <->
  exists segs, segs <> [] /\ Forall nodot segs /\ p = join_dots segs /\ reach sc root segs.
Proof.
  unfold path_valid. rewrite walk_reach by apply split_nonnil. split.
  - intros H. exists (split_dots p). repeat split; auto using split_nonnil, split_nodot.
    now rewrite join_split.
  - intros [segs [H1 [H2 [-> H4]]]]. now rewrite split_join.
Qed.

Lemma num_valid_le sc root paths : (num_valid_paths sc root paths <= length paths)%nat.
Proof. induction paths; cbn [num_valid_paths length]; [lia|]. destruct (path_valid sc root a); lia. Qed.

(* numValidPaths = length of the longest prefix of valid paths *)
Theorem num_valid_paths_spec sc root paths :
  let n := num_valid_paths sc root paths in
  Forall (fun p => path_valid sc root p = true) (firstn n paths) /\
  (forall p, nth_error paths n = Some p -> path_valid sc root p = false).
Proof.
  induction paths as [|a t IH]; cbn [num_valid_paths].
  - split; [constructor | intros p H; discriminate].
  - destruct (path_valid sc root a) eqn:V.
    + cbn [firstn nth_error]. destruct IH as [IH1 IH2]. split; [constructor; auto | exact IH2].
    + cbn [firstn nth_error]. split; [constructor | intros p H; now inversion H; subst].
Qed.

Theorem is_valid_exact sc root paths :
  fm_is_valid sc root paths = true <-> Forall (fun p => path_valid sc root p = true) paths.
Proof.
  unfold fm_is_valid. rewrite Nat.eqb_eq.
  induction paths as [|a t IH]; cbn [num_valid_paths length].
  - split; [constructor | reflexivity].
  - destruct (path_valid sc root a) eqn:V.
    + split; [intros H; constructor; [exact V | apply IH; lia] | intros H; inversion H; subst; f_equal; now apply IH].
    + split; [discriminate | intros H; inversion H; congruence].
Qed.

Theorem append_exact sc root have paths :
  let '(out, err) := fm_append sc root have paths in
  exists pre post, paths = pre ++ post /\ out = have ++ pre /\
    Forall (fun p => path_valid sc root p = true) pre /\
    (err = false <-> post = []) /\
    (forall p post', post = p :: post' -> path_valid sc root p = false).
Proof.
  unfold fm_append. set (n := num_valid_paths sc root paths).
  exists (firstn n paths), (skipn n paths).
  destruct (num_valid_paths_spec sc root paths) as [H1 H2]. fold n in H1, H2.
  pose proof (num_valid_le sc root paths) as Hle. fold n in Hle.
  repeat split.
  - now rewrite firstn_skipn.
  - exact H1.
  - rewrite negb_false_iff, Nat.eqb_eq. intros ->. apply skipn_all.
  - intros H. rewrite negb_false_iff, Nat.eqb_eq.
    assert (length (skipn n paths) = 0%nat) by now rewrite H. rewrite skipn_length in H0. lia.
  - intros p post' H. apply H2. rewrite <- (firstn_skipn n paths) at 1.
    rewrite nth_error_app2; rewrite firstn_length_le by exact Hle; [|lia].
    now rewrite Nat.sub_diag, H.
Qed.

(* ------------------------------------------------------------------ text-format names (F16, repaired) *)
(* Descriptor well-formedness as far as path lookup is concerned: field names and text names
   are unique within a message, and TextName is the field name or (group-like fields) a
   message name whose lower-casing is the field name. *)
Definition schema_wf (sc : schema) : Prop :=
  forall m, In m sc ->
    NoDup (map f_name (m_fields m)) /\ NoDup (map f_text (m_fields m)) /\
    forall f, In f (m_fields m) -> f_text f = f_name f \/ lower (f_text f) = f_name f.

Lemma by_name_some fs n f : by_name fs n = Some f -> In f fs /\ f_name f = n.
Proof.
  induction fs as [|g t IH]; cbn [by_name]; [discriminate|].
  destruct (bytes_eqb (f_name g) n) eqn:E.
  - intros H; inversion H; subst. split; [now left | now apply bytes_eqb_true].
  - intros H. destruct (IH H). split; [now right | assumption].
Qed.
Lemma by_name_unique fs f : NoDup (map f_name fs) -> In f fs -> by_name fs (f_name f) = Some f.
Proof.
  induction fs as [|g t IH]; [intros _ []|]. cbn [map by_name]. intros ND Hin. inversion ND; subst.
  destruct (bytes_eqb (f_name g) (f_name f)) eqn:E.
  - apply bytes_eqb_true in E. destruct Hin as [->|Hin]; [reflexivity|].
    exfalso. apply H1. rewrite E. now apply in_map.
  - destruct Hin as [->|Hin]; [|now apply IH].
    assert (bytes_eqb (f_name f) (f_name f) = true) by now apply bytes_eqb_true. congruence.
Qed.

Lemma lower_byte_idem b : lower_byte (lower_byte b) = lower_byte b.
Proof. destruct b; reflexivity. Qed.
Lemma lower_idem s : lower (lower s) = lower s.
Proof. unfold lower. rewrite map_map. apply map_ext. apply lower_byte_idem. Qed.

Lemma nodup_map_inj {A B} (f : A -> B) l x y : NoDup (map f l) -> In x l -> In y l -> f x = f y -> x = y.
Proof.
  induction l as [|a t IH]; [intros _ []|]. cbn [map]. intros ND Hx Hy E. inversion ND; subst.
  destruct Hx as [->|Hx], Hy as [->|Hy]; auto.
  - exfalso. apply H1. rewrite E. now apply in_map.
  - exfalso. apply H1. rewrite <- E. now apply in_map.
Qed.

(* the code's lookup (ByName, then ByName(ToLower), each checked against TextName) finds
   exactly the field whose text-format name is the segment *)
Theorem names_text_exact sc md seg fd : schema_wf sc -> (names sc md seg fd <-> names_text sc md seg fd).
Proof.
  intros WF. unfold names, names_text. split.
  - intros [m [Em H]]. exists m. split; [exact Em|].
    destruct H as [[B T]|[_ [L T]]].
    + destruct (by_name_some _ _ _ B). auto.
    + destruct (by_name_some _ _ _ L). auto.
  - intros [m [Em [Hin T]]]. exists m. split; [exact Em|].
    destruct (WF m (nth_error_In _ _ Em)) as [ND1 [ND2 TX]].
    destruct (TX fd Hin) as [Hn|Hn].
    + left. rewrite <- T, Hn. split; [now apply by_name_unique | congruence].
    + rewrite T in Hn.
      destruct (by_name (m_fields m) seg) as [g|] eqn:B.
      * left. destruct (by_name_some _ _ _ B) as [Hg Hgn].
        assert (g = fd) as ->; [|auto].
        destruct (TX g Hg) as [Tg|Tg].
        -- apply (nodup_map_inj f_text (m_fields m)); auto. congruence.
        -- apply (nodup_map_inj f_name (m_fields m)); auto.
           rewrite <- Hn, Hgn. rewrite <- Hgn, <- Tg. symmetry. apply lower_idem.
      * right. split; [reflexivity|]. split; [|exact T]. rewrite Hn. now apply by_name_unique.
Qed.

Lemma reachN_iff (N1 N2 : nat -> list byte -> field -> Prop) :
  (forall md seg fd, N1 md seg fd <-> N2 md seg fd) -> forall md segs, reachN N1 md segs <-> reachN N2 md segs.
Proof.
  intros H md segs. split; induction 1.
  - eapply reach_last. apply H; eauto.
  - eapply reach_step; eauto. apply H; eauto.
  - eapply reach_last. apply H; eauto.
  - eapply reach_step; eauto. apply H; eauto.
Qed.

(* New / Append / IsValid accept exactly the paths whose segments are the text-format names of
   a chain of fields in which every non-final field is a singular message field *)
Theorem valid_paths_text_name_exact sc root p :
  schema_wf sc ->
  (path_valid sc root p = true <->
   exists segs, segs <> [] /\ Forall nodot segs /\ p = join_dots segs /\ reach_text sc root segs).
Proof.
  intros WF. rewrite valid_paths_exact. unfold reach, reach_text.
  split; intros [segs [H1 [H2 [H3 H4]]]]; exists segs; repeat split; auto;
    eapply reachN_iff; try exact H4; intros; [symmetry|]; now apply names_text_exact.
Qed.
