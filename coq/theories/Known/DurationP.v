(* Proofs about the durationpb helper model (C43). *)
From Coq Require Import ZArith Bool Lia.
From Coq Require Import ZifyBool.
From PB Require Import Known.DurationModel.
Open Scope Z_scope.
Ltac Zify.zify_post_hook ::= Z.to_euclidean_division_equations.

Ltac split_ifs :=
  repeat match goal with |- context[if ?c then _ else _] => destruct c eqn:? end; lia.

Lemma wrap64_id z : in_int64 z -> wrap64 z = z.
Proof. unfold in_int64, min_int64, max_int64, wrap64. intros H. lia. Qed.
Lemma wrap32_id z : in_int32 z -> wrap32 z = z.
Proof. unfold in_int32, min_int32, max_int32, wrap32. intros H. lia. Qed.
Lemma wrap64_range z : in_int64 (wrap64 z).
Proof. unfold in_int64, min_int64, max_int64, wrap64. lia. Qed.
Lemma wrap64_cong z : exists k, wrap64 z = z + k * 2^64.
Proof. unfold wrap64. exists (- ((z + 2^63) / 2^64)). lia. Qed.

(* New computes the truncated quotient and remainder: no operation wraps *)
Lemma dur_new_spec d : in_int64 d -> dur_new d = (Z.quot d e9, Z.rem d e9).
Proof.
  intros H. unfold dur_new, e9 in *. unfold in_int64, min_int64, max_int64 in H.
  assert (in_int64 (Z.quot d 1000000000 * 1000000000)) as H1 by (unfold in_int64, min_int64, max_int64; lia).
  rewrite (wrap64_id _ H1).
  assert (d - Z.quot d 1000000000 * 1000000000 = Z.rem d 1000000000) as -> by lia.
  assert (in_int64 (Z.rem d 1000000000)) as H2 by (unfold in_int64, min_int64, max_int64; lia).
  rewrite (wrap64_id _ H2).
  rewrite wrap32_id; [reflexivity|]. unfold in_int32, min_int32, max_int32. lia.
Qed.

Theorem duration_new_as_inverse d :
  in_int64 d -> let '(s, n) := dur_new d in as_duration s n = d.
Proof.
  intros H. rewrite (dur_new_spec d H).
  unfold in_int64, min_int64, max_int64 in H.
  unfold as_duration, e9.
  set (s := Z.quot d 1000000000). set (n := Z.rem d 1000000000).
  assert (d = s * 1000000000 + n) as Hd by (unfold s, n; lia).
  assert (-1000000000 < n < 1000000000) as Hn by (unfold n; lia).
  assert (0 <= d -> 0 <= s /\ 0 <= n) as Hp by (unfold s, n; lia).
  assert (d <= 0 -> s <= 0 /\ n <= 0) as Hm by (unfold s, n; lia).
  assert (in_int64 (s * 1000000000)) as H1 by (unfold in_int64, min_int64, max_int64; lia).
  rewrite (wrap64_id _ H1).
  assert (Z.quot (s * 1000000000) 1000000000 = s) as -> by (apply Z.quot_mul; lia).
  rewrite Z.eqb_refl. cbn [negb orb].
  assert (in_int64 (s * 1000000000 + n)) as H2 by (unfold in_int64, min_int64, max_int64; lia).
  rewrite (wrap64_id _ H2). rewrite <- Hd.
  assert (((s <? 0) && (n <? 0) && (0 <? d)) = false) as -> by lia.
  assert (((0 <? s) && (0 <? n) && (d <? 0)) = false) as -> by lia.
  reflexivity.
Qed.

(* what AsDuration computes, by cases on the exact product *)
Lemma as_duration_product_in_range secs nanos :
  in_int64 secs -> in_int32 nanos -> in_int64 (secs * e9) ->
  as_duration secs nanos = clamp64 (secs * e9 + nanos).
Proof.
  unfold in_int64, in_int32, min_int64, max_int64, min_int32, max_int32, e9.
  intros Hs Hn Hp. unfold as_duration, e9.
  assert (wrap64 (secs * 1000000000) = secs * 1000000000) as -> by (apply wrap64_id; unfold in_int64, min_int64, max_int64; lia).
  assert (Z.quot (secs * 1000000000) 1000000000 = secs) as -> by (apply Z.quot_mul; lia).
  rewrite Z.eqb_refl. cbn [negb orb].
  unfold clamp64, min_int64, max_int64.
  destruct (wrap64_cong (secs * 1000000000 + nanos)) as [k Hk].
  pose proof (wrap64_range (secs * 1000000000 + nanos)) as Hr.
  unfold in_int64, min_int64, max_int64 in Hr.
  set (w := wrap64 (secs * 1000000000 + nanos)) in *.
  destruct (Z_lt_dec (secs * 1000000000 + nanos) (- 2 ^ 63)) as [L|L].
  - assert (k = 1) by lia. subst k.
    assert ((secs <? 0) && (nanos <? 0) && (0 <? w) = true) as -> by lia.
    cbn [orb]. assert (secs <? 0 = true) as -> by lia.
    assert (secs * 1000000000 + nanos <? - 2 ^ 63 = true) as -> by lia. reflexivity.
  - destruct (Z_lt_dec (2 ^ 63 - 1) (secs * 1000000000 + nanos)) as [G|G].
    + assert (k = -1) by lia. subst k.
      assert ((secs <? 0) && (nanos <? 0) && (0 <? w) = false) as -> by lia.
      assert ((0 <? secs) && (0 <? nanos) && (w <? 0) = true) as -> by lia.
      cbn [orb]. assert (secs <? 0 = false) as -> by lia. assert (0 <? secs = true) as -> by lia.
      assert (secs * 1000000000 + nanos <? - 2 ^ 63 = false) as -> by lia.
      assert (2 ^ 63 - 1 <? secs * 1000000000 + nanos = true) as -> by lia. reflexivity.
    + assert (k = 0) by lia. subst k.
      assert ((secs <? 0) && (nanos <? 0) && (0 <? w) = false) as -> by lia.
      assert ((0 <? secs) && (0 <? nanos) && (w <? 0) = false) as -> by lia.
      cbn [orb].
      assert (secs * 1000000000 + nanos <? - 2 ^ 63 = false) as -> by lia.
      assert (2 ^ 63 - 1 <? secs * 1000000000 + nanos = false) as -> by lia. lia.
Qed.

Lemma as_duration_product_overflows secs nanos :
  in_int64 secs -> in_int32 nanos -> ~ in_int64 (secs * e9) ->
  as_duration secs nanos = if secs <? 0 then min_int64 else max_int64.
Proof.
  unfold in_int64, in_int32, min_int64, max_int64, min_int32, max_int32, e9.
  intros Hs Hn Hp. unfold as_duration, e9.
  destruct (wrap64_cong (secs * 1000000000)) as [k Hk].
  pose proof (wrap64_range (secs * 1000000000)) as Hr.
  unfold in_int64, min_int64, max_int64 in Hr.
  set (w := wrap64 (secs * 1000000000)) in *.
  assert (k <> 0) as Hk0 by lia.
  assert ((Z.quot w 1000000000 =? secs) = false) as ->.
  { apply Z.eqb_neq. intros E.
    assert (-1000000000 < w - secs * 1000000000 < 1000000000) by (rewrite <- E; lia).
    lia. }
  cbn [negb orb]. unfold min_int64, max_int64.
  destruct (secs <? 0) eqn:E1; [reflexivity|].
  assert (0 <? secs = true) as -> by lia. reflexivity.
Qed.

Theorem as_duration_exact_clamped_except_F4 secs nanos :
  in_int64 secs -> in_int32 nanos -> f4_class secs nanos = false ->
  as_duration secs nanos = clamp64 (secs * e9 + nanos).
Proof.
  intros Hs Hn HF.
  destruct (in_int64b (secs * e9)) eqn:E.
  - apply as_duration_product_in_range; auto. unfold in_int64b, in_int64 in *. lia.
  - rewrite as_duration_product_overflows; auto; [|unfold in_int64b, in_int64 in *; lia].
    unfold f4_class, in_int64b, clamp64, in_int64, in_int32, min_int64, max_int64, min_int32, max_int32, e9 in *.
    destruct (secs <? 0) eqn:E1;
      destruct (secs * 1000000000 + nanos <? - 2 ^ 63) eqn:E2;
      destruct (2 ^ 63 - 1 <? secs * 1000000000 + nanos) eqn:E3; lia.
Qed.

(* the exclusion is exact: on every input of the class the result is NOT the clamped exact value *)
Theorem as_duration_wrong_on_F4 secs nanos :
  in_int64 secs -> in_int32 nanos -> f4_class secs nanos = true ->
  as_duration secs nanos <> clamp64 (secs * e9 + nanos).
Proof.
  intros Hs Hn HF.
  rewrite as_duration_product_overflows; auto;
    unfold f4_class, in_int64b, clamp64, in_int64, in_int32, min_int64, max_int64, min_int32, max_int32, e9 in *; [|lia].
  destruct (secs <? 0) eqn:E1;
    destruct (secs * 1000000000 + nanos <? - 2 ^ 63) eqn:E2;
    destruct (2 ^ 63 - 1 <? secs * 1000000000 + nanos) eqn:E3; lia.
Qed.

Theorem as_duration_exact_clamped_refuted :
  exists secs nanos, in_int64 secs /\ in_int32 nanos /\
    as_duration secs nanos <> clamp64 (secs * e9 + nanos) /\
    as_duration secs nanos = max_int64 /\ secs * e9 + nanos = 9223372036000000001 /\
    in_int64 (secs * e9 + nanos).
Proof.
  exists 9223372037, (-999999999).
  unfold in_int64, in_int32. vm_compute. repeat split; congruence.
Qed.

Theorem as_duration_exact_clamped_refuted_mirror :
  as_duration (-9223372037) 999999999 = min_int64 /\
  clamp64 (-9223372037 * e9 + 999999999) = -9223372036000000001.
Proof. vm_compute. split; reflexivity. Qed.

(* the class is tiny: |secs| within 3 of MaxInt64/10^9, signs opposite *)
Lemma f4_class_narrow secs nanos :
  in_int32 nanos -> f4_class secs nanos = true ->
  (9223372037 <= secs <= 9223372039 /\ nanos < -145224192) \/
  (-9223372039 <= secs <= -9223372037 /\ 145224192 < nanos).
Proof.
  unfold f4_class, in_int32, min_int64, max_int64, min_int32, max_int32, e9. lia.
Qed.

Theorem dur_check_ranges_exact secs nanos :
  dur_check secs nanos = 0 <->
  (- 315576000000 <= secs <= 315576000000 /\ - 999999999 <= nanos <= 999999999 /\
   ~ (secs > 0 /\ nanos < 0) /\ ~ (secs < 0 /\ nanos > 0)).
Proof. unfold dur_check, abs_duration, e9. split_ifs. Qed.

Theorem dur_check_classes secs nanos :
  (dur_check secs nanos = 2 <-> secs < -315576000000) /\
  (dur_check secs nanos = 3 <-> secs > 315576000000) /\
  (dur_check secs nanos = 4 <-> -315576000000 <= secs <= 315576000000 /\ (nanos <= -1000000000 \/ nanos >= 1000000000)).
Proof. unfold dur_check, abs_duration, e9. split_ifs. Qed.

(* below the int64 limit no clamping happens (a *valid* Duration of up to 10000 years
   may well exceed time.Duration's range of about 292 years and is then clamped) *)
Theorem as_duration_small_exact secs nanos :
  - 9223372034 <= secs <= 9223372034 -> in_int32 nanos -> as_duration secs nanos = secs * e9 + nanos.
Proof.
  intros H Hn.
  rewrite as_duration_product_in_range; auto;
    unfold clamp64, in_int64, in_int32, min_int64, max_int64, min_int32, max_int32, e9 in *; try lia.
  destruct (secs * 1000000000 + nanos <? - 2 ^ 63) eqn:E2;
    destruct (2 ^ 63 - 1 <? secs * 1000000000 + nanos) eqn:E3; lia.
Qed.
