(* C18 — model of the publication protocol used by readers of a lazily decoded
   message (definitions only; proofs are in LazyCasP.v).

   Code modelled (reader side only; Unmarshal has finished before readers start):

     generated getter (cmd/protoc-gen-go/internal_gengo/opaque.go, e.g. lazy_opaque.Node.GetNested)
       if Present(&x.XXX_presence[0], i) {                  -- ACall f        (presence bitmap is fixed)
         if AtomicCheckPointerIsNil(&x.xxx_hidden_F) {      -- ACheckNil b    (atomic load)
           UnmarshalField(x, num)                           -- impl.lazyUnmarshal, below
         }
         AtomicLoadPointer(&x.xxx_hidden_F, &rv); return rv -- ALoad          (atomic load)
       }
       return nil
     (the reflection getters of internal/impl/message_opaque.go, merge.go, encode.go and
      checkinit.go run the same sequence: AtomicGetPointer; if nil lazyUnmarshal; AtomicGetPointer)

     impl.lazyUnmarshal (internal/impl/lazy.go)
       lazy.FindFieldInProto(num)       (internal/protolazy/lazy.go)
          index := atomicLoadIndex(&lazy.index)             -- AIdxLoad b
          if index == nil { r := buildIndex(lazy.Protobuf)  -- AIdxBuild      (private, deterministic)
                            atomicStoreIndex(&lazy.index,&r) } -- AIdxStore   (plain atomic store: benign duplicates)
       fp := reflect.New(f.ft)                              -- allocation of a fresh private object
       mi.unmarshalField(buffer[start:end], fp, ...)        -- ADecode *      (private writes, one step per part)
       p.Apply(f.offset).AtomicSetPointerIfNil(fp.Elem())   -- ACas won       (CAS nil -> fp)

   The heap is explicit: a pointer is an allocation number, [heap] maps it to the
   parts written so far, so "a reader never sees a partially filled object" is a
   statement about the heap cell behind every published / returned pointer.

   Any number of threads; a thread performs any sequence of getter calls on any
   fields.  Fields are numbered by [nat] (the harness numbers the lazy field
   *paths* of a message tree); [msg_of f] is the message whose lazy info / index
   cell the field belongs to. *)
From Coq Require Import List Arith NArith Bool.
Import ListNotations.

Record config := {
  present    : nat -> bool;        (* presence bit of field f, fixed by Unmarshal *)
  msg_of     : nat -> nat;         (* message (index cell) that holds field f *)
  preindexed : nat -> bool;        (* Unmarshal already stored the index of message m (SetIndex) *)
  build_index: nat -> N;           (* buildIndex(lazy.Protobuf) of message m: a deterministic value *)
  dec        : N -> nat -> list N  (* unmarshalField of field f's byte range as located through an
                                      index value: the parts of the decoded object, in writing order *)
}.

(* the result a sequential program obtains for field f: build/lookup the index, decode the range *)
Definition seq_result (c : config) (f : nat) : list N :=
  dec c (build_index c (msg_of c f)) f.

Inductive pc := Idle | PCheck | PIdxLoad | PIdxBuild | PIdxStore | PDecode | PLoad.

Record iobj := { iid : option nat;   (* who built it: None = Unmarshal, Some t = reader t (ghost) *)
                 ival : N }.

Record local := {
  at_pc : pc;
  cur   : nat;                 (* field of the getter call in progress *)
  idx   : N;                   (* index value in use *)
  priv  : nat;                 (* private object being filled (allocation number) *)
  todo  : list N;              (* parts still to be written into the private object *)
  rets  : list (nat * option nat)   (* (field, returned pointer), most recent first *)
}.

Record state := {
  fld   : nat -> option nat;   (* the message's pointer field for lazy field f: nil or an allocation *)
  heap  : nat -> list N;       (* contents of every allocation *)
  next  : nat;                 (* allocation counter (fresh pointers) *)
  index : nat -> option iobj;  (* lazy.index of message m *)
  wins  : nat -> nat;          (* ghost: number of successful CAS on field f *)
  thr   : nat -> local
}.

Inductive action :=
| ACall (f : nat)
| ACheckNil (saw_nil : bool)
| AIdxLoad (saw_nil : bool)
| AIdxBuild
| AIdxStore
| ADecode
| ACas (won : bool)
| ALoad.

Record event := { ev_tid : nat; ev_act : action }.

Definition upd {A} (f : nat -> A) (k : nat) (v : A) : nat -> A :=
  fun x => if Nat.eqb x k then v else f x.

Definition idle_local : local :=
  {| at_pc := Idle; cur := 0; idx := 0%N; priv := 0; todo := []; rets := [] |}.

Definition init (c : config) : state :=
  {| fld := fun _ => None;
     heap := fun _ => [];
     next := 0;
     index := fun m => if preindexed c m then Some {| iid := None; ival := build_index c m |} else None;
     wins := fun _ => 0;
     thr := fun _ => idle_local |}.

Definition set_thr (s : state) (t : nat) (l : local) : state :=
  {| fld := fld s; heap := heap s; next := next s; index := index s; wins := wins s;
     thr := upd (thr s) t l |}.

Definition with_pc (l : local) (p : pc) : local :=
  {| at_pc := p; cur := cur l; idx := idx l; priv := priv l; todo := todo l; rets := rets l |}.

(* entering the decode phase: allocate a fresh object, plan the writes *)
Definition start_decode (c : config) (s : state) (t : nat) (l : local) (iv : N) : state :=
  {| fld := fld s;
     heap := upd (heap s) (next s) [];
     next := S (next s);
     index := index s;
     wins := wins s;
     thr := upd (thr s) t
       {| at_pc := PDecode; cur := cur l; idx := iv; priv := next s;
          todo := dec c iv (cur l); rets := rets l |} |}.

(* One atomic action of thread t.  [None] = the action is not the next action of t's
   program in this state, or its recorded outcome does not match the shared state. *)
Definition step (c : config) (s : state) (t : nat) (a : action) : option state :=
  let l := thr s t in
  match at_pc l, a with
  | Idle, ACall f =>
      if present c f
      then Some (set_thr s t {| at_pc := PCheck; cur := f; idx := idx l; priv := priv l;
                                todo := []; rets := rets l |})
      else Some (set_thr s t {| at_pc := Idle; cur := f; idx := idx l; priv := priv l;
                                todo := []; rets := (f, None) :: rets l |})
  | PCheck, ACheckNil b =>
      match fld s (cur l), b with
      | None, true => Some (set_thr s t (with_pc l PIdxLoad))
      | Some _, false => Some (set_thr s t (with_pc l PLoad))
      | _, _ => None
      end
  | PIdxLoad, AIdxLoad b =>
      match index s (msg_of c (cur l)), b with
      | Some io, false => Some (start_decode c s t l (ival io))
      | None, true => Some (set_thr s t (with_pc l PIdxBuild))
      | _, _ => None
      end
  | PIdxBuild, AIdxBuild =>
      Some (set_thr s t {| at_pc := PIdxStore; cur := cur l; idx := build_index c (msg_of c (cur l));
                           priv := priv l; todo := todo l; rets := rets l |})
  | PIdxStore, AIdxStore =>
      let s1 := {| fld := fld s; heap := heap s; next := next s;
                   index := upd (index s) (msg_of c (cur l)) (Some {| iid := Some t; ival := idx l |});
                   wins := wins s; thr := thr s |} in
      Some (start_decode c s1 t l (idx l))
  | PDecode, ADecode =>
      match todo l with
      | x :: r =>
          Some {| fld := fld s;
                  heap := upd (heap s) (priv l) (heap s (priv l) ++ [x]);
                  next := next s; index := index s; wins := wins s;
                  thr := upd (thr s) t {| at_pc := PDecode; cur := cur l; idx := idx l; priv := priv l;
                                          todo := r; rets := rets l |} |}
      | [] => None
      end
  | PDecode, ACas won =>
      match todo l with
      | [] =>
          match fld s (cur l), won with
          | None, true =>
              Some {| fld := upd (fld s) (cur l) (Some (priv l));
                      heap := heap s; next := next s; index := index s;
                      wins := upd (wins s) (cur l) (S (wins s (cur l)));
                      thr := upd (thr s) t (with_pc l PLoad) |}
          | Some _, false => Some (set_thr s t (with_pc l PLoad))
          | _, _ => None
          end
      | _ :: _ => None      (* program order: the CAS comes after the last private write *)
      end
  | PLoad, ALoad =>
      Some (set_thr s t {| at_pc := Idle; cur := cur l; idx := idx l; priv := priv l; todo := todo l;
                           rets := (cur l, fld s (cur l)) :: rets l |})
  | _, _ => None
  end.

Fixpoint run_trace (c : config) (tr : list event) (s : state) : option state :=
  match tr with
  | [] => Some s
  | e :: r => match step c s (ev_tid e) (ev_act e) with
              | Some s' => run_trace c r s'
              | None => None
              end
  end.

Definition reachable (c : config) (s : state) : Prop :=
  exists tr, run_trace c tr (init c) = Some s.

(* ---------------------------------------------------------------------------
   Scheduler-driven execution: the next action of a thread is determined by its
   program counter and the shared state; only a call needs an argument. *)
Definition next_action (c : config) (s : state) (t : nat) (callf : nat) : action :=
  let l := thr s t in
  match at_pc l with
  | Idle => ACall callf
  | PCheck => ACheckNil (match fld s (cur l) with None => true | Some _ => false end)
  | PIdxLoad => AIdxLoad (match index s (msg_of c (cur l)) with None => true | Some _ => false end)
  | PIdxBuild => AIdxBuild
  | PIdxStore => AIdxStore
  | PDecode => match todo l with
               | _ :: _ => ADecode
               | [] => ACas (match fld s (cur l) with None => true | Some _ => false end)
               end
  | PLoad => ALoad
  end.

(* run thread t until its current getter call returns (fuel bounds the decode loop) *)
Fixpoint finish_call (c : config) (fuel : nat) (s : state) (t : nat) (acc : list event)
  : option (state * list event) :=
  match at_pc (thr s t) with
  | Idle => Some (s, rev acc)
  | _ =>
    match fuel with
    | O => None
    | S k =>
      let a := next_action c s t 0 in
      match step c s t a with
      | Some s' => finish_call c k s' t ({| ev_tid := t; ev_act := a |} :: acc)
      | None => None
      end
    end
  end.

(* a complete getter call of thread t on field f, run without interleaving *)
Definition call_solo (c : config) (s : state) (t f : nat) : option (state * list event) :=
  match at_pc (thr s t) with
  | Idle =>
    match step c s t (ACall f) with
    | Some s1 => finish_call c (length (seq_result c f) + 8) s1 t [ {| ev_tid := t; ev_act := ACall f |} ]
    | None => None
    end
  | _ => None
  end.

(* ---------------------------------------------------------------------------
   Validating an observed execution of the implementation.

   The harness observes, per goroutine, the sequence of getter calls it made and,
   for each, the identity class of the pointer it obtained (0 = nil) and the
   content it saw through that pointer.  [replay] runs a model trace that
   performs the same calls in the listed order (each call run to completion:
   the first caller of a field decodes and publishes, later callers find the
   pointer), comparing content at each return, and [check_observed] then checks
   that the model's returns are the observed ones up to a renaming of pointers. *)
Record obs := { o_tid : nat; o_fld : nat; o_cls : nat; o_parts : list N }.

(* what the model's thread t returned for its most recent call *)
Definition last_ret (s : state) (t : nat) : option (nat * option nat) :=
  match rets (thr s t) with r :: _ => Some r | [] => None end.

Fixpoint listN_eqb (a b : list N) : bool :=
  match a, b with
  | [], [] => true
  | x :: a', y :: b' => N.eqb x y && listN_eqb a' b'
  | _, _ => false
  end.

(* replay the observations one by one; collect (field, observed class, model pointer);
   content must match at each return *)
Fixpoint replay (c : config) (os : list obs) (s : state) (acc : list (nat * nat * option nat))
  : option (state * list (nat * nat * option nat)) :=
  match os with
  | [] => Some (s, acc)
  | o :: r =>
    match call_solo c s (o_tid o) (o_fld o) with
    | Some (s', _) =>
      match last_ret s' (o_tid o) with
      | Some (f, p) =>
        let content_ok :=
          match p with
          | Some q => negb (Nat.eqb (o_cls o) 0) && listN_eqb (heap s' q) (o_parts o)
          | None => Nat.eqb (o_cls o) 0
          end in
        if Nat.eqb f (o_fld o) && content_ok
        then replay c r s' ((o_fld o, o_cls o, p) :: acc)
        else None
      | None => None
      end
    | None => None
    end
  end.

Definition optnat_eqb (a b : option nat) : bool :=
  match a, b with
  | None, None => true
  | Some x, Some y => Nat.eqb x y
  | _, _ => false
  end.

(* observed classes and model pointers must be in bijection, field by field *)
Definition pair_ok (x y : nat * nat * option nat) : bool :=
  match x, y with
  | (f1, c1, p1), (f2, c2, p2) =>
    if Nat.eqb f1 f2 then Bool.eqb (Nat.eqb c1 c2) (optnat_eqb p1 p2) else true
  end.

Definition classes_ok (l : list (nat * nat * option nat)) : bool :=
  forallb (fun x => forallb (pair_ok x) l) l.

Definition check_observed (c : config) (os : list obs) : bool :=
  match replay c os (init c) [] with
  | Some (_, l) => classes_ok l
  | None => false
  end.

(* ---------------------------------------------------------------------------
   Schedule exploration: run an arbitrary schedule (list of thread ids; a thread
   that is idle starts a call on the next field of its own program) and evaluate
   the invariant's observable part on the final state.  Used by the harness to
   drive the executable model through contended interleavings. *)
Fixpoint run_schedule (c : config) (sched : list (nat * nat)) (s : state) (acc : list event)
  : option (state * list event) :=
  match sched with
  | [] => Some (s, rev acc)
  | (t, f) :: r =>
    let a := next_action c s t f in
    match step c s t a with
    | Some s' => run_schedule c r s' ({| ev_tid := t; ev_act := a |} :: acc)
    | None => None
    end
  end.

(* all returns recorded by the listed threads for field f agree with the field, which is
   complete; at most one CAS won *)
Definition rets_ok (c : config) (s : state) (t : nat) : bool :=
  forallb (fun r : nat * option nat =>
             let (f, p) := r in
             if present c f
             then optnat_eqb p (fld s f) &&
                  match p with Some q => listN_eqb (heap s q) (seq_result c f) | None => false end
             else match p with None => true | Some _ => false end)
          (rets (thr s t)).

Definition state_ok (c : config) (s : state) (threads fields : list nat) : bool :=
  forallb (rets_ok c s) threads &&
  forallb (fun f => Nat.leb (wins s f) 1) fields.

(* ---------------------------------------------------------------------------
   Finding FG1: non-deterministic Marshal is two passes over the message
   (internal/impl/encode.go).  For a present lazy field the size pass counts the
   retained raw bytes when the pointer is nil (lazy.SizeField) and the encoded
   size of the decoded value otherwise; the append pass takes the same decision
   again (lazy.AppendField / re-encoding).  A reader may publish the field
   between the passes (nil -> non-nil is the only change readers make).  The
   enclosing submessage's length prefix was computed by the size pass; the code
   compares it with the appended length and fails on a difference. *)
Definition pass_len (raw_len enc_len : nat) (saw_nil : bool) : nat :=
  if saw_nil then raw_len else enc_len.

(* nil_at_append = true requires nil_at_size = true (a published pointer stays published) *)
Definition passes_possible (nil_at_size nil_at_append : bool) : bool :=
  implb nil_at_append nil_at_size.

Definition marshal_size_check (raw_len enc_len : nat) (nil_at_size nil_at_append : bool) : bool :=
  Nat.eqb (pass_len raw_len enc_len nil_at_size) (pass_len raw_len enc_len nil_at_append).

(* the recogniser of FG1: the raw encoding of the lazy field is not the length of its re-encoding *)
Definition excl_FG1 (raw_len enc_len : nat) : bool := negb (Nat.eqb raw_len enc_len).
