(* C18 — proofs about the lazy-publication protocol model (LazyCasModel.v).
   One inductive invariant, preserved by every step of every thread; the
   property theorems are its consequences for every reachable state, i.e. for
   every trace and any number of threads. *)
From Coq Require Import List Arith NArith Bool Lia.
From PB Require Import Conc.LazyCasModel.
Import ListNotations.

Lemma upd_same {A} (f : nat -> A) k v : upd f k v k = v.
Proof. unfold upd. now rewrite Nat.eqb_refl. Qed.
Lemma upd_other {A} (f : nat -> A) k v x : x <> k -> upd f k v x = f x.
Proof. unfold upd. intros H. apply Nat.eqb_neq in H. now rewrite H. Qed.

Ltac split_nat u t :=
  let H := fresh "Hne" in
  destruct (Nat.eq_dec u t) as [->|H];
  [rewrite ?upd_same in * | rewrite ?(upd_other _ _ _ _ H) in *].

Section Inv.
  Variable c : config.

  Record Inv (s : state) : Prop := {
    I_index : forall m io, index s m = Some io -> ival io = build_index c m;
    I_idx   : forall t, at_pc (thr s t) = PIdxStore \/ at_pc (thr s t) = PDecode ->
                idx (thr s t) = build_index c (msg_of c (cur (thr s t)));
    I_pub   : forall f p, fld s f = Some p -> p < next s /\ heap s p = seq_result c f;
    I_priv  : forall t, at_pc (thr s t) = PDecode ->
                priv (thr s t) < next s /\
                heap s (priv (thr s t)) ++ todo (thr s t) = seq_result c (cur (thr s t)) /\
                (forall f, fld s f <> Some (priv (thr s t))) /\
                (forall u, u <> t -> at_pc (thr s u) = PDecode -> priv (thr s u) <> priv (thr s t));
    I_load  : forall t, at_pc (thr s t) = PLoad -> fld s (cur (thr s t)) <> None;
    I_pres  : forall t, at_pc (thr s t) <> Idle -> present c (cur (thr s t)) = true;
    I_rets  : forall t f r, In (f, r) (rets (thr s t)) ->
                if present c f then r = fld s f /\ r <> None else r = None;
    I_wins  : forall f, wins s f = match fld s f with Some _ => 1 | None => 0 end
  }.

  Lemma inv_init : Inv (init c).
  Proof.
    constructor; cbn; intros; try discriminate; try tauto; try reflexivity; try congruence.
    all: try (destruct (preindexed c m); [injection H as <-; reflexivity | discriminate]).
    all: try (destruct H; discriminate).
  Qed.

  (* frame lemma used by all steps that only change thread t's local state *)
  Lemma inv_set_thr s t l :
    Inv s ->
    (at_pc l = PIdxStore \/ at_pc l = PDecode -> idx l = build_index c (msg_of c (cur l))) ->
    (at_pc l = PDecode ->
       at_pc (thr s t) = PDecode /\ priv l = priv (thr s t) /\ todo l = todo (thr s t) /\
       cur l = cur (thr s t)) ->
    (at_pc l = PLoad -> fld s (cur l) <> None) ->
    (at_pc l <> Idle -> present c (cur l) = true) ->
    (forall f r, In (f, r) (rets l) -> if present c f then r = fld s f /\ r <> None else r = None) ->
    Inv (set_thr s t l).
  Proof.
    intros I Hidx Hdec Hload Hpres Hrets.
    constructor; cbn [set_thr fld heap next index wins thr].
    - apply (I_index s I).
    - intros u H. split_nat u t; [auto | now apply (I_idx s I)].
    - apply (I_pub s I).
    - intros u H. split_nat u t.
      + destruct (Hdec H) as (Hp & -> & -> & ->).
        destruct (I_priv s I t Hp) as (A & B & C & D).
        repeat split; auto.
        intros u Hu Hpu. rewrite (upd_other _ _ _ _ Hu) in *. now apply D.
      + destruct (I_priv s I u H) as (A & B & C & D).
        repeat split; auto.
        intros v Hv Hpv. split_nat v t; [|now apply D].
        destruct (Hdec Hpv) as (Hp & -> & _). now apply D.
    - intros u H. split_nat u t; [auto | now apply (I_load s I)].
    - intros u H. split_nat u t; [auto | now apply (I_pres s I)].
    - intros u f r H. split_nat u t; [now apply Hrets | now apply (I_rets s I u)].
    - apply (I_wins s I).
  Qed.

  (* allocation of a fresh private object by thread t (entering PDecode) *)
  Lemma inv_start_decode s t l iv :
    Inv s ->
    at_pc (thr s t) <> PDecode ->
    iv = build_index c (msg_of c (cur l)) ->
    present c (cur l) = true ->
    (forall f r, In (f, r) (rets l) -> if present c f then r = fld s f /\ r <> None else r = None) ->
    Inv (start_decode c s t l iv).
  Proof.
    intros I Hnd Hiv Hpres Hrets.
    constructor; cbn [start_decode fld heap next index wins thr at_pc cur idx priv todo rets].
    - apply (I_index s I).
    - intros u H. split_nat u t; cbn; [auto | now apply (I_idx s I)].
    - intros f p H. destruct (I_pub s I f p H) as [A B]. split; [lia|].
      rewrite upd_other by lia. exact B.
    - intros u H. split_nat u t; cbn [at_pc cur idx priv todo rets] in *.
      + split; [lia|]. split; [rewrite ?upd_same; cbn; subst iv; reflexivity|]. split.
        * intros f E. destruct (I_pub s I f _ E). lia.
        * intros u Hu Hpu. rewrite (upd_other _ _ _ _ Hu) in *.
          destruct (I_priv s I u Hpu). lia.
      + destruct (I_priv s I u H) as (A & B & C & D).
        split; [lia|]. split; [rewrite upd_other by lia; exact B|]. split; [exact C|].
        intros v Hv Hpv. split_nat v t; cbn [priv] in *; [lia | now apply D].
    - intros u H. split_nat u t; cbn in *; [discriminate | now apply (I_load s I)].
    - intros u H. split_nat u t; cbn in *; [auto | now apply (I_pres s I)].
    - intros u f r H. split_nat u t; cbn in *; [now apply Hrets | now apply (I_rets s I u)].
    - apply (I_wins s I).
  Qed.

  Lemma inv_step s t a s' : Inv s -> step c s t a = Some s' -> Inv s'.
  Proof.
    intros I Hs. unfold step in Hs.
    destruct (at_pc (thr s t)) eqn:Hpc; destruct a; try discriminate.
    - (* Idle, ACall *)
      destruct (present c f) eqn:Hp; injection Hs as <-; apply inv_set_thr; auto; cbn;
        try (intros [?|?]; discriminate); try discriminate; try congruence.
      + intros g r H. now apply (I_rets s I t).
      + intros g r [H|H]; [|now apply (I_rets s I t)].
        injection H as <- <-. now rewrite Hp.
    - (* PCheck, ACheckNil *)
      destruct (fld s (cur (thr s t))) eqn:Hf; destruct saw_nil; try discriminate;
        injection Hs as <-; apply inv_set_thr; auto; cbn;
        try (intros [?|?]; discriminate); try discriminate; try congruence.
      + intros _. apply (I_pres s I t). congruence.
      + intros g r H. now apply (I_rets s I t).
      + intros _. apply (I_pres s I t). congruence.
      + intros g r H. now apply (I_rets s I t).
    - (* PIdxLoad, AIdxLoad *)
      destruct (index s (msg_of c (cur (thr s t)))) eqn:Hi; destruct saw_nil; try discriminate;
        injection Hs as <-.
      + apply inv_start_decode; auto; try congruence.
        * now apply (I_index s I).
        * apply (I_pres s I t). congruence.
        * intros g r H. now apply (I_rets s I t).
      + apply inv_set_thr; auto; cbn;
          try (intros [?|?]; discriminate); try discriminate.
        * intros _. apply (I_pres s I t). congruence.
        * intros g r H. now apply (I_rets s I t).
    - (* PIdxBuild, AIdxBuild *)
      injection Hs as <-. apply inv_set_thr; auto; cbn; try discriminate.
      + intros _. apply (I_pres s I t). congruence.
      + intros g r H. now apply (I_rets s I t).
    - (* PIdxStore, AIdxStore *)
      injection Hs as <-.
      assert (Hidx : idx (thr s t) = build_index c (msg_of c (cur (thr s t)))).
      { apply (I_idx s I). now left. }
      apply inv_start_decode; cbn [thr]; auto; try congruence.
      + (* the state with the index stored still satisfies the invariant *)
        constructor; cbn [fld heap next index wins thr].
        * intros m io H. unfold upd in H. destruct (Nat.eqb m _) eqn:E.
          -- apply Nat.eqb_eq in E. subst m. injection H as <-. cbn. exact Hidx.
          -- now apply (I_index s I).
        * apply (I_idx s I).
        * apply (I_pub s I).
        * apply (I_priv s I).
        * apply (I_load s I).
        * apply (I_pres s I).
        * apply (I_rets s I).
        * apply (I_wins s I).
      + apply (I_pres s I t). congruence.
      + intros g r H. now apply (I_rets s I t).
    - (* PDecode, ADecode *)
      destruct (todo (thr s t)) as [|x r] eqn:Ht; [discriminate|]. injection Hs as <-.
      destruct (I_priv s I t Hpc) as (A & B & C & D).
      constructor; cbn [fld heap next index wins thr].
      + apply (I_index s I).
      + intros u H. split_nat u t; cbn in *; [apply (I_idx s I t); now right | now apply (I_idx s I)].
      + intros f p H. destruct (I_pub s I f p H) as [P Q]. split; [exact P|].
        rewrite upd_other; [exact Q|]. intros ->. now apply (C f).
      + intros u H. split_nat u t; cbn [at_pc cur idx priv todo rets] in *.
        * split; [exact A|]. split.
          -- rewrite ?upd_same, <- app_assoc. cbn. rewrite <- B, Ht. reflexivity.
          -- split; [exact C|]. intros u Hu Hpu. rewrite (upd_other _ _ _ _ Hu) in *. now apply D.
        * destruct (I_priv s I u H) as (A' & B' & C' & D').
          split; [exact A'|]. split.
          -- rewrite upd_other; [exact B'|]. now apply D.
          -- split; [exact C'|]. intros v Hv Hpv. split_nat v t; cbn [priv] in *; [|now apply D'].
             now apply D'.
      + intros u H. split_nat u t; cbn in *; [discriminate | now apply (I_load s I)].
      + intros u H. split_nat u t; cbn in *; [apply (I_pres s I t); congruence | now apply (I_pres s I)].
      + intros u f r' H. split_nat u t; cbn in *; [now apply (I_rets s I t f r') | now apply (I_rets s I u f r')].
      + apply (I_wins s I).
    - (* PDecode, ACas *)
      destruct (todo (thr s t)) as [|x r] eqn:Ht; [|discriminate].
      destruct (I_priv s I t Hpc) as (A & B & C & D). rewrite Ht, app_nil_r in B.
      destruct (fld s (cur (thr s t))) eqn:Hf; destruct won; try discriminate; injection Hs as <-.
      + (* lost *)
        apply inv_set_thr; auto; cbn; try (intros [?|?]; discriminate); try discriminate.
        * congruence.
        * intros _. apply (I_pres s I t). congruence.
        * intros g r H. now apply (I_rets s I t).
      + (* won *)
        constructor; cbn [fld heap next index wins thr].
        * apply (I_index s I).
        * intros u H. split_nat u t; cbn in *; [destruct H; discriminate | now apply (I_idx s I)].
        * intros f p H. unfold upd in H. destruct (Nat.eqb f _) eqn:E.
          -- apply Nat.eqb_eq in E. subst f. injection H as <-. split; [exact A | exact B].
          -- now apply (I_pub s I).
        * intros u H. split_nat u t; cbn [at_pc with_pc] in *; [discriminate|].
          destruct (I_priv s I u H) as (A' & B' & C' & D').
          split; [exact A'|]. split; [exact B'|]. split.
          -- intros f E. unfold upd in E. destruct (Nat.eqb f _).
             ++ injection E as E. apply (D u Hne H). now symmetry.
             ++ now apply (C' f).
          -- intros v Hv Hpv. split_nat v t; cbn [at_pc with_pc] in *; [discriminate | now apply D'].
        * intros u H. split_nat u t; cbn [at_pc cur with_pc] in *.
          -- rewrite ?upd_same. discriminate.
          -- unfold upd. destruct (Nat.eqb _ _); [discriminate | now apply (I_load s I)].
        * intros u H. split_nat u t; cbn in *; [apply (I_pres s I t); congruence | now apply (I_pres s I)].
        * intros u f r H.
          assert (H' : In (f, r) (rets (thr s u))) by (split_nat u t; cbn in *; exact H).
          pose proof (I_rets s I u f r H') as R.
          destruct (present c f); [|exact R]. destruct R as [R1 R2].
          unfold upd. destruct (Nat.eqb f _) eqn:E; [|now split].
          apply Nat.eqb_eq in E. subst f. rewrite Hf in R1. congruence.
        * intros f. unfold upd. destruct (Nat.eqb f _) eqn:E.
          -- apply Nat.eqb_eq in E. subst f. rewrite (I_wins s I), Hf. reflexivity.
          -- apply (I_wins s I).
    - (* PLoad, ALoad *)
      injection Hs as <-. apply inv_set_thr; auto; cbn; try (intros [?|?]; discriminate); try discriminate.
      intros g r [H|H]; [|now apply (I_rets s I t)].
      injection H as <- <-.
      rewrite (I_pres s I t) by congruence. split; [reflexivity|]. now apply (I_load s I).
  Qed.

  Lemma inv_run tr : forall s s', Inv s -> run_trace c tr s = Some s' -> Inv s'.
  Proof.
    induction tr as [|e r IH]; cbn; intros s s' I H.
    - now injection H as <-.
    - destruct (step c s (ev_tid e) (ev_act e)) eqn:E; [|discriminate].
      eapply IH; [|exact H]. eapply inv_step; eauto.
  Qed.

  Lemma inv_reachable s : reachable c s -> Inv s.
  Proof. intros [tr H]. eapply inv_run; [apply inv_init | exact H]. Qed.

  (* ---------------------------------------------------------------- theorems *)

  (* All returns for one field, by any threads, are the same pointer, it is the
     pointer published in the message (nil exactly when the presence bit is
     clear), and at most one CAS on the field ever succeeded. *)
  Theorem readers_agree s :
    reachable c s ->
    forall t1 t2 f r1 r2,
      In (f, r1) (rets (thr s t1)) -> In (f, r2) (rets (thr s t2)) ->
      r1 = r2 /\
      r1 = (if present c f then fld s f else None) /\
      (present c f = true -> exists p, r1 = Some p) /\
      wins s f <= 1.
  Proof.
    intros R t1 t2 f r1 r2 H1 H2. pose proof (inv_reachable s R) as I.
    pose proof (I_rets s I t1 f r1 H1) as A. pose proof (I_rets s I t2 f r2 H2) as B.
    pose proof (I_wins s I f) as W.
    destruct (present c f).
    - destruct A as [A1 A2], B as [B1 B2]. repeat split; try congruence.
      + intros _. destruct r1; [eauto | congruence].
      + destruct (fld s f); lia.
    - subst. repeat split; auto; [discriminate | destruct (fld s f); lia].
  Qed.

  (* The object behind every published and every returned pointer is the result
     of the sequential decode of that field. *)
  Theorem readers_equal_sequential s :
    reachable c s ->
    (forall f p, fld s f = Some p -> heap s p = seq_result c f) /\
    (forall t f p, In (f, Some p) (rets (thr s t)) -> heap s p = seq_result c f).
  Proof.
    intros R. pose proof (inv_reachable s R) as I. split.
    - intros f p H. now apply (I_pub s I).
    - intros t f p H. pose proof (I_rets s I t f _ H) as A.
      destruct (present c f); [|discriminate]. destruct A as [A _].
      symmetry in A. now apply (I_pub s I).
  Qed.

  (* Publication comes after the private copy is complete: an object that is
     still being filled (some part not yet written) is not reachable from the
     message nor from any reader's return value, no other thread writes to it,
     and published objects are never written again (the writer of step ADecode
     is the owner of an unpublished object). *)
  Theorem no_reader_sees_partial s :
    reachable c s ->
    forall t, at_pc (thr s t) = PDecode ->
      (forall f, fld s f <> Some (priv (thr s t))) /\
      (forall u f, ~ In (f, Some (priv (thr s t))) (rets (thr s u))) /\
      (forall u, u <> t -> at_pc (thr s u) = PDecode -> priv (thr s u) <> priv (thr s t)).
  Proof.
    intros R t H. pose proof (inv_reachable s R) as I.
    destruct (I_priv s I t H) as (A & B & C & D). split; [exact C|]. split; [|exact D].
    intros u f Hin. pose proof (I_rets s I u f _ Hin) as E.
    destruct (present c f); [|discriminate]. destruct E as [E _].
    symmetry in E. now apply (C f).
  Qed.

  (* a decode step never changes an object that is published or was returned *)
  Theorem published_objects_immutable s t s' :
    reachable c s -> step c s t ADecode = Some s' ->
    (forall f p, fld s f = Some p -> heap s' p = heap s p) /\
    (forall u f p, In (f, Some p) (rets (thr s u)) -> heap s' p = heap s p).
  Proof.
    intros R Hs. pose proof (inv_reachable s R) as I.
    unfold step in Hs. destruct (at_pc (thr s t)) eqn:Hpc; try discriminate.
    destruct (todo (thr s t)) eqn:Ht; [discriminate|]. injection Hs as <-. cbn [heap].
    destruct (I_priv s I t Hpc) as (A & B & C & D).
    assert (P : forall f p, fld s f = Some p -> upd (heap s) (priv (thr s t)) (heap s (priv (thr s t)) ++ [n]) p = heap s p).
    { intros f p H. apply upd_other. intros ->. now apply (C f). }
    split; [exact P|].
    intros u f p Hin. pose proof (I_rets s I u f _ Hin) as E.
    destruct (present c f); [|discriminate]. destruct E as [E _]. symmetry in E. eapply P; eauto.
  Qed.

  (* The index of a message is only ever published with the value buildIndex
     computes; every thread that uses an index value uses that value; storing it
     again does not change the value a later loader sees. *)
  Theorem index_publication_idempotent s :
    reachable c s ->
    (forall m io, index s m = Some io -> ival io = build_index c m) /\
    (forall t, at_pc (thr s t) = PDecode -> idx (thr s t) = build_index c (msg_of c (cur (thr s t)))) /\
    (forall t s', step c s t AIdxStore = Some s' ->
       forall m io, index s m = Some io -> exists io', index s' m = Some io' /\ ival io' = ival io).
  Proof.
    intros R. pose proof (inv_reachable s R) as I. split; [apply (I_index s I)|]. split.
    - intros t H. apply (I_idx s I). now right.
    - intros t s' Hs m io Hm.
      assert (I' : Inv s') by (eapply inv_step; eauto).
      unfold step in Hs. destruct (at_pc (thr s t)) eqn:Hpc; try discriminate.
      injection Hs as <-. cbn [start_decode index] in *.
      unfold upd. destruct (Nat.eqb m _) eqn:E.
      + eexists. split; [reflexivity|]. cbn. apply Nat.eqb_eq in E. subst m.
        rewrite (I_index s I _ _ Hm). apply (I_idx s I). now left.
      + eauto.
  Qed.
End Inv.

(* ------------------------------------------------------------------ executable checkers *)

Lemma run_trace_app c tr1 : forall tr2 s s1,
  run_trace c tr1 s = Some s1 -> run_trace c (tr1 ++ tr2) s = run_trace c tr2 s1.
Proof.
  induction tr1 as [|e r IH]; cbn; intros tr2 s s1 H.
  - now injection H as <-.
  - destruct (step c s (ev_tid e) (ev_act e)); [|discriminate]. now apply IH.
Qed.

Lemma finish_call_trace c fuel : forall s t acc s0 s' tr,
  run_trace c (rev acc) s0 = Some s ->
  finish_call c fuel s t acc = Some (s', tr) ->
  run_trace c tr s0 = Some s'.
Proof.
  induction fuel as [|k IH]; intros s t acc s0 s' tr Hacc H; cbn in H.
  - destruct (at_pc (thr s t)); try discriminate. injection H as <- <-. exact Hacc.
  - destruct (at_pc (thr s t)) eqn:Hpc;
      try (injection H as <- <-; exact Hacc);
      (destruct (step c s t (next_action c s t 0)) eqn:E; [|discriminate];
       eapply IH; [|exact H]; cbn [rev];
       erewrite run_trace_app by exact Hacc; cbn; rewrite E; reflexivity).
Qed.

Lemma call_solo_trace c s t f s' tr :
  call_solo c s t f = Some (s', tr) -> run_trace c tr s = Some s'.
Proof.
  unfold call_solo. destruct (at_pc (thr s t)); try discriminate.
  destruct (step c s t (ACall f)) eqn:E; [|discriminate].
  intros H. eapply finish_call_trace; [|exact H]. cbn. now rewrite E.
Qed.

Lemma replay_trace c os : forall s acc s' l,
  replay c os s acc = Some (s', l) -> exists tr, run_trace c tr s = Some s'.
Proof.
  induction os as [|o r IH]; cbn; intros s acc s' l H.
  - injection H as <- _. now exists [].
  - destruct (call_solo c s (o_tid o) (o_fld o)) as [[s1 evs]|] eqn:E; [|discriminate].
    destruct (last_ret s1 (o_tid o)) as [[f p]|]; [|discriminate].
    destruct (_ && _); [|discriminate].
    destruct (IH _ _ _ _ H) as [tr2 H2]. exists (evs ++ tr2).
    erewrite run_trace_app by (eapply call_solo_trace; eauto). exact H2.
Qed.

(* every triple collected by [replay] is a genuine return of the model, in the final state *)
Lemma call_solo_rets_mono c s t f s' tr u x :
  call_solo c s t f = Some (s', tr) -> In x (rets (thr s u)) -> In x (rets (thr s' u)).
Proof.
  intros H. apply call_solo_trace in H. revert s H.
  induction tr as [|e r IH]; cbn; intros s H Hin.
  - now injection H as <-.
  - destruct (step c s (ev_tid e) (ev_act e)) as [s1|] eqn:E; [|discriminate].
    apply (IH s1 H). clear IH H.
    unfold step in E.
    destruct (at_pc (thr s (ev_tid e))) eqn:Hpc; destruct (ev_act e); try discriminate;
      repeat match type of E with
             | context [match ?x with _ => _ end] => destruct x eqn:?; try discriminate
             | context [if ?x then _ else _] => destruct x eqn:?; try discriminate
             end;
      injection E as <-; cbn [set_thr start_decode thr];
      (split_nat u (ev_tid e); cbn; auto).
Qed.

Lemma replay_sound c os : forall s acc s' l,
  replay c os s acc = Some (s', l) ->
  (forall f k p, In (f, k, p) acc -> exists t, In (f, p) (rets (thr s t))) ->
  forall f k p, In (f, k, p) l -> exists t, In (f, p) (rets (thr s' t)).
Proof.
  induction os as [|o r IH]; cbn; intros s acc s' l H Hacc f k p Hin.
  - injection H as <- <-. eauto.
  - destruct (call_solo c s (o_tid o) (o_fld o)) as [[s1 evs]|] eqn:E; [|discriminate].
    destruct (last_ret s1 (o_tid o)) as [[g q]|] eqn:L; [|discriminate].
    destruct (Nat.eqb g (o_fld o) && _) eqn:G; [|discriminate].
    eapply IH; [exact H| |exact Hin].
    intros f' k' p' [X|X].
    + injection X as <- <- <-. exists (o_tid o).
      apply andb_prop in G. destruct G as [G _]. apply Nat.eqb_eq in G. subst g.
      unfold last_ret in L. destruct (rets (thr s1 (o_tid o))); [discriminate|].
      injection L as ->. now left.
    + destruct (Hacc _ _ _ X) as [t Ht]. exists t. eapply call_solo_rets_mono; eauto.
Qed.

Lemma optnat_eqb_eq a b : optnat_eqb a b = true <-> a = b.
Proof.
  destruct a, b; cbn; try (split; congruence).
  rewrite Nat.eqb_eq. split; congruence.
Qed.

(* the collected list has one entry per observation, in reverse order *)
Lemma replay_collects c os : forall s acc s' l,
  replay c os s acc = Some (s', l) ->
  forall o, In o os -> exists p, In (o_fld o, o_cls o, p) l.
Proof.
  induction os as [|o r IH]; cbn; intros s acc s' l H o' Hin; [tauto|].
  destruct (call_solo c s (o_tid o) (o_fld o)) as [[s1 evs]|]; [|discriminate].
  destruct (last_ret s1 (o_tid o)) as [[g q]|]; [|discriminate].
  destruct (_ && _); [|discriminate].
  destruct Hin as [<-|Hin].
  - exists q. clear IH. revert H. generalize ((o_fld o, o_cls o, q)).
    intros x H.
    assert (G : forall os s acc s' l, replay c os s acc = Some (s', l) -> forall y, In y acc -> In y l).
    { clear. induction os as [|o r IH]; cbn; intros s acc s' l H y Hy.
      - injection H as _ <-. exact Hy.
      - destruct (call_solo c s (o_tid o) (o_fld o)) as [[s1 evs]|]; [|discriminate].
        destruct (last_ret s1 (o_tid o)) as [[g q]|]; [|discriminate].
        destruct (_ && _); [|discriminate].
        eapply IH; [exact H|]. now right. }
    eapply G; [exact H|]. now left.
  - eapply IH; eauto.
Qed.

Lemma listN_eqb_eq a : forall b, listN_eqb a b = true <-> a = b.
Proof.
  induction a as [|x a IH]; destruct b as [|y b]; cbn; try (split; congruence).
  rewrite andb_true_iff, N.eqb_eq, IH. split; [intros [-> ->]; reflexivity | intros [= -> ->]; auto].
Qed.

Lemma reachable_run c s tr s' : reachable c s -> run_trace c tr s = Some s' -> reachable c s'.
Proof.
  intros [tr0 H0] H. exists (tr0 ++ tr). erewrite run_trace_app by exact H0. exact H.
Qed.

(* accepted observations carry the sequential result as content, and class 0 exactly for
   fields whose presence bit is clear *)
Lemma replay_content c os : forall s acc s' l,
  reachable c s -> replay c os s acc = Some (s', l) ->
  forall o, In o os ->
    (o_cls o <> 0 -> o_parts o = seq_result c (o_fld o)) /\
    (o_cls o = 0 <-> present c (o_fld o) = false).
Proof.
  induction os as [|o r IH]; cbn; intros s acc s' l R H o' Hin; [tauto|].
  destruct (call_solo c s (o_tid o) (o_fld o)) as [[s1 evs]|] eqn:E; [|discriminate].
  assert (R1 : reachable c s1) by (eapply reachable_run; [exact R | eapply call_solo_trace; eauto]).
  destruct (last_ret s1 (o_tid o)) as [[g q]|] eqn:L; [|discriminate].
  destruct (Nat.eqb g (o_fld o) && _) eqn:G; [|discriminate].
  destruct Hin as [<-|Hin]; [|eapply IH; eauto].
  apply andb_prop in G. destruct G as [G1 G2]. apply Nat.eqb_eq in G1. subst g.
  unfold last_ret in L. destruct (rets (thr s1 (o_tid o))) as [|x xs] eqn:Hr; [discriminate|].
  injection L as ->.
  assert (Hin : In (o_fld o, q) (rets (thr s1 (o_tid o)))) by (rewrite Hr; now left).
  pose proof (I_rets c s1 (inv_reachable c s1 R1) _ _ _ Hin) as P.
  destruct q as [q|].
  - apply andb_prop in G2. destruct G2 as [G2 G3]. apply negb_true_iff, Nat.eqb_neq in G2.
    apply listN_eqb_eq in G3. split.
    + intros _. rewrite <- G3.
      now apply (proj2 (readers_equal_sequential c s1 R1) (o_tid o)).
    + destruct (present c (o_fld o)); [split; [tauto | discriminate] | discriminate].
  - apply Nat.eqb_eq in G2. split; [tauto|].
    destruct (present c (o_fld o)); [destruct P; congruence | tauto].
Qed.

(* If the checker accepts an observed execution then there is a model trace
   performing exactly those calls in which every observed call is a return of
   the model; the observed contents are the sequential results. *)
Theorem check_observed_sound c os :
  check_observed c os = true ->
  exists tr s, run_trace c tr (init c) = Some s /\
    forall o, In o os ->
      (exists t p, In (o_fld o, p) (rets (thr s t))) /\
    (o_cls o <> 0 -> o_parts o = seq_result c (o_fld o)) /\
    (o_cls o = 0 <-> present c (o_fld o) = false).
Proof.
  unfold check_observed. destruct (replay c os (init c) []) as [[s l]|] eqn:E; [|discriminate].
  intros _. destruct (replay_trace _ _ _ _ _ _ E) as [tr H]. exists tr, s. split; [exact H|].
  intros o Ho. split.
  - destruct (replay_collects _ _ _ _ _ _ E o Ho) as [p P].
    destruct (replay_sound _ _ _ _ _ _ E (fun _ _ _ (F : In _ []) => match F with end) _ _ _ P) as [t T].
    eauto.
  - eapply replay_content; [|exact E|exact Ho]. now exists [].
Qed.

(* Accepted observations of the same field carry the same class: two different
   classes for one lazy submessage are never accepted. *)
Theorem check_observed_classes c os :
  check_observed c os = true ->
  forall o1 o2, In o1 os -> In o2 os -> o_fld o1 = o_fld o2 -> o_cls o1 = o_cls o2.
Proof.
  unfold check_observed. destruct (replay c os (init c) []) as [[s l]|] eqn:E; [|discriminate].
  intros Hc o1 o2 H1 H2 Hf.
  destruct (replay_collects _ _ _ _ _ _ E o1 H1) as [p1 P1].
  destruct (replay_collects _ _ _ _ _ _ E o2 H2) as [p2 P2].
  assert (R : reachable c s) by (destruct (replay_trace _ _ _ _ _ _ E) as [tr H]; now exists tr).
  assert (S0 : forall f k p, In (f, k, p) l -> exists t, In (f, p) (rets (thr s t))).
  { eapply replay_sound; [exact E|]. cbn. tauto. }
  destruct (S0 _ _ _ P1) as [t1 T1]. destruct (S0 _ _ _ P2) as [t2 T2].
  rewrite Hf in T1.
  destruct (readers_agree c s R t1 t2 _ _ _ T1 T2) as [Heq _].
  unfold classes_ok in Hc. rewrite forallb_forall in Hc.
  specialize (Hc _ P1). rewrite forallb_forall in Hc. specialize (Hc _ P2).
  cbn in Hc. rewrite Hf, Nat.eqb_refl in Hc.
  apply eqb_prop in Hc.
  assert (X : optnat_eqb p1 p2 = true) by (apply optnat_eqb_eq; exact Heq).
  rewrite X in Hc. now apply Nat.eqb_eq.
Qed.

(* the scheduler-driven runner always produces a trace of the model *)
Lemma run_schedule_trace c sched : forall s acc s0 s' tr,
  run_trace c (rev acc) s0 = Some s ->
  run_schedule c sched s acc = Some (s', tr) ->
  run_trace c tr s0 = Some s'.
Proof.
  induction sched as [|[t f] r IH]; cbn; intros s acc s0 s' tr Hacc H.
  - injection H as <- <-. exact Hacc.
  - destruct (step c s t (next_action c s t f)) eqn:E; [|discriminate].
    eapply IH; [|exact H]. cbn [rev]. erewrite run_trace_app by exact Hacc. cbn. now rewrite E.
Qed.

(* every action proposed by [next_action] is enabled: no schedule gets stuck *)
Lemma next_action_enabled c s t f : exists s', step c s t (next_action c s t f) = Some s'.
Proof.
  unfold next_action, step.
  destruct (at_pc (thr s t)); cbn.
  - destruct (present c f); eauto.
  - destruct (fld s (cur (thr s t))); eauto.
  - destruct (index s (msg_of c (cur (thr s t)))); eauto.
  - eauto.
  - eauto.
  - destruct (todo (thr s t)); [destruct (fld s (cur (thr s t))); eauto | eauto].
  - eauto.
Qed.

(* ------------------------------------------------------------------ non-vacuity witnesses *)
(* Two readers race on field 0 of a message whose index was not stored by
   Unmarshal: both see nil, both build and store the index, both decode a
   three-part object; thread 1 wins the CAS, thread 0 loses; both return. *)
Definition ex_cfg : config :=
  {| present := fun f => Nat.eqb f 0;
     msg_of := fun _ => 0;
     preindexed := fun _ => false;
     build_index := fun _ => 7%N;
     dec := fun iv _ => if N.eqb iv 7 then [1; 2; 3]%N else [] |}.

Definition ex_trace : list event :=
  map (fun p => {| ev_tid := fst p; ev_act := snd p |})
    [ (0, ACall 0); (0, ACheckNil true); (1, ACall 0); (1, ACheckNil true);
      (0, AIdxLoad true); (1, AIdxLoad true); (0, AIdxBuild); (1, AIdxBuild);
      (0, AIdxStore); (1, AIdxStore);
      (0, ADecode); (1, ADecode); (1, ADecode); (0, ADecode); (1, ADecode);
      (1, ACas true); (0, ADecode); (0, ACas false); (0, ALoad); (1, ALoad);
      (2, ACall 1); (2, ACall 0); (2, ACheckNil false); (2, ALoad) ].

Definition ex_state : state :=
  match run_trace ex_cfg ex_trace (init ex_cfg) with Some s => s | None => init ex_cfg end.

Lemma ex_reachable : reachable ex_cfg ex_state.
Proof.
  exists ex_trace. unfold ex_state.
  destruct (run_trace ex_cfg ex_trace (init ex_cfg)) eqn:E; [reflexivity|].
  vm_compute in E. discriminate.
Qed.

Lemma ex_two_readers :
  reachable ex_cfg ex_state /\
  In (0, Some 1) (rets (thr ex_state 0)) /\ In (0, Some 1) (rets (thr ex_state 1)) /\
  In (0, Some 1) (rets (thr ex_state 2)) /\ In (1, None) (rets (thr ex_state 2)) /\
  wins ex_state 0 = 1 /\ heap ex_state 1 = [1; 2; 3]%N /\ heap ex_state 0 = [1; 2; 3]%N /\
  fld ex_state 0 = Some 1.
Proof. split; [exact ex_reachable|]. vm_compute. intuition. Qed.

(* a reachable state in which a thread is in the middle of its private decode *)
Definition ex_mid_state : state :=
  match run_trace ex_cfg (firstn 12 ex_trace) (init ex_cfg) with Some s => s | None => init ex_cfg end.

Lemma ex_mid :
  reachable ex_cfg ex_mid_state /\ at_pc (thr ex_mid_state 0) = PDecode /\
  todo (thr ex_mid_state 0) = [2; 3]%N /\ at_pc (thr ex_mid_state 1) = PDecode /\
  (exists s', step ex_cfg ex_mid_state 1 ADecode = Some s').
Proof.
  split.
  - exists (firstn 12 ex_trace). unfold ex_mid_state.
    destruct (run_trace ex_cfg (firstn 12 ex_trace) (init ex_cfg)) eqn:E; [reflexivity|].
    vm_compute in E. discriminate.
  - vm_compute. repeat split; eauto.
Qed.

(* a reachable state in which an index is published and another thread is about to store again *)
Definition ex_idx_state : state :=
  match run_trace ex_cfg (firstn 9 ex_trace) (init ex_cfg) with Some s => s | None => init ex_cfg end.

Lemma ex_idx :
  reachable ex_cfg ex_idx_state /\
  (exists io, index ex_idx_state 0 = Some io) /\
  (exists s', step ex_cfg ex_idx_state 1 AIdxStore = Some s').
Proof.
  split.
  - exists (firstn 9 ex_trace). unfold ex_idx_state.
    destruct (run_trace ex_cfg (firstn 9 ex_trace) (init ex_cfg)) eqn:E; [reflexivity|].
    vm_compute in E. discriminate.
  - vm_compute. split; eauto.
Qed.

Definition ex_obs : list obs :=
  [ {| o_tid := 0; o_fld := 0; o_cls := 1; o_parts := [1; 2; 3]%N |};
    {| o_tid := 1; o_fld := 0; o_cls := 1; o_parts := [1; 2; 3]%N |};
    {| o_tid := 1; o_fld := 1; o_cls := 0; o_parts := [] |};
    {| o_tid := 0; o_fld := 0; o_cls := 1; o_parts := [1; 2; 3]%N |} ].

Lemma ex_obs_accepted : check_observed ex_cfg ex_obs = true.
Proof. vm_compute. reflexivity. Qed.

(* the checker rejects: two instances of one submessage; stale content; nil for a present field *)
Lemma ex_obs_rejected :
  check_observed ex_cfg
    [ {| o_tid := 0; o_fld := 0; o_cls := 1; o_parts := [1; 2; 3]%N |};
      {| o_tid := 1; o_fld := 0; o_cls := 2; o_parts := [1; 2; 3]%N |} ] = false /\
  check_observed ex_cfg
    [ {| o_tid := 0; o_fld := 0; o_cls := 1; o_parts := [1; 2]%N |} ] = false /\
  check_observed ex_cfg
    [ {| o_tid := 0; o_fld := 0; o_cls := 0; o_parts := [] |} ] = false.
Proof. vm_compute. auto. Qed.

(* ------------------------------------------------------------------ finding FG1 *)
(* witness: raw = two occurrences (10 bytes), re-encoding 7 bytes; the reader publishes between the passes *)
Lemma marshal_concurrent_reader_refuted :
  exists raw enc s a, passes_possible s a = true /\ marshal_size_check raw enc s a = false.
Proof. exists 10, 7, true, false. split; reflexivity. Qed.

Lemma marshal_concurrent_reader_except_FG1 raw enc s a :
  excl_FG1 raw enc = false -> marshal_size_check raw enc s a = true.
Proof.
  unfold excl_FG1, marshal_size_check, pass_len. intros H.
  apply negb_false_iff, Nat.eqb_eq in H. subst. destruct s, a; apply Nat.eqb_refl.
Qed.

(* without a concurrent reader both passes see the same state: the check always passes *)
Lemma marshal_sequential_ok raw enc s : marshal_size_check raw enc s s = true.
Proof. unfold marshal_size_check. apply Nat.eqb_refl. Qed.
