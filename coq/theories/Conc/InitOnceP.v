(* C19 — proofs about the first-use protocols (InitOnceModel.v). *)
From Coq Require Import List Arith Bool Lia.
From PB Require Import Conc.InitOnceModel.
Import ListNotations.

Lemma iupd_same {A} (f : nat -> A) k v : iupd f k v k = v.
Proof. unfold iupd. now rewrite Nat.eqb_refl. Qed.
Lemma iupd_other {A} (f : nat -> A) k v x : x <> k -> iupd f k v x = f x.
Proof. unfold iupd. intros H. apply Nat.eqb_neq in H. now rewrite H. Qed.

Ltac split_tid u t :=
  let H := fresh "Hne" in
  destruct (Nat.eq_dec u t) as [->|H];
  [rewrite ?iupd_same in * | rewrite ?(iupd_other _ _ _ _ H) in *].

(* ======================================================================= (1) init once *)
Definition holds_pc (p : ipc) : bool :=
  match p with IRecheck | IBody | IStore | IUnlock => true | _ => false end.

Section InitOnce.
  Variable c : iconfig.

  Definition Done (s : istate) : Prop :=
    data s = body_len c /\ body_runs s = 1 /\ forall t, i_pc (ithr s t) <> IBody.

  Record IInv (s : istate) : Prop := {
    J_runs  : body_runs s <= 1;
    J_wad   : writes_after_done s = 0;
    J_hold  : forall t, holds_pc (i_pc (ithr s t)) = true -> mu s = Some t;
    J_body  : forall t, i_pc (ithr s t) = IBody ->
                body_runs s = 1 /\ flag s = false /\ data s <= body_len c;
    J_flag  : flag s = true ->
                Done s /\ flag_rel s = true /\
                (mu_rel s = true \/
                 exists h, mu s = Some h /\ i_pc (ithr s h) = IUnlock /\ i_knows (ithr s h) = true);
    J_knows : forall t, i_knows (ithr s t) = true -> Done s;
    J_murel : mu_rel s = true -> Done s;
    J_runs1 : body_runs s = 1 ->
                flag s = true \/ exists h, mu s = Some h /\ i_pc (ithr s h) = IBody;
    J_runs0 : body_runs s = 0 -> flag s = false /\ data s = 0;
    J_store : forall t, i_pc (ithr s t) = IStore -> i_knows (ithr s t) = true;
    J_unlock: forall t, i_pc (ithr s t) = IUnlock -> flag s = true /\ i_knows (ithr s t) = true;
    J_ret   : forall t, i_pc (ithr s t) = IRet -> flag s = true /\ i_knows (ithr s t) = true;
    J_K     : forall t, holds_pc (i_pc (ithr s t)) = true -> mu_rel s = true -> i_knows (ithr s t) = true;
    J_rets  : forall t r, In r (i_rets (ithr s t)) -> r = (true, true, body_len c)
  }.

  Lemma iinv_init : IInv iinit.
  Proof.
    constructor; cbn; intros; try discriminate; try tauto; try lia; auto.
  Qed.

  (* the holder of the mutex is unique *)
  Lemma holder_unique s t u :
    IInv s -> holds_pc (i_pc (ithr s t)) = true -> holds_pc (i_pc (ithr s u)) = true -> t = u.
  Proof.
    intros I Ht Hu. pose proof (J_hold s I t Ht). pose proof (J_hold s I u Hu). congruence.
  Qed.

  Ltac facts I t :=
    pose proof (J_hold _ I t); pose proof (J_body _ I t); pose proof (J_knows _ I t);
    pose proof (J_store _ I t); pose proof (J_unlock _ I t); pose proof (J_ret _ I t);
    pose proof (J_K _ I t); pose proof (J_rets _ I t).

  Ltac gfacts I :=
    pose proof (J_runs _ I); pose proof (J_wad _ I); pose proof (J_flag _ I);
    pose proof (J_murel _ I); pose proof (J_runs1 _ I); pose proof (J_runs0 _ I).

  (* steps that change only thread t's local state, without entering or leaving the
     lock-holding region and without touching knows, preserve Done *)
  Lemma Done_frame s s' :
    data s' = data s -> body_runs s' = body_runs s ->
    (forall u, i_pc (ithr s' u) = IBody -> i_pc (ithr s u) = IBody) ->
    Done s -> Done s'.
  Proof.
    intros Hd Hb Hp (A & B & C). repeat split; try congruence.
    intros u Hu. apply (C u). now apply Hp.
  Qed.

  Lemma iinv_step s t a s' : IInv s -> istep c s t a = Some s' -> IInv s'.
  Proof.
    intros I Hs. unfold istep in Hs.
    destruct (i_pc (ithr s t)) eqn:Hpc; destruct a; try discriminate.
    - (* IIdle, ICall *)
      injection Hs as <-.
      assert (DF : Done s -> Done (set_ithr s t (ipc_set (ithr s t) IFast))).
      { apply Done_frame; auto. intros u. cbn. split_tid u t; cbn; [discriminate | auto]. }
      constructor; cbn [set_ithr flag flag_rel mu mu_rel data body_runs writes_after_done ithr].
      + apply (J_runs s I).
      + apply (J_wad s I).
      + intros u H. split_tid u t; cbn in *; [discriminate | now apply (J_hold s I)].
      + intros u H. split_tid u t; cbn in *; [discriminate | now apply (J_body s I u)].
      + intros H. destruct (J_flag s I H) as (A & B & [C|(h & C1 & C2 & C3)]).
        split; [auto|]. split; [auto|]. now left.
        split; [auto|]. split; [auto|]. right. exists h.
        assert (h <> t) by (intros ->; congruence).
        rewrite iupd_other by auto. auto.
      + intros u H. apply DF. split_tid u t; cbn in *; now apply (J_knows s I _ H).
      + intros H. apply DF. now apply (J_murel s I).
      + intros H. destruct (J_runs1 s I H) as [A|(h & A & B)]; [now left|]. right. exists h.
        assert (h <> t) by (intros ->; congruence).
        rewrite iupd_other by auto. auto.
      + apply (J_runs0 s I).
      + intros u H. split_tid u t; cbn in *; [discriminate | now apply (J_store s I)].
      + intros u H. split_tid u t; cbn in *; [discriminate | now apply (J_unlock s I)].
      + intros u H. split_tid u t; cbn in *; [discriminate | now apply (J_ret s I)].
      + intros u H. split_tid u t; cbn in *; [discriminate | now apply (J_K s I)].
      + intros u r H. split_tid u t; cbn in *; now apply (J_rets s I _ r H).
    - (* IFast, AFast *)
      destruct (Bool.eqb saw_set (flag s)); [|discriminate].
      destruct (flag s) eqn:Hf; injection Hs as <-.
      + (* flag set: fast return; acquire edge from the store *)
        destruct (J_flag s I Hf) as (FD & FR & FM).
        assert (DF : Done s -> Done (set_ithr s t {| i_pc := IRet; i_knows := i_knows (ithr s t) || flag_rel s;
                                                     i_rets := i_rets (ithr s t) |})).
        { apply Done_frame; auto. intros u. cbn. split_tid u t; cbn; [discriminate | auto]. }
        constructor; cbn [set_ithr flag flag_rel mu mu_rel data body_runs writes_after_done ithr].
        * apply (J_runs s I).
        * apply (J_wad s I).
        * intros u H. split_tid u t; cbn in *; [discriminate | now apply (J_hold s I)].
        * intros u H. split_tid u t; cbn in *; [discriminate | now apply (J_body s I u)].
        * intros _. split; [auto|]. split; [auto|]. destruct FM as [C|(h & C1 & C2 & C3)]; [now left|].
          right. exists h. assert (h <> t) by (intros ->; congruence).
          rewrite iupd_other by auto. auto.
        * intros u H. now apply DF.
        * intros H. now apply DF.
        * intros H. now left.
        * intros H. destruct (J_runs0 s I H). congruence.
        * intros u H. split_tid u t; cbn in *; [discriminate | now apply (J_store s I)].
        * intros u H. split_tid u t; cbn in *; [discriminate | now apply (J_unlock s I)].
        * intros u H. split_tid u t; cbn in *; [|now apply (J_ret s I)].
          split; [auto|]. rewrite FR. apply orb_true_r.
        * intros u H. split_tid u t; cbn in *; [discriminate | now apply (J_K s I)].
        * intros u r H. split_tid u t; cbn in *; now apply (J_rets s I _ r H).
      + (* flag clear: go and lock *)
        assert (DF : Done s -> Done (set_ithr s t (ipc_set (ithr s t) ILock))).
        { apply Done_frame; auto. intros u. cbn. split_tid u t; cbn; [discriminate | auto]. }
        constructor; cbn [set_ithr flag flag_rel mu mu_rel data body_runs writes_after_done ithr].
        * apply (J_runs s I).
        * apply (J_wad s I).
        * intros u H. split_tid u t; cbn in *; [discriminate | now apply (J_hold s I)].
        * intros u H. split_tid u t; cbn in *; [discriminate | now apply (J_body s I u)].
        * congruence.
        * intros u H. apply DF. split_tid u t; cbn in *; now apply (J_knows s I _ H).
        * intros H. apply DF. now apply (J_murel s I).
        * intros H. destruct (J_runs1 s I H) as [A|(h & A & B)]; [congruence|]. right. exists h.
          assert (h <> t) by (intros ->; congruence).
          rewrite iupd_other by auto. auto.
        * apply (J_runs0 s I).
        * intros u H. split_tid u t; cbn in *; [discriminate | now apply (J_store s I)].
        * intros u H. split_tid u t; cbn in *; [discriminate | now apply (J_unlock s I)].
        * intros u H. split_tid u t; cbn in *; [discriminate | now apply (J_ret s I)].
        * intros u H. split_tid u t; cbn in *; [discriminate | now apply (J_K s I)].
        * intros u r H. split_tid u t; cbn in *; now apply (J_rets s I _ r H).
    - (* ILock, ALock *)
      destruct (mu s) eqn:Hmu; [discriminate|]. injection Hs as <-.
      assert (NH : forall u, holds_pc (i_pc (ithr s u)) = true -> False).
      { intros u H. pose proof (J_hold s I u H). congruence. }
      assert (DF : forall s', data s' = data s -> body_runs s' = body_runs s ->
                   ithr s' = iupd (ithr s) t {| i_pc := IRecheck; i_knows := i_knows (ithr s t) || mu_rel s;
                                                i_rets := i_rets (ithr s t) |} -> Done s -> Done s').
      { intros s1 A B E. apply Done_frame; auto. intros u. rewrite E. split_tid u t; cbn; [discriminate | auto]. }
      constructor; cbn [flag flag_rel mu mu_rel data body_runs writes_after_done ithr].
      + apply (J_runs s I).
      + apply (J_wad s I).
      + intros u H. split_tid u t; cbn in *; [reflexivity | exfalso; eauto].
      + intros u H. split_tid u t; cbn in *; [discriminate | now apply (J_body s I u)].
      + intros H. destruct (J_flag s I H) as (A & B & [C|(h & C1 & C2 & C3)]); [|congruence].
        split; [eapply DF; eauto; reflexivity|]. split; [auto|]. now left.
      + intros u H. eapply DF; eauto; try reflexivity. split_tid u t; cbn in *.
        * apply orb_true_iff in H. destruct H; [now apply (J_knows s I t) | now apply (J_murel s I)].
        * now apply (J_knows s I u).
      + intros H. eapply DF; eauto; try reflexivity. now apply (J_murel s I).
      + intros H. destruct (J_runs1 s I H) as [A|(h & A & B)]; [now left | congruence].
      + apply (J_runs0 s I).
      + intros u H. split_tid u t; cbn in *; [discriminate | now apply (J_store s I)].
      + intros u H. split_tid u t; cbn in *; [discriminate | now apply (J_unlock s I)].
      + intros u H. split_tid u t; cbn in *; [discriminate | now apply (J_ret s I)].
      + intros u H M. split_tid u t; cbn in *; [rewrite M; apply orb_true_r | exfalso; eauto].
      + intros u r H. split_tid u t; cbn in *; now apply (J_rets s I _ r H).
    - (* IRecheck, ARecheck *)
      assert (Hh : mu s = Some t) by (apply (J_hold s I); now rewrite Hpc).
      assert (OnlyMe : forall u, holds_pc (i_pc (ithr s u)) = true -> u = t).
      { intros u H. pose proof (J_hold s I u H). congruence. }
      set (dn := if recheck_data c then negb (Nat.eqb (body_runs s) 0) else flag s) in *.
      destruct (Bool.eqb done dn); [|discriminate].
      destruct dn eqn:Hdn.
      + (* already initialised *)
        injection Hs as <-.
        assert (Hflag : flag s = true).
        { subst dn. destruct (recheck_data c); [|exact Hdn].
          apply negb_true_iff, Nat.eqb_neq in Hdn.
          assert (B1 : body_runs s = 1) by (pose proof (J_runs s I); lia).
          destruct (J_runs1 s I B1) as [A|(h & A & B)]; [exact A|].
          assert (h = t) by congruence. subst h. congruence. }
        destruct (J_flag s I Hflag) as (FD & FR & FM).
        assert (Hmr : mu_rel s = true).
        { destruct FM as [C|(h & C1 & C2 & C3)]; [exact C|]. assert (h = t) by congruence. subst h. congruence. }
        assert (Hk : i_knows (ithr s t) = true) by (apply (J_K s I); [now rewrite Hpc | exact Hmr]).
        set (p' := if recheck_data c then IStore else IUnlock).
        assert (Hp' : p' = IStore \/ p' = IUnlock) by (unfold p'; destruct (recheck_data c); auto).
        assert (DF : Done s -> Done (set_ithr s t (ipc_set (ithr s t) p'))).
        { apply Done_frame; auto. intros u. cbn. split_tid u t; cbn; [destruct Hp' as [-> | ->]; discriminate | auto]. }
        constructor; cbn [set_ithr flag flag_rel mu mu_rel data body_runs writes_after_done ithr].
        * apply (J_runs s I).
        * apply (J_wad s I).
        * intros u H. split_tid u t; cbn in *; [exact Hh | now apply (J_hold s I)].
        * intros u H. split_tid u t; cbn in *; [destruct Hp' as [E|E]; rewrite E in H; discriminate | now apply (J_body s I u)].
        * intros _. split; [auto|]. split; [auto|]. now left.
        * intros u H. now apply DF.
        * intros H. now apply DF.
        * intros H. now left.
        * intros H. destruct (J_runs0 s I H). congruence.
        * intros u H. split_tid u t; cbn in *; [exact Hk | now apply (J_store s I)].
        * intros u H. split_tid u t; cbn in *; [split; auto | now apply (J_unlock s I)].
        * intros u H. split_tid u t; cbn in *; [destruct Hp' as [E|E]; rewrite E in H; discriminate | now apply (J_ret s I)].
        * intros u H M. split_tid u t; cbn in *; [exact Hk | now apply (J_K s I)].
        * intros u r H. split_tid u t; cbn in *; now apply (J_rets s I _ r H).
      + (* not initialised: enter the body *)
        injection Hs as <-.
        assert (B0 : body_runs s = 0).
        { subst dn. destruct (recheck_data c).
          - apply negb_false_iff, Nat.eqb_eq in Hdn. exact Hdn.
          - pose proof (J_runs s I). destruct (body_runs s) as [|[|n]] eqn:E; [reflexivity| |lia].
            destruct (J_runs1 s I E) as [A|(h & A & B)]; [congruence|].
            assert (h = t) by congruence. subst h. congruence. }
        destruct (J_runs0 s I B0) as [F0 D0].
        assert (NK : forall u, i_knows (ithr s u) = true -> False).
        { intros u H. destruct (J_knows s I u H) as (_ & B & _). lia. }
        assert (NM : mu_rel s = true -> False).
        { intros H. destruct (J_murel s I H) as (_ & B & _). lia. }
        constructor; cbn [flag flag_rel mu mu_rel data body_runs writes_after_done ithr].
        * lia.
        * apply (J_wad s I).
        * intros u H. split_tid u t; cbn in *; [exact Hh | now apply (J_hold s I)].
        * intros u H. split_tid u t; cbn in *; [split; [lia|]; split; [auto | lia]|].
          exfalso. assert (u = t) by (apply OnlyMe; now rewrite H). contradiction.
        * congruence.
        * intros u H. exfalso. split_tid u t; cbn in *; eauto.
        * intros H. exfalso. auto.
        * intros _. right. exists t. rewrite iupd_same. cbn. auto.
        * lia.
        * intros u H. split_tid u t; cbn in *; [discriminate | now apply (J_store s I)].
        * intros u H. split_tid u t; cbn in *; [discriminate | now apply (J_unlock s I)].
        * intros u H. split_tid u t; cbn in *; [discriminate | now apply (J_ret s I)].
        * intros u H M. exfalso. auto.
        * intros u r H. split_tid u t; cbn in *; now apply (J_rets s I _ r H).
    - (* IBody, ABody *)
      destruct (Nat.ltb (data s) (body_len c)) eqn:Hlt; [|discriminate]. apply Nat.ltb_lt in Hlt.
      destruct (J_body s I t Hpc) as (B1 & F0 & DL).
      injection Hs as <-.
      assert (ND : Done s -> False) by (intros (_ & _ & C); now apply (C t)).
      constructor; cbn [flag flag_rel mu mu_rel data body_runs writes_after_done ithr].
      + apply (J_runs s I).
      + rewrite F0. apply (J_wad s I).
      + apply (J_hold s I).
      + intros u H. destruct (J_body s I u H) as (A & B & C). repeat split; auto; lia.
      + congruence.
      + intros u H. exfalso. apply ND. now apply (J_knows s I u).
      + intros H. exfalso. apply ND. now apply (J_murel s I).
      + apply (J_runs1 s I).
      + lia.
      + apply (J_store s I).
      + apply (J_unlock s I).
      + apply (J_ret s I).
      + apply (J_K s I).
      + apply (J_rets s I).
    - (* IBody, AStore *)
      destruct (Nat.ltb (data s) (body_len c)) eqn:Hlt; [discriminate|]. apply Nat.ltb_ge in Hlt.
      destruct (J_body s I t Hpc) as (B1 & F0 & DL).
      assert (Hh : mu s = Some t) by (apply (J_hold s I); now rewrite Hpc).
      assert (OnlyMe : forall u, holds_pc (i_pc (ithr s u)) = true -> u = t).
      { intros u H. pose proof (J_hold s I u H). congruence. }
      injection Hs as <-.
      assert (DN : Done {| flag := true; flag_rel := true; mu := mu s; mu_rel := mu_rel s; data := data s;
                           body_runs := body_runs s; writes_after_done := writes_after_done s;
                           ithr := iupd (ithr s) t {| i_pc := IUnlock; i_knows := true;
                                                      i_rets := i_rets (ithr s t) |} |}).
      { repeat split; cbn; [lia | exact B1 |]. intros u H. split_tid u t; cbn in *; [discriminate|].
        assert (u = t) by (apply OnlyMe; now rewrite H). contradiction. }
      constructor; cbn [flag flag_rel mu mu_rel data body_runs writes_after_done ithr].
      + apply (J_runs s I).
      + apply (J_wad s I).
      + intros u H. split_tid u t; cbn in *; [exact Hh | now apply (J_hold s I)].
      + intros u H. split_tid u t; cbn in *; [discriminate|].
        exfalso. assert (u = t) by (apply OnlyMe; now rewrite H). contradiction.
      + intros _. split; [exact DN|]. split; [reflexivity|]. right. exists t. rewrite iupd_same. cbn. auto.
      + intros u H. exact DN.
      + intros H. exact DN.
      + intros _. now left.
      + lia.
      + intros u H. split_tid u t; cbn in *; [discriminate | now apply (J_store s I)].
      + intros u H. split_tid u t; cbn in *; [auto|]. destruct (J_unlock s I u H). congruence.
      + intros u H. split_tid u t; cbn in *; [discriminate|]. destruct (J_ret s I u H). congruence.
      + intros u H M. split_tid u t; cbn in *; [reflexivity | now apply (J_K s I)].
      + intros u r H. split_tid u t; cbn in *; now apply (J_rets s I _ r H).
    - (* IStore, AStore *)
      assert (Hh : mu s = Some t) by (apply (J_hold s I); now rewrite Hpc).
      assert (Hk : i_knows (ithr s t) = true) by now apply (J_store s I).
      pose proof (J_knows s I t Hk) as DS.
      injection Hs as <-. rewrite Hk.
      assert (DN : Done {| flag := true; flag_rel := true; mu := mu s; mu_rel := mu_rel s; data := data s;
                           body_runs := body_runs s; writes_after_done := writes_after_done s;
                           ithr := iupd (ithr s) t (ipc_set (ithr s t) IUnlock) |}).
      { revert DS. apply Done_frame; auto. intros u. cbn. split_tid u t; cbn; [discriminate | auto]. }
      constructor; cbn [flag flag_rel mu mu_rel data body_runs writes_after_done ithr].
      + apply (J_runs s I).
      + apply (J_wad s I).
      + intros u H. split_tid u t; cbn in *; [exact Hh | now apply (J_hold s I)].
      + intros u H. split_tid u t; cbn in *; [discriminate|].
        exfalso. destruct DS as (_ & _ & C). now apply (C u).
      + intros _. split; [exact DN|]. split; [reflexivity|]. right. exists t. rewrite iupd_same. cbn. auto.
      + intros u H. exact DN.
      + intros H. exact DN.
      + intros _. now left.
      + destruct DS as (_ & B & _). lia.
      + intros u H. split_tid u t; cbn in *; [discriminate | now apply (J_store s I)].
      + intros u H. split_tid u t; cbn in *; [auto|]. destruct (J_unlock s I u H). auto.
      + intros u H. split_tid u t; cbn in *; [discriminate|]. destruct (J_ret s I u H). auto.
      + intros u H M. split_tid u t; cbn in *; [exact Hk | now apply (J_K s I)].
      + intros u r H. split_tid u t; cbn in *; now apply (J_rets s I _ r H).
    - (* IUnlock, AUnlock *)
      assert (Hh : mu s = Some t) by (apply (J_hold s I); now rewrite Hpc).
      destruct (J_unlock s I t Hpc) as [Hf Hk].
      assert (OnlyMe : forall u, holds_pc (i_pc (ithr s u)) = true -> u = t).
      { intros u H. pose proof (J_hold s I u H). congruence. }
      pose proof (J_knows s I t Hk) as DS.
      injection Hs as <-. rewrite Hk, orb_true_r.
      assert (DN : Done {| flag := flag s; flag_rel := flag_rel s; mu := None; mu_rel := true; data := data s;
                           body_runs := body_runs s; writes_after_done := writes_after_done s;
                           ithr := iupd (ithr s) t (ipc_set (ithr s t) IRet) |}).
      { revert DS. apply Done_frame; auto. intros u. cbn. split_tid u t; cbn; [discriminate | auto]. }
      constructor; cbn [flag flag_rel mu mu_rel data body_runs writes_after_done ithr].
      + apply (J_runs s I).
      + apply (J_wad s I).
      + intros u H. split_tid u t; cbn in *; [discriminate|].
        exfalso. assert (u = t) by (apply OnlyMe; exact H). contradiction.
      + intros u H. split_tid u t; cbn in *; [discriminate|].
        exfalso. destruct DS as (_ & _ & C). now apply (C u).
      + intros _. split; [exact DN|]. split; [apply (J_flag s I Hf)|]. now left.
      + intros u H. exact DN.
      + intros H. exact DN.
      + intros _. now left.
      + destruct DS as (_ & B & _). lia.
      + intros u H. split_tid u t; cbn in *; [discriminate | now apply (J_store s I)].
      + intros u H. split_tid u t; cbn in *; [discriminate | now apply (J_unlock s I)].
      + intros u H. split_tid u t; cbn in *; [auto | now apply (J_ret s I)].
      + intros u H M. split_tid u t; cbn in *; [discriminate|].
        exfalso. assert (u = t) by (apply OnlyMe; exact H). contradiction.
      + intros u r H. split_tid u t; cbn in *; now apply (J_rets s I _ r H).
    - (* IRet, ARet *)
      destruct (J_ret s I t Hpc) as [Hf Hk].
      destruct (J_knows s I t Hk) as (DD & DB & DP).
      injection Hs as <-.
      assert (DF : Done s -> Done (set_ithr s t {| i_pc := IIdle; i_knows := i_knows (ithr s t);
                     i_rets := (flag s, i_knows (ithr s t), data s) :: i_rets (ithr s t) |})).
      { apply Done_frame; auto. intros u. cbn. split_tid u t; cbn; [discriminate | auto]. }
      constructor; cbn [set_ithr flag flag_rel mu mu_rel data body_runs writes_after_done ithr].
      + apply (J_runs s I).
      + apply (J_wad s I).
      + intros u H. split_tid u t; cbn in *; [discriminate | now apply (J_hold s I)].
      + intros u H. split_tid u t; cbn in *; [discriminate | now apply (J_body s I u)].
      + intros H. destruct (J_flag s I H) as (A & B & [C|(h & C1 & C2 & C3)]).
        split; [auto|]. split; [auto|]. now left.
        split; [auto|]. split; [auto|]. right. exists h.
        assert (h <> t) by (intros ->; congruence).
        rewrite iupd_other by auto. auto.
      + intros u H. apply DF. split_tid u t; cbn in *; now apply (J_knows s I _ H).
      + intros H. apply DF. now apply (J_murel s I).
      + intros H. now left.
      + intros H. lia.
      + intros u H. split_tid u t; cbn in *; [discriminate | now apply (J_store s I)].
      + intros u H. split_tid u t; cbn in *; [discriminate | now apply (J_unlock s I)].
      + intros u H. split_tid u t; cbn in *; [discriminate | now apply (J_ret s I)].
      + intros u H. split_tid u t; cbn in *; [discriminate | now apply (J_K s I)].
      + intros u r H. split_tid u t; cbn in *; [|now apply (J_rets s I _ r H)].
        destruct H as [<-|H]; [|now apply (J_rets s I _ r H)].
        rewrite Hf, Hk, DD. reflexivity.
  Qed.

  Lemma iinv_run tr : forall s s', IInv s -> irun_trace c tr s = Some s' -> IInv s'.
  Proof.
    induction tr as [|e r IH]; cbn; intros s s' I H.
    - now injection H as <-.
    - destruct (istep c s (ie_tid e) (ie_act e)) eqn:E; [|discriminate].
      eapply IH; [|exact H]. eapply iinv_step; eauto.
  Qed.

  Lemma iinv_reachable s : ireachable c s -> IInv s.
  Proof. intros [tr H]. eapply iinv_run; [apply iinv_init | exact H]. Qed.

  (* The initialisation body is entered at most once, by a thread holding the
     mutex, and nothing is written to the initialised data after the flag is set. *)
  Theorem init_body_at_most_once s :
    ireachable c s ->
    body_runs s <= 1 /\ writes_after_done s = 0 /\
    (forall t u, i_pc (ithr s t) = IBody -> i_pc (ithr s u) = IBody -> t = u) /\
    (forall t, i_pc (ithr s t) = IBody -> mu s = Some t /\ flag s = false).
  Proof.
    intros R. pose proof (iinv_reachable s R) as I.
    split; [apply (J_runs s I)|]. split; [apply (J_wad s I)|]. split.
    - intros t u Ht Hu. eapply holder_unique; eauto; [now rewrite Ht | now rewrite Hu].
    - intros t Ht. split; [apply (J_hold s I); now rewrite Ht | apply (J_body s I t Ht)].
  Qed.

  (* Every return from init — by the fast path, after waiting for the lock, or
     after running the body — saw the flag set, has a happens-before edge from
     the completed body, and reads the completely initialised data. *)
  Theorem return_implies_initialized s :
    ireachable c s ->
    forall t r, In r (i_rets (ithr s t)) -> r = (true, true, body_len c).
  Proof. intros R. apply (J_rets s (iinv_reachable s R)). Qed.

  (* the same at the moment of return, and for a thread that merely knows *)
  Theorem returning_thread_synchronised s :
    ireachable c s ->
    forall t, i_pc (ithr s t) = IRet \/ i_knows (ithr s t) = true ->
      data s = body_len c /\ body_runs s = 1 /\ (forall u, i_pc (ithr s u) <> IBody).
  Proof.
    intros R t [H|H]; pose proof (iinv_reachable s R) as I.
    - destruct (J_ret s I t H) as [_ K]. apply (J_knows s I t K).
    - apply (J_knows s I t H).
  Qed.
End InitOnce.

(* ---- executable checkers *)
Lemma irun_trace_app c tr1 : forall tr2 s s1,
  irun_trace c tr1 s = Some s1 -> irun_trace c (tr1 ++ tr2) s = irun_trace c tr2 s1.
Proof.
  induction tr1 as [|e r IH]; cbn; intros tr2 s s1 H.
  - now injection H as <-.
  - destruct (istep c s (ie_tid e) (ie_act e)); [|discriminate]. now apply IH.
Qed.

Lemma ireachable_step c s t a s' : ireachable c s -> istep c s t a = Some s' -> ireachable c s'.
Proof.
  intros [tr H] E. exists (tr ++ [{| ie_tid := t; ie_act := a |}]).
  erewrite irun_trace_app by exact H. cbn. now rewrite E.
Qed.

Lemma ifinish_call_reach c fuel : forall s t s',
  ireachable c s -> ifinish_call c fuel s t = Some s' -> ireachable c s'.
Proof.
  induction fuel as [|k IH]; intros s t s' R H; cbn in H.
  - destruct (i_pc (ithr s t)); try discriminate. now injection H as <-.
  - destruct (i_pc (ithr s t)); try (now injection H as <-);
      (destruct (inext_action c s t) as [a|]; [|discriminate];
       destruct (istep c s t a) eqn:E; [|discriminate];
       eapply IH; [|exact H]; eapply ireachable_step; eauto).
Qed.

Lemma icall_solo_reach c s t s' : ireachable c s -> icall_solo c s t = Some s' -> ireachable c s'.
Proof.
  unfold icall_solo. intros R. destruct (i_pc (ithr s t)); try discriminate.
  destruct (istep c s t ICall) eqn:E; [|discriminate].
  apply ifinish_call_reach. eapply ireachable_step; eauto.
Qed.

(* the observation checker accepts only executions in which every call saw the initialised state *)
Theorem icheck_observed_sound c os : forall s,
  ireachable c s -> icheck_observed c os s = true -> forall t saw, In (t, saw) os -> saw = true.
Proof.
  induction os as [|[t0 saw0] r IH]; cbn; intros s R H t saw Hin; [tauto|].
  destruct (icall_solo c s t0) as [s1|] eqn:E; [|discriminate].
  pose proof (icall_solo_reach _ _ _ _ R E) as R1.
  destruct (i_rets (ithr s1 t0)) as [|[[f k] d] rest] eqn:Hr; [discriminate|].
  apply andb_prop in H. destruct H as [H1 H2].
  destruct Hin as [Hin|Hin]; [|eapply IH; eauto].
  injection Hin as <- <-.
  assert (X : (f, k, d) = (true, true, body_len c)).
  { apply (return_implies_initialized c s1 R1 t0). rewrite Hr. now left. }
  injection X as -> -> ->. rewrite Nat.eqb_refl in H1. cbn in H1. now apply eqb_prop in H1.
Qed.

Lemma irun_schedule_trace c sched : forall s acc s0 s' tr,
  irun_trace c (rev acc) s0 = Some s ->
  irun_schedule c sched s acc = Some (s', tr) ->
  irun_trace c tr s0 = Some s'.
Proof.
  induction sched as [|t r IH]; cbn; intros s acc s0 s' tr Hacc H.
  - injection H as <- <-. exact Hacc.
  - destruct (inext_action c s t) as [a|]; [|eapply IH; eauto].
    destruct (istep c s t a) eqn:E; [|discriminate].
    eapply IH; [|exact H]. cbn [rev]. erewrite irun_trace_app by exact Hacc. cbn. now rewrite E.
Qed.

(* ======================================================================= (2) registry *)
Definition prefix (a b : list nat) : Prop := exists r, b = a ++ r.

Lemma prefix_refl a : prefix a a.
Proof. exists []. now rewrite app_nil_r. Qed.
Lemma prefix_trans a b d : prefix a b -> prefix b d -> prefix a d.
Proof. intros [r ->] [r' ->]. exists (r ++ r'). now rewrite app_assoc. Qed.
Lemma prefix_app a r : prefix a (a ++ r).
Proof. now exists r. Qed.

Lemma in_remove_one t u l : u <> t -> In u l -> In u (remove_one t l).
Proof.
  intros Hne. induction l as [|x r IH]; cbn; [tauto|].
  destruct (Nat.eqb x t) eqn:E; intros [->|H]; auto.
  - apply Nat.eqb_eq in E. congruence.
  - now left.
  - right. auto.
Qed.

Lemma contents_app c a b : contents c (a ++ b) = contents c a ++ contents c b.
Proof. unfold contents. apply flat_map_app. Qed.

Section Registry.
  Variable c : rconfig.

  Definition seen_ok (s : rstate) (pre seen : list nat) : Prop :=
    exists C, seen = contents c C /\ prefix pre C /\ prefix C (completed s).

  Record RInv (s : rstate) : Prop := {
    R_free  : writer s = None -> rmap s = contents c (completed s) /\ started s = completed s;
    R_write : forall w, writer s = Some w ->
                readers s = [] /\
                exists r todo, r_pc (rthr s w) = RWIns r todo /\
                  rmap s ++ todo = contents c (completed s ++ [r]) /\ started s = completed s ++ [r];
    R_ins   : forall t r todo, r_pc (rthr s t) = RWIns r todo -> writer s = Some t;
    R_held  : forall t, r_pc (rthr s t) = RRHeld \/ r_pc (rthr s t) = RRRel -> In t (readers s);
    R_pre   : forall t, r_pc (rthr s t) = RRWait \/ r_pc (rthr s t) = RRHeld ->
                prefix (r_pre (rthr s t)) (completed s);
    R_seen  : forall t, r_pc (rthr s t) = RRRel -> seen_ok s (r_pre (rthr s t)) (r_seen (rthr s t));
    R_done  : forall t lk, In lk (r_done (rthr s t)) -> seen_ok s (l_pre lk) (l_seen lk)
  }.

  Lemma rinv_init : RInv rinit.
  Proof.
    constructor; cbn; intros; try discriminate; try tauto; auto.
    all: try (destruct H; discriminate).
  Qed.

  Lemma seen_ok_mono s s' pre seen :
    prefix (completed s) (completed s') -> seen_ok s pre seen -> seen_ok s' pre seen.
  Proof. intros P (C & A & B & D). exists C. repeat split; auto. eapply prefix_trans; eauto. Qed.

  Lemma rinv_step s t a s' : RInv s -> rstep c s t a = Some s' -> RInv s'.
  Proof.
    intros I Hs. unfold rstep in Hs.
    destruct (r_pc (rthr s t)) as [|r|r [|x todo]| | |] eqn:Hpc; destruct a; try discriminate.
    - (* RIdle, RCallRegister *)
      injection Hs as <-.
      constructor; cbn [set_rthr rmap completed started writer readers rthr].
      + apply (R_free s I).
      + intros w H. destruct (R_write s I w H) as (A & r0 & todo & B & C).
        split; [exact A|]. exists r0, todo.
        assert (w <> t) by (intros ->; congruence). rewrite iupd_other by auto. auto.
      + intros u r0 todo H. split_tid u t; cbn in *; [discriminate | now apply (R_ins s I u r0 todo)].
      + intros u H. split_tid u t; cbn in *; [destruct H; discriminate | now apply (R_held s I)].
      + intros u H. split_tid u t; cbn in *; [destruct H; discriminate | now apply (R_pre s I)].
      + intros u H. split_tid u t; cbn in *; [discriminate | now apply (R_seen s I)].
      + intros u lk H. split_tid u t; cbn in *; now apply (R_done s I _ lk H).
    - (* RIdle, RCallLookup *)
      injection Hs as <-.
      constructor; cbn [set_rthr rmap completed started writer readers rthr].
      + apply (R_free s I).
      + intros w H. destruct (R_write s I w H) as (A & r0 & todo & B & C).
        split; [exact A|]. exists r0, todo.
        assert (w <> t) by (intros ->; congruence). rewrite iupd_other by auto. auto.
      + intros u r0 todo H. split_tid u t; cbn in *; [discriminate | now apply (R_ins s I u r0 todo)].
      + intros u H. split_tid u t; cbn in *; [destruct H; discriminate | now apply (R_held s I)].
      + intros u H. split_tid u t; cbn in *; [apply prefix_refl | now apply (R_pre s I)].
      + intros u H. split_tid u t; cbn in *; [discriminate | now apply (R_seen s I)].
      + intros u lk H. split_tid u t; cbn in *; now apply (R_done s I _ lk H).
    - (* RWWait, RWLock *)
      destruct (writer s) eqn:Hw; [discriminate|]. destruct (readers s) eqn:Hr; [|discriminate].
      injection Hs as <-. destruct (R_free s I Hw) as [F1 F2].
      assert (NoR : forall u, r_pc (rthr s u) = RRHeld \/ r_pc (rthr s u) = RRRel -> False).
      { intros u H. pose proof (R_held s I u H) as X. rewrite Hr in X. exact X. }
      constructor; cbn [rmap completed started writer readers rthr].
      + discriminate.
      + intros w [= <-]. split; [reflexivity|]. exists r, (items c r). rewrite iupd_same. cbn.
        split; [reflexivity|]. split; [|congruence].
        rewrite contents_app, F1. cbn. now rewrite app_nil_r.
      + intros u r0 todo H. split_tid u t; cbn in *; [reflexivity|].
        pose proof (R_ins s I u r0 todo H). congruence.
      + intros u H. exfalso. split_tid u t; cbn in *; [destruct H; discriminate | eauto].
      + intros u H. split_tid u t; cbn in *; [destruct H; discriminate | now apply (R_pre s I)].
      + intros u H. exfalso. split_tid u t; cbn in *; [discriminate | eauto].
      + intros u lk H. split_tid u t; cbn in *; now apply (R_done s I _ lk H).
    - (* RWIns [], RWUnlock *)
      injection Hs as <-.
      pose proof (R_ins s I t r _ Hpc) as Hw.
      destruct (R_write s I t Hw) as (A & r0 & todo0 & B & C & D).
      rewrite Hpc in B. injection B as <- <-. rewrite app_nil_r in C.
      assert (P : prefix (completed s) (completed s ++ [r])) by apply prefix_app.
      constructor; cbn [rmap completed started writer readers rthr].
      + intros _. split; [exact C | exact D].
      + discriminate.
      + intros u r0 todo0 H. split_tid u t; cbn in *; [discriminate|].
        pose proof (R_ins s I u r0 todo0 H). congruence.
      + intros u H. split_tid u t; cbn in *; [destruct H; discriminate | now apply (R_held s I)].
      + intros u H. split_tid u t; cbn in *; [destruct H; discriminate|].
        eapply prefix_trans; [now apply (R_pre s I)|exact P].
      + intros u H. split_tid u t; cbn in *; [discriminate|].
        eapply seen_ok_mono with (s := s); [exact P | now apply (R_seen s I)].
      + intros u lk H.
        eapply seen_ok_mono with (s := s); [exact P|].
        split_tid u t; cbn in *; now apply (R_done s I _ lk H).
    - (* RWIns (x :: todo), RInsert *)
      injection Hs as <-.
      pose proof (R_ins s I t r _ Hpc) as Hw.
      destruct (R_write s I t Hw) as (A & r0 & todo0 & B & C & D).
      rewrite Hpc in B. injection B as <- <-.
      constructor; cbn [rmap completed started writer readers rthr].
      + congruence.
      + intros w H. assert (w = t) by congruence. subst w. split; [exact A|].
        exists r, todo. rewrite iupd_same. cbn. split; [reflexivity|]. split; [|exact D].
        rewrite <- app_assoc. exact C.
      + intros u r0 todo0 H. split_tid u t; cbn in *; [exact Hw | now apply (R_ins s I u r0 todo0)].
      + intros u H. split_tid u t; cbn in *; [destruct H; discriminate | now apply (R_held s I)].
      + intros u H. split_tid u t; cbn in *; [destruct H; discriminate | now apply (R_pre s I)].
      + intros u H. split_tid u t; cbn in *; [discriminate | now apply (R_seen s I)].
      + intros u lk H. split_tid u t; cbn in *; now apply (R_done s I _ lk H).
    - (* RRWait, RRLock *)
      destruct (writer s) eqn:Hw; [discriminate|]. injection Hs as <-.
      constructor; cbn [rmap completed started writer readers rthr].
      + intros _. now apply (R_free s I).
      + discriminate.
      + intros u r0 todo0 H. split_tid u t; cbn in *; [discriminate|].
        pose proof (R_ins s I u r0 todo0 H). congruence.
      + intros u H. split_tid u t; cbn in *; [now left | right; now apply (R_held s I)].
      + intros u H. split_tid u t; cbn in *; [apply (R_pre s I t); now left | now apply (R_pre s I)].
      + intros u H. split_tid u t; cbn in *; [discriminate | now apply (R_seen s I)].
      + intros u lk H. split_tid u t; cbn in *; now apply (R_done s I _ lk H).
    - (* RRHeld, RRead *)
      injection Hs as <-.
      assert (Hin : In t (readers s)) by (apply (R_held s I); now left).
      assert (Hw : writer s = None).
      { destruct (writer s) as [w|] eqn:E; [|reflexivity].
        destruct (R_write s I w E) as [A _]. rewrite A in Hin. destruct Hin. }
      destruct (R_free s I Hw) as [F1 F2].
      constructor; cbn [set_rthr rmap completed started writer readers rthr].
      + apply (R_free s I).
      + intros w H. congruence.
      + intros u r0 todo0 H. split_tid u t; cbn in *; [discriminate | now apply (R_ins s I u r0 todo0)].
      + intros u H. split_tid u t; cbn in *; [exact Hin | now apply (R_held s I)].
      + intros u H. split_tid u t; cbn in *; [destruct H; discriminate | now apply (R_pre s I)].
      + intros u H. split_tid u t; cbn in *; [|now apply (R_seen s I)].
        exists (completed s). split; [exact F1|]. split; [apply (R_pre s I t); now right | apply prefix_refl].
      + intros u lk H. split_tid u t; cbn in *; now apply (R_done s I _ lk H).
    - (* RRRel, RRUnlock *)
      injection Hs as <-.
      pose proof (R_seen s I t Hpc) as SK.
      constructor; cbn [rmap completed started writer readers rthr].
      + apply (R_free s I).
      + intros w H. destruct (R_write s I w H) as (A & r0 & todo & B & C).
        split; [rewrite A; reflexivity|]. exists r0, todo.
        assert (w <> t) by (intros ->; congruence). rewrite iupd_other by auto. auto.
      + intros u r0 todo0 H. split_tid u t; cbn in *; [discriminate | now apply (R_ins s I u r0 todo0)].
      + intros u H. split_tid u t; cbn in *; [destruct H; discriminate|].
        apply in_remove_one; [auto | now apply (R_held s I)].
      + intros u H. split_tid u t; cbn in *; [destruct H; discriminate | now apply (R_pre s I)].
      + intros u H. split_tid u t; cbn in *; [discriminate | now apply (R_seen s I)].
      + intros u lk H. split_tid u t; cbn in *; [|now apply (R_done s I _ lk H)].
        destruct H as [<-|H]; [exact SK | now apply (R_done s I _ lk H)].
  Qed.

  Lemma rinv_run tr : forall s s', RInv s -> rrun_trace c tr s = Some s' -> RInv s'.
  Proof.
    induction tr as [|e r IH]; cbn; intros s s' I H.
    - now injection H as <-.
    - destruct (rstep c s (re_tid e) (re_act e)) eqn:E; [|discriminate].
      eapply IH; [|exact H]. eapply rinv_step; eauto.
  Qed.

  Lemma rinv_reachable s : rreachable c s -> RInv s.
  Proof. intros [tr H]. eapply rinv_run; [apply rinv_init | exact H]. Qed.

  (* Every finished lookup saw exactly the items of a prefix C of the sequence
     of completed registrations, and C contains every registration that had
     completed when the lookup was invoked: it sees all registrations completed
     before it started, only completed ones, each of them entirely. *)
  Theorem registry_lookup_sees_completed_registrations s :
    rreachable c s ->
    forall t lk, In lk (r_done (rthr s t)) ->
      exists C, l_seen lk = contents c C /\ prefix (l_pre lk) C /\ prefix C (completed s).
  Proof. intros R t lk H. exact (R_done s (rinv_reachable s R) t lk H). Qed.

  Lemma prefix_comparable (a b d : list nat) : prefix a d -> prefix b d -> prefix a b \/ prefix b a.
  Proof.
    revert b d. induction a as [|x a IH]; intros b d [r ->] [r' H].
    - left. now exists b.
    - destruct b as [|y b]; [right; now exists (x :: a)|].
      cbn in H. injection H as -> H.
      destruct (IH b (a ++ r) (prefix_app a r) (ex_intro _ r' H)) as [[q ->]|[q ->]].
      + left. now exists q.
      + right. now exists q.
  Qed.

  (* Any two lookups, by any threads, are ordered: one saw a prefix of what the other saw. *)
  Theorem registry_lookups_totally_ordered s :
    rreachable c s ->
    forall t1 t2 k1 k2, In k1 (r_done (rthr s t1)) -> In k2 (r_done (rthr s t2)) ->
      (exists r, l_seen k2 = l_seen k1 ++ r) \/ (exists r, l_seen k1 = l_seen k2 ++ r).
  Proof.
    intros R t1 t2 k1 k2 H1 H2. pose proof (rinv_reachable s R) as I.
    destruct (R_done s I t1 k1 H1) as (C1 & E1 & _ & P1).
    destruct (R_done s I t2 k2 H2) as (C2 & E2 & _ & P2).
    destruct (prefix_comparable _ _ _ P1 P2) as [[q ->]|[q ->]].
    - left. exists (contents c q). now rewrite E1, E2, contents_app.
    - right. exists (contents c q). now rewrite E1, E2, contents_app.
  Qed.

  (* writers exclude everybody, readers exclude writers *)
  Theorem registry_mutual_exclusion s :
    rreachable c s ->
    (forall t u r1 d1 r2 d2, r_pc (rthr s t) = RWIns r1 d1 -> r_pc (rthr s u) = RWIns r2 d2 -> t = u) /\
    (forall t u r1 d1, r_pc (rthr s t) = RWIns r1 d1 ->
       r_pc (rthr s u) <> RRHeld /\ r_pc (rthr s u) <> RRRel).
  Proof.
    intros R. pose proof (rinv_reachable s R) as I. split.
    - intros t u r1 d1 r2 d2 H1 H2.
      pose proof (R_ins s I _ _ _ H1). pose proof (R_ins s I _ _ _ H2). congruence.
    - intros t u r1 d1 H1. pose proof (R_ins s I _ _ _ H1) as W.
      destruct (R_write s I t W) as [A _].
      split; intros H; (assert (X : In u (readers s)) by (apply (R_held s I); auto)); rewrite A in X; destruct X.
  Qed.
End Registry.

(* ------------------------------------------------------------------ witnesses *)
Definition ex_icfg (d : bool) : iconfig := {| body_len := 2; recheck_data := d |}.

(* threads 0 and 1 both miss the fast path; 0 initialises; 1 waits for the lock and re-checks;
   thread 2 arrives later and takes the fast path *)
Definition ex_itrace (d : bool) : list ievent :=
  map (fun p => {| ie_tid := fst p; ie_act := snd p |})
    ([ (0, ICall); (1, ICall); (0, AFast false); (1, AFast false); (0, ALock); (0, ARecheck false);
       (0, ABody); (0, ABody); (0, AStore); (2, ICall); (2, AFast true); (0, AUnlock);
       (1, ALock); (1, ARecheck true) ] ++
     (if d then [ (1, AStore) ] else []) ++
     [ (1, AUnlock); (0, ARet); (1, ARet); (2, ARet) ]).

Definition ex_istate (d : bool) : istate :=
  match irun_trace (ex_icfg d) (ex_itrace d) iinit with Some s => s | None => iinit end.

Lemma ex_init_once d :
  ireachable (ex_icfg d) (ex_istate d) /\
  i_rets (ithr (ex_istate d) 0) = [(true, true, 2)] /\
  i_rets (ithr (ex_istate d) 1) = [(true, true, 2)] /\
  i_rets (ithr (ex_istate d) 2) = [(true, true, 2)] /\
  body_runs (ex_istate d) = 1.
Proof.
  split.
  - exists (ex_itrace d). unfold ex_istate.
    destruct (irun_trace (ex_icfg d) (ex_itrace d) iinit) eqn:E; [reflexivity|].
    destruct d; vm_compute in E; discriminate.
  - destruct d; vm_compute; auto.
Qed.

Definition ex_rcfg : rconfig := {| items := fun r => [10 * r; 10 * r + 1] |}.

(* thread 0 registers 1, thread 1 looks up while 0 is inserting (blocked until the unlock),
   thread 2 registers 2, thread 1 looks up again *)
Definition ex_rtrace : list revent :=
  map (fun p => {| re_tid := fst p; re_act := snd p |})
    [ (0, RCallRegister 1); (1, RCallLookup); (0, RWLock); (0, RInsert); (2, RCallRegister 2);
      (0, RInsert); (0, RWUnlock); (1, RRLock); (1, RRead); (1, RRUnlock);
      (2, RWLock); (2, RInsert); (2, RInsert); (2, RWUnlock);
      (1, RCallLookup); (1, RRLock); (1, RRead); (1, RRUnlock) ].

Definition ex_rstate : rstate :=
  match rrun_trace ex_rcfg ex_rtrace rinit with Some s => s | None => rinit end.

Lemma ex_registry :
  rreachable ex_rcfg ex_rstate /\
  r_done (rthr ex_rstate 1) =
    [ {| l_pre := [1; 2]; l_seen := [10; 11; 20; 21] |}; {| l_pre := []; l_seen := [10; 11] |} ] /\
  completed ex_rstate = [1; 2].
Proof.
  split.
  - exists ex_rtrace. unfold ex_rstate.
    destruct (rrun_trace ex_rcfg ex_rtrace rinit) eqn:E; [reflexivity|].
    vm_compute in E. discriminate.
  - vm_compute. auto.
Qed.

(* a reader cannot take the lock while a writer is inserting: the step is not enabled *)
Lemma ex_reader_blocked :
  exists s, rrun_trace ex_rcfg (firstn 4 ex_rtrace) rinit = Some s /\
            rstep ex_rcfg s 1 RRLock = None.
Proof.
  destruct (rrun_trace ex_rcfg (firstn 4 ex_rtrace) rinit) as [s|] eqn:E.
  - exists s. split; [reflexivity|]. vm_compute in E. injection E as <-. vm_compute. reflexivity.
  - vm_compute in E. discriminate.
Qed.

(* ------------------------------------------------------------------ robs_ok is what the model guarantees *)
Lemma subset_prefix a b : prefix a b -> subset a b = true.
Proof.
  intros [r ->]. unfold subset. apply forallb_forall. intros x Hx.
  apply existsb_exists. exists x. split; [apply in_or_app; now left | apply Nat.eqb_refl].
Qed.

(* for any two finished lookups of a reachable registry state there are registration
   sequences C1, C2 explaining what they saw, and the observation predicate holds of them *)
Theorem robs_ok_of_model c s :
  rreachable c s ->
  forall t1 t2 k1 k2, In k1 (r_done (rthr s t1)) -> In k2 (r_done (rthr s t2)) ->
  exists C1 C2, l_seen k1 = contents c C1 /\ l_seen k2 = contents c C2 /\
    robs_ok [(l_pre k1, C1); (l_pre k2, C2)] = true.
Proof.
  intros R t1 t2 k1 k2 H1 H2. pose proof (rinv_reachable c s R) as I.
  destruct (R_done c s I t1 k1 H1) as (C1 & E1 & Q1 & P1).
  destruct (R_done c s I t2 k2 H2) as (C2 & E2 & Q2 & P2).
  exists C1, C2. split; [exact E1|]. split; [exact E2|].
  unfold robs_ok. cbn [forallb fst snd].
  rewrite (subset_prefix _ _ Q1), (subset_prefix _ _ Q2), (subset_prefix _ _ (prefix_refl C1)),
    (subset_prefix _ _ (prefix_refl C2)).
  destruct (prefix_comparable _ _ _ P1 P2) as [P|P]; rewrite (subset_prefix _ _ P);
    cbn [andb orb]; rewrite ?orb_true_r; reflexivity.
Qed.
