(* C19 — models of the two synchronisation protocols behind "first use":
   (1) double-checked locking  (MessageInfo.init, File.lazyInit, sync.Once)
   (2) an RWMutex-guarded registry (protoregistry.GlobalFiles / GlobalTypes)
   Definitions only; proofs are in InitOnceP.v.

   (1) Code modelled

     internal/impl/message.go                       internal/filedesc/desc.go
       func (mi *MessageInfo) init() {                func (fd *File) lazyInit() *FileL2 {
         if atomic.LoadUint32(&mi.initDone) == 0 {      if atomic.LoadUint32(&fd.once) == 0 {   -- AFast b
           mi.initOnce() }                                fd.lazyInitOnce() }
       }                                                return fd.L2                            -- ARet
       func (mi *MessageInfo) initOnce() {            func (fd *File) lazyInitOnce() {
         mi.initMu.Lock()                               fd.mu.Lock()                            -- ALock
         defer mi.initMu.Unlock()
         if mi.initDone == 1 { return }                 if fd.L2 == nil {                       -- ARecheck b
         ... makeStructInfo / makeReflectFuncs ...        fd.lazyRawInit() }                    -- ABody (one step per part)
         atomic.StoreUint32(&mi.initDone, 1)            atomic.StoreUint32(&fd.once, 1)         -- AStore
       }                                                fd.mu.Unlock()                          -- AUnlock
                                                      }
     sync.Once (internal/filedesc/desc_list.go lazyInit of the name maps) has the shape of the
     left column.  The right column re-checks the *data* (L2 == nil) instead of the flag and
     stores the flag also when the re-check found the data initialised; [recheck_data] selects
     that variant.

   Memory model.  The data written by the body is ordinary memory.  The model tracks, per
   thread, whether it has a happens-before edge from the completed body ([knows]); such an
   edge is acquired only
     - by running the body itself,
     - by an atomic load that reads the value written by an atomic store of a thread that
       knew (release/acquire on the flag),
     - by locking the mutex after an unlock by a thread that knew (release/acquire on the
       mutex).
   These three rules ARE the assumption about Go's memory model (sync/atomic and sync.Mutex
   operations are synchronising, "The Go Memory Model", June 2022); they are assumed, not
   proved.  A thread that returns from init and reads the data without [knows] would be a
   data race; the theorem shows that cannot happen in the model. *)
From Coq Require Import List Arith Bool.
Import ListNotations.

Record iconfig := {
  body_len     : nat;    (* number of writes the initialisation body performs *)
  recheck_data : bool    (* true: the re-check under the lock reads the data (File.lazyInitOnce) *)
}.

Inductive ipc := IIdle | IFast | ILock | IRecheck | IBody | IStore | IUnlock | IRet.

Record ilocal := {
  i_pc    : ipc;
  i_knows : bool;                      (* has a happens-before edge from the completed body *)
  i_rets  : list (bool * bool * nat)   (* per return: (flag as last read, knows, data length read) *)
}.

Record istate := {
  flag        : bool;          (* initDone / once *)
  flag_rel    : bool;          (* the store that wrote the flag was made by a thread that knew *)
  mu          : option nat;    (* mutex holder *)
  mu_rel      : bool;          (* some earlier unlock was made by a thread that knew *)
  data        : nat;           (* number of body writes performed so far *)
  body_runs   : nat;           (* ghost: how many times a thread entered the body *)
  writes_after_done : nat;     (* ghost: body writes performed while the flag was already set *)
  ithr        : nat -> ilocal
}.

Inductive iaction :=
| ICall
| AFast (saw_set : bool)
| ALock
| ARecheck (done : bool)
| ABody
| AStore
| AUnlock
| ARet.

Record ievent := { ie_tid : nat; ie_act : iaction }.

Definition iupd {A} (f : nat -> A) (k : nat) (v : A) : nat -> A :=
  fun x => if Nat.eqb x k then v else f x.

Definition iinit : istate :=
  {| flag := false; flag_rel := false; mu := None; mu_rel := false; data := 0; body_runs := 0;
     writes_after_done := 0;
     ithr := fun _ => {| i_pc := IIdle; i_knows := false; i_rets := [] |} |}.

Definition set_ithr (s : istate) (t : nat) (l : ilocal) : istate :=
  {| flag := flag s; flag_rel := flag_rel s; mu := mu s; mu_rel := mu_rel s; data := data s;
     body_runs := body_runs s; writes_after_done := writes_after_done s;
     ithr := iupd (ithr s) t l |}.

Definition ipc_set (l : ilocal) (p : ipc) : ilocal :=
  {| i_pc := p; i_knows := i_knows l; i_rets := i_rets l |}.

Definition istep (c : iconfig) (s : istate) (t : nat) (a : iaction) : option istate :=
  let l := ithr s t in
  match i_pc l, a with
  | IIdle, ICall => Some (set_ithr s t (ipc_set l IFast))
  | IFast, AFast b =>
      if Bool.eqb b (flag s) then
        if flag s
        then Some (set_ithr s t {| i_pc := IRet; i_knows := i_knows l || flag_rel s; i_rets := i_rets l |})
        else Some (set_ithr s t (ipc_set l ILock))
      else None
  | ILock, ALock =>
      match mu s with
      | None =>
          Some {| flag := flag s; flag_rel := flag_rel s; mu := Some t; mu_rel := mu_rel s; data := data s;
                  body_runs := body_runs s; writes_after_done := writes_after_done s;
                  ithr := iupd (ithr s) t {| i_pc := IRecheck; i_knows := i_knows l || mu_rel s;
                                             i_rets := i_rets l |} |}
      | Some _ => None
      end
  | IRecheck, ARecheck b =>
      (* what the re-check reads: the flag, or whether the data is there (fd.L2 != nil: L2 is
         assigned by the first write of the body, and nobody else is in the body while this
         thread holds the lock, so "body has been entered" is what the test observes) *)
      let done := if recheck_data c then negb (Nat.eqb (body_runs s) 0) else flag s in
      if Bool.eqb b done then
        if done
        then Some (set_ithr s t (ipc_set l (if recheck_data c then IStore else IUnlock)))
        else Some {| flag := flag s; flag_rel := flag_rel s; mu := mu s; mu_rel := mu_rel s; data := data s;
                     body_runs := S (body_runs s); writes_after_done := writes_after_done s;
                     ithr := iupd (ithr s) t (ipc_set l IBody) |}
      else None
  | IBody, ABody =>
      if Nat.ltb (data s) (body_len c)
      then Some {| flag := flag s; flag_rel := flag_rel s; mu := mu s; mu_rel := mu_rel s; data := S (data s);
                   body_runs := body_runs s;
                   writes_after_done := if flag s then S (writes_after_done s) else writes_after_done s;
                   ithr := ithr s |}
      else None
  | IBody, AStore =>
      (* program order: the store follows the last write of the body *)
      if Nat.ltb (data s) (body_len c) then None
      else Some {| flag := true; flag_rel := true; mu := mu s; mu_rel := mu_rel s; data := data s;
                   body_runs := body_runs s; writes_after_done := writes_after_done s;
                   ithr := iupd (ithr s) t {| i_pc := IUnlock; i_knows := true; i_rets := i_rets l |} |}
  | IStore, AStore =>
      (* File.lazyInitOnce stores the flag also when it found the data initialised *)
      Some {| flag := true; flag_rel := i_knows l; mu := mu s; mu_rel := mu_rel s; data := data s;
              body_runs := body_runs s; writes_after_done := writes_after_done s;
              ithr := iupd (ithr s) t (ipc_set l IUnlock) |}
  | IUnlock, AUnlock =>
      Some {| flag := flag s; flag_rel := flag_rel s; mu := None; mu_rel := mu_rel s || i_knows l; data := data s;
              body_runs := body_runs s; writes_after_done := writes_after_done s;
              ithr := iupd (ithr s) t (ipc_set l IRet) |}
  | IRet, ARet =>
      Some (set_ithr s t {| i_pc := IIdle; i_knows := i_knows l;
                            i_rets := (flag s, i_knows l, data s) :: i_rets l |})
  | _, _ => None
  end.

Fixpoint irun_trace (c : iconfig) (tr : list ievent) (s : istate) : option istate :=
  match tr with
  | [] => Some s
  | e :: r => match istep c s (ie_tid e) (ie_act e) with
              | Some s' => irun_trace c r s'
              | None => None
              end
  end.

Definition ireachable (c : iconfig) (s : istate) : Prop :=
  exists tr, irun_trace c tr iinit = Some s.

(* scheduler-driven execution: the next action of thread t, if it is enabled *)
Definition inext_action (c : iconfig) (s : istate) (t : nat) : option iaction :=
  let l := ithr s t in
  match i_pc l with
  | IIdle => Some ICall
  | IFast => Some (AFast (flag s))
  | ILock => match mu s with None => Some ALock | Some _ => None end   (* blocked *)
  | IRecheck =>
      Some (ARecheck (if recheck_data c then negb (Nat.eqb (body_runs s) 0) else flag s))
  | IBody => Some (if Nat.ltb (data s) (body_len c) then ABody else AStore)
  | IStore => Some AStore
  | IUnlock => Some AUnlock
  | IRet => Some ARet
  end.

(* a schedule is a list of thread ids; a blocked thread's turn is skipped *)
Fixpoint irun_schedule (c : iconfig) (sched : list nat) (s : istate) (acc : list ievent)
  : option (istate * list ievent) :=
  match sched with
  | [] => Some (s, rev acc)
  | t :: r =>
    match inext_action c s t with
    | None => irun_schedule c r s acc
    | Some a =>
      match istep c s t a with
      | Some s' => irun_schedule c r s' ({| ie_tid := t; ie_act := a |} :: acc)
      | None => None
      end
    end
  end.

(* observable part of the invariant, evaluated on a state *)
Definition irets_ok (c : iconfig) (s : istate) (t : nat) : bool :=
  forallb (fun r : bool * bool * nat =>
             match r with (f, k, d) => f && k && Nat.eqb d (body_len c) end)
          (i_rets (ithr s t)).

Definition istate_ok (c : iconfig) (s : istate) (threads : list nat) : bool :=
  forallb (irets_ok c s) threads && Nat.leb (body_runs s) 1 && Nat.eqb (writes_after_done s) 0.

(* Validation of an observed execution of the implementation: the harness
   observes, per goroutine, that its calls returned and what it then saw (a
   digest class of the initialised data: 1 = same as the sequential run).  The
   checker runs the calls one after the other through the model (the first
   caller initialises, the others take the fast path) and compares. *)
Fixpoint ifinish_call (c : iconfig) (fuel : nat) (s : istate) (t : nat) : option istate :=
  match i_pc (ithr s t) with
  | IIdle => Some s
  | _ =>
    match fuel with
    | O => None
    | S k =>
      match inext_action c s t with
      | Some a => match istep c s t a with Some s' => ifinish_call c k s' t | None => None end
      | None => None
      end
    end
  end.

Definition icall_solo (c : iconfig) (s : istate) (t : nat) : option istate :=
  match i_pc (ithr s t) with
  | IIdle => match istep c s t ICall with
             | Some s1 => ifinish_call c (body_len c + 8) s1 t
             | None => None
             end
  | _ => None
  end.

(* obs: (thread, saw_initialised) *)
Fixpoint icheck_observed (c : iconfig) (os : list (nat * bool)) (s : istate) : bool :=
  match os with
  | [] => true
  | (t, saw) :: r =>
    match icall_solo c s t with
    | Some s' =>
      match i_rets (ithr s' t) with
      | (f, k, d) :: _ => Bool.eqb saw (f && k && Nat.eqb d (body_len c)) && icheck_observed c r s'
      | [] => false
      end
    | None => false
    end
  end.

(* ===========================================================================
   (2) RWMutex-guarded registry (reflect/protoregistry/registry.go, global registries)

     RegisterFile / RegisterMessage / ...        FindDescriptorByName / FindMessageByName / Range...
       globalMutex.Lock()          -- RWLock       globalMutex.RLock()          -- RRLock
       (conflict checks) insert... -- RInsert *    read the maps                -- RRead
       globalMutex.Unlock()        -- RWUnlock     globalMutex.RUnlock()        -- RRUnlock

   A registration r inserts the items [items r] one at a time while holding the
   write lock.  [completed] lists the registrations whose Unlock has happened,
   in order.  A lookup remembers the registrations completed when it was
   *invoked* ([l_pre]) and the snapshot of the map it read ([l_seen]). *)

Record rconfig := { items : nat -> list nat }.

Inductive rpc :=
| RIdle
| RWWait (r : nat) | RWIns (r : nat) (todo : list nat)
| RRWait | RRHeld | RRRel.

Record lookup := { l_pre : list nat; l_seen : list nat }.

Record rlocal := {
  r_pc : rpc;
  r_pre : list nat;            (* completed registrations at invocation of the current lookup *)
  r_seen : list nat;           (* map snapshot read by the current lookup *)
  r_done : list lookup         (* finished lookups, most recent first *)
}.

Record rstate := {
  rmap      : list nat;        (* the registry's contents (items), in insertion order *)
  completed : list nat;        (* registrations whose write-unlock has happened, in order *)
  started   : list nat;        (* registrations that acquired the write lock, in order *)
  writer    : option nat;
  readers   : list nat;        (* threads holding the read lock *)
  rthr      : nat -> rlocal
}.

Inductive raction :=
| RCallRegister (r : nat) | RWLock | RInsert | RWUnlock
| RCallLookup | RRLock | RRead | RRUnlock.

Record revent := { re_tid : nat; re_act : raction }.

Definition rinit : rstate :=
  {| rmap := []; completed := []; started := []; writer := None; readers := [];
     rthr := fun _ => {| r_pc := RIdle; r_pre := []; r_seen := []; r_done := [] |} |}.

Definition rpc_set (l : rlocal) (p : rpc) : rlocal :=
  {| r_pc := p; r_pre := r_pre l; r_seen := r_seen l; r_done := r_done l |}.

Definition set_rthr (s : rstate) (t : nat) (l : rlocal) : rstate :=
  {| rmap := rmap s; completed := completed s; started := started s; writer := writer s;
     readers := readers s; rthr := iupd (rthr s) t l |}.

Fixpoint remove_one (t : nat) (l : list nat) : list nat :=
  match l with
  | [] => []
  | x :: r => if Nat.eqb x t then r else x :: remove_one t r
  end.

Definition rstep (c : rconfig) (s : rstate) (t : nat) (a : raction) : option rstate :=
  let l := rthr s t in
  match r_pc l, a with
  | RIdle, RCallRegister r => Some (set_rthr s t (rpc_set l (RWWait r)))
  | RWWait r, RWLock =>
      match writer s, readers s with
      | None, [] =>
          Some {| rmap := rmap s; completed := completed s; started := started s ++ [r];
                  writer := Some t; readers := [];
                  rthr := iupd (rthr s) t (rpc_set l (RWIns r (items c r))) |}
      | _, _ => None
      end
  | RWIns r (x :: todo), RInsert =>
      Some {| rmap := rmap s ++ [x]; completed := completed s; started := started s;
              writer := writer s; readers := readers s;
              rthr := iupd (rthr s) t (rpc_set l (RWIns r todo)) |}
  | RWIns r [], RWUnlock =>
      Some {| rmap := rmap s; completed := completed s ++ [r]; started := started s;
              writer := None; readers := readers s;
              rthr := iupd (rthr s) t (rpc_set l RIdle) |}
  | RIdle, RCallLookup =>
      Some (set_rthr s t {| r_pc := RRWait; r_pre := completed s; r_seen := []; r_done := r_done l |})
  | RRWait, RRLock =>
      match writer s with
      | None =>
          Some {| rmap := rmap s; completed := completed s; started := started s;
                  writer := None; readers := t :: readers s;
                  rthr := iupd (rthr s) t (rpc_set l RRHeld) |}
      | Some _ => None
      end
  | RRHeld, RRead =>
      Some (set_rthr s t {| r_pc := RRRel; r_pre := r_pre l; r_seen := rmap s; r_done := r_done l |})
  | RRRel, RRUnlock =>
      Some {| rmap := rmap s; completed := completed s; started := started s;
              writer := writer s; readers := remove_one t (readers s);
              rthr := iupd (rthr s) t {| r_pc := RIdle; r_pre := []; r_seen := [];
                                         r_done := {| l_pre := r_pre l; l_seen := r_seen l |} :: r_done l |} |}
  | _, _ => None
  end.

Fixpoint rrun_trace (c : rconfig) (tr : list revent) (s : rstate) : option rstate :=
  match tr with
  | [] => Some s
  | e :: r => match rstep c s (re_tid e) (re_act e) with
              | Some s' => rrun_trace c r s'
              | None => None
              end
  end.

Definition rreachable (c : rconfig) (s : rstate) : Prop :=
  exists tr, rrun_trace c tr rinit = Some s.

Definition contents (c : rconfig) (rs : list nat) : list nat := flat_map (items c) rs.

(* scheduler-driven execution; [arg] says what an idle thread does next:
   Some r = register r, None = lookup *)
Definition rnext_action (s : rstate) (t : nat) (arg : option nat) : option raction :=
  match r_pc (rthr s t) with
  | RIdle => Some (match arg with Some r => RCallRegister r | None => RCallLookup end)
  | RWWait _ => match writer s, readers s with None, [] => Some RWLock | _, _ => None end
  | RWIns _ (_ :: _) => Some RInsert
  | RWIns _ [] => Some RWUnlock
  | RRWait => match writer s with None => Some RRLock | Some _ => None end
  | RRHeld => Some RRead
  | RRRel => Some RRUnlock
  end.

Fixpoint rrun_schedule (c : rconfig) (sched : list (nat * option nat)) (s : rstate) : option rstate :=
  match sched with
  | [] => Some s
  | (t, arg) :: r =>
    match rnext_action s t arg with
    | None => rrun_schedule c r s
    | Some a => match rstep c s t a with
                | Some s' => rrun_schedule c r s'
                | None => None
                end
    end
  end.

Fixpoint list_eqb (a b : list nat) : bool :=
  match a, b with
  | [], [] => true
  | x :: a', y :: b' => Nat.eqb x y && list_eqb a' b'
  | _, _ => false
  end.

Fixpoint is_prefix (a b : list nat) : bool :=
  match a, b with
  | [], _ => true
  | x :: a', y :: b' => Nat.eqb x y && is_prefix a' b'
  | _ :: _, [] => false
  end.

(* is [seen] the contents of a prefix C of [comp] with [pre] a prefix of C ? *)
Fixpoint find_cut (c : rconfig) (pre seen : list nat) (k : nat) (comp : list nat) : bool :=
  (is_prefix pre (firstn k comp) && list_eqb seen (contents c (firstn k comp))) ||
  match k with
  | O => false
  | S k' => find_cut c pre seen k' comp
  end.

Definition lookup_ok (c : rconfig) (s : rstate) (lk : lookup) : bool :=
  find_cut c (l_pre lk) (l_seen lk) (length (completed s)) (completed s).

Definition rstate_ok (c : rconfig) (s : rstate) (threads : list nat) : bool :=
  forallb (fun t => forallb (lookup_ok c s) (r_done (rthr s t))) threads.

(* ---------------------------------------------------------------------------
   Predicate evaluated on observed registry executions.  The harness records, for
   every snapshot a goroutine took of the registry (one read-locked operation),
   the registrations that this goroutine itself had completed before ([fst]: a
   lower bound of "completed before the lookup started") and the registrations
   visible in the snapshot ([snd]).  In the model every snapshot is a prefix of
   one sequence of registrations, hence: own earlier registrations are visible,
   and any two snapshots are comparable by inclusion. *)
Definition subset (a b : list nat) : bool :=
  forallb (fun x => existsb (Nat.eqb x) b) a.

Definition robs_ok (os : list (list nat * list nat)) : bool :=
  forallb (fun o => subset (fst o) (snd o)) os &&
  forallb (fun o1 => forallb (fun o2 => subset (snd o1) (snd o2) || subset (snd o2) (snd o1)) os) os.
