(* Proofs about Text/DefvalModel.v (C39): Unmarshal (Marshal v) = v. *)
From Coq Require Import List Arith NArith ZArith Lia Bool.
From Coq Require Import ZifyBool ZifyNat ZifyN.
From PB Require Import Base.PBytes Base.Utf8Model Base.Utf8P Text.TextStrModel Text.TextStrP
  Text.TextFmtModel Text.TextFmtP Text.DefvalModel.
Ltac Zify.zify_post_hook ::= Z.div_mod_to_equations.
Import ListNotations.
Open Scope N_scope.

(* ---------- byte-string equality ---------- *)
Lemma b2n_inj a b : b2n a = b2n b -> a = b.
Proof. intros H. rewrite <- (n2b_b2n a), <- (n2b_b2n b). now rewrite H. Qed.

Lemma bytes_eqb_spec a : forall b, bytes_eqb a b = true <-> a = b.
Proof.
  unfold bytes_eqb. induction a as [|x a IH]; intros [|y b]; cbn [length combine forallb Nat.eqb fst snd];
    try (split; [discriminate|congruence]); [split; reflexivity|].
  specialize (IH b). rewrite andb_true_iff in *. rewrite andb_true_iff.
  split.
  - intros (Hl & Hx & Hf). f_equal; [apply b2n_inj; lia|]. apply IH. split; assumption.
  - intros [= -> ->]. destruct IH as [_ IH]. destruct (IH eq_refl). repeat split; try assumption. lia.
Qed.

Lemma bytes_eqb_refl a : bytes_eqb a a = true.
Proof. now apply bytes_eqb_spec. Qed.

Lemma bytes_eqb_neq a b : a <> b -> bytes_eqb a b = false.
Proof. intros H. destruct (bytes_eqb a b) eqn:E; [|reflexivity]. apply bytes_eqb_spec in E. congruence. Qed.

(* ---------- bool, string ---------- *)
Theorem defval_bool_roundtrip o f b :
  exists s, dv_marshal o (DBool b) None KBool f = Some s /\
            dv_unmarshal o s KBool [] f = Some (DBool b, None).
Proof. destruct f, b; eexists; split; reflexivity. Qed.

Theorem defval_string_roundtrip o f s evs :
  dv_marshal o (DString s) None KString f = Some s /\
  dv_unmarshal o s KString evs f = Some (DString s, None).
Proof. split; reflexivity. Qed.

(* ---------- integers ---------- *)
Theorem defval_int32_roundtrip o f z : (- 2 ^ 31 <= z < 2 ^ 31)%Z ->
  exists s, dv_marshal o (DInt32 z) None KInt32 f = Some s /\
            dv_unmarshal o s KInt32 [] f = Some (DInt32 z, None).
Proof.
  intros H. eexists. split; [reflexivity|]. cbn [dv_unmarshal].
  rewrite parse_fmt_int; [reflexivity|lia|exact H].
Qed.

Theorem defval_int64_roundtrip o f z : (- 2 ^ 63 <= z < 2 ^ 63)%Z ->
  exists s, dv_marshal o (DInt64 z) None KInt64 f = Some s /\
            dv_unmarshal o s KInt64 [] f = Some (DInt64 z, None).
Proof.
  intros H. eexists. split; [reflexivity|]. cbn [dv_unmarshal].
  rewrite parse_fmt_int; [reflexivity|lia|exact H].
Qed.

Theorem defval_uint32_roundtrip o f n : n < 2 ^ 32 ->
  exists s, dv_marshal o (DUint32 n) None KUint32 f = Some s /\
            dv_unmarshal o s KUint32 [] f = Some (DUint32 n, None).
Proof.
  intros H. eexists. split; [reflexivity|]. cbn [dv_unmarshal]. now rewrite parse_fmt_dec.
Qed.

Theorem defval_uint64_roundtrip o f n : n < 2 ^ 64 ->
  exists s, dv_marshal o (DUint64 n) None KUint64 f = Some s /\
            dv_unmarshal o s KUint64 [] f = Some (DUint64 n, None).
Proof.
  intros H. eexists. split; [reflexivity|]. cbn [dv_unmarshal]. now rewrite parse_fmt_dec.
Qed.

(* ---------- enums ---------- *)
Lemma by_name_in evs : NoDup (map fst evs) -> forall e, In e evs -> by_name evs (fst e) = Some e.
Proof.
  induction evs as [|x evs IH]; intros Hnd e Hin; [destruct Hin|].
  cbn [by_name]. inversion Hnd as [|? ? Hx Hnd']; subst.
  destruct Hin as [->|Hin]; [now rewrite bytes_eqb_refl|].
  rewrite bytes_eqb_neq; [now apply IH|].
  intros Heq. apply Hx. rewrite Heq. now apply in_map.
Qed.

Lemma by_number_in evs : forall e, In e evs -> exists e', by_number evs (snd e) = Some e' /\ snd e' = snd e /\ In e' evs.
Proof.
  induction evs as [|x evs IH]; intros e Hin; [destruct Hin|].
  cbn [by_number]. destruct (Z.eqb (snd x) (snd e)) eqn:E.
  - exists x. split; [reflexivity|]. split; [lia|now left].
  - destruct Hin as [->|Hin]; [lia|]. destruct (IH e Hin) as (e' & H1 & H2 & H3).
    exists e'. split; [assumption|]. split; [assumption|now right].
Qed.

(* Descriptor format: the value is named, so the very same enum value
   descriptor comes back; GoTag format: the number is written, and the first
   declared value with that number comes back. *)
Theorem defval_enum_roundtrip_descriptor o evs e :
  NoDup (map fst evs) -> In e evs ->
  exists s, dv_marshal o (DEnum (snd e)) (Some e) KEnum FDescriptor = Some s /\
            dv_unmarshal o s KEnum evs FDescriptor = Some (DEnum (snd e), Some e).
Proof.
  intros Hnd Hin. eexists. split; [reflexivity|]. cbn [dv_unmarshal]. now rewrite by_name_in.
Qed.

Theorem defval_enum_roundtrip_gotag o evs e ev :
  In e evs -> (- 2 ^ 31 <= snd e < 2 ^ 31)%Z ->
  exists s e', dv_marshal o (DEnum (snd e)) ev KEnum FGoTag = Some s /\
               dv_unmarshal o s KEnum evs FGoTag = Some (DEnum (snd e), Some e') /\
               by_number evs (snd e) = Some e' /\ In e' evs.
Proof.
  intros Hin Hr. destruct (by_number_in evs e Hin) as (e' & H1 & H2 & H3).
  exists (fmt_int (snd e)), e'. split; [reflexivity|]. cbn [dv_unmarshal].
  rewrite parse_fmt_int by (lia || exact Hr). rewrite H1, H2. repeat split; assumption.
Qed.

(* ---------- bytes ---------- *)
Lemma lt8_cases d : d < 8 -> d = 0 \/ d = 1 \/ d = 2 \/ d = 3 \/ d = 4 \/ d = 5 \/ d = 6 \/ d = 7.
Proof. lia. Qed.

Lemma pe_oct_unfold d t1 : d < 8 ->
  parse_escape (hexdig d) t1 =
  let t0 := hexdig d :: t1 in
  let n := count_pref is_octd 3 t0 in
  match parse_uint 8 (firstn n t0) with
  | Some v => if v <? 256 then EscOk [n2b v] (skipn n t0) else EscErr SSyntax
  | None => EscErr SSyntax
  end.
Proof. intros H. apply lt8_cases in H. repeat (destruct H as [->|H]); try subst d; reflexivity. Qed.

Lemma is_octd_hexdig d : d < 8 -> is_octd (hexdig d) = true.
Proof. intros H. apply lt8_cases in H. repeat (destruct H as [->|H]); try subst d; reflexivity. Qed.

Lemma pe_x27 t : parse_escape x27 t = EscOk [x27] t. Proof. reflexivity. Qed.

Lemma cescape_parse b f t :
  parse_loop (S f) x22 (cescape_byte b ++ t) = sprepend [b] (parse_loop f x22 t).
Proof.
  unfold cescape_byte. cbv zeta. pose proof (b2n_lt b) as Hlt.
  destruct (b2n b =? 10) eqn:E10; [|destruct (b2n b =? 13) eqn:E13; [|destruct (b2n b =? 9) eqn:E9;
    [|destruct (b2n b =? 34) eqn:E34; [|destruct (b2n b =? 39) eqn:E39; [|destruct (b2n b =? 92) eqn:E92]]]]].
  - cbn [app]. rewrite parse_loop_S by discriminate. rewrite dec_step_bslash by (vm_compute; discriminate).
    rewrite pe_n. rewrite (n2b_of_b2n_eq b 10) by lia. reflexivity.
  - cbn [app]. rewrite parse_loop_S by discriminate. rewrite dec_step_bslash by (vm_compute; discriminate).
    rewrite pe_r. rewrite (n2b_of_b2n_eq b 13) by lia. reflexivity.
  - cbn [app]. rewrite parse_loop_S by discriminate. rewrite dec_step_bslash by (vm_compute; discriminate).
    rewrite pe_t. rewrite (n2b_of_b2n_eq b 9) by lia. reflexivity.
  - cbn [app]. rewrite parse_loop_S by discriminate. rewrite dec_step_bslash by (vm_compute; discriminate).
    rewrite pe_quote. rewrite (n2b_of_b2n_eq b 34) by lia. reflexivity.
  - cbn [app]. rewrite parse_loop_S by discriminate. rewrite dec_step_bslash by (vm_compute; discriminate).
    rewrite pe_x27. rewrite (n2b_of_b2n_eq b 39) by lia. reflexivity.
  - cbn [app]. rewrite parse_loop_S by discriminate. rewrite dec_step_bslash by (vm_compute; discriminate).
    rewrite pe_bslash. rewrite (n2b_of_b2n_eq b 92) by lia. reflexivity.
  - destruct ((32 <=? b2n b) && (b2n b <=? 126)) eqn:EP.
    + cbn [app]. rewrite parse_loop_S by discriminate.
      rewrite dec_step_plain; [reflexivity|reflexivity|].
      unfold need_escape. cbv zeta. lia.
    + cbn [app]. rewrite parse_loop_S by discriminate. rewrite dec_step_bslash by (vm_compute; discriminate).
      set (c := b2n b) in *.
      assert (H1 : c / 64 < 8) by lia. assert (H2 : (c / 8) mod 8 < 8) by lia. assert (H3 : c mod 8 < 8) by lia.
      rewrite pe_oct_unfold by exact H1. cbv zeta.
      cbn [count_pref]. rewrite !is_octd_hexdig by assumption. cbn [firstn skipn].
      unfold parse_uint. cbn [digits_val]. rewrite !hexval_hexdig by lia.
      replace (c / 64 <? 8) with true by lia. replace ((c / 8) mod 8 <? 8) with true by lia.
      replace (c mod 8 <? 8) with true by lia.
      replace (((0 * 8 + c / 64) * 8 + (c / 8) mod 8) * 8 + c mod 8) with c by lia.
      replace (c <? 256) with true by lia. unfold c. rewrite n2b_b2n. reflexivity.
Qed.

Lemma cescape_parse_all : forall bs fp tail, (length bs < fp)%nat ->
  parse_loop fp x22 (marshal_bytes bs ++ x22 :: tail) = SOk (bs, tail).
Proof.
  unfold marshal_bytes. induction bs as [|b bs IH]; intros fp tail Hf.
  - cbn [flat_map app]. apply parse_close. lia.
  - cbn [flat_map]. rewrite <- app_assoc. destruct fp as [|fp]; [lia|].
    rewrite cescape_parse, IH by (cbn [length] in Hf; lia). reflexivity.
Qed.

Lemma cescape_nonempty b : (1 <= length (cescape_byte b))%nat.
Proof.
  unfold cescape_byte. cbv zeta.
  repeat match goal with |- context [if ?c then _ else _] => destruct c end; cbn [length]; lia.
Qed.

Lemma marshal_bytes_length bs : (length bs <= length (marshal_bytes bs))%nat.
Proof.
  unfold marshal_bytes. induction bs as [|b bs IH]; [reflexivity|].
  cbn [flat_map length]. rewrite app_length. pose proof (cescape_nonempty b). lia.
Qed.

Theorem unmarshal_marshal_bytes bs : unmarshal_bytes (marshal_bytes bs) = Some bs.
Proof.
  unfold unmarshal_bytes, unmarshal_string.
  rewrite (parse_string_of_simple _ (bs, [])).
  - reflexivity.
  - eexists _, _. split; reflexivity.
  - unfold parse_string_simple. apply cescape_parse_all.
    rewrite app_length. pose proof (marshal_bytes_length bs). cbn [length]. lia.
Qed.

Theorem defval_bytes_roundtrip o f bs :
  exists s, dv_marshal o (DBytes bs) None KBytes f = Some s /\
            dv_unmarshal o s KBytes [] f = Some (DBytes bs, None).
Proof.
  eexists. split; [reflexivity|]. cbn [dv_unmarshal]. now rewrite unmarshal_marshal_bytes.
Qed.

(* marshalBytes output is printable ASCII *)
Theorem marshal_bytes_printable bs : Forall printable (marshal_bytes bs).
Proof.
  unfold marshal_bytes. induction bs as [|b bs IH]; [constructor|].
  cbn [flat_map]. apply Forall_app; split; [|assumption].
  unfold cescape_byte. cbv zeta. pose proof (b2n_lt b).
  repeat match goal with |- context [if ?c then _ else _] => destruct c eqn:? end;
    repeat (constructor; try (vm_compute; split; discriminate));
    try (unfold printable; lia); apply hexdig_printable; lia.
Qed.

(* ---------- floats, relative to strconv ---------- *)
Definition f32_same (a b : N) : Prop := a = b \/ (f32_is_nan a = true /\ f32_is_nan b = true).
Definition f64_same (a b : N) : Prop := a = b \/ (f64_is_nan a = true /\ f64_is_nan b = true).

Section FloatOracle.
  Variable o : float_oracle.
  Definition finite32 b := b < 2 ^ 32 /\ f32_exp b <> 255.
  Definition finite64 b := b < 2 ^ 64 /\ f64_exp b <> 2047.
  (* shortest formatting followed by parsing at the same bit size is the identity *)
  Hypothesis H_parse32_fmt32 : forall b, finite32 b -> fo_parse32 o (fo_fmt32 o b) = FOk b.
  Hypothesis H_parse64_fmt64 : forall b, finite64 b -> fo_parse64 o (fo_fmt64 o b) = FOk b.
  (* the 64-bit parse of a float32 rendering succeeds (used only for its error) *)
  Hypothesis H_parse64_fmt32 : forall b, finite32 b -> exists v, fo_parse64 o (fo_fmt32 o b) = FOk v.
  (* finite values are not rendered as one of the special spellings *)
  Hypothesis H_fmt32_not_special : forall b, finite32 b ->
    fo_fmt32 o b <> s_inf /\ fo_fmt32 o b <> s_ninf /\ fo_fmt32 o b <> s_nan.
  Hypothesis H_fmt64_not_special : forall b, finite64 b ->
    fo_fmt64 o b <> s_inf /\ fo_fmt64 o b <> s_ninf /\ fo_fmt64 o b <> s_nan.

  Lemma f32_classify b : b < 2 ^ 32 ->
    finite32 b \/ (f32_is_inf b = true /\ (b = f32_pinf \/ b = f32_ninf)) \/ f32_is_nan b = true.
  Proof.
    intros Hb. unfold finite32, f32_is_inf, f32_is_nan, f32_exp, f32_man, f32_pinf, f32_ninf.
    change (2 ^ 32) with 4294967296 in *.
    destruct ((b / 8388608) mod 256 =? 255) eqn:E; [|left; lia].
    right. destruct (b mod 8388608 =? 0) eqn:M; [left|right; reflexivity].
    split; [reflexivity|]. lia.
  Qed.

  Lemma f64_classify b : b < 2 ^ 64 ->
    finite64 b \/ (f64_is_inf b = true /\ (b = f64_pinf \/ b = f64_ninf)) \/ f64_is_nan b = true.
  Proof.
    intros Hb. unfold finite64, f64_is_inf, f64_is_nan, f64_exp, f64_man, f64_pinf, f64_ninf.
    change (2 ^ 64) with 18446744073709551616 in *.
    destruct ((b / 4503599627370496) mod 2048 =? 2047) eqn:E; [|left; lia].
    right. destruct (b mod 4503599627370496 =? 0) eqn:M; [left|right; reflexivity].
    split; [reflexivity|]. lia.
  Qed.

  Theorem float32_roundtrip b : b < 2 ^ 32 ->
    exists b', unmarshal_float32 o (marshal_float32 o b) = Some b' /\ f32_same b b'.
  Proof.
    intros Hb. destruct (f32_classify b Hb) as [Hf | [[Hi [-> | ->]] | Hn]].
    - destruct Hf as [Hb' Hf]. unfold marshal_float32.
      replace (f32_is_inf b) with false by (unfold f32_is_inf; lia).
      replace (f32_is_nan b) with false by (unfold f32_is_nan; lia). cbn [andb].
      destruct (H_fmt32_not_special b (conj Hb' Hf)) as (N1 & N2 & N3).
      unfold unmarshal_float32. rewrite !bytes_eqb_neq by assumption.
      destruct (H_parse64_fmt32 b (conj Hb' Hf)) as (v & ->).
      rewrite H_parse32_fmt32 by (split; assumption). exists b. split; [reflexivity|now left].
    - exists f32_pinf. split; [reflexivity|now left].
    - exists f32_ninf. split; [reflexivity|now left].
    - exists f32_nan. unfold marshal_float32.
      replace (f32_is_inf b) with false by (unfold f32_is_inf, f32_is_nan in *; lia). cbn [andb].
      rewrite Hn. split; [reflexivity|]. right. split; [assumption|reflexivity].
  Qed.

  Theorem float64_roundtrip b : b < 2 ^ 64 ->
    exists b', unmarshal_float64 o (marshal_float64 o b) = Some b' /\ f64_same b b'.
  Proof.
    intros Hb. destruct (f64_classify b Hb) as [Hf | [[Hi [-> | ->]] | Hn]].
    - destruct Hf as [Hb' Hf]. unfold marshal_float64.
      replace (f64_is_inf b) with false by (unfold f64_is_inf; lia).
      replace (f64_is_nan b) with false by (unfold f64_is_nan; lia). cbn [andb].
      destruct (H_fmt64_not_special b (conj Hb' Hf)) as (N1 & N2 & N3).
      unfold unmarshal_float64. rewrite !bytes_eqb_neq by assumption.
      rewrite H_parse64_fmt64 by (split; assumption). exists b. split; [reflexivity|now left].
    - exists f64_pinf. split; [reflexivity|now left].
    - exists f64_ninf. split; [reflexivity|now left].
    - exists f64_nan. unfold marshal_float64.
      replace (f64_is_inf b) with false by (unfold f64_is_inf, f64_is_nan in *; lia). cbn [andb].
      rewrite Hn. split; [reflexivity|]. right. split; [assumption|reflexivity].
  Qed.

  Theorem defval_float_roundtrip f :
    (forall b, b < 2 ^ 32 ->
       exists s b', dv_marshal o (DFloat32 b) None KFloat f = Some s /\
                    dv_unmarshal o s KFloat [] f = Some (DFloat32 b', None) /\ f32_same b b') /\
    (forall b, b < 2 ^ 64 ->
       exists s b', dv_marshal o (DFloat64 b) None KDouble f = Some s /\
                    dv_unmarshal o s KDouble [] f = Some (DFloat64 b', None) /\ f64_same b b').
  Proof.
    split; intros b Hb.
    - destruct (float32_roundtrip b Hb) as (b' & H1 & H2).
      eexists _, b'. split; [reflexivity|]. cbn [dv_unmarshal]. rewrite H1. split; [reflexivity|assumption].
    - destruct (float64_roundtrip b Hb) as (b' & H1 & H2).
      eexists _, b'. split; [reflexivity|]. cbn [dv_unmarshal]. rewrite H1. split; [reflexivity|assumption].
  Qed.
End FloatOracle.

(* the special spellings do not depend on strconv at all *)
Theorem defval_float_specials o :
  marshal_float32 o f32_pinf = s_inf /\ marshal_float32 o f32_ninf = s_ninf /\
  (forall b, f32_is_nan b = true -> marshal_float32 o b = s_nan) /\
  unmarshal_float32 o s_inf = Some f32_pinf /\ unmarshal_float32 o s_ninf = Some f32_ninf /\
  unmarshal_float32 o s_nan = Some f32_nan /\
  marshal_float64 o f64_pinf = s_inf /\ marshal_float64 o f64_ninf = s_ninf /\
  (forall b, f64_is_nan b = true -> marshal_float64 o b = s_nan) /\
  unmarshal_float64 o s_inf = Some f64_pinf /\ unmarshal_float64 o s_ninf = Some f64_ninf /\
  unmarshal_float64 o s_nan = Some f64_nan.
Proof.
  repeat split; try reflexivity.
  - intros b Hn. unfold marshal_float32. rewrite Hn.
    replace (f32_is_inf b) with false by (unfold f32_is_inf, f32_is_nan in *; lia). reflexivity.
  - intros b Hn. unfold marshal_float64. rewrite Hn.
    replace (f64_is_inf b) with false by (unfold f64_is_inf, f64_is_nan in *; lia). reflexivity.
Qed.

(* ---------- the float hypotheses are jointly satisfiable ----------
   (non-vacuity of [defval_float_roundtrip]): a toy "strconv" that prints the
   bit pattern in decimal and parses it back satisfies all five hypotheses. *)
Definition toy_oracle : float_oracle :=
  {| fo_fmt32 := fmt_dec; fo_fmt64 := fmt_dec;
     fo_parse32 := fun s => match parse_uint10 32 s with Some v => FOk v | None => FSyntax end;
     fo_parse64 := fun s => match parse_uint10 64 s with Some v => FOk v | None => FSyntax end |}.

Lemma is_dig_cases b : is_dig b -> b2n b <> 105 /\ b2n b <> 110 /\ b2n b <> 45.
Proof.
  intros (d & Hd & ->). apply lt16_cases in Hd.
  repeat (destruct Hd as [->|Hd]); try subst d; vm_compute; repeat split; discriminate.
Qed.

Lemma fmt_dec_not_special v : fmt_dec v <> s_inf /\ fmt_dec v <> s_ninf /\ fmt_dec v <> s_nan.
Proof.
  destruct (fmt_base_spec 10 v ltac:(lia)) as (_ & Hd & _). unfold fmt_dec.
  repeat split; intros E; rewrite E in Hd; inversion Hd as [|? ? Hc _]; subst;
    destruct (is_dig_cases _ Hc) as (H1 & H2 & H3); vm_compute in H1, H2, H3; congruence.
Qed.

Theorem toy_oracle_ok :
  (forall b, finite32 b -> fo_parse32 toy_oracle (fo_fmt32 toy_oracle b) = FOk b) /\
  (forall b, finite64 b -> fo_parse64 toy_oracle (fo_fmt64 toy_oracle b) = FOk b) /\
  (forall b, finite32 b -> exists v, fo_parse64 toy_oracle (fo_fmt32 toy_oracle b) = FOk v) /\
  (forall b, finite32 b -> fo_fmt32 toy_oracle b <> s_inf /\ fo_fmt32 toy_oracle b <> s_ninf /\ fo_fmt32 toy_oracle b <> s_nan) /\
  (forall b, finite64 b -> fo_fmt64 toy_oracle b <> s_inf /\ fo_fmt64 toy_oracle b <> s_ninf /\ fo_fmt64 toy_oracle b <> s_nan).
Proof.
  cbn [toy_oracle fo_fmt32 fo_fmt64 fo_parse32 fo_parse64].
  split; [|split; [|split; [|split]]].
  - intros b [Hb _]. now rewrite parse_fmt_dec.
  - intros b [Hb _]. now rewrite parse_fmt_dec.
  - intros b [Hb _]. exists b. rewrite parse_fmt_dec; [reflexivity|].
    eapply N.lt_le_trans; [exact Hb|]. apply N.pow_le_mono_r; lia.
  - intros b _. apply fmt_dec_not_special.
  - intros b _. apply fmt_dec_not_special.
Qed.
