(* TextMsgExample — a schema and values used by the non-vacuity examples and the refutation
   witnesses of C20 and C24 (not extracted). *)
From Coq Require Import List NArith ZArith Bool String.
From PB Require Import Base.PBytes Msg.MsgSchema Msg.MsgValue Json.RtSchema.
Import ListNotations.
Open Scope N_scope.

Definition bs (s : string) : list byte := list_byte_of_string s.

(* type 0: google.protobuf.Any        type 1: verif.T        type 2: verif.K (optional Value / NullValue)
   type 3: google.protobuf.Value (only its null_value member is needed here) *)
Definition ex_any_md : mdesc :=
  [ mkF 1 (KS SkString) CImp None true false false; mkF 2 (KS SkBytes) CImp None false false false ].
Definition ex_t_md : mdesc :=
  [ mkF 1 (KS SkInt32) COpt None false false false;
    mkF 2 (KS SkString) CImp None true false false;
    mkF 3 (KS SkFloat) CPacked None false false false;
    mkF 4 (KS SkInt64) (CMap SkString true 0) None false false false;
    mkF 5 (KMsg 1) COpt None false false false;
    mkF 6 (KMsg 0) COpt None false false false;
    mkF 7 (KS SkEnum) COpt None false false false;
    mkF 8 (KS SkBool) COpt (Some 0) false false false;
    mkF 9 (KS SkBytes) COpt (Some 0) false false false;
    mkF 10 (KS SkUint64) CRep None false false false;
    mkF 100 (KS SkUint32) COpt None false true false ].
Definition ex_k_md : mdesc :=
  [ mkF 1 (KS SkEnum) COpt None false false false; mkF 2 (KS SkInt32) COpt None false false false ].

Definition ex_schema : schema := [ex_any_md; ex_t_md; ex_k_md].

Definition ex_names : names :=
  mkNM
    [ mkMN (bs "google.protobuf.Any") 1
        [ mkFN (bs "type_url") (bs "typeUrl") false None; mkFN (bs "value") (bs "value") false None ];
      mkMN (bs "verif.T") 0
        [ mkFN (bs "a") (bs "a") false None;
          mkFN (bs "s_x") (bs "sX") false None;
          mkFN (bs "r") (bs "r") false None;
          mkFN (bs "m") (bs "m") false None;
          mkFN (bs "sub") (bs "sub") false None;
          mkFN (bs "any") (bs "any") false None;
          mkFN (bs "e") (bs "e") false (Some 0%nat);
          mkFN (bs "o1") (bs "o1") true None;
          mkFN (bs "o2") (bs "o2") true None;
          mkFN (bs "u") (bs "u") false None;
          mkFN (bs "[verif.ext1]") (bs "[verif.ext1]") false None ];
      mkMN (bs "verif.K") 0
        [ mkFN (bs "opt_null") (bs "optNull") false (Some 1%nat); mkFN (bs "n") (bs "n") false None ] ]
    [ mkED false [(bs "ZERO", 0%Z); (bs "ONE", 1%Z)];
      mkED true [(bs "NULL_VALUE", 0%Z)] ].

(* verif.T { a: 7 } as the value of an Any *)
Definition ex_any (url : string) : value :=
  VMsg [(1, [VS (SBy (bs url))]); (2, [VS (SBy [x08; x07])])] [].

Definition ex_t : value :=
  VMsg [ (1, [VS (SZ (-5))]);
         (2, [VS (SBy (bs "hi"))]);
         (3, [VS (SN 1069547520); VS (SN 2143289344); VS (SN 4286578688); VS (SN 2147483648)]);
         (4, [VEntry (SBy (bs "a")) (VS (SZ 1)); VEntry (SBy (bs "b")) (VS (SZ (-9223372036854775808)))]);
         (5, [VMsg [(1, [VS (SZ 7)])] [x98; x06; x01]]);
         (6, [ex_any "type.googleapis.com/verif.T"]);
         (7, [VS (SZ 1)]);
         (8, [VS (SB true)]);
         (10, [VS (SN 18446744073709551615); VS (SN 0)]);
         (100, [VS (SN 9)]) ]
       [xa0; x06; x01].

(* FWD1: the same Any with a type URL that has a scheme *)
Definition ex_any_fwd1 : value := ex_any "https://example.com/verif.T".

(* F11: verif.K{} -- an unset explicit-presence NullValue field *)
Definition ex_k_empty : value := VMsg [] [].

(* ---- a table without special-mapping types (the core of the C20 theorem): type 0 is
   google.protobuf.Empty, so field 6 of verif.T is an Empty ---- *)
Definition ex_schema_j : schema := [[]; ex_t_md; ex_k_md].
Definition ex_names_j : names :=
  mkNM (mkMN (bs "google.protobuf.Empty") 9 [] :: tl (nm_msgs ex_names)) (nm_enums ex_names).

Definition ex_tj : value :=
  VMsg [ (1, [VS (SZ (-5))]);
         (2, [VS (SBy (bs "hi"))]);
         (3, [VS (SN 1069547520); VS (SN 2143289344); VS (SN 4286578688); VS (SN 2147483648)]);
         (4, [VEntry (SBy (bs "a")) (VS (SZ 1)); VEntry (SBy (bs "b")) (VS (SZ (-9223372036854775808)))]);
         (5, [VMsg [(1, [VS (SZ 7)]); (9, [VS (SBy [xfb; xff; x00])])] [x98; x06; x01]]);
         (6, [VMsg [] []]);
         (7, [VS (SZ 1)]);
         (8, [VS (SB true)]);
         (10, [VS (SN 18446744073709551615); VS (SN 0)]);
         (100, [VS (SN 9)]) ]
       [xa0; x06; x01].

(* ---- a table with the structural well-known types (the proved part of C20):
   0 Empty   1 verif.T   2 verif.KW   3 Value   4 Struct   5 ListValue   6 Int64Value ---- *)
Definition ex_kw_md : mdesc :=
  [ mkF 1 (KS SkEnum) COpt None false false false;       (* optional NullValue opt_null *)
    mkF 2 (KS SkInt32) COpt None false false false;
    mkF 3 (KMsg 3) COpt None false false false;          (* optional Value opt_value *)
    mkF 4 (KMsg 4) COpt None false false false;          (* Struct *)
    mkF 5 (KMsg 5) COpt None false false false;          (* ListValue *)
    mkF 6 (KMsg 6) COpt None false false false;          (* Int64Value *)
    mkF 7 (KMsg 3) CRep None false false false;          (* repeated Value *)
    mkF 8 (KMsg 7) COpt None false false false;          (* Timestamp *)
    mkF 9 (KMsg 8) COpt None false false false;          (* Duration *)
    mkF 10 (KMsg 9) COpt None false false false;         (* FieldMask *)
    mkF 11 (KMsg 10) CRep None false false false ].      (* repeated Any *)
Definition ex_value_md : mdesc :=
  [ mkF 1 (KS SkEnum) COpt (Some 0) false false false;
    mkF 2 (KS SkDouble) COpt (Some 0) false false false;
    mkF 3 (KS SkString) COpt (Some 0) true false false;
    mkF 4 (KS SkBool) COpt (Some 0) false false false;
    mkF 5 (KMsg 4) COpt (Some 0) false false false;
    mkF 6 (KMsg 5) COpt (Some 0) false false false ].
Definition ex_struct_md : mdesc := [ mkF 1 (KMsg 3) (CMap SkString true 0) None false false false ].
Definition ex_listvalue_md : mdesc := [ mkF 1 (KMsg 3) CRep None false false false ].
Definition ex_int64value_md : mdesc := [ mkF 1 (KS SkInt64) CImp None false false false ].

Definition ex_secs_nanos_md : mdesc :=
  [ mkF 1 (KS SkInt64) CImp None false false false; mkF 2 (KS SkInt32) CImp None false false false ].

Definition ex_schema_w : schema :=
  [[]; ex_t_md; ex_kw_md; ex_value_md; ex_struct_md; ex_listvalue_md; ex_int64value_md; ex_secs_nanos_md; ex_secs_nanos_md;
   [ mkF 1 (KS SkString) CRep None true false false ]; ex_any_md].

Definition ex_names_w : names :=
  mkNM
    [ mkMN (bs "google.protobuf.Empty") 9 [];
      nth 1 (nm_msgs ex_names) mn_default;
      mkMN (bs "verif.KW") 0
        [ mkFN (bs "opt_null") (bs "optNull") false (Some 1%nat); mkFN (bs "n") (bs "n") false None;
          mkFN (bs "opt_value") (bs "optValue") false None; mkFN (bs "st") (bs "st") false None;
          mkFN (bs "lv") (bs "lv") false None; mkFN (bs "w") (bs "w") false None; mkFN (bs "rv") (bs "rv") false None;
          mkFN (bs "ts") (bs "ts") false None; mkFN (bs "dur") (bs "dur") false None; mkFN (bs "fm") (bs "fm") false None;
          mkFN (bs "anys") (bs "anys") false None ];
      mkMN (bs "google.protobuf.Value") 7
        [ mkFN (bs "null_value") (bs "nullValue") true (Some 1%nat); mkFN (bs "number_value") (bs "numberValue") true None;
          mkFN (bs "string_value") (bs "stringValue") true None; mkFN (bs "bool_value") (bs "boolValue") true None;
          mkFN (bs "struct_value") (bs "structValue") true None; mkFN (bs "list_value") (bs "listValue") true None ];
      mkMN (bs "google.protobuf.Struct") 5 [ mkFN (bs "fields") (bs "fields") false None ];
      mkMN (bs "google.protobuf.ListValue") 6 [ mkFN (bs "values") (bs "values") false None ];
      mkMN (bs "google.protobuf.Int64Value") 4 [ mkFN (bs "value") (bs "value") false None ];
      mkMN (bs "google.protobuf.Timestamp") 2 [ mkFN (bs "seconds") (bs "seconds") false None; mkFN (bs "nanos") (bs "nanos") false None ];
      mkMN (bs "google.protobuf.Duration") 3 [ mkFN (bs "seconds") (bs "seconds") false None; mkFN (bs "nanos") (bs "nanos") false None ];
      mkMN (bs "google.protobuf.FieldMask") 8 [ mkFN (bs "paths") (bs "paths") false None ];
      nth 0 (nm_msgs ex_names) mn_default ]
    (nm_enums ex_names).

Definition v_null : value := VMsg [(1, [VS (SZ 0)])] [].
Definition v_num (bits : N) : value := VMsg [(2, [VS (SN bits)])] [].
Definition v_str (s : string) : value := VMsg [(3, [VS (SBy (bs s))])] [].
Definition v_bool (b : bool) : value := VMsg [(4, [VS (SB b)])] [].
Definition v_list (l : list value) : value :=
  VMsg [(6, [VMsg (match l with [] => [] | _ => [(1, l)] end) []])] [].

Definition ex_kw : value :=
  VMsg [ (1, [VS (SZ 0)]);
         (3, [v_num 4609434218613702656]);                                  (* 1.5 *)
         (4, [VMsg [(1, [VEntry (SBy (bs "a")) v_null;
                         VEntry (SBy (bs "b")) (v_list [v_bool true; v_str "NaN"; v_list []])])] []]);
         (5, [VMsg [(1, [v_num 9223372036854775808])] [x08; x01]]);        (* [-0.0], with an unknown field *)
         (6, [VMsg [(1, [VS (SZ (-9223372036854775808))])] []]);
         (7, [v_null; v_str ""; VMsg [(5, [VMsg [] []])] []]);
         (8, [VMsg [(1, [VS (SZ 951782400)]); (2, [VS (SZ 120000000)])] []]);      (* 2000-02-29T00:00:00.120Z *)
         (9, [VMsg [(2, [VS (SZ (-5))])] []]);                                       (* -0.000000005s *)
         (10, [VMsg [(1, [VS (SBy (bs "user.display_name")); VS (SBy (bs "f1"))])] []]);
         (* an Any holding verif.T{a: 7}, one holding Int64Value{value: 1}, one holding Empty, an empty one *)
         (11, [ex_any "type.googleapis.com/verif.T";
               VMsg [(1, [VS (SBy (bs "x/google.protobuf.Int64Value"))]); (2, [VS (SBy [x08; x01])])] [];
               VMsg [(1, [VS (SBy (bs "google.protobuf.Empty"))])] [];
               VMsg [] []]) ]
       [].

(* F11: verif.KW{} -- unset explicit-presence Value and NullValue fields (textpb2.KnownTypes{}-like) *)
Definition ex_kw_empty : value := VMsg [] [].
