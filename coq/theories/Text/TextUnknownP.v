(* Proofs about Text/TextUnknownModel.v: rendering a well-formed unknown-field
   set never reaches a Panic outcome (C25).

   The wire scanner belongs to another work package (Wire/WireModel.v is used
   read-only here), so the byte-level part is proved relative to ONE explicit
   hypothesis about the wire grammar, [wf_step]: "a non-empty well-formed
   field sequence starts with a field that the Consume* functions accept, and
   what follows (and the body of a group, as returned by ConsumeGroup) is
   again well formed".  The Encoder part (prepareNext never slices below
   zero on the token streams marshalUnknown produces) is proved outright. *)
From Coq Require Import List Arith NArith ZArith Lia Bool.
From Coq Require Import ZifyBool ZifyNat ZifyN.
From PB Require Import Base.PBytes Wire.WireModel Text.TextStrModel Text.TextFmtModel Text.TextUnknownModel.
Import ListNotations.
Open Scope N_scope.

(* ---------- the token streams of marshalUnknown ---------- *)
Inductive wf_toks : list utok -> Prop :=
| wt_nil : wf_toks []
| wt_scalar num t rest : tok_type t = TScalar -> wf_toks rest -> wf_toks (UName num :: t :: rest)
| wt_group num inner rest : wf_toks inner -> wf_toks rest ->
    wf_toks (UName num :: UOpen :: inner ++ UClose :: rest).

(* ---------- the Encoder never panics on them ---------- *)
Definition push (c : enc_cfg) (s : enc_state) (t : utok) : option enc_state :=
  match prepare_next c s (tok_type t) with
  | None => None
  | Some s' => Some {| es_last := es_last s'; es_indents := es_indents s'; es_out := es_out s' ++ tok_bytes c t |}
  end.

Lemma render_toks_cons c s t r :
  render_toks c s (t :: r) = match push c s t with None => None | Some s' => render_toks c s' r end.
Proof. unfold push. cbn [render_toks]. destruct (prepare_next c s (tok_type t)); reflexivity. Qed.

Lemma render_toks_app c : forall a s b,
  render_toks c s (a ++ b) = match render_toks c s a with None => None | Some s' => render_toks c s' b end.
Proof.
  induction a as [|t a IH]; intros s b; [reflexivity|].
  cbn [app]. rewrite !render_toks_cons. destruct (push c s t); [apply IH|reflexivity].
Qed.

Definition settled (l : etype) : Prop := l = TScalar \/ l = TClose.
Definition indents_after (c : enc_cfg) (s : enc_state) : list byte :=
  match es_last s with TOpen => es_indents s ++ ec_indent c | _ => es_indents s end.

(* single line: prepareNext cannot fail *)
Lemma render_single c : is_nil (ec_indent c) = true -> forall ts s, exists s', render_toks c s ts = Some s'.
Proof.
  intros Hn. induction ts as [|t ts IH]; intros s; [eexists; reflexivity|].
  rewrite render_toks_cons. unfold push, prepare_next. rewrite Hn. apply IH.
Qed.

(* multi line: after a well-formed stream the indentation is back where it
   was (one level deeper if the stream directly follows an open brace) *)
Lemma render_multi c : is_nil (ec_indent c) = false -> forall ts, wf_toks ts ->
  forall s, es_last s <> TName ->
  exists s', render_toks c s ts = Some s' /\
             (ts = [] -> s' = s) /\
             (ts <> [] -> settled (es_last s') /\ es_indents s' = indents_after c s).
Proof.
  intros Hn ts H. induction H as [|num t rest Ht Hrest IHrest|num inner rest Hinner IHinner Hrest IHrest]; intros s Hs.
  - exists s. split; [reflexivity|]. split; [reflexivity|congruence].
  - (* Name Scalar rest *)
    rewrite render_toks_cons.
    assert (exists s1, push c s (UName num) = Some s1 /\ es_last s1 = TName /\ es_indents s1 = indents_after c s) as (s1 & -> & L1 & I1).
    { unfold push, prepare_next, indents_after. rewrite Hn. cbn [tok_type].
      destruct (es_last s); try congruence; eexists; (split; [reflexivity|split; reflexivity]). }
    rewrite render_toks_cons.
    assert (exists s2, push c s1 t = Some s2 /\ es_last s2 = TScalar /\ es_indents s2 = es_indents s1) as (s2 & -> & L2 & I2).
    { unfold push, prepare_next. rewrite Hn, L1, Ht. eexists. split; [reflexivity|split; reflexivity]. }
    destruct (IHrest s2 ltac:(congruence)) as (s' & Hr & He & Hne).
    exists s'. split; [exact Hr|]. split; [discriminate|]. intros _.
    destruct rest as [|x rest'].
    + rewrite (He eq_refl). split; [left; exact L2|congruence].
    + destruct (Hne ltac:(discriminate)) as (Hset & Hind). split; [exact Hset|].
      rewrite Hind. transitivity (es_indents s2); [unfold indents_after; now rewrite L2|congruence].
  - (* Name Open inner Close rest *)
    rewrite render_toks_cons.
    assert (exists s1, push c s (UName num) = Some s1 /\ es_last s1 = TName /\ es_indents s1 = indents_after c s) as (s1 & -> & L1 & I1).
    { unfold push, prepare_next, indents_after. rewrite Hn. cbn [tok_type].
      destruct (es_last s); try congruence; eexists; (split; [reflexivity|split; reflexivity]). }
    rewrite render_toks_cons.
    assert (exists s2, push c s1 UOpen = Some s2 /\ es_last s2 = TOpen /\ es_indents s2 = es_indents s1) as (s2 & -> & L2 & I2).
    { unfold push, prepare_next. rewrite Hn, L1. cbn [tok_type]. eexists. split; [reflexivity|split; reflexivity]. }
    rewrite render_toks_app.
    destruct (IHinner s2 ltac:(congruence)) as (s3 & -> & He3 & Hne3).
    rewrite render_toks_cons.
    assert (exists s4, push c s3 UClose = Some s4 /\ es_last s4 = TClose /\ es_indents s4 = es_indents s1) as (s4 & -> & L4 & I4).
    { destruct inner as [|x inner'].
      - rewrite (He3 eq_refl). unfold push, prepare_next. rewrite Hn, L2. cbn [tok_type].
        eexists. split; [reflexivity|split; [reflexivity|exact I2]].
      - destruct (Hne3 ltac:(discriminate)) as (Hset & Hind).
        unfold indents_after in Hind. rewrite L2, I2 in Hind.
        unfold push, prepare_next. rewrite Hn. cbn [tok_type]. rewrite Hind.
        rewrite app_length.
        replace (Nat.ltb (length (es_indents s1) + length (ec_indent c)) (length (ec_indent c))) with false
          by (symmetry; apply Nat.ltb_ge; lia).
        replace (length (es_indents s1) + length (ec_indent c) - length (ec_indent c))%nat
          with (length (es_indents s1)) by lia.
        rewrite firstn_app, Nat.sub_diag, firstn_all, firstn_O, app_nil_r.
        destruct Hset as [-> | ->]; eexists; (split; [reflexivity|split; reflexivity]). }
    destruct (IHrest s4 ltac:(congruence)) as (s' & Hr & He & Hne).
    exists s'. split; [exact Hr|]. split; [discriminate|]. intros _.
    destruct rest as [|x rest'].
    + rewrite (He eq_refl). split; [right; exact L4|congruence].
    + destruct (Hne ltac:(discriminate)) as (Hset & Hind). split; [exact Hset|].
      rewrite Hind. transitivity (es_indents s4); [unfold indents_after; now rewrite L4|congruence].
Qed.

Theorem render_toks_total c ts : wf_toks ts ->
  exists s', render_toks c {| es_last := TZero; es_indents := []; es_out := [] |} ts = Some s'.
Proof.
  intros H. destruct (is_nil (ec_indent c)) eqn:E.
  - apply render_single. exact E.
  - destruct (render_multi c E ts H {| es_last := TZero; es_indents := []; es_out := [] |}) as (s' & Hr & _);
      [cbn; discriminate|]. eauto.
Qed.

(* ---------- marshalUnknown on a well-formed set ---------- *)
Section Scanner.
  (* [wf d bs]: bs is a well-formed field sequence with at most d group levels *)
  Variable wf : nat -> list byte -> Prop.

  Definition field_step (d : nat) (bs : list byte) : Prop :=
    exists num typ b1, dec_tag bs = Ok (num, typ, b1) /\
      ((typ = 0 /\ exists v b2, dec_varint b1 = Ok (v, b2) /\ wf d b2 /\ (length b2 < length bs)%nat) \/
       (typ = 5 /\ exists v b2, dec_fixed32 b1 = Ok (v, b2) /\ wf d b2 /\ (length b2 < length bs)%nat) \/
       (typ = 1 /\ exists v b2, dec_fixed64 b1 = Ok (v, b2) /\ wf d b2 /\ (length b2 < length bs)%nat) \/
       (typ = 2 /\ exists v b2, dec_bytes b1 = Ok (v, b2) /\ wf d b2 /\ (length b2 < length bs)%nat) \/
       (typ = 3 /\ exists body n d', d = S d' /\ consume_group num b1 = Ok (Some body, n) /\
                   wf d' body /\ wf d (skipn (N.to_nat n) b1) /\
                   (length body < length bs)%nat /\ (length (skipn (N.to_nat n) b1) < length bs)%nat)).

  Hypothesis wf_step : forall d bs, wf d bs -> bs <> [] -> field_step d bs.

  Lemma mu_app_ok a r ts : r = MuOk ts -> mu_app a r = MuOk (a ++ ts).
  Proof. intros ->. reflexivity. Qed.

  Lemma marshal_unknown_toks_ok : forall fuel d bs, wf d bs -> (length bs < fuel)%nat ->
    exists ts, marshal_unknown_toks fuel bs = MuOk ts /\ wf_toks ts.
  Proof.
    induction fuel as [|fuel IH]; intros d bs Hwf Hlen; [lia|].
    destruct bs as [|b0 bs0]; [exists []; split; [reflexivity|constructor]|].
    destruct (wf_step d _ Hwf ltac:(discriminate)) as (num & typ & b1 & Htag & Hcase).
    cbn [marshal_unknown_toks]. rewrite Htag.
    destruct Hcase as [(-> & v & b2 & Hv & Hw & Hl) | [(-> & v & b2 & Hv & Hw & Hl) | [(-> & v & b2 & Hv & Hw & Hl) |
                       [(-> & v & b2 & Hv & Hw & Hl) | (-> & body & n & d' & -> & Hg & Hwb & Hwr & Hlb & Hlr)]]]].
    - rewrite Hv. destruct (IH d b2 Hw ltac:(lia)) as (ts & Hts & Hwt).
      eexists. split; [apply mu_app_ok; exact Hts|]. cbn [app]. now constructor.
    - rewrite Hv. destruct (IH d b2 Hw ltac:(lia)) as (ts & Hts & Hwt).
      eexists. split; [apply mu_app_ok; exact Hts|]. cbn [app]. now constructor.
    - rewrite Hv. destruct (IH d b2 Hw ltac:(lia)) as (ts & Hts & Hwt).
      eexists. split; [apply mu_app_ok; exact Hts|]. cbn [app]. now constructor.
    - rewrite Hv. destruct (IH d b2 Hw ltac:(lia)) as (ts & Hts & Hwt).
      eexists. split; [apply mu_app_ok; exact Hts|]. cbn [app]. now constructor.
    - rewrite Hg. destruct (IH d' body Hwb ltac:(lia)) as (ti & Hti & Hwi). rewrite Hti.
      destruct (IH (S d') _ Hwr ltac:(lia)) as (ts & Hts & Hwt).
      eexists. split; [apply mu_app_ok; exact Hts|].
      cbn [app]. rewrite <- app_assoc. cbn [app]. now constructor.
  Qed.

  Theorem marshal_unknown_total c d bs : wf d bs -> exists out, marshal_unknown c bs = Some out.
  Proof.
    intros Hwf. unfold marshal_unknown.
    destruct (marshal_unknown_toks_ok (S (length bs)) d bs Hwf ltac:(lia)) as (ts & -> & Hwt).
    destruct (render_toks_total c ts Hwt) as (s' & ->). eauto.
  Qed.
End Scanner.

(* unconditional instance: canonical encodings without groups are covered
   directly by the C01 varint theorem; see Props/C25.v for the statement that
   is discharged by the wire grammar after integration. *)
