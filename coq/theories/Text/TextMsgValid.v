(* TextMsgValid — decidable side conditions of the prototext round-trip theorem (C24).  Definitions only.

   rt_schema_ok S nm     the name tables fit the schema table: same number of fields per message,
                         field numbers distinct, the written name of every field is found again by the
                         decoder's lookup ([tlookup]: text names pairwise distinct, extension names in the
                         lexer's alphabet), enum value names distinct identifiers, message full names
                         non-empty.  Every schema the harness sends is checked with this function.
   text_valid strict S nm lim fuel tid v
                         "valid content" of C24 for the canonical value v of message type tid:
     - fields keyed by strictly increasing declared numbers, no empty list, singular fields one value,
       implicit-presence scalars non-zero, at most one member per oneof, map entries strictly sorted;
     - scalars in the range of their kind; strings of UTF-8-validated fields valid;
     - NaNs in normal form (the model identifies all NaNs with the NaN the decoder produces; the
       harness compares with a NaN-insensitive equality on arbitrary payloads);
     - nesting depth below [fuel];
     - an Any value that the encoder expands ([url] { ... }): the embedded message is valid, the value
       bytes are the deterministic encoding of it without unknown fields, and -- only when [strict] --
       the type URL is one the text lexer reads back unchanged.  [strict = false] is the property as
       stated (refuted: finding FWD1); [strict = true] is the exclusion of FWD1. *)
From Coq Require Import List NArith ZArith Bool.
From PB Require Import Base.PBytes Wire.WireModel Msg.MsgSchema Msg.MsgValue Msg.MsgUtf8 Msg.MsgEnc Msg.MsgDec Msg.MsgValid.
From PB Require Import Json.RtSchema Text.TextMsgModel.
Import ListNotations.
Open Scope N_scope.

(* ---------- schema / name tables ---------- *)
Fixpoint bs_nodup (l : list (list byte)) : bool :=
  match l with
  | [] => true
  | x :: r => negb (existsb (bs_eqb x) r) && bs_nodup r
  end.

Definition enum_name_ok (s : list byte) : bool :=
  match s with c :: _ => negb (b2n c =? 45) | [] => false end.

Definition enum_ok (ed : edesc) : bool :=
  bs_nodup (map fst (e_vals ed)) && forallb (fun p => enum_name_ok (fst p)) (e_vals ed).

Fixpoint n_nodup (l : list N) : bool :=
  match l with
  | [] => true
  | x :: r => negb (existsb (N.eqb x) r) && n_nodup r
  end.

Definition fp_num (p : fpair) : N := f_num (fst p).

Definition rt_field_ok (nm : names) (p : fpair) : bool :=
  (1 <=? fp_num p)
  && match f_kind (fst p) with KS SkEnum => enum_ok (nm_enum nm (snd p)) | _ => true end.

Definition rt_msg_ok (S : schema) (nm : names) (tid : nat) : bool :=
  let fps := rt_fields S nm tid in
  Nat.eqb (length (nth tid S [])) (length (mn_fields (nm_msg nm tid)))
  && n_nodup (map fp_num fps)
  && forallb (rt_field_ok nm) fps
  && match mn_full (nm_msg nm tid) with [] => false | _ => true end.

Definition rt_schema_ok (S : schema) (nm : names) : bool :=
  Nat.eqb (length S) (length (nm_msgs nm))
  && forallb (rt_msg_ok S nm) (seq 0 (length S)).

(* the text name under which a field is written is read back as that field: an extension is written as
   "[" full name "]" with a full name in the lexer's alphabet; other names do not start with '[' *)
Definition text_name_ok (p : fpair) : bool :=
  let name := fn_text (snd p) in
  if f_ext (fst p) then
    is_bracket_name name
    && match text_type_name (bracket_inner name) with
       | Some full => bs_eqb (x5b :: full ++ [x5d]) name
       | None => false
       end
  else negb (is_bracket_name name).

(* google.protobuf.Any: string type_url = 1; bytes value = 2; (implicit presence) *)
Definition any_shape_ok (fps : list fpair) : bool :=
  match fps with
  | [(f1, n1); (f2, n2)] =>
    (f_num f1 =? 1) && (f_num f2 =? 2)
    && match f_kind f1, f_card f1, f_kind f2, f_card f2 with
       | KS SkString, CImp, KS SkBytes, CImp => true
       | _, _, _, _ => false
       end
    && bs_eqb (fn_text n1) t_type_url && bs_eqb (fn_text n2) t_value
    && negb (f_ext f1) && negb (f_ext f2)
    && match f_oneof f1, f_oneof f2 with None, None => true | _, _ => false end
  | _ => false
  end.

Definition text_msg_ok (S : schema) (nm : names) (tid : nat) : bool :=
  let fps := rt_fields S nm tid in
  bs_nodup (map (fun p => fn_text (snd p)) fps)
  && forallb text_name_ok fps
  && (if mn_wkt (nm_msg nm tid) =? 1 then any_shape_ok fps else true).

Definition text_schema_ok (S : schema) (nm : names) : bool :=
  rt_schema_ok S nm && forallb (text_msg_ok S nm) (seq 0 (length S)).

(* ---------- values ---------- *)
Definition nan_canon32 (b : N) : bool := negb (f32_is_nan b) || (b =? f32_nan).
Definition nan_canon64 (b : N) : bool := negb (f64_is_nan b) || (b =? f64_nan).

Definition rt_scalar_ok (utf8 : bool) (sk : skind) (s : scalar) : bool :=
  sk_ok sk s && msg_str_valid sk utf8 s
  && match sk, s with
     | SkFloat, SN b => nan_canon32 b
     | SkDouble, SN b => nan_canon64 b
     | _, _ => true
     end.

Definition has_num (fs : fields) (num : N) : bool :=
  match msg_fget fs num with [] => false | _ => true end.

(* at most one present member per oneof *)
Definition rt_oneofs_ok (fps : list fpair) (fs : fields) : bool :=
  forallb (fun p =>
    match f_oneof (fst p) with
    | Some i =>
      negb (has_num fs (f_num (fst p))) ||
      forallb (fun q =>
        (f_num (fst q) =? f_num (fst p))
        || negb (match f_oneof (fst q) with Some j => j =? i | None => false end)
        || negb (has_num fs (f_num (fst q)))) fps
    | None => true
    end) fps.

Section Valid.
  Variable strict : bool.
  Variable S : schema.
  Variable nm : names.
  Variable lim : nat.
  Variable recv : nat -> value -> bool.            (* validity one level down *)
  Variable rect : nat -> value -> tres tfields.    (* to_text one level down *)

  Definition tvalid_elem (fd : fdesc) (utf8 : bool) (v : value) : bool :=
    match f_kind fd, v with
    | KS sk, VS s => rt_scalar_ok utf8 sk s
    | KMsg tid, VMsg _ _ | KGrp tid, VMsg _ _ => recv tid v
    | _, _ => false
    end.

  Definition tvalid_entry (fd : fdesc) (kk : skind) (kutf8 : bool) (e : value) : bool :=
    match e with
    | VEntry k v => rt_scalar_ok kutf8 kk k && tvalid_elem fd (f_utf8 fd) v
    | _ => false
    end.

  Definition tvalid_field (fd : fdesc) (vs : list value) : bool :=
    match f_card fd with
    | COpt | CReq => match vs with [v] => tvalid_elem fd (f_utf8 fd) v | _ => false end
    | CImp =>
      match vs with
      | [VS s] => tvalid_elem fd (f_utf8 fd) (VS s) && negb (msg_scalar_is_zero s)
      | _ => false
      end
    | CRep | CPacked =>
      match vs with [] => false | _ => forallb (tvalid_elem fd (f_utf8 fd)) vs end
    | CMap kk kutf8 _ =>
      match vs with [] => false | _ => forallb (tvalid_entry fd kk kutf8) vs end
      && msg_entries_sorted vs
    end.

  Definition tvalid_chunk (fps : list fpair) (p : N * list value) : bool :=
    match rt_find fps (fst p) with
    | Some q => tvalid_field (fst q) (snd p)
    | None => false
    end.

  (* the Any condition: only when the encoder expands the value *)
  Definition tvalid_any (fs : fields) : bool :=
    let url := get_bytes_t fs 1 in
    match resolve_url nm url with
    | None => true
    | Some t =>
      match msg_decode false S lim t (get_bytes_t fs 2) with
      | MsgDec.DErr _ => true
      | MsgDec.DOk em =>
        match rect t em with
        | TOk _ =>
          recv t em
          && bs_eqb (msg_encode S t (strip_unknown em)) (get_bytes_t fs 2)
          && (negb strict || match text_type_name url with Some u => bs_eqb u url | None => false end)
        | TErr TEUtf8 => true
        | TErr _ => false
        end
      end
    end.

  Definition tvalid_body (tid : nat) (v : value) : bool :=
    match v with
    | VMsg fs _ =>
      let fps := rt_fields S nm tid in
      msg_keys_sorted 0 fs
      && forallb (tvalid_chunk fps) fs
      && rt_oneofs_ok fps fs
      && (if mn_wkt (nm_msg nm tid) =? 1 then tvalid_any fs else true)
    | _ => false
    end.
End Valid.

Fixpoint text_valid (strict : bool) (S : schema) (nm : names) (lim : nat) (fuel : nat) (tid : nat) (v : value) : bool :=
  match fuel with
  | O => false
  | Datatypes.S f =>
    Nat.ltb tid (length S)
    && tvalid_body strict S nm lim (text_valid strict S nm lim f) (to_text_msg S nm lim f) tid v
  end.
