(* Model of the scalar-token lexer of the text format:
     internal/encoding/text/decode_number.go  parseNumber, number.string
     internal/encoding/text/decode.go         parseIdent, isDelim, parseScalar
     internal/encoding/text/decode_token.go   Token.Bool/Uint64/Uint32/Int64/Int32/Float64 (syntax part)
   Definitions only. *)
From Coq Require Import List NArith ZArith Bool.
From PB Require Import Base.PBytes Base.Utf8Model Text.TextStrModel.
Import ListNotations.
Open Scope N_scope.

Definition in_rng (lo hi x : N) : bool := (lo <=? x) && (x <=? hi).
Definition is_digit (b : byte) : bool := in_rng 48 57 (b2n b).
Definition is_alpha_ (b : byte) : bool :=
  let x := b2n b in (x =? 95) || in_rng 97 122 x || in_rng 65 90 x.

(* isDelim *)
Definition is_delim (b : byte) : bool :=
  let x := b2n b in
  negb ((x =? 45) || (x =? 43) || (x =? 46) || (x =? 95) || in_rng 97 122 x || in_rng 65 90 x || in_rng 48 57 x).

(* end of token: at end of input or before a delimiter *)
Definition at_delim (s : list byte) : bool :=
  match s with [] => true | b :: _ => is_delim b end.

(* (number of leading bytes satisfying p, rest) *)
Fixpoint span_count (p : byte -> bool) (l : list byte) : nat * list byte :=
  match l with
  | b :: r => if p b then let '(n, r') := span_count p r in (S n, r') else (O, l)
  | [] => (O, [])
  end.

(* parseIdent: size of the identifier, 0 if none *)
Definition parse_ident (inp : list byte) (allow_neg : bool) : nat :=
  match inp with
  | [] => O
  | b0 :: r0 =>
    let '(pre, s) := if allow_neg && (b2n b0 =? 45) then (1%nat, r0) else (O, inp) in
    match s with
    | [] => O
    | c :: r =>
      if is_alpha_ c then
        let '(n, rest) := span_count (fun b => is_alpha_ b || is_digit b) r in
        if at_delim rest then (pre + 1 + n)%nat else O
      else O
    end
  end.

(* numDec = 0, numHex = 1, numOct = 2, numFloat = 4 *)
Record number := { nkind : N; nneg : bool; nsize : nat; nsep : nat }.

(* the part of parseNumber after the integer part: [kind] is numDec or
   numFloat (leading '.'), [size] counts what has been consumed so far *)
Definition parse_number_tail (kind : N) (neg : bool) (size sep : nat) (s : list byte) : option number :=
  (* . followed by 0 or more digits *)
  let st1 :=
    match s with
    | b :: r =>
      if b2n b =? 46 then
        match r, kind with
        | [], 4 => None
        | _, _ => let '(n, r') := span_count is_digit r in Some (4, (size + 1 + n)%nat, r')
        end
      else Some (kind, size, s)
    | [] => Some (kind, size, s)
    end in
  match st1 with
  | None => None
  | Some (kind, size, s) =>
    (* e or E followed by an optional sign and digits *)
    let st2 :=
      match s with
      | e :: ((c :: r2) as r1) =>
        if (b2n e =? 101) || (b2n e =? 69) then
          if (b2n c =? 43) || (b2n c =? 45) then
            match r2 with
            | [] => None
            | _ => let '(n, r') := span_count is_digit r2 in Some (4, (size + 2 + n)%nat, r')
            end
          else let '(n, r') := span_count is_digit r1 in Some (4, (size + 1 + n)%nat, r')
        else Some (kind, size, s)
      | _ => Some (kind, size, s)
      end in
    match st2 with
    | None => None
    | Some (kind, size, s) =>
      (* optional suffix f or F *)
      let '(kind, size, s) :=
        match s with
        | b :: r => if (b2n b =? 102) || (b2n b =? 70) then (4, S size, r) else (kind, size, s)
        | [] => (kind, size, s)
        end in
      if at_delim s then Some {| nkind := kind; nneg := neg; nsize := size; nsep := sep |} else None
    end
  end.

Definition is_hexdig (b : byte) : bool := is_hexd b.

(* parseNumber; [None] is the zero [number{}] (size 0) *)
Definition parse_number (inp : list byte) : option number :=
  match inp with
  | [] => None
  | b0 :: r0 =>
    let '(neg, size, sep, s) :=
      if b2n b0 =? 45 then
        let s' := consume_ws false r0 in
        let sep := (length r0 - length s')%nat in
        (true, S sep, sep, s')
      else (false, O, O, inp) in
    match s with
    | [] => None
    | c :: r =>
      if b2n c =? 48 then
        match r with
        | c1 :: r1 =>
          if (b2n c1 =? 120) || (b2n c1 =? 88) then
            let '(n, rest) := span_count is_hexdig r1 in
            match n with
            | O => None
            | _ => if at_delim rest
                   then Some {| nkind := 1; nneg := neg; nsize := (size + 2 + n)%nat; nsep := sep |}
                   else None
            end
          else if in_rng 48 55 (b2n c1) then
            let '(n, rest) := span_count is_octd r1 in
            if at_delim rest
            then Some {| nkind := 2; nneg := neg; nsize := (size + 2 + n)%nat; nsep := sep |}
            else None
          else parse_number_tail 0 neg (S size) sep r
        | [] => parse_number_tail 0 neg (S size) sep r
        end
      else if in_rng 49 57 (b2n c) then
        let '(n, rest) := span_count is_digit r in
        parse_number_tail 0 neg (size + 1 + n)%nat sep rest
      else if b2n c =? 46 then parse_number_tail 4 neg size sep s
      else None
    end
  end.

Definition last_byte (l : list byte) : N := match rev l with b :: _ => b2n b | [] => 0 end.

(* number.string(data) *)
Definition number_string (num : number) (data : list byte) : list byte :=
  let tok := firstn (nsize num) data in
  let str_size :=
    if (nkind num =? 4) && ((last_byte tok =? 102) || (last_byte tok =? 70))
    then (nsize num - 1)%nat else nsize num in
  if nneg num && negb (Nat.eqb (nsep num) 0) then
    firstn 1 data ++ skipn (nsep num + 1) (firstn str_size data)
  else firstn str_size data.

(* ---------- strconv integer parsing as used by decode_token.go ---------- *)
(* strconv.ParseUint(s, 0, bits) on strings without underscores *)
Definition parse_uint_base0 (bits : N) (s : list byte) : option N :=
  match s with
  | [] => None
  | c :: r =>
    let res :=
      if b2n c =? 48 then
        match r with
        | c1 :: ((_ :: _) as r1) =>
          let x := b2n c1 in
          if (x =? 120) || (x =? 88) then parse_uint 16 r1
          else if (x =? 111) || (x =? 79) then parse_uint 8 r1
          else if (x =? 98) || (x =? 66) then parse_uint 2 r1
          else digits_val 8 0 r
        | _ => digits_val 8 0 r
        end
      else parse_uint 10 s in
    match res with
    | Some v => if v <? 2 ^ bits then Some v else None
    | None => None
    end
  end.

(* strconv.ParseInt(s, 0, bits) *)
Definition parse_int_base0 (bits : N) (s : list byte) : option Z :=
  match s with
  | [] => None
  | c :: r =>
    let '(neg, body) :=
      if b2n c =? 45 then (true, r) else if b2n c =? 43 then (false, r) else (false, s) in
    match parse_uint_base0 bits body with
    | None => None
    | Some v =>
      if neg then (if v <=? 2 ^ (bits - 1) then Some (- Z.of_N v)%Z else None)
      else (if v <? 2 ^ (bits - 1) then Some (Z.of_N v) else None)
    end
  end.

(* syntax accepted by strconv.ParseFloat on a number token's string:
   optional sign, digits, optional '.' and digits, optional exponent
   ([eE], optional sign, at least one digit), with at least one mantissa
   digit and the whole string consumed (hex floats, inf, nan and underscores cannot
   occur in a number token) *)
Definition float_syntax_ok (s : list byte) : bool :=
  let s1 := match s with
            | c :: r => if (b2n c =? 45) || (b2n c =? 43) then r else s
            | [] => s
            end in
  let '(n1, s2) := span_count is_digit s1 in
  let '(n2, s3) :=
    match s2 with
    | c :: r => if b2n c =? 46 then span_count is_digit r else (O, s2)
    | [] => (O, s2)
    end in
  if Nat.eqb (n1 + n2) 0 then false
  else match s3 with
       | [] => true
       | e :: r =>
         if (b2n e =? 101) || (b2n e =? 69) then
           let r' := match r with
                     | c :: r2 => if (b2n c =? 45) || (b2n c =? 43) then r2 else r
                     | [] => r
                     end in
           let '(n3, s4) := span_count is_digit r' in
           negb (Nat.eqb n3 0) && match s4 with [] => true | _ => false end
         else false
       end.

(* ---------- the scalar token ---------- *)
Inductive scalar :=
| ScStr (s : list byte) (rawlen : nat)
| ScLit (raw : list byte)
| ScNum (num : number) (str : list byte)
| ScErr (e : serr).

(* parseScalar on a non-empty input *)
Definition parse_scalar (inp : list byte) : scalar :=
  match inp with
  | [] => ScErr SEof
  | b :: _ =>
    if is_quote b then
      match parse_string_value (S (length inp)) inp with
      | SOk (s, rest) => ScStr s (length inp - length rest)
      | SErr e => ScErr e
      end
    else
      match parse_ident inp true with
      | S n => ScLit (firstn (S n) inp)
      | O =>
        match parse_number inp with
        | Some num => ScNum num (number_string num inp)
        | None => ScErr SSyntax
        end
      end
  end.

(* Token accessors on a number token; [legacy] is flags.ProtoLegacy *)
Definition tok_uint (bits : N) (num : number) (str : list byte) : option N :=
  if nneg num || (nkind num =? 4) then None else parse_uint_base0 bits str.

Definition tok_int (legacy : bool) (bits : N) (num : number) (str : list byte) : option Z :=
  if nkind num =? 4 then None
  else match parse_int_base0 bits str with
       | Some z => Some z
       | None =>
         if legacy && (nkind num =? 1) && negb (nneg num) then
           match parse_uint_base0 bits str with
           | Some v => Some (if v <? 2 ^ (bits - 1) then Z.of_N v else (Z.of_N v - 2 ^ Z.of_N bits)%Z)
           | None => None
           end
         else None
       end.

(* Token.Bool on a number token: 0 -> false, 1 -> true *)
Definition tok_bool_num (str : list byte) : option bool :=
  match parse_uint_base0 64 str with
  | Some 0 => Some false
  | Some 1 => Some true
  | _ => None
  end.

Definition lower_byte (b : byte) : byte :=
  let x := b2n b in if in_rng 65 90 x then n2b (x + 32) else b.

(* floatLits after strings.ToLower: 0 none, 1 nan, 2 +inf, 3 -inf *)
Definition float_lit_class (raw : list byte) : N :=
  let l := map (fun b => b2n (lower_byte b)) raw in
  match l with
  | [110; 97; 110] => 1
  | [105; 110; 102] => 2
  | [105; 110; 102; 105; 110; 105; 116; 121] => 2
  | [45; 105; 110; 102] => 3
  | [45; 105; 110; 102; 105; 110; 105; 116; 121] => 3
  | _ => 0
  end.

(* boolLits: 0 none, 1 false, 2 true *)
Definition bool_lit_class (raw : list byte) : N :=
  match map b2n raw with
  | [116] => 2 | [116; 114; 117; 101] => 2 | [84; 114; 117; 101] => 2
  | [102] => 1 | [102; 97; 108; 115; 101] => 1 | [70; 97; 108; 115; 101] => 1
  | _ => 0
  end.
