(* TextMsgModel — tree-level model of prototext Marshal / Unmarshal (C24).  Definitions only.

   Mirrors encoding/prototext/encode.go (marshalMessage, marshalField, marshalSingular, marshalList,
   marshalMap, marshalAny) and decode.go (unmarshalMessage, unmarshalSingular, unmarshalScalar,
   unmarshalList, unmarshalMap, unmarshalMapEntry, unmarshalAny, unmarshalExpandedAny) at the level of
   an abstract text tree; the byte level (string escaping incl. EmitASCII, number text, white space,
   indentation, the detrand space) belongs to C25 and the text number model of WP-D.  Multiline,
   Indent and EmitASCII therefore do not occur in [to_text]; EmitUnknown is off (its rendering is C25's).

   ttok   TInt z      a decimal integer literal (WriteInt / WriteUint)
          TF32 b / TF64 b   the shortest 'g' rendering of the finite float with bit pattern b at that
                      size (strconv-relative)
          TStr bytes  a string literal (after unescaping)
          TLit bytes  an identifier-like literal: true false nan inf -inf, enum value names
          TRaw raw i f64 f32   an observed literal with annotations: its integer value when it is a
                      decimal integer literal; strconv.ParseFloat at 64 / 32 bits when it parses
   tv     TScalar tok | TMsg fields       fields : list (name * tv), repeated fields repeat the name
   to_text S nm lim fuel tid v : tres (list (name * tv))     the top-level field list
   of_text S nm fuel tid fields : tres value *)
From Coq Require Import List NArith ZArith Bool.
From PB Require Import Base.PBytes Wire.WireModel Msg.MsgSchema Msg.MsgValue Msg.MsgUtf8 Msg.MsgEnc Msg.MsgDec.
From PB Require Import Json.RtSchema.
Import ListNotations.
Open Scope N_scope.

Inductive ttok :=
| TInt (z : Z) | TF32 (b : N) | TF64 (b : N) | TStr (s : list byte) | TLit (s : list byte)
| TRaw (raw : list byte) (i : option Z) (f64 f32 : option N).

Inductive tv := TScalar (t : ttok) | TMsg (fs : list (list byte * tv)).

Definition tfields := list (list byte * tv).

Inductive terr :=
| TEUtf8          (* invalid UTF-8 in a validated string: the only Marshal error *)
| TESchema | TEFuel | TEDecode | TEUnmodelled.

Inductive tres (A : Type) := TOk (a : A) | TErr (e : terr).
Arguments TOk {A}. Arguments TErr {A}.

Definition tbind {A B} (r : tres A) (f : A -> tres B) : tres B :=
  match r with TOk a => f a | TErr e => TErr e end.
Notation "x <~ r ;; k" := (tbind r (fun x => k)) (at level 61, r at next level, right associativity).

Fixpoint tmapM {A B} (f : A -> tres B) (l : list A) : tres (list B) :=
  match l with
  | [] => TOk []
  | a :: r => b <~ f a ;; bs <~ tmapM f r ;; TOk (b :: bs)
  end.

Record topts := mkTO { to_multiline : bool; to_indent : bool; to_ascii : bool }.   (* rendering only *)

(* ---------- literal strings ---------- *)
Definition t_true : list byte := [x74; x72; x75; x65].
Definition t_false : list byte := [x66; x61; x6c; x73; x65].
Definition t_nan : list byte := [x6e; x61; x6e].
Definition t_inf : list byte := [x69; x6e; x66].
Definition t_ninf : list byte := x2d :: t_inf.
Definition t_infinity : list byte := [x69; x6e; x66; x69; x6e; x69; x74; x79].
Definition t_ninfinity : list byte := x2d :: t_infinity.
Definition t_key : list byte := [x6b; x65; x79].
Definition t_value : list byte := [x76; x61; x6c; x75; x65].
Definition t_type_url : list byte := [x74; x79; x70; x65; x5f; x75; x72; x6c].

(* ---------- scalars: marshalSingular ---------- *)
Definition text_float32 (b : N) : ttok :=
  if f32_is_nan b then TLit t_nan else if f32_is_pinf b then TLit t_inf
  else if f32_is_ninf b then TLit t_ninf else TF32 b.
Definition text_float64 (b : N) : ttok :=
  if f64_is_nan b then TLit t_nan else if f64_is_pinf b then TLit t_inf
  else if f64_is_ninf b then TLit t_ninf else TF64 b.

Definition text_scalar (ed : edesc) (utf8 : bool) (sk : skind) (s : scalar) : tres ttok :=
  match sk, s with
  | SkBool, SB b => TOk (TLit (if b then t_true else t_false))
  | SkString, SBy bs => if utf8 && negb (msg_utf8_valid bs) then TErr TEUtf8 else TOk (TStr bs)
  | SkInt32, SZ z | SkSint32, SZ z | SkSfixed32, SZ z
  | SkInt64, SZ z | SkSint64, SZ z | SkSfixed64, SZ z => TOk (TInt z)
  | SkUint32, SN n | SkFixed32, SN n | SkUint64, SN n | SkFixed64, SN n => TOk (TInt (Z.of_N n))
  | SkFloat, SN b => TOk (text_float32 b)
  | SkDouble, SN b => TOk (text_float64 b)
  | SkBytes, SBy bs => TOk (TStr bs)
  | SkEnum, SZ z =>
    match enum_by_number (e_vals ed) z with
    | Some name => TOk (TLit name)
    | None => TOk (TInt z)
    end
  | _, _ => TErr TESchema
  end.

(* ---------- the lexer's view of a bracketed name: text.Decoder.parseTypeName ---------- *)
Definition is_type_name_char (c : byte) : bool :=
  let x := b2n c in
  (x =? 45) || (x =? 95) || ((48 <=? x) && (x <=? 57)) || ((97 <=? x) && (x <=? 122)) || ((65 <=? x) && (x <=? 90)).
Definition is_url_extra_char (c : byte) : bool :=
  let x := b2n c in
  (x =? 46) || (x =? 126) || (x =? 33) || (x =? 36) || (x =? 38) || (x =? 40) || (x =? 41) || (x =? 42)
  || (x =? 43) || (x =? 44) || (x =? 59) || (x =? 61).
Definition is_hex_char (c : byte) : bool :=
  let x := b2n c in
  ((48 <=? x) && (x <=? 57)) || ((97 <=? x) && (x <=? 102)) || ((65 <=? x) && (x <=? 70)).
Definition is_ws (c : byte) : bool :=
  let x := b2n c in (x =? 32) || (x =? 10) || (x =? 13) || (x =? 9).

(* the characters collected between the brackets; white space between them is skipped; None: rejected
   (a '#' starts a comment that swallows the rest of the line, closing bracket included: rejected) *)
Fixpoint type_name_scan (s : list byte) : option (list byte) :=
  match s with
  | [] => Some []
  | c :: r =>
    if is_ws c then type_name_scan r
    else if (b2n c =? 47) || is_type_name_char c || is_url_extra_char c then
      match type_name_scan r with Some t => Some (c :: t) | None => None end
    else if b2n c =? 37 then
      match r with
      | h1 :: h2 :: r' =>
        if is_hex_char h1 && is_hex_char h2 then
          match type_name_scan r' with Some t => Some (c :: h1 :: h2 :: t) | None => None end
        else None
      | _ => None
      end
    else None
  end.

(* no empty identifier between dots *)
Fixpoint parts_nonempty (at_start : bool) (s : list byte) : bool :=
  match s with
  | [] => negb at_start
  | c :: r => if b2n c =? 46 then negb at_start && parts_nonempty true r else parts_nonempty false r
  end.

Definition text_type_name (inner : list byte) : option (list byte) :=
  match type_name_scan inner with
  | None => None
  | Some name =>
    let tn := url_type_name name in
    let has_slash := existsb (fun c => b2n c =? 47) name in
    let prefix_len := (length name - length tn - 1)%nat in
    let bad_prefix := has_slash && Nat.ltb 0 prefix_len && match name with c :: _ => b2n c =? 47 | [] => false end in
    if bad_prefix then None
    else if negb (parts_nonempty true tn) then None
    else if existsb (fun c => (b2n c =? 37) || (negb (b2n c =? 46) && is_url_extra_char c)) tn then None
    else Some name
  end.

(* name kinds of the lexer *)
Definition is_bracket_name (name : list byte) : bool :=
  match name with c :: _ => b2n c =? 91 | [] => false end.
Definition bracket_inner (name : list byte) : list byte := removelast (tl name).

(* ================================================================== encoder *)
Section Enc.
  Variable S : schema.
  Variable nm : names.
  Variable lim : nat.
  Variable rec : nat -> value -> tres tfields.      (* body of a message one level down *)

  Definition text_elem (fd : fdesc) (fn : fname) (utf8 : bool) (k : kind) (v : value) : tres tv :=
    match k, v with
    | KS sk, VS s => t <~ text_scalar (nm_enum nm fn) utf8 sk s ;; TOk (TScalar t)
    | KMsg tid, VMsg _ _ | KGrp tid, VMsg _ _ => b <~ rec tid v ;; TOk (TMsg b)
    | _, _ => TErr TESchema
    end.

  Definition text_entry (fd : fdesc) (fn : fname) (kk : skind) (kutf8 : bool) (e : value) : tres tv :=
    match e with
    | VEntry k v =>
      kt <~ text_scalar ed_default kutf8 kk k ;;
      vt <~ text_elem fd fn (f_utf8 fd) (f_kind fd) v ;;
      TOk (TMsg [(t_key, TScalar kt); (t_value, vt)])
    | _ => TErr TESchema
    end.

  Definition text_field (fs : fields) (p : fpair) : tres tfields :=
    let fd := fst p in let fn := snd p in
    let vs := msg_fget fs (f_num fd) in
    match f_card fd with
    | CMap kk kutf8 _ => xs <~ tmapM (text_entry fd fn kk kutf8) vs ;; TOk (map (fun x => (fn_text fn, x)) xs)
    | _ => xs <~ tmapM (text_elem fd fn (f_utf8 fd) (f_kind fd)) vs ;; TOk (map (fun x => (fn_text fn, x)) xs)
    end.

  Definition text_regular (tid : nat) (fs : fields) : tres tfields :=
    xs <~ tmapM (text_field fs) (rt_field_order (rt_fields S nm tid)) ;; TOk (concat xs).

  Definition get_bytes_t (fs : fields) (num : N) : list byte :=
    match msg_fget fs num with [VS (SBy b)] => b | _ => [] end.

  (* marshalAny: Some fields when the expansion succeeds; None: fall back to the regular form *)
  Definition text_any (fs : fields) : tres (option tfields) :=
    let url := get_bytes_t fs 1 in
    match resolve_url nm url with
    | None => TOk None
    | Some t =>
      match msg_decode false S lim t (get_bytes_t fs 2) with
      | MsgDec.DErr _ => TOk None
      | MsgDec.DOk em =>
        match rec t em with
        | TOk b => TOk (Some [(x5b :: url ++ [x5d], TMsg b)])
        | TErr TEUtf8 => TOk None
        | TErr e => TErr e
        end
      end
    end.

  Definition text_msg_body (tid : nat) (v : value) : tres tfields :=
    match v with
    | VMsg fs _ =>
      if mn_wkt (nm_msg nm tid) =? 1 then
        a <~ text_any fs ;;
        match a with Some b => TOk b | None => text_regular tid fs end
      else text_regular tid fs
    | _ => TErr TESchema
    end.
End Enc.

Fixpoint to_text_msg (S : schema) (nm : names) (lim : nat) (fuel : nat) (tid : nat) (v : value) : tres tfields :=
  match fuel with
  | O => TErr TEFuel
  | Datatypes.S f => text_msg_body S nm lim (to_text_msg S nm lim f) tid v
  end.

Definition to_text (o : topts) := to_text_msg.

(* ================================================================== decoder *)
Definition tin_i32 (z : Z) : bool := ((-2147483648 <=? z) && (z <? 2147483648))%Z.
Definition tin_i64 (z : Z) : bool := ((-9223372036854775808 <=? z) && (z <? 9223372036854775808))%Z.
Definition tin_u32 (z : Z) : bool := ((0 <=? z) && (z <? 4294967296))%Z.
Definition tin_u64 (z : Z) : bool := ((0 <=? z) && (z <? 18446744073709551616))%Z.

Definition tok_int (t : ttok) : tres Z :=
  match t with
  | TInt z => TOk z
  | TRaw _ (Some z) _ _ => TOk z
  | TF32 _ | TF64 _ => TErr TEUnmodelled
  | TRaw _ None (Some _) _ => TErr TEUnmodelled     (* hex / octal / float-shaped literals: text number model *)
  | _ => TErr TEDecode
  end.
Definition tdec_int (ok : Z -> bool) (t : ttok) : tres Z :=
  z <~ tok_int t ;; if ok z then TOk z else TErr TEDecode.

Definition lower (c : byte) : byte := if (65 <=? b2n c) && (b2n c <=? 90) then n2b (b2n c + 32) else c.

Definition float_lit (which32 : bool) (s : list byte) : option N :=
  let l := map lower s in
  if bs_eqb l t_nan then Some (if which32 then f32_nan else f64_nan)
  else if bs_eqb l t_inf || bs_eqb l t_infinity then Some (if which32 then f32_pinf else f64_pinf)
  else if bs_eqb l t_ninf || bs_eqb l t_ninfinity then Some (if which32 then f32_ninf else f64_ninf)
  else None.

Definition tdec_float32 (t : ttok) : tres N :=
  match t with
  | TF32 b => TOk b
  | TLit s => match float_lit true s with Some b => TOk b | None => TErr TEDecode end
  | TRaw s _ _ (Some b) => match float_lit true s with Some b' => TOk b' | None => TOk b end
  | TRaw s _ _ None => match float_lit true s with Some b' => TOk b' | None => TErr TEDecode end
  | TStr _ => TErr TEDecode
  | _ => TErr TEUnmodelled
  end.
Definition tdec_float64 (t : ttok) : tres N :=
  match t with
  | TF64 b => TOk b
  | TLit s => match float_lit false s with Some b => TOk b | None => TErr TEDecode end
  | TRaw s _ (Some b) _ => match float_lit false s with Some b' => TOk b' | None => TOk b end
  | TRaw s _ None _ => match float_lit false s with Some b' => TOk b' | None => TErr TEDecode end
  | TStr _ => TErr TEDecode
  | _ => TErr TEUnmodelled
  end.

Definition tok_ident (t : ttok) : option (list byte) :=
  match t with
  | TLit s => Some s
  | TRaw s None _ _ => Some s
  | _ => None
  end.

Definition bool_lit (s : list byte) : option bool :=
  if bs_eqb s t_true || bs_eqb s [x74] || bs_eqb s [x54; x72; x75; x65] then Some true
  else if bs_eqb s t_false || bs_eqb s [x66] || bs_eqb s [x46; x61; x6c; x73; x65] then Some false
  else None.

Definition tdec_bool (t : ttok) : tres bool :=
  match tok_ident t with
  | Some s => match bool_lit s with Some b => TOk b | None => TErr TEDecode end
  | None =>
    match t with
    | TStr _ => TErr TEDecode
    | TF32 _ | TF64 _ => TErr TEUnmodelled
    | _ => z <~ tok_int t ;;
           if (z =? 0)%Z then TOk false else if (z =? 1)%Z then TOk true else TErr TEDecode
    end
  end.

Definition tdec_enum (ed : edesc) (t : ttok) : tres Z :=
  match tok_ident t with
  | Some s =>
    match s with
    | c :: _ =>
      if b2n c =? 45 then TErr TEDecode
      else match enum_by_name (e_vals ed) s with Some z => TOk z | None => TErr TEDecode end
    | [] => TErr TEDecode
    end
  | None => tdec_int tin_i32 t
  end.

Definition tdec_scalar (ed : edesc) (utf8 : bool) (sk : skind) (t : ttok) : tres scalar :=
  match sk with
  | SkBool => b <~ tdec_bool t ;; TOk (SB b)
  | SkInt32 | SkSint32 | SkSfixed32 => z <~ tdec_int tin_i32 t ;; TOk (SZ z)
  | SkInt64 | SkSint64 | SkSfixed64 => z <~ tdec_int tin_i64 t ;; TOk (SZ z)
  | SkUint32 | SkFixed32 => z <~ tdec_int tin_u32 t ;; TOk (SN (Z.to_N z))
  | SkUint64 | SkFixed64 => z <~ tdec_int tin_u64 t ;; TOk (SN (Z.to_N z))
  | SkFloat => b <~ tdec_float32 t ;; TOk (SN b)
  | SkDouble => b <~ tdec_float64 t ;; TOk (SN b)
  | SkString =>
    match t with
    | TStr s => if utf8 && negb (msg_utf8_valid s) then TErr TEDecode else TOk (SBy s)
    | _ => TErr TEDecode
    end
  | SkBytes => match t with TStr s => TOk (SBy s) | _ => TErr TEDecode end
  | SkEnum => z <~ tdec_enum ed t ;; TOk (SZ z)
  end.

Fixpoint tfind_by (ext : bool) (fps : list fpair) (name : list byte) : option fpair :=
  match fps with
  | [] => None
  | p :: r =>
    if Bool.eqb (f_ext (fst p)) ext && bs_eqb (fn_text (snd p)) name then Some p else tfind_by ext r name
  end.

(* IdentName: Fields().ByTextName; TypeName: the registered extension with that full name, which must
   extend this message (others: "cannot be extended by"; unknown names: "unknown field" -- both errors) *)
Definition tlookup (fps : list fpair) (name : list byte) : option fpair :=
  if is_bracket_name name then
    match text_type_name (bracket_inner name) with
    | Some full => tfind_by true fps (x5b :: full ++ [x5d])
    | None => None
    end
  else tfind_by false fps name.

Record tstate := mkTS { ts_fs : fields; ts_seen : list N; ts_oneofs : list N }.

Record astate := mkAS { as_url : list byte; as_val : list byte; as_seen_t : bool; as_seen_v : bool; as_exp : bool }.

Section Dec.
  Variable S : schema.
  Variable nm : names.
  Variable rec : nat -> tfields -> tres value.

  Definition tdec_elem (fd : fdesc) (fn : fname) (utf8 : bool) (k : kind) (x : tv) : tres value :=
    match k, x with
    | KS sk, TScalar t => s <~ tdec_scalar (nm_enum nm fn) utf8 sk t ;; TOk (VS s)
    | KMsg tid, TMsg b | KGrp tid, TMsg b => rec tid b
    | _, _ => TErr TEDecode
    end.

  (* unmarshalMapEntry: key / value in any order, at most once each; defaults when missing *)
  Fixpoint tdec_entry_fields (fd : fdesc) (fn : fname) (kk : skind) (kutf8 : bool) (l : tfields)
           (key : option scalar) (val : option value) : tres (option scalar * option value) :=
    match l with
    | [] => TOk (key, val)
    | (name, x) :: r =>
      if bs_eqb name t_key then
        match key, x with
        | Some _, _ => TErr TEDecode
        | None, TScalar t => k <~ tdec_scalar ed_default kutf8 kk t ;; tdec_entry_fields fd fn kk kutf8 r (Some k) val
        | None, _ => TErr TEDecode
        end
      else if bs_eqb name t_value then
        match val with
        | Some _ => TErr TEDecode
        | None => v <~ tdec_elem fd fn (f_utf8 fd) (f_kind fd) x ;; tdec_entry_fields fd fn kk kutf8 r key (Some v)
        end
      else TErr TEDecode
    end.

  Definition entry_default (fd : fdesc) (vdef : Z) : value :=
    match f_kind fd with
    | KS SkEnum => VS (SZ vdef)
    | KS sk => VS (sk_zero sk)
    | _ => VMsg [] []
    end.

  Definition tstore (fs : fields) (num : N) (vs : list value) : fields :=
    match vs with [] => fs | _ => msg_fset fs num vs end.

  Definition tdec_field (fd : fdesc) (fn : fname) (x : tv) (st : tstate) : tres tstate :=
    match f_card fd with
    | CRep | CPacked =>
      v <~ tdec_elem fd fn (f_utf8 fd) (f_kind fd) x ;;
      TOk (mkTS (msg_fset (ts_fs st) (f_num fd) (msg_fget (ts_fs st) (f_num fd) ++ [v])) (ts_seen st) (ts_oneofs st))
    | CMap kk kutf8 vdef =>
      match x with
      | TMsg l =>
        kv <~ tdec_entry_fields fd fn kk kutf8 l None None ;;
        let k := match fst kv with Some k => k | None => sk_zero kk end in
        let v := match snd kv with Some v => v | None => entry_default fd vdef end in
        TOk (mkTS (msg_fset (ts_fs st) (f_num fd) (msg_map_put (msg_fget (ts_fs st) (f_num fd)) k v)) (ts_seen st) (ts_oneofs st))
      | _ => TErr TEDecode
      end
    | c =>
      match (match f_oneof fd with
             | Some i => if existsb (N.eqb i) (ts_oneofs st) then None else Some (i :: ts_oneofs st)
             | None => Some (ts_oneofs st) end) with
      | None => TErr TEDecode
      | Some ones =>
        if existsb (N.eqb (f_num fd)) (ts_seen st) then TErr TEDecode
        else
          v <~ tdec_elem fd fn (f_utf8 fd) (f_kind fd) x ;;
          let drop := match c, v with CImp, VS s => msg_scalar_is_zero s | _, _ => false end in
          TOk (mkTS (if drop then ts_fs st else msg_fset (ts_fs st) (f_num fd) [v]) (f_num fd :: ts_seen st) ones)
      end
    end.

  Fixpoint tdec_fields (fps : list fpair) (l : tfields) (st : tstate) : tres tstate :=
    match l with
    | [] => TOk st
    | (name, x) :: r =>
      match tlookup fps name with
      | None => TErr TEDecode
      | Some (fd, fn) => st' <~ tdec_field fd fn x st ;; tdec_fields fps r st'
      end
    end.

  Definition tdec_regular (tid : nat) (l : tfields) : tres value :=
    st <~ tdec_fields (rt_fields S nm tid) l (mkTS [] [] []) ;; TOk (VMsg (ts_fs st) []).

  (* unmarshalAny *)
  Definition tok_str (x : tv) : option (list byte) :=
    match x with TScalar (TStr s) => Some s | _ => None end.

  Fixpoint tdec_any_fields (l : tfields) (a : astate) : tres astate :=
    match l with
    | [] => TOk a
    | (name, x) :: r =>
      if is_bracket_name name then
        if as_exp a || as_seen_t a then TErr TEDecode
        else match text_type_name (bracket_inner name) with
             | None => TErr TEDecode
             | Some url =>
               match resolve_url nm url, x with
               | Some t, TMsg b =>
                 em <~ rec t b ;;
                 tdec_any_fields r (mkAS url (msg_encode S t em) (as_seen_t a) (as_seen_v a) true)
               | _, _ => TErr TEDecode
               end
             end
      else if bs_eqb name t_type_url then
        if as_seen_t a || as_exp a then TErr TEDecode
        else match tok_str x with
             | Some s => tdec_any_fields r (mkAS s (as_val a) true (as_seen_v a) (as_exp a))
             | None => TErr TEDecode
             end
      else if bs_eqb name t_value then
        if as_seen_v a || as_exp a then TErr TEDecode
        else match tok_str x with
             | Some s => tdec_any_fields r (mkAS (as_url a) s (as_seen_t a) true (as_exp a))
             | None => TErr TEDecode
             end
      else TErr TEDecode
    end.

  Definition tdec_any (l : tfields) : tres value :=
    a <~ tdec_any_fields l (mkAS [] [] false false false) ;;
    TOk (VMsg ((match as_url a with [] => [] | u => [(1, [VS (SBy u)])] end)
               ++ (match as_val a with [] => [] | b => [(2, [VS (SBy b)])] end)) []).

  Definition of_text_body (tid : nat) (l : tfields) : tres value :=
    if mn_wkt (nm_msg nm tid) =? 1 then tdec_any l else tdec_regular tid l.
End Dec.

Fixpoint of_text_msg (S : schema) (nm : names) (fuel : nat) (tid : nat) (l : tfields) : tres value :=
  match fuel with
  | O => TErr TEFuel
  | Datatypes.S f => of_text_body S nm (of_text_msg S nm f) tid l
  end.

Definition of_text := of_text_msg.

(* ================================================================== comparison with an observed tree *)
Definition ttok_match (m i : ttok) : bool :=
  match m, i with
  | TInt z, TRaw _ (Some z') _ _ => (z =? z')%Z
  | TF32 b, TRaw _ _ _ (Some b') => b =? b'
  | TF64 b, TRaw _ _ (Some b') _ => b =? b'
  | TLit s, TRaw raw _ _ _ => bs_eqb s raw
  | TStr s, TStr s' => bs_eqb s s'
  | _, _ => false
  end.

Fixpoint tv_match (m i : tv) {struct m} : bool :=
  match m, i with
  | TScalar a, TScalar b => ttok_match a b
  | TMsg a, TMsg b =>
    (fix go (a b : tfields) : bool :=
       match a, b with
       | [], [] => true
       | (k, x) :: a', (k', y) :: b' => bs_eqb k k' && tv_match x y && go a' b'
       | _, _ => false
       end) a b
  | _, _ => false
  end.
Definition tfields_match (a b : tfields) : bool := tv_match (TMsg a) (TMsg b).
