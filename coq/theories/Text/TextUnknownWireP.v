(* Discharges the wire-grammar hypothesis of Text/TextUnknownP.v with the
   scanner theorems of Wire/ScanP.v (C02): rendering the unknown fields of
   any byte string that the wire parser accepts never panics. *)
From Coq Require Import List Arith NArith ZArith Lia Bool.
From Coq Require Import ZifyBool ZifyNat ZifyN.
From PB Require Import Base.PBytes Wire.WireModel Wire.WireGrammar Wire.VarintP Wire.ScanP
  Text.TextStrModel Text.TextUnknownModel Text.TextUnknownP.
Import ListNotations.
Open Scope N_scope.

(* well formed with at most d <= 10001 group levels (Go: depth 10000) *)
Definition wf_unknown (d : nat) (bs : list byte) : Prop :=
  (d <= N.to_nat 10001)%nat /\ wf_fields d bs.

Lemma skipn_app_len {A} (a t : list A) n : length a = n -> skipn n (a ++ t) = t.
Proof. intros <-. rewrite skipn_app, Nat.sub_diag, skipn_all. reflexivity. Qed.

Lemma wf_unknown_step d bs : wf_unknown d bs -> bs <> [] -> field_step wf_unknown d bs.
Proof.
  intros [Hd H] Hne. unfold wf_fields in H.
  inversion H as [|tag num typ val rest Htag Hn4 Hv Hrest Heq]; subst; [congruence|].
  pose proof (is_tag_len _ _ _ Htag) as Hlt.
  assert (Hrw : wf_unknown d rest) by (split; assumption).
  assert (Hlr : (length rest < length (tag ++ val ++ rest))%nat) by (rewrite !app_length; lia).
  exists num, typ, (val ++ rest). split; [now apply dec_tag_complete|].
  rewrite wf_value_eq in Hv.
  assert (Ht : typ < 8) by (destruct Htag as (_ & _ & Ht & _); exact Ht).
  assert (Hc : typ = 0 \/ typ = 1 \/ typ = 2 \/ typ = 3 \/ typ = 4 \/ typ = 5 \/ typ = 6 \/ typ = 7) by lia.
  destruct Hc as [->|[->|[->|[->|[->|[->|[->| ->]]]]]]]; cbv iota in Hv; try contradiction; try congruence.
  - (* varint *)
    left. split; [reflexivity|]. exists (varint_val val), rest.
    split; [now apply dec_varint_complete|]. split; assumption.
  - (* fixed64 *)
    right; right; left. split; [reflexivity|]. exists (dec_le val), rest.
    split; [|split; assumption]. unfold dec_fixed64, dec_fixed. rewrite <- Hv, take_app. reflexivity.
  - (* bytes *)
    right; right; right; left. split; [reflexivity|].
    destruct Hv as (p & payload & -> & Hs & Hvv). exists payload, rest.
    split; [|split; assumption]. rewrite <- app_assoc. now apply dec_bytes_complete.
  - (* group *)
    right; right; right; right. split; [reflexivity|].
    destruct d as [|d']; [contradiction|]. destruct Hv as (body & etag & -> & Hseq & Het).
    pose proof (is_tag_len _ _ _ Het) as Hle.
    exists body, (N.of_nat (length body + length etag)), d'. split; [reflexivity|].
    assert (Hd' : (d' <= N.to_nat 10000)%nat) by lia.
    split; [rewrite <- app_assoc; now apply (consume_group_complete_le d')|].
    split; [split; [lia|exact Hseq]|].
    rewrite Nat2N.id, skipn_app_len by (rewrite app_length; reflexivity).
    split; [exact Hrw|]. rewrite !app_length in *. lia.
  - (* fixed32 *)
    right; left. split; [reflexivity|]. exists (dec_le val), rest.
    split; [|split; assumption]. unfold dec_fixed32, dec_fixed. rewrite <- Hv, take_app. reflexivity.
Qed.

(* the wire parser only accepts members of the grammar *)
Lemma parse_fields_wf dep : forall g bs acc fs,
  parse_fields g dep bs acc = Ok fs -> wf_fields dep bs.
Proof.
  induction g as [|x g IH]; intros bs acc fs H; [discriminate|].
  cbn [parse_fields] in H. destruct bs as [|b0 bs0]; [constructor|].
  destruct (dec_tag (b0 :: bs0)) as [[[n t] r]|e] eqn:Et; [|discriminate].
  destruct (parse_val dep n t r) as [[v r']|e] eqn:Ev; [|discriminate].
  apply dec_tag_sound in Et. destruct Et as (p & Hp & Htag).
  pose proof Ev as Ev'. apply parse_val_sound in Ev. destruct Ev as (val & -> & Hval).
  rewrite Hp. unfold wf_fields. apply wf_seq_cons with (num := n) (typ := t); try assumption.
  - intros ->. rewrite parse_val_eq in Ev'. discriminate.
  - eapply IH. exact H.
Qed.

Theorem marshal_unknown_total_wf c d bs : (d <= N.to_nat 10001)%nat -> wf_fields d bs ->
  exists out, marshal_unknown c bs = Some out.
Proof.
  intros Hd H. apply (marshal_unknown_total wf_unknown wf_unknown_step c d bs). split; assumption.
Qed.

(* for every option setting and every byte string that the wire parser
   accepts as a field sequence (the unknown-field grammar of C02): no Panic *)
Theorem marshal_unknown_total_parsed c bs fs :
  parse_fields (x00 :: bs) default_dep bs [] = Ok fs -> exists out, marshal_unknown c bs = Some out.
Proof.
  intros H. apply parse_fields_wf in H.
  apply (marshal_unknown_total_wf c default_dep bs); [unfold default_dep; lia|exact H].
Qed.
