(* TextMsgP — proof of the prototext round trip (C24) for the tree-level model:
   of_text (to_text v) = strip_unknown v for every valid canonical value v. *)
From Coq Require Import List Arith NArith ZArith Lia Bool Permutation.
From Coq Require Import ZifyBool ZifyNat ZifyN.
From PB Require Import Base.PBytes Wire.WireModel Msg.MsgSchema Msg.MsgValue Msg.MsgUtf8 Msg.MsgEnc Msg.MsgDec Msg.MsgValid Msg.MsgAssocP.
From PB Require Import Json.RtSchema Text.TextMsgModel Text.TextMsgValid Text.TextMsgScalarP.
Ltac Zify.zify_post_hook ::= Z.div_mod_to_equations.
Import ListNotations.
Open Scope N_scope.

(* ================================================================== generic list facts *)
Lemma existsb_Neqb_false x l : ~ In x l -> existsb (N.eqb x) l = false.
Proof.
  intros H. destruct (existsb (N.eqb x) l) eqn:E; [|reflexivity].
  apply existsb_exists in E. destruct E as (y & Hy & Ey). apply N.eqb_eq in Ey. subst. contradiction.
Qed.

Lemma n_nodup_NoDup l : n_nodup l = true -> NoDup l.
Proof.
  induction l as [|x r IH]; cbn [n_nodup]; intros H; [constructor|].
  apply andb_prop in H. destruct H as [H1 H2]. constructor; [|apply IH, H2].
  intros Hin. apply negb_true_iff in H1.
  assert (existsb (N.eqb x) r = true); [|congruence].
  apply existsb_exists. exists x. split; [exact Hin|apply N.eqb_refl].
Qed.

Lemma bs_nodup_NoDup l : bs_nodup l = true -> NoDup l.
Proof.
  induction l as [|x r IH]; cbn [bs_nodup]; intros H; [constructor|].
  apply andb_prop in H. destruct H as [H1 H2]. constructor; [|apply IH, H2].
  intros Hin. apply negb_true_iff in H1.
  assert (existsb (bs_eqb x) r = true); [|congruence].
  apply existsb_exists. exists x. split; [exact Hin|apply bs_eqb_refl].
Qed.

Lemma NoDup_map_inj {A B} (f : A -> B) l x y :
  NoDup (map f l) -> In x l -> In y l -> f x = f y -> x = y.
Proof.
  induction l as [|a l IH]; intros Hnd Hx Hy E; [contradiction|].
  cbn [map] in Hnd. inversion Hnd as [|? ? Hn Hnd']; subst.
  destruct Hx as [->|Hx], Hy as [->|Hy]; try reflexivity.
  - exfalso. apply Hn. rewrite E. apply in_map, Hy.
  - exfalso. apply Hn. rewrite <- E. apply in_map, Hx.
  - apply IH; assumption.
Qed.

Lemma tmapM_ok {A B} (f : A -> tres B) (P : A -> B -> Prop) l :
  (forall a, In a l -> exists b, f a = TOk b /\ P a b) ->
  exists bs, tmapM f l = TOk bs /\ Forall2 P l bs.
Proof.
  induction l as [|a l IH]; intros H.
  - exists []. split; [reflexivity|constructor].
  - destruct (H a (or_introl eq_refl)) as (b & Hb & Pb).
    destruct IH as (bs & Hbs & Pbs); [intros x Hx; apply H; right; exact Hx|].
    exists (b :: bs). split; [|constructor; assumption].
    cbn [tmapM]. rewrite Hb. cbn [tbind]. rewrite Hbs. reflexivity.
Qed.

(* ================================================================== association lists *)
Lemma msg_fget_fset_other fs k k' vs : k' <> k -> msg_fget (msg_fset fs k vs) k' = msg_fget fs k'.
Proof.
  intros Hne. induction fs as [|[k0 v0] r IH]; cbn [msg_fset msg_fget].
  - destruct (k' =? k) eqn:E; [apply N.eqb_eq in E; contradiction|reflexivity].
  - destruct (k <? k0) eqn:E1.
    + cbn [msg_fget]. destruct (k' =? k) eqn:E; [apply N.eqb_eq in E; contradiction|reflexivity].
    + destruct (k =? k0) eqn:E2.
      * apply N.eqb_eq in E2. subst k0. cbn [msg_fget].
        destruct (k' =? k) eqn:E; [apply N.eqb_eq in E; contradiction|reflexivity].
      * cbn [msg_fget]. destruct (k' =? k0); [reflexivity|exact IH].
Qed.

Lemma msg_fget_in fs k vs : NoDup (msg_keys fs) -> In (k, vs) fs -> msg_fget fs k = vs.
Proof.
  induction fs as [|[k0 v0] r IH]; intros Hnd Hin; [contradiction|].
  cbn [msg_keys map fst] in Hnd. inversion Hnd as [|? ? Hn Hnd']; subst.
  cbn [msg_fget]. destruct Hin as [E|Hin].
  - inversion E; subst. rewrite N.eqb_refl. reflexivity.
  - destruct (k =? k0) eqn:E.
    + apply N.eqb_eq in E. subst k0. exfalso. apply Hn. change k with (fst (k, vs)). apply in_map, Hin.
    + apply IH; assumption.
Qed.

Lemma msg_fget_nonempty_in fs k : msg_fget fs k <> [] -> In (k, msg_fget fs k) fs.
Proof.
  induction fs as [|[k0 v0] r IH]; cbn [msg_fget]; intros H; [congruence|].
  destruct (k =? k0) eqn:E.
  - apply N.eqb_eq in E. subst. left. reflexivity.
  - right. apply IH, H.
Qed.

Definition sp (p : N * list value) : N * list value := (fst p, map strip_unknown (snd p)).

Lemma msg_sorted_map_sp lo fs : msg_sorted lo fs -> msg_sorted lo (map sp fs).
Proof.
  revert lo. induction fs as [|[k vs] r IH]; intros lo H; [exact H|].
  cbn [map sp fst snd msg_sorted] in *. destruct H as [H1 H2]. split; [exact H1|apply IH, H2].
Qed.

Lemma msg_keys_map_sp fs : msg_keys (map sp fs) = msg_keys fs.
Proof. unfold msg_keys. rewrite map_map. apply map_ext. intros [k vs]. reflexivity. Qed.

Lemma NoDup_keys_pairs (l : fields) : NoDup (msg_keys l) -> NoDup l.
Proof.
  induction l as [|[k vs] r IH]; intros H; [constructor|].
  cbn [msg_keys map fst] in H. inversion H as [|? ? Hn Hnd]; subst. constructor; [|apply IH, Hnd].
  intros Hin. apply Hn. change k with (fst (k, vs)). apply in_map, Hin.
Qed.

(* ================================================================== field order *)
Lemma ins_by_name_perm p l : Permutation (ins_by_name p l) (p :: l).
Proof.
  induction l as [|q r IH]; cbn [ins_by_name]; [reflexivity|].
  destruct (msg_bytes_cmp (ext_full (snd p)) (ext_full (snd q))); try reflexivity;
    (rewrite IH; apply perm_swap).
Qed.

Lemma sort_by_name_perm l : Permutation (sort_by_name l) l.
Proof.
  induction l as [|p r IH]; cbn [sort_by_name]; [reflexivity|].
  rewrite ins_by_name_perm. apply perm_skip, IH.
Qed.

Lemma filter_partition_perm {A} (f : A -> bool) l :
  Permutation (filter (fun x => negb (f x)) l ++ filter f l) l.
Proof.
  induction l as [|a l IH]; [reflexivity|]. cbn [filter].
  destruct (f a); cbn [negb app].
  - rewrite <- Permutation_middle. apply perm_skip, IH.
  - apply perm_skip, IH.
Qed.

Lemma rt_field_order_perm fps : Permutation (rt_field_order fps) fps.
Proof.
  unfold rt_field_order. rewrite sort_by_name_perm.
  apply (filter_partition_perm (fun p => f_ext (fst p))).
Qed.

(* ================================================================== map entries *)
Definition key_gt_all (pre : list value) (e : value) : Prop :=
  match e with
  | VEntry k _ => Forall (fun e' => match e' with VEntry k' _ => msg_scmp k k' = Gt | _ => False end) pre
  | _ => False
  end.

Lemma msg_map_put_last' : forall pre key v,
  Forall (fun e' => match e' with VEntry k' _ => msg_scmp key k' = Gt | _ => False end) pre ->
  msg_map_put pre key v = pre ++ [VEntry key v].
Proof.
  induction pre as [|e pre IH]; intros key v H; [reflexivity|].
  inversion H as [|? ? He Hpre]; subst. cbn [msg_map_put app].
  destruct e as [|?|k' v']; try contradiction. rewrite He. f_equal. apply IH. exact Hpre.
Qed.

Lemma has_key_false pre k :
  Forall (fun e' => match e' with VEntry k' _ => msg_scmp k k' = Gt | _ => False end) pre ->
  existsb (fun e => match e with
                    | VEntry k0 _ => match msg_scmp k k0 with Eq => true | _ => false end
                    | _ => false end) pre = false.
Proof.
  induction pre as [|e pre IH]; intros H; [reflexivity|].
  inversion H as [|? ? He Hpre]; subst. cbn [existsb].
  destruct e as [|?|k' v']; try contradiction. rewrite He. cbn [orb]. apply IH, Hpre.
Qed.

(* ================================================================== one message level *)
Section Body.
  Variable strict : bool.
  Variable S : schema.
  Variable nm : names.
  Variable lim : nat.
  Variable recv : nat -> value -> bool.
  Variable rect : nat -> value -> tres tfields.
  Variable recd : nat -> tfields -> tres value.
  Hypothesis Hrec : forall tid v, recv tid v = true ->
    exists b, rect tid v = TOk b /\ recd tid b = TOk (strip_unknown v).

  Lemma text_elem_rt fd fn utf8 v :
    tvalid_elem recv fd utf8 v = true ->
    (f_kind fd = KS SkEnum -> enum_ok (nm_enum nm fn) = true) ->
    exists x, text_elem nm rect fd fn utf8 (f_kind fd) v = TOk x /\
              tdec_elem nm recd fd fn utf8 (f_kind fd) x = TOk (strip_unknown v).
  Proof.
    unfold tvalid_elem, text_elem, tdec_elem. intros H He.
    destruct (f_kind fd) as [sk|tid|tid] eqn:Ek; destruct v as [s|fs unk|k0 v0]; try discriminate.
    - destruct (text_scalar_rt (nm_enum nm fn) utf8 sk s H) as (t & Ht & Hd).
      { intros ->. apply He. reflexivity. }
      exists (TScalar t). rewrite Ht. cbn [tbind]. rewrite Hd. cbn [tbind]. split; reflexivity.
    - destruct (Hrec tid _ H) as (b & Hb & Hd). exists (TMsg b). rewrite Hb. cbn [tbind]. split; [reflexivity|exact Hd].
    - destruct (Hrec tid _ H) as (b & Hb & Hd). exists (TMsg b). rewrite Hb. cbn [tbind]. split; [reflexivity|exact Hd].
  Qed.

  Variable fps : list fpair.
  Hypothesis Hlook : forall p, In p fps -> tlookup fps (fn_text (snd p)) = Some p.
  Hypothesis Henum : forall p, In p fps -> f_kind (fst p) = KS SkEnum -> enum_ok (nm_enum nm (snd p)) = true.

  Definition svals (vs : list value) : list value := map strip_unknown vs.

  Definition is_sing (fd : fdesc) : bool :=
    match f_card fd with CRep | CPacked | CMap _ _ _ => false | _ => true end.

  Definition st_after (st : tstate) (fd : fdesc) (vs : list value) : tstate :=
    match vs with
    | [] => st
    | _ =>
      mkTS (msg_fset (ts_fs st) (f_num fd) (svals vs))
           (if is_sing fd then f_num fd :: ts_seen st else ts_seen st)
           (if is_sing fd then match f_oneof fd with Some i => i :: ts_oneofs st | None => ts_oneofs st end
            else ts_oneofs st)
    end.

  (* ---- repeated fields: one name-value pair per element ---- *)
  Lemma text_list_dec fd fn (Hin : In (fd, fn) fps) (Hcard : f_card fd = CRep \/ f_card fd = CPacked) :
    forall vs xs,
      Forall2 (fun v x => tdec_elem nm recd fd fn (f_utf8 fd) (f_kind fd) x = TOk (strip_unknown v)) vs xs ->
      forall st rest,
        tdec_fields nm recd fps (map (fun x => (fn_text fn, x)) xs ++ rest) st =
        tdec_fields nm recd fps rest
          (match vs with
           | [] => st
           | _ => mkTS (msg_fset (ts_fs st) (f_num fd) (msg_fget (ts_fs st) (f_num fd) ++ svals vs)) (ts_seen st) (ts_oneofs st)
           end).
  Proof.
    induction 1 as [|v x vs xs Hx Hall IH]; intros st rest; [reflexivity|].
    cbn [map app tdec_fields]. rewrite (Hlook (fd, fn) Hin : tlookup fps (fn_text fn) = Some (fd, fn)).
    assert (Hstep : tdec_field nm recd fd fn x st =
                    TOk (mkTS (msg_fset (ts_fs st) (f_num fd) (msg_fget (ts_fs st) (f_num fd) ++ [strip_unknown v]))
                              (ts_seen st) (ts_oneofs st))).
    { unfold tdec_field. destruct Hcard as [-> | ->]; rewrite Hx; reflexivity. }
    rewrite Hstep. cbn [tbind]. rewrite IH. f_equal.
    destruct vs as [|v2 vs]; [reflexivity|].
    cbn [ts_fs ts_seen ts_oneofs]. rewrite msg_fget_fset_same, msg_fset_fset_same.
    rewrite <- app_assoc. reflexivity.
  Qed.

  (* ---- map fields: one entry message per entry ---- *)
  Lemma text_entry_rt fd fn kk kutf8 e :
    tvalid_entry recv fd kk kutf8 e = true ->
    (f_kind fd = KS SkEnum -> enum_ok (nm_enum nm fn) = true) ->
    exists x, text_entry nm rect fd fn kk kutf8 e = TOk x /\
      exists k v l, e = VEntry k v /\ x = TMsg l /\
        tdec_entry_fields nm recd fd fn kk kutf8 l None None = TOk (Some k, Some (strip_unknown v)).
  Proof.
    unfold tvalid_entry, text_entry. intros H He.
    destruct e as [|?|k v]; try discriminate.
    apply andb_prop in H. destruct H as [Hk Hv].
    destruct (text_scalar_rt ed_default kutf8 kk k Hk) as (kt & Hkt & Hkd).
    { intros _. reflexivity. }
    destruct (text_elem_rt fd fn (f_utf8 fd) v Hv He) as (vt & Hvt & Hvd).
    exists (TMsg [(t_key, TScalar kt); (t_value, vt)]). rewrite Hkt. cbn [tbind]. rewrite Hvt. cbn [tbind].
    split; [reflexivity|]. exists k, v, [(t_key, TScalar kt); (t_value, vt)].
    split; [reflexivity|]. split; [reflexivity|].
    cbn [tdec_entry_fields]. change (bs_eqb t_key t_key) with true. cbn iota.
    rewrite Hkd. cbn [tbind]. change (bs_eqb t_value t_key) with false. change (bs_eqb t_value t_value) with true.
    cbn iota. rewrite Hvd. cbn [tbind]. reflexivity.
  Qed.

  Lemma text_map_dec fd fn kk kutf8 vdef (Hin : In (fd, fn) fps) (Hcard : f_card fd = CMap kk kutf8 vdef) :
    forall vs xs,
      Forall2 (fun e x => exists k v l, e = VEntry k v /\ x = TMsg l /\
                 tdec_entry_fields nm recd fd fn kk kutf8 l None None = TOk (Some k, Some (strip_unknown v))) vs xs ->
      msg_entries_sorted vs = true ->
      forall st rest,
        Forall (key_gt_all (msg_fget (ts_fs st) (f_num fd))) vs ->
        tdec_fields nm recd fps (map (fun x => (fn_text fn, x)) xs ++ rest) st =
        tdec_fields nm recd fps rest
          (match vs with
           | [] => st
           | _ => mkTS (msg_fset (ts_fs st) (f_num fd) (msg_fget (ts_fs st) (f_num fd) ++ svals vs)) (ts_seen st) (ts_oneofs st)
           end).
  Proof.
    induction 1 as [|e x vs xs Hx Hall IH]; intros Hsorted st rest Hgt; [reflexivity|].
    destruct Hx as (k & v & l & -> & -> & Hdec).
    cbn [map app tdec_fields]. rewrite (Hlook (fd, fn) Hin : tlookup fps (fn_text fn) = Some (fd, fn)).
    inversion Hgt as [|? ? Hk Hgt']; subst. cbn [key_gt_all] in Hk.
    cbn [msg_entries_sorted] in Hsorted. apply andb_prop in Hsorted. destruct Hsorted as [Hafter Hsorted].
    assert (Hstep : tdec_field nm recd fd fn (TMsg l) st =
                    TOk (mkTS (msg_fset (ts_fs st) (f_num fd) (msg_fget (ts_fs st) (f_num fd) ++ [VEntry k (strip_unknown v)]))
                              (ts_seen st) (ts_oneofs st))).
    { unfold tdec_field. rewrite Hcard, Hdec. cbn [tbind fst snd].
      rewrite (msg_map_put_last' _ _ _ Hk). reflexivity. }
    rewrite Hstep. cbn [tbind]. rewrite IH; [|exact Hsorted|].
    - f_equal. destruct vs as [|v2 vs]; [reflexivity|].
      cbn [ts_fs ts_seen ts_oneofs]. rewrite msg_fget_fset_same, msg_fset_fset_same.
      rewrite <- app_assoc. reflexivity.
    - cbn [ts_fs]. rewrite msg_fget_fset_same.
      unfold msg_keys_after in Hafter. rewrite forallb_forall in Hafter.
      rewrite Forall_forall in Hgt' |- *. intros e He.
      specialize (Hgt' e He). specialize (Hafter e He).
      destruct e as [|?|k2 v2]; try discriminate. cbn [key_gt_all] in *.
      apply Forall_app. split; [exact Hgt'|]. constructor; [|constructor].
      destruct (msg_scmp k2 k); try discriminate. reflexivity.
  Qed.

  (* ---- one field ---- *)
  Lemma text_field_rt fs p st :
    In p fps ->
    (msg_fget fs (fp_num p) <> [] -> tvalid_field recv (fst p) (msg_fget fs (fp_num p)) = true) ->
    msg_fget (ts_fs st) (fp_num p) = [] ->
    ~ In (fp_num p) (ts_seen st) ->
    (forall i, f_oneof (fst p) = Some i -> msg_fget fs (fp_num p) <> [] -> ~ In i (ts_oneofs st)) ->
    exists out, text_field nm rect fs p = TOk out /\
      forall rest, tdec_fields nm recd fps (out ++ rest) st =
                   tdec_fields nm recd fps rest (st_after st (fst p) (msg_fget fs (fp_num p))).
  Proof.
    destruct p as [fd fn]. unfold fp_num. cbn [fst snd]. intros Hin Hval Hfresh Hseen Hone.
    pose proof (Henum _ Hin) as He. cbn [fst snd] in He.
    unfold text_field. cbn [fst snd].
    destruct (msg_fget fs (f_num fd)) as [|v0 vs0] eqn:Evs.
    { (* absent *)
      exists []. split; [destruct (f_card fd); reflexivity|]. intros rest. reflexivity. }
    specialize (Hval ltac:(discriminate)). unfold tvalid_field in Hval.
    set (vs := v0 :: vs0) in *.
    destruct (f_card fd) as [| | | | |kk kutf8 vdef] eqn:Ecard.
    - (* COpt *)
      destruct vs0; [|discriminate]. subst vs.
      destruct (text_elem_rt fd fn (f_utf8 fd) v0 Hval He) as (x & Hx & Hd).
      exists [(fn_text fn, x)]. cbn [tmapM]. rewrite Hx. cbn [tbind map]. split; [reflexivity|].
      intros rest. cbn [app tdec_fields]. rewrite (Hlook (fd, fn) Hin : tlookup fps (fn_text fn) = Some (fd, fn)).
      unfold tdec_field. rewrite Ecard.
      assert (Ho : (match f_oneof fd with
                    | Some i => if existsb (N.eqb i) (ts_oneofs st) then None else Some (i :: ts_oneofs st)
                    | None => Some (ts_oneofs st) end) =
                   Some (match f_oneof fd with Some i => i :: ts_oneofs st | None => ts_oneofs st end)).
      { destruct (f_oneof fd) as [i|]; [|reflexivity].
        rewrite existsb_Neqb_false; [reflexivity|]. apply Hone; [reflexivity|discriminate]. }
      rewrite Ho. rewrite (existsb_Neqb_false _ _ Hseen). rewrite Hd. cbn [tbind].
      unfold st_after, is_sing. rewrite Ecard. cbn [svals map]. reflexivity.
    - (* CImp *)
      destruct v0 as [s| |]; try discriminate. destruct vs0; [|discriminate]. subst vs.
      apply andb_prop in Hval. destruct Hval as [Hval Hnz]. apply negb_true_iff in Hnz.
      destruct (text_elem_rt fd fn (f_utf8 fd) (VS s) Hval He) as (x & Hx & Hd).
      exists [(fn_text fn, x)]. cbn [tmapM]. rewrite Hx. cbn [tbind map]. split; [reflexivity|].
      intros rest. cbn [app tdec_fields]. rewrite (Hlook (fd, fn) Hin : tlookup fps (fn_text fn) = Some (fd, fn)).
      unfold tdec_field. rewrite Ecard.
      assert (Ho : (match f_oneof fd with
                    | Some i => if existsb (N.eqb i) (ts_oneofs st) then None else Some (i :: ts_oneofs st)
                    | None => Some (ts_oneofs st) end) =
                   Some (match f_oneof fd with Some i => i :: ts_oneofs st | None => ts_oneofs st end)).
      { destruct (f_oneof fd) as [i|]; [|reflexivity].
        rewrite existsb_Neqb_false; [reflexivity|]. apply Hone; [reflexivity|discriminate]. }
      rewrite Ho. rewrite (existsb_Neqb_false _ _ Hseen). rewrite Hd. cbn [tbind strip_unknown].
      rewrite Hnz. unfold st_after, is_sing. rewrite Ecard. cbn [svals map strip_unknown]. reflexivity.
    - (* CReq *)
      destruct vs0; [|discriminate]. subst vs.
      destruct (text_elem_rt fd fn (f_utf8 fd) v0 Hval He) as (x & Hx & Hd).
      exists [(fn_text fn, x)]. cbn [tmapM]. rewrite Hx. cbn [tbind map]. split; [reflexivity|].
      intros rest. cbn [app tdec_fields]. rewrite (Hlook (fd, fn) Hin : tlookup fps (fn_text fn) = Some (fd, fn)).
      unfold tdec_field. rewrite Ecard.
      assert (Ho : (match f_oneof fd with
                    | Some i => if existsb (N.eqb i) (ts_oneofs st) then None else Some (i :: ts_oneofs st)
                    | None => Some (ts_oneofs st) end) =
                   Some (match f_oneof fd with Some i => i :: ts_oneofs st | None => ts_oneofs st end)).
      { destruct (f_oneof fd) as [i|]; [|reflexivity].
        rewrite existsb_Neqb_false; [reflexivity|]. apply Hone; [reflexivity|discriminate]. }
      rewrite Ho. rewrite (existsb_Neqb_false _ _ Hseen). rewrite Hd. cbn [tbind].
      unfold st_after, is_sing. rewrite Ecard. cbn [svals map]. reflexivity.
    - (* CRep *)
      destruct (tmapM_ok (text_elem nm rect fd fn (f_utf8 fd) (f_kind fd))
                  (fun v x => tdec_elem nm recd fd fn (f_utf8 fd) (f_kind fd) x = TOk (strip_unknown v)) vs) as (xs & Hxs & Hall).
      { intros a Ha. rewrite forallb_forall in Hval. apply text_elem_rt; [apply Hval, Ha|exact He]. }
      exists (map (fun x => (fn_text fn, x)) xs). rewrite Hxs. cbn [tbind]. split; [reflexivity|].
      intros rest. rewrite (text_list_dec fd fn Hin (or_introl Ecard) vs xs Hall).
      subst vs. unfold st_after, is_sing. rewrite Ecard, Hfresh. reflexivity.
    - (* CPacked *)
      destruct (tmapM_ok (text_elem nm rect fd fn (f_utf8 fd) (f_kind fd))
                  (fun v x => tdec_elem nm recd fd fn (f_utf8 fd) (f_kind fd) x = TOk (strip_unknown v)) vs) as (xs & Hxs & Hall).
      { intros a Ha. rewrite forallb_forall in Hval. apply text_elem_rt; [apply Hval, Ha|exact He]. }
      exists (map (fun x => (fn_text fn, x)) xs). rewrite Hxs. cbn [tbind]. split; [reflexivity|].
      intros rest. rewrite (text_list_dec fd fn Hin (or_intror Ecard) vs xs Hall).
      subst vs. unfold st_after, is_sing. rewrite Ecard, Hfresh. reflexivity.
    - (* CMap *)
      apply andb_prop in Hval. destruct Hval as [Hval Hsorted].
      destruct (tmapM_ok (text_entry nm rect fd fn kk kutf8)
                  (fun e x => exists k v l, e = VEntry k v /\ x = TMsg l /\
                     tdec_entry_fields nm recd fd fn kk kutf8 l None None = TOk (Some k, Some (strip_unknown v))) vs) as (xs & Hxs & Hall).
      { intros a Ha. rewrite forallb_forall in Hval. apply text_entry_rt; [apply Hval, Ha|exact He]. }
      exists (map (fun x => (fn_text fn, x)) xs). rewrite Hxs. cbn [tbind]. split; [reflexivity|].
      intros rest. rewrite (text_map_dec fd fn kk kutf8 vdef Hin Ecard vs xs Hall Hsorted).
      + subst vs. unfold st_after, is_sing. rewrite Ecard, Hfresh. reflexivity.
      + rewrite Hfresh. rewrite Forall_forall. intros e He'.
        rewrite forallb_forall in Hval. specialize (Hval e He'). unfold tvalid_entry in Hval.
        destruct e; try discriminate. cbn [key_gt_all]. constructor.
  Qed.
End Body.

(* ================================================================== all fields of one message *)
Lemma rt_find_some fps k q : rt_find fps k = Some q -> In q fps /\ fp_num q = k.
Proof.
  induction fps as [|p r IH]; cbn [rt_find]; [discriminate|].
  destruct (f_num (fst p) =? k) eqn:E.
  - intros H. inversion H; subst. split; [left; reflexivity|]. apply N.eqb_eq in E. exact E.
  - intros H. destruct (IH H) as [H1 H2]. split; [right; exact H1|exact H2].
Qed.

Lemma tvalid_field_nonempty recv fd vs : tvalid_field recv fd vs = true -> vs <> [].
Proof.
  unfold tvalid_field. destruct (f_card fd); destruct vs; try discriminate; intros _; discriminate.
Qed.

Section Message.
  Variable S : schema.
  Variable nm : names.
  Variable recv : nat -> value -> bool.
  Variable rect : nat -> value -> tres tfields.
  Variable recd : nat -> tfields -> tres value.
  Hypothesis Hrec : forall tid v, recv tid v = true ->
    exists b, rect tid v = TOk b /\ recd tid b = TOk (strip_unknown v).
  Variable fps : list fpair.
  Hypothesis Hlook : forall p, In p fps -> tlookup fps (fn_text (snd p)) = Some p.
  Hypothesis Henum : forall p, In p fps -> f_kind (fst p) = KS SkEnum -> enum_ok (nm_enum nm (snd p)) = true.
  Hypothesis Hnd : NoDup (map fp_num fps).
  Hypothesis Hpos : forall p, In p fps -> 1 <= fp_num p.
  Variable fs : fields.
  Hypothesis Hsorted : msg_sorted 0 fs.
  Hypothesis Hchunks : forall k vs, In (k, vs) fs ->
    exists p, In p fps /\ fp_num p = k /\ tvalid_field recv (fst p) vs = true.
  Hypothesis Hone : rt_oneofs_ok fps fs = true.

  Definition Inv (done : list fpair) (st : tstate) : Prop :=
    (forall k, msg_fget (ts_fs st) k <> [] -> In k (map fp_num done)) /\
    (forall k, In k (ts_seen st) -> In k (map fp_num done)) /\
    (forall i, In i (ts_oneofs st) ->
       exists q, In q done /\ f_oneof (fst q) = Some i /\ msg_fget fs (fp_num q) <> []).

  Definition step (st : tstate) (p : fpair) : tstate := st_after st (fst p) (msg_fget fs (fp_num p)).

  Lemma field_valid p : In p fps -> msg_fget fs (fp_num p) <> [] ->
    tvalid_field recv (fst p) (msg_fget fs (fp_num p)) = true.
  Proof.
    intros Hin Hne. destruct (Hchunks _ _ (msg_fget_nonempty_in fs _ Hne)) as (q & Hq & Hk & Hv).
    assert (q = p) by (eapply (NoDup_map_inj fp_num fps); eassumption). subst q. exact Hv.
  Qed.

  Lemma oneof_fresh p q i : In p fps -> In q fps -> fp_num q <> fp_num p ->
    f_oneof (fst p) = Some i -> f_oneof (fst q) = Some i ->
    msg_fget fs (fp_num p) <> [] -> msg_fget fs (fp_num q) <> [] -> False.
  Proof.
    intros Hp Hq Hne Hop Hoq Hpp Hpq. unfold rt_oneofs_ok in Hone. rewrite forallb_forall in Hone.
    specialize (Hone p Hp). rewrite Hop in Hone.
    unfold has_num, fp_num in *.
    destruct (msg_fget fs (f_num (fst p))) eqn:E1; [congruence|]. cbn [negb orb] in Hone.
    rewrite forallb_forall in Hone. specialize (Hone q Hq). rewrite Hoq, N.eqb_refl in Hone.
    destruct (msg_fget fs (f_num (fst q))) eqn:E2; [congruence|]. cbn [negb orb] in Hone.
    repeat rewrite orb_false_r in Hone. apply N.eqb_eq in Hone. contradiction.
  Qed.

  Lemma fields_rt : forall order done st,
    NoDup (map fp_num (done ++ order)) -> (forall p, In p (done ++ order) -> In p fps) -> Inv done st ->
    exists outs, tmapM (text_field nm rect fs) order = TOk outs /\
      forall rest, tdec_fields nm recd fps (concat outs ++ rest) st =
                   tdec_fields nm recd fps rest (fold_left step order st).
  Proof.
    induction order as [|p order IH]; intros done st Hnodup Hsub Hinv.
    - exists []. split; [reflexivity|]. intros rest. reflexivity.
    - destruct Hinv as (I1 & I2 & I3).
      assert (Hp : In p fps) by (apply Hsub, in_or_app; right; left; reflexivity).
      assert (Hnotdone : ~ In (fp_num p) (map fp_num done)).
      { rewrite map_app in Hnodup. cbn [map] in Hnodup. apply NoDup_remove_2 in Hnodup.
        intros Hin. apply Hnodup, in_or_app. left. exact Hin. }
      destruct (text_field_rt nm recv rect recd Hrec fps Hlook Henum fs p st Hp) as (out & Hout & Hdec).
      + apply field_valid, Hp.
      + destruct (msg_fget (ts_fs st) (fp_num p)) eqn:E; [reflexivity|].
        exfalso. apply Hnotdone, I1. rewrite E. discriminate.
      + intros Hin. apply Hnotdone, I2, Hin.
      + intros i Hoi Hpres Hin. destruct (I3 i Hin) as (q & Hq & Hoq & Hpq).
        apply (oneof_fresh p q i); try assumption.
        * apply Hsub, in_or_app. left. exact Hq.
        * intros E. apply Hnotdone. rewrite <- E. apply in_map, Hq.
      + destruct (IH (done ++ [p]) (step st p)) as (outs & Houts & Hdecs).
        * rewrite <- app_assoc. exact Hnodup.
        * intros q Hq. apply Hsub. rewrite <- app_assoc in Hq. exact Hq.
        * unfold step, st_after. destruct (msg_fget fs (fp_num p)) as [|v0 vs0] eqn:Evs.
          { repeat split.
            - intros k Hk. rewrite map_app. apply in_or_app. left. apply I1, Hk.
            - intros k Hk. rewrite map_app. apply in_or_app. left. apply I2, Hk.
            - intros i Hi. destruct (I3 i Hi) as (q & Hq & Hoq & Hpq). exists q.
              split; [apply in_or_app; left; exact Hq|]. split; assumption. }
          { repeat split.
            - intros k Hk. cbn [ts_fs] in Hk. rewrite map_app. apply in_or_app.
              destruct (N.eq_dec k (f_num (fst p))) as [->|Hne]; [right; left; reflexivity|].
              left. apply I1. rewrite msg_fget_fset_other in Hk by exact Hne. exact Hk.
            - intros k Hk. cbn [ts_seen] in Hk. rewrite map_app. apply in_or_app.
              destruct (is_sing (fst p)); [destruct Hk as [<-|Hk]; [right; left; reflexivity|]|]; left; apply I2, Hk.
            - intros i Hi. cbn [ts_oneofs] in Hi.
              assert (Hcase : In i (ts_oneofs st) \/ f_oneof (fst p) = Some i).
              { destruct (is_sing (fst p)); [|left; exact Hi].
                destruct (f_oneof (fst p)) as [j|]; [|left; exact Hi].
                destruct Hi as [<-|Hi]; [right; reflexivity|left; exact Hi]. }
              destruct Hcase as [Hi'|Hop].
              + destruct (I3 i Hi') as (q & Hq & Hoq & Hpq). exists q.
                split; [apply in_or_app; left; exact Hq|]. split; assumption.
              + exists p. split; [apply in_or_app; right; left; reflexivity|]. split; [exact Hop|].
                rewrite Evs. discriminate. }
        * exists (out :: outs). cbn [tmapM]. rewrite Hout. cbn [tbind]. rewrite Houts. cbn [tbind].
          split; [reflexivity|]. intros rest. cbn [concat fold_left]. rewrite <- app_assoc, Hdec, Hdecs. reflexivity.
  Qed.

  Definition pairs (order : list fpair) : fields :=
    flat_map (fun p => match msg_fget fs (fp_num p) with [] => [] | vs => [(fp_num p, svals vs)] end) order.

  Lemma fold_step_fs : forall order st,
    ts_fs (fold_left step order st) = msg_ins_all (pairs order) (ts_fs st).
  Proof.
    induction order as [|p order IH]; intros st; [reflexivity|].
    cbn [fold_left]. rewrite IH. cbn [pairs flat_map]. fold (pairs order). rewrite msg_ins_all_app.
    unfold step, st_after. destruct (msg_fget fs (fp_num p)) eqn:E; reflexivity.
  Qed.

  Lemma pairs_keys_sub order k : In k (msg_keys (pairs order)) -> In k (map fp_num order).
  Proof.
    induction order as [|p order IH]; cbn [pairs flat_map]; [intros []|].
    fold (pairs order). unfold msg_keys. rewrite map_app. intros H. apply in_app_or in H.
    destruct H as [H|H]; [|right; apply IH, H].
    destruct (msg_fget fs (fp_num p)); [destruct H|]. destruct H as [<-|[]]. left. reflexivity.
  Qed.

  Lemma pairs_keys_nodup order : NoDup (map fp_num order) -> NoDup (msg_keys (pairs order)).
  Proof.
    induction order as [|p order IH]; intros H; [constructor|].
    cbn [map] in H. inversion H as [|? ? Hn Hnd']; subst.
    cbn [pairs flat_map]. fold (pairs order). unfold msg_keys. rewrite map_app.
    destruct (msg_fget fs (fp_num p)); cbn [map app fst]; [apply IH, Hnd'|].
    constructor; [|apply IH, Hnd']. intros Hin. apply Hn, pairs_keys_sub, Hin.
  Qed.

  Lemma pairs_in order k vs : In (k, vs) (pairs order) <->
    exists p, In p order /\ fp_num p = k /\ msg_fget fs k <> [] /\ vs = svals (msg_fget fs k).
  Proof.
    induction order as [|p order IH]; cbn [pairs flat_map].
    - split; [intros []|intros (p & [] & _)].
    - fold (pairs order). rewrite in_app_iff, IH. split.
      + intros [H|(q & Hq & Hk & Hne & Hv)].
        * destruct (msg_fget fs (fp_num p)) eqn:E; [destruct H|]. destruct H as [H|[]].
          inversion H; subst. exists p. split; [left; reflexivity|]. split; [reflexivity|].
          rewrite E. split; [discriminate|reflexivity].
        * exists q. split; [right; exact Hq|]. repeat split; assumption.
      + intros (q & [->|Hq] & Hk & Hne & Hv).
        * left. subst k. destruct (msg_fget fs (fp_num q)) eqn:E; [congruence|]. left. subst vs. reflexivity.
        * right. exists q. repeat split; assumption.
  Qed.

  Lemma regular_fs order : Permutation order fps ->
    msg_ins_all (pairs order) [] = map sp fs.
  Proof.
    intros Hperm.
    assert (Hnd' : NoDup (map fp_num order)).
    { eapply Permutation_NoDup; [apply Permutation_map, Permutation_sym, Hperm|exact Hnd]. }
    destruct (msg_ins_all_props (pairs order) [] 0) as [Hs Hp].
    - cbn [msg_keys map]. rewrite app_nil_r. apply pairs_keys_nodup, Hnd'.
    - exact I.
    - intros k Hk. apply pairs_keys_sub in Hk. apply in_map_iff in Hk. destruct Hk as (p & <- & Hp).
      assert (1 <= fp_num p) by (apply Hpos; eapply Permutation_in; eassumption). lia.
    - rewrite app_nil_r in Hp.
      apply (msg_sorted_perm_eq _ _ 0 0 Hs (msg_sorted_map_sp _ _ Hsorted)).
      rewrite Hp. apply NoDup_Permutation.
      + apply NoDup_keys_pairs, pairs_keys_nodup, Hnd'.
      + apply NoDup_keys_pairs. rewrite msg_keys_map_sp. eapply msg_sorted_nodup, Hsorted.
      + intros [k vs]. rewrite pairs_in. split.
        * intros (p & Hp' & Hk & Hne & ->).
          apply in_map_iff. exists (k, msg_fget fs k). split; [reflexivity|]. apply msg_fget_nonempty_in, Hne.
        * intros Hin. apply in_map_iff in Hin. destruct Hin as ([k' vs'] & E & Hin). unfold sp in E. cbn [fst snd] in E.
          inversion E; subst k vs. destruct (Hchunks _ _ Hin) as (p & Hp' & Hk & Hv).
          assert (Hget : msg_fget fs k' = vs') by (apply msg_fget_in; [eapply msg_sorted_nodup, Hsorted|exact Hin]).
          exists p. split; [eapply Permutation_in; [apply Permutation_sym, Hperm|exact Hp']|].
          split; [exact Hk|]. rewrite Hget. split; [eapply tvalid_field_nonempty, Hv|reflexivity].
  Qed.
End Message.

(* ================================================================== schema facts *)
Lemma tfind_by_some ext fps name q : tfind_by ext fps name = Some q ->
  In q fps /\ f_ext (fst q) = ext /\ fn_text (snd q) = name.
Proof.
  induction fps as [|p r IH]; cbn [tfind_by]; [discriminate|].
  destruct (Bool.eqb (f_ext (fst p)) ext && bs_eqb (fn_text (snd p)) name) eqn:E.
  - intros H. inversion H; subst. apply andb_prop in E. destruct E as [E1 E2].
    split; [left; reflexivity|]. split; [apply eqb_prop, E1|apply bs_eqb_eq, E2].
  - intros H. destruct (IH H) as (H1 & H2 & H3). split; [right; exact H1|]. split; assumption.
Qed.

Lemma tfind_by_ex ext fps p : In p fps -> f_ext (fst p) = ext ->
  exists q, tfind_by ext fps (fn_text (snd p)) = Some q.
Proof.
  induction fps as [|a r IH]; intros Hin He; [contradiction|]. cbn [tfind_by].
  destruct (Bool.eqb (f_ext (fst a)) ext && bs_eqb (fn_text (snd a)) (fn_text (snd p))) eqn:E; [eexists; reflexivity|].
  destruct Hin as [->|Hin]; [|apply IH; assumption].
  rewrite He, eqb_reflx, bs_eqb_refl in E. discriminate.
Qed.

Lemma tlookup_self fps p :
  NoDup (map (fun p => fn_text (snd p)) fps) -> text_name_ok p = true -> In p fps ->
  tlookup fps (fn_text (snd p)) = Some p.
Proof.
  intros Hnd Hok Hin. unfold text_name_ok in Hok. unfold tlookup.
  assert (Hfind : forall ext, f_ext (fst p) = ext -> tfind_by ext fps (fn_text (snd p)) = Some p).
  { intros ext He. destruct (tfind_by_ex ext fps p Hin He) as (q & Hq). rewrite Hq. f_equal.
    destruct (tfind_by_some _ _ _ _ Hq) as (Hq1 & _ & Hq3).
    apply (NoDup_map_inj (fun p => fn_text (snd p)) fps); assumption. }
  destruct (f_ext (fst p)) eqn:Ee.
  - apply andb_prop in Hok. destruct Hok as [Hb Hn]. rewrite Hb.
    destruct (text_type_name (bracket_inner (fn_text (snd p)))) as [full|]; [|discriminate].
    apply bs_eqb_eq in Hn. rewrite Hn. apply Hfind. reflexivity.
  - apply negb_true_iff in Hok. rewrite Hok. apply Hfind. reflexivity.
Qed.

Section Schema.
  Variable S : schema.
  Variable nm : names.
  Hypothesis Hschema : text_schema_ok S nm = true.

  Lemma schema_msg tid : (tid < length S)%nat ->
    rt_msg_ok S nm tid = true /\ text_msg_ok S nm tid = true.
  Proof.
    intros Hlt. unfold text_schema_ok, rt_schema_ok in Hschema.
    apply andb_prop in Hschema. destruct Hschema as [H1 H2]. apply andb_prop in H1. destruct H1 as [_ H1].
    rewrite forallb_forall in H1, H2. split; [apply H1|apply H2]; apply in_seq; lia.
  Qed.

  Lemma schema_facts tid : (tid < length S)%nat ->
    let fps := rt_fields S nm tid in
    NoDup (map fp_num fps) /\
    (forall p, In p fps -> 1 <= fp_num p) /\
    (forall p, In p fps -> f_kind (fst p) = KS SkEnum -> enum_ok (nm_enum nm (snd p)) = true) /\
    (forall p, In p fps -> tlookup fps (fn_text (snd p)) = Some p) /\
    mn_full (nm_msg nm tid) <> [] /\
    (mn_wkt (nm_msg nm tid) = 1 -> any_shape_ok fps = true).
  Proof.
    intros Hlt fps. destruct (schema_msg tid Hlt) as [H1 H2].
    unfold rt_msg_ok in H1. fold fps in H1.
    apply andb_prop in H1. destruct H1 as [H1 Hfull]. apply andb_prop in H1. destruct H1 as [H1 Hf].
    apply andb_prop in H1. destruct H1 as [_ Hnd].
    unfold text_msg_ok in H2. fold fps in H2.
    apply andb_prop in H2. destruct H2 as [H2 Hany]. apply andb_prop in H2. destruct H2 as [Hnames Hnok].
    rewrite forallb_forall in Hf, Hnok.
    split; [apply n_nodup_NoDup, Hnd|].
    split. { intros p Hp. specialize (Hf p Hp). unfold rt_field_ok in Hf. apply andb_prop in Hf. destruct Hf as [Hf _]. lia. }
    split. { intros p Hp Hk. specialize (Hf p Hp). unfold rt_field_ok in Hf. apply andb_prop in Hf. destruct Hf as [_ Hf].
             rewrite Hk in Hf. exact Hf. }
    split. { intros p Hp. apply tlookup_self; [apply bs_nodup_NoDup, Hnames|apply Hnok, Hp|exact Hp]. }
    split. { destruct (mn_full (nm_msg nm tid)); [discriminate|discriminate]. }
    intros Hw. rewrite Hw in Hany. exact Hany.
  Qed.
End Schema.

(* ================================================================== the regular form of one message *)
Section Regular.
  Variable S : schema.
  Variable nm : names.
  Hypothesis Hschema : text_schema_ok S nm = true.
  Variable recv : nat -> value -> bool.
  Variable rect : nat -> value -> tres tfields.
  Variable recd : nat -> tfields -> tres value.
  Hypothesis Hrec : forall tid v, recv tid v = true ->
    exists b, rect tid v = TOk b /\ recd tid b = TOk (strip_unknown v).

  Lemma chunks_of tid fs :
    forallb (tvalid_chunk recv (rt_fields S nm tid)) fs = true ->
    forall k vs, In (k, vs) fs ->
      exists p, In p (rt_fields S nm tid) /\ fp_num p = k /\ tvalid_field recv (fst p) vs = true.
  Proof.
    intros H k vs Hin. rewrite forallb_forall in H. specialize (H _ Hin). unfold tvalid_chunk in H. cbn [fst snd] in H.
    destruct (rt_find (rt_fields S nm tid) k) as [q|] eqn:E; [|discriminate].
    destruct (rt_find_some _ _ _ E) as [H1 H2]. exists q. repeat split; assumption.
  Qed.

  Lemma regular_rt tid fs :
    (tid < length S)%nat ->
    msg_keys_sorted 0 fs = true ->
    forallb (tvalid_chunk recv (rt_fields S nm tid)) fs = true ->
    rt_oneofs_ok (rt_fields S nm tid) fs = true ->
    exists out, text_regular S nm rect tid fs = TOk out /\
                tdec_regular S nm recd tid out = TOk (VMsg (map sp fs) []).
  Proof.
    intros Hlt Hs Hc Ho.
    destruct (schema_facts S nm Hschema tid Hlt) as (Hnd & Hpos & Henum & Hlook & _ & _).
    set (fps := rt_fields S nm tid) in *.
    apply msg_keys_sorted_spec in Hs.
    pose proof (chunks_of tid fs Hc) as Hchunks. fold fps in Hchunks.
    pose proof (rt_field_order_perm fps) as Hperm.
    destruct (fields_rt nm recv rect recd Hrec fps Hlook Henum Hnd fs Hchunks Ho (rt_field_order fps) [] (mkTS [] [] []))
      as (outs & Houts & Hdec).
    - cbn [app]. eapply Permutation_NoDup; [apply Permutation_map, Permutation_sym, Hperm|exact Hnd].
    - cbn [app]. intros p Hp. eapply Permutation_in; eassumption.
    - split; [|split].
      + intros k Hk. cbn [ts_fs msg_fget] in Hk. congruence.
      + intros k [].
      + intros i [].
    - exists (concat outs). unfold text_regular. fold fps. rewrite Houts. cbn [tbind]. split; [reflexivity|].
      unfold tdec_regular. fold fps. specialize (Hdec []). rewrite app_nil_r in Hdec. rewrite Hdec.
      cbn [tdec_fields tbind]. rewrite (fold_step_fs fs). cbn [ts_fs].
      erewrite regular_fs; [reflexivity|eassumption..].
  Qed.
End Regular.

(* ================================================================== google.protobuf.Any *)
(* what the shape check says, field by field *)
Lemma any_shape_fields fps : any_shape_ok fps = true ->
  exists f1 n1 f2 n2, fps = [(f1, n1); (f2, n2)] /\
    f_num f1 = 1 /\ f_num f2 = 2 /\ f_kind f1 = KS SkString /\ f_card f1 = CImp /\
    f_kind f2 = KS SkBytes /\ f_card f2 = CImp /\ fn_text n1 = t_type_url /\ fn_text n2 = t_value /\
    f_ext f1 = false /\ f_ext f2 = false /\ f_oneof f1 = None /\ f_oneof f2 = None.
Proof.
  unfold any_shape_ok. intros H.
  destruct fps as [|[f1 n1] [|[f2 n2] [|? ?]]]; try discriminate.
  repeat (apply andb_prop in H; let H' := fresh "H" in destruct H as [H H']).
  exists f1, n1, f2, n2. split; [reflexivity|].
  destruct (f_kind f1) as [[]| |]; try discriminate.
  destruct (f_card f1); try discriminate.
  destruct (f_kind f2) as [[]| |]; try discriminate.
  destruct (f_card f2); try discriminate.
  destruct (f_oneof f1); try discriminate. destruct (f_oneof f2); try discriminate.
  repeat match goal with
         | H : (_ =? _) = true |- _ => apply N.eqb_eq in H
         | H : bs_eqb _ _ = true |- _ => apply bs_eqb_eq in H
         | H : negb _ = true |- _ => apply negb_true_iff in H
         end.
  repeat split; first [assumption|reflexivity].
Qed.

Section AnyShape.
  Variable recv : nat -> value -> bool.
  Variable fps : list fpair.
  Hypothesis Hshape : any_shape_ok fps = true.
  Variable fs : fields.
  Hypothesis Hsorted : msg_sorted 0 fs.
  Hypothesis Hchunks : forall k vs, In (k, vs) fs ->
    exists p, In p fps /\ fp_num p = k /\ tvalid_field recv (fst p) vs = true.

  Definition any_entry (e : N * list value) : Prop :=
    (fst e = 1 \/ fst e = 2) /\ exists b, b <> [] /\ snd e = [VS (SBy b)].

  Lemma any_entries e : In e fs -> any_entry e.
  Proof.
    destruct e as [k vs]. intros Hin. destruct (Hchunks _ _ Hin) as (p & Hp & Hk & Hv).
    destruct (any_shape_fields fps Hshape) as (f1 & n1 & f2 & n2 & Efps & N1 & N2 & K1 & C1 & K2 & C2 & _).
    rewrite Efps in Hp.
    unfold any_entry. cbn [fst snd]. unfold fp_num in Hk.
    destruct Hp as [<-|[<-|[]]]; cbn [fst] in *; unfold tvalid_field in Hv.
    - rewrite C1 in Hv. destruct vs as [|[s| |] [|? ?]]; try discriminate.
      apply andb_prop in Hv. destruct Hv as [Hv Hnz]. unfold tvalid_elem in Hv. rewrite K1 in Hv.
      unfold rt_scalar_ok in Hv. destruct s as [| | |b]; cbn [sk_ok andb] in Hv; try discriminate.
      split; [left; lia|]. exists b. split; [|reflexivity]. intros ->. discriminate.
    - rewrite C2 in Hv. destruct vs as [|[s| |] [|? ?]]; try discriminate.
      apply andb_prop in Hv. destruct Hv as [Hv Hnz]. unfold tvalid_elem in Hv. rewrite K2 in Hv.
      unfold rt_scalar_ok in Hv. destruct s as [| | |b]; cbn [sk_ok andb] in Hv; try discriminate.
      split; [right; lia|]. exists b. split; [|reflexivity]. intros ->. discriminate.
  Qed.

  Lemma any_fs_cases :
    fs = [] \/
    (exists b1, b1 <> [] /\ fs = [(1, [VS (SBy b1)])]) \/
    (exists b2, b2 <> [] /\ fs = [(2, [VS (SBy b2)])]) \/
    (exists b1 b2, b1 <> [] /\ b2 <> [] /\ fs = [(1, [VS (SBy b1)]); (2, [VS (SBy b2)])]).
  Proof.
    pose proof any_entries as He.
    destruct fs as [|[k1 v1] [|[k2 v2] [|[k3 v3] r]]].
    - left. reflexivity.
    - destruct (He _ (or_introl eq_refl)) as ([K|K] & b & Hb & Hv); cbn [fst snd] in *; subst.
      + right. left. exists b. split; [exact Hb|reflexivity].
      + right. right. left. exists b. split; [exact Hb|reflexivity].
    - destruct (He _ (or_introl eq_refl)) as (K1 & b1 & Hb1 & Hv1).
      destruct (He _ (or_intror (or_introl eq_refl))) as (K2 & b2 & Hb2 & Hv2). cbn [fst snd] in *.
      cbn [msg_sorted fst] in Hsorted. destruct Hsorted as (_ & Hlt & _).
      assert (k1 = 1 /\ k2 = 2) as [-> ->] by lia. subst.
      right. right. right. exists b1, b2. repeat split; assumption.
    - exfalso.
      destruct (He _ (or_introl eq_refl)) as (K1 & _).
      destruct (He _ (or_intror (or_introl eq_refl))) as (K2 & _).
      destruct (He _ (or_intror (or_intror (or_introl eq_refl)))) as (K3 & _). cbn [fst snd] in *.
      cbn [msg_sorted fst] in Hsorted. destruct Hsorted as (_ & Hlt & Hlt2 & _). lia.
  Qed.

  Lemma any_fs_eq :
    map sp fs = fs /\
    fs = (match get_bytes_t fs 1 with [] => [] | u => [(1, [VS (SBy u)])] end)
         ++ (match get_bytes_t fs 2 with [] => [] | b => [(2, [VS (SBy b)])] end).
  Proof.
    destruct any_fs_cases as [->|[(b1 & H1 & ->)|[(b2 & H2 & ->)|(b1 & b2 & H1 & H2 & ->)]]].
    - split; reflexivity.
    - split; [reflexivity|]. unfold get_bytes_t. cbn [msg_fget N.eqb Pos.eqb]. destruct b1; [congruence|reflexivity].
    - split; [reflexivity|]. unfold get_bytes_t. cbn [msg_fget N.eqb Pos.eqb]. destruct b2; [congruence|reflexivity].
    - split; [reflexivity|]. unfold get_bytes_t. cbn [msg_fget N.eqb Pos.eqb].
      destruct b1; [congruence|]. destruct b2; [congruence|]. reflexivity.
  Qed.

  (* the UTF-8 condition of the type_url field, when present *)
  Lemma any_url_utf8 b1 : In (1, [VS (SBy b1)]) fs ->
    forall f1 n1 f2 n2, fps = [(f1, n1); (f2, n2)] -> f_num f1 = 1 -> f_num f2 = 2 -> f_kind f1 = KS SkString ->
    f_card f1 = CImp -> f_utf8 f1 && negb (msg_utf8_valid b1) = false.
  Proof.
    intros Hin f1 n1 f2 n2 -> N1 N2 K1 C1. destruct (Hchunks _ _ Hin) as (p & Hp & Hk & Hv).
    unfold fp_num in Hk. destruct Hp as [<-|[<-|[]]]; cbn [fst] in *; [|lia].
    unfold tvalid_field in Hv. rewrite C1 in Hv. apply andb_prop in Hv. destruct Hv as [Hv _].
    unfold tvalid_elem in Hv. rewrite K1 in Hv. unfold rt_scalar_ok in Hv.
    apply andb_prop in Hv. destruct Hv as [Hv _]. apply andb_prop in Hv. destruct Hv as [_ Hv].
    cbn [msg_str_valid] in Hv. destruct (f_utf8 f1); cbn [negb orb andb] in *; [rewrite Hv|]; reflexivity.
  Qed.
End AnyShape.

Section AnyMsg.
  Variable S : schema.
  Variable nm : names.
  Variable lim : nat.
  Hypothesis Hschema : text_schema_ok S nm = true.
  Variable recv : nat -> value -> bool.
  Variable rect : nat -> value -> tres tfields.
  Variable recd : nat -> tfields -> tres value.
  Hypothesis Hrec : forall tid v, recv tid v = true ->
    exists b, rect tid v = TOk b /\ recd tid b = TOk (strip_unknown v).

  Definition any_out (b1 b2 : option (list byte)) : tfields :=
    (match b1 with Some u => [(t_type_url, TScalar (TStr u))] | None => [] end)
    ++ (match b2 with Some b => [(t_value, TScalar (TStr b))] | None => [] end).

  Lemma tdec_any_regular (b1 b2 : option (list byte)) :
    tdec_any S nm recd (any_out b1 b2) =
    TOk (VMsg ((match b1 with Some (c :: u) => [(1, [VS (SBy (c :: u))])] | _ => [] end)
               ++ (match b2 with Some (c :: b) => [(2, [VS (SBy (c :: b))])] | _ => [] end)) []).
  Proof. destruct b1 as [[|? ?]|], b2 as [[|? ?]|]; reflexivity. Qed.

  Variable tid : nat.
  Hypothesis Hlt : (tid < length S)%nat.
  Hypothesis Hw : mn_wkt (nm_msg nm tid) = 1.
  Variable fs : fields.
  Hypothesis Hs : msg_keys_sorted 0 fs = true.
  Hypothesis Hc : forallb (tvalid_chunk recv (rt_fields S nm tid)) fs = true.

  Lemma any_fallback :
    exists out, text_regular S nm rect tid fs = TOk out /\ tdec_any S nm recd out = TOk (VMsg fs []).
  Proof.
    destruct (schema_facts S nm Hschema tid Hlt) as (_ & _ & _ & _ & _ & Hshape). specialize (Hshape Hw).
    pose proof (proj1 (msg_keys_sorted_spec 0 fs) Hs) as Hsorted.
    pose proof (chunks_of S nm recv tid fs Hc) as Hchunks.
    destruct (any_shape_fields _ Hshape) as (f1 & n1 & f2 & n2 & Efps & N1 & N2 & K1 & C1 & K2 & C2 & T1 & T2 & X1 & X2 & _).
    unfold text_regular. rewrite Efps. unfold rt_field_order. cbn [filter fst]. rewrite X1, X2.
    cbn [negb filter sort_by_name app tmapM]. unfold text_field. cbn [fst snd]. rewrite C1, C2, N1, N2, K1, K2, T1, T2.
    destruct (any_fs_cases recv _ Hshape fs Hsorted Hchunks) as [->|[(b1 & H1 & ->)|[(b2 & H2 & ->)|(b1 & b2 & H1 & H2 & ->)]]].
    - exists (any_out None None). split; [reflexivity|]. rewrite tdec_any_regular. reflexivity.
    - exists (any_out (Some b1) None). split.
      + cbn [msg_fget N.eqb Pos.eqb tmapM text_elem text_scalar tbind].
        assert (Hu : f_utf8 f1 && negb (msg_utf8_valid b1) = false).
        { eapply any_url_utf8; try eassumption. left; reflexivity. }
        rewrite Hu. reflexivity.
      + rewrite tdec_any_regular. destruct b1; [congruence|reflexivity].
    - exists (any_out None (Some b2)). split.
      + cbn [msg_fget N.eqb Pos.eqb tmapM text_elem text_scalar tbind]. reflexivity.
      + rewrite tdec_any_regular. destruct b2; [congruence|reflexivity].
    - exists (any_out (Some b1) (Some b2)). split.
      + cbn [msg_fget N.eqb Pos.eqb tmapM text_elem text_scalar tbind].
        assert (Hu : f_utf8 f1 && negb (msg_utf8_valid b1) = false).
        { eapply any_url_utf8; try eassumption. left; reflexivity. }
        rewrite Hu. reflexivity.
      + rewrite tdec_any_regular. destruct b1; [congruence|]. destruct b2; [congruence|reflexivity].
  Qed.

  Lemma any_rt :
    tvalid_any true S nm lim recv rect fs = true ->
    exists out,
      (a <~ text_any S nm lim rect fs ;; match a with Some b => TOk b | None => text_regular S nm rect tid fs end) = TOk out /\
      tdec_any S nm recd out = TOk (VMsg (map sp fs) []).
  Proof.
    intros Hany.
    destruct (schema_facts S nm Hschema tid Hlt) as (_ & _ & _ & _ & _ & Hshape). specialize (Hshape Hw).
    pose proof (proj1 (msg_keys_sorted_spec 0 fs) Hs) as Hsorted.
    pose proof (chunks_of S nm recv tid fs Hc) as Hchunks.
    destruct (any_fs_eq recv _ Hshape fs Hsorted Hchunks) as [Hsp Hfs]. rewrite Hsp.
    unfold tvalid_any in Hany. unfold text_any.
    destruct (resolve_url nm (get_bytes_t fs 1)) as [t|] eqn:Eres; [|cbn [tbind]; apply any_fallback].
    destruct (msg_decode false S lim t (get_bytes_t fs 2)) as [em|e] eqn:Edec; [|cbn [tbind]; apply any_fallback].
    destruct (rect t em) as [b|e] eqn:Erect.
    - (* expanded *)
      apply andb_prop in Hany. destruct Hany as [Hany Hurl]. apply andb_prop in Hany. destruct Hany as [Hv Henc].
      cbn [negb orb] in Hurl. apply bs_eqb_eq in Henc.
      destruct (Hrec t em Hv) as (b' & Hb' & Hd). rewrite Erect in Hb'. inversion Hb'; subst b'.
      eexists. cbn [tbind]. split; [reflexivity|].
      unfold tdec_any. cbn [tdec_any_fields is_bracket_name as_exp as_seen_t orb].
      change (b2n x5b =? 91) with true. cbn iota.
      unfold bracket_inner. cbn [tl]. rewrite removelast_last.
      destruct (text_type_name (get_bytes_t fs 1)) as [u|]; [|discriminate]. apply bs_eqb_eq in Hurl. subst u.
      rewrite Eres, Hd. cbn [tbind as_url as_val]. rewrite Henc.
      rewrite Hfs at 3. reflexivity.
    - destruct e; try discriminate. cbn [tbind]. apply any_fallback.
  Qed.
End AnyMsg.

(* ================================================================== the theorem *)
Section Main.
  Variable S : schema.
  Variable nm : names.
  Variable lim : nat.
  Hypothesis Hschema : text_schema_ok S nm = true.

  Theorem text_roundtrip_strict : forall fuel tid v,
    text_valid true S nm lim fuel tid v = true ->
    exists out, to_text_msg S nm lim fuel tid v = TOk out /\
                of_text_msg S nm fuel tid out = TOk (strip_unknown v).
  Proof.
    induction fuel as [|f IH]; intros tid v H; [discriminate|].
    cbn [text_valid] in H. apply andb_prop in H. destruct H as [Hlt Hb]. apply Nat.ltb_lt in Hlt.
    cbn [to_text_msg of_text_msg].
    unfold tvalid_body in Hb. destruct v as [|fs unk|]; try discriminate.
    apply andb_prop in Hb. destruct Hb as [Hb Hany]. apply andb_prop in Hb. destruct Hb as [Hb Ho].
    apply andb_prop in Hb. destruct Hb as [Hs Hc].
    change (strip_unknown (VMsg fs unk)) with (VMsg (map sp fs) []).
    unfold text_msg_body, of_text_body.
    destruct (mn_wkt (nm_msg nm tid) =? 1) eqn:Ew.
    - apply N.eqb_eq in Ew.
      apply (any_rt S nm lim Hschema (text_valid true S nm lim f) (to_text_msg S nm lim f) (of_text_msg S nm f) IH
                    tid Hlt Ew fs Hs Hc Hany).
    - apply (regular_rt S nm Hschema (text_valid true S nm lim f) (to_text_msg S nm lim f) (of_text_msg S nm f) IH
                        tid fs Hlt Hs Hc Ho).
  Qed.
End Main.

Theorem text_roundtrip_except_FWD1 (o : topts) S nm lim fuel tid v :
  text_schema_ok S nm = true ->
  text_valid true S nm lim fuel tid v = true ->
  exists t, to_text o S nm lim fuel tid v = TOk t /\ of_text S nm fuel tid t = TOk (strip_unknown v).
Proof. intros Hs Hv. exact (text_roundtrip_strict S nm lim Hs fuel tid v Hv). Qed.

(* Marshal of valid content never fails: the only error of the encoder is invalid UTF-8 in a
   validated string, which validity excludes *)
Theorem text_marshal_total (o : topts) S nm lim fuel tid v :
  text_schema_ok S nm = true ->
  text_valid true S nm lim fuel tid v = true ->
  exists t, to_text o S nm lim fuel tid v = TOk t.
Proof. intros Hs Hv. destruct (text_roundtrip_strict S nm lim Hs fuel tid v Hv) as (t & Ht & _). exists t. exact Ht. Qed.

Theorem text_rendering_options_irrelevant (o o' : topts) S nm lim fuel tid v :
  to_text o S nm lim fuel tid v = to_text o' S nm lim fuel tid v.
Proof. reflexivity. Qed.

(* ================================================================== floats, relative to strconv *)
Definition f32_finite (b : N) : bool := negb (f32_is_nan b) && negb (f32_is_pinf b) && negb (f32_is_ninf b).
Definition f64_finite (b : N) : bool := negb (f64_is_nan b) && negb (f64_is_pinf b) && negb (f64_is_ninf b).

Section FloatOracle.
  (* strconv.AppendFloat(nil, f, 'g', -1, bitSize) for the finite float with these bits, and
     strconv.ParseFloat(s, bitSize) as a bit pattern (None: syntax error) *)
  Variable fmt32 fmt64 : N -> list byte.
  Variable parse32 parse64 : list byte -> option N.
  Hypothesis Hrt32 : forall b, f32_finite b = true -> parse32 (fmt32 b) = Some b.
  Hypothesis Hrt64 : forall b, f64_finite b = true -> parse64 (fmt64 b) = Some b.
  (* the shortest formatting of a finite float is a number, not one of the spellings nan / inf / infinity *)
  Hypothesis Hlit32 : forall b, f32_finite b = true -> float_lit true (fmt32 b) = None.
  Hypothesis Hlit64 : forall b, f64_finite b = true -> float_lit false (fmt64 b) = None.

  (* text.Encoder.WriteFloat *)
  Definition render_f32 (b : N) : list byte := match text_float32 b with TLit s => s | _ => fmt32 b end.
  Definition render_f64 (b : N) : list byte := match text_float64 b with TLit s => s | _ => fmt64 b end.
  (* text.Token.Float32 / Float64 on the token with that text *)
  Definition read_f32 (s : list byte) : option N :=
    match float_lit true s with Some b => Some b | None => parse32 s end.
  Definition read_f64 (s : list byte) : option N :=
    match float_lit false s with Some b => Some b | None => parse64 s end.

  Theorem float32_text_roundtrip b :
    read_f32 (render_f32 b) = Some (if f32_is_nan b then f32_nan else b).
  Proof.
    unfold render_f32, read_f32, text_float32.
    destruct (f32_is_nan b) eqn:E1; [reflexivity|].
    destruct (f32_is_pinf b) eqn:E2; [unfold f32_is_pinf in E2; apply N.eqb_eq in E2; subst; reflexivity|].
    destruct (f32_is_ninf b) eqn:E3; [unfold f32_is_ninf in E3; apply N.eqb_eq in E3; subst; reflexivity|].
    assert (Hf : f32_finite b = true) by (unfold f32_finite; rewrite E1, E2, E3; reflexivity).
    rewrite (Hlit32 b Hf). apply Hrt32, Hf.
  Qed.

  Theorem float64_text_roundtrip b :
    read_f64 (render_f64 b) = Some (if f64_is_nan b then f64_nan else b).
  Proof.
    unfold render_f64, read_f64, text_float64.
    destruct (f64_is_nan b) eqn:E1; [reflexivity|].
    destruct (f64_is_pinf b) eqn:E2; [unfold f64_is_pinf in E2; apply N.eqb_eq in E2; subst; reflexivity|].
    destruct (f64_is_ninf b) eqn:E3; [unfold f64_is_ninf in E3; apply N.eqb_eq in E3; subst; reflexivity|].
    assert (Hf : f64_finite b = true) by (unfold f64_finite; rewrite E1, E2, E3; reflexivity).
    rewrite (Hlit64 b Hf). apply Hrt64, Hf.
  Qed.
End FloatOracle.
