(* Proofs about Text/TextNumModel.v: everything strconv.FormatFloat(x, 'g', -1, bits)
   can emit for a finite x is lexed by parseNumber as ONE number token whose
   string is the whole rendering and which strconv.ParseFloat accepts
   syntactically (needed by C24: prototext round-trips floats). *)
From Coq Require Import List Arith NArith ZArith Lia Bool.
From Coq Require Import ZifyBool ZifyNat ZifyN.
From PB Require Import Base.PBytes Base.Utf8Model Text.TextStrModel Text.TextNumModel.
Import ListNotations.
Open Scope N_scope.

(* ---------- the output grammar of FormatFloat 'g' / -1 ----------
   e-form:  sign? digit (dot digits)? e (plus|minus) digit digits
   f-form:  sign? (0 | nonzero-digit digits?) (dot digits)?
   both are instances of:  sign? intpart (dot digits)? (e sign digits)?  with
   intpart = 0 | nonzero-digit followed by digits, and "digits" non-empty *)
Definition all_digits (l : list byte) : Prop := Forall (fun b => is_digit b = true) l.

Inductive int_part : list byte -> Prop :=
| ip_zero : int_part [x30]
| ip_nz d ds : in_rng 49 57 (b2n d) = true -> all_digits ds -> int_part (d :: ds).

Inductive frac_part : list byte -> Prop :=
| fp_none : frac_part []
| fp_some ds : ds <> [] -> all_digits ds -> frac_part (x2e :: ds).

Inductive exp_part : list byte -> Prop :=
| ep_none : exp_part []
| ep_some sg ds : (b2n sg = 43 \/ b2n sg = 45) -> ds <> [] -> all_digits ds -> exp_part (x65 :: sg :: ds).

Definition is_nil {A} (l : list A) : bool := match l with [] => true | _ => false end.

(* ---------- span_count on digit runs ---------- *)
Definition not_digit_head (s : list byte) : Prop := match s with [] => True | b :: _ => is_digit b = false end.

Lemma span_digits ds : all_digits ds -> forall rest, not_digit_head rest ->
  span_count is_digit (ds ++ rest) = (length ds, rest).
Proof.
  induction 1 as [|d ds Hd _ IH]; intros rest Hr.
  - cbn [app length]. destruct rest as [|b r]; [reflexivity|]. cbn [span_count]. cbn in Hr. now rewrite Hr.
  - cbn [app span_count length]. rewrite Hd, IH by assumption. reflexivity.
Qed.

Lemma delim_not_digit rest : at_delim rest = true -> not_digit_head rest.
Proof.
  destruct rest as [|b r]; [intros _; exact I|]. cbn [at_delim not_digit_head]. unfold is_delim, is_digit, in_rng. cbv zeta. lia.
Qed.

Lemma delim_head_facts b r : at_delim (b :: r) = true ->
  b2n b <> 46 /\ b2n b <> 101 /\ b2n b <> 69 /\ b2n b <> 102 /\ b2n b <> 70 /\ is_digit b = false.
Proof. cbn [at_delim]. unfold is_delim, is_digit, in_rng. cbv zeta. lia. Qed.

(* ---------- the tail of parseNumber ---------- *)
Lemma tail_exp neg size sep kind ex rest :
  exp_part ex -> at_delim rest = true ->
  (* after the optional fraction: exponent, suffix, delimiter check *)
  (let st2 :=
      match ex ++ rest with
      | e :: ((c :: r2) as r1) =>
        if (b2n e =? 101) || (b2n e =? 69) then
          if (b2n c =? 43) || (b2n c =? 45) then
            match r2 with
            | [] => None
            | _ => let '(n, r') := span_count is_digit r2 in Some (4, (size + 2 + n)%nat, r')
            end
          else let '(n, r') := span_count is_digit r1 in Some (4, (size + 1 + n)%nat, r')
        else Some (kind, size, ex ++ rest)
      | _ => Some (kind, size, ex ++ rest)
      end in
    match st2 with
    | None => None
    | Some (kind, size, s) =>
      let '(kind, size, s) :=
        match s with
        | b :: r => if (b2n b =? 102) || (b2n b =? 70) then (4, S size, r) else (kind, size, s)
        | [] => (kind, size, s)
        end in
      if at_delim s then Some {| nkind := kind; nneg := neg; nsize := size; nsep := sep |} else None
    end) =
  Some {| nkind := if is_nil ex then kind else 4; nneg := neg; nsize := (size + length ex)%nat; nsep := sep |}.
Proof.
  intros Hex Hd. cbv zeta. destruct Hex as [|sg ds Hsg Hne Hds].
  - cbn [app is_nil length]. rewrite Nat.add_0_r.
    destruct rest as [|b [|c r]].
    + reflexivity.
    + destruct (delim_head_facts b [] Hd) as (_ & _ & _ & H1 & H2 & _).
      replace ((b2n b =? 102) || (b2n b =? 70)) with false by lia. rewrite Hd. reflexivity.
    + destruct (delim_head_facts b (c :: r) Hd) as (_ & H3 & H4 & H1 & H2 & _).
      replace ((b2n b =? 101) || (b2n b =? 69)) with false by lia.
      replace ((b2n b =? 102) || (b2n b =? 70)) with false by lia. rewrite Hd. reflexivity.
  - cbn [app is_nil length]. change (b2n x65) with 101. cbn [N.eqb Pos.eqb orb].
    replace ((b2n sg =? 43) || (b2n sg =? 45)) with true by lia.
    destruct ds as [|d ds']; [congruence|]. cbn [app].
    change (d :: ds' ++ rest) with ((d :: ds') ++ rest).
    rewrite span_digits by (assumption || now apply delim_not_digit).
    destruct rest as [|b r].
    + cbn [at_delim]. do 2 f_equal. cbn [length]. lia.
    + destruct (delim_head_facts b r Hd) as (_ & _ & _ & H1 & H2 & _).
      replace ((b2n b =? 102) || (b2n b =? 70)) with false by lia. rewrite Hd.
      do 2 f_equal. cbn [length]. lia.
Qed.

Lemma exp_head_not_digit ex rest : exp_part ex -> at_delim rest = true -> not_digit_head (ex ++ rest).
Proof. intros [|sg ds _ _ _] Hd; [now apply delim_not_digit|reflexivity]. Qed.

Lemma exp_head_not_dot ex rest : exp_part ex -> at_delim rest = true ->
  match ex ++ rest with b :: _ => b2n b <> 46 | [] => True end.
Proof.
  intros [|sg ds _ _ _] Hd; cbn [app]; [|vm_compute; discriminate].
  destruct rest as [|b r]; [trivial|]. now destruct (delim_head_facts b r Hd).
Qed.

Lemma tail_ok neg size sep fr ex rest :
  frac_part fr -> exp_part ex -> at_delim rest = true ->
  parse_number_tail 0 neg size sep (fr ++ ex ++ rest) =
  Some {| nkind := if is_nil fr && is_nil ex then 0 else 4; nneg := neg;
          nsize := (size + length fr + length ex)%nat; nsep := sep |}.
Proof.
  intros Hfr Hex Hd. unfold parse_number_tail.
  destruct Hfr as [|ds Hne Hds].
  - cbn [app is_nil andb length]. rewrite Nat.add_0_r.
    pose proof (exp_head_not_dot ex rest Hex Hd) as Hdot.
    destruct (ex ++ rest) as [|b r] eqn:E.
    + pose proof (tail_exp neg size sep 0 ex rest Hex Hd) as T. rewrite E in T. exact T.
    + replace (b2n b =? 46) with false by lia.
      pose proof (tail_exp neg size sep 0 ex rest Hex Hd) as T. rewrite E in T. exact T.
  - cbn [app is_nil andb]. change (b2n x2e) with 46. cbn [N.eqb Pos.eqb].
    destruct ds as [|d ds']; [congruence|]. cbn [app].
    change (d :: ds' ++ ex ++ rest) with ((d :: ds') ++ ex ++ rest).
    rewrite span_digits by (assumption || now apply exp_head_not_digit).
    pose proof (tail_exp neg (size + 1 + length (d :: ds')) sep 4 ex rest Hex Hd) as T.
    cbv zeta in T. rewrite T. destruct (is_nil ex); do 2 f_equal; cbn [length]; lia.
Qed.

(* ---------- parseNumber on the grammar ---------- *)
Definition float_text (neg : bool) (ip fr ex : list byte) : list byte :=
  (if neg then [x2d] else []) ++ ip ++ fr ++ ex.

Lemma frac_exp_not_digit fr ex rest : frac_part fr -> exp_part ex -> at_delim rest = true ->
  not_digit_head (fr ++ ex ++ rest).
Proof. intros [|ds _ _] Hex Hd; [cbn [app]; apply exp_head_not_digit; assumption|reflexivity]. Qed.

Lemma frac_exp_head fr ex rest : frac_part fr -> exp_part ex -> at_delim rest = true ->
  match fr ++ ex ++ rest with
  | b :: _ => b2n b <> 120 /\ b2n b <> 88 /\ in_rng 48 55 (b2n b) = false
  | [] => True
  end.
Proof.
  intros [|ds _ _] Hex Hd; cbn [app]; [|vm_compute; repeat split; discriminate].
  destruct Hex as [|sg ds _ _ _]; cbn [app]; [|vm_compute; repeat split; discriminate].
  destruct rest as [|b r]; [trivial|]. cbn [at_delim] in Hd. unfold is_delim, in_rng in *. cbv zeta in Hd. lia.
Qed.

Lemma parse_unsigned neg size sep ip fr ex rest :
  int_part ip -> frac_part fr -> exp_part ex -> at_delim rest = true ->
  (* the part of parseNumber after the optional sign, on s = ip ++ fr ++ ex ++ rest *)
  match ip ++ fr ++ ex ++ rest with
  | [] => None
  | c :: r =>
    if b2n c =? 48 then
      match r with
      | c1 :: r1 =>
        if (b2n c1 =? 120) || (b2n c1 =? 88) then
          let '(n, rest) := span_count is_hexdig r1 in
          match n with
          | O => None
          | _ => if at_delim rest
                 then Some {| nkind := 1; nneg := neg; nsize := (size + 2 + n)%nat; nsep := sep |}
                 else None
          end
        else if in_rng 48 55 (b2n c1) then
          let '(n, rest) := span_count is_octd r1 in
          if at_delim rest
          then Some {| nkind := 2; nneg := neg; nsize := (size + 2 + n)%nat; nsep := sep |}
          else None
        else parse_number_tail 0 neg (S size) sep r
      | [] => parse_number_tail 0 neg (S size) sep r
      end
    else if in_rng 49 57 (b2n c) then
      let '(n, rest) := span_count is_digit r in
      parse_number_tail 0 neg (size + 1 + n)%nat sep rest
    else if b2n c =? 46 then parse_number_tail 4 neg size sep (c :: r)
    else None
  end =
  Some {| nkind := if is_nil fr && is_nil ex then 0 else 4; nneg := neg;
          nsize := (size + length ip + length fr + length ex)%nat; nsep := sep |}.
Proof.
  intros Hip Hfr Hex Hd. destruct Hip as [|d ds Hnz Hds].
  - cbn [app]. change (b2n x30) with 48. cbn [N.eqb Pos.eqb].
    pose proof (frac_exp_head fr ex rest Hfr Hex Hd) as Hh.
    pose proof (tail_ok neg (S size) sep fr ex rest Hfr Hex Hd) as T.
    destruct (fr ++ ex ++ rest) as [|c1 r1] eqn:E.
    + rewrite T. do 2 f_equal. cbn [length]. lia.
    + destruct Hh as (H1 & H2 & H3).
      replace ((b2n c1 =? 120) || (b2n c1 =? 88)) with false by lia. rewrite H3.
      rewrite T. do 2 f_equal. cbn [length]. lia.
  - cbn [app]. replace (b2n d =? 48) with false by (unfold in_rng in Hnz; lia). rewrite Hnz.
    rewrite span_digits by (assumption || now apply frac_exp_not_digit).
    rewrite tail_ok by assumption. do 2 f_equal. cbn [length]. lia.
Qed.

Theorem float_text_accepted neg ip fr ex rest :
  int_part ip -> frac_part fr -> exp_part ex -> at_delim rest = true ->
  let s := float_text neg ip fr ex in
  exists num, parse_number (s ++ rest) = Some num /\
              nsize num = length s /\ nneg num = neg /\ nsep num = O /\
              nkind num = (if is_nil fr && is_nil ex then 0 else 4) /\
              number_string num (s ++ rest) = s.
Proof.
  intros Hip Hfr Hex Hd. cbv zeta. unfold float_text.
  pose proof (parse_unsigned neg (if neg then 1%nat else O) O ip fr ex rest Hip Hfr Hex Hd) as P.
  assert (Hfirst : forall c r, ip ++ fr ++ ex ++ rest = c :: r -> b2n c <> 45 /\ b2n c <> 32 /\ b2n c <> 10 /\ b2n c <> 13 /\ b2n c <> 9 /\ b2n c <> 35).
  { intros c r E. destruct Hip as [|d ds Hnz _]; cbn [app] in E; inversion E; subst.
    - vm_compute. repeat split; discriminate.
    - unfold in_rng in Hnz. lia. }
  assert (Hlast : forall num, nkind num = (if is_nil fr && is_nil ex then 0 else 4) ->
            nsize num = length ((if neg then [x2d] else []) ++ ip ++ fr ++ ex) -> nneg num = neg -> nsep num = O ->
            number_string num (((if neg then [x2d] else []) ++ ip ++ fr ++ ex) ++ rest) =
            (if neg then [x2d] else []) ++ ip ++ fr ++ ex).
  { intros num Hk Hs Hn Hsep. unfold number_string. rewrite Hsep. cbn [Nat.eqb negb]. rewrite andb_false_r.
    set (s := (if neg then [x2d] else []) ++ ip ++ fr ++ ex) in *.
    assert (Hf : firstn (nsize num) (s ++ rest) = s)
      by (rewrite Hs, firstn_app, Nat.sub_diag, firstn_all, firstn_O, app_nil_r; reflexivity).
    rewrite Hf.
    assert (Hl : (last_byte s =? 102) || (last_byte s =? 70) = false).
    { unfold last_byte, s. rewrite !rev_app_distr.
      destruct Hex as [|sg ds0 _ Hne0 Hds0].
      - cbn [rev app]. destruct Hfr as [|ds1 Hne1 Hds1].
        + cbn [rev app]. destruct Hip as [|d ds Hnz Hds]; [destruct neg; reflexivity|].
          destruct (rev (d :: ds)) as [|l r] eqn:El.
          * apply (f_equal (@length byte)) in El. rewrite rev_length in El. discriminate.
          * cbn [app]. assert (In l (d :: ds)) by (apply in_rev; rewrite El; now left).
            destruct H as [<-|Hin]; [unfold in_rng in Hnz; lia|].
            unfold all_digits in Hds. rewrite Forall_forall in Hds. specialize (Hds _ Hin).
            unfold is_digit, in_rng in Hds. lia.
        + cbn [rev]. destruct (rev ds1) as [|l r] eqn:El.
          * apply (f_equal (@length byte)) in El. rewrite rev_length in El. destruct ds1; [congruence|discriminate].
          * cbn [app]. assert (Hin : In l ds1) by (apply in_rev; rewrite El; now left).
            unfold all_digits in Hds1. rewrite Forall_forall in Hds1. specialize (Hds1 _ Hin).
            unfold is_digit, in_rng in Hds1. lia.
      - cbn [rev]. destruct (rev ds0) as [|l r] eqn:El.
        + apply (f_equal (@length byte)) in El. rewrite rev_length in El. destruct ds0; [congruence|discriminate].
        + cbn [app]. assert (Hin : In l ds0) by (apply in_rev; rewrite El; now left).
          unfold all_digits in Hds0. rewrite Forall_forall in Hds0. specialize (Hds0 _ Hin).
          unfold is_digit, in_rng in Hds0. lia. }
    rewrite Hl, andb_false_r. rewrite Hs, firstn_app, Nat.sub_diag, firstn_all, firstn_O, app_nil_r. reflexivity. }
  destruct neg.
  - eexists. split.
    + unfold parse_number. cbn [app]. change (b2n x2d) with 45. cbn [N.eqb Pos.eqb].
      (* nothing to skip after the sign *)
      destruct (ip ++ fr ++ ex ++ rest) as [|c r] eqn:E.
      { destruct Hip; discriminate. }
      destruct (Hfirst c r eq_refl) as (H1 & H2 & H3 & H4 & H5 & H6).
      assert (Hc : consume_ws false (c :: r) = c :: r).
      { cbn [consume_ws].
        replace ((b2n c =? 32) || (b2n c =? 10) || (b2n c =? 13) || (b2n c =? 9)) with false by lia.
        replace (b2n c =? 35) with false by lia. reflexivity. }
      rewrite <- !app_assoc, E, Hc. rewrite Nat.sub_diag. exact P.
    + cbn [nsize nneg nsep nkind]. repeat split; try reflexivity.
      * cbn [app length]. rewrite !app_length. lia.
      * apply Hlast; try reflexivity. cbn [nsize app length]. rewrite !app_length. lia.
  - eexists. split.
    + unfold parse_number. cbn [app].
      destruct (ip ++ fr ++ ex ++ rest) as [|c r] eqn:E.
      { destruct Hip; discriminate. }
      destruct (Hfirst c r eq_refl) as (H1 & _).
      rewrite <- !app_assoc, E. replace (b2n c =? 45) with false by lia. exact P.
    + cbn [nsize nneg nsep nkind]. repeat split; try reflexivity.
      * cbn [app length]. rewrite !app_length. lia.
      * apply Hlast; try reflexivity. cbn [nsize app length]. rewrite !app_length. lia.
Qed.

(* ... and strconv.ParseFloat's syntax accepts the token string *)
Lemma span_digits_nil ds : all_digits ds -> span_count is_digit ds = (length ds, []).
Proof. intros H. rewrite <- (app_nil_r ds) at 1. now apply span_digits. Qed.

Theorem float_text_syntax_ok neg ip fr ex :
  int_part ip -> frac_part fr -> exp_part ex -> float_syntax_ok (float_text neg ip fr ex) = true.
Proof.
  intros Hip Hfr Hex. unfold float_syntax_ok, float_text.
  assert (Hipd : all_digits ip /\ ip <> []).
  { destruct Hip as [|d ds Hnz Hds]; (split; [|discriminate]).
    - constructor; [reflexivity|constructor].
    - constructor; [unfold is_digit, in_rng in *; lia|assumption]. }
  destruct Hipd as [Hipd Hipne].
  assert (Hstrip : (match (if neg then [x2d] else []) ++ ip ++ fr ++ ex with
                    | c :: r => if (b2n c =? 45) || (b2n c =? 43) then r else (if neg then [x2d] else []) ++ ip ++ fr ++ ex
                    | [] => (if neg then [x2d] else []) ++ ip ++ fr ++ ex end) = ip ++ fr ++ ex).
  { destruct neg; [reflexivity|]. cbn [app]. destruct ip as [|c r]; [congruence|]. cbn [app].
    inversion Hipd as [|? ? Hc _]; subst. unfold is_digit, in_rng in Hc.
    replace ((b2n c =? 45) || (b2n c =? 43)) with false by lia. reflexivity. }
  rewrite Hstrip.
  assert (Hnd : not_digit_head (fr ++ ex)).
  { destruct Hfr; [|reflexivity]. destruct Hex; [exact I|reflexivity]. }
  rewrite span_digits by assumption.
  destruct Hfr as [|ds Hne Hds].
  - cbn [app]. destruct Hex as [|sg es Hsg Hene Hes].
    + destruct ip; [congruence|reflexivity].
    + change (b2n x65 =? 46) with false. cbv iota.
      replace (Nat.eqb (length ip + 0) 0) with false by (destruct ip; [congruence|reflexivity]).
      change ((b2n x65 =? 101) || (b2n x65 =? 69)) with true. cbv iota.
      replace ((b2n sg =? 45) || (b2n sg =? 43)) with true by lia.
      rewrite span_digits_nil by assumption. destruct es; [congruence|reflexivity].
  - cbn [app]. change (b2n x2e =? 46) with true. cbv iota.
    assert (Hnd2 : not_digit_head ex) by (destruct Hex; [exact I|reflexivity]).
    rewrite span_digits by assumption.
    replace (Nat.eqb (length ip + length ds) 0) with false by (destruct ip; [congruence|reflexivity]).
    destruct Hex as [|sg es Hsg Hene Hes]; [reflexivity|].
    change ((b2n x65 =? 101) || (b2n x65 =? 69)) with true. cbv iota.
    replace ((b2n sg =? 45) || (b2n sg =? 43)) with true by lia.
    rewrite span_digits_nil by assumption. destruct es; [congruence|reflexivity].
Qed.

Print Assumptions float_text_accepted.
Print Assumptions float_text_syntax_ok.
