(* Model of prototext's rendering of unknown fields:
     encoding/prototext/encode.go        marshalUnknown
     internal/encoding/text/encode.go    Encoder.prepareNext, WriteName, WriteUint,
                                         WriteLiteral, WriteString, StartMessage, EndMessage
   Definitions only.  The wire-level primitives are those of Wire/WireModel.v
   (read-only here).  [None] models a Go panic (slice bounds or the explicit
   panic in the default arm of the wire-type switch). *)
From Coq Require Import List NArith ZArith Bool.
From PB Require Import Base.PBytes Base.Utf8Model Wire.WireModel Text.TextStrModel Text.TextFmtModel.
Import ListNotations.
Open Scope N_scope.

(* the Encoder calls made by marshalUnknown *)
Inductive utok :=
| UName (num : N)          (* WriteName(FormatInt(num, 10)) *)
| UUint (v : N)            (* WriteUint(v) *)
| UHex (v : N)             (* WriteLiteral("0x" + FormatUint(v, 16)) *)
| UStr (s : list byte)     (* WriteString(string(v)) *)
| UOpen                    (* StartMessage() *)
| UClose.                  (* EndMessage() *)

Inductive mu_res := MuOk (toks : list utok) | MuPanic | MuFuel.

Definition mu_app (a : list utok) (r : mu_res) : mu_res :=
  match r with MuOk t => MuOk (a ++ t) | e => e end.

(* marshalUnknown(b).  A negative length from a Consume* function makes the
   following  b = b[n:]  panic; ConsumeGroup's own slicing may panic too. *)
Fixpoint marshal_unknown_toks (fuel : nat) (b : list byte) : mu_res :=
  match b with
  | [] => MuOk []
  | _ =>
    match fuel with
    | O => MuFuel
    | S f =>
      match dec_tag b with
      | Err _ => MuPanic
      | Ok (num, wtype, b1) =>
        match wtype with
        | 0 => match dec_varint b1 with
               | Ok (v, b2) => mu_app [UName num; UUint v] (marshal_unknown_toks f b2)
               | Err _ => MuPanic
               end
        | 5 => match dec_fixed32 b1 with
               | Ok (v, b2) => mu_app [UName num; UHex v] (marshal_unknown_toks f b2)
               | Err _ => MuPanic
               end
        | 1 => match dec_fixed64 b1 with
               | Ok (v, b2) => mu_app [UName num; UHex v] (marshal_unknown_toks f b2)
               | Err _ => MuPanic
               end
        | 2 => match dec_bytes b1 with
               | Ok (v, b2) => mu_app [UName num; UStr v] (marshal_unknown_toks f b2)
               | Err _ => MuPanic
               end
        | 3 => match consume_group num b1 with
               | Ok (Some v, n) =>
                   match marshal_unknown_toks f v with
                   | MuOk inner =>
                       mu_app (UName num :: UOpen :: inner ++ [UClose])
                              (marshal_unknown_toks f (skipn (N.to_nat n) b1))
                   | e => e
                   end
               | Ok (None, _) => MuPanic
               | Err _ => MuPanic
               end
        | _ => MuPanic
        end
      end
    end
  end.

(* ---------- the Encoder ---------- *)
Inductive etype := TZero | TName | TScalar | TOpen | TClose.

Record enc_cfg := {
  ec_indent : list byte;    (* "" = single line *)
  ec_extra : bool;          (* detrand.Bool(): a second space after separators *)
  ec_ascii : bool
}.

Record enc_state := { es_last : etype; es_indents : list byte; es_out : list byte }.

Definition sp (extra : bool) : list byte := if extra then [x20; x20] else [x20].

Definition is_nil (l : list byte) : bool := match l with [] => true | _ => false end.

(* prepareNext; [None] = slice-bounds panic when un-indenting below zero *)
Definition prepare_next (c : enc_cfg) (s : enc_state) (next : etype) : option enc_state :=
  let last := es_last s in
  let scalar_or_close := match last with TScalar | TClose => true | _ => false end in
  let is_name := match next with TName => true | _ => false end in
  let is_close := match next with TClose => true | _ => false end in
  if is_nil (ec_indent c) then
    Some {| es_last := next; es_indents := es_indents s;
            es_out := es_out s ++ (if scalar_or_close && is_name then sp (ec_extra c) else []) |}
  else
    match last with
    | TName => Some {| es_last := next; es_indents := es_indents s; es_out := es_out s ++ sp (ec_extra c) |}
    | TOpen =>
        if is_close then Some {| es_last := next; es_indents := es_indents s; es_out := es_out s |}
        else let ind := es_indents s ++ ec_indent c in
             Some {| es_last := next; es_indents := ind; es_out := es_out s ++ x0a :: ind |}
    | TScalar | TClose =>
        if is_close then
          if Nat.ltb (length (es_indents s)) (length (ec_indent c)) then None
          else let ind := firstn (length (es_indents s) - length (ec_indent c)) (es_indents s) in
               Some {| es_last := next; es_indents := ind; es_out := es_out s ++ x0a :: ind |}
        else Some {| es_last := next; es_indents := es_indents s;
                     es_out := es_out s ++ x0a :: es_indents s |}
    | TZero => Some {| es_last := next; es_indents := es_indents s; es_out := es_out s |}
    end.

Definition tok_type (t : utok) : etype :=
  match t with
  | UName _ => TName
  | UUint _ | UHex _ | UStr _ => TScalar
  | UOpen => TOpen
  | UClose => TClose
  end.

Definition tok_bytes (c : enc_cfg) (t : utok) : list byte :=
  match t with
  | UName num => fmt_dec num ++ [x3a]
  | UUint v => fmt_dec v
  | UHex v => x30 :: x78 :: fmt_hex v
  | UStr s => append_string (ec_ascii c) s
  | UOpen => [x7b]
  | UClose => [x7d]
  end.

Fixpoint render_toks (c : enc_cfg) (s : enc_state) (ts : list utok) : option enc_state :=
  match ts with
  | [] => Some s
  | t :: r =>
    match prepare_next c s (tok_type t) with
    | None => None
    | Some s' =>
        render_toks c {| es_last := es_last s'; es_indents := es_indents s';
                         es_out := es_out s' ++ tok_bytes c t |} r
    end
  end.

(* MarshalOptions{Indent, EmitASCII, EmitUnknown: true}.Marshal of a message
   without known fields whose unknown bytes are [b].  [None] = panic. *)
Definition marshal_unknown (c : enc_cfg) (b : list byte) : option (list byte) :=
  match marshal_unknown_toks (S (length b)) b with
  | MuOk ts =>
      match render_toks c {| es_last := TZero; es_indents := []; es_out := [] |} ts with
      | Some s =>
          let out := es_out s in
          Some (if negb (is_nil (ec_indent c)) && negb (is_nil out) then out ++ [x0a] else out)
      | None => None
      end
  | _ => None
  end.
