(* Proofs about Text/TextFmtModel.v: FormatUint/FormatInt then ParseUint/ParseInt
   is the identity (bases 2..16). *)
From Coq Require Import List Arith NArith ZArith Lia Bool.
From Coq Require Import ZifyBool ZifyNat ZifyN.
From PB Require Import Base.PBytes Text.TextStrModel Text.TextStrP Text.TextFmtModel.
Ltac Zify.zify_post_hook ::= Z.div_mod_to_equations.
Import ListNotations.
Open Scope N_scope.

Definition is_dig (b : byte) : Prop := exists d, d < 16 /\ b = hexdig d.

Lemma is_dig_not_sign b : is_dig b -> b2n b <> 45 /\ b2n b <> 43 /\ printable b.
Proof.
  intros (d & Hd & ->). split; [|split]; [| |now apply hexdig_printable];
  apply lt16_cases in Hd; repeat (destruct Hd as [->|Hd]); try subst d; vm_compute; discriminate.
Qed.

Lemma fmt_base_fuel_spec base : 2 <= base <= 16 -> forall fuel v,
  v < base ^ N.of_nat (S fuel) ->
  digits_val base 0 (fmt_base_fuel fuel base v) = Some v /\
  Forall is_dig (fmt_base_fuel fuel base v) /\ fmt_base_fuel fuel base v <> [].
Proof.
  intros Hb. induction fuel as [|fuel IH]; intros v Hv.
  - change (N.of_nat 1) with 1 in Hv. rewrite N.pow_1_r in Hv.
    cbn [fmt_base_fuel digits_val]. rewrite N.mod_small by lia.
    rewrite hexval_hexdig by lia. replace (v <? base) with true by lia.
    split; [f_equal; lia|]. split; [|discriminate]. constructor; [|constructor]. exists v. split; [lia|reflexivity].
  - cbn [fmt_base_fuel]. destruct (v <? base) eqn:E.
    + cbn [digits_val]. rewrite hexval_hexdig by lia. rewrite E.
      split; [f_equal; lia|]. split; [|discriminate]. constructor; [|constructor]. exists v. split; [lia|reflexivity].
    + assert (Hq : v / base < base ^ N.of_nat (S fuel)).
      { rewrite (Nat2N.inj_succ (S fuel)), N.pow_succ_r' in Hv. apply N.div_lt_upper_bound; lia. }
      destruct (IH _ Hq) as (H1 & H2 & H3).
      assert (Hm : v mod base < base) by (apply N.mod_lt; lia).
      split; [|split].
      * rewrite digits_val_app, H1. cbn [digits_val]. rewrite hexval_hexdig by lia.
        replace (v mod base <? base) with true by lia. f_equal.
        pose proof (N.div_mod v base ltac:(lia)). lia.
      * apply Forall_app; split; [assumption|]. constructor; [|constructor].
        exists (v mod base). split; [lia|reflexivity].
      * intros H. apply app_eq_nil in H. destruct H; discriminate.
Qed.

Lemma fmt_base_spec base v : 2 <= base <= 16 ->
  parse_uint base (fmt_base base v) = Some v /\ Forall is_dig (fmt_base base v) /\ fmt_base base v <> [].
Proof.
  intros Hb. unfold fmt_base.
  assert (Hv : v < base ^ N.of_nat (S (N.to_nat (N.size v)))).
  { rewrite Nat2N.inj_succ, N2Nat.id, N.pow_succ_r'.
    assert (v < 2 ^ N.size v) by apply N.size_gt.
    assert (2 ^ N.size v <= base ^ N.size v) by (apply N.pow_le_mono_l; lia).
    assert (0 < base ^ N.size v) by (apply N.neq_0_lt_0, N.pow_nonzero; lia). nia. }
  destruct (fmt_base_fuel_spec base Hb _ _ Hv) as (H1 & H2 & H3).
  split; [|split; assumption]. unfold parse_uint.
  destruct (fmt_base_fuel (N.to_nat (N.size v)) base v) eqn:E; [congruence|exact H1].
Qed.

Theorem parse_fmt_dec bits v : v < 2 ^ bits -> parse_uint10 bits (fmt_dec v) = Some v.
Proof.
  intros Hv. unfold parse_uint10, fmt_dec.
  destruct (fmt_base_spec 10 v ltac:(lia)) as (-> & _ & _).
  replace (v <? 2 ^ bits) with true by lia. reflexivity.
Qed.

Theorem parse_fmt_int bits z : 0 < bits ->
  (- 2 ^ Z.of_N (bits - 1) <= z < 2 ^ Z.of_N (bits - 1))%Z -> parse_int10 bits (fmt_int z) = Some z.
Proof.
  intros Hb Hz. unfold fmt_int, parse_int10.
  assert (Hp : 2 ^ bits = 2 * 2 ^ (bits - 1)).
  { rewrite <- N.pow_succ_r'. f_equal. lia. }
  assert (Hzn : (2 ^ Z.of_N (bits - 1))%Z = Z.of_N (2 ^ (bits - 1))) by (rewrite N2Z.inj_pow; reflexivity).
  destruct (z <? 0)%Z eqn:E.
  - change (b2n x2d) with 45. cbn [N.eqb Pos.eqb].
    rewrite parse_fmt_dec by lia.
    replace (Z.to_N (- z) <=? 2 ^ (bits - 1)) with true by lia. f_equal. lia.
  - destruct (fmt_base_spec 10 (Z.to_N z) ltac:(lia)) as (_ & Hd & Hne).
    unfold fmt_dec in *. destruct (fmt_base 10 (Z.to_N z)) as [|c r] eqn:Ef; [congruence|].
    inversion Hd as [|? ? Hc _]; subst. destruct (is_dig_not_sign c Hc) as (H45 & H43 & _).
    replace (b2n c =? 45) with false by lia. replace (b2n c =? 43) with false by lia.
    rewrite <- Ef. change (fmt_base 10 (Z.to_N z)) with (fmt_dec (Z.to_N z)).
    rewrite parse_fmt_dec by lia.
    replace (Z.to_N z <? 2 ^ (bits - 1)) with true by lia. f_equal. lia.
Qed.

Lemma fmt_dec_printable v : Forall printable (fmt_dec v).
Proof.
  destruct (fmt_base_spec 10 v ltac:(lia)) as (_ & Hd & _). unfold fmt_dec.
  eapply Forall_impl; [|exact Hd]. intros b Hb. now apply is_dig_not_sign.
Qed.
