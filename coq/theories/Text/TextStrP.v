(* Proofs about Text/TextStrModel.v: every byte list written by appendString
   is read back by parseString (C25). *)
From Coq Require Import List Arith NArith ZArith Lia Bool.
From Coq Require Import ZifyBool ZifyNat ZifyN.
From PB Require Import Base.PBytes Base.Utf8Model Base.Utf8P Text.TextStrModel.
Ltac Zify.zify_post_hook ::= Z.div_mod_to_equations.
Import ListNotations.
Open Scope N_scope.

(* ---------- lists ---------- *)
Lemma firstn_app_exact {A} (a t : list A) n : length a = n -> firstn n (a ++ t) = a.
Proof. intros <-. rewrite firstn_app, Nat.sub_diag, firstn_all, firstn_O, app_nil_r. reflexivity. Qed.
Lemma skipn_app_exact {A} (a t : list A) n : length a = n -> skipn n (a ++ t) = t.
Proof. intros <-. rewrite skipn_app, Nat.sub_diag, skipn_all. reflexivity. Qed.
Lemma firstn_add {A} n i (l : list A) : firstn (n + i) l = firstn n l ++ firstn i (skipn n l).
Proof.
  revert l. induction n as [|n IH]; intros l; [reflexivity|].
  destruct l as [|x l]; cbn [Nat.add firstn skipn app]; [now rewrite firstn_nil|]. now rewrite IH.
Qed.
Lemma skipn_add {A} n i (l : list A) : skipn (n + i) l = skipn i (skipn n l).
Proof.
  revert l. induction n as [|n IH]; intros l; [reflexivity|].
  destruct l as [|x l]; cbn [Nat.add skipn]; [now rewrite skipn_nil|]. apply IH.
Qed.

(* ---------- hex digits ---------- *)
Definition printable (b : byte) : Prop := 32 <= b2n b <= 126.

Lemma lt16_cases d : d < 16 ->
  d = 0 \/ d = 1 \/ d = 2 \/ d = 3 \/ d = 4 \/ d = 5 \/ d = 6 \/ d = 7 \/ d = 8 \/ d = 9 \/
  d = 10 \/ d = 11 \/ d = 12 \/ d = 13 \/ d = 14 \/ d = 15.
Proof. lia. Qed.

Lemma hexval_hexdig d : d < 16 -> hexval (hexdig d) = Some d.
Proof. intros H. apply lt16_cases in H. repeat (destruct H as [->|H]); try subst d; reflexivity. Qed.

Lemma hexdig_printable d : d < 16 -> printable (hexdig d).
Proof.
  intros H. apply lt16_cases in H. unfold printable.
  repeat (destruct H as [->|H]); try subst d; vm_compute; split; discriminate.
Qed.

Lemma is_hexd_hexdig d : d < 16 -> is_hexd (hexdig d) = true.
Proof. intros H. unfold is_hexd. now rewrite hexval_hexdig. Qed.

Lemma hex_fixed_length w : forall v, length (hex_fixed w v) = w.
Proof. induction w as [|w IH]; intros v; cbn [hex_fixed]; [reflexivity|]. rewrite app_length, IH. cbn. lia. Qed.

Lemma hex_fixed_printable w : forall v, Forall printable (hex_fixed w v).
Proof.
  induction w as [|w IH]; intros v; cbn [hex_fixed]; [constructor|].
  apply Forall_app; split; [apply IH|]. constructor; [|constructor].
  apply hexdig_printable. apply N.mod_lt. discriminate.
Qed.

Lemma digits_val_app base l1 : forall acc l2,
  digits_val base acc (l1 ++ l2) =
  match digits_val base acc l1 with Some a => digits_val base a l2 | None => None end.
Proof.
  induction l1 as [|b l1 IH]; intros acc l2; cbn [app digits_val]; [reflexivity|].
  destruct (hexval b); [|reflexivity]. destruct (n <? base); [apply IH|reflexivity].
Qed.

Lemma digits_val_hex_fixed w : forall v acc,
  digits_val 16 acc (hex_fixed w v) = Some (acc * 16 ^ N.of_nat w + v mod 16 ^ N.of_nat w).
Proof.
  induction w as [|w IH]; intros v acc.
  - cbn [hex_fixed digits_val]. change (16 ^ N.of_nat 0) with 1. rewrite N.mod_1_r. f_equal. lia.
  - cbn [hex_fixed]. rewrite digits_val_app, IH. cbn [digits_val].
    rewrite hexval_hexdig by (apply N.mod_lt; discriminate).
    replace (v mod 16 <? 16) with true by (pose proof (N.mod_lt v 16); lia).
    f_equal. rewrite Nat2N.inj_succ, N.pow_succ_r'.
    set (m := 16 ^ N.of_nat w). assert (m <> 0) by (apply N.pow_nonzero; discriminate).
    rewrite (N.mod_mul_r v 16 m) by (discriminate || assumption). lia.
Qed.

Lemma parse_uint_hex_fixed w v : (0 < w)%nat -> v < 16 ^ N.of_nat w -> parse_uint 16 (hex_fixed w v) = Some v.
Proof.
  intros Hw Hv. unfold parse_uint.
  destruct (hex_fixed w v) eqn:E.
  - pose proof (hex_fixed_length w v) as L. rewrite E in L. cbn in L. lia.
  - rewrite <- E, digits_val_hex_fixed. f_equal. rewrite N.mod_small by assumption. lia.
Qed.

(* ---------- Go's padded hex = fixed-width hex ---------- *)
Lemma repeat_snoc {A} (a : A) k : repeat a k ++ [a] = a :: repeat a k.
Proof. induction k as [|k IH]; [reflexivity|]. cbn [repeat app]. now rewrite IH. Qed.

Lemma hex_fixed_zero k : hex_fixed k 0 = repeat x30 k.
Proof.
  induction k as [|k IH]; [reflexivity|]. cbn [hex_fixed]. change (0 / 16) with 0. change (0 mod 16) with 0.
  rewrite IH. change (hexdig 0) with x30. now rewrite repeat_snoc.
Qed.

Lemma hex_fixed_pad n : forall k r, r < 16 ^ N.of_nat n -> hex_fixed (k + n) r = repeat x30 k ++ hex_fixed n r.
Proof.
  induction n as [|n IH]; intros k r Hr.
  - change (16 ^ N.of_nat 0) with 1 in Hr. assert (r = 0) by lia. subst.
    rewrite Nat.add_0_r, hex_fixed_zero. cbn [hex_fixed]. now rewrite app_nil_r.
  - rewrite Nat.add_succ_r. cbn [hex_fixed]. rewrite IH, app_assoc; [reflexivity|].
    rewrite Nat2N.inj_succ, N.pow_succ_r' in Hr. apply N.div_lt_upper_bound; lia.
Qed.

(* number of hex digits as the Go code computes it from bits.Len32 *)
Definition ndig (r : N) : nat := S (N.to_nat ((N.size r - 1) / 4)).

Lemma size_m1 r : r <> 0 -> N.size r - 1 = N.log2 r.
Proof. intros H. rewrite N.size_log2 by exact H. lia. Qed.

Lemma ndig_small r : r < 16 -> ndig r = 1%nat.
Proof.
  intros H. unfold ndig. destruct (N.eq_dec r 0) as [->|Hz]; [reflexivity|].
  rewrite size_m1 by exact Hz.
  assert (N.log2 r < 4) by (apply N.log2_lt_pow2; [lia|exact H]).
  replace (N.log2 r / 4) with 0 by (symmetry; apply N.div_small; assumption). reflexivity.
Qed.

Lemma ndig_step r : 16 <= r -> ndig r = S (ndig (r / 16)).
Proof.
  intros H. unfold ndig.
  assert (Hq : 1 <= r / 16) by (apply N.div_le_lower_bound; lia).
  rewrite !size_m1 by lia.
  assert (Hl : N.log2 (r / 16) = N.log2 r - 4).
  { change 16 with (2 ^ 4). rewrite <- N.shiftr_div_pow2. apply N.log2_shiftr. }
  assert (4 <= N.log2 r) by (apply N.log2_le_pow2; [lia|exact H]).
  rewrite Hl. f_equal.
  replace (N.log2 r) with ((N.log2 r - 4) + 1 * 4) at 1 by lia.
  rewrite N.div_add by discriminate. lia.
Qed.

Lemma fmt_hex_fixed : forall fuel r, r < 16 ^ N.of_nat (S fuel) -> fmt_base_fuel fuel 16 r = hex_fixed (ndig r) r.
Proof.
  induction fuel as [|fuel IH]; intros r Hr.
  - change (16 ^ N.of_nat 1) with 16 in Hr. rewrite ndig_small by exact Hr. reflexivity.
  - cbn [fmt_base_fuel]. destruct (r <? 16) eqn:E.
    + rewrite ndig_small by lia. cbn [hex_fixed app]. now rewrite N.mod_small by lia.
    + rewrite ndig_step by lia. cbn [hex_fixed]. f_equal. apply IH.
      rewrite (Nat2N.inj_succ (S fuel)), N.pow_succ_r' in Hr. apply N.div_lt_upper_bound; lia.
Qed.

Lemma ndig_bound : forall w r, (0 < w)%nat -> r < 16 ^ N.of_nat w -> (ndig r <= w)%nat.
Proof.
  induction w as [|w IH]; intros r Hw Hr; [lia|].
  destruct (r <? 16) eqn:E; [rewrite ndig_small by lia; lia|].
  rewrite ndig_step by lia.
  destruct w as [|w]; [change (16 ^ N.of_nat 1) with 16 in Hr; lia|].
  apply le_n_S, IH; [lia|].
  rewrite (Nat2N.inj_succ (S w)), N.pow_succ_r' in Hr. apply N.div_lt_upper_bound; lia.
Qed.

Lemma lt_pow16_ndig : forall n r, ndig r = n -> r < 16 ^ N.of_nat n.
Proof.
  induction n as [|n IH]; intros r H; [unfold ndig in H; discriminate|].
  destruct (r <? 16) eqn:E.
  - rewrite Nat2N.inj_succ, N.pow_succ_r'.
    assert (0 < 16 ^ N.of_nat n) by (apply N.neq_0_lt_0, N.pow_nonzero; discriminate). nia.
  - rewrite ndig_step in H by lia. injection H as H. apply IH in H.
    rewrite Nat2N.inj_succ, N.pow_succ_r'.
    pose proof (N.div_mod r 16 ltac:(discriminate)). pose proof (N.mod_lt r 16 ltac:(discriminate)). nia.
Qed.

Theorem go_hex_eq w r : (0 < w)%nat -> r < 16 ^ N.of_nat w -> go_hex_pad w r = hex_fixed w r.
Proof.
  intros Hw Hr. unfold go_hex_pad, fmt_base. fold (ndig r).
  pose proof (ndig_bound w r Hw Hr) as Hb.
  rewrite fmt_hex_fixed.
  - replace w with ((w - ndig r) + ndig r)%nat at 2 by lia.
    rewrite hex_fixed_pad; [reflexivity|]. now apply lt_pow16_ndig.
  - rewrite Nat2N.inj_succ, N2Nat.id, N.pow_succ_r'.
    assert (r < 2 ^ N.size r) by apply N.size_gt.
    assert (2 ^ N.size r <= 16 ^ N.size r) by (apply N.pow_le_mono_l; lia).
    assert (0 < 16 ^ N.size r) by (apply N.neq_0_lt_0, N.pow_nonzero; discriminate). nia.
Qed.

(* ---------- parse_escape on what the encoder writes ---------- *)
Lemma pe_quote t : parse_escape x22 t = EscOk [x22] t. Proof. reflexivity. Qed.
Lemma pe_bslash t : parse_escape x5c t = EscOk [x5c] t. Proof. reflexivity. Qed.
Lemma pe_n t : parse_escape x6e t = EscOk [x0a] t. Proof. reflexivity. Qed.
Lemma pe_r t : parse_escape x72 t = EscOk [x0d] t. Proof. reflexivity. Qed.
Lemma pe_t t : parse_escape x74 t = EscOk [x09] t. Proof. reflexivity. Qed.

Lemma pe_x_unfold t1 :
  parse_escape x78 t1 =
  let n := count_pref is_hexd 2 t1 in
  match parse_uint 16 (firstn n t1) with
  | Some v => if v <? 256 then EscOk [n2b v] (skipn n t1) else EscErr SSyntax
  | None => EscErr SSyntax
  end.
Proof. reflexivity. Qed.

Lemma pe_x v t : v < 256 -> parse_escape x78 (hex_fixed 2 v ++ t) = EscOk [n2b v] t.
Proof.
  intros Hv. rewrite pe_x_unfold. cbv zeta.
  assert (Hc : count_pref is_hexd 2 (hex_fixed 2 v ++ t) = 2%nat).
  { cbn [hex_fixed app count_pref].
    rewrite !is_hexd_hexdig by (apply N.mod_lt; discriminate). reflexivity. }
  rewrite Hc, firstn_app_exact, skipn_app_exact by apply hex_fixed_length.
  rewrite parse_uint_hex_fixed by (try lia; exact Hv).
  replace (v <? 256) with true by lia. reflexivity.
Qed.

Lemma pe_u_unfold t1 :
  parse_escape x75 t1 =
  if Nat.ltb (length t1) 4 then EscErr SEof
  else match parse_uint 16 (firstn 4 t1) with
       | None => EscErr SSyntax
       | Some v =>
         if max_rune <? v then EscErr SSyntax
         else
           let t2 := skipn 4 t1 in
           if is_surrogate v then
             if Nat.ltb (length t2) 6 then EscErr SEof
             else match t2 with
                  | b0 :: b1 :: t3 =>
                    match parse_uint 16 (firstn 4 t3) with
                    | Some v2 =>
                        let r := decode_utf16 v v2 in
                        if negb (b2n b0 =? 92) || negb (b2n b1 =? 117) || (r =? rune_error)
                        then EscErr SSyntax
                        else EscOk (encode_rune r) (skipn 4 t3)
                    | None => EscErr SSyntax
                    end
                  | _ => EscErr SEof
                  end
           else EscOk (encode_rune v) t2
       end.
Proof. reflexivity. Qed.

Lemma pe_U_unfold t1 :
  parse_escape x55 t1 =
  if Nat.ltb (length t1) 8 then EscErr SEof
  else match parse_uint 16 (firstn 8 t1) with
       | None => EscErr SSyntax
       | Some v =>
         if max_rune <? v then EscErr SSyntax
         else
           let t2 := skipn 8 t1 in
           if is_surrogate v then
             if Nat.ltb (length t2) 6 then EscErr SEof
             else match t2 with
                  | b0 :: b1 :: t3 =>
                    match parse_uint 16 (firstn 4 t3) with
                    | Some v2 =>
                        let r := decode_utf16 v v2 in
                        if negb (b2n b0 =? 92) || negb (b2n b1 =? 117) || (r =? rune_error)
                        then EscErr SSyntax
                        else EscOk (encode_rune r) (skipn 4 t3)
                    | None => EscErr SSyntax
                    end
                  | _ => EscErr SEof
                  end
           else EscOk (encode_rune v) t2
       end.
Proof. reflexivity. Qed.

Lemma pe_u v t : v < 65536 -> is_surrogate v = false ->
  parse_escape x75 (hex_fixed 4 v ++ t) = EscOk (encode_rune v) t.
Proof.
  intros Hv Hs. rewrite pe_u_unfold.
  replace (Nat.ltb (length (hex_fixed 4 v ++ t)) 4) with false
    by (rewrite app_length, hex_fixed_length; symmetry; apply Nat.ltb_ge; lia).
  rewrite firstn_app_exact, skipn_app_exact by apply hex_fixed_length.
  rewrite parse_uint_hex_fixed by (try lia; exact Hv).
  unfold max_rune. replace (1114111 <? v) with false by lia.
  cbv zeta. rewrite Hs. reflexivity.
Qed.

Lemma pe_U v t : v <= max_rune -> is_surrogate v = false ->
  parse_escape x55 (hex_fixed 8 v ++ t) = EscOk (encode_rune v) t.
Proof.
  intros Hv Hs. rewrite pe_U_unfold.
  replace (Nat.ltb (length (hex_fixed 8 v ++ t)) 8) with false
    by (rewrite app_length, hex_fixed_length; symmetry; apply Nat.ltb_ge; lia).
  rewrite firstn_app_exact, skipn_app_exact by apply hex_fixed_length.
  unfold max_rune in *.
  rewrite parse_uint_hex_fixed by (try lia; change (16 ^ N.of_nat 8) with 4294967296; lia).
  replace (1114111 <? v) with false by lia.
  cbv zeta. rewrite Hs. reflexivity.
Qed.

(* ---------- one iteration of the parser ---------- *)
Lemma parse_loop_S f q inp : inp <> [] ->
  parse_loop (S f) q inp =
  match dec_step_of q inp with
  | DErr e => SErr e
  | DClose rest => SOk ([], rest)
  | DOut out rest => sprepend out (parse_loop f q rest)
  | DRaw n => sprepend (firstn n inp) (parse_loop f q (skipn n inp))
  end.
Proof. destruct inp; [congruence|reflexivity]. Qed.

Lemma parse_loop_run_S f q inp : inp <> [] ->
  parse_loop_run (S f) q inp =
  match dec_step_of q inp with
  | DErr e => SErr e
  | DClose rest => SOk ([], rest)
  | DOut out rest => sprepend out (parse_loop_run f q rest)
  | DRaw n => let i := index_need_escape (skipn n inp) in
              sprepend (firstn (n + i) inp) (parse_loop_run f q (skipn (n + i) inp))
  end.
Proof. destruct inp; [congruence|reflexivity]. Qed.

Lemma dec_step_bslash q c t1 : b2n q <> 92 ->
  dec_step_of q (x5c :: c :: t1) =
  match parse_escape c t1 with EscOk out rest => DOut out rest | EscErr e => DErr e end.
Proof.
  intros Hq. unfold dec_step_of.
  change (decode_rune (x5c :: c :: t1)) with (92, 1%nat).
  change (rune_invalid (92, 1%nat)) with false. cbn [fst snd].
  change ((92 =? 0) || (92 =? 10)) with false.
  replace (92 =? b2n q) with false by lia. reflexivity.
Qed.

Lemma dec_step_close q t : dec_step_of q (q :: t) = 
  if rune_invalid (decode_rune (q :: t)) then DErr SSyntax
  else if (fst (decode_rune (q :: t)) =? 0) || (fst (decode_rune (q :: t)) =? 10) then DErr SSyntax
  else if fst (decode_rune (q :: t)) =? b2n q then DClose t else
   (if fst (decode_rune (q :: t)) =? 92 then
    match q :: t with
    | _ :: c :: t1 =>
        match parse_escape c t1 with
        | EscOk out rest => DOut out rest
        | EscErr e => DErr e
        end
    | _ => DErr SEof
    end
  else DRaw (snd (decode_rune (q :: t)))).
Proof. reflexivity. Qed.

Lemma sprepend_sprepend a b r : sprepend a (sprepend b r) = sprepend (a ++ b) r.
Proof. destruct r as [[o rest]|e]; cbn [sprepend]; [now rewrite app_assoc|reflexivity]. Qed.

(* ---------- one iteration of the encoder ---------- *)
Definition enc_chunk (ascii : bool) (bs : list byte) : list byte * nat :=
  match enc_step_of ascii bs with
  | EEsc o n => (o, n)
  | ERaw n => (firstn n bs, n)
  end.

Lemma enc_loop_S f ascii bs : bs <> [] ->
  enc_loop (S f) ascii bs =
  fst (enc_chunk ascii bs) ++ enc_loop f ascii (skipn (snd (enc_chunk ascii bs)) bs).
Proof.
  intros H. destruct bs; [congruence|]. unfold enc_chunk. cbn [enc_loop].
  destruct (enc_step_of ascii (b :: bs)); reflexivity.
Qed.

Lemma enc_chunk_n ascii bs : snd (enc_chunk ascii bs) = snd (decode_rune bs).
Proof.
  unfold enc_chunk, enc_step_of.
  repeat match goal with |- context [if ?c then _ else _] => destruct c end; reflexivity.
Qed.

Lemma n2b_of_b2n_eq b v : b2n b = v -> b = n2b v.
Proof. intros <-. symmetry. apply n2b_b2n. Qed.

(* the heart: whatever one encoder iteration writes, one parser iteration
   reads back as exactly the bytes that iteration consumed *)
Lemma chunk_parse ascii b0 t0 :
  let bs := b0 :: t0 in
  let ch := fst (enc_chunk ascii bs) in
  let n := snd (enc_chunk ascii bs) in
  (1 <= n <= length bs)%nat /\ (1 <= length ch)%nat /\
  (ascii = true -> Forall printable ch) /\
  forall f t, parse_loop (S f) x22 (ch ++ t) = sprepend (firstn n bs) (parse_loop f x22 t).
Proof.
  cbv zeta. unfold enc_chunk, enc_step_of.
  destruct (decode_rune (b0 :: t0)) as [r0 n] eqn:Hd.
  destruct (rune_invalid (r0, n)) eqn:Hi; cbn [fst snd].
  - (* invalid UTF-8: \xNN of the byte *)
    destruct (decode_rune_invalid _ _ _ _ Hd Hi) as [-> Hb]. pose proof (b2n_lt b0) as Hlt.
    cbn [orb fst snd length]. unfold esc_simple.
    replace (b2n b0 =? 34) with false by lia. replace (b2n b0 =? 92) with false by lia.
    replace (b2n b0 =? 10) with false by lia. replace (b2n b0 =? 13) with false by lia.
    replace (b2n b0 =? 9) with false by lia.
    rewrite go_hex_eq by (try lia; change (16 ^ N.of_nat 2) with 256; lia).
    split; [lia|]. split; [lia|]. split.
    + intros _. constructor; [vm_compute; split; discriminate|].
      constructor; [vm_compute; split; discriminate|]. apply hex_fixed_printable.
    + intros f t. cbn [app]. rewrite parse_loop_S by discriminate.
      rewrite dec_step_bslash by (vm_compute; discriminate).
      rewrite pe_x by lia. cbn [firstn]. now rewrite n2b_b2n.
  - (* a valid rune *)
    pose proof (decode_rune_ok (b0 :: t0) r0 n ltac:(discriminate) Hd Hi) as [Hlen Hav Hmax Hsur Henc Hasc Hhead Hpre].
    destruct (Hhead b0 t0 eq_refl) as [Hh1 Hh2].
    cbn [orb].
    destruct ((r0 <? 32) || (r0 =? 34) || (r0 =? 92) || (r0 =? 127)) eqn:EA.
    + (* control character, quote or backslash *)
      assert (Hr : r0 < 128) by lia. assert (n = 1%nat) by (apply Hasc; exact Hr). subst n.
      specialize (Hh1 Hr). cbn [fst snd length].
      split; [lia|]. split; [lia|]. unfold esc_simple.
      destruct (r0 =? 34) eqn:E34; [|destruct (r0 =? 92) eqn:E92; [|destruct (r0 =? 10) eqn:E10;
        [|destruct (r0 =? 13) eqn:E13; [|destruct (r0 =? 9) eqn:E9]]]].
      * split; [intros _; repeat constructor; vm_compute; discriminate|].
        intros f t. cbn [app]. rewrite parse_loop_S by discriminate.
        rewrite dec_step_bslash by (vm_compute; discriminate). rewrite pe_quote.
        cbn [firstn]. rewrite (n2b_of_b2n_eq b0 34) by lia. reflexivity.
      * split; [intros _; repeat constructor; vm_compute; discriminate|].
        intros f t. cbn [app]. rewrite parse_loop_S by discriminate.
        rewrite dec_step_bslash by (vm_compute; discriminate). rewrite pe_bslash.
        cbn [firstn]. rewrite (n2b_of_b2n_eq b0 92) by lia. reflexivity.
      * split; [intros _; repeat constructor; vm_compute; discriminate|].
        intros f t. cbn [app]. rewrite parse_loop_S by discriminate.
        rewrite dec_step_bslash by (vm_compute; discriminate). rewrite pe_n.
        cbn [firstn]. rewrite (n2b_of_b2n_eq b0 10) by lia. reflexivity.
      * split; [intros _; repeat constructor; vm_compute; discriminate|].
        intros f t. cbn [app]. rewrite parse_loop_S by discriminate.
        rewrite dec_step_bslash by (vm_compute; discriminate). rewrite pe_r.
        cbn [firstn]. rewrite (n2b_of_b2n_eq b0 13) by lia. reflexivity.
      * split; [intros _; repeat constructor; vm_compute; discriminate|].
        intros f t. cbn [app]. rewrite parse_loop_S by discriminate.
        rewrite dec_step_bslash by (vm_compute; discriminate). rewrite pe_t.
        cbn [firstn]. rewrite (n2b_of_b2n_eq b0 9) by lia. reflexivity.
      * rewrite go_hex_eq by (try lia; change (16 ^ N.of_nat 2) with 256; lia).
        split.
        { intros _. constructor; [vm_compute; split; discriminate|].
          constructor; [vm_compute; split; discriminate|]. apply hex_fixed_printable. }
        intros f t. cbn [app]. rewrite parse_loop_S by discriminate.
        rewrite dec_step_bslash by (vm_compute; discriminate).
        rewrite pe_x by lia. cbn [firstn]. rewrite Hh1, n2b_b2n. reflexivity.
    + destruct ((128 <=? r0) && (ascii || (r0 <=? 159))) eqn:EB; cbn [fst snd].
      * (* \u / \U *)
        assert (Hr : 128 <= r0) by lia.
        split; [lia|]. unfold esc_unicode.
        destruct (r0 <=? 65535) eqn:E16.
        -- rewrite go_hex_eq by (try lia; change (16 ^ N.of_nat 4) with 65536; lia).
           split; [cbn [length]; lia|]. split.
           { intros _. constructor; [vm_compute; split; discriminate|].
             constructor; [vm_compute; split; discriminate|]. apply hex_fixed_printable. }
           intros f t. cbn [app]. rewrite parse_loop_S by discriminate.
           rewrite dec_step_bslash by (vm_compute; discriminate).
           rewrite pe_u by (lia || assumption).
           rewrite (encode_decode_rune (b0 :: t0) r0 n) by (discriminate || assumption). reflexivity.
        -- rewrite go_hex_eq by (try lia; change (16 ^ N.of_nat 8) with 4294967296; unfold max_rune in Hmax; lia).
           split; [cbn [length]; lia|]. split.
           { intros _. constructor; [vm_compute; split; discriminate|].
             constructor; [vm_compute; split; discriminate|]. apply hex_fixed_printable. }
           intros f t. cbn [app]. rewrite parse_loop_S by discriminate.
           rewrite dec_step_bslash by (vm_compute; discriminate).
           rewrite pe_U by assumption.
           rewrite (encode_decode_rune (b0 :: t0) r0 n) by (discriminate || assumption). reflexivity.
      * (* copied as is *)
        assert (Hl : length (firstn n (b0 :: t0)) = n) by (apply firstn_length_le; exact Hav).
        split; [lia|]. split; [lia|]. split.
        { intros ->. assert (Hr : r0 < 128) by lia. assert (n = 1%nat) by (apply Hasc; exact Hr). subst n.
          cbn [firstn]. constructor; [|constructor]. unfold printable. rewrite <- (Hh1 Hr). lia. }
        intros f t. rewrite parse_loop_S.
        2:{ destruct n; [lia|]. cbn [firstn app]. discriminate. }
        unfold dec_step_of. rewrite Hpre. rewrite Hi. cbn [fst snd].
        replace ((r0 =? 0) || (r0 =? 10)) with false by lia.
        change (b2n x22) with 34.
        replace (r0 =? 34) with false by lia. replace (r0 =? 92) with false by lia.
        rewrite firstn_app_exact, skipn_app_exact by exact Hl. reflexivity.
Qed.

(* ---------- the rune-at-a-time loops ---------- *)
Lemma enc_loop_nil f ascii : enc_loop f ascii [] = [].
Proof. destruct f; reflexivity. Qed.

Lemma parse_close fp tail : (0 < fp)%nat -> parse_loop fp x22 (x22 :: tail) = SOk ([], tail).
Proof. intros H. destruct fp; [lia|reflexivity]. Qed.

Lemma enc_parse_loop : forall fe ascii bs, (length bs <= fe)%nat ->
  forall fp tail, (length (enc_loop fe ascii bs) < fp)%nat ->
  parse_loop fp x22 (enc_loop fe ascii bs ++ x22 :: tail) = SOk (bs, tail).
Proof.
  induction fe as [|fe IH]; intros ascii bs Hl fp tail Hf.
  - destruct bs; [|cbn in Hl; lia]. cbn [enc_loop app]. apply parse_close. lia.
  - destruct bs as [|b0 t0]; [cbn [enc_loop app]; apply parse_close; lia|].
    rewrite enc_loop_S in * by discriminate.
    destruct (chunk_parse ascii b0 t0) as (Hn & Hc & _ & Hp).
    set (ch := fst (enc_chunk ascii (b0 :: t0))) in *.
    set (n := snd (enc_chunk ascii (b0 :: t0))) in *.
    rewrite app_length in Hf.
    destruct fp as [|fp]; [lia|].
    rewrite <- app_assoc, Hp, IH.
    + cbn [sprepend]. now rewrite firstn_skipn.
    + rewrite skipn_length. cbn [length] in *. lia.
    + lia.
Qed.

Theorem string_roundtrip_simple ascii bs tail :
  parse_string_simple (append_string_simple ascii bs ++ tail) = SOk (bs, tail).
Proof.
  unfold append_string_simple, parse_string_simple. cbn [app].
  rewrite <- app_assoc. cbn [app].
  apply enc_parse_loop; [lia|]. rewrite app_length. cbn [length]. lia.
Qed.

Lemma enc_loop_printable : forall fe bs, Forall printable (enc_loop fe true bs).
Proof.
  induction fe as [|fe IH]; intros bs; [destruct bs; constructor|].
  destruct bs as [|b0 t0]; [constructor|].
  rewrite enc_loop_S by discriminate.
  destruct (chunk_parse true b0 t0) as (_ & _ & Hp & _).
  apply Forall_app; split; [now apply Hp|apply IH].
Qed.

(* ---------- the fast path: appendString ---------- *)
Lemma plain_bounds b : need_escape b = false ->
  32 <= b2n b < 127 /\ b2n b <> 34 /\ b2n b <> 39 /\ b2n b <> 92.
Proof. unfold need_escape. cbv zeta. lia. Qed.

Lemma enc_step_plain ascii b r : need_escape b = false -> enc_step_of ascii (b :: r) = ERaw 1.
Proof.
  intros H. apply plain_bounds in H. unfold enc_step_of.
  rewrite decode_rune_ascii by lia. unfold rune_invalid, rune_error. cbn [fst snd].
  replace (b2n b =? 65533) with false by lia. cbn [andb orb].
  replace (b2n b <? 32) with false by lia. replace (b2n b =? 34) with false by lia.
  replace (b2n b =? 92) with false by lia. replace (b2n b =? 127) with false by lia.
  replace (128 <=? b2n b) with false by lia. reflexivity.
Qed.

Lemma enc_loop_fuel : forall f f' ascii bs, (length bs <= f)%nat -> (length bs <= f')%nat ->
  enc_loop f ascii bs = enc_loop f' ascii bs.
Proof.
  induction f as [|f IH]; intros f' ascii bs H1 H2.
  - destruct bs; [now rewrite !enc_loop_nil|cbn in H1; lia].
  - destruct bs as [|b0 t0]; [now rewrite !enc_loop_nil|].
    destruct f' as [|f']; [cbn in H2; lia|].
    rewrite !enc_loop_S by discriminate. f_equal.
    pose proof (decode_rune_nonempty_pos b0 t0). rewrite <- enc_chunk_n with (ascii := ascii) in H.
    apply IH; rewrite skipn_length; cbn [length] in *; lia.
Qed.

Lemma enc_loop_plain_run ascii : forall l f, (length l <= f)%nat ->
  enc_loop f ascii l =
  firstn (index_need_escape l) l ++ enc_loop f ascii (skipn (index_need_escape l) l).
Proof.
  induction l as [|b r IH]; intros f Hf; [reflexivity|].
  cbn [index_need_escape]. destruct (need_escape b) eqn:E; [reflexivity|].
  destruct f as [|f]; [cbn in Hf; lia|].
  cbn [firstn skipn app].
  rewrite enc_loop_S by discriminate. unfold enc_chunk. rewrite enc_step_plain by assumption.
  cbn [fst snd firstn skipn app]. f_equal.
  cbn [length] in Hf. rewrite IH by lia. f_equal.
  apply enc_loop_fuel; rewrite skipn_length; lia.
Qed.

Lemma enc_loop_run_S f ascii bs : bs <> [] ->
  enc_loop_run (S f) ascii bs =
  match enc_step_of ascii bs with
  | EEsc out n => out ++ enc_loop_run f ascii (skipn n bs)
  | ERaw n => let i := index_need_escape (skipn n bs) in
              firstn (n + i) bs ++ enc_loop_run f ascii (skipn (n + i) bs)
  end.
Proof. destruct bs; [congruence|reflexivity]. Qed.

Lemma enc_loop_run_eq : forall f ascii bs, (length bs <= f)%nat ->
  enc_loop_run f ascii bs = enc_loop f ascii bs.
Proof.
  induction f as [|f IH]; intros ascii bs Hf.
  - destruct bs; [reflexivity|cbn in Hf; lia].
  - destruct bs as [|b0 t0]; [reflexivity|].
    rewrite enc_loop_run_S, enc_loop_S by discriminate.
    pose proof (decode_rune_nonempty_pos b0 t0) as Hn. rewrite <- enc_chunk_n with (ascii := ascii) in Hn.
    unfold enc_chunk in *. destruct (enc_step_of ascii (b0 :: t0)) as [out n|n]; cbn [fst snd] in *.
    + f_equal. apply IH. rewrite skipn_length. cbn [length] in *. lia.
    + cbv zeta. rewrite IH by (rewrite skipn_length; cbn [length] in *; lia).
      rewrite firstn_add, skipn_add, <- app_assoc. f_equal.
      symmetry. apply enc_loop_plain_run. rewrite skipn_length. cbn [length] in *. lia.
Qed.

Theorem append_string_eq ascii bs : append_string ascii bs = append_string_simple ascii bs.
Proof.
  unfold append_string, append_string_simple. cbv zeta. f_equal.
  rewrite app_assoc. f_equal.
  rewrite enc_loop_run_eq by (rewrite skipn_length; lia).
  symmetry. apply enc_loop_plain_run. lia.
Qed.

(* ---------- the fast path: parseString ---------- *)
Lemma dec_step_plain q b r : is_quote q = true -> need_escape b = false -> dec_step_of q (b :: r) = DRaw 1.
Proof.
  intros Hq H. apply plain_bounds in H. unfold is_quote in Hq. unfold dec_step_of.
  rewrite decode_rune_ascii by lia. unfold rune_invalid, rune_error. cbn [fst snd].
  replace (b2n b =? 65533) with false by lia. cbn [andb].
  replace ((b2n b =? 0) || (b2n b =? 10)) with false by lia.
  replace (b2n b =? b2n q) with false by lia. replace (b2n b =? 92) with false by lia. reflexivity.
Qed.

Lemma sprepend_ok p r res : sprepend p r = SOk res ->
  exists o, r = SOk (o, snd res) /\ fst res = p ++ o.
Proof.
  destruct r as [[o rest]|e]; cbn [sprepend]; [|discriminate].
  intros [= <-]. exists o. split; reflexivity.
Qed.

(* a successful rune-at-a-time parse, cut after the leading run of plain bytes *)
Lemma parse_loop_plain_inv q : is_quote q = true -> forall l f res,
  parse_loop f q l = SOk res ->
  exists o, fst res = firstn (index_need_escape l) l ++ o /\
            parse_loop (f - index_need_escape l) q (skipn (index_need_escape l) l) = SOk (o, snd res).
Proof.
  intros Hq. induction l as [|b r IH]; intros f res H.
  - exists (fst res). cbn [index_need_escape firstn skipn app]. rewrite Nat.sub_0_r. split; [reflexivity|].
    rewrite H. now destruct res.
  - cbn [index_need_escape]. destruct (need_escape b) eqn:E.
    + exists (fst res). cbn [firstn skipn app]. rewrite Nat.sub_0_r. split; [reflexivity|].
      rewrite H. now destruct res.
    + destruct f as [|f]; [discriminate|].
      rewrite parse_loop_S in H by discriminate. rewrite dec_step_plain in H by assumption.
      cbn [firstn skipn] in H. apply sprepend_ok in H. destruct H as (o & Hr & Ho).
      apply IH in Hr. cbn [fst snd] in Hr. destruct Hr as (o' & Ho' & Hr').
      exists o'. cbn [firstn skipn Nat.sub]. split; [|exact Hr'].
      rewrite Ho, Ho'. reflexivity.
Qed.

Lemma parse_loop_run_of_simple q : is_quote q = true -> forall f f0 inp res f',
  (f0 <= f)%nat -> (f0 <= f')%nat ->
  parse_loop f0 q inp = SOk res -> parse_loop_run f' q inp = SOk res.
Proof.
  intros Hq. induction f as [|f IH]; intros f0 inp res f' H0 H1 H.
  - assert (f0 = 0%nat) by lia. subst. destruct inp; discriminate.
  - destruct inp as [|b0 t0]; [destruct f0; discriminate|].
    destruct f0 as [|f0]; [discriminate|]. destruct f' as [|f']; [lia|].
    rewrite parse_loop_S in H by discriminate. rewrite parse_loop_run_S by discriminate.
    destruct (dec_step_of q (b0 :: t0)) as [e|rest|out rest|n]; [discriminate|exact H| |].
    + apply sprepend_ok in H. destruct H as (o & Hr & Ho).
      rewrite (IH f0 rest (o, snd res) f') by (lia || assumption).
      cbn [sprepend]. rewrite <- Ho. now destruct res.
    + cbv zeta. apply sprepend_ok in H. destruct H as (o & Hr & Ho).
      apply (parse_loop_plain_inv q Hq) in Hr. cbn [fst snd] in Hr. destruct Hr as (o' & Ho' & Hr').
      set (i := index_need_escape (skipn n (b0 :: t0))) in *.
      rewrite skipn_add.
      rewrite (IH (f0 - i)%nat _ (o', snd res) f') by (lia || assumption).
      cbn [sprepend]. rewrite firstn_add, <- app_assoc, <- Ho', <- Ho. now destruct res.
Qed.

Theorem parse_string_of_simple inp res :
  (exists q t, inp = q :: t /\ is_quote q = true) ->
  parse_string_simple inp = SOk res -> parse_string inp = SOk res.
Proof.
  intros (q & t & -> & Hq) H. unfold parse_string_simple in H. unfold parse_string. cbv zeta.
  apply (parse_loop_plain_inv q Hq) in H. destruct H as (o & Ho & Hr).
  rewrite (parse_loop_run_of_simple q Hq (length t) _ _ _ (length t) (Nat.le_sub_l _ _) (Nat.le_sub_l _ _) Hr).
  cbn [sprepend]. rewrite <- Ho. now destruct res.
Qed.

(* ---------- C25 ---------- *)
Theorem text_string_roundtrip ascii bs tail :
  parse_string (append_string ascii bs ++ tail) = SOk (bs, tail).
Proof.
  rewrite append_string_eq. apply parse_string_of_simple.
  - unfold append_string_simple. cbn [app]. eexists _, _. split; [reflexivity|reflexivity].
  - apply string_roundtrip_simple.
Qed.

Theorem text_unmarshal_string_roundtrip ascii bs :
  unmarshal_string (append_string ascii bs) = SOk bs.
Proof.
  unfold unmarshal_string. rewrite <- (app_nil_r (append_string ascii bs)).
  now rewrite text_string_roundtrip.
Qed.

Theorem emit_ascii_printable bs : Forall (fun b => 32 <= b2n b <= 126) (append_string true bs).
Proof.
  rewrite append_string_eq. unfold append_string_simple.
  constructor; [vm_compute; split; discriminate|].
  apply Forall_app; split; [apply enc_loop_printable|].
  constructor; [vm_compute; split; discriminate|constructor].
Qed.

(* ---------- the Decoder's string token (parseStringValue) ---------- *)
Definition no_quote_head (s : list byte) : Prop :=
  match s with [] => True | b :: _ => is_quote b = false end.

Lemma parse_string_value_stop f s : no_quote_head s -> parse_string_value f s = SOk ([], s).
Proof. destruct s as [|b r]; destruct f; cbn [parse_string_value no_quote_head]; try reflexivity; intros ->; reflexivity. Qed.

Lemma parse_string_value_quote f t :
  parse_string_value (S f) (x22 :: t) =
  match parse_string (x22 :: t) with
  | SErr e => SErr e
  | SOk (o, rest) => sprepend o (parse_string_value f (consume_ws false rest))
  end.
Proof. reflexivity. Qed.

(* a literal written by appendString, followed by anything that (after
   whitespace and comments) does not start another literal, is read back as one
   string token with exactly the original bytes *)
Theorem text_string_value_roundtrip ascii bs rest f :
  no_quote_head (consume_ws false rest) ->
  parse_string_value (S f) (append_string ascii bs ++ rest) = SOk (bs, consume_ws false rest).
Proof.
  intros H.
  assert (Hq : exists t, append_string ascii bs ++ rest = x22 :: t) by (unfold append_string; cbn [app]; eauto).
  destruct Hq as (t & Et). rewrite Et, parse_string_value_quote, <- Et.
  rewrite text_string_roundtrip, parse_string_value_stop by exact H.
  cbn [sprepend]. now rewrite app_nil_r.
Qed.

(* adjacent literals are concatenated *)
Theorem text_string_value_concat a1 bs1 a2 bs2 ws rest f :
  consume_ws false (ws ++ append_string a2 bs2 ++ rest) = append_string a2 bs2 ++ rest ->
  no_quote_head (consume_ws false rest) ->
  parse_string_value (S (S f)) (append_string a1 bs1 ++ ws ++ append_string a2 bs2 ++ rest)
  = SOk (bs1 ++ bs2, consume_ws false rest).
Proof.
  intros Hws H.
  assert (Hq : exists t, append_string a1 bs1 ++ ws ++ append_string a2 bs2 ++ rest = x22 :: t)
    by (unfold append_string at 1; cbn [app]; eauto).
  destruct Hq as (t & Et). rewrite Et, parse_string_value_quote, <- Et.
  rewrite text_string_roundtrip, Hws.
  rewrite (text_string_value_roundtrip a2 bs2 rest f H). reflexivity.
Qed.

(* ---------- the parser is total: the fuel never runs out ---------- *)
Local Opaque skipn firstn.
Lemma parse_escape_len c t1 out rest : parse_escape c t1 = EscOk out rest -> (length rest <= length t1)%nat.
Proof.
  unfold parse_escape. cbv zeta. cbn [count_pref]. destruct (is_octd c) eqn:Eo;
  repeat match goal with
         | |- context [if ?c then _ else _] => destruct c
         | |- context [match parse_uint ?b ?l with _ => _ end] => destruct (parse_uint b l)
         | |- context [match skipn ?k ?l with _ => _ end] => let E := fresh "E" in destruct (skipn k l) as [|? [|? ?]] eqn:E
         end;
    intros H; try discriminate H; injection H as _ Hr; rewrite <- Hr; clear Hr;
    repeat match goal with
           | E : skipn _ _ = _ |- _ => apply (f_equal (@length byte)) in E; rewrite skipn_length in E; cbn [length] in E
           end;
    rewrite ?skipn_length; cbn [length]; lia.
Qed.
Local Transparent skipn firstn.

Lemma dec_step_progress q b0 t0 :
  match dec_step_of q (b0 :: t0) with
  | DOut _ rest => (length rest < length (b0 :: t0))%nat
  | DRaw n => (1 <= n)%nat
  | _ => True
  end.
Proof.
  unfold dec_step_of.
  repeat match goal with |- context [if ?c then _ else _] => destruct c end; try exact I.
  - destruct t0 as [|c t1]; [exact I|].
    destruct (parse_escape c t1) as [out rest|e] eqn:E; [|exact I].
    apply parse_escape_len in E. cbn [length]. lia.
  - apply decode_rune_nonempty_pos.
Qed.

Lemma parse_escape_err_not_fuel c t1 e : parse_escape c t1 = EscErr e -> e <> SFuel.
Proof.
  unfold parse_escape. cbv zeta.
  repeat match goal with
         | |- context [if ?c then _ else _] => destruct c
         | |- context [match parse_uint ?b ?l with _ => _ end] => destruct (parse_uint b l)
         | |- context [match skipn ?k ?l with _ => _ end] => destruct (skipn k l) as [|? [|? ?]]
         end; intros H; try discriminate H; injection H as <-; discriminate.
Qed.

Lemma dec_step_err_not_fuel q inp e : dec_step_of q inp = DErr e -> e <> SFuel.
Proof.
  unfold dec_step_of.
  repeat match goal with |- context [if ?c then _ else _] => destruct c end;
    try (intros H; try discriminate H; injection H as <-; discriminate).
  destruct inp as [|x [|c t1]]; try (intros H; injection H as <-; discriminate).
  destruct (parse_escape c t1) as [out rest|e0] eqn:E; [discriminate|].
  intros H; injection H as <-. eapply parse_escape_err_not_fuel; eauto.
Qed.

Lemma sprepend_not_fuel p r : r <> SErr SFuel -> sprepend p r <> SErr SFuel.
Proof. destruct r as [[o rest]|e]; cbn [sprepend]; congruence. Qed.

Lemma parse_loop_run_total q : forall f inp, (length inp <= f)%nat -> parse_loop_run f q inp <> SErr SFuel.
Proof.
  induction f as [|f IH]; intros inp Hl.
  - destruct inp; [discriminate|cbn in Hl; lia].
  - destruct inp as [|b0 t0]; [discriminate|].
    rewrite parse_loop_run_S by discriminate.
    pose proof (dec_step_progress q b0 t0) as Hp.
    destruct (dec_step_of q (b0 :: t0)) as [e|rest|out rest|n] eqn:Ed.
    + intros H. injection H as ->. exact (dec_step_err_not_fuel _ _ _ Ed eq_refl).
    + discriminate.
    + apply sprepend_not_fuel, IH. cbn [length] in *. lia.
    + cbv zeta. apply sprepend_not_fuel, IH. rewrite skipn_length. cbn [length] in *. lia.
Qed.

(* parseString / UnmarshalString never run out of fuel: on EVERY input the
   model returns Ok, unexpected-EOF or a syntax error *)
Theorem parse_string_total inp : parse_string inp <> SErr SFuel.
Proof.
  unfold parse_string. destruct inp as [|q t]; [discriminate|]. cbv zeta.
  apply sprepend_not_fuel, parse_loop_run_total. rewrite skipn_length. lia.
Qed.

Theorem unmarshal_string_total inp : unmarshal_string inp <> SErr SFuel.
Proof.
  unfold unmarshal_string. pose proof (parse_string_total inp).
  destruct (parse_string inp) as [[o r]|e]; congruence.
Qed.
