(* go_eq_spec for text/encode.go: the functions indexNeedEscapeInString and
   appendString, as translated to Gallina by srcmodel_textesc on every run
   (Gen/TextEscGo.v), equal the hand model of Text/TextStrModel.v
   (index_need_escape, append_string) for every byte string shorter than 2^63
   (Go's int); in particular they return neither Panic nor Fuel.  Each loop is
   first identified, by conversion ([reflexivity]), with a closed form below,
   so a change to the loops in encode.go breaks these proofs. *)
From Coq Require Import List Arith NArith ZArith Lia Bool.
From Coq Require Import ZifyBool ZifyNat ZifyN.
From PB Require Import Base.PBytes Base.GoInt Base.Utf8Model Base.Utf8P.
From PB Require Import Text.TextStrModel Text.TextStrP Text.TextEscGoSup.
From PB Require Import Gen.TextEscGo.
Ltac Zify.zify_post_hook ::= Z.div_mod_to_equations.
Import ListNotations.
Open Scope Z_scope.

(* byte strings as the translated code sees them *)
Definition zb (b : list byte) : list Z := map byte2z b.

Lemma zb_app a b : zb (a ++ b) = zb a ++ zb b.
Proof. apply map_app. Qed.
Lemma zb_length b : length (zb b) = length b.
Proof. apply map_length. Qed.
Lemma len_zb b : len (zb b) = Z.of_nat (length b).
Proof. unfold len. now rewrite zb_length. Qed.
Lemma zb_firstn n b : firstn n (zb b) = zb (firstn n b).
Proof. apply firstn_map. Qed.
Lemma zb_skipn n b : skipn n (zb b) = zb (skipn n b).
Proof. apply skipn_map. Qed.
Lemma z2byte_byte2z b : z2byte (byte2z b) = b.
Proof. unfold z2byte, byte2z. rewrite N2Z.id. apply n2b_b2n. Qed.
Lemma unzb b : map z2byte (zb b) = b.
Proof.
  unfold zb. rewrite map_map. induction b as [|x b IH]; [reflexivity|].
  cbn [map]. now rewrite z2byte_byte2z, IH.
Qed.
Lemma byte2z_range b : 0 <= byte2z b < 256.
Proof. unfold byte2z. pose proof (b2n_lt b). lia. Qed.

Lemma wrap_u8_id x : 0 <= x < 256 -> wrap_u8 x = x.
Proof. intros H. unfold wrap_u8. now apply Z.mod_small. Qed.
Lemma wrap_u32_id x : 0 <= x < 4294967296 -> wrap_u32 x = x.
Proof. intros H. unfold wrap_u32. now apply Z.mod_small. Qed.
Lemma wrap_u64_id x : 0 <= x < 18446744073709551616 -> wrap_u64 x = x.
Proof. intros H. unfold wrap_u64. now apply Z.mod_small. Qed.
Lemma wrap_i32_id x : -2147483648 <= x < 2147483648 -> wrap_i32 x = x.
Proof. intros H. unfold wrap_i32. rewrite Z.mod_small; lia. Qed.
Lemma wrap_i64_id x : -9223372036854775808 <= x < 9223372036854775808 -> wrap_i64 x = x.
Proof. intros H. unfold wrap_i64. rewrite Z.mod_small; lia. Qed.

Lemma index_zb p b r : index (zb (p ++ b :: r)) (Z.of_nat (length p)) = Val (byte2z b).
Proof.
  unfold index. rewrite len_zb, app_length. cbn [length].
  replace ((Z.of_nat (length p) <? 0) || (Z.of_nat (length p + S (length r)) <=? Z.of_nat (length p))) with false by lia.
  rewrite Nat2Z.id. unfold zb. rewrite map_app. cbn [map].
  rewrite app_nth2 by (rewrite map_length; lia). rewrite map_length, Nat.sub_diag. reflexivity.
Qed.

Lemma slice_lo_zb b n : (n <= length b)%nat -> slice_lo (zb b) (Z.of_nat n) = Val (zb (skipn n b)).
Proof.
  intros H. unfold slice_lo. rewrite len_zb.
  replace ((Z.of_nat n <? 0) || (Z.of_nat (length b) <? Z.of_nat n)) with false by lia.
  now rewrite Nat2Z.id, zb_skipn.
Qed.
Lemma slice_hi_zb b n : (n <= length b)%nat -> slice_hi (zb b) (Z.of_nat n) = Val (zb (firstn n b)).
Proof.
  intros H. unfold slice_hi. rewrite len_zb.
  replace ((Z.of_nat n <? 0) || (Z.of_nat (length b) <? Z.of_nat n)) with false by lia.
  now rewrite Nat2Z.id, zb_firstn.
Qed.

(* ------------------------------------------------------------------ *)
(* indexNeedEscapeInString                                             *)
Definition idx_loop (v_s : list Z) :=
  fix loop1 (lfuel : nat) (v_i : Z) {struct lfuel} : outcome Z :=
    match lfuel with
    | O => Fuel
    | S lfuel' =>
      if v_i <? len v_s then
        bind (index v_s v_i) (fun t1 =>
        if (((((t1 <? 32) || (t1 =? 34)) || (t1 =? 39)) || (t1 =? 92)) || (127 <=? t1)) then Val v_i
        else loop1 lfuel' (wrap_i64 (v_i + 1)))
      else Val (len v_s)
    end.

Lemma idx_shape s : go_indexNeedEscapeInString s = idx_loop s (S (length s)) 0.
Proof. reflexivity. Qed.

Lemma need_escape_z b :
  (((((byte2z b <? 32) || (byte2z b =? 34)) || (byte2z b =? 39)) || (byte2z b =? 92)) || (127 <=? byte2z b))
  = need_escape b.
Proof. unfold need_escape, byte2z. cbv zeta. lia. Qed.

Lemma index_need_escape_le l : (index_need_escape l <= length l)%nat.
Proof. induction l as [|b r IH]; cbn [index_need_escape length]; [lia|]. destruct (need_escape b); lia. Qed.

Lemma idx_loop_S s lfuel i :
  idx_loop s (S lfuel) i =
  if i <? len s then
    bind (index s i) (fun t1 =>
    if (((((t1 <? 32) || (t1 =? 34)) || (t1 =? 39)) || (t1 =? 92)) || (127 <=? t1)) then Val i
    else idx_loop s lfuel (wrap_i64 (i + 1)))
  else Val (len s).
Proof. reflexivity. Qed.

Lemma idx_loop_spec bs : Z.of_nat (length bs) < 2^63 ->
  forall cur pre lfuel, bs = pre ++ cur -> (length cur < lfuel)%nat ->
  idx_loop (zb bs) lfuel (Z.of_nat (length pre)) = Val (Z.of_nat (length pre + index_need_escape cur)).
Proof.
  intros Hbs. change (2^63) with 9223372036854775808 in Hbs.
  induction cur as [|b r IH]; intros pre lfuel Hpre Hf; (destruct lfuel as [|lfuel]; [cbn [length] in Hf; lia|]);
    rewrite idx_loop_S, len_zb;
    assert (Hl : length bs = (length pre + length (A:=byte) ltac:(first [exact (b :: r)|exact (@nil byte)]))%nat)
      by (rewrite Hpre, app_length; reflexivity); cbn [length] in *.
  - replace (Z.of_nat (length pre) <? Z.of_nat (length bs)) with false by lia.
    cbn [index_need_escape]. f_equal. lia.
  - replace (Z.of_nat (length pre) <? Z.of_nat (length bs)) with true by lia.
    replace (index (zb bs) (Z.of_nat (length pre))) with (Val (byte2z b)) by (rewrite Hpre; symmetry; apply index_zb).
    cbn [bind]. rewrite need_escape_z. cbn [index_need_escape].
    destruct (need_escape b).
    + f_equal. lia.
    + rewrite wrap_i64_id by lia.
      replace (Z.of_nat (length pre) + 1) with (Z.of_nat (length (pre ++ [b]))) by (rewrite app_length; cbn [length]; lia).
      rewrite (IH (pre ++ [b]) lfuel) by (first [now rewrite Hpre, <- app_assoc | lia]).
      f_equal. rewrite app_length. cbn [length]. lia.
Qed.

Theorem go_indexNeedEscapeInString_spec bs : Z.of_nat (length bs) < 2^63 ->
  go_indexNeedEscapeInString (zb bs) = Val (Z.of_nat (index_need_escape bs)).
Proof.
  intros H. rewrite idx_shape, zb_length.
  exact (idx_loop_spec bs H bs [] (S (length bs)) eq_refl ltac:(lia)).
Qed.

(* ------------------------------------------------------------------ *)
(* the zero padding  "00"[1+(bits.Len32(uint32(r))-1)/4:]              *)
Lemma bits_Len32_size r : bits_Len32 (Z.of_N r) = Z.of_N (N.size r).
Proof.
  unfold bits_Len32. destruct r as [|p]; [reflexivity|].
  replace (Z.of_N (N.pos p) =? 0) with false by lia.
  destruct p; cbn [Z.of_N Z.log2 N.size Pos.size]; lia.
Qed.

Lemma skipn_repeat {A} (a : A) : forall k w, skipn k (repeat a w) = repeat a (w - k).
Proof.
  induction k as [|k IH]; intros w; [now rewrite Nat.sub_0_r|].
  destruct w as [|w]; [reflexivity|]. cbn [repeat skipn]. rewrite IH. reflexivity.
Qed.
Lemma zb_repeat b k : zb (repeat b k) = repeat (byte2z b) k.
Proof. induction k as [|k IH]; [reflexivity|]. cbn [repeat zb map]. f_equal. exact IH. Qed.

Definition pad_idx (r : Z) : Z :=
  wrap_i64 (1 + wrap_i64 (Z.quot (wrap_i64 (bits_Len32 (wrap_u32 r) - 1)) 4)).

Lemma size_le_32 r : (r < 4294967296)%N -> (N.size r <= 32)%N.
Proof.
  intros H. destruct (N.eq_dec r 0) as [->|Hn]; [cbn; lia|].
  rewrite N.size_log2 by assumption.
  assert (N.log2 r < 32)%N by (apply N.log2_lt_pow2; [lia|exact H]). lia.
Qed.

Lemma pad_idx_eq r : (r < 4294967296)%N ->
  pad_idx (Z.of_N r) = Z.of_nat (1 + N.to_nat ((N.size r - 1) / 4)).
Proof.
  intros H. pose proof (size_le_32 r H) as Hs. unfold pad_idx.
  rewrite wrap_u32_id by lia. rewrite bits_Len32_size.
  rewrite (wrap_i64_id (Z.of_N (N.size r) - 1)) by lia.
  destruct (N.eq_dec (N.size r) 0) as [E|E].
  - rewrite E. cbn. reflexivity.
  - rewrite Z.quot_div_nonneg by lia.
    rewrite (wrap_i64_id (_ / 4)) by lia. rewrite wrap_i64_id by lia. lia.
Qed.

Lemma pad_slice w r : (r < 4294967296)%N -> (N.size r <= 4 * N.of_nat w)%N -> (0 < w)%nat ->
  slice_lo (repeat 48 w) (pad_idx (Z.of_N r)) =
  Val (zb (repeat x30 (w - (1 + N.to_nat ((N.size r - 1) / 4))))).
Proof.
  intros H Hs Hw. rewrite pad_idx_eq by assumption.
  set (k := (1 + N.to_nat ((N.size r - 1) / 4))%nat).
  assert (Hk : (k <= w)%nat) by (unfold k; lia).
  unfold slice_lo, len. rewrite repeat_length.
  replace ((Z.of_nat k <? 0) || (Z.of_nat w <? Z.of_nat k)) with false by lia.
  rewrite Nat2Z.id, skipn_repeat, zb_repeat. reflexivity.
Qed.

