(* strconv.FormatUint / FormatInt / ParseUint / ParseInt for bases 10 and 16 as
   used by the text format, prototext.marshalUnknown and internal/encoding/defval.
   Definitions only. *)
From Coq Require Import List NArith ZArith Bool.
From PB Require Import Base.PBytes Text.TextStrModel.
Import ListNotations.
Open Scope N_scope.

(* fmt_base (strconv.AppendUint) is defined in Text/TextStrModel.v *)
Definition fmt_dec (v : N) : list byte := fmt_base 10 v.      (* FormatUint(v, 10) *)
Definition fmt_hex (v : N) : list byte := fmt_base 16 v.      (* FormatUint(v, 16) *)
Definition fmt_int (z : Z) : list byte :=                     (* FormatInt(z, 10) *)
  if (z <? 0)%Z then x2d :: fmt_dec (Z.to_N (- z)) else fmt_dec (Z.to_N z).

(* strconv.ParseUint(s, 10, bits): digits only, no sign, no underscores *)
Definition parse_uint10 (bits : N) (s : list byte) : option N :=
  match parse_uint 10 s with
  | Some v => if v <? 2 ^ bits then Some v else None
  | None => None
  end.

(* strconv.ParseInt(s, 10, bits): optional sign *)
Definition parse_int10 (bits : N) (s : list byte) : option Z :=
  match s with
  | [] => None
  | c :: r =>
    let '(neg, body) :=
      if b2n c =? 45 then (true, r) else if b2n c =? 43 then (false, r) else (false, s) in
    match parse_uint10 bits body with
    | None => None
    | Some v =>
      if neg then (if v <=? 2 ^ (bits - 1) then Some (- Z.of_N v)%Z else None)
      else (if v <? 2 ^ (bits - 1) then Some (Z.of_N v) else None)
    end
  end.
