(* TextMsgScalarP — basic lemmas for the format round-trip proofs (shared by C20 and C24) and the
   scalar layer of the text model: tdec_scalar inverts text_scalar on in-range scalars. *)
From Coq Require Import List Arith NArith ZArith Lia Bool.
From Coq Require Import ZifyBool ZifyNat ZifyN.
From PB Require Import Base.PBytes Wire.WireModel Msg.MsgSchema Msg.MsgValue Msg.MsgUtf8 Msg.MsgEnc Msg.MsgDec Msg.MsgValid.
From PB Require Import Json.RtSchema Text.TextMsgModel Text.TextMsgValid.
Ltac Zify.zify_post_hook ::= Z.div_mod_to_equations.
Import ListNotations.
Open Scope N_scope.

(* ---------- byte strings ---------- *)
Lemma b2n_inj a b : b2n a = b2n b -> a = b.
Proof. intros H. rewrite <- (n2b_b2n a), <- (n2b_b2n b), H. reflexivity. Qed.

Lemma bs_eqb_refl a : bs_eqb a a = true.
Proof. induction a as [|x a IH]; cbn [bs_eqb]; [reflexivity|]. rewrite N.eqb_refl, IH. reflexivity. Qed.

Lemma bs_eqb_eq a b : bs_eqb a b = true <-> a = b.
Proof.
  split; [|intros ->; apply bs_eqb_refl].
  revert b. induction a as [|x a IH]; intros [|y b] H; cbn [bs_eqb] in H; try discriminate; [reflexivity|].
  apply andb_prop in H. destruct H as [H1 H2]. apply N.eqb_eq, b2n_inj in H1. subst y.
  f_equal. apply IH, H2.
Qed.

Lemma bs_eqb_neq a b : a <> b -> bs_eqb a b = false.
Proof. intros H. destruct (bs_eqb a b) eqn:E; [|reflexivity]. apply bs_eqb_eq in E. contradiction. Qed.

(* ---------- enums ---------- *)
Lemma enum_by_number_in vs z name : enum_by_number vs z = Some name -> In (name, z) vs.
Proof.
  induction vs as [|[n k] r IH]; cbn [enum_by_number]; [discriminate|].
  destruct (k =? z)%Z eqn:E.
  - intros H. inversion H; subst. apply Z.eqb_eq in E. subst. left. reflexivity.
  - intros H. right. apply IH, H.
Qed.

Lemma enum_by_name_nodup vs name z :
  bs_nodup (map fst vs) = true -> In (name, z) vs -> enum_by_name vs name = Some z.
Proof.
  induction vs as [|[n k] r IH]; intros Hnd Hin; [contradiction|].
  cbn [map fst bs_nodup] in Hnd. apply andb_prop in Hnd. destruct Hnd as [Hn Hnd].
  cbn [enum_by_name]. destruct Hin as [E|Hin].
  - inversion E; subst. rewrite bs_eqb_refl. reflexivity.
  - destruct (bs_eqb n name) eqn:E.
    + apply bs_eqb_eq in E. subst n. exfalso.
      apply negb_true_iff in Hn. assert (existsb (bs_eqb name) (map fst r) = true); [|congruence].
      apply existsb_exists. exists name. split; [|apply bs_eqb_refl].
      change name with (fst (name, z)). apply in_map, Hin.
    + apply IH; assumption.
Qed.

Lemma enum_ok_roundtrip ed z name :
  enum_ok ed = true -> enum_by_number (e_vals ed) z = Some name ->
  enum_by_name (e_vals ed) name = Some z /\ enum_name_ok name = true.
Proof.
  unfold enum_ok. intros H Hn. apply andb_prop in H. destruct H as [H1 H2].
  apply enum_by_number_in in Hn. split.
  - apply enum_by_name_nodup; assumption.
  - rewrite forallb_forall in H2. apply (H2 (name, z) Hn).
Qed.

(* ---------- ranges ---------- *)
Lemma tin_u32_of_N n : n <? 4294967296 = true -> tin_u32 (Z.of_N n) = true.
Proof. unfold tin_u32. intros H. lia. Qed.
Lemma tin_u64_of_N n : n <? 18446744073709551616 = true -> tin_u64 (Z.of_N n) = true.
Proof. unfold tin_u64. intros H. lia. Qed.

(* ---------- the scalar round trip of the text model ---------- *)
Lemma text_float32_rt b :
  nan_canon32 b = true -> tdec_float32 (text_float32 b) = TOk b.
Proof.
  unfold nan_canon32, text_float32. intros H.
  destruct (f32_is_nan b) eqn:En.
  - cbn [negb orb] in H. apply N.eqb_eq in H. subst b. reflexivity.
  - unfold f32_is_pinf, f32_is_ninf.
    destruct (b =? 2139095040) eqn:E1; [apply N.eqb_eq in E1; subst; reflexivity|].
    destruct (b =? 4286578688) eqn:E2; [apply N.eqb_eq in E2; subst; reflexivity|].
    reflexivity.
Qed.

Lemma text_float64_rt b :
  nan_canon64 b = true -> tdec_float64 (text_float64 b) = TOk b.
Proof.
  unfold nan_canon64, text_float64. intros H.
  destruct (f64_is_nan b) eqn:En.
  - cbn [negb orb] in H. apply N.eqb_eq in H. subst b. reflexivity.
  - unfold f64_is_pinf, f64_is_ninf.
    destruct (b =? 9218868437227405312) eqn:E1; [apply N.eqb_eq in E1; subst; reflexivity|].
    destruct (b =? 18442240474082181120) eqn:E2; [apply N.eqb_eq in E2; subst; reflexivity|].
    reflexivity.
Qed.

Lemma bool_lit_true : bool_lit t_true = Some true. Proof. reflexivity. Qed.
Lemma bool_lit_false : bool_lit t_false = Some false. Proof. reflexivity. Qed.

Lemma text_scalar_rt ed utf8 sk s :
  rt_scalar_ok utf8 sk s = true ->
  (sk = SkEnum -> enum_ok ed = true) ->
  exists t, text_scalar ed utf8 sk s = TOk t /\ tdec_scalar ed utf8 sk t = TOk s.
Proof.
  unfold rt_scalar_ok. intros H He.
  apply andb_prop in H. destruct H as [H Hnan]. apply andb_prop in H. destruct H as [Hok Hstr].
  destruct sk, s; cbn [sk_ok] in Hok; try discriminate; cbn [text_scalar tdec_scalar].
  - (* double *) eexists; split; [reflexivity|]. unfold tbind. rewrite (text_float64_rt _ Hnan). reflexivity.
  - (* float *) eexists; split; [reflexivity|]. unfold tbind. rewrite (text_float32_rt _ Hnan). reflexivity.
  - (* int64 *) eexists; split; [reflexivity|]. unfold tbind, tdec_int, tok_int, tbind, tin_i64. rewrite Hok. reflexivity.
  - (* uint64 *) eexists; split; [reflexivity|]. unfold tbind, tdec_int, tok_int, tbind.
    rewrite (tin_u64_of_N _ Hok), N2Z.id. reflexivity.
  - (* int32 *) eexists; split; [reflexivity|]. unfold tbind, tdec_int, tok_int, tbind, tin_i32. rewrite Hok. reflexivity.
  - (* fixed64 *) eexists; split; [reflexivity|]. unfold tbind, tdec_int, tok_int, tbind.
    rewrite (tin_u64_of_N _ Hok), N2Z.id. reflexivity.
  - (* fixed32 *) eexists; split; [reflexivity|]. unfold tbind, tdec_int, tok_int, tbind.
    rewrite (tin_u32_of_N _ Hok), N2Z.id. reflexivity.
  - (* bool *) eexists; split; [reflexivity|]. destruct b; reflexivity.
  - (* string *) cbn [msg_str_valid] in Hstr.
    destruct (utf8 && negb (msg_utf8_valid bs)) eqn:E.
    + exfalso. destruct utf8; cbn [negb orb andb] in *; [|discriminate]. rewrite Hstr in E. discriminate.
    + eexists; split; [reflexivity|]. cbn [tdec_scalar]. rewrite E. reflexivity.
  - (* bytes *) eexists; split; [reflexivity|]. reflexivity.
  - (* uint32 *) eexists; split; [reflexivity|]. unfold tbind, tdec_int, tok_int, tbind.
    rewrite (tin_u32_of_N _ Hok), N2Z.id. reflexivity.
  - (* enum *)
    destruct (enum_by_number (e_vals ed) z) as [name|] eqn:En.
    + destruct (enum_ok_roundtrip ed z name (He eq_refl) En) as [Hname Hnok].
      eexists; split; [reflexivity|]. unfold tbind, tdec_enum, tok_ident.
      unfold enum_name_ok in Hnok. destruct name as [|c name]; [discriminate|].
      apply negb_true_iff in Hnok. rewrite Hnok, Hname. reflexivity.
    + eexists; split; [reflexivity|]. unfold tbind, tdec_enum, tok_ident, tdec_int, tok_int, tbind, tin_i32.
      rewrite Hok. reflexivity.
  - (* sfixed32 *) eexists; split; [reflexivity|]. unfold tbind, tdec_int, tok_int, tbind, tin_i32. rewrite Hok. reflexivity.
  - (* sfixed64 *) eexists; split; [reflexivity|]. unfold tbind, tdec_int, tok_int, tbind, tin_i64. rewrite Hok. reflexivity.
  - (* sint32 *) eexists; split; [reflexivity|]. unfold tbind, tdec_int, tok_int, tbind, tin_i32. rewrite Hok. reflexivity.
  - (* sint64 *) eexists; split; [reflexivity|]. unfold tbind, tdec_int, tok_int, tbind, tin_i64. rewrite Hok. reflexivity.
Qed.
