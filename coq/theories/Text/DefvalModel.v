(* Model of internal/encoding/defval (default.go): Marshal / Unmarshal of
   textual default values in both formats.  Definitions only.

   Floats are IEEE bit patterns ([N]); strconv's FormatFloat(…, 'g', -1, bits)
   and ParseFloat(…, bits) are parameters (a [float_oracle]) — the theorems
   state their hypotheses about it explicitly. *)
From Coq Require Import List NArith ZArith Bool.
From PB Require Import Base.PBytes Base.Utf8Model Text.TextStrModel Text.TextFmtModel.
Import ListNotations.
Open Scope N_scope.

Inductive dfmt := FDescriptor | FGoTag.

(* the arms of the two switches (Sint32/Sfixed32 share Int32's arm, etc.) *)
Inductive dkind := KBool | KEnum | KInt32 | KInt64 | KUint32 | KUint64 | KFloat | KDouble | KString | KBytes | KOther.

Inductive dval :=
| DBool (b : bool)
| DEnum (n : Z)
| DInt32 (z : Z) | DInt64 (z : Z)
| DUint32 (n : N) | DUint64 (n : N)
| DFloat32 (bits : N) | DFloat64 (bits : N)
| DString (s : list byte)
| DBytes (s : list byte).

(* enum value descriptors: (name, number) in declaration order *)
Definition evs_t := list (list byte * Z).

Definition bytes_eqb (a b : list byte) : bool :=
  Nat.eqb (length a) (length b) && forallb (fun p => b2n (fst p) =? b2n (snd p)) (combine a b).

Fixpoint by_name (evs : evs_t) (s : list byte) : option (list byte * Z) :=
  match evs with
  | [] => None
  | e :: r => if bytes_eqb (fst e) s then Some e else by_name r s
  end.
(* EnumValues.ByNumber: the first declared value with that number *)
Fixpoint by_number (evs : evs_t) (n : Z) : option (list byte * Z) :=
  match evs with
  | [] => None
  | e :: r => if Z.eqb (snd e) n then Some e else by_number r n
  end.

(* ---------- bytes ---------- *)
(* marshalBytes: protoc's CEscape *)
Definition cescape_byte (b : byte) : list byte :=
  let c := b2n b in
  if c =? 10 then [x5c; x6e]
  else if c =? 13 then [x5c; x72]
  else if c =? 9 then [x5c; x74]
  else if c =? 34 then [x5c; x22]
  else if c =? 39 then [x5c; x27]
  else if c =? 92 then [x5c; x5c]
  else if (32 <=? c) && (c <=? 126) then [b]
  else [x5c; hexdig (c / 64); hexdig ((c / 8) mod 8); hexdig (c mod 8)].   (* \%03o *)
Definition marshal_bytes (bs : list byte) : list byte := flat_map cescape_byte bs.

(* unmarshalBytes: the text string parser applied to "s" *)
Definition unmarshal_bytes (s : list byte) : option (list byte) :=
  match unmarshal_string (x22 :: s ++ [x22]) with
  | SOk v => Some v
  | SErr _ => None
  end.

(* ---------- floats ---------- *)
Inductive fparse := FOk (bits : N) | FRange (bits : N) | FSyntax.
Record float_oracle := {
  fo_fmt32 : N -> list byte;          (* FormatFloat(float64(float32frombits b), 'g', -1, 32) *)
  fo_fmt64 : N -> list byte;          (* FormatFloat(float64frombits b, 'g', -1, 64) *)
  fo_parse32 : list byte -> fparse;   (* ParseFloat(s, 32): float32 bits *)
  fo_parse64 : list byte -> fparse    (* ParseFloat(s, 64): float64 bits *)
}.

Definition f32_exp (b : N) := (b / 8388608) mod 256.
Definition f32_man (b : N) := b mod 8388608.
Definition f32_neg (b : N) := 2147483648 <=? b.
Definition f32_is_nan (b : N) := (f32_exp b =? 255) && negb (f32_man b =? 0).
Definition f32_is_inf (b : N) := (f32_exp b =? 255) && (f32_man b =? 0).
Definition f64_exp (b : N) := (b / 4503599627370496) mod 2048.
Definition f64_man (b : N) := b mod 4503599627370496.
Definition f64_neg (b : N) := 9223372036854775808 <=? b.
Definition f64_is_nan (b : N) := (f64_exp b =? 2047) && negb (f64_man b =? 0).
Definition f64_is_inf (b : N) := (f64_exp b =? 2047) && (f64_man b =? 0).

Definition f32_pinf : N := 2139095040.            (* 0x7f800000 *)
Definition f32_ninf : N := 4286578688.            (* 0xff800000 *)
Definition f32_nan : N := 2143289344.             (* 0x7fc00000 = float32(math.NaN()) *)
Definition f64_pinf : N := 9218868437227405312.   (* 0x7ff0000000000000 *)
Definition f64_ninf : N := 18442240474082181120.  (* 0xfff0000000000000 *)
Definition f64_nan : N := 9221120237041090561.    (* 0x7ff8000000000001 = math.NaN() *)

Definition s_inf : list byte := [x69; x6e; x66].
Definition s_ninf : list byte := [x2d; x69; x6e; x66].
Definition s_nan : list byte := [x6e; x61; x6e].

Definition marshal_float32 (o : float_oracle) (b : N) : list byte :=
  if f32_is_inf b && f32_neg b then s_ninf
  else if f32_is_inf b then s_inf
  else if f32_is_nan b then s_nan
  else fo_fmt32 o b.
Definition marshal_float64 (o : float_oracle) (b : N) : list byte :=
  if f64_is_inf b && f64_neg b then s_ninf
  else if f64_is_inf b then s_inf
  else if f64_is_nan b then s_nan
  else fo_fmt64 o b.

(* the FloatKind/DoubleKind arm of Unmarshal (after the F7 repair: the value
   is parsed at 64 bits for the error, then re-parsed at 32 bits for floats) *)
Definition unmarshal_float32 (o : float_oracle) (s : list byte) : option N :=
  if bytes_eqb s s_ninf then Some f32_ninf
  else if bytes_eqb s s_inf then Some f32_pinf
  else if bytes_eqb s s_nan then Some f32_nan
  else match fo_parse64 o s with
       | FOk _ => match fo_parse32 o s with
                  | FOk b => Some b
                  | FRange b => Some b
                  | FSyntax => Some 0
                  end
       | _ => None
       end.
Definition unmarshal_float64 (o : float_oracle) (s : list byte) : option N :=
  if bytes_eqb s s_ninf then Some f64_ninf
  else if bytes_eqb s s_inf then Some f64_pinf
  else if bytes_eqb s s_nan then Some f64_nan
  else match fo_parse64 o s with
       | FOk b => Some b
       | _ => None
       end.

(* ---------- Marshal ---------- *)
(* [ev] is the enum value descriptor passed for the Descriptor format;
   [None] result = error (kind/value mismatch or unsupported kind) *)
Definition dv_marshal (o : float_oracle) (v : dval) (ev : option (list byte * Z)) (k : dkind) (f : dfmt)
  : option (list byte) :=
  match k, v with
  | KBool, DBool b =>
      Some (match f, b with
            | FGoTag, true => [x31] | FGoTag, false => [x30]
            | FDescriptor, true => [x74; x72; x75; x65]
            | FDescriptor, false => [x66; x61; x6c; x73; x65]
            end)
  | KEnum, DEnum n =>
      match f with
      | FGoTag => Some (fmt_int n)
      | FDescriptor => match ev with Some e => Some (fst e) | None => None end
      end
  | KInt32, DInt32 z => Some (fmt_int z)
  | KInt64, DInt64 z => Some (fmt_int z)
  | KUint32, DUint32 n => Some (fmt_dec n)
  | KUint64, DUint64 n => Some (fmt_dec n)
  | KFloat, DFloat32 b => Some (marshal_float32 o b)
  | KDouble, DFloat64 b => Some (marshal_float64 o b)
  | KString, DString s => Some s
  | KBytes, DBytes s => Some (marshal_bytes s)
  | _, _ => None
  end.

(* ---------- Unmarshal ---------- *)
(* result: (value, enum value descriptor) *)
Definition dv_unmarshal (o : float_oracle) (s : list byte) (k : dkind) (evs : evs_t) (f : dfmt)
  : option (dval * option (list byte * Z)) :=
  match k with
  | KBool =>
      match f with
      | FGoTag => if bytes_eqb s [x31] then Some (DBool true, None)
                  else if bytes_eqb s [x30] then Some (DBool false, None) else None
      | FDescriptor => if bytes_eqb s [x74; x72; x75; x65] then Some (DBool true, None)
                       else if bytes_eqb s [x66; x61; x6c; x73; x65] then Some (DBool false, None) else None
      end
  | KEnum =>
      match f with
      | FGoTag => match parse_int10 32 s with
                  | Some n => match by_number evs n with
                              | Some e => Some (DEnum (snd e), Some e)
                              | None => None
                              end
                  | None => None
                  end
      | FDescriptor => match by_name evs s with
                       | Some e => Some (DEnum (snd e), Some e)
                       | None => None
                       end
      end
  | KInt32 => match parse_int10 32 s with Some z => Some (DInt32 z, None) | None => None end
  | KInt64 => match parse_int10 64 s with Some z => Some (DInt64 z, None) | None => None end
  | KUint32 => match parse_uint10 32 s with Some n => Some (DUint32 n, None) | None => None end
  | KUint64 => match parse_uint10 64 s with Some n => Some (DUint64 n, None) | None => None end
  | KFloat => match unmarshal_float32 o s with Some b => Some (DFloat32 b, None) | None => None end
  | KDouble => match unmarshal_float64 o s with Some b => Some (DFloat64 b, None) | None => None end
  | KString => Some (DString s, None)
  | KBytes => match unmarshal_bytes s with Some b => Some (DBytes b, None) | None => None end
  | KOther => None
  end.

(* an oracle that knows nothing: used by the executable model for the
   non-float kinds and the inf/nan spellings *)
Definition null_oracle : float_oracle :=
  {| fo_fmt32 := fun _ => []; fo_fmt64 := fun _ => [];
     fo_parse32 := fun _ => FSyntax; fo_parse64 := fun _ => FSyntax |}.
