(* go_eq_spec for text/encode.go appendString (continued from
   Text/TextEscGoP.v): the translated loop equals enc_loop_run, the translated
   function equals append_string. *)
From Coq Require Import List Arith NArith ZArith Lia Bool.
From Coq Require Import ZifyBool ZifyNat ZifyN.
From PB Require Import Base.PBytes Base.GoInt Base.Utf8Model Base.Utf8P.
From PB Require Import Text.TextStrModel Text.TextStrP Text.TextEscGoSup.
From PB Require Import Gen.TextEscGo Text.TextEscGoP.
Ltac Zify.zify_post_hook ::= Z.div_mod_to_equations.
Import ListNotations.
Open Scope Z_scope.

(* the first escaping arm (after the backslash is decided): inner switch *)
Definition esc1 (k : list Z -> list Z -> outcome (list Z)) (v_out v_in : list Z) (v_r v_n : Z) : outcome (list Z) :=
  let v_out := v_out ++ [92] in
  if (v_r =? 34) || (v_r =? 92) then
    bind (slice_lo v_in v_n) (fun t => k (v_out ++ [wrap_u8 v_r]) t)
  else if v_r =? 10 then bind (slice_lo v_in v_n) (fun t => k (v_out ++ [110]) t)
  else if v_r =? 13 then bind (slice_lo v_in v_n) (fun t => k (v_out ++ [114]) t)
  else if v_r =? 9 then bind (slice_lo v_in v_n) (fun t => k (v_out ++ [116]) t)
  else
    bind (slice_lo [48; 48] (pad_idx v_r)) (fun t9 =>
    bind (slice_lo v_in v_n) (fun t => k (strconv_AppendUint ((v_out ++ [120]) ++ t9) (wrap_u64 v_r) 16) t)).

(* the \u / \U arm *)
Definition esc2 (k : list Z -> list Z -> outcome (list Z)) (v_out v_in : list Z) (v_r v_n : Z) : outcome (list Z) :=
  let v_out := v_out ++ [92] in
  if v_r <=? 65535 then
    bind (slice_lo [48; 48; 48; 48] (pad_idx v_r)) (fun t17 =>
    bind (slice_lo v_in v_n) (fun t => k (strconv_AppendUint ((v_out ++ [117]) ++ t17) (wrap_u64 v_r) 16) t))
  else
    bind (slice_lo [48; 48; 48; 48; 48; 48; 48; 48] (pad_idx v_r)) (fun t19 =>
    bind (slice_lo v_in v_n) (fun t => k (strconv_AppendUint ((v_out ++ [85]) ++ t19) (wrap_u64 v_r) 16) t)).

(* the default arm: copy the rune and the run of plain bytes after it *)
Definition esc3 (k : list Z -> list Z -> outcome (list Z)) (v_out v_in : list Z) (v_n : Z) : outcome (list Z) :=
  bind (slice_lo v_in v_n) (fun t21 =>
  bind (go_indexNeedEscapeInString t21) (fun i =>
  bind (slice_lo v_in (wrap_i64 (v_n + i))) (fun t23 =>
  bind (slice_hi v_in (wrap_i64 (v_n + i))) (fun t24 => k (v_out ++ t24) t23)))).

Definition esc_loop (ascii : bool) :=
  fix loop1 (lfuel : nat) (v_out v_in : list Z) {struct lfuel} : outcome (list Z) :=
    match lfuel with
    | O => Fuel
    | S lfuel' =>
      if 0 <? len v_in then
        let '(v_r, v_n) := utf8_DecodeRuneInString v_in in
        if (v_r =? 65533) && (v_n =? 1) then
          bind (index v_in 0) (fun t4 => esc1 (loop1 lfuel') v_out v_in (wrap_i32 t4) v_n)
        else if (((v_r <? 32) || (v_r =? 34)) || (v_r =? 92)) || (v_r =? 127) then
          esc1 (loop1 lfuel') v_out v_in v_r v_n
        else if (128 <=? v_r) && (ascii || (v_r <=? 159)) then
          esc2 (loop1 lfuel') v_out v_in v_r v_n
        else esc3 (loop1 lfuel') v_out v_in v_n
      else Val (v_out ++ [34])
    end.

Lemma appendString_shape out inp ascii :
  go_appendString out inp ascii =
  bind (go_indexNeedEscapeInString inp) (fun i =>
  bind (slice_lo inp i) (fun t2 =>
  bind (slice_hi inp i) (fun t3 =>
  esc_loop ascii (S (length ((out ++ [34]) ++ t3) + length t2)) ((out ++ [34]) ++ t3) t2))).
Proof. reflexivity. Qed.

Lemma esc_loop_S ascii lfuel v_out v_in :
  esc_loop ascii (S lfuel) v_out v_in =
  if 0 <? len v_in then
    let '(v_r, v_n) := utf8_DecodeRuneInString v_in in
    if (v_r =? 65533) && (v_n =? 1) then
      bind (index v_in 0) (fun t4 => esc1 (esc_loop ascii lfuel) v_out v_in (wrap_i32 t4) v_n)
    else if (((v_r <? 32) || (v_r =? 34)) || (v_r =? 92)) || (v_r =? 127) then
      esc1 (esc_loop ascii lfuel) v_out v_in v_r v_n
    else if (128 <=? v_r) && (ascii || (v_r <=? 159)) then
      esc2 (esc_loop ascii lfuel) v_out v_in v_r v_n
    else esc3 (esc_loop ascii lfuel) v_out v_in v_n
  else Val (v_out ++ [34]).
Proof. reflexivity. Qed.
