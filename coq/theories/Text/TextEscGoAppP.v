(* go_eq_spec for text/encode.go appendString (continued from
   Text/TextEscGoP.v): the translated loop equals enc_loop_run, the translated
   function equals append_string. *)
From Coq Require Import List Arith NArith ZArith Lia Bool.
From Coq Require Import ZifyBool ZifyNat ZifyN.
From PB Require Import Base.PBytes Base.GoInt Base.Utf8Model Base.Utf8P.
From PB Require Import Text.TextStrModel Text.TextStrP Text.TextEscGoSup.
From PB Require Import Gen.TextEscGo Text.TextEscGoP.
Ltac Zify.zify_post_hook ::= Z.div_mod_to_equations.
Import ListNotations.
Open Scope Z_scope.

(* the first escaping arm (after the backslash is decided): inner switch *)
Definition esc1 (k : list Z -> list Z -> outcome (list Z)) (v_out v_in : list Z) (v_r v_n : Z) : outcome (list Z) :=
  let v_out := v_out ++ [92] in
  if (v_r =? 34) || (v_r =? 92) then
    bind (slice_lo v_in v_n) (fun t => k (v_out ++ [wrap_u8 v_r]) t)
  else if v_r =? 10 then bind (slice_lo v_in v_n) (fun t => k (v_out ++ [110]) t)
  else if v_r =? 13 then bind (slice_lo v_in v_n) (fun t => k (v_out ++ [114]) t)
  else if v_r =? 9 then bind (slice_lo v_in v_n) (fun t => k (v_out ++ [116]) t)
  else
    bind (slice_lo [48; 48] (pad_idx v_r)) (fun t9 =>
    bind (slice_lo v_in v_n) (fun t => k (strconv_AppendUint ((v_out ++ [120]) ++ t9) (wrap_u64 v_r) 16) t)).

(* the \u / \U arm *)
Definition esc2 (k : list Z -> list Z -> outcome (list Z)) (v_out v_in : list Z) (v_r v_n : Z) : outcome (list Z) :=
  let v_out := v_out ++ [92] in
  if v_r <=? 65535 then
    bind (slice_lo [48; 48; 48; 48] (pad_idx v_r)) (fun t17 =>
    bind (slice_lo v_in v_n) (fun t => k (strconv_AppendUint ((v_out ++ [117]) ++ t17) (wrap_u64 v_r) 16) t))
  else
    bind (slice_lo [48; 48; 48; 48; 48; 48; 48; 48] (pad_idx v_r)) (fun t19 =>
    bind (slice_lo v_in v_n) (fun t => k (strconv_AppendUint ((v_out ++ [85]) ++ t19) (wrap_u64 v_r) 16) t)).

(* the default arm: copy the rune and the run of plain bytes after it *)
Definition esc3 (k : list Z -> list Z -> outcome (list Z)) (v_out v_in : list Z) (v_n : Z) : outcome (list Z) :=
  bind (slice_lo v_in v_n) (fun t21 =>
  bind (go_indexNeedEscapeInString t21) (fun i =>
  bind (slice_lo v_in (wrap_i64 (v_n + i))) (fun t23 =>
  bind (slice_hi v_in (wrap_i64 (v_n + i))) (fun t24 => k (v_out ++ t24) t23)))).

Definition esc_loop (ascii : bool) :=
  fix loop1 (lfuel : nat) (v_out v_in : list Z) {struct lfuel} : outcome (list Z) :=
    match lfuel with
    | O => Fuel
    | S lfuel' =>
      if 0 <? len v_in then
        let '(v_r, v_n) := utf8_DecodeRuneInString v_in in
        if (v_r =? 65533) && (v_n =? 1) then
          bind (index v_in 0) (fun t4 => esc1 (loop1 lfuel') v_out v_in (wrap_i32 t4) v_n)
        else if (((v_r <? 32) || (v_r =? 34)) || (v_r =? 92)) || (v_r =? 127) then
          esc1 (loop1 lfuel') v_out v_in v_r v_n
        else if (128 <=? v_r) && (ascii || (v_r <=? 159)) then
          esc2 (loop1 lfuel') v_out v_in v_r v_n
        else esc3 (loop1 lfuel') v_out v_in v_n
      else Val (v_out ++ [34])
    end.

Lemma appendString_shape out inp ascii :
  go_appendString out inp ascii =
  bind (go_indexNeedEscapeInString inp) (fun i =>
  bind (slice_lo inp i) (fun t2 =>
  bind (slice_hi inp i) (fun t3 =>
  esc_loop ascii (S (length ((out ++ [34]) ++ t3) + length t2)) ((out ++ [34]) ++ t3) t2))).
Proof. reflexivity. Qed.

Lemma esc_loop_S ascii lfuel v_out v_in :
  esc_loop ascii (S lfuel) v_out v_in =
  if 0 <? len v_in then
    let '(v_r, v_n) := utf8_DecodeRuneInString v_in in
    if (v_r =? 65533) && (v_n =? 1) then
      bind (index v_in 0) (fun t4 => esc1 (esc_loop ascii lfuel) v_out v_in (wrap_i32 t4) v_n)
    else if (((v_r <? 32) || (v_r =? 34)) || (v_r =? 92)) || (v_r =? 127) then
      esc1 (esc_loop ascii lfuel) v_out v_in v_r v_n
    else if (128 <=? v_r) && (ascii || (v_r <=? 159)) then
      esc2 (esc_loop ascii lfuel) v_out v_in v_r v_n
    else esc3 (esc_loop ascii lfuel) v_out v_in v_n
  else Val (v_out ++ [34]).
Proof. reflexivity. Qed.

(* ------------------------------------------------------------------ *)
Lemma size_le r k : (r < 2 ^ k)%N -> (N.size r <= k)%N.
Proof.
  intros H. destruct (N.eq_dec r 0) as [->|Hn]; [cbn; lia|].
  rewrite N.size_log2 by assumption.
  assert (N.log2 r < k)%N by (apply N.log2_lt_pow2; [lia|exact H]). lia.
Qed.

Lemma strconv_hex out r : (r < 4294967296)%N ->
  strconv_AppendUint out (wrap_u64 (Z.of_N r)) 16 = out ++ zb (fmt_base 16 r).
Proof.
  intros H. unfold strconv_AppendUint. rewrite wrap_u64_id by lia. rewrite N2Z.id. reflexivity.
Qed.

Lemma enc_loop_run_fuel f f' ascii bs : (length bs <= f)%nat -> (length bs <= f')%nat ->
  enc_loop_run f ascii bs = enc_loop_run f' ascii bs.
Proof. intros H1 H2. rewrite !enc_loop_run_eq by assumption. now apply enc_loop_fuel. Qed.

Ltac fin := rewrite ?zb_app, <- ?app_assoc; reflexivity.

Lemma esc1_spec k out bs r n : (r < 256)%N -> (n <= length bs)%nat ->
  esc1 k out (zb bs) (Z.of_N r) (Z.of_nat n) = k (out ++ zb (x5c :: esc_simple r)) (zb (skipn n bs)).
Proof.
  intros Hr Hn. unfold esc1, esc_simple. cbv zeta. rewrite slice_lo_zb by assumption. cbn [bind].
  destruct (r =? 34)%N eqn:E34.
  { assert (r = 34%N) by lia. subst r. cbn [Z.of_N Z.eqb Pos.eqb orb]. fin. }
  destruct (r =? 92)%N eqn:E92.
  { assert (r = 92%N) by lia. subst r. cbn [Z.of_N Z.eqb Pos.eqb orb]. fin. }
  replace ((Z.of_N r =? 34) || (Z.of_N r =? 92)) with false by lia.
  destruct (r =? 10)%N eqn:E10.
  { replace (Z.of_N r =? 10) with true by lia. fin. }
  replace (Z.of_N r =? 10) with false by lia.
  destruct (r =? 13)%N eqn:E13.
  { replace (Z.of_N r =? 13) with true by lia. fin. }
  replace (Z.of_N r =? 13) with false by lia.
  destruct (r =? 9)%N eqn:E9.
  { replace (Z.of_N r =? 9) with true by lia. fin. }
  replace (Z.of_N r =? 9) with false by lia.
  change [48; 48] with (repeat 48 2).
  rewrite (pad_slice 2 r) by (try lia; apply (size_le r 8); change (2 ^ 8)%N with 256%N; lia).
  cbn [bind]. rewrite strconv_hex by lia. unfold go_hex_pad.
  change (zb (x5c :: x78 :: ?L)) with (92 :: 120 :: zb L). fin.
Qed.

Lemma esc2_spec k out bs r n : (128 <= r <= max_rune)%N -> (n <= length bs)%nat ->
  esc2 k out (zb bs) (Z.of_N r) (Z.of_nat n) = k (out ++ zb (x5c :: esc_unicode r)) (zb (skipn n bs)).
Proof.
  unfold max_rune. intros Hr Hn. unfold esc2, esc_unicode. cbv zeta.
  rewrite slice_lo_zb by assumption. cbn [bind].
  destruct (r <=? 65535)%N eqn:E.
  - replace (Z.of_N r <=? 65535) with true by lia.
    change [48; 48; 48; 48] with (repeat 48 4).
    rewrite (pad_slice 4 r) by (try lia; apply (size_le r 16); change (2 ^ 16)%N with 65536%N; lia).
    cbn [bind]. rewrite strconv_hex by lia. unfold go_hex_pad.
    change (zb (x5c :: x75 :: ?L)) with (92 :: 117 :: zb L). fin.
  - replace (Z.of_N r <=? 65535) with false by lia.
    change [48; 48; 48; 48; 48; 48; 48; 48] with (repeat 48 8).
    rewrite (pad_slice 8 r) by (try lia; apply (size_le r 32); change (2 ^ 32)%N with 4294967296%N; lia).
    cbn [bind]. rewrite strconv_hex by lia. unfold go_hex_pad.
    change (zb (x5c :: x55 :: ?L)) with (92 :: 85 :: zb L). fin.
Qed.

Lemma esc3_spec k out bs n : Z.of_nat (length bs) < 2^63 -> (n <= length bs)%nat ->
  esc3 k out (zb bs) (Z.of_nat n) =
  k (out ++ zb (firstn (n + index_need_escape (skipn n bs)) bs)) (zb (skipn (n + index_need_escape (skipn n bs)) bs)).
Proof.
  intros Hbs Hn. set (i := index_need_escape (skipn n bs)). change (2^63) with 9223372036854775808 in Hbs.
  pose proof (index_need_escape_le (skipn n bs)) as Hi. fold i in Hi. rewrite skipn_length in Hi.
  unfold esc3. rewrite slice_lo_zb by assumption. cbn [bind].
  rewrite go_indexNeedEscapeInString_spec
    by (rewrite skipn_length; change (2^63) with 9223372036854775808; lia).
  cbn [bind]. fold i. rewrite wrap_i64_id by lia. rewrite <- Nat2Z.inj_add.
  rewrite slice_lo_zb by lia. cbn [bind]. rewrite slice_hi_zb by lia. reflexivity.
Qed.

Lemma esc_loop_spec ascii : forall lfuel out bs, (length bs < lfuel)%nat -> Z.of_nat (length bs) < 2^63 ->
  esc_loop ascii lfuel out (zb bs) = Val (out ++ zb (enc_loop_run (length bs) ascii bs) ++ [34]).
Proof.
  induction lfuel as [|lfuel IH]; intros out bs Hf Hbs; [lia|].
  rewrite esc_loop_S, len_zb. destruct bs as [|b0 t].
  { reflexivity. }
  replace (0 <? Z.of_nat (length (b0 :: t))) with true by (cbn [length]; lia).
  unfold utf8_DecodeRuneInString. rewrite unzb.
  pose proof (decode_rune_nonempty_pos b0 t) as Hn1.
  pose proof (decode_rune_le_length (b0 :: t)) as Hn2.
  change (length (b0 :: t)) with (S (length t)). rewrite enc_loop_run_S by discriminate.
  unfold enc_step_of. cbv zeta.
  destruct (decode_rune (b0 :: t)) as [r n] eqn:E. cbn [fst snd] in *. cbv beta iota.
  replace ((Z.of_N r =? 65533) && (Z.of_nat n =? 1)) with (rune_invalid (r, n))
    by (unfold rune_invalid, rune_error; cbn [fst snd]; lia).
  assert (Hrefuel : forall m, (1 <= m <= S (length t))%nat ->
            enc_loop_run (length t) ascii (skipn m (b0 :: t)) =
            enc_loop_run (length (skipn m (b0 :: t))) ascii (skipn m (b0 :: t))).
  { intros m Hm. apply enc_loop_run_fuel; rewrite skipn_length; cbn [length]; lia. }
  assert (HIH : forall o m, (1 <= m <= S (length t))%nat ->
            esc_loop ascii lfuel o (zb (skipn m (b0 :: t))) =
            Val (o ++ zb (enc_loop_run (length t) ascii (skipn m (b0 :: t))) ++ [34])).
  { intros o m Hm. rewrite Hrefuel by assumption. apply IH.
    - rewrite skipn_length. cbn [length] in *. lia.
    - rewrite skipn_length. cbn [length] in *. lia. }
  cbn [length] in Hn2.
  destruct (rune_invalid (r, n)) eqn:Bad.
  - (* invalid UTF-8: the byte itself, \xNN-escaped or short-escaped *)
    cbn [orb].
    replace (index (zb (b0 :: t)) 0) with (Val (byte2z b0)) by (symmetry; exact (index_zb [] b0 t)).
    cbn [bind]. pose proof (b2n_lt b0) as Hb.
    rewrite wrap_i32_id by (unfold byte2z; lia). unfold byte2z.
    rewrite esc1_spec by (cbn [length]; lia).
    rewrite HIH by lia. f_equal. fin.
  - destruct (decode_rune_ok (b0 :: t) r n ltac:(discriminate) E Bad) as [_ _ Hmax _ _ _ _ _].
    cbn [orb].
    destruct ((r <? 32) || (r =? 34) || (r =? 92) || (r =? 127))%N eqn:C1.
    + replace ((((Z.of_N r <? 32) || (Z.of_N r =? 34)) || (Z.of_N r =? 92)) || (Z.of_N r =? 127)) with true by lia.
      rewrite esc1_spec by (cbn [length]; lia).
      rewrite HIH by lia. f_equal. fin.
    + replace ((((Z.of_N r <? 32) || (Z.of_N r =? 34)) || (Z.of_N r =? 92)) || (Z.of_N r =? 127)) with false by lia.
      destruct ((128 <=? r) && (ascii || (r <=? 159)))%N eqn:C2.
      * replace ((128 <=? Z.of_N r) && (ascii || (Z.of_N r <=? 159))) with true by (destruct ascii; lia).
        rewrite esc2_spec by (cbn [length]; lia).
        rewrite HIH by lia. f_equal. fin.
      * replace ((128 <=? Z.of_N r) && (ascii || (Z.of_N r <=? 159))) with false by (destruct ascii; lia).
        pose proof (index_need_escape_le (skipn n (b0 :: t))) as Hi. rewrite skipn_length in Hi. cbn [length] in Hi.
        rewrite esc3_spec by (first [exact Hbs | cbn [length]; lia]).
        rewrite HIH by lia. f_equal. fin.
Qed.

Theorem go_appendString_spec out bs ascii : Z.of_nat (length bs) < 2^63 ->
  go_appendString out (zb bs) ascii = Val (out ++ zb (append_string ascii bs)).
Proof.
  intros Hbs. rewrite appendString_shape, go_indexNeedEscapeInString_spec by assumption. cbn [bind].
  pose proof (index_need_escape_le bs) as Hi.
  rewrite slice_lo_zb, slice_hi_zb by assumption. cbn [bind].
  rewrite esc_loop_spec.
  - unfold append_string. cbv zeta.
    rewrite (enc_loop_run_fuel (length bs) (length (skipn (index_need_escape bs) bs)))
      by (rewrite ?skipn_length; lia).
    f_equal. change (zb (x22 :: ?L)) with (34 :: zb L). rewrite !zb_app, <- !app_assoc. reflexivity.
  - rewrite zb_length. lia.
  - rewrite skipn_length. change (2^63) with 9223372036854775808 in *. lia.
Qed.

(* ------------------------------------------------------------------ *)
(* property-level statements about the translated source                *)
Theorem go_appendString_roundtrip ascii bs tail : Z.of_nat (length bs) < 2^63 ->
  exists o, go_appendString [] (zb bs) ascii = Val o /\
            parse_string (map z2byte o ++ tail) = SOk (bs, tail).
Proof.
  intros H. eexists. split; [apply (go_appendString_spec [] bs ascii H)|].
  cbn [app]. rewrite unzb. apply text_string_roundtrip.
Qed.

Theorem go_appendString_ascii_printable bs : Z.of_nat (length bs) < 2^63 ->
  exists o, go_appendString [] (zb bs) true = Val o /\ Forall (fun z => 32 <= z <= 126) o.
Proof.
  intros H. eexists. split; [apply (go_appendString_spec [] bs true H)|].
  cbn [app]. unfold zb. apply Forall_map.
  eapply Forall_impl; [|apply emit_ascii_printable].
  intros b Hb. unfold byte2z. cbv beta in Hb. lia.
Qed.

(* appending to a non-empty buffer only prefixes it (the Encoder calls
   appendString(e.out, ...)) *)
Theorem go_appendString_prefix out bs ascii : Z.of_nat (length bs) < 2^63 ->
  exists o, go_appendString [] (zb bs) ascii = Val o /\ go_appendString out (zb bs) ascii = Val (out ++ o).
Proof.
  intros H. eexists. split; [apply (go_appendString_spec [] bs ascii H)|].
  rewrite go_appendString_spec by assumption. reflexivity.
Qed.
