(* Model of the text-format string literal codec:
     internal/encoding/text/encode.go         appendString, indexNeedEscapeInString
     internal/encoding/text/decode_string.go  parseString, parseStringValue
     internal/encoding/text/decode.go         consume (whitespace / comments)
   Definitions only.  Byte strings are [list byte], runes are [N].

   Both Go loops start with (and, in their default arm, continue with) a
   fast path that copies a run of bytes for which indexNeedEscapeInString is
   false.  [append_string] / [parse_string] reproduce that fast path
   literally; [enc_loop] / [parse_loop] are the rune-at-a-time loops without
   it.  Text/TextStrP.v proves the two presentations equal (for the parser:
   when the opening quote is one of the two quote characters, which is the
   only way the Go function is reached). *)
From Coq Require Import List NArith Bool.
From PB Require Import Base.PBytes Base.Utf8Model.
Import ListNotations.
Open Scope N_scope.

(* ---------- small helpers ---------- *)
Definition hexdig (d : N) : byte := n2b (if d <? 10 then 48 + d else 87 + d).

(* strconv.AppendUint(v, base): digits of v in [base] (2..16), most
   significant first, lower case, no leading zeros, "0" for zero.  [fuel]
   bounds the number of digits; N.size v is enough for any base >= 2. *)
Fixpoint fmt_base_fuel (fuel : nat) (base v : N) : list byte :=
  match fuel with
  | O => [hexdig (v mod base)]
  | S f => if v <? base then [hexdig v] else fmt_base_fuel f base (v / base) ++ [hexdig (v mod base)]
  end.
Definition fmt_base (base v : N) : list byte := fmt_base_fuel (N.to_nat (N.size v)) base v.

(* the escape digits as appendString writes them:
     "00"[1+(bits.Len32(uint32(r))-1)/4:]  followed by  AppendUint(r, 16)
   (and "0000" / "00000000" for \u / \U).  bits.Len32 r = N.size r; Go's int
   division truncates towards zero, so for r = 0 the index is 1, as with N's
   truncated subtraction. *)
Definition go_hex_pad (w : nat) (r : N) : list byte :=
  repeat x30 (w - (1 + N.to_nat ((N.size r - 1) / 4))) ++ fmt_base 16 r.

(* [w] lower-case hex digits of [v], most significant first: what go_hex_pad
   amounts to for r < 16^w (proved in Text/TextStrP.v) *)
Fixpoint hex_fixed (w : nat) (v : N) : list byte :=
  match w with
  | O => []
  | S w' => hex_fixed w' (v / 16) ++ [hexdig (v mod 16)]
  end.

Definition hexval (b : byte) : option N :=
  let x := b2n b in
  if (48 <=? x) && (x <=? 57) then Some (x - 48)
  else if (97 <=? x) && (x <=? 102) then Some (x - 87)
  else if (65 <=? x) && (x <=? 70) then Some (x - 55)
  else None.
Definition is_hexd (b : byte) : bool := match hexval b with Some _ => true | None => false end.
Definition is_octd (b : byte) : bool := let x := b2n b in (48 <=? x) && (x <? 56).

(* number of leading bytes satisfying [p], at most [mx] *)
Fixpoint count_pref (p : byte -> bool) (mx : nat) (l : list byte) : nat :=
  match mx, l with
  | S m, b :: r => if p b then S (count_pref p m r) else O
  | _, _ => O
  end.

(* strconv.ParseUint(s, base, _) for base 8/16 restricted to its value; the
   callers apply the range check *)
Fixpoint digits_val (base acc : N) (l : list byte) : option N :=
  match l with
  | [] => Some acc
  | b :: r => match hexval b with
              | Some d => if d <? base then digits_val base (acc * base + d) r else None
              | None => None
              end
  end.
Definition parse_uint (base : N) (l : list byte) : option N :=
  match l with [] => None | _ => digits_val base 0 l end.

(* indexNeedEscapeInString's predicate *)
Definition need_escape (b : byte) : bool :=
  let c := b2n b in (c <? 32) || (c =? 34) || (c =? 39) || (c =? 92) || (127 <=? c).
Fixpoint index_need_escape (l : list byte) : nat :=
  match l with
  | [] => O
  | b :: r => if need_escape b then O else S (index_need_escape r)
  end.

(* ---------- encoder: appendString ---------- *)
(* the bytes after the backslash in the first escaping arm *)
Definition esc_simple (r : N) : list byte :=
  if r =? 34 then [x22]
  else if r =? 92 then [x5c]
  else if r =? 10 then [x6e]       (* n *)
  else if r =? 13 then [x72]       (* r *)
  else if r =? 9 then [x74]        (* t *)
  else x78 :: go_hex_pad 2 r.      (* xNN *)

Definition esc_unicode (r : N) : list byte :=
  if r <=? 65535 then x75 :: go_hex_pad 4 r else x55 :: go_hex_pad 8 r.

Inductive enc_step :=
| EEsc (out : list byte) (n : nat)   (* escape sequence written, n input bytes consumed *)
| ERaw (n : nat).                    (* n input bytes copied *)

(* one iteration of the switch in appendString on a non-empty input *)
Definition enc_step_of (ascii : bool) (bs : list byte) : enc_step :=
  let rn := decode_rune bs in
  let bad := rune_invalid rn in
  let r := if bad then match bs with b0 :: _ => b2n b0 | [] => 0 end else fst rn in
  let n := snd rn in
  if bad || (r <? 32) || (r =? 34) || (r =? 92) || (r =? 127) then EEsc (x5c :: esc_simple r) n
  else if (128 <=? r) && (ascii || (r <=? 159)) then EEsc (x5c :: esc_unicode r) n
  else ERaw n.

(* rune-at-a-time loop (no fast path) *)
Fixpoint enc_loop (fuel : nat) (ascii : bool) (bs : list byte) : list byte :=
  match bs with
  | [] => []
  | _ =>
    match fuel with
    | O => []
    | S f =>
      match enc_step_of ascii bs with
      | EEsc out n => out ++ enc_loop f ascii (skipn n bs)
      | ERaw n => firstn n bs ++ enc_loop f ascii (skipn n bs)
      end
    end
  end.

(* the loop as written, with the run-copying fast path in the default arm *)
Fixpoint enc_loop_run (fuel : nat) (ascii : bool) (bs : list byte) : list byte :=
  match bs with
  | [] => []
  | _ =>
    match fuel with
    | O => []
    | S f =>
      match enc_step_of ascii bs with
      | EEsc out n => out ++ enc_loop_run f ascii (skipn n bs)
      | ERaw n =>
          let i := index_need_escape (skipn n bs) in
          firstn (n + i) bs ++ enc_loop_run f ascii (skipn (n + i) bs)
      end
    end
  end.

(* appendString(nil, in, outputASCII), including both quotes *)
Definition append_string (ascii : bool) (bs : list byte) : list byte :=
  let i := index_need_escape bs in
  x22 :: firstn i bs ++ enc_loop_run (length bs) ascii (skipn i bs) ++ [x22].

(* the same without the fast path *)
Definition append_string_simple (ascii : bool) (bs : list byte) : list byte :=
  x22 :: enc_loop (length bs) ascii bs ++ [x22].

(* ---------- decoder: parseString ---------- *)
Inductive serr := SEof | SSyntax | SFuel.
Inductive sres (A : Type) := SOk (a : A) | SErr (e : serr).
Arguments SOk {A}. Arguments SErr {A}.

Definition sprepend (p : list byte) (r : sres (list byte * list byte)) : sres (list byte * list byte) :=
  match r with
  | SOk (o, rest) => SOk (p ++ o, rest)
  | SErr e => SErr e
  end.

(* utf16.DecodeRune *)
Definition decode_utf16 (r1 r2 : N) : N :=
  if (55296 <=? r1) && (r1 <? 56320) && (56320 <=? r2) && (r2 <? 57344)
  then (r1 - 55296) * 1024 + (r2 - 56320) + 65536
  else rune_error.

Inductive esc_res :=
| EscOk (out : list byte) (rest : list byte)
| EscErr (e : serr).

(* the inner switch; [c] is in[1], [t1] is in[2:] *)
Definition parse_escape (c : byte) (t1 : list byte) : esc_res :=
  let x := b2n c in
  if (x =? 34) || (x =? 39) || (x =? 92) || (x =? 63) then EscOk [c] t1
  else if x =? 97 then EscOk [x07] t1       (* \a *)
  else if x =? 98 then EscOk [x08] t1       (* \b *)
  else if x =? 110 then EscOk [x0a] t1      (* \n *)
  else if x =? 114 then EscOk [x0d] t1      (* \r *)
  else if x =? 116 then EscOk [x09] t1      (* \t *)
  else if x =? 118 then EscOk [x0b] t1      (* \v *)
  else if x =? 102 then EscOk [x0c] t1      (* \f *)
  else if is_octd c then
    let t0 := c :: t1 in
    let n := count_pref is_octd 3 t0 in
    match parse_uint 8 (firstn n t0) with
    | Some v => if v <? 256 then EscOk [n2b v] (skipn n t0) else EscErr SSyntax
    | None => EscErr SSyntax
    end
  else if x =? 120 then                     (* \x *)
    let n := count_pref is_hexd 2 t1 in
    match parse_uint 16 (firstn n t1) with
    | Some v => if v <? 256 then EscOk [n2b v] (skipn n t1) else EscErr SSyntax
    | None => EscErr SSyntax
    end
  else if (x =? 117) || (x =? 85) then      (* \u \U *)
    let k := if x =? 85 then 8%nat else 4%nat in
    if Nat.ltb (length t1) k then EscErr SEof
    else match parse_uint 16 (firstn k t1) with
         | None => EscErr SSyntax
         | Some v =>
           if max_rune <? v then EscErr SSyntax
           else
             let t2 := skipn k t1 in
             if is_surrogate v then
               if Nat.ltb (length t2) 6 then EscErr SEof
               else match t2 with
                    | b0 :: b1 :: t3 =>
                      match parse_uint 16 (firstn 4 t3) with
                      | Some v2 =>
                          let r := decode_utf16 v v2 in
                          if negb (b2n b0 =? 92) || negb (b2n b1 =? 117) || (r =? rune_error)
                          then EscErr SSyntax
                          else EscOk (encode_rune r) (skipn 4 t3)
                      | None => EscErr SSyntax
                      end
                    | _ => EscErr SEof
                    end
             else EscOk (encode_rune v) t2
         end
  else EscErr SSyntax.

Inductive dec_step :=
| DErr (e : serr)
| DClose (rest : list byte)
| DOut (out : list byte) (rest : list byte)
| DRaw (n : nat).

(* one iteration of the outer switch on a non-empty input *)
Definition dec_step_of (q : byte) (inp : list byte) : dec_step :=
  let rn := decode_rune inp in
  let r := fst rn in
  if rune_invalid rn then DErr SSyntax
  else if (r =? 0) || (r =? 10) then DErr SSyntax
  else if r =? b2n q then DClose (skipn 1 inp)
  else if r =? 92 then
    match inp with
    | _ :: c :: t1 =>
        match parse_escape c t1 with
        | EscOk out rest => DOut out rest
        | EscErr e => DErr e
        end
    | _ => DErr SEof
    end
  else DRaw (snd rn).

(* rune-at-a-time loop; returns (unescaped bytes, input after the closing quote) *)
Fixpoint parse_loop (fuel : nat) (q : byte) (inp : list byte) : sres (list byte * list byte) :=
  match inp with
  | [] => SErr SEof
  | _ =>
    match fuel with
    | O => SErr SFuel
    | S f =>
      match dec_step_of q inp with
      | DErr e => SErr e
      | DClose rest => SOk ([], rest)
      | DOut out rest => sprepend out (parse_loop f q rest)
      | DRaw n => sprepend (firstn n inp) (parse_loop f q (skipn n inp))
      end
    end
  end.

(* the loop as written, with the fast path in the default arm *)
Fixpoint parse_loop_run (fuel : nat) (q : byte) (inp : list byte) : sres (list byte * list byte) :=
  match inp with
  | [] => SErr SEof
  | _ =>
    match fuel with
    | O => SErr SFuel
    | S f =>
      match dec_step_of q inp with
      | DErr e => SErr e
      | DClose rest => SOk ([], rest)
      | DOut out rest => sprepend out (parse_loop_run f q rest)
      | DRaw n =>
          let i := index_need_escape (skipn n inp) in
          sprepend (firstn (n + i) inp) (parse_loop_run f q (skipn (n + i) inp))
      end
    end
  end.

(* Decoder.parseString on d.in = inp: (string, input after the closing quote
   and before the trailing consume) *)
Definition parse_string (inp : list byte) : sres (list byte * list byte) :=
  match inp with
  | [] => SErr SEof
  | q :: t =>
      let i := index_need_escape t in
      sprepend (firstn i t) (parse_loop_run (length t) q (skipn i t))
  end.

Definition parse_string_simple (inp : list byte) : sres (list byte * list byte) :=
  match inp with
  | [] => SErr SEof
  | q :: t => parse_loop (length t) q t
  end.

(* text.UnmarshalString *)
Definition unmarshal_string (inp : list byte) : sres (list byte) :=
  match parse_string inp with
  | SOk (o, _) => SOk o
  | SErr e => SErr e
  end.

(* consume(b, 0): skip whitespace and #-comments *)
Fixpoint consume_ws (in_comment : bool) (bs : list byte) : list byte :=
  match bs with
  | [] => []
  | b :: r =>
    let x := b2n b in
    if in_comment then consume_ws (negb (x =? 10)) r
    else if (x =? 32) || (x =? 10) || (x =? 13) || (x =? 9) then consume_ws false r
    else if x =? 35 then consume_ws true r
    else bs
  end.

Definition is_quote (b : byte) : bool := (b2n b =? 34) || (b2n b =? 39).

(* Decoder.parseStringValue: adjacent literals are concatenated; each
   parseString ends with consume.  Returns (string, remaining input). *)
Fixpoint parse_string_value (fuel : nat) (inp : list byte) : sres (list byte * list byte) :=
  match inp with
  | b :: _ =>
    if is_quote b then
      match fuel with
      | O => SErr SFuel
      | S f =>
        match parse_string inp with
        | SErr e => SErr e
        | SOk (o, rest) => sprepend o (parse_string_value f (consume_ws false rest))
        end
      end
    else SOk ([], inp)
  | [] => SOk ([], inp)
  end.
