(* C31 — Typed nil messages behave as empty read-only messages.
   Statements about the model Msg/NilModel.v ([None] = typed nil pointer,
   [Some empty_msg] = a valid empty message of the same schema); each closed by
   [exact] of a lemma of Msg/NilP.v.  The weight of this property is the
   exhaustive enumeration (every linked generated type x every read-only entry
   point) performed by the harness family "nil" against this model. *)
From Coq Require Import List NArith Bool.
From PB Require Import Base.PBytes Msg.NilModel Msg.NilP.
Import ListNotations.
Open Scope N_scope.

Theorem C31_nil_invalid : is_valid nil_state = false /\ is_valid empty_state = true.
Proof. exact nil_invalid. Qed.
Print Assumptions C31_nil_invalid.

Theorem C31_nil_reads_as_empty_has : forall f, has nil_state f = has empty_state f.
Proof. exact has_nil. Qed.
Print Assumptions C31_nil_reads_as_empty_has.

Theorem C31_nil_reads_as_empty_get : forall f, get nil_state f = get empty_state f.
Proof. exact get_nil. Qed.
Print Assumptions C31_nil_reads_as_empty_get.

Theorem C31_nil_get_is_zero_value : forall f, get nil_state f = zero_value f.
Proof. exact get_nil_zero. Qed.
Print Assumptions C31_nil_get_is_zero_value.

Theorem C31_nil_reads_as_empty_range : range nil_state = range empty_state /\ range nil_state = [].
Proof. exact range_nil. Qed.
Print Assumptions C31_nil_reads_as_empty_range.

Theorem C31_nil_reads_as_empty_which_oneof :
  forall sch o, which_oneof sch nil_state o = which_oneof sch empty_state o.
Proof. exact which_oneof_nil. Qed.
Print Assumptions C31_nil_reads_as_empty_which_oneof.

Theorem C31_nil_reads_as_empty_unknown : get_unknown nil_state = get_unknown empty_state.
Proof. exact unknown_nil. Qed.
Print Assumptions C31_nil_reads_as_empty_unknown.

(* also for schemas with required fields: both report the first required field *)
Theorem C31_nil_reads_as_empty_check_init :
  forall sch, check_init sch nil_state = check_init sch empty_state.
Proof. exact check_init_nil. Qed.
Print Assumptions C31_nil_reads_as_empty_check_init.

Theorem C31_nil_reads_as_empty_size : forall enc, size enc nil_state = size enc empty_state.
Proof. exact size_nil. Qed.
Print Assumptions C31_nil_reads_as_empty_size.

(* same bytes or same error; the nil-ness of an empty result buffer is the
   one sanctioned difference: *)
Theorem C31_nil_reads_as_empty_marshal :
  forall enc allow_partial sch,
  mres_bytes (marshal enc allow_partial sch nil_state) = mres_bytes (marshal enc allow_partial sch empty_state).
Proof. exact marshal_nil. Qed.
Print Assumptions C31_nil_reads_as_empty_marshal.

Theorem C31_marshal_nil_buffer_iff_invalid :
  forall enc allow_partial sch s nb,
  marshal enc allow_partial sch s = MBuf nb [] -> nb = negb (is_valid s).
Proof. exact marshal_nilbuf_iff_invalid. Qed.
Print Assumptions C31_marshal_nil_buffer_iff_invalid.
Example C31_marshal_nil_buffer_nonvacuous :
  marshal (fun _ _ => []) true [] nil_state = MBuf true [].
Proof. reflexivity. Qed.

Theorem C31_nil_reads_as_empty_marshal_append :
  forall enc p sch,
  marshal_append enc p sch nil_state = marshal_append enc p sch empty_state
  /\ marshal_append enc p sch nil_state = Some p.
Proof. exact marshal_append_nil. Qed.
Print Assumptions C31_nil_reads_as_empty_marshal_append.

(* protojson / prototext Marshal and Format *)
Theorem C31_nil_reads_as_empty_format :
  forall render, format render nil_state = format render empty_state.
Proof. exact format_nil. Qed.
Print Assumptions C31_nil_reads_as_empty_format.

(* the Format functions are debugging helpers: the code prints "<nil>" for an
   invalid message, a documented third difference besides IsValid and Equal *)
Theorem C31_nil_debug_format_marker :
  forall render, debug_format render nil_state = nil_marker.
Proof. exact debug_format_nil. Qed.
Print Assumptions C31_nil_debug_format_marker.

Theorem C31_nil_not_equal_empty :
  forall eqm m,
  equal eqm nil_state nil_state = true /\
  equal eqm nil_state (Some m) = false /\ equal eqm (Some m) nil_state = false.
Proof. exact equal_nil. Qed.
Print Assumptions C31_nil_not_equal_empty.

Theorem C31_clone_nil_is_nil : clone nil_state = nil_state /\ is_valid (clone nil_state) = false.
Proof. exact clone_nil. Qed.
Print Assumptions C31_clone_nil_is_nil.

Theorem C31_merge_nil_source_noop :
  forall dst, merge dst nil_state = dst /\ merge dst empty_state = dst.
Proof. exact merge_nil. Qed.
Print Assumptions C31_merge_nil_source_noop.
