(* C17 — Lazy decoding is observationally equivalent to eager decoding.
   Statements only; each closed by [exact] of a lemma proved in Msg/LazyP.v, or by computation
   on a witness.

   Model: Msg/LazyModel.v (unmarshalPointerLazy with skipField/validate, the lazy index with
   lastNum / out-of-order sort, lookupField, lazyUnmarshal/unmarshalField on first access,
   AppendField/SizeField re-emitting retained bytes, CheckInitialized skipping still-lazy
   fields) on top of the eager decoder Msg/MsgDec.v and the validator Msg/ValidateMsgModel.v.
   It is executed against the implementation on every run (family lazy: verdict, strict verdict,
   Marshal of the untouched message, canonical dump after reading every field).

   The property as stated -- for every input and every later read/write history all
   observations coincide with eager decoding -- is REFUTED as the code stands:
     lazy_marshal_refuted   F1: a wrong-wire-type occurrence of a lazy field is kept in the
                            unknown fields and inside the lazy index range: Marshal of the
                            untouched message emits it twice
     lazy_strict_refuted    FWB2: Unmarshal without AllowPartial accepts a message whose lazy
                            sub-message lacks a required field (CheckInitialized skips
                            still-lazy fields "checked on unmarshal"; Unmarshal relies on it)
   Proved for all inputs:
     lazy_verdict_refines_eager   (for schemas without the FL1 field shape) eager succeeds ->
                            lazy succeeds; lazy succeeds -> eager succeeds or fails with the
                            recursion-depth error (the FWB4 quirk inside a lazy field)
     lazy_access_total_index      after a successful Unmarshal, lookupField finds a range for
                            every field whose presence bit was set while its pointer is nil
                            (the index is sorted whenever the early exit of lookupField needs
                            it) -- so lazyUnmarshal's "can't find field data" panic is
                            unreachable; forcing itself is total in the model by construction
                            (the Go code drops unmarshalField's error: finding FWB6)
   _partial / not proved: equality of the canonical value after forcing with the eagerly
   decoded value for inputs outside the F1 class ([lazy_refines_eager_except_F1]); it is
   checked by execution only (C lines of family lazy, and the lazy-vs-eager access scripts on
   the implementation), except for two proved pieces: lazy_value_eq_eager_nolazy_partial (types
   without lazy fields) and eager_depth_monotone (see below).  One level of laziness is modelled (see Msg/LazyModel.v). *)
From Coq Require Import List NArith ZArith Bool.
From PB Require Import Base.PBytes Wire.WireModel.
From PB Require Import Msg.MsgSchema Msg.MsgValue Msg.MsgEnc Msg.MsgDec.
From PB Require Import Msg.ValidateMsgModel Msg.ValidateMsgP Msg.LazyModel Msg.LazyP.
From PB Require Import Msg.LazyValueP Msg.DecDepthMonoP.
Import ListNotations.
Open Scope N_scope.

Theorem C17_lazy_verdict_refines_eager :
  forall (S : schema) (limit tid : nat) (bs : list byte),
    vp_fl1_free S ->
    ((exists v, msg_decode false S limit tid bs = DOk v) -> exists m, lz_unmarshal S limit tid bs = DOk m) /\
    ((exists m, lz_unmarshal S limit tid bs = DOk m) ->
     (exists v, msg_decode false S limit tid bs = DOk v) \/ msg_decode false S limit tid bs = DErr DDepth).
Proof. exact lzp_verdict_refines. Qed.
Print Assumptions C17_lazy_verdict_refines_eager.

Theorem C17_lazy_access_total_index :
  forall (S : schema) (limit tid : nat) (bs : list byte) (m : lmsg),
    lz_unmarshal S limit tid bs = DOk m ->
    forall n, In n (l_lazy m) -> lz_lookup (l_index m) n <> [].
Proof. exact lzp_lookup_total. Qed.
Print Assumptions C17_lazy_access_total_index.

(* Towards [lazy_refines_eager_except_F1] (value after forcing = eagerly decoded value), _partial.
   Two of its pieces are proved:
   (a) on every field that is not a lazy one the tag loop of lazy Unmarshal is the eager tag loop
       (same accumulator, same error; index and presence bookkeeping never touch decoded fields),
       so for a message type WITHOUT lazy fields lazy Unmarshal gives exactly the eager verdict
       and the eager value;
   (b) the eager decoder is monotone in the recursion limit (forcing decodes with
       DefaultRecursionLimit what Unmarshal validated with the depth that was left).
   Missing: locality of one decoder step (a field changes only its own entry of the field list),
   index correctness (the ranges lookupField returns are exactly the occurrences of the field, in
   input order, also after the out-of-order sort), and the assembly of the forced values. *)
Theorem C17_lazy_value_eq_eager_nolazy_partial :
  forall (S : schema) (limit tid : nat) (bs : list byte) (md : mdesc),
    nth_error S tid = Some md -> lzv_nolazy md ->
    lz_value_of S limit tid bs = match msg_decode false S limit tid bs with DOk v => Some v | DErr _ => None end /\
    lz_verdict S limit tid bs = match msg_decode false S limit tid bs with DOk _ => 0 | DErr e => derr_code e end.
Proof. exact lzv_value_nolazy. Qed.
Print Assumptions C17_lazy_value_eq_eager_nolazy_partial.

Theorem C17_eager_depth_monotone :
  forall (slow : bool) (S : schema) (limit limit' tid : nat) (bs : list byte) (v : value),
    (limit <= limit')%nat ->
    msg_decode slow S limit tid bs = DOk v -> msg_decode slow S limit' tid bs = DOk v.
Proof. exact ddm_decode_mono. Qed.
Print Assumptions C17_eager_depth_monotone.

(* ---------- refutations (findings) ---------- *)
(* a Node-like type: lazy field 99 of its own type, int32 field 1 *)
Definition C17_node : schema :=
  [[mkF 99 (KMsg 0) COpt None false false true; mkF 1 (KS SkInt32) COpt None false false false]].
(* F1: [99:LEN {08 05}] [99:VARINT 7] *)
Definition C17_f1 : list byte := [x9a; x06; x02; x08; x05; x98; x06; x07].

Theorem C17_lazy_marshal_refuted :
  exists (S : schema) (limit tid : nat) (bs : list byte) (v : value),
    msg_decode false S limit tid bs = DOk v /\
    lz_value_of S limit tid bs = Some v /\
    lz_raw_of S limit tid bs <> msg_encode S tid v /\
    length (lz_raw_of S limit tid bs) = 11%nat /\ length (msg_encode S tid v) = 8%nat /\
    msg_decode false S limit tid (lz_raw_of S limit tid bs) <> DOk v.
Proof.
  exists C17_node, 5%nat, 0%nat, C17_f1, (VMsg [(99, [VMsg [(1, [VS (SZ 5)])] []])] [x98; x06; x07]).
  vm_compute. repeat split; try reflexivity; discriminate.
Qed.
Print Assumptions C17_lazy_marshal_refuted.

(* FWB2: lazy field 1 of a type with a required field; input [1:LEN {}] *)
Definition C17_reqlazy : schema :=
  [[mkF 1 (KMsg 1) COpt None false false true]; [mkF 1 (KS SkInt32) CReq None false false false]].
Theorem C17_lazy_strict_refuted :
  exists (S : schema) (limit tid : nat) (bs : list byte),
    lz_strict S limit tid bs = 0 /\ vm_dec_class false S limit tid bs = 6.
Proof. exists C17_reqlazy, 5%nat, 0%nat, [x0a; x00]. vm_compute. split; reflexivity. Qed.
Print Assumptions C17_lazy_strict_refuted.

(* ---------- non-vacuity ---------- *)
Example C17_example_hyp : vp_fl1_free C17_node.
Proof. apply vp_fl1_freeb_spec. vm_compute. reflexivity. Qed.
(* out-of-order, non-contiguous occurrences of the lazy field with an unknown field in between:
   [1:5] [99:{1:5}] [2:varint 1] [99:{99:{1:7}}] [1:6] -- the index is sorted, the two ranges are
   merged on access, and value and deterministic bytes agree with eager decoding *)
Definition C17_ooo : list byte :=
  [x08; x05; x9a; x06; x02; x08; x05; x10; x01; x9a; x06; x05; x9a; x06; x02; x08; x07; x08; x06].
Example C17_example_ooo :
  exists m v, lz_unmarshal C17_node 5 0 C17_ooo = DOk m /\
    length (l_index m) = 2%nat /\ l_lazy m = [99] /\ length (lz_lookup (l_index m) 99) = 2%nat /\
    msg_decode false C17_node 5 0 C17_ooo = DOk v /\ lz_value_of C17_node 5 0 C17_ooo = Some v.
Proof. eexists. eexists. vm_compute. repeat split; reflexivity. Qed.
(* invalid content two levels inside the lazy field is rejected at Unmarshal time *)
Example C17_example_invalid :
  lz_verdict C17_node 5 0 [x9a; x06; x04; x9a; x06; x01; x00] = 1 /\
  msg_decode false C17_node 5 0 [x9a; x06; x04; x9a; x06; x01; x00] = DErr DParse.
Proof. vm_compute. split; reflexivity. Qed.
(* the no-lazy hypothesis holds of type 1 of C17_reqlazy (and not of type 0), and both sides of
   the conclusion are the decoded value there *)
Example C17_example_nolazy :
  lzv_nolazy (nth 1 C17_reqlazy []) /\ lzv_nolazyb (nth 0 C17_reqlazy []) = false /\
  lz_value_of C17_reqlazy 5 1 [x08; x05] = Some (VMsg [(1, [VS (SZ 5)])] []) /\
  msg_decode false C17_reqlazy 5 1 [x08; x05] = DOk (VMsg [(1, [VS (SZ 5)])] []).
Proof. split; [apply lzv_nolazyb_spec; vm_compute; reflexivity|]. vm_compute. repeat split; reflexivity. Qed.
(* depth monotonicity is not vacuous: the F1 input decodes at limit 2 and at limit 5 *)
Example C17_example_depth :
  exists v, msg_decode false C17_node 2 0 C17_f1 = DOk v /\ msg_decode false C17_node 5 0 C17_f1 = DOk v /\
            msg_decode false C17_node 1 0 C17_f1 = DErr DDepth.
Proof. eexists. vm_compute. repeat split; reflexivity. Qed.
