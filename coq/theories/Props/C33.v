(* C33 — registries behave like a conflict-checking name table.

   Model: Desc/RegistryModel.v (local protoregistry.Files and protoregistry.Types).
   Every theorem quantifies over ALL operation histories [ops] (any length): [fstate_after ops]
   is the concrete state after the history, [registered ops] the abstract state = the list of
   successfully registered files (resp. [tstate_after], [tregistered] for Types).

   Hypotheses of the Files theorems: every file handed to RegisterFile satisfies [wf_file]
   (what protodesc.NewFile guarantees: simple names are non-empty and dot-free, names are
   unique per scope).  The harness checks [wf_file] on every file it generates.  The Types
   theorems have no hypotheses.

   Statements only; each closed by [exact] of a lemma proved in Desc/Registry*P.v. *)
From Coq Require Import List NArith Bool Permutation.
From PB Require Import Desc.RegistryModel Desc.RegistryFilesP Desc.RegistryFindP Desc.RegistryTypesP.
Import ListNotations.

(* ------------------------------------------------------------------ Files: registration *)
(* RegisterFile returns ok iff the file conflicts with nothing registered: its path is not
   registered, no dotted prefix of its package is a registered top-level declaration name,
   and none of its top-level full names is a registered top-level declaration name or a
   registered package prefix.  The error class follows the order path, package, name. *)
Theorem C33_register_ok_iff_no_conflict :
  forall ops fid f,
  forallb wf_fop ops = true -> wf_file f = true ->
  let r := snd (register_file (fstate_after ops) fid f) in
  let rs := registered ops in
  (r = ROk <-> ~ conflict_path rs f /\ ~ conflict_pkg rs f /\ ~ conflict_name rs f) /\
  (r = RErrPath <-> conflict_path rs f) /\
  (r = RErrPkg <-> ~ conflict_path rs f /\ conflict_pkg rs f) /\
  (r = RErrName <-> ~ conflict_path rs f /\ ~ conflict_pkg rs f /\ conflict_name rs f).
Proof. exact register_ok_iff_no_conflict. Qed.
Print Assumptions C33_register_ok_iff_no_conflict.

(* the model's auxiliary outcomes (fuel exhaustion of the Parent() loop, failed type
   assertion to *packageDescriptor) are unreachable *)
Theorem C33_register_total :
  forall ops fid f,
  forallb wf_fop ops = true -> wf_file f = true ->
  snd (register_file (fstate_after ops) fid f) <> ROutOfFuel /\
  snd (register_file (fstate_after ops) fid f) <> RPanic.
Proof. exact register_total. Qed.
Print Assumptions C33_register_total.

(* a failed registration returns the concrete state unchanged ... *)
Theorem C33_failed_register_noop :
  forall ops fid f,
  forallb wf_fop ops = true -> wf_file f = true ->
  snd (register_file (fstate_after ops) fid f) <> ROk ->
  fst (register_file (fstate_after ops) fid f) = fstate_after ops.
Proof. exact failed_register_noop. Qed.
Print Assumptions C33_failed_register_noop.

(* ... hence every later observation is unchanged *)
Theorem C33_failed_register_later_obs :
  forall ops fid f ops2,
  forallb wf_fop ops = true -> wf_file f = true ->
  snd (register_file (fstate_after ops) fid f) <> ROk ->
  frun_from (fst (register_file (fstate_after ops) fid f)) ops2 = frun_from (fstate_after ops) ops2.
Proof. exact failed_register_later_obs. Qed.
Print Assumptions C33_failed_register_later_obs.

(* the abstraction function (contents of filesByPath) is the list of registered files *)
Theorem C33_abs_files_registered :
  forall ops, forallb wf_fop ops = true -> Permutation (abs_files (fstate_after ops)) (registered ops).
Proof. exact abs_files_registered. Qed.
Print Assumptions C33_abs_files_registered.

(* ------------------------------------------------------------------ Files: lookup by name *)
(* FindDescriptorByName n returns d iff d is a declaration with full name n of some registered
   file — every kind: messages, nested messages, enums, enum values (in the enclosing scope),
   extensions (top-level and nested), fields, oneofs, services, methods; it returns NotFound
   iff no registered file declares n. *)
Theorem C33_find_by_name_sound_complete :
  forall ops,
  forallb wf_fop ops = true ->
  let s := fstate_after ops in
  let rs := registered ops in
  (forall nm d, find_descriptor_by_name s nm = FFound d <-> (d_full d = nm /\ declared rs d)) /\
  (forall nm, find_descriptor_by_name s nm = FNotFound <-> ~ exists d, d_full d = nm /\ declared rs d).
Proof. exact find_by_name_sound_complete. Qed.
Print Assumptions C33_find_by_name_sound_complete.

Theorem C33_find_total :
  forall ops nm, find_descriptor_by_name (fstate_after ops) nm <> FOutOfFuel.
Proof. exact find_total. Qed.
Print Assumptions C33_find_total.

(* the registry never holds two declarations with the same full name *)
Theorem C33_declared_unique :
  forall ops d d',
  forallb wf_fop ops = true ->
  declared (registered ops) d -> declared (registered ops) d' -> d_full d = d_full d' -> d = d'.
Proof. exact declared_unique. Qed.
Print Assumptions C33_declared_unique.

(* ------------------------------------------------------------------ Files: counts and ranges *)
(* NumFiles, RangeFiles (as a multiset), NumFilesByPackage / RangeFilesByPackage (registration
   order) are exact; paths of registered files are pairwise distinct, so FindFileByPath never
   reports "multiple files" on a local registry and finds exactly the registered paths. *)
Theorem C33_counts_and_ranges_exact :
  forall ops,
  forallb wf_fop ops = true ->
  let s := fstate_after ops in
  let rs := registered ops in
  num_files s = length rs /\
  Permutation (range_files s) (map fst rs) /\
  (forall p, range_files_by_package s p = map fst (filter (fun r => name_eqb (f_pkg (snd r)) p) rs)) /\
  (forall p, num_files_by_package s p = length (filter (fun r => name_eqb (f_pkg (snd r)) p) rs)) /\
  NoDup (map (fun r => f_path (snd r)) rs) /\
  (forall p, find_file_by_path s p <> PMultiple) /\
  (forall p fid, find_file_by_path s p = PFound fid <-> exists f, In (fid, f) rs /\ f_path f = p) /\
  (forall p, find_file_by_path s p = PNotFound <-> ~ path_registered rs p).
Proof. exact counts_and_ranges_exact. Qed.
Print Assumptions C33_counts_and_ranges_exact.

(* ------------------------------------------------------------------ Types *)
(* RegisterMessage/RegisterEnum fail iff the name is taken (by a type of any kind);
   RegisterExtension first checks the (extendee, number) pair, then the name. *)
Theorem C33_types_register_ok_iff_no_conflict :
  forall ops,
  let s := tstate_after ops in
  let rs := tregistered ops in
  (forall id n, (snd (register_message s id n) = TOk <-> ~ name_taken rs n) /\
                (snd (register_message s id n) = TErrName <-> name_taken rs n)) /\
  (forall id n, (snd (register_enum s id n) = TOk <-> ~ name_taken rs n) /\
                (snd (register_enum s id n) = TErrName <-> name_taken rs n)) /\
  (forall id n m num,
      let r := snd (register_extension s id n m num) in
      (r = TOk <-> ~ extnum_taken rs m num /\ ~ name_taken rs n) /\
      (r = TErrExtNum <-> extnum_taken rs m num) /\
      (r = TErrName <-> ~ extnum_taken rs m num /\ name_taken rs n)).
Proof. exact types_register_ok_iff_no_conflict. Qed.
Print Assumptions C33_types_register_ok_iff_no_conflict.

Theorem C33_types_failed_register_noop :
  forall ops op,
  let s := tstate_after ops in
  (exists r, snd (tstep s op) = TORes r /\ r <> TOk) -> fst (tstep s op) = s.
Proof. exact types_failed_register_noop. Qed.
Print Assumptions C33_types_failed_register_noop.

(* Find{Message,Enum,Extension}ByName: found iff registered with that kind, "wrong type" iff
   registered with another kind, NotFound iff the name is not registered;
   FindExtensionByNumber finds exactly the registered (extendee, number) pairs. *)
Theorem C33_types_find_sound_complete :
  forall ops,
  let s := tstate_after ops in
  let rs := tregistered ops in
  (forall want n id, find_type s want n = TFound id <->
                     exists e, In e rs /\ te_name e = n /\ te_kind e = want /\ te_id e = id) /\
  (forall want n, find_type s want n = TWrongType <->
                  exists e, In e rs /\ te_name e = n /\ te_kind e <> want) /\
  (forall want n, find_type s want n = TNotFound <-> ~ name_taken rs n) /\
  (forall m num id, find_extension_by_number s m num = TFound id <->
                    exists e, In e rs /\ te_kind e = TExt /\ te_ext e = m /\ te_num e = num /\ te_id e = id) /\
  (forall m num, find_extension_by_number s m num = TNotFound <-> ~ extnum_taken rs m num) /\
  (forall m num, find_extension_by_number s m num <> TWrongType).
Proof. exact types_find_sound_complete. Qed.
Print Assumptions C33_types_find_sound_complete.

(* FindMessageByURL looks up what follows the last '/' *)
Theorem C33_url_name_spec :
  (forall s, ~ In slashb s -> url_name s = s) /\
  (forall a b, ~ In slashb b -> url_name (a ++ slashb :: b) = b).
Proof. exact url_name_spec. Qed.
Print Assumptions C33_url_name_spec.

(* counters and ranges enumerate exactly the registered types *)
Theorem C33_types_counts_exact :
  forall ops,
  let s := tstate_after ops in
  let rs := tregistered ops in
  ts_nenum s = length (kind_filter rs TEnum) /\
  ts_nmsg s = length (kind_filter rs TMsg) /\
  ts_next s = length (kind_filter rs TExt) /\
  (forall k, range_types s k = map te_id (kind_filter rs k)) /\
  (forall m, length (ext_map s m) = length (ext_filter rs m)) /\
  (forall m, map snd (ext_map s m) = map te_id (ext_filter rs m)) /\
  abs_types s = map (fun e => (te_kind e, te_id e, te_name e)) rs.
Proof. exact types_counts_exact. Qed.
Print Assumptions C33_types_counts_exact.

(* ------------------------------------------------------------------ non-vacuity *)
(* file A: package a; message b { message c { field f }  enum E { V }  field f  oneof o }
   file B: package a.b; message M        (its package collides with message a.b of A) *)
Definition ex_a : name := [x61].
Definition ex_ab : name := [x61; x2e; x62].
Definition ex_fileA : file :=
  File [x70; x31] ex_a []
       [MsgDecl [x62] [MsgDecl [x63] [] [] [] [[x66]] []] [EnumDecl [x45] [[x56]]] [] [[x66]] [[x6f]]]
       [] [SvcDecl [x53] [[x6d]]].
Definition ex_fileB : file := File [x70; x32] ex_ab [] [MsgDecl [x4d] [] [] [] [] []] [] [].
Definition ex_ops : list fop := [FReg 0 ex_fileA; FFind ex_ab; FReg 1 ex_fileB; FReg 0 ex_fileA].

(* the hypotheses of the Files theorems are satisfiable, and all result classes occur *)
Example C33_ex_register :
  forallb wf_fop ex_ops = true /\ wf_file ex_fileB = true /\
  registered ex_ops = [(0, ex_fileA)] /\
  snd (register_file (fstate_after ex_ops) 1 ex_fileB) = RErrPkg /\
  snd (register_file (fstate_after ex_ops) 2 ex_fileA) = RErrPath /\
  snd (register_file (fstate_after [FReg 1 ex_fileB]) 0 ex_fileA) = RErrName /\
  snd (register_file (fstate_after []) 0 ex_fileA) = ROk /\
  fst (register_file (fstate_after ex_ops) 1 ex_fileB) = fstate_after ex_ops.
Proof. vm_compute. repeat split; reflexivity. Qed.

(* nested field a.b.c.f, enum value a.b.V (enclosing scope), method a.S.m, oneof a.b.o are found;
   a.b.c.f. (trailing dot) and a.b.M (file B was rejected) are not *)
Example C33_ex_find :
  let s := fstate_after ex_ops in
  find_descriptor_by_name s (ex_ab ++ [x2e; x63; x2e; x66]) = FFound (Desc KField 0 (ex_ab ++ [x2e; x63; x2e; x66])) /\
  find_descriptor_by_name s (ex_ab ++ [x2e; x56]) = FFound (Desc KEnumVal 0 (ex_ab ++ [x2e; x56])) /\
  find_descriptor_by_name s (ex_ab ++ [x2e; x6f]) = FFound (Desc KOneof 0 (ex_ab ++ [x2e; x6f])) /\
  find_descriptor_by_name s [x61; x2e; x53; x2e; x6d] = FFound (Desc KMethod 0 [x61; x2e; x53; x2e; x6d]) /\
  find_descriptor_by_name s (ex_ab ++ [x2e; x63; x2e; x66; x2e]) = FNotFound /\
  find_descriptor_by_name s (ex_ab ++ [x2e; x4d]) = FNotFound /\
  declared (registered ex_ops) (Desc KField 0 (ex_ab ++ [x2e; x63; x2e; x66])) /\
  num_files s = 1 /\ find_file_by_path s [x70; x31] = PFound 0 /\ num_files_by_package s ex_a = 1.
Proof.
  cbv zeta. repeat split; try (vm_compute; reflexivity).
  exists ex_fileA. split; vm_compute; tauto.
Qed.

(* Types: extension-number conflict is reported before the name conflict; wrong-type lookups *)
Definition ex_tops : list top :=
  [TRegMsg 0 [x4d]; TRegExt 1 [x78] [x4d] 100%N; TRegExt 2 [x78] [x4d] 100%N; TRegExt 3 [x78] [x4d] 101%N;
   TRegEnum 4 [x4d]].
Example C33_ex_types :
  snd (trun ex_tops) = [TORes TOk; TORes TOk; TORes TErrExtNum; TORes TErrName; TORes TErrName] /\
  (exists r, snd (tstep (tstate_after ex_tops) (TRegEnum 4 [x4d])) = TORes r /\ r <> TOk) /\
  find_type (tstate_after ex_tops) TEnum [x4d] = TWrongType /\
  find_type (tstate_after ex_tops) TMsg (url_name [x74; x2f; x4d]) = TFound 0 /\
  find_extension_by_number (tstate_after ex_tops) [x4d] 100%N = TFound 1.
Proof.
  repeat split; try (vm_compute; reflexivity).
  exists TErrName. split; [vm_compute; reflexivity | discriminate].
Qed.
