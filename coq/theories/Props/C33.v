(* C33 — registries behave like a conflict-checking name table (placeholder, theorems follow). *)
From PB Require Import Desc.RegistryModel.
