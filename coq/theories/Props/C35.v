(* C35 — Descriptor validation never crashes and rejects invalid schemas.
   Statements only; each closed by [exact] of a lemma proved in Desc/Validate*P.v.
   The model is Desc/ValidateModel.v (protodesc.FileOptions.New on a small descriptor-proto
   AST, checks in the order of the code, first error class returned); it is executed against
   protodesc on every run (family "dval").  Totality of the REAL code is established by search
   only (harness, subprocess isolation); the theorems below are about the model. *)
From Coq Require Import List NArith ZArith Bool.
From PB Require Import Desc.ValidateModel Desc.ValidateP Desc.ValidateSoundP Desc.ValidateTotalP Desc.ValidateBaseP
                       Desc.FeaturesModel Desc.FeaturesP.
Import ListNotations.
Open Scope Z_scope.

(* validate_total: the model has no Panic outcome and its only fuel-indexed loop (the scope
   walk of findDescriptor) never runs out of fuel: every input is accepted or rejected with a
   genuine error class. *)
Theorem C35_validate_total : forall legacy allow f, validate legacy allow f <> Reject E_outoffuel.
Proof. exact validate_total. Qed.
Print Assumptions C35_validate_total.

(* validate_sound (_partial): if the model accepts a file (build without protolegacy), then no
   message of the tree exhibits any of the definite errors of [msg_definite_error]
     duplicate field numbers, use of a reserved name, duplicate reserved names, field number
     outside 1..2^29-1, invalid label, a message field with an extendee, an empty oneof,
     proto3: required field / extension ranges, proto3_optional outside proto3 or on a
     non-optional field, MessageSet
   and no enum exhibits any of [enum_definite_error]
     empty enum, duplicate numbers without allow_alias, allow_alias without aliases, open enum
     whose first value is not zero, use of a reserved name, duplicate reserved names, value
     without a number.
   _partial: the remaining definite-error classes of the property text (invalid / overlapping
   ranges, use of reserved numbers, fields in extension ranges, map-entry and group shape,
   non-consecutive oneofs, duplicate declared names, unresolvable references) are checked by the
   model in code order and compared with the implementation on every run, but their declarative
   characterisation is not proved here (binary search / two-pointer sweep over the sorted copy). *)
Theorem C35_validate_sound_partial : forall allow f,
  validate false allow f = Accept ->
  (forall m, In m (file_msgs f) -> ~ msg_definite_error (fl_syntax f) m) /\
  (forall e, In e (file_enums f) -> ~ enum_definite_error (fl_syntax f) e).
Proof. exact validate_sound. Qed.
Print Assumptions C35_validate_sound_partial.

(* what acceptance means structurally: every message declaration of the tree passed its own
   checks and every enum declaration passed validateEnumDeclarations *)
Theorem C35_accept_structure : forall legacy allow f,
  validate legacy allow f = Accept ->
  (forall m, In m (file_msgs f) -> msg_ok legacy allow (fl_syntax f) (file_table f) m) /\
  (forall e, In e (file_enums f) -> validate_enum (fl_syntax f) e = Ok tt).
Proof. exact accept_structure. Qed.
Print Assumptions C35_accept_structure.

(* validate_accepts_base: files built by the explicit valid-by-construction predicate
   [base_file] (flat messages, scalar fields, valid distinct numbers, file-wide distinct valid
   names, any syntax, any json_name / packed option) are accepted under both AllowUnresolvable
   settings. *)
Theorem C35_validate_accepts_base : forall legacy allow f, base_file f -> validate legacy allow f = Accept.
Proof. exact validate_accepts_base. Qed.
Print Assumptions C35_validate_accepts_base.

Example C35_validate_accepts_base_nonvacuous :
  base_file ex_file /\ validate false false ex_file = Accept /\ validate false true ex_file = Accept.
Proof. exact ex_file_base. Qed.

(* non-vacuity of soundness: the hypothesis is satisfiable (above), and the checks do fire *)
Example C35_validate_sound_nonvacuous :
  validate false false
    (mkFile 0 [112%N] [] [Msg [77%N] [ex_field [97%N] 1 1 5; ex_field [98%N] 1 1 5] [] [] [] [] [] [] [] false false] [])
  = Reject E_m_dupnum /\
  validate false false (mkFile 1 [] [mkEnum [69%N] [mkEValue [65%N] (Some 1)] false [] []] [] []) = Reject E_e_first.
Proof. exact checks_fire. Qed.

(* ---------- recorded findings: where "rejects every definite error / never crashes" fails *)

(* FM1: an invalid [packed = true] (non-repeated field) is accepted: the "is not packable" check
   of desc_validate.go can never fire *)
Theorem C35_rejects_invalid_packed_refuted :
  exists f, validate false false f = Accept /\
    exists m fl, In m (file_msgs f) /\ In fl (m_fields m) /\ f_packed fl = Some true /\ f_label fl = 1.
Proof. exact invalid_packed_accepted. Qed.
Print Assumptions C35_rejects_invalid_packed_refuted.

(* FM2: a message field numbered in the implementation-reserved range 19000..19999 is accepted *)
Theorem C35_rejects_reserved_implementation_numbers_refuted :
  exists f, validate false false f = Accept /\
    exists m fl, In m (file_msgs f) /\ In fl (m_fields m) /\ 19000 <= f_num fl <= 19999.
Proof. exact reserved_implementation_number_accepted. Qed.
Print Assumptions C35_rejects_reserved_implementation_numbers_refuted.

(* F10: in front of the modelled part, New resolves the edition defaults (model in
   Desc/FeaturesModel.v over the regenerated defaults table); for an edition number that
   toEditionProto does not know this panics, and for edition 0 it calls os.Exit — reachable
   because desc.go skips its edition check under the cmd/protoc-gen-go/testdata/ prefix *)
Theorem C35_never_panics_refuted_F10 : defaults_for 99999 = DPanic /\ defaults_for 0 = DExit.
Proof. exact (conj defaults_unknown_edition_panics defaults_edition_zero_exits). Qed.
Print Assumptions C35_never_panics_refuted_F10.
