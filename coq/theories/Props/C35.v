(* C35 — Descriptor validation never crashes and rejects invalid schemas.
   Statements only; each closed by [exact] of a lemma proved in Desc/Validate*P.v.
   The model is Desc/ValidateModel.v (protodesc.FileOptions.New on a small descriptor-proto
   AST, checks in the order of the code, first error class returned); it is executed against
   protodesc on every run (family "dval").  Totality of the REAL code is established by search
   only (harness, subprocess isolation); the theorems below are about the model. *)
From Coq Require Import List NArith ZArith Bool.
From PB Require Import Desc.ValidateModel Desc.ValidateP Desc.ValidateSoundP Desc.ValidateTotalP Desc.ValidateBaseP Desc.ValidateRangesP
                       Desc.FeaturesModel Desc.FeaturesP Desc.VisibleModel Desc.VisibleP.
Import ListNotations.
Open Scope Z_scope.

(* validate_total: the model has no Panic outcome and its only fuel-indexed loop (the scope
   walk of findDescriptor) never runs out of fuel: every input is accepted or rejected with a
   genuine error class. *)
Theorem C35_validate_total : forall legacy allow f, validate legacy allow f <> Reject E_outoffuel.
Proof. exact validate_total. Qed.
Print Assumptions C35_validate_total.

(* validate_sound (_partial): if the model accepts a file (build without protolegacy), then no
   message of the tree exhibits any of the definite errors of [msg_definite_error]
     duplicate field numbers, use of a reserved name, duplicate reserved names, field number
     outside 1..2^29-1, invalid label, a message field with an extendee, an empty oneof,
     proto3: required field / extension ranges, proto3_optional outside proto3 or on a
     non-optional field, MessageSet
   and no enum exhibits any of [enum_definite_error]
     empty enum, duplicate numbers without allow_alias, allow_alias without aliases, open enum
     whose first value is not zero, use of a reserved name, duplicate reserved names, value
     without a number.
   The range-related classes (invalid / overlapping ranges, use of reserved numbers, fields in
   extension ranges) are C35_validate_sound_ranges below.
   _partial: the remaining definite-error classes of the property text (map-entry and group
   shape, non-consecutive oneofs, duplicate declared names, unresolvable references) are checked
   by the model in code order and compared with the implementation on every run, but their
   declarative characterisation is not proved. *)
Theorem C35_validate_sound_partial : forall allow f,
  validate false allow f = Accept ->
  (forall m, In m (file_msgs f) -> ~ msg_definite_error (fl_syntax f) m) /\
  (forall e, In e (file_enums f) -> ~ enum_definite_error (fl_syntax f) e).
Proof. exact validate_sound. Qed.
Print Assumptions C35_validate_sound_partial.

(* validate_sound, ranges: an accepted file has, in every message, only valid reserved and
   extension ranges (1 <= start <= end-1 <= 2^29-1, with the int32 wrap of the code's End()),
   no range declared twice, pairwise disjoint reserved ranges, pairwise disjoint extension
   ranges, reserved ranges disjoint from extension ranges, and no field numbered inside any of
   them; and in every enum only valid, distinct, pairwise disjoint reserved ranges that contain
   no value number. *)
Theorem C35_validate_sound_ranges : forall allow f,
  validate false allow f = Accept ->
  (forall m, In m (file_msgs f) -> ~ msg_range_error m) /\
  (forall e, In e (file_enums f) -> ~ enum_range_error e).
Proof. exact validate_sound_ranges. Qed.
Print Assumptions C35_validate_sound_ranges.

(* ranges_checkvalid_spec: FieldRanges.CheckValid (stable sort by start + one pass) accepts
   exactly-checked lists: every declared range is valid, no range is repeated, any two distinct
   ranges are disjoint, and Has (binary search over the sorted copy) decides membership. *)
Theorem C35_ranges_checkvalid_spec : forall ms l,
  field_ranges_ok ms l = true ->
  (forall r, In r l -> 1 <= fst r <= fr_end r /\ (ms = false -> fr_end r <= 536870911)) /\ NoDup l /\
  (forall a b, In a l -> In b l -> a <> b -> disjoint fr_end a b) /\
  (forall n, field_ranges_has l n = true <-> exists r, In r l /\ fst r <= n <= fr_end r).
Proof. exact field_ranges_ok_spec. Qed.
Print Assumptions C35_ranges_checkvalid_spec.

Theorem C35_enum_ranges_checkvalid_spec : forall l,
  enum_ranges_ok l = true ->
  (forall r, In r l -> fst r <= snd r) /\ NoDup l /\
  (forall a b, In a l -> In b l -> a <> b -> disjoint snd a b) /\
  (forall n, enum_ranges_has l n = true <-> exists r, In r l /\ fst r <= n <= snd r).
Proof. exact enum_ranges_ok_spec. Qed.
Print Assumptions C35_enum_ranges_checkvalid_spec.

(* checkoverlap_spec: the two-pointer sweep of CheckOverlap over two lists that passed
   CheckValid reports no overlap only if every range of one is disjoint from every range of
   the other. *)
Theorem C35_checkoverlap_spec : forall ms a b,
  field_ranges_ok ms a = true -> field_ranges_ok ms b = true -> ranges_no_overlap a b = true ->
  forall x y, In x a -> In y b -> disjoint fr_end x y.
Proof. exact ranges_no_overlap_spec. Qed.
Print Assumptions C35_checkoverlap_spec.

Example C35_ranges_nonvacuous :
  field_ranges_ok false [(50, 60); (10, 20); (30, 40)] = true /\
  field_ranges_ok false [(40, 50); (20, 30); (60, 70)] = true /\
  ranges_no_overlap [(50, 60); (10, 20); (30, 40)] [(40, 50); (20, 30); (60, 70)] = true /\
  ranges_no_overlap [(50, 60); (10, 20); (30, 40)] [(40, 50); (20, 31); (60, 70)] = false /\
  field_ranges_ok false [(10, 20); (19, 30)] = false /\
  field_ranges_has [(50, 60); (10, 20); (30, 40)] 39 = true /\
  field_ranges_has [(50, 60); (10, 20); (30, 40)] 40 = false.
Proof. exact ranges_examples. Qed.

(* what acceptance means structurally: every message declaration of the tree passed its own
   checks and every enum declaration passed validateEnumDeclarations *)
Theorem C35_accept_structure : forall legacy allow f,
  validate legacy allow f = Accept ->
  (forall m, In m (file_msgs f) -> msg_ok legacy allow (fl_syntax f) (file_table f) m) /\
  (forall e, In e (file_enums f) -> validate_enum (fl_syntax f) e = Ok tt).
Proof. exact accept_structure. Qed.
Print Assumptions C35_accept_structure.

(* validate_accepts_base: files built by the explicit valid-by-construction predicate
   [base_file] (flat messages, scalar fields, valid distinct numbers, file-wide distinct valid
   names, any syntax, any json_name / packed option) are accepted under both AllowUnresolvable
   settings. *)
Theorem C35_validate_accepts_base : forall legacy allow f, base_file f -> validate legacy allow f = Accept.
Proof. exact validate_accepts_base. Qed.
Print Assumptions C35_validate_accepts_base.

Example C35_validate_accepts_base_nonvacuous :
  base_file ex_file /\ validate false false ex_file = Accept /\ validate false true ex_file = Accept.
Proof. exact ex_file_base. Qed.

(* non-vacuity of soundness: the hypothesis is satisfiable (above), and the checks do fire *)
Example C35_validate_sound_nonvacuous :
  validate false false
    (mkFile 0 [112%N] [] [Msg [77%N] [ex_field [97%N] 1 1 5; ex_field [98%N] 1 1 5] [] [] [] [] [] [] [] false false] [])
  = Reject E_m_dupnum /\
  validate false false (mkFile 1 [] [mkEnum [69%N] [mkEValue [65%N] (Some 1)] false [] []] [] []) = Reject E_e_first.
Proof. exact checks_fire. Qed.

(* ---------- multi-file schemas: which files a reference may resolve into (Desc/VisibleModel.v
   mirrors the importSet construction of desc.go; compared with the implementation on random
   import graphs, op "visible") *)

(* import_visibility_sound: whatever the import set contains is the file itself, a direct
   import, or a file reachable from a direct import through PUBLIC import edges only.
   _partial: the converse (completeness of the fuel-bounded traversal for acyclic graphs) is
   checked on the examples below and by the correspondence run, not proved. *)
Theorem C35_import_visibility_sound_partial : forall g a f, visible_b g a f = true -> visible g a f.
Proof. exact visible_b_sound. Qed.
Print Assumptions C35_import_visibility_sound_partial.

(* when no direct import of [a] re-exports anything, nothing beyond the direct imports is visible
   (the a -> b -> c shape with a non-public b -> c edge) *)
Theorem C35_no_public_edges_only_direct : forall g a f,
  (forall d p, In (d, p) (imports_of g a) -> forall j, ~ In (j, true) (imports_of g d)) ->
  visible g a f -> f = a \/ exists p, In (f, p) (imports_of g a).
Proof. exact no_public_edges_only_direct. Qed.
Print Assumptions C35_no_public_edges_only_direct.

Example C35_import_visibility_nonvacuous :
  (visible_b [[]; [(0, false)]; [(1, false)]] 2 0 = false /\
   visible_b [[]; [(0, true)]; [(1, false)]] 2 0 = true /\
   visible_b [[]; [(0, false)]; [(1, true)]] 2 0 = false /\
   visible_b [[]; [(0, true)]; [(1, true)]; [(2, false)]] 3 0 = true /\
   visible_b [[]; [(0, true)]; [(1, false)]; [(2, false)]] 3 0 = false /\
   visible_b [[]; []; [(0, false); (1, true)]; [(2, true)]; [(3, false)]] 4 1 = true /\
   visible_b [[]; []; [(0, false); (1, true)]; [(2, true)]; [(3, false)]] 4 0 = false)%nat.
Proof. exact visible_examples. Qed.

(* ---------- recorded findings: where "rejects every definite error / never crashes" fails *)

(* FM1: an invalid [packed = true] (non-repeated field) is accepted: the "is not packable" check
   of desc_validate.go can never fire *)
Theorem C35_rejects_invalid_packed_refuted :
  exists f, validate false false f = Accept /\
    exists m fl, In m (file_msgs f) /\ In fl (m_fields m) /\ f_packed fl = Some true /\ f_label fl = 1.
Proof. exact invalid_packed_accepted. Qed.
Print Assumptions C35_rejects_invalid_packed_refuted.

(* FM2: a message field numbered in the implementation-reserved range 19000..19999 is accepted *)
Theorem C35_rejects_reserved_implementation_numbers_refuted :
  exists f, validate false false f = Accept /\
    exists m fl, In m (file_msgs f) /\ In fl (m_fields m) /\ 19000 <= f_num fl <= 19999.
Proof. exact reserved_implementation_number_accepted. Qed.
Print Assumptions C35_rejects_reserved_implementation_numbers_refuted.

(* F10: in front of the modelled part, New resolves the edition defaults (model in
   Desc/FeaturesModel.v over the regenerated defaults table); for an edition number that
   toEditionProto does not know this panics, and for edition 0 it calls os.Exit — reachable
   because desc.go skips its edition check under the cmd/protoc-gen-go/testdata/ prefix *)
Theorem C35_never_panics_refuted_F10 : defaults_for 99999 = DPanic /\ defaults_for 0 = DExit.
Proof. exact (conj defaults_unknown_edition_panics defaults_edition_zero_exits). Qed.
Print Assumptions C35_never_panics_refuted_F10.
