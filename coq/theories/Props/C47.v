(* C47 — MessageSet encoding round-trips and matches the item format.
   Statements only; each closed by [exact] of a lemma proved in Msg/MsetP.v or
   Msg/MsetSetP.v.  The model is Msg/MsetModel.v (executed against
   internal/encoding/messageset, internal/impl/codec_messageset.go and
   proto/messageset.go by the harness family "mset").

   Conventions: [wl] is ConsumeFieldValue's wantLen; [kn] says which type ids
   the resolver knows, [pok] which payloads the extension's message type accepts
   (both arbitrary); a MessageSet message is [mset] = extensions sorted by type
   id (payload bytes standing for the extension message) + raw unknown bytes.
   Every length bound [< 2^64] holds for any Go slice. *)
From Coq Require Import List NArith ZArith Bool Lia.
From PB Require Import Base.PBytes Wire.WireModel Msg.MsetModel Msg.MsetWireP Msg.MsetP Msg.MsetSetP.
From PB Require Import Base.GoInt Wire.WireGoBaseP Gen.WireGo Msg.MsetGoRt Gen.MsetGo Msg.MsetGoP.
Import ListNotations.
Open Scope N_scope.

(* ---- the item format: group 1 { type_id = 2 varint; message = 3 bytes } ---- *)
Theorem C47_mset_item_roundtrip :
  forall wl id p rest,
  valid_id id -> N.of_nat (length p) < 2^64 ->
  exists body,
    dec_tag (append_item id p ++ rest) = Ok (1, 3, body) /\
    consume_item wl body = MOk (id, if wl then enc_bytes p else p, rest).
Proof. exact item_roundtrip. Qed.
Print Assumptions C47_mset_item_roundtrip.
Example C47_mset_item_roundtrip_nonvacuous : valid_id 1000 /\ N.of_nat (length [x08; x01]) < 2^64.
Proof. split; [unfold valid_id, max_int32|cbn [length]]; now compute. Qed.

(* any arrangement of the subfields of an item: the last type_id wins (0 when
   there is none: the caller then drops the item), message chunks are
   concatenated in order of arrival (with wantLen: a single chunk keeps its wire
   bytes, merged chunks get a fresh minimal length, no chunk gives a zero
   length), every other subfield is skipped *)
Theorem C47_mset_item_either_order :
  forall wl parts rest,
  Forall valid_part parts ->
  N.of_nat (length (payload_of (chunks_of parts))) < 2^64 ->
  consume_item wl (flat_map render_part parts ++ enc_tag 1 4 ++ rest)
  = MOk (last_id 0 parts, item_message wl (chunks_of parts), rest).
Proof. exact consume_item_parts. Qed.
Print Assumptions C47_mset_item_either_order.
Example C47_mset_item_either_order_nonvacuous :
  Forall valid_part [PChunk (enc_bytes [x08; x01]) [x08; x01]; PJunk 7 0 [x05]; PId 1000; PChunk [x81; x00; x10] [x10]]
  /\ N.of_nat (length (payload_of (chunks_of [PChunk (enc_bytes [x08; x01]) [x08; x01]; PJunk 7 0 [x05]; PId 1000;
                                               PChunk [x81; x00; x10] [x10]]))) < 2^64.
Proof.
  split; [|now vm_compute].
  assert (H1 : valid_part (PChunk (enc_bytes [x08; x01]) [x08; x01])) by (apply lp_enc_bytes; now vm_compute).
  assert (H2 : valid_part (PJunk 7 0 [x05])).
  { split; [unfold valid_num; lia|]. split; [lia|]. split; [reflexivity|].
    intros y. eexists. vm_compute. reflexivity. }
  assert (H3 : valid_part (PId 1000)) by (unfold valid_part, max_int32; lia).
  assert (H4 : valid_part (PChunk [x81; x00; x10] [x10])).
  { apply (lp_of_prefix [x81; x00] [x10]). intros y. reflexivity. }
  repeat (constructor; try assumption).
Qed.

(* message first, type_id second decodes exactly like the canonical order *)
Theorem C47_mset_item_swapped :
  forall wl id p rest,
  valid_id id -> N.of_nat (length p) < 2^64 ->
  consume_item wl (enc_tag 3 2 ++ enc_bytes p ++ enc_tag 2 0 ++ enc_varint id ++ enc_tag 1 4 ++ rest)
  = consume_item wl (item_body id p ++ rest).
Proof. exact item_body_swapped. Qed.
Print Assumptions C47_mset_item_swapped.

(* the two variants of ConsumeFieldValue agree on EVERY input *)
Theorem C47_mset_consume_item_wantlen_agree :
  forall bs, N.of_nat (length bs) < 2^64 ->
  match consume_item false bs with
  | MOk (id, p, r) => exists v, consume_item true bs = MOk (id, v, r) /\ lp v p /\ id <= max_int32
                                /\ (length r < length bs)%nat
  | MErr e => consume_item true bs = MErr e /\ e <> MFuel /\ e <> MImpossible
  end.
Proof. exact consume_item_sim. Qed.
Print Assumptions C47_mset_consume_item_wantlen_agree.

(* ---- messages ---- *)
(* decode (encode content) = content on both paths, for every content a decoder
   can produce: extensions with distinct known ids and accepted payloads (bytes
   arbitrary otherwise), unknown items with unresolvable ids and arbitrary
   payload bytes *)
Theorem C47_mset_roundtrip :
  forall kn pok exts unks,
  content_ok kn pok exts unks -> Forall canon unks ->
  exists bs, encode (mk_mset exts unks) = MOk bs /\
             decode_fast kn pok bs mset_empty = MOk (mk_mset exts unks) /\
             decode_slow kn pok bs mset_empty = MOk (mk_mset exts unks).
Proof. exact mset_roundtrip. Qed.
Print Assumptions C47_mset_roundtrip.
Example C47_mset_roundtrip_nonvacuous :
  content_ok (kn_of [1000]) payload_ok [(1000, [x08; x01])] [(5000, enc_bytes [xff], [xff])]
  /\ Forall canon [(5000, enc_bytes [xff], [xff])].
Proof.
  split; [|repeat constructor].
  split; [|split].
  - constructor; [|constructor]. unfold ext_ok, valid_id, max_int32. cbn [fst snd length].
    split; [lia|]. split; [now vm_compute|]. split; [now vm_compute|now vm_compute].
  - split; [constructor|exact I].
  - constructor; [|constructor]. split; [|now vm_compute].
    unfold witem_ok, valid_id, max_int32. split; [lia|]. split; [|now vm_compute].
    apply lp_enc_bytes. now vm_compute.
Qed.

(* unknown items are preserved: the fast path keeps even a non-minimal length
   prefix byte for byte, the slow path keeps id and payload and re-encodes the
   length *)
Theorem C47_mset_unknown_preserved :
  forall kn pok exts unks,
  content_ok kn pok exts unks ->
  exists bs, encode (mk_mset exts unks) = MOk bs /\
             decode_fast kn pok bs mset_empty = MOk (mk_mset exts unks) /\
             decode_slow kn pok bs mset_empty = MOk (mk_mset_norm exts unks).
Proof. exact mset_unknown_preserved. Qed.
Print Assumptions C47_mset_unknown_preserved.
Example C47_mset_unknown_preserved_nonvacuous :
  content_ok (kn_of [1000]) payload_ok [] [(5000, [x81; x00; xff], [xff]); (3, enc_bytes [], [])].
Proof.
  split; [constructor|split; [exact I|]].
  constructor; [|constructor; [|constructor]].
  - split; [|now vm_compute]. unfold witem_ok, valid_id, max_int32. split; [lia|]. split; [|now vm_compute].
    apply (lp_of_prefix [x81; x00] [xff]). intros y. reflexivity.
  - split; [|now vm_compute]. unfold witem_ok, valid_id, max_int32. split; [lia|]. split; [|now vm_compute].
    apply lp_enc_bytes. now vm_compute.
Qed.

(* Size = length of the encoding, for every message whose Marshal succeeds;
   SizeUnknown agrees with AppendUnknown on every unknown section *)
Theorem C47_mset_size_eq_length :
  forall m bs,
  Forall (fun e => valid_id (fst e) /\ N.of_nat (length (snd e)) < 2^64) (m_ext m) ->
  encode m = MOk bs -> size m = N.of_nat (length bs).
Proof. exact size_eq_length. Qed.
Print Assumptions C47_mset_size_eq_length.
Example C47_mset_size_eq_length_nonvacuous :
  exists bs, encode {| m_ext := [(1000, [x08; x01])]; m_unknown := [xc2; xb8; x02; x01; xff] |} = MOk bs.
Proof. eexists. vm_compute. reflexivity. Qed.

Theorem C47_mset_size_unknown :
  forall u,
  match append_unknown u with
  | MOk bs => size_unknown u = N.of_nat (length bs)
  | MErr _ => size_unknown u = 0
  end.
Proof. exact size_unknown_spec. Qed.
Print Assumptions C47_mset_size_unknown.

(* fast and slow path: same bytes and size for the same message; same
   acceptance, same error, same extensions and the same unknown items (up to
   the spelling of a length prefix) for every input *)
Theorem C47_mset_fast_slow_agree_encode :
  forall m, encode_slow m = encode m /\ size_slow m = size m.
Proof. exact encode_size_fast_slow. Qed.
Print Assumptions C47_mset_fast_slow_agree_encode.

Theorem C47_mset_fast_slow_agree :
  forall kn pok bs s,
  N.of_nat (length bs) < 2^64 ->
  match decode_slow kn pok bs s with
  | MOk t' => exists s', decode_fast kn pok bs s = MOk s' /\ st_rel s' t'
  | MErr e => decode_fast kn pok bs s = MErr e /\ e <> MFuel /\ e <> MImpossible
  end.
Proof. exact decode_fast_slow_agree. Qed.
Print Assumptions C47_mset_fast_slow_agree.

(* ... and "up to the spelling of a length prefix" cannot be dropped (finding FJ1):
   item { type_id 5000, message with length prefix 82 00 } *)
Theorem C47_mset_fast_slow_unknown_bytes_refuted :
  exists f s, decode_fast (fun _ => false) (fun _ => true) fj1_witness mset_empty = MOk f /\
              decode_slow (fun _ => false) (fun _ => true) fj1_witness mset_empty = MOk s /\
              m_unknown f <> m_unknown s.
Proof. exact fast_slow_unknown_differ. Qed.
Print Assumptions C47_mset_fast_slow_unknown_bytes_refuted.

(* the model's loops never run out of fuel and never reach the state in which the Go code would panic *)
Theorem C47_mset_model_total :
  forall kn pok bs s,
  N.of_nat (length bs) < 2^64 ->
  decode_slow kn pok bs s <> MErr MFuel /\ decode_fast kn pok bs s <> MErr MFuel
  /\ decode_fast kn pok bs s <> MErr MImpossible.
Proof. exact decode_no_fuel. Qed.
Print Assumptions C47_mset_model_total.

(* ================================================================== *)
(* Tier T: the same statements about the Go source itself.  Gen/MsetGo.v is
   regenerated from internal/encoding/messageset/messageset.go on every run
   (extractor srcmodel_mset); its calls of protowire.* are the translated
   wire.go functions of Gen/WireGo.v.  [zbytes] is the byte string as the
   translated code sees it; [bn] says whether the argument slice is nil. *)
Open Scope Z_scope.

(* ConsumeFieldValue as written in messageset.go computes consume_item of the
   model on every input (error values by class: go_ParseError of the wire code,
   the errors.New text for an invalid type_id) *)
Theorem C47_go_ConsumeFieldValue_eq_model :
  forall bs bn wl,
  Z.of_nat (length bs) < 2^63 -> (bn = true -> bs = []) ->
  MsetGo.go_ConsumeFieldValue (zbytes bs) bn wl = zres_item (Z.of_nat (length bs)) (consume_item wl bs).
Proof. exact go_ConsumeFieldValue_eq_model. Qed.
Print Assumptions C47_go_ConsumeFieldValue_eq_model.
Example C47_go_ConsumeFieldValue_eq_model_nonvacuous :
  Z.of_nat (length [x10; x01; x0c]) < 2^63 /\ (false = true -> [x10; x01; x0c] = []).
Proof. split; [now vm_compute|discriminate]. Qed.

(* ... and neither indexes out of range (message[nn:], b[:n:n], b[n:]) nor runs out of loop fuel *)
Theorem C47_go_ConsumeFieldValue_total :
  forall bs bn wl,
  Z.of_nat (length bs) < 2^63 -> (bn = true -> bs = []) ->
  exists v, MsetGo.go_ConsumeFieldValue (zbytes bs) bn wl = Val v.
Proof. exact go_ConsumeFieldValue_total. Qed.
Print Assumptions C47_go_ConsumeFieldValue_total.

(* the translated AppendFieldStart / message subfield / AppendFieldEnd, read back
   by the translated ConsumeTag + ConsumeFieldValue, give the type id and the
   message (with its length prefix when wantLen), in either order of the two subfields *)
Theorem C47_go_item_roundtrip :
  forall (wl : bool) (id : N) (p rest : list byte),
  valid_id id -> Z.of_nat (length (append_item id p ++ rest)) < 2^63 ->
  let msg := zbytes (if wl then enc_bytes p else p) in
  exists body,
    go_write_item id p = zbytes (enc_tag 1 3)%N ++ zbytes body /\
    WireGo.go_ConsumeTag (go_write_item id p ++ zbytes rest) = Val (1, 3, Z.of_nat (length (enc_tag 1 3)%N)) /\
    MsetGo.go_ConsumeFieldValue (zbytes body ++ zbytes rest) false wl
      = Val (Z.of_N id, msg, Z.of_nat (length body), GoNil) /\
    exists n,
    MsetGo.go_ConsumeFieldValue
      (zbytes (enc_tag 3 2 ++ enc_bytes p ++ enc_tag 2 0 ++ enc_varint id ++ enc_tag 1 4)%N ++ zbytes rest) false wl
      = Val (Z.of_N id, msg, n, GoNil).
Proof. exact go_item_roundtrip. Qed.
Print Assumptions C47_go_item_roundtrip.
Example C47_go_item_roundtrip_nonvacuous :
  valid_id 1000 /\ Z.of_nat (length (append_item 1000 [x08; x01] ++ [xff])) < 2^63.
Proof. split; [unfold valid_id, max_int32; lia|now vm_compute]. Qed.

(* SizeField(id) + SizeTag(3) + SizeBytes(len p), all as translated, is the
   number of bytes the translated writers produce *)
Theorem C47_go_size_eq_length :
  forall id p,
  valid_id id -> (N.of_nat (length p) < 2^62)%N ->
  go_SizeField (Z.of_N id) + WireGo.go_SizeTag 3 + WireGo.go_SizeBytes (len (zbytes p)) = len (go_write_item id p).
Proof. exact go_size_eq_length. Qed.
Print Assumptions C47_go_size_eq_length.

Theorem C47_go_writers_eq_model :
  (forall num, (num <= 2147483647)%N -> go_SizeField (Z.of_N num) = Z.of_N (size_field num)) /\
  (forall b num, (num <= 2147483647)%N ->
     go_AppendFieldStart (zbytes b) (Z.of_N num) = zbytes (b ++ append_field_start num)) /\
  (forall b, go_AppendFieldEnd (zbytes b) = zbytes (b ++ append_field_end)).
Proof. exact (conj go_SizeField_spec (conj go_AppendFieldStart_spec go_AppendFieldEnd_spec)). Qed.
Print Assumptions C47_go_writers_eq_model.
