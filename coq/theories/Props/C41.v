(* C41 — Generated code compiles and is faithful to its schema.
   Category "other": whether generated code compiles is decided by the Go toolchain, and its
   faithfulness by running it against dynamicpb; both happen in the harness family "gencode" on
   every run.  The Coq part covers only the naming of the generated files
   (CodeGen/GenFileModel.v, executed against protogen by the harness; op "genname").
   Statements only; each closed by [exact] of a lemma proved in CodeGen/GenFileP.v. *)
From Coq Require Import List NArith Bool.
From PB Require Import Base.PBytes CodeGen.GenFileModel CodeGen.GenFileP.
Import ListNotations.
Open Scope nat_scope.

(* paths=source_relative: two different .proto files never produce the same output file *)
Theorem C41_generated_filename_injective :
  forall ip p1 p2 v,
    gen_filename false ip (p1 ++ ext_proto) v = gen_filename false ip (p2 ++ ext_proto) v ->
    p1 ++ ext_proto = p2 ++ ext_proto.
Proof. exact generated_filename_injective. Qed.
Print Assumptions C41_generated_filename_injective.

(* ... and the output is the source path with ".proto" replaced by ".pb.go" *)
Theorem C41_generated_filename_source_relative :
  forall ip p, gen_filename false ip (p ++ ext_proto) false = p ++ suffix_pb_go.
Proof. exact generated_filename_source_relative. Qed.
Print Assumptions C41_generated_filename_source_relative.

(* the two files of the hybrid API (x.pb.go, x_protoopaque.pb.go) are distinct, in every mode *)
Theorem C41_generated_filename_variants_distinct :
  forall m ip n, gen_filename m ip n false <> gen_filename m ip n true.
Proof. exact generated_filename_variants_distinct. Qed.
Print Assumptions C41_generated_filename_variants_distinct.

Theorem C41_generated_filename_suffix :
  forall m ip n v, exists q, gen_filename m ip n v = q ++ suffix_pb_go.
Proof. exact generated_filename_suffix. Qed.
Print Assumptions C41_generated_filename_suffix.

(* module=m removes exactly the prefix m/ *)
Theorem C41_response_name_module :
  forall m rest, m <> [] -> response_name m (m ++ gf_slash :: rest) = Some rest.
Proof. exact response_name_module. Qed.
Print Assumptions C41_response_name_module.

(* Injectivity does not extend further (these are limits of the naming scheme, recorded here so
   that the theorem above is not read as more than it says):
   - "a.proto" and "a.protodevel" map to the same file;
   - with paths=import only the base name counts;
   - the opaque variant of x.proto is the main file of x_protoopaque.proto. *)
Example C41_filename_collision_protodevel :
  gen_filename false [] (gf_str [97] ++ ext_proto) false = gen_filename false [] (gf_str [97] ++ ext_protodevel) false.
Proof. vm_compute. reflexivity. Qed.

Example C41_filename_collision_import_mode :
  gen_filename true (gf_str [103]) (gf_str [97; 47; 120] ++ ext_proto) false
  = gen_filename true (gf_str [103]) (gf_str [98; 47; 120] ++ ext_proto) false.
Proof. vm_compute. reflexivity. Qed.

Example C41_filename_collision_variant :
  gen_filename false [] (gf_str [120] ++ ext_proto) true
  = gen_filename false [] (gf_str [120] ++ variant_opaque ++ ext_proto) false.
Proof. vm_compute. reflexivity. Qed.
