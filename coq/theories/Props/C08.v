(* C08 — Generated fast path and reflection path are indistinguishable.
   Statements only; each closed by [exact] of a lemma proved in Msg/FastSlowP.v.

   The codec, size, equality and determinism models (C03, C04, C05, C30) are functions of the
   abstract message that the harness runs against BOTH paths (generated types, dynamicpb, and --
   family fastslow -- the -tags protoreflect build of the same binary); this file is about the two
   places where the algorithms differ (Msg/FastSlowModel.v):

     fast_slow_order_equal      the emission order computed by internal/impl (extension numbers
                                sorted, then orderedCoderFields: by number, re-sorted with
                                LegacyFieldOrder when the message declares oneofs) and the order
                                computed by proto.marshalMessageSlow in Deterministic mode (Range
                                in any order, sort.Slice with LegacyFieldOrder) are the same list,
                                for every iteration order of the extension map / of Range;
                                stated exactly: populated fields with pairwise distinct numbers
                                below 2^29 (fsm_fields_ok); when the type declares no oneof no
                                regular populated field is a oneof member
     fast_slow_det_bytes_equal  hence the same bytes for any per-field encoder
     normalize_*                [fsm_normalize_unknown_tags] maps what the reflection decoder
                                retains for a sequence of unknown fields (raw tag bytes) to what the
                                table-driven decoder retains (minimal tags), is the identity on the
                                latter, and idempotent
     fast_slow_decode_equal_partial
                                the two modes of the decoder model (Msg/MsgDec.v: [slow = true]
                                proto.unmarshalMessageSlow, [slow = false] internal/impl) give the
                                same verdict on EVERY byte string -- the same error class, except
                                that the reflection path may report the recursion limit where the
                                table-driven path reports a parse error (an end-group tag carrying
                                the number of a map field when no depth is left for a map entry:
                                the reflection path notices an end-group tag only in
                                ConsumeFieldValue, after the map field's depth check; restated
                                after WP-B refined the decoder model) --, and when they
                                accept, the reflection result with its unknown-field tags
                                normalised IS the table-driven result -- by a simulation along the
                                decoder's recursion (Msg/FastSlowDecP.v).  _partial: for schema
                                tables without group-typed fields (the reflection path scans a
                                group with protowire.ConsumeGroup first, the table-driven path
                                reads it directly; their agreement is checked by execution only)
                                and without fields on which the paths validate UTF-8 differently
                                (finding FL1); [fsd_schema_okb] decides that condition.
     fast_slow_decode_equal_step  one step on an unknown field, for all schemas
   Required-field accounting (mask vs tree walk) is C10's subject (W2-A); the harness found the
   two paths to DISAGREE there: finding FWC1 (KNOWN_FINDINGS.txt). *)
From Coq Require Import List NArith ZArith Bool Permutation.
From PB Require Import Base.PBytes Wire.WireModel Wire.WireGrammar.
From PB Require Import Msg.MsgSchema Msg.MsgValue Msg.MsgDec Msg.MsgExample.
From PB Require Import Msg.DetModel Msg.FastSlowModel Msg.FastSlowP Msg.FastSlowDecP.
Import ListNotations.
Open Scope N_scope.

Theorem C08_fast_slow_order_equal :
  forall (has_oneofs : bool) (rx r : list fdesc -> list fdesc) (present : list fdesc),
    fsm_perm_oracle rx -> fsm_perm_oracle r -> fsm_fields_ok present ->
    (has_oneofs = false -> Forall (fun fd => f_ext fd = true \/ f_oneof fd = None) present) ->
    fsm_order_fast has_oneofs rx present = fsm_order_slow r present.
Proof. exact fsm_order_equal. Qed.
Print Assumptions C08_fast_slow_order_equal.

Theorem C08_fast_slow_det_bytes_equal :
  forall (has_oneofs : bool) (rx r : list fdesc -> list fdesc) (present : list fdesc) (enc : fdesc -> list byte),
    fsm_perm_oracle rx -> fsm_perm_oracle r -> fsm_fields_ok present ->
    (has_oneofs = false -> Forall (fun fd => f_ext fd = true \/ f_oneof fd = None) present) ->
    fsm_encode_with (fsm_order_fast has_oneofs rx present) enc = fsm_encode_with (fsm_order_slow r present) enc.
Proof. exact fsm_det_bytes_equal. Qed.
Print Assumptions C08_fast_slow_det_bytes_equal.

Theorem C08_normalize_raw_to_min :
  forall cs, Forall fsm_chunk_ok cs -> fsm_normalize_unknown_tags (fsm_flat_raw cs) = fsm_flat_min cs.
Proof. exact fsm_normalize_raw_to_min. Qed.
Print Assumptions C08_normalize_raw_to_min.

Theorem C08_normalize_min_fixed :
  forall cs, Forall fsm_chunk_ok cs -> fsm_normalize_unknown_tags (fsm_flat_min cs) = fsm_flat_min cs.
Proof. exact fsm_normalize_min_fixed. Qed.
Print Assumptions C08_normalize_min_fixed.

Theorem C08_normalize_idempotent :
  forall cs, Forall fsm_chunk_ok cs ->
  fsm_normalize_unknown_tags (fsm_normalize_unknown_tags (fsm_flat_raw cs)) = fsm_normalize_unknown_tags (fsm_flat_raw cs).
Proof. exact fsm_normalize_idempotent. Qed.
Print Assumptions C08_normalize_idempotent.

Theorem C08_fast_slow_decode_equal_step :
  forall bs num typ r acc acc_s acc_f rs rf,
    dec_tag bs = Ok (num, typ, r) ->
    msg_unknown (firstn (length bs - length r) bs) num typ r acc = DOk (acc_s, rs) ->
    msg_unknown (enc_tag num typ) num typ r acc = DOk (acc_f, rf) ->
    rs = rf /\ fst acc_s = fst acc_f /\
    exists chunk_s chunk_f,
      snd acc_s = snd acc ++ chunk_s /\ snd acc_f = snd acc ++ chunk_f /\
      fsm_normalize_unknown_tags chunk_s = chunk_f /\ fsm_normalize_unknown_tags chunk_f = chunk_f.
Proof. exact fsm_unknown_step. Qed.
Print Assumptions C08_fast_slow_decode_equal_step.

Theorem C08_fast_slow_decode_equal_partial :
  forall (S : schema) (limit tid : nat) (bs : list byte),
    fsd_schema_ok S ->
    match msg_decode true S limit tid bs, msg_decode false S limit tid bs with
    | DOk v_slow, DOk v_fast => fsm_normalize v_slow = v_fast
    | DErr e_slow, DErr e_fast => e_slow = e_fast \/ (e_slow = DDepth /\ e_fast = DParse)
    | _, _ => False
    end.
Proof. exact fsd_decode_equal. Qed.
Print Assumptions C08_fast_slow_decode_equal_partial.

Theorem C08_schema_ok_decidable : forall S, fsd_schema_okb S = true -> fsd_schema_ok S.
Proof. exact fsd_schema_okb_ok. Qed.
Print Assumptions C08_schema_ok_decidable.

(* the two modes fail together on an unknown field *)
Theorem C08_fast_slow_unknown_verdict :
  forall raw1 raw2 num typ r acc,
    (exists e, msg_unknown raw1 num typ r acc = DErr e) <-> (exists e, msg_unknown raw2 num typ r acc = DErr e).
Proof. exact fsm_unknown_verdict. Qed.
Print Assumptions C08_fast_slow_unknown_verdict.

(* ---------- non-vacuity ---------- *)
(* the populated fields of the example message: an extension, regular fields, a oneof member;
   Range order reversed, extension map reversed: one order *)
Definition c08_present : list fdesc := filter (fun fd => negb (f_num fd =? 9)) ex_T0.
Example C08_example_order :
  fsm_order_fast (fsm_has_oneofs ex_T0) (@rev _) c08_present = fsm_order_slow (@rev _) c08_present /\
  map f_num (fsm_order_slow (@rev _) c08_present) = [100; 1; 2; 3; 4; 5; 6; 7; 10; 11; 12; 8].
Proof. vm_compute. split; reflexivity. Qed.
Example C08_example_fields_ok : fsm_fields_ok c08_present /\ fsm_perm_oracle (@rev fdesc).
Proof.
  split; [split|].
  - vm_compute. repeat (constructor; [intros H; repeat (destruct H as [H|H]; [discriminate H|]); exact H|]). constructor.
  - repeat constructor; vm_compute; reflexivity.
  - intros l. apply Permutation_sym, Permutation_rev.
Qed.
(* a field with a tag padded to 3 bytes (number 996, varint 1) normalises to the 2-byte tag *)
Example C08_example_normalize :
  fsm_normalize_unknown_tags [xa0; xbe; x00; x01] = [xa0; x3e; x01] /\
  fsm_normalize_unknown_tags [xa0; x3e; x01] = [xa0; x3e; x01].
Proof. vm_compute. split; reflexivity. Qed.

(* the example schema without its group field satisfies the hypothesis of the decode theorem; on an
   input with a padded unknown tag, a nested message with another one and a map entry, the two
   modes differ, and differ by normalisation only *)
Definition c08_schema : schema := [filter (fun fd => negb (f_num fd =? 7)) ex_T0; ex_T1].
Definition c08_input : list byte :=
  [x08; x05; xa0; xbe; x00; x01; x32; x07; x08; x01; xa8; xbe; x80; x00; x02; x2a; x05; x0a; x01; x61; x12; x00].
Example C08_example_decode :
  fsd_schema_okb c08_schema = true /\
  (exists vs vf, msg_decode true c08_schema 5 0 c08_input = DOk vs /\
                 msg_decode false c08_schema 5 0 c08_input = DOk vf /\ vs <> vf /\ fsm_normalize vs = vf).
Proof.
  split; [vm_compute; reflexivity|].
  eexists. eexists. split; [vm_compute; reflexivity|]. split; [vm_compute; reflexivity|].
  split; [vm_compute; discriminate|vm_compute; reflexivity].
Qed.
