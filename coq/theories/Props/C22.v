(* C22 — JSON scalar values decode exactly.
   Statements only; each closed by [exact] of a lemma proved in Json/*P.v. *)
From Coq Require Import List NArith ZArith.
From PB Require Import Base.PBytes Json.JsonGrammar Json.JsonNumModel Json.JsonNumP Json.JsonIntP.
Import ListNotations.
Open Scope N_scope.

(* The specification side (Json/JsonGrammar.v): [rfc_number raw] is the RFC 8259 number
   grammar; [lit_is_int raw v] says that the rational value mant*10^exp10 of the literal is
   the integer v; [int_in_range bits signed v] that v is representable.  The code side
   (Json/JsonNumModel.v): [decode_int bits signed raw] is Token.Int / Token.Uint
   (parseNumberParts, normalizeToIntString, strconv.ParseInt/ParseUint) on the raw bytes of
   a Number token. *)

(* soundness holds unconditionally: whatever is accepted is the exact value *)
Theorem C22_int_decode_sound :
  forall bits signed raw v, 1 <= bits -> rfc_number raw ->
    decode_int bits signed raw = Some v -> lit_is_int raw v /\ int_in_range bits signed v.
Proof. exact int_decode_sound. Qed.
Print Assumptions C22_int_decode_sound.

(* the full statement (accepted <-> integral and representable) is refuted by the code as
   it stands: finding F6, 0.01e21 = 10^19 into uint64 *)
Theorem C22_int_decode_exact_refuted :
  exists bits signed raw v, rfc_number raw /\ lit_is_int raw v /\ int_in_range bits signed v /\
                            decode_int bits signed raw = None.
Proof. exact int_decode_exact_refuted. Qed.
Print Assumptions C22_int_decode_exact_refuted.

(* ... and holds outside the class recognised by [f6_class] (integer part 0, non-zero
   fraction, exponent above 20; or an exponent outside int32) *)
Theorem C22_int_decode_exact_except_F6 :
  forall bits signed raw v, 1 <= bits <= 64 -> rfc_number raw -> f6_class raw = false ->
    (decode_int bits signed raw = Some v <-> lit_is_int raw v /\ int_in_range bits signed v).
Proof. exact int_decode_exact_except_F6. Qed.
Print Assumptions C22_int_decode_exact_except_F6.

(* the exclusion is tight on the rejecting side: everything in the class is rejected, so the
   property fails exactly on the members of the class that denote a representable integer *)
Theorem C22_int_decode_in_F6_rejected :
  forall bits signed raw, rfc_number raw -> f6_class raw = true -> decode_int bits signed raw = None.
Proof. exact int_decode_in_F6_rejected. Qed.
Print Assumptions C22_int_decode_in_F6_rejected.

(* non-vacuity: notations of 100 into int32, and both F6 witnesses are in the class *)
Example C22_ex_1e2 :
  decode_int 32 true ["1"; "e"; "2"]%byte = Some 100%Z /\
  decode_int 32 true ["1"; "0"; "0"; "."; "0"]%byte = Some 100%Z /\
  decode_int 32 true ["1"; "0"; "0"; "0"; "e"; "-"; "1"]%byte = Some 100%Z /\
  decode_int 32 true ["1"; "."; "5"]%byte = None /\
  decode_int 64 false ["0"; "."; "1"; "e"; "2"; "0"]%byte = Some 10000000000000000000%Z /\
  f6_class f6_witness = true /\ f6_class f6_witness32 = true /\
  f6_class ["0"; "."; "1"; "e"; "2"; "0"]%byte = false.
Proof. vm_compute. repeat split. Qed.
