(* C22 placeholder; theorems follow *)
From PB Require Import Json.JsonScalarModel.
