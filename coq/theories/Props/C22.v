(* C22 — JSON scalar values decode exactly.
   Statements only; each closed by [exact] of a lemma proved in Json/*P.v. *)
From Coq Require Import List NArith ZArith.
From PB Require Import Base.PBytes Json.JsonGrammar Json.JsonNumModel Json.JsonNumP Json.JsonIntP
  Json.JsonLexModel Json.JsonLexP Json.JsonEncModel Json.JsonScalarModel Json.JsonScalarP Json.JsonB64P Json.JsonB64VarP Json.JsonB64IffP Json.JsonB64NlP Json.JsonInt64P Json.JsonQuotedP.
Import ListNotations.
Open Scope N_scope.

(* The specification side (Json/JsonGrammar.v): [rfc_number raw] is the RFC 8259 number
   grammar; [lit_is_int raw v] says that the rational value mant*10^exp10 of the literal is
   the integer v; [int_in_range bits signed v] that v is representable.  The code side
   (Json/JsonNumModel.v): [decode_int bits signed raw] is Token.Int / Token.Uint
   (parseNumberParts, normalizeToIntString, strconv.ParseInt/ParseUint) on the raw bytes of
   a Number token. *)

(* soundness holds unconditionally: whatever is accepted is the exact value *)
Theorem C22_int_decode_sound :
  forall bits signed raw v, 1 <= bits -> rfc_number raw ->
    decode_int bits signed raw = Some v -> lit_is_int raw v /\ int_in_range bits signed v.
Proof. exact int_decode_sound. Qed.
Print Assumptions C22_int_decode_sound.

(* the full statement (accepted <-> integral and representable) is refuted by the code as
   it stands: finding F6, 0.01e21 = 10^19 into uint64 *)
Theorem C22_int_decode_exact_refuted :
  exists bits signed raw v, rfc_number raw /\ lit_is_int raw v /\ int_in_range bits signed v /\
                            decode_int bits signed raw = None.
Proof. exact int_decode_exact_refuted. Qed.
Print Assumptions C22_int_decode_exact_refuted.

(* ... and holds outside the class recognised by [f6_class] (integer part 0, non-zero
   fraction, exponent above 20; or an exponent outside int32) *)
Theorem C22_int_decode_exact_except_F6 :
  forall bits signed raw v, 1 <= bits <= 64 -> rfc_number raw -> f6_class raw = false ->
    (decode_int bits signed raw = Some v <-> lit_is_int raw v /\ int_in_range bits signed v).
Proof. exact int_decode_exact_except_F6. Qed.
Print Assumptions C22_int_decode_exact_except_F6.

(* the exclusion is tight on the rejecting side: everything in the class is rejected, so the
   property fails exactly on the members of the class that denote a representable integer *)
Theorem C22_int_decode_in_F6_rejected :
  forall bits signed raw, rfc_number raw -> f6_class raw = true -> decode_int bits signed raw = None.
Proof. exact int_decode_in_F6_rejected. Qed.
Print Assumptions C22_int_decode_in_F6_rejected.

(* protojson layer (unmarshalInt / unmarshalUint): a bare number token or a quoted number
   (string token whose content is one number, read by a nested Decoder); whatever is accepted
   is the exact value of the literal.  [lexeme k raw] is what parseNext guarantees of a token. *)
Theorem C22_unmarshal_int_sound :
  forall bits tok v, 1 <= bits -> lexeme (t_kind tok) (t_raw tok) ->
    unmarshal_int bits tok = Some v ->
    exists raw, rfc_number raw /\ lit_is_int raw v /\ int_in_range bits true v /\
      ((t_kind tok = KNumber /\ raw = t_raw tok) \/
       (t_kind tok = KString /\ exists w1 w2, ws w1 /\ ws w2 /\ t_str tok = w1 ++ raw ++ w2)).
Proof. exact unmarshal_int_sound. Qed.
Print Assumptions C22_unmarshal_int_sound.

Theorem C22_unmarshal_uint_sound :
  forall bits tok v, lexeme (t_kind tok) (t_raw tok) ->
    unmarshal_uint bits tok = Some v ->
    exists raw, rfc_number raw /\ lit_is_int raw (Z.of_N v) /\ int_in_range bits false (Z.of_N v) /\
      ((t_kind tok = KNumber /\ raw = t_raw tok) \/
       (t_kind tok = KString /\ exists w1 w2, ws w1 /\ ws w2 /\ t_str tok = w1 ++ raw ++ w2)).
Proof. exact unmarshal_uint_sound. Qed.
Print Assumptions C22_unmarshal_uint_sound.

(* int_decode_exact at the protojson layer (unmarshalInt / unmarshalUint, bare and quoted):
   outside the F6 class a token is accepted with value v iff it is a number token, or a string
   token whose whole content is one number literal (no surrounding whitespace), and the literal
   denotes the integer v representable in the type. *)
Theorem C22_unmarshal_int_exact_except_F6 :
  forall bits tok v, 1 <= bits <= 64 -> lexeme (t_kind tok) (t_raw tok) ->
    (forall lit, int_literal_of tok = Some lit -> f6_class lit = false) ->
    (unmarshal_int bits tok = Some v <->
     exists lit, int_literal_of tok = Some lit /\ rfc_number lit /\ lit_is_int lit v /\ int_in_range bits true v).
Proof. exact unmarshal_int_exact_except_F6. Qed.
Print Assumptions C22_unmarshal_int_exact_except_F6.

Theorem C22_unmarshal_uint_exact_except_F6 :
  forall bits tok v, bits <= 64 -> lexeme (t_kind tok) (t_raw tok) ->
    (forall lit, int_literal_of tok = Some lit -> f6_class lit = false) ->
    (unmarshal_uint bits tok = Some v <->
     exists lit, int_literal_of tok = Some lit /\ rfc_number lit /\ lit_is_int lit (Z.of_N v) /\
                 int_in_range bits false (Z.of_N v)).
Proof. exact unmarshal_uint_exact_except_F6. Qed.
Print Assumptions C22_unmarshal_uint_exact_except_F6.

(* enums: by name (first declared value of that name) or by any int32 number *)
Theorem C22_enum_by_name :
  forall values discard tok s v, t_kind tok = KString -> t_str tok = s ->
    enum_by_name values s = Some v -> unmarshal_enum values discard tok = Some (Some v).
Proof. exact enum_name_decodes. Qed.
Print Assumptions C22_enum_by_name.

Theorem C22_enum_by_name_spec :
  forall values s v, enum_by_name values s = Some v ->
    exists pre post, values = pre ++ (s, v) :: post /\ forall n w, In (n, w) pre -> n <> s.
Proof. exact enum_by_name_spec. Qed.
Print Assumptions C22_enum_by_name_spec.

Theorem C22_enum_by_number :
  forall values discard tok v, t_kind tok = KNumber -> rfc_number (t_raw tok) ->
    unmarshal_enum values discard tok = Some (Some v) ->
    lit_is_int (t_raw tok) v /\ int_in_range 32 true v.
Proof. exact enum_number_exact. Qed.
Print Assumptions C22_enum_by_number.

(* floats, relative to the strconv.ParseFloat oracle (a Section variable with the hypothesis
   that its result is correctly rounded): the literal is handed to the oracle once, at the
   field's own width. *)
Theorem C22_float_decode_correctly_rounded_partial :
  forall (parse_float : N -> list byte -> option N) (correctly_rounded : N -> list byte -> N -> Prop),
    (forall bits s b, parse_float bits s = Some b -> correctly_rounded bits s b) ->
    forall bits tok b, t_kind tok = KNumber ->
      unmarshal_float parse_float bits tok = Some (FNum b) -> correctly_rounded bits (t_raw tok) b.
Proof. exact float_decode_number. Qed.
Print Assumptions C22_float_decode_correctly_rounded_partial.

Theorem C22_float_decode_is_oracle :
  forall (parse_float : N -> list byte -> option N) bits tok, t_kind tok = KNumber ->
    unmarshal_float parse_float bits tok =
    match parse_float bits (t_raw tok) with Some b => Some (FNum b) | None => None end.
Proof. exact float_decode_is_oracle. Qed.
Print Assumptions C22_float_decode_is_oracle.

(* 64-bit integers are written as JSON strings (one WriteString call whose bytes are the quoted
   decimal value, nothing to escape) and the string token read back decodes to the same value *)
Theorem C22_int64_written_as_string :
  forall rnd e z, int_in_range 64 true z ->
    marshal_int 64 z = CString (dec_int z) /\
    fst (enc_call rnd (marshal_int 64 z) e) = emit (c_quote :: dec_int z ++ [c_quote]) (prepare_next rnd EKScalar e) /\
    (forall pos rest, parse_string_at pos ((c_quote :: dec_int z ++ [c_quote]) ++ rest)
                      = Ok (dec_int z, length (c_quote :: dec_int z ++ [c_quote]))) /\
    (forall raw pos, unmarshal_int 64 (string_token raw (dec_int z) pos) = Some z).
Proof. exact int64_written_as_string. Qed.
Print Assumptions C22_int64_written_as_string.

Theorem C22_uint64_written_as_string :
  forall rnd e n, n < 2 ^ 64 ->
    marshal_uint 64 n = CString (dec_digits n) /\
    fst (enc_call rnd (marshal_uint 64 n) e) = emit (c_quote :: dec_digits n ++ [c_quote]) (prepare_next rnd EKScalar e) /\
    (forall raw pos, unmarshal_uint 64 (string_token raw (dec_digits n) pos) = Some n).
Proof. exact uint64_written_as_string. Qed.
Print Assumptions C22_uint64_written_as_string.

Theorem C22_int32_written_as_number :
  forall rnd e z, int_in_range 32 true z ->
    fst (enc_call rnd (marshal_int 32 z) e) = emit (dec_int z) (prepare_next rnd EKScalar e) /\
    token_int 32 (dec_int z) = Some z.
Proof. exact int32_written_as_number. Qed.
Print Assumptions C22_int32_written_as_number.

(* bytes: marshalSingular writes padded standard base64 ([marshal_bytes b = CString
   (b64_encode false b)]); unmarshalBytes, through its variant selection, reads it back.
   (Acceptance of the URL-safe and unpadded variants on input is checked by the harness
   against encoding/base64; the decoder model [b64_decode] covers all four variants.) *)
Theorem C22_bytes_base64_roundtrip :
  forall b tok, t_kind tok = KString -> t_str tok = b64_encode false b -> unmarshal_bytes tok = Some b.
Proof. exact bytes_base64_roundtrip. Qed.
Print Assumptions C22_bytes_base64_roundtrip.

(* ... and each of the four encodings (standard / URL-safe alphabet, with / without padding:
   base64.StdEncoding, URLEncoding, RawStdEncoding, RawURLEncoding) of b is accepted by
   unmarshalBytes' variant selection and decodes to b *)
Theorem C22_bytes_base64_accepts_all_variants :
  forall url pad b tok, t_kind tok = KString -> t_str tok = b64_encode_variant url pad b ->
    unmarshal_bytes tok = Some b.
Proof. exact bytes_base64_accepts_all_variants. Qed.
Print Assumptions C22_bytes_base64_accepts_all_variants.

(* ... and nothing else: for strings without CR/LF (which encoding/base64 skips anywhere),
   unmarshalBytes accepts s with result b iff s is a base64 text denoting b ([b64_text]: full
   quanta of four alphabet characters, then optionally a final quantum of 2 or 3 characters,
   completed by '=' iff padding is in force) in the variant it selects: URL-safe alphabet iff
   s contains '-' or '_', padded iff the length of s is a multiple of four. *)
Theorem C22_bytes_base64_accepts_iff :
  forall tok b, t_kind tok = KString -> no_nl (t_str tok) ->
    (unmarshal_bytes tok = Some b <->
     b64_text (has_url_char (t_str tok)) (Nat.eqb (Nat.modulo (length (t_str tok)) 4) 0) (t_str tok) b).
Proof. exact bytes_base64_accepts_iff. Qed.
Print Assumptions C22_bytes_base64_accepts_iff.

(* the same for all strings: encoding/base64 skips CR and LF anywhere, so s is accepted iff s
   with its CR/LF bytes deleted ([strip_nl]) is such a text (the variant selection looks at s
   as given, CR/LF included) *)
Theorem C22_bytes_base64_accepts_iff_nl :
  forall tok b, t_kind tok = KString ->
    (unmarshal_bytes tok = Some b <->
     b64_text (has_url_char (t_str tok)) (Nat.eqb (Nat.modulo (length (t_str tok)) 4) 0) (strip_nl (t_str tok)) b).
Proof. exact bytes_base64_accepts_iff_nl. Qed.
Print Assumptions C22_bytes_base64_accepts_iff_nl.

(* consequences for rejection: every character of an accepted string is in the selected
   alphabet (or is padding when padding is in force); unpadded texts never have length 1 mod 4 *)
Theorem C22_bytes_base64_text_chars :
  forall url pad s b, b64_text url pad s b ->
    Forall (fun c => b64_val url c <> None \/ (pad = true /\ c = c_pad)) s.
Proof. exact b64_text_chars. Qed.
Print Assumptions C22_bytes_base64_text_chars.

Theorem C22_bytes_base64_text_length_raw :
  forall url s b, b64_text url false s b -> (length s mod 4 <> 1)%nat.
Proof. exact b64_text_length_raw. Qed.
Print Assumptions C22_bytes_base64_text_length_raw.

(* non-vacuity: notations of 100 into int32, and both F6 witnesses are in the class *)
Example C22_ex_1e2 :
  decode_int 32 true ["1"; "e"; "2"]%byte = Some 100%Z /\
  decode_int 32 true ["1"; "0"; "0"; "."; "0"]%byte = Some 100%Z /\
  decode_int 32 true ["1"; "0"; "0"; "0"; "e"; "-"; "1"]%byte = Some 100%Z /\
  decode_int 32 true ["1"; "."; "5"]%byte = None /\
  decode_int 64 false ["0"; "."; "1"; "e"; "2"; "0"]%byte = Some 10000000000000000000%Z /\
  f6_class f6_witness = true /\ f6_class f6_witness32 = true /\
  f6_class ["0"; "."; "1"; "e"; "2"; "0"]%byte = false.
Proof. vm_compute. repeat split. Qed.

(* non-vacuity for the protojson layer *)
Definition C22_str_tok (s : list byte) : token :=
  {| t_kind := KString; t_pos := 0; t_raw := []; t_boo := false; t_str := s |}.
Example C22_ex_quoted :
  unmarshal_int 32 (C22_str_tok ["1"; "e"; "2"]%byte) = Some 100%Z /\
  unmarshal_int 32 (C22_str_tok [" "; "1"]%byte) = None /\
  unmarshal_int 64 (C22_str_tok ["-"; "9"; "2"; "2"; "3"; "3"; "7"; "2"; "0"; "3"; "6"; "8"; "5"; "4"; "7"; "7"; "5"; "8"; "0"; "8"]%byte)
    = Some (-9223372036854775808)%Z /\
  unmarshal_uint 64 (C22_str_tok ["0"; "."; "0"; "1"; "e"; "2"; "1"]%byte) = None.
Proof. vm_compute. repeat split. Qed.
Example C22_ex_bytes :
  b64_encode false ["A"; "B"]%byte = ["Q"; "U"; "I"; "="]%byte /\
  unmarshal_bytes (C22_str_tok ["Q"; "U"; "I"; "="]%byte) = Some ["A"; "B"]%byte /\
  unmarshal_bytes (C22_str_tok ["Q"; "U"; "I"]%byte) = Some ["A"; "B"]%byte /\
  unmarshal_bytes (C22_str_tok ["-"; "_"; "8"]%byte) = Some [xfb; xff]%byte /\
  unmarshal_bytes (C22_str_tok ["Q"; "="]%byte) = None /\
  unmarshal_bytes (C22_str_tok ["Q"; "U"; "I"; "!"]%byte) = None /\
  unmarshal_bytes (C22_str_tok ["Q"; "U"; "I"; "D"; "Q"]%byte) = None /\
  b64_encode_variant true false [xfb; xff]%byte = ["-"; "_"; "8"]%byte /\
  no_nl ["Q"; "U"; "I"; "="]%byte.
Proof. vm_compute. repeat split. Qed.
Example C22_ex_enum :
  let values := [(["F"; "O"; "O"]%byte, 0%Z); (["B"; "A"; "R"]%byte, 1%Z)] in
  unmarshal_enum values false (C22_str_tok ["B"; "A"; "R"]%byte) = Some (Some 1%Z) /\
  unmarshal_enum values false (C22_str_tok ["b"; "a"; "r"]%byte) = None /\
  unmarshal_enum values true (C22_str_tok ["b"; "a"; "r"]%byte) = Some None /\
  unmarshal_enum values false {| t_kind := KNumber; t_pos := 0; t_raw := ["1"; "e"; "0"]%byte; t_boo := false; t_str := [] |}
    = Some (Some 1%Z).
Proof. vm_compute. repeat split. Qed.
