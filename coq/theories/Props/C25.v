(* C25 -- placeholder while the proofs are being developed *)
From PB Require Import Base.PBytes Text.TextStrModel.
