(* C25 -- Text string literals encode arbitrary bytes losslessly.
   Statements only; each closed by [exact] of a lemma proved in Text/*P.v. *)
From Coq Require Import List NArith ZArith Bool.
From PB Require Import Base.PBytes Base.Utf8Model Wire.WireModel Text.TextStrModel Text.TextStrP
  Wire.WireGrammar Text.TextUnknownModel Text.TextUnknownP Text.TextUnknownWireP
  Text.TextNumModel Text.TextNumP.
From PB Require Import Base.GoInt Text.TextEscGoSup Gen.TextEscGo Text.TextEscGoP Text.TextEscGoAppP.
Import ListNotations.
Open Scope N_scope.

(* whatever text.appendString writes (either EmitASCII setting), parseString
   reads back as exactly the original bytes and stops right after the closing
   quote -- for EVERY byte list (invalid UTF-8, controls, quotes, ...) *)
Theorem C25_text_string_roundtrip :
  forall ascii bs tail, parse_string (append_string ascii bs ++ tail) = SOk (bs, tail).
Proof. exact text_string_roundtrip. Qed.
Print Assumptions C25_text_string_roundtrip.

(* the same through text.UnmarshalString *)
Theorem C25_unmarshal_string_roundtrip :
  forall ascii bs, unmarshal_string (append_string ascii bs) = SOk bs.
Proof. exact text_unmarshal_string_roundtrip. Qed.
Print Assumptions C25_unmarshal_string_roundtrip.

(* at the Decoder level (parseStringValue: the trailing consume and the
   concatenation of adjacent literals): the literal is read back as one string
   token, and two literals separated by whitespace/comments concatenate *)
Theorem C25_string_token_roundtrip :
  forall ascii bs rest f, no_quote_head (consume_ws false rest) ->
  parse_string_value (S f) (append_string ascii bs ++ rest) = SOk (bs, consume_ws false rest).
Proof. exact text_string_value_roundtrip. Qed.
Print Assumptions C25_string_token_roundtrip.

Theorem C25_string_token_concat :
  forall a1 bs1 a2 bs2 ws rest f,
  consume_ws false (ws ++ append_string a2 bs2 ++ rest) = append_string a2 bs2 ++ rest ->
  no_quote_head (consume_ws false rest) ->
  parse_string_value (S (S f)) (append_string a1 bs1 ++ ws ++ append_string a2 bs2 ++ rest)
  = SOk (bs1 ++ bs2, consume_ws false rest).
Proof. exact text_string_value_concat. Qed.
Print Assumptions C25_string_token_concat.

(* the model's out-of-fuel outcome is unreachable: on EVERY input parseString
   returns a string, unexpected-EOF or a syntax error *)
Theorem C25_parse_string_total : forall inp, parse_string inp <> SErr SFuel.
Proof. exact parse_string_total. Qed.
Print Assumptions C25_parse_string_total.

(* with EmitASCII every output byte is printable ASCII *)
Theorem C25_emit_ascii_printable :
  forall bs, Forall (fun b => 32 <= b2n b <= 126) (append_string true bs).
Proof. exact emit_ascii_printable. Qed.
Print Assumptions C25_emit_ascii_printable.

(* the run-copying fast paths of both Go loops do not change the functions *)
Theorem C25_append_string_fast_path :
  forall ascii bs, append_string ascii bs = append_string_simple ascii bs.
Proof. exact append_string_eq. Qed.
Print Assumptions C25_append_string_fast_path.

(* EmitUnknown: the Encoder (prepareNext's un-indenting slice) cannot panic on
   the call sequences marshalUnknown makes, in single-line and multi-line mode *)
Theorem C25_render_toks_total :
  forall c ts, wf_toks ts ->
  exists s', render_toks c {| es_last := TZero; es_indents := []; es_out := [] |} ts = Some s'.
Proof. exact render_toks_total. Qed.
Print Assumptions C25_render_toks_total.

(* EmitUnknown is total (no Panic outcome: neither the explicit panic on an
   unexpected wire type nor a slice-bounds panic after a failed Consume call) for
   every option setting and every well-formed unknown-field set, stated twice:
   over the wire grammar of C02 (Wire/WireGrammar.v, depth <= 10001 levels,
   non-minimal varints and end-group tags included) and over every byte string
   that the wire scanner accepts as a field sequence *)
Theorem C25_marshal_unknown_total :
  forall c d bs, (d <= N.to_nat 10001)%nat -> wf_fields d bs -> exists out, marshal_unknown c bs = Some out.
Proof. exact marshal_unknown_total_wf. Qed.
Print Assumptions C25_marshal_unknown_total.

Theorem C25_marshal_unknown_total_parsed :
  forall c bs fs, parse_fields (x00 :: bs) default_dep bs [] = Ok fs -> exists out, marshal_unknown c bs = Some out.
Proof. exact marshal_unknown_total_parsed. Qed.
Print Assumptions C25_marshal_unknown_total_parsed.

(* ---- number tokens (the lexical fact C24 needs; the "num" op of this family
   checks the token model against text.Decoder) ----
   every string in the output grammar of strconv.FormatFloat(x, 'g', -1, bits)
   for finite x -- sign? intpart (. digits)? (e sign digits)? -- followed by a
   delimiter or the end of input is lexed by parseNumber as ONE number token:
   its size and string are the whole rendering, kind float unless it has neither
   fraction nor exponent, and ParseFloat's syntax accepts it *)
Theorem C25_float_text_accepted :
  forall neg ip fr ex rest,
  int_part ip -> frac_part fr -> exp_part ex -> at_delim rest = true ->
  let s := float_text neg ip fr ex in
  exists num, parse_number (s ++ rest) = Some num /\
              nsize num = length s /\ nneg num = neg /\ nsep num = O /\
              nkind num = (if TextNumP.is_nil fr && TextNumP.is_nil ex then 0 else 4) /\
              number_string num (s ++ rest) = s.
Proof. exact float_text_accepted. Qed.
Print Assumptions C25_float_text_accepted.

Theorem C25_float_text_syntax_ok :
  forall neg ip fr ex, int_part ip -> frac_part fr -> exp_part ex ->
  float_syntax_ok (float_text neg ip fr ex) = true.
Proof. exact float_text_syntax_ok. Qed.
Print Assumptions C25_float_text_syntax_ok.

(* ---- Tier T: the Go source of appendString / indexNeedEscapeInString itself ----
   Gen/TextEscGo.v is regenerated from internal/encoding/text/encode.go on every
   run (srcmodel_textesc); go_appendString / go_indexNeedEscapeInString are the
   translated functions (byte strings are [list Z], [zb] embeds [list byte]).
   The only bound is Go's own: a string is shorter than 2^63 bytes.  The library
   calls utf8.DecodeRuneInString, strconv.AppendUint, bits.Len32 are the models
   of Text/TextEscGoSup.v (trusted, see props/C25.json). *)
Theorem C25_go_indexNeedEscapeInString_eq_model :
  forall bs, (Z.of_nat (length bs) < 2^63)%Z ->
  go_indexNeedEscapeInString (zb bs) = Val (Z.of_nat (index_need_escape bs)).
Proof. exact go_indexNeedEscapeInString_spec. Qed.
Print Assumptions C25_go_indexNeedEscapeInString_eq_model.

(* the translated appendString equals the hand model on every input: no
   slice-bounds panic (the "00"[k:] paddings included), no fuel exhaustion *)
Theorem C25_go_appendString_eq_model :
  forall out bs ascii, (Z.of_nat (length bs) < 2^63)%Z ->
  go_appendString out (zb bs) ascii = Val (out ++ zb (append_string ascii bs))%list.
Proof. exact go_appendString_spec. Qed.
Print Assumptions C25_go_appendString_eq_model.

(* the property itself, for the translated source: what it writes is read back
   by parseString as exactly the input bytes, stopping after the closing quote *)
Theorem C25_go_appendString_roundtrip :
  forall ascii bs tail, (Z.of_nat (length bs) < 2^63)%Z ->
  exists o, go_appendString [] (zb bs) ascii = Val o /\
            parse_string (map z2byte o ++ tail) = SOk (bs, tail).
Proof. exact go_appendString_roundtrip. Qed.
Print Assumptions C25_go_appendString_roundtrip.

(* with outputASCII the translated source writes printable ASCII only *)
Theorem C25_go_appendString_ascii_printable :
  forall bs, (Z.of_nat (length bs) < 2^63)%Z ->
  exists o, go_appendString [] (zb bs) true = Val o /\ Forall (fun z => 32 <= z <= 126)%Z o.
Proof. exact go_appendString_ascii_printable. Qed.
Print Assumptions C25_go_appendString_ascii_printable.

(* appending to the Encoder's buffer only prefixes it *)
Theorem C25_go_appendString_prefix :
  forall out bs ascii, (Z.of_nat (length bs) < 2^63)%Z ->
  exists o, go_appendString [] (zb bs) ascii = Val o /\ go_appendString out (zb bs) ascii = Val (out ++ o)%list.
Proof. exact go_appendString_prefix. Qed.
Print Assumptions C25_go_appendString_prefix.

(* non-vacuity / sanity: the model computes the expected literals *)
Example C25_ex_escape :
  append_string true [x01; x22; xc3; xa9; xff; x27] =
  [x22; x5c; x78; x30; x31; x5c; x22; x5c; x75; x30; x30; x65; x39; x5c; x78; x66; x66; x27; x22].
Proof. vm_compute. reflexivity. Qed.
Example C25_ex_c1_always_escaped :
  append_string false [xc2; x80; xc3; xa9] = [x22; x5c; x75; x30; x30; x38; x30; xc3; xa9; x22].
Proof. vm_compute. reflexivity. Qed.
Example C25_ex_parse :
  parse_string [x27; x5c; x75; x64; x38; x33; x64; x5c; x75; x64; x65; x30; x30; x5c; x31; x30; x31; x27; x20] =
  SOk ([xf0; x9f; x98; x80; x41], [x20]).
Proof. vm_compute. reflexivity. Qed.
(* the model renders groups (with a non-minimal end tag here); garbage panics *)
Example C25_ex_unknown :
  marshal_unknown {| ec_indent := [x20]; ec_extra := false; ec_ascii := false |}
                  [x0b; x08; x01; x8c; x00; x15; x01; x00; x00; x00] =
  Some [x31; x3a; x20; x7b; x0a; x20; x31; x3a; x20; x31; x0a; x7d; x0a; x32; x3a; x20; x30; x78; x31; x0a].
Proof. vm_compute. reflexivity. Qed.
Example C25_ex_unknown_panics_on_garbage :
  marshal_unknown {| ec_indent := []; ec_extra := false; ec_ascii := false |} [x0c] = None.
Proof. vm_compute. reflexivity. Qed.
(* the float grammar is inhabited: -1.5e+07 *)
Example C25_ex_float_grammar :
  int_part [x31] /\ frac_part [x2e; x35] /\ exp_part [x65; x2b; x30; x37] /\
  float_text true [x31] [x2e; x35] [x65; x2b; x30; x37] = [x2d; x31; x2e; x35; x65; x2b; x30; x37].
Proof.
  split; [|split; [|split; [|reflexivity]]].
  - apply ip_nz; [reflexivity|constructor].
  - apply fp_some; [discriminate|repeat constructor].
  - apply ep_some; [left; reflexivity|discriminate|repeat constructor].
Qed.
(* the hypothesis of C25_marshal_unknown_total_parsed is satisfiable: the
   scanner accepts the byte string of C25_ex_unknown *)
Example C25_ex_unknown_wellformed :
  exists fs, parse_fields (x00 :: [x0b; x08; x01; x8c; x00; x15; x01; x00; x00; x00]) default_dep
                          [x0b; x08; x01; x8c; x00; x15; x01; x00; x00; x00] [] = Ok fs.
Proof. eexists. vm_compute. reflexivity. Qed.
(* the hypotheses of the string-token theorems are satisfiable *)
Example C25_ex_token_hyps :
  no_quote_head (consume_ws false [x20; x23; x22; x0a; x7d]) /\
  consume_ws false ([x20; x0a] ++ append_string false [x41] ++ [x7d]) = append_string false [x41] ++ [x7d].
Proof. split; reflexivity. Qed.
(* the translated source computes the same literal as C25_ex_escape *)
Example C25_ex_go_escape :
  go_appendString [] (zb [x01; x22; xc3; xa9; xff; x27]) true =
  Val (zb [x22; x5c; x78; x30; x31; x5c; x22; x5c; x75; x30; x30; x65; x39; x5c; x78; x66; x66; x27; x22]).
Proof. vm_compute. reflexivity. Qed.
