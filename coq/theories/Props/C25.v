(* C25 -- Text string literals encode arbitrary bytes losslessly.
   Statements only; each closed by [exact] of a lemma proved in Text/*P.v. *)
From Coq Require Import List NArith ZArith.
From PB Require Import Base.PBytes Base.Utf8Model Text.TextStrModel Text.TextStrP.
Import ListNotations.
Open Scope N_scope.

(* whatever text.appendString writes (either EmitASCII setting), parseString
   reads back as exactly the original bytes and stops right after the closing
   quote -- for EVERY byte list (invalid UTF-8, controls, quotes, ...) *)
Theorem C25_text_string_roundtrip :
  forall ascii bs tail, parse_string (append_string ascii bs ++ tail) = SOk (bs, tail).
Proof. exact text_string_roundtrip. Qed.
Print Assumptions C25_text_string_roundtrip.

(* the same through text.UnmarshalString *)
Theorem C25_unmarshal_string_roundtrip :
  forall ascii bs, unmarshal_string (append_string ascii bs) = SOk bs.
Proof. exact text_unmarshal_string_roundtrip. Qed.
Print Assumptions C25_unmarshal_string_roundtrip.

(* with EmitASCII every output byte is printable ASCII *)
Theorem C25_emit_ascii_printable :
  forall bs, Forall (fun b => 32 <= b2n b <= 126) (append_string true bs).
Proof. exact emit_ascii_printable. Qed.
Print Assumptions C25_emit_ascii_printable.

(* the run-copying fast paths of both Go loops do not change the functions *)
Theorem C25_append_string_fast_path :
  forall ascii bs, append_string ascii bs = append_string_simple ascii bs.
Proof. exact append_string_eq. Qed.
Print Assumptions C25_append_string_fast_path.

(* non-vacuity / sanity: the model computes the expected literals *)
Example C25_ex_escape :
  append_string true [x01; x22; xc3; xa9; xff; x27] =
  [x22; x5c; x78; x30; x31; x5c; x22; x5c; x75; x30; x30; x65; x39; x5c; x78; x66; x66; x27; x22].
Proof. vm_compute. reflexivity. Qed.
Example C25_ex_c1_always_escaped :
  append_string false [xc2; x80; xc3; xa9] = [x22; x5c; x75; x30; x30; x38; x30; xc3; xa9; x22].
Proof. vm_compute. reflexivity. Qed.
Example C25_ex_parse :
  parse_string [x27; x5c; x75; x64; x38; x33; x64; x5c; x75; x64; x65; x30; x30; x5c; x31; x30; x31; x27; x20] =
  SOk ([xf0; x9f; x98; x80; x41], [x20]).
Proof. vm_compute. reflexivity. Qed.
