(* C28 — the reflection API follows the protoreflect contract.
   Statements only; each closed by [exact] of a lemma of Msg/ReflectP.v or Msg/ReflectCellP.v.

   The contract (reflect/protoreflect/value.go) is the model Msg/ReflectModel.v: the abstract
   message of the codec model with Has / Get / Set / Clear / Mutable / NewField / WhichOneof /
   Range / GetUnknown / SetUnknown, the List and Map operations, extensions (fields with
   [f_ext]), at any path into sub-messages, reached with Get (read-only empties) or Mutable.
   The harness family "refl" runs every flavour of the implementation against it.

   1. invariant: every history from a well-formed message stays well formed (numbers strictly
      increasing, no empty field, declared fields only, oneofs exclusive, in every sub-message);
   2. consequences for every reachable state and every path: Range visits exactly the populated
      fields, once; oneof members exclude each other and WhichOneof names the populated one;
      Get of an unpopulated field is the default / an empty read-only composite; writes through
      read-only composites panic and change nothing; Truncate beyond the length panics;
   3. refinement: a dynamicpb message (known map entries + ext registration, isSet) and an
      opaque generated message (presence bits, value cells, lazy pointers, oneof wrappers,
      extension entries) simulate the contract model step by step through the abstraction
      function, for every operation at every path, hence for every history.

   Scope of 3 (see props/C28.json level_note): one message level is concrete, the sub-messages
   stored in its cells are abstract values -- deeper levels are the same statement again.
   Findings: FWE1 (Truncate(n), Len < n <= cap, does not panic) contradicts
   [C28_truncate_out_of_bounds_panics] on the implementation.  FWE2 (opaque WhichOneof of a
   synthetic oneof) is repaired in the code (6a7663d); the model follows the repaired code:
   [C28_opaque_synthetic_whichoneof]. *)
From Coq Require Import List NArith ZArith Bool.
From PB Require Import Base.PBytes Wire.WireModel Msg.MsgSchema Msg.MsgValue.
From PB Require Import Msg.ReflectModel Msg.ReflectP Msg.ReflectCellModel Msg.ReflectCellP.
Import ListNotations.
Open Scope N_scope.

(* ---------- 1. the invariant along every history ---------- *)
Theorem C28_invariant_all_histories :
  forall (S : schema) (D : rdefs) (steps : list rstep) (m : value),
    refl_wf S O m = true ->
    refl_wf S O (fst (refl_run S D m steps)) = true /\
    Forall (fun om => refl_wf S O (snd om) = true) (snd (refl_run S D m steps)).
Proof. exact run_wf. Qed.
Print Assumptions C28_invariant_all_histories.

(* a path focuses on one well-formed message level (or fails for every operation alike) *)
Theorem C28_focus_is_a_wellformed_level :
  forall (S : schema) (D : rdefs) (w : bool) (path : list pstep) (tid : nat) (ro : bool) (fs : fields) (u : list byte),
    WFm S (nth tid S []) fs ->
    (forall op, snd (refl_focus S D w path tid ro op (fs, u)) = OPanic) \/
    exists tid' ro' fs' u', WFm S (nth tid' S []) fs' /\
      forall op, snd (refl_focus S D w path tid ro op (fs, u)) = snd (refl_step S D tid' ro' op (fs', u')).
Proof. exact focus_read. Qed.
Print Assumptions C28_focus_is_a_wellformed_level.

(* ---------- 2. consequences ---------- *)
Theorem C28_range_visits_populated_once :
  forall (S : schema) (D : rdefs) (w : bool) (path : list pstep) (m : value) (fs : fields) (u : list byte),
    refl_wf S O m = true ->
    snd (refl_apply S D w path RRange m) = OState fs u ->
    NoDup (map fst fs) /\
    forall k, In k (map fst fs) <-> snd (refl_apply S D w path (RHas k) m) = OBool true.
Proof. exact range_visits_populated_once. Qed.
Print Assumptions C28_range_visits_populated_once.

Theorem C28_oneof_exclusive :
  forall (S : schema) (md : mdesc) (fs : fields) (k1 k2 : N) (fd1 fd2 : fdesc) (i : N),
    WFm S md fs ->
    msg_find_field md k1 = Some fd1 -> msg_find_field md k2 = Some fd2 ->
    f_oneof fd1 = Some i -> f_oneof fd2 = Some i ->
    refl_has fs k1 = true -> refl_has fs k2 = true -> k1 = k2.
Proof. exact oneof_exclusive. Qed.
Print Assumptions C28_oneof_exclusive.

Theorem C28_whichoneof_names_the_populated_member :
  forall (S : schema) (md : mdesc) (fs : fields) (k : N) (fd : fdesc) (o : N),
    NoDup (map f_num md) -> WFm S md fs ->
    msg_find_field md k = Some fd -> f_oneof fd = Some o -> refl_has fs k = true ->
    refl_which md o fs = k.
Proof. exact which_correct. Qed.
Print Assumptions C28_whichoneof_names_the_populated_member.

Theorem C28_get_unpopulated_is_default :
  forall (D : rdefs) (tid : nat) (fd : fdesc) (fs : fields),
    refl_has fs (f_num fd) = false ->
    refl_get D tid fd fs =
      if refl_is_map fd || refl_is_list fd then OVal false []
      else match f_kind fd with
           | KS sk => OVal true [VS (refl_default D tid (f_num fd) sk)]
           | _ => OVal false [msg_empty]
           end.
Proof. exact get_unpopulated_is_default. Qed.
Print Assumptions C28_get_unpopulated_is_default.

Theorem C28_readonly_empty_list :
  forall (S : schema) (D : rdefs) (tid : nat) (ro : bool) (fs : fields) (u : list byte) (f : N) (o : lop),
    refl_has fs f = false ->
    match o with LSet _ _ | LAppend _ | LTruncate _ | LAppendMutable => True | _ => False end ->
    refl_step S D tid ro (RList f true o) (fs, u) = ((fs, u), OPanic).
Proof. exact readonly_empty_list. Qed.
Print Assumptions C28_readonly_empty_list.

Theorem C28_readonly_empty_map :
  forall (S : schema) (D : rdefs) (tid : nat) (ro : bool) (fs : fields) (u : list byte) (f : N) (o : mop),
    refl_has fs f = false ->
    match o with MSet _ _ | MMutable _ => True | _ => False end ->
    refl_step S D tid ro (RMap f true o) (fs, u) = ((fs, u), OPanic).
Proof. exact readonly_empty_map. Qed.
Print Assumptions C28_readonly_empty_map.

Theorem C28_readonly_empty_message_writes_panic :
  forall (S : schema) (D : rdefs) (tid : nat) (op : rop) (fs : fields) (u : list byte),
    match op with RSet _ _ | RClear _ | RMutable _ | RSetUnknown _ => True | _ => False end ->
    refl_step S D tid true op (fs, u) = ((fs, u), OPanic).
Proof. exact readonly_empty_message_step. Qed.
Print Assumptions C28_readonly_empty_message_writes_panic.

Theorem C28_readonly_empty_message_leaves_parent :
  forall (S : schema) (D : rdefs) (rest : list pstep) (tid : nat) (ro : bool) (op : rop) (fs : fields) (u : list byte) (f : N),
    refl_has fs f = false ->
    fst (refl_focus S D false (PF f :: rest) tid ro op (fs, u)) = (fs, u).
Proof. exact readonly_empty_message. Qed.
Print Assumptions C28_readonly_empty_message_leaves_parent.

(* "Get, Set, and Truncate panic with out of bound indexes" -- the implementation does not for
   Truncate(n) with Len < n <= cap: finding FWE1 *)
Theorem C28_truncate_out_of_bounds_panics :
  forall (D : rdefs) (tid : nat) (fd : fdesc) (lro : bool) (vs : list value) (n : N),
    N.of_nat (length vs) < n ->
    refl_list_edit D tid fd lro (LTruncate n) vs = (None, OPanic).
Proof. exact truncate_out_of_bounds. Qed.
Print Assumptions C28_truncate_out_of_bounds_panics.

(* ---------- 3. refinement ---------- *)
Theorem C28_dynamic_cells_satisfy_the_cell_laws : celllaws dyncell dyn_ops dyn_inv.
Proof. exact dyn_laws. Qed.
Print Assumptions C28_dynamic_cells_satisfy_the_cell_laws.

Theorem C28_opaque_cells_satisfy_the_cell_laws : celllaws ocell opq_ops opq_inv.
Proof. exact opq_laws. Qed.
Print Assumptions C28_opaque_cells_satisfy_the_cell_laws.

(* one operation at one path: the concrete machine and the contract model commute with the
   abstraction function (any representation satisfying the cell laws) *)
Theorem C28_step_simulation :
  forall (cell : Type) (ops : cellops cell) (inv : fdesc -> cell -> Prop),
    celllaws cell ops inv ->
    forall (md : mdesc) (S : schema) (D : rdefs) (w : bool) (path : list pstep) (tid : nat) (op : rop)
           (st st' : cmsg cell) (out : rout),
      md = nth tid S [] -> md_ok md -> CInv cell inv md (cm_cells st) ->
      cm_focus cell ops S D w path tid op st = (st', out) ->
      refl_focus S D w path tid false op (cm_abs cell ops md st) = (cm_abs cell ops md st', out) /\
      CInv cell inv md (cm_cells st').
Proof. exact cm_focus_sim. Qed.
Print Assumptions C28_step_simulation.

Theorem C28_dynamic_refines_abstract :
  forall (S : schema) (D : rdefs) (steps : list rstep) (st : cmsg dyncell),
    md_ok (nth O S []) -> CInv dyncell dyn_inv (nth O S []) (cm_cells st) ->
    refl_val_of (cm_abs dyncell dyn_ops (nth O S []) (fst (cm_run dyncell dyn_ops S D st steps))) =
      fst (refl_run S D (refl_val_of (cm_abs dyncell dyn_ops (nth O S []) st)) steps) /\
    snd (cm_run dyncell dyn_ops S D st steps) =
      map fst (snd (refl_run S D (refl_val_of (cm_abs dyncell dyn_ops (nth O S []) st)) steps)) /\
    CInv dyncell dyn_inv (nth O S []) (cm_cells (fst (cm_run dyncell dyn_ops S D st steps))).
Proof. exact dynamic_refines_abstract. Qed.
Print Assumptions C28_dynamic_refines_abstract.

Theorem C28_opaque_refines_abstract :
  forall (S : schema) (D : rdefs) (steps : list rstep) (st : cmsg ocell),
    md_ok (nth O S []) -> CInv ocell opq_inv (nth O S []) (cm_cells st) ->
    refl_val_of (cm_abs ocell opq_ops (nth O S []) (fst (cm_run ocell opq_ops S D st steps))) =
      fst (refl_run S D (refl_val_of (cm_abs ocell opq_ops (nth O S []) st)) steps) /\
    snd (cm_run ocell opq_ops S D st steps) =
      map fst (snd (refl_run S D (refl_val_of (cm_abs ocell opq_ops (nth O S []) st)) steps)) /\
    CInv ocell opq_inv (nth O S []) (cm_cells (fst (cm_run ocell opq_ops S D st steps))).
Proof. exact opaque_refines_abstract. Qed.
Print Assumptions C28_opaque_refines_abstract.

(* WhichOneof of the synthetic oneof of a proto3-optional field on the opaque representation
   (repaired code, former finding FWE2): the member is reported exactly when it is populated *)
Theorem C28_opaque_synthetic_whichoneof :
  forall (fd : fdesc) (c : ocell), opq_which_synthetic fd c = negb (refl_is_nil (opq_vals fd c)).
Proof. exact opq_which_synthetic_correct. Qed.
Print Assumptions C28_opaque_synthetic_whichoneof.

(* ---------- non-vacuity ---------- *)
(* one message type: 1 optional int32, 2 repeated int32, 3 message (oneof 0), 4 string (oneof 0),
   5 lazy message, 6 implicit int64, 7 map<int32, message>, 100 extension int32 *)
Definition c28_md : mdesc :=
  [ mkF 1 (KS SkInt32) COpt None false false false;
    mkF 2 (KS SkInt32) CRep None false false false;
    mkF 3 (KMsg O) COpt (Some 0) false false false;
    mkF 4 (KS SkString) COpt (Some 0) true false false;
    mkF 5 (KMsg O) COpt None false false true;
    mkF 6 (KS SkInt64) CImp None false false false;
    mkF 7 (KMsg O) (CMap SkInt32 false 0%Z) None false false false;
    mkF 100 (KS SkInt32) COpt None false true false ].
Definition c28_schema : schema := [c28_md].
Definition c28_defs : rdefs := mkRD [[(1, SZ 41%Z)]] [[]].
Definition c28_history : list rstep :=
  [ mkStep true [] (RGet 1);
    mkStep true [] (RSet 4 [VS (SBy [x61])]);
    mkStep true [] (RMutable 3);
    mkStep false [] (RWhich 0);
    mkStep true [PF 3] (RSet 6 [VS (SZ 0%Z)]);
    mkStep true [PF 3] (RSet 6 [VS (SZ 7%Z)]);
    mkStep true [] (RList 2 false (LAppend (VS (SZ 1%Z))));
    mkStep true [] (RList 2 false (LAppend (VS (SZ 2%Z))));
    mkStep true [] (RList 2 false (LTruncate 1));
    mkStep true [] (RList 2 false (LTruncate 5));
    mkStep false [PF 5] (RSet 1 [VS (SZ 1%Z)]);
    mkStep true [PF 5] (RSet 1 [VS (SZ 1%Z)]);
    mkStep true [] (RMap 7 false (MMutable (SZ 9%Z)));
    mkStep true [PM 7 (SZ 9%Z)] (RSetUnknown [x08; x01]);
    mkStep true [] (RSet 100 [VS (SZ 5%Z)]);
    mkStep true [] (RClear 3);
    mkStep true [] RRange ].

Example C28_example_md_ok : md_ok c28_md.
Proof. split; [repeat constructor; cbn; intuition discriminate | intros fd H; cbn in H; intuition; subst; reflexivity]. Qed.

Example C28_example_wf : refl_wf c28_schema O msg_empty = true.
Proof. vm_compute. reflexivity. Qed.

(* the history really exercises the model: the final Range shows fields 1? no: 2, 5, 7, 100 *)
Example C28_example_history :
  map fst (snd (refl_run c28_schema c28_defs msg_empty c28_history)) =
  [ OVal true [VS (SZ 41%Z)]; ONone; OVal true [msg_empty]; ONum 3; ONone; ONone; ONone; ONone; ONone; OPanic;
    OPanic; ONone; OVal true [msg_empty]; ONone; ONone; ONone;
    OState [ (2, [VS (SZ 1%Z)]);
             (5, [VMsg [(1, [VS (SZ 1%Z)])] []]);
             (7, [VEntry (SZ 9%Z) (VMsg [] [x08; x01])]);
             (100, [VS (SZ 5%Z)]) ] [] ].
Proof. vm_compute. reflexivity. Qed.

(* both concrete machines, started from the empty message, produce the same results *)
Example C28_example_dynamic :
  snd (cm_run dyncell dyn_ops c28_schema c28_defs (mkCM [] []) c28_history) =
  map fst (snd (refl_run c28_schema c28_defs msg_empty c28_history)).
Proof. vm_compute. reflexivity. Qed.
Example C28_example_opaque :
  snd (cm_run ocell opq_ops c28_schema c28_defs (mkCM [] []) c28_history) =
  map fst (snd (refl_run c28_schema c28_defs msg_empty c28_history)).
Proof. vm_compute. reflexivity. Qed.
