(* C39 -- Textual default values round-trip exactly.
   Statements only; each closed by [exact] of a lemma proved in Text/*P.v.
   [o] is the strconv float oracle: it is irrelevant for every non-float kind
   (the theorems hold for every [o]). *)
From Coq Require Import List NArith ZArith.
From PB Require Import Base.PBytes Text.TextStrModel Text.TextFmtModel Text.DefvalModel Text.TextStrP Text.DefvalP.
Import ListNotations.
Open Scope N_scope.

(* all int32 / int64 / uint32 / uint64 values, both formats *)
Theorem C39_defval_int_roundtrip : forall o f,
  (forall z, (- 2 ^ 31 <= z < 2 ^ 31)%Z ->
     exists s, dv_marshal o (DInt32 z) None KInt32 f = Some s /\ dv_unmarshal o s KInt32 [] f = Some (DInt32 z, None)) /\
  (forall z, (- 2 ^ 63 <= z < 2 ^ 63)%Z ->
     exists s, dv_marshal o (DInt64 z) None KInt64 f = Some s /\ dv_unmarshal o s KInt64 [] f = Some (DInt64 z, None)) /\
  (forall n, n < 2 ^ 32 ->
     exists s, dv_marshal o (DUint32 n) None KUint32 f = Some s /\ dv_unmarshal o s KUint32 [] f = Some (DUint32 n, None)) /\
  (forall n, n < 2 ^ 64 ->
     exists s, dv_marshal o (DUint64 n) None KUint64 f = Some s /\ dv_unmarshal o s KUint64 [] f = Some (DUint64 n, None)).
Proof.
  exact (fun o f => conj (defval_int32_roundtrip o f) (conj (defval_int64_roundtrip o f)
         (conj (defval_uint32_roundtrip o f) (defval_uint64_roundtrip o f)))).
Qed.
Print Assumptions C39_defval_int_roundtrip.

Theorem C39_defval_bool_roundtrip : forall o f b,
  exists s, dv_marshal o (DBool b) None KBool f = Some s /\ dv_unmarshal o s KBool [] f = Some (DBool b, None).
Proof. exact defval_bool_roundtrip. Qed.
Print Assumptions C39_defval_bool_roundtrip.

(* Descriptor format: the named value (the same descriptor) comes back *)
Theorem C39_defval_enum_roundtrip : forall o evs e,
  NoDup (map fst evs) -> In e evs ->
  exists s, dv_marshal o (DEnum (snd e)) (Some e) KEnum FDescriptor = Some s /\
            dv_unmarshal o s KEnum evs FDescriptor = Some (DEnum (snd e), Some e).
Proof. exact defval_enum_roundtrip_descriptor. Qed.
Print Assumptions C39_defval_enum_roundtrip.

(* GoTag format: the number is preserved; the descriptor is the first
   declared value with that number (aliases) *)
Theorem C39_defval_enum_roundtrip_gotag : forall o evs e ev,
  In e evs -> (- 2 ^ 31 <= snd e < 2 ^ 31)%Z ->
  exists s e', dv_marshal o (DEnum (snd e)) ev KEnum FGoTag = Some s /\
               dv_unmarshal o s KEnum evs FGoTag = Some (DEnum (snd e), Some e') /\
               by_number evs (snd e) = Some e' /\ In e' evs.
Proof. exact defval_enum_roundtrip_gotag. Qed.
Print Assumptions C39_defval_enum_roundtrip_gotag.

(* every byte list, both formats (the octal escaper against the text string parser) *)
Theorem C39_defval_bytes_roundtrip : forall o f bs,
  exists s, dv_marshal o (DBytes bs) None KBytes f = Some s /\ dv_unmarshal o s KBytes [] f = Some (DBytes bs, None).
Proof. exact defval_bytes_roundtrip. Qed.
Print Assumptions C39_defval_bytes_roundtrip.

Theorem C39_defval_string_roundtrip : forall o f s evs,
  dv_marshal o (DString s) None KString f = Some s /\ dv_unmarshal o s KString evs f = Some (DString s, None).
Proof. exact defval_string_roundtrip. Qed.
Print Assumptions C39_defval_string_roundtrip.

(* floats: PARTIAL -- relative to the explicit hypotheses about strconv
   (FormatFloat 'g'/-1 then ParseFloat at the same bit size is the identity on
   finite values; the 64-bit parse of a float32 rendering does not fail; finite
   renderings are not "inf"/"-inf"/"nan").  All NaNs are identified. *)
Theorem C39_defval_float_partial : forall o : float_oracle,
  (forall b, finite32 b -> fo_parse32 o (fo_fmt32 o b) = FOk b) ->
  (forall b, finite64 b -> fo_parse64 o (fo_fmt64 o b) = FOk b) ->
  (forall b, finite32 b -> exists v, fo_parse64 o (fo_fmt32 o b) = FOk v) ->
  (forall b, finite32 b -> fo_fmt32 o b <> s_inf /\ fo_fmt32 o b <> s_ninf /\ fo_fmt32 o b <> s_nan) ->
  (forall b, finite64 b -> fo_fmt64 o b <> s_inf /\ fo_fmt64 o b <> s_ninf /\ fo_fmt64 o b <> s_nan) ->
  forall f,
  (forall b, b < 2 ^ 32 ->
     exists s b', dv_marshal o (DFloat32 b) None KFloat f = Some s /\
                  dv_unmarshal o s KFloat [] f = Some (DFloat32 b', None) /\ f32_same b b') /\
  (forall b, b < 2 ^ 64 ->
     exists s b', dv_marshal o (DFloat64 b) None KDouble f = Some s /\
                  dv_unmarshal o s KDouble [] f = Some (DFloat64 b', None) /\ f64_same b b').
Proof. exact defval_float_roundtrip. Qed.
Print Assumptions C39_defval_float_partial.

(* the inf / nan spellings are exact, whatever strconv does *)
Theorem C39_defval_float_specials : forall o,
  marshal_float32 o f32_pinf = s_inf /\ marshal_float32 o f32_ninf = s_ninf /\
  (forall b, f32_is_nan b = true -> marshal_float32 o b = s_nan) /\
  unmarshal_float32 o s_inf = Some f32_pinf /\ unmarshal_float32 o s_ninf = Some f32_ninf /\
  unmarshal_float32 o s_nan = Some f32_nan /\
  marshal_float64 o f64_pinf = s_inf /\ marshal_float64 o f64_ninf = s_ninf /\
  (forall b, f64_is_nan b = true -> marshal_float64 o b = s_nan) /\
  unmarshal_float64 o s_inf = Some f64_pinf /\ unmarshal_float64 o s_ninf = Some f64_ninf /\
  unmarshal_float64 o s_nan = Some f64_nan.
Proof. exact defval_float_specials. Qed.
Print Assumptions C39_defval_float_specials.

(* non-vacuity: the hypotheses of the enum theorems are satisfiable and the model computes *)
Example C39_ex_enum :
  let evs := [([x41], 0%Z); ([x42], 1%Z); ([x43], 1%Z)] in
  NoDup (map fst evs) /\ In ([x43], 1%Z) evs /\
  dv_unmarshal null_oracle [x31] KEnum evs FGoTag = Some (DEnum 1, Some ([x42], 1%Z)) /\
  dv_unmarshal null_oracle [x43] KEnum evs FDescriptor = Some (DEnum 1, Some ([x43], 1%Z)).
Proof.
  cbv zeta. split; [|split; [|split]]; try reflexivity.
  - repeat constructor; cbn; intuition discriminate.
  - cbn; auto.
Qed.
Example C39_ex_int : dv_marshal null_oracle (DInt64 (-9223372036854775808)%Z) None KInt64 FGoTag
  = Some [x2d; x39; x32; x32; x33; x33; x37; x32; x30; x33; x36; x38; x35; x34; x37; x37; x35; x38; x30; x38].
Proof. vm_compute. reflexivity. Qed.
Example C39_ex_bytes : dv_marshal null_oracle (DBytes [x00; xff; x27; x41]) None KBytes FDescriptor
  = Some [x5c; x30; x30; x30; x5c; x33; x37; x37; x5c; x27; x41].
Proof. vm_compute. reflexivity. Qed.
(* the five strconv hypotheses of C39_defval_float_partial are jointly
   satisfiable (by a toy oracle that prints the bit pattern in decimal) *)
Example C39_ex_float_hypotheses_consistent :
  (forall b, finite32 b -> fo_parse32 toy_oracle (fo_fmt32 toy_oracle b) = FOk b) /\
  (forall b, finite64 b -> fo_parse64 toy_oracle (fo_fmt64 toy_oracle b) = FOk b) /\
  (forall b, finite32 b -> exists v, fo_parse64 toy_oracle (fo_fmt32 toy_oracle b) = FOk v) /\
  (forall b, finite32 b -> fo_fmt32 toy_oracle b <> s_inf /\ fo_fmt32 toy_oracle b <> s_ninf /\ fo_fmt32 toy_oracle b <> s_nan) /\
  (forall b, finite64 b -> fo_fmt64 toy_oracle b <> s_inf /\ fo_fmt64 toy_oracle b <> s_ninf /\ fo_fmt64 toy_oracle b <> s_nan).
Proof. exact toy_oracle_ok. Qed.
Example C39_ex_finite : finite32 1065353216 /\ finite64 4607182418800017408 /\ ~ finite32 f32_pinf.
Proof. unfold finite32, finite64, f32_exp, f64_exp, f32_pinf. repeat split; try (vm_compute; congruence). intros [_ H]. apply H. reflexivity. Qed.
