(* C15 — Unmarshal (without Merge) and Reset erase all prior state.
   Statements only; each closed by [exact] of a lemma proved in Msg/ResetP.v.

   [cf] = (struct flavour, build: generated methods or -tags protoreflect, lazy-capable type);
   [schema] = the fields of the message type; a history is any list of operations
   (reflection Set/Clear/Mutable/Append/Truncate, extension set/clear, SetUnknown,
   Size, deterministic Marshal, reading everything, proto.Merge, merging Unmarshal —
   succeeding or failing after any prefix, possibly inside a nested message —,
   non-merging Unmarshal, Reset) that mentions only fields of the schema. *)
From Coq Require Import List NArith Bool.
From PB Require Import Base.PBytes Msg.ResetModel Msg.ResetP.
Import ListNotations.
Open Scope N_scope.

(* proto.Reset after ANY history: the abstract content is empty; with the
   generated Reset every concrete component is the zero value; with the
   reflection reset (resetMessage) the only residue is: nil-or-empty list cells
   (the opaque *[]*T pointer survives Clear), extensions that were set to an
   empty list (Range does not visit them), no presence bit, no oneof, no
   unknown bytes, no lazy buffer, no size cache. *)
Theorem C15_reset_empty :
  forall cf schema ops,
  Forall (op_ok schema) ops ->
  let s := run cf schema ops init in
  abs_empty cf (reset cf schema s) /\
  (fast cf = true -> reset cf schema s = init) /\
  (fast cf = false -> residue cf (reset cf schema s)).
Proof. exact reset_empty. Qed.
Print Assumptions C15_reset_empty.

(* the generated Reset does not even depend on the state being reachable *)
Theorem C15_reset_generated_is_zero_value :
  forall cf schema s, fast cf = true -> reset cf schema s = init.
Proof. exact reset_fast_init. Qed.
Print Assumptions C15_reset_generated_is_zero_value.

(* proto.Unmarshal(b, m) after ANY history = proto.Unmarshal(b, new message),
   for every input, including inputs on which decoding fails after a prefix *)
Theorem C15_unmarshal_equals_fresh :
  forall cf schema ops items fl,
  Forall (op_ok schema) ops ->
  abs_eq cf (unmarshal cf schema items fl (run cf schema ops init))
            (unmarshal cf schema items fl init).
Proof. exact unmarshal_equals_fresh. Qed.
Print Assumptions C15_unmarshal_equals_fresh.

(* default build: not only the content, the whole concrete state coincides *)
Theorem C15_unmarshal_fast_same_state :
  forall cf schema items fl s,
  fast cf = true -> unmarshal cf schema items fl s = unmarshal cf schema items fl init.
Proof. exact unmarshal_fast_same_state. Qed.
Print Assumptions C15_unmarshal_fast_same_state.

(* ---------- non-vacuity ---------- *)
Definition ex_lazy := mkFld 24 ML 0.
Definition ex_int := mkFld 1 SP 0.
Definition ex_list := mkFld 48 LO 0.
Definition ex_schema := [ex_int; ex_lazy; ex_list].
Definition ex_fast := mkCfg Opaque true true.
Definition ex_slow := mkCfg Opaque false true.

(* a history with a lazily decoded field, a reflection Clear and a merging
   Unmarshal that fails after the lazy field: presence bit set, pointer nil,
   lazy buffer replaced, index stale, size cache written *)
Definition ex_hist : list op :=
  [ OUm [WField ex_lazy true 0 100] FNone;
    OClr ex_lazy;
    OSize;
    OUnk [x08; x01];
    OXSet 1000 true 0 7;
    OSet ex_list true 2 300;
    OClr ex_list;
    OUm [WField ex_lazy true 0 200; WField ex_int true 0 201] (FAt 1 false None) ].

Example C15_history_ok : Forall (op_ok ex_schema) ex_hist.
Proof. repeat first [apply Forall_nil | apply Forall_cons | split]; cbn; auto 10. Qed.

Example C15_dirty_state :
  let s := run ex_fast ex_schema ex_hist init in
  has_field ex_fast s ex_lazy = true /\ cells s 24 = CZero /\ pres s = [24] /\
  lazy s = Some (mkLazy [(24, 200); (1, 201)] false (Some [(24, 0%nat)])) /\   (* new buffer, index of the OLD one *)
  cells s 48 = CSeq [] /\ szc s = true /\ unk s = [x08; x01] /\ exts s = [(1000, XVal true [])].
Proof. vm_compute. repeat split. Qed.

(* the erasure is needed: merging WITHOUT the reset gives another content *)
Example C15_merge_without_reset_differs :
  ~ abs_eq ex_fast (um ex_fast [WField ex_int true 0 5] FNone (run ex_fast ex_schema ex_hist init))
                   (um ex_fast [WField ex_int true 0 5] FNone init).
Proof. intros [H _]. specialize (H ex_lazy). vm_compute in H. discriminate. Qed.

(* the reflection reset really leaves the residue the theorem allows *)
Example C15_reflection_reset_residue :
  let s := reset ex_slow ex_schema (run ex_slow ex_schema ex_hist init) in
  cells s 48 = CSeq [] /\ exts s = [(1000, XVal true [])] /\ pres s = [] /\ unk s = [].
Proof. vm_compute. repeat split. Qed.
