(* C01 — Wire primitives round-trip and report exact sizes.
   Statements only; each closed by [exact] of a lemma proved elsewhere. *)
From Coq Require Import List NArith ZArith.
From PB Require Import Base.PBytes Wire.WireModel Wire.VarintP.
Import ListNotations.
Open Scope N_scope.

Theorem C01_varint_roundtrip :
  forall v rest, v < 2^64 -> dec_varint (enc_varint v ++ rest) = Ok (v, rest).
Proof. exact varint_roundtrip. Qed.
Print Assumptions C01_varint_roundtrip.
