(* C01 — Wire primitives round-trip and report exact sizes.
   Statements only; each closed by [exact] of a lemma proved in Wire/VarintP.v,
   Wire/PrimP.v, Wire/ScanP.v, Wire/WireGoP.v.  The spec-level model is
   Wire/WireModel.v; the functions translated from wire.go are Gen/WireGo.v. *)
From Coq Require Import List NArith ZArith.
From PB Require Import Base.PBytes Base.GoInt Wire.WireModel Wire.WireGrammar Wire.VarintP Wire.ScanP Wire.PrimP.
From PB Require Import Gen.WireGo Wire.WireGoP Wire.WireGoLoopP.
Import ListNotations.
Open Scope N_scope.

(* ---------------- varint ---------------- *)
Theorem C01_varint_roundtrip :
  forall v rest, v < 2^64 -> dec_varint (enc_varint v ++ rest) = Ok (v, rest).
Proof. exact varint_roundtrip. Qed.
Print Assumptions C01_varint_roundtrip.

(* len(AppendVarint(v)) = SizeVarint(v), the closed form (9*bitlen+64)/64 *)
Theorem C01_varint_size :
  (forall v, v < 2^64 -> N.of_nat (length (enc_varint v)) = size_varint v) /\
  (forall v, v < 2^64 -> N.of_nat (length (enc_varint v)) = N.max 1 ((N.size v + 6) / 7)).
Proof. exact (conj enc_varint_length enc_varint_length_bits). Qed.
Print Assumptions C01_varint_size.

(* minimality: whatever byte string the decoder maps to v is at least as long *)
Theorem C01_varint_minimal :
  forall bs v r, dec_varint bs = Ok (v, r) -> (length (enc_varint v) <= length bs - length r)%nat.
Proof. exact varint_minimal. Qed.
Print Assumptions C01_varint_minimal.

(* ---------------- fixed32 / fixed64 ---------------- *)
Theorem C01_fixed_roundtrip :
  (forall v rest, v < 2^32 ->
    dec_fixed32 (enc_fixed32 v ++ rest) = Ok (v, rest) /\ length (enc_fixed32 v) = 4%nat) /\
  (forall v rest, v < 2^64 ->
    dec_fixed64 (enc_fixed64 v ++ rest) = Ok (v, rest) /\ length (enc_fixed64 v) = 8%nat).
Proof. exact (conj fixed32_roundtrip fixed64_roundtrip). Qed.
Print Assumptions C01_fixed_roundtrip.

(* the decoders are also injective: the consumed bytes are the encoding of the result *)
Theorem C01_fixed_decode_encode :
  (forall bs v r, dec_fixed32 bs = Ok (v, r) -> bs = enc_fixed32 v ++ r /\ v < 2^32) /\
  (forall bs v r, dec_fixed64 bs = Ok (v, r) -> bs = enc_fixed64 v ++ r /\ v < 2^64).
Proof. exact (conj ((fixed_decode_encode 4)) ((fixed_decode_encode 8))). Qed.
Print Assumptions C01_fixed_decode_encode.

(* ---------------- zig-zag: a bijection int64 <-> uint64 ---------------- *)
Theorem C01_zigzag_bijective :
  (forall x, zz_dec (zz_enc x) = x) /\
  (forall n, zz_enc (zz_dec n) = n) /\
  (forall x, (- 2^63 <= x < 2^63)%Z -> zz_enc x < 2^64) /\
  (forall n, n < 2^64 -> (- 2^63 <= zz_dec n < 2^63)%Z).
Proof. exact (conj zz_dec_enc (conj zz_enc_dec (conj zz_enc_range zz_dec_range))). Qed.
Print Assumptions C01_zigzag_bijective.

(* ---------------- bool ---------------- *)
Theorem C01_bool_bijective :
  (forall b, dec_bool (enc_bool b) = b) /\
  (forall n, n < 2 -> enc_bool (dec_bool n) = n).
Proof. exact (conj bool_roundtrip bool_enc_dec). Qed.
Print Assumptions C01_bool_bijective.

(* ---------------- tags ---------------- *)
Theorem C01_tag_bijective :
  (forall num typ, num <= 2147483647 -> typ < 8 -> decode_tag (encode_tag num typ) = Some (num, typ)) /\
  (forall n1 t1 n2 t2, t1 < 8 -> t2 < 8 -> encode_tag n1 t1 = encode_tag n2 t2 -> n1 = n2 /\ t1 = t2) /\
  (forall x num typ, decode_tag x = Some (num, typ) -> encode_tag num typ = x /\ typ < 8 /\ num <= 2147483647).
Proof. exact (conj tag_decode_encode (conj tag_encode_injective tag_encode_decode)). Qed.
Print Assumptions C01_tag_bijective.

(* through bytes, for every number the code supports (1 .. 2^31-1, which
   includes the documented range 1 .. 2^29-1) *)
Theorem C01_tag_roundtrip :
  forall num typ rest, num_ok num -> typ < 8 ->
    dec_tag (enc_tag num typ ++ rest) = Ok (num, typ, rest) /\
    N.of_nat (length (enc_tag num typ)) = size_tag num.
Proof. exact tag_roundtrip. Qed.
Print Assumptions C01_tag_roundtrip.

(* ---------------- bytes / string (strings are byte strings in the model) ---------------- *)
Theorem C01_bytes_roundtrip :
  forall v rest, N.of_nat (length v) < 2^64 ->
    dec_bytes (enc_bytes v ++ rest) = Ok (v, rest) /\
    N.of_nat (length (enc_bytes v)) = size_bytes (N.of_nat (length v)).
Proof. exact bytes_roundtrip. Qed.
Print Assumptions C01_bytes_roundtrip.

(* ---------------- groups ---------------- *)
(* for every body that is a sequence of well-formed fields (C02 grammar) nested
   at most DefaultRecursionLimit deep *)
Theorem C01_group_roundtrip :
  forall num body rest, num_ok num -> wf_fields (N.to_nat 10000) body ->
    consume_group num (append_group num body ++ rest)
      = Ok (Some body, size_group num (N.of_nat (length body))) /\
    N.of_nat (length (append_group num body)) = size_group num (N.of_nat (length body)).
Proof. exact group_roundtrip. Qed.
Print Assumptions C01_group_roundtrip.

(* ---------------- wire trees: the scanner inverts the renderer ---------------- *)
Theorem C01_parse_render :
  forall v num rest dep, wf_val v -> num_ok num -> (wdepth v <= dep)%nat ->
    parse_val dep num (wtype_of v) (render_val num v ++ rest) = Ok (v, rest).
Proof. exact parse_render. Qed.
Print Assumptions C01_parse_render.

(* ---------------- Tier T: the Go code of wire.go, regenerated on every run,
   equals the model (go_eq_spec) ---------------- *)
Theorem C01_go_Varint :
  (forall b v, v < 2^64 -> go_AppendVarint (zbytes b) (Z.of_N v) = zbytes (b ++ enc_varint v)) /\
  (forall bs, go_ConsumeVarint (zbytes bs) = Val (zres_vn (dec_varint bs) bs)) /\
  (forall v, v < 2^64 -> go_SizeVarint (Z.of_N v) = Z.of_N (size_varint v)).
Proof. exact (conj go_AppendVarint_spec (conj go_ConsumeVarint_spec go_SizeVarint_spec)). Qed.
Print Assumptions C01_go_Varint.

Theorem C01_go_Fixed :
  (forall b v, v < 2^32 -> go_AppendFixed32 (zbytes b) (Z.of_N v) = zbytes (b ++ enc_fixed32 v)) /\
  (forall b v, v < 2^64 -> go_AppendFixed64 (zbytes b) (Z.of_N v) = zbytes (b ++ enc_fixed64 v)) /\
  (forall bs, go_ConsumeFixed32 (zbytes bs) = Val (zres_vn (dec_fixed32 bs) bs)) /\
  (forall bs, go_ConsumeFixed64 (zbytes bs) = Val (zres_vn (dec_fixed64 bs) bs)) /\
  go_SizeFixed32 = 4%Z /\ go_SizeFixed64 = 8%Z.
Proof. exact go_Fixed_spec. Qed.
Print Assumptions C01_go_Fixed.

Theorem C01_go_ZigZag_Bool :
  ((forall x, (- 2^63 <= x < 2^63)%Z -> go_EncodeZigZag x = Z.of_N (zz_enc x)) /\
  (forall n, n < 2^64 -> go_DecodeZigZag (Z.of_N n) = zz_dec n)) /\
  ((forall b, go_EncodeBool b = Z.of_N (enc_bool b)) /\
  (forall n, go_DecodeBool (Z.of_N n) = dec_bool n)).
Proof. exact (conj go_ZigZag_spec go_Bool_spec). Qed.
Print Assumptions C01_go_ZigZag_Bool.

Theorem C01_go_Tag :
  (forall num typ, num <= 2147483647 -> typ < 8 ->
     go_EncodeTag (Z.of_N num) (Z.of_N typ) = Z.of_N (encode_tag num typ)) /\
  (forall x, x < 2^64 ->
     go_DecodeTag (Z.of_N x) = match decode_tag x with
                               | Some (num, typ) => (Z.of_N num, Z.of_N typ)
                               | None => (-1, 0)%Z
                               end) /\
  (forall b num typ, num <= 2147483647 -> typ < 8 ->
     go_AppendTag (zbytes b) (Z.of_N num) (Z.of_N typ) = zbytes (b ++ enc_tag num typ)) /\
  (forall num, num <= 2147483647 -> go_SizeTag (Z.of_N num) = Z.of_N (size_tag num)).
Proof. exact go_Tag_spec. Qed.
Print Assumptions C01_go_Tag.

Theorem C01_go_Bytes :
  (forall b v, N.of_nat (length v) < 2^64 ->
     go_AppendBytes (zbytes b) (zbytes v) = zbytes (b ++ enc_bytes v) /\
     go_AppendString (zbytes b) (zbytes v) = zbytes (b ++ enc_bytes v)) /\
  (forall n, n < 2^62 -> go_SizeBytes (Z.of_N n) = Z.of_N (size_bytes n)) /\
  (forall bs, (Z.of_nat (length bs) < 2^63)%Z ->
     go_ConsumeBytes (zbytes bs) = Val (zres_bytes (dec_bytes bs) bs) /\
     go_ConsumeString (zbytes bs) = Val (zres_bytes (dec_bytes bs) bs)) /\
  (forall b num v, num <= 2147483647 ->
     go_AppendGroup (zbytes b) (Z.of_N num) (zbytes v) = zbytes (b ++ append_group num v)) /\
  (forall num n, num <= 2147483647 -> n < 2^62 ->
     go_SizeGroup (Z.of_N num) (Z.of_N n) = Z.of_N (size_group num n)).
Proof. exact go_Bytes_spec. Qed.
Print Assumptions C01_go_Bytes.

(* the group round trip through the translated Go code (AppendGroup, then
   ConsumeGroup with its strip loop) *)
Theorem C01_go_group_roundtrip :
  forall num body rest, num_ok num -> wf_fields (N.to_nat 10000) body ->
    (Z.of_nat (length (append_group num body ++ rest)) < 2^63)%Z ->
    go_ConsumeGroup (Z.of_N num) (go_AppendGroup [] (Z.of_N num) (zbytes body) ++ zbytes rest)
    = Val (zbytes body, Z.of_N (size_group num (N.of_nat (length body)))).
Proof. exact go_group_roundtrip. Qed.
Print Assumptions C01_go_group_roundtrip.

(* ---------------- non-vacuity ---------------- *)
Example C01_ex_varint : dec_varint (enc_varint 300 ++ [xff]) = Ok (300, [xff]) /\ enc_varint 300 = [xac; x02].
Proof. split; [apply C01_varint_roundtrip|]; vm_compute; reflexivity. Qed.
Example C01_ex_varint_max : N.of_nat (length (enc_varint 18446744073709551615)) = 10.
Proof. rewrite (proj1 C01_varint_size) by (vm_compute; reflexivity). vm_compute. reflexivity. Qed.
Example C01_ex_minimal : (length (enc_varint 1) <= length [x81; x80; x00; xff] - length [xff])%nat.
Proof. apply (C01_varint_minimal [x81; x80; x00; xff] 1 [xff]). vm_compute. reflexivity. Qed.
Example C01_ex_fixed32 : dec_fixed32 (enc_fixed32 4294967295 ++ []) = Ok (4294967295, []).
Proof. apply (proj1 C01_fixed_roundtrip). vm_compute. reflexivity. Qed.
Example C01_ex_fixed64 : dec_fixed64 (enc_fixed64 (2^63) ++ [x01]) = Ok (2^63, [x01]).
Proof. apply (proj2 C01_fixed_roundtrip). vm_compute. reflexivity. Qed.
Example C01_ex_zigzag : zz_enc (-9223372036854775808) = 18446744073709551615 /\ zz_dec 18446744073709551615 = (-9223372036854775808)%Z.
Proof. vm_compute. split; reflexivity. Qed.
Example C01_ex_bool : enc_bool (dec_bool 1) = 1.
Proof. apply (proj2 C01_bool_bijective). vm_compute. reflexivity. Qed.
Example C01_ex_tag : dec_tag (enc_tag 2147483647 7 ++ []) = Ok (2147483647, 7, []).
Proof. apply C01_tag_roundtrip; [split|]; vm_compute; congruence. Qed.
Example C01_ex_bytes : dec_bytes (enc_bytes [x61; x62] ++ [x63]) = Ok ([x61; x62], [x63]).
Proof. apply C01_bytes_roundtrip. vm_compute. reflexivity. Qed.
Example C01_ex_group_body : wf_fields (N.to_nat 10000) [x08; x96; x01; x13; x14].
Proof.
  apply (wf_seq_cons _ [x08] 1 0 [x96; x01] [x13; x14]).
  - vm_compute. repeat split; auto; discriminate.
  - discriminate.
  - rewrite wf_value_eq. cbv iota. apply varint_bytes_decl. exists [x96], x01.
    split; [reflexivity|]. split; [repeat constructor; vm_compute; discriminate|].
    split; [cbn; auto with arith|vm_compute; reflexivity].
  - apply (wf_seq_cons _ [x13] 2 3 [x14] []).
    + vm_compute. repeat split; auto; discriminate.
    + discriminate.
    + replace (N.to_nat 10000) with (S (N.to_nat 9999)) by (rewrite <- Nnat.N2Nat.inj_succ; reflexivity).
      rewrite wf_value_eq. cbv iota.
      exists [], [x14]. split; [reflexivity|]. split; [constructor|]. vm_compute. repeat split; auto; discriminate.
    + constructor.
Qed.
Example C01_ex_group :
  consume_group 5 (append_group 5 [x08; x96; x01; x13; x14] ++ [x00])
  = Ok (Some [x08; x96; x01; x13; x14], size_group 5 5).
Proof. apply C01_group_roundtrip; [split; vm_compute; congruence|exact C01_ex_group_body]. Qed.
Example C01_ex_parse_render :
  parse_val 2 1 3 (render_val 1 (WGroup [(2, WLen [x61]); (3, WGroup [])]) ++ [x07])
  = Ok (WGroup [(2, WLen [x61]); (3, WGroup [])], [x07]).
Proof.
  apply (C01_parse_render (WGroup [(2, WLen [x61]); (3, WGroup [])]) 1 [x07] 2).
  - cbn. repeat split; try (vm_compute; congruence).
  - split; vm_compute; congruence.
  - cbn. auto.
Qed.
Example C01_ex_go_varint : go_AppendVarint (zbytes [x00]) (Z.of_N 300) = [0; 172; 2]%Z.
Proof. rewrite (proj1 C01_go_Varint) by (vm_compute; reflexivity). vm_compute. reflexivity. Qed.
Example C01_ex_go_consume : go_ConsumeVarint [172; 2; 99]%Z = Val (300, 2)%Z.
Proof. apply (proj1 (proj2 C01_go_Varint) [xac; x02; x63]). Qed.
Example C01_ex_go_group :
  go_ConsumeGroup 5 (go_AppendGroup [] 5 [8; 150; 1; 19; 20] ++ [0])%Z = Val ([8; 150; 1; 19; 20], 6)%Z.
Proof.
  apply (C01_go_group_roundtrip 5 [x08; x96; x01; x13; x14] [x00]);
    [split; vm_compute; congruence|exact C01_ex_group_body|vm_compute; reflexivity].
Qed.
