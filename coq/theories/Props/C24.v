(* C24 — prototext round-trips every message.
   Statements only; each closed by [exact] of a lemma proved in Text/TextMsgP.v.

   Model (tree level): Text/TextMsgModel.v -- [to_text] / [of_text] map canonical message values
   (WP-B's Msg/MsgValue.v) to abstract text trees and back, mirroring encoding/prototext/encode.go and
   decode.go: field order (declared fields by index, extensions by full name), repeated fields as
   repeated names, maps as key/value entry messages sorted by key, groups under their type name (the
   text name of the schema), enums by name or number, Any expanded as [type.url] { ... } when the type
   resolves, the value decodes and the content marshals -- otherwise as an ordinary message.
   The byte level (lexing, string escapes incl. EmitASCII, number text, indentation) is C25 and the
   text number model (WP-D); the tree level does not depend on Multiline / Indent / EmitASCII at all
   (C24_rendering_options_irrelevant), so every theorem below holds for all option values.

   Full statement (DESIGN.md section 7):
     forall opts S m, valid S m -> of_text S (to_text opts S m) = Ok (strip_unknown m)
   Refuted as the code stands (C24_text_roundtrip_refuted, finding FWD1): an Any whose type URL
   contains a character outside the alphabet that the text lexer accepts between '[' and ']'
   (e.g. the ':' of "https://...") is expanded by Marshal into text that Unmarshal rejects.
   Proved: the statement with exactly that exclusion (C24_text_roundtrip_except_FWD1), for every
   schema table accepted by [text_schema_ok] (a decidable check that every schema of the harness
   passes) and every canonical value accepted by [text_valid true] (Text/TextMsgValid.v):
   typed, in range, strings of validated fields valid UTF-8, NaNs in normal form (all NaNs are
   identified), Any values that get expanded hold the deterministic encoding of valid content.

   _partial: floats are strconv-relative (C24_float32_roundtrip_partial / float64: under the explicit
   hypotheses that shortest formatting followed by parsing at the same bit size is the identity on
   finite values and never spells nan/inf); the byte-level statement is by composition with C25 and
   the text number model. *)
From Coq Require Import List NArith ZArith Bool.
From PB Require Import Base.PBytes Msg.MsgSchema Msg.MsgValue Json.RtSchema.
From PB Require Import Text.TextMsgModel Text.TextMsgValid Text.TextMsgP Text.TextMsgExample.
Import ListNotations.
Open Scope N_scope.

Theorem C24_text_roundtrip_except_FWD1 :
  forall (o : topts) (S : schema) (nm : names) (lim fuel tid : nat) (v : value),
    text_schema_ok S nm = true ->
    text_valid true S nm lim fuel tid v = true ->
    exists t, to_text o S nm lim fuel tid v = TOk t /\ of_text S nm fuel tid t = TOk (strip_unknown v).
Proof. exact text_roundtrip_except_FWD1. Qed.
Print Assumptions C24_text_roundtrip_except_FWD1.

(* the full statement ([text_valid false]: no condition on type URLs) is refuted *)
Theorem C24_text_roundtrip_refuted :
  exists (o : topts) (S : schema) (nm : names) (lim fuel tid : nat) (v : value) (t : tfields),
    text_schema_ok S nm = true /\ text_valid false S nm lim fuel tid v = true /\
    to_text o S nm lim fuel tid v = TOk t /\ of_text S nm fuel tid t <> TOk (strip_unknown v).
Proof.
  exists (mkTO false false false), ex_schema, ex_names, 100%nat, 4%nat, 0%nat, ex_any_fwd1.
  eexists. split; [vm_compute; reflexivity|]. split; [vm_compute; reflexivity|].
  split; [vm_compute; reflexivity|]. vm_compute. discriminate.
Qed.
Print Assumptions C24_text_roundtrip_refuted.

Theorem C24_marshal_total :
  forall (o : topts) (S : schema) (nm : names) (lim fuel tid : nat) (v : value),
    text_schema_ok S nm = true ->
    text_valid true S nm lim fuel tid v = true ->
    exists t, to_text o S nm lim fuel tid v = TOk t.
Proof. exact text_marshal_total. Qed.
Print Assumptions C24_marshal_total.

Theorem C24_rendering_options_irrelevant :
  forall (o o' : topts) (S : schema) (nm : names) (lim fuel tid : nat) (v : value),
    to_text o S nm lim fuel tid v = to_text o' S nm lim fuel tid v.
Proof. exact text_rendering_options_irrelevant. Qed.
Print Assumptions C24_rendering_options_irrelevant.

Theorem C24_float32_roundtrip_partial :
  forall (fmt32 : N -> list byte) (parse32 : list byte -> option N),
    (forall b, f32_finite b = true -> parse32 (fmt32 b) = Some b) ->
    (forall b, f32_finite b = true -> float_lit true (fmt32 b) = None) ->
    forall b, read_f32 parse32 (render_f32 fmt32 b) = Some (if f32_is_nan b then f32_nan else b).
Proof. exact float32_text_roundtrip. Qed.
Print Assumptions C24_float32_roundtrip_partial.

Theorem C24_float64_roundtrip_partial :
  forall (fmt64 : N -> list byte) (parse64 : list byte -> option N),
    (forall b, f64_finite b = true -> parse64 (fmt64 b) = Some b) ->
    (forall b, f64_finite b = true -> float_lit false (fmt64 b) = None) ->
    forall b, read_f64 parse64 (render_f64 fmt64 b) = Some (if f64_is_nan b then f64_nan else b).
Proof. exact float64_text_roundtrip. Qed.
Print Assumptions C24_float64_roundtrip_partial.

(* non-vacuity: the example schema passes the schema check; a message with scalars, a NaN, infinities
   and -0 in a packed list, a map, a nested message with unknown fields, an expanded Any, an enum, a
   oneof member, an extension and unknown fields is valid, and its round trip computes *)
Example C24_example_schema_ok : text_schema_ok ex_schema ex_names = true.
Proof. vm_compute. reflexivity. Qed.
Example C24_example_valid : text_valid true ex_schema ex_names 100 5 1 ex_t = true.
Proof. vm_compute. reflexivity. Qed.
Example C24_example_roundtrip :
  exists t, to_text (mkTO true true true) ex_schema ex_names 100 5 1 ex_t = TOk t /\
            of_text ex_schema ex_names 5 1 t = TOk (strip_unknown ex_t).
Proof. eexists. split; [vm_compute; reflexivity|]. vm_compute. reflexivity. Qed.
(* the FWD1 witness is excluded only by the URL condition *)
Example C24_example_fwd1_excluded :
  text_valid true ex_schema ex_names 100 4 0 ex_any_fwd1 = false /\
  text_valid false ex_schema ex_names 100 4 0 ex_any_fwd1 = true.
Proof. vm_compute. split; reflexivity. Qed.
