(* C30 — Equality is an equivalence consistent across implementations.
   Statements only; each closed by [exact] of a lemma proved in Msg/Equal*P.v.

   Model: Msg/EqualModel.v.  Messages are [value]s read as concrete messages (bindings in any
   order, possibly holding empty lists -- an allocated empty Go slice/map or an extension-map entry
   with an empty list --, map entries in any order); [eqm_wf] says that bound numbers are declared
   and pairwise distinct and map keys pairwise distinct.  Two algorithms are modelled:
     eqm_value  protoreflect.Value.Equal / equalMessage (Range over x, y.Has && equal, count of
                populated fields, equalUnknown): proto.Equal for dynamicpb, mixed pairs, -tags protoreflect
     eqm_fast   internal/impl/equal.go (has(x) = has(y) per declared field, extension-map entries
                pairwise with empty lists counting as absent, nested messages by the same
                algorithm, scalars AND groups by Value.Equal)
   Scalars: floats are compared as the code does (both NaN, or ==, so +0 = -0); bytes nil/empty are
   one value of the model ([SBy []]); unknown fields: same length, and byte-equal or equal per field
   number after grouping (order within a number matters, between numbers not).

   Proved for every schema:
     equal_refl (incl. NaN), equal_sym, equal_trans        on well-formed values
     fast_equal_eq_reflect_equal                           the two algorithms agree
     equal_unknown_interleaving                            + a witness that order within one number matters
     equal_clone                                           the order of bindings is irrelevant
     equal_decode_encode                                   corollary of C03 (same restrictions: _partial)
     valid_wf                                              C03's canonical values are well-formed here
   Not modelled: cmp.Equal with protocmp.Transform (the harness compares it with proto.Equal on
   every eligible pair); invalid (nil) messages (C31); lazily stored extension values (the
   comparison reads x.Value(), which decodes them: same observable). *)
From Coq Require Import List NArith ZArith Bool Permutation.
From PB Require Import Base.PBytes Wire.WireModel.
From PB Require Import Msg.MsgSchema Msg.MsgValue Msg.MsgEnc Msg.MsgDec Msg.MsgValid Msg.MsgExample.
From PB Require Import Msg.EqualModel Msg.EqualP Msg.EqualMsgP Msg.EqualFastP Msg.EqualCorP.
Import ListNotations.
Open Scope N_scope.

Theorem C30_equal_refl :
  forall (S : schema) (k : kind) (x : value), eqm_wf S k x = true -> eqm_value S k x x = true.
Proof. exact (fun S x k => eqm_value_refl S k x). Qed.
Print Assumptions C30_equal_refl.

Theorem C30_equal_sym :
  forall (S : schema) (k : kind) (x y : value),
    eqm_wf S k x = true -> eqm_wf S k y = true -> eqm_value S k x y = true -> eqm_value S k y x = true.
Proof. exact (fun S k x y => eqm_value_sym S x k y). Qed.
Print Assumptions C30_equal_sym.

Theorem C30_equal_trans :
  forall (S : schema) (k : kind) (x y z : value),
    eqm_value S k x y = true -> eqm_value S k y z = true -> eqm_value S k x z = true.
Proof. exact (fun S k x y z => eqm_value_trans S x k y z). Qed.
Print Assumptions C30_equal_trans.

(* scalars: equality of classes -- all NaNs are one class, +0 and -0 are one class *)
Theorem C30_equal_scalar_class :
  forall (k : kind) (x y : scalar), eqm_scalar k x y = eqm_key (eqm_sclass k x) (eqm_sclass k y).
Proof. exact eqm_scalar_class. Qed.
Print Assumptions C30_equal_scalar_class.

Theorem C30_fast_equal_eq_reflect_equal :
  forall (S : schema) (k : kind) (x y : value),
    eqm_wf S k x = true -> eqm_wf S k y = true -> eqm_fast S k x y = eqm_value S k x y.
Proof. exact (fun S k x y => eqm_fast_eq_value S x k y). Qed.
Print Assumptions C30_fast_equal_eq_reflect_equal.

(* unknown fields: two adjacent fields with different numbers may be exchanged *)
Theorem C30_equal_unknown_interleaving :
  forall (c1 c2 : N * list byte) (pre post : list (N * list byte)),
    Forall eqm_is_chunk (pre ++ c1 :: c2 :: post) -> fst c1 <> fst c2 ->
    eqm_unknown (eqm_flat (pre ++ c1 :: c2 :: post)) (eqm_flat (pre ++ c2 :: c1 :: post)) = true.
Proof. exact eqm_unknown_interleaving. Qed.
Print Assumptions C30_equal_unknown_interleaving.

(* ... and equalUnknown is an equivalence relation on all byte strings *)
Theorem C30_equal_unknown_equivalence :
  (forall x, eqm_unknown x x = true) /\
  (forall x y, eqm_unknown x y = true -> eqm_unknown y x = true) /\
  (forall x y z, eqm_unknown x y = true -> eqm_unknown y z = true -> eqm_unknown x z = true).
Proof. exact (conj eqm_unknown_refl (conj eqm_unknown_sym eqm_unknown_trans)). Qed.
Print Assumptions C30_equal_unknown_equivalence.

(* the order in which a message lists its bindings is irrelevant: a copy built through reflection,
   a clone, a merge into an empty message are Equal to the original *)
Theorem C30_equal_clone :
  forall (S : schema) (k : kind) (fa fa' : fields) (ua : list byte) (fb fb' : fields) (ub : list byte),
    Permutation fa fa' -> Permutation fb fb' -> NoDup (map fst fb) ->
    eqm_value S k (VMsg fa ua) (VMsg fb ub) = eqm_value S k (VMsg fa' ua) (VMsg fb' ub).
Proof. exact eqm_value_binding_order. Qed.
Print Assumptions C30_equal_clone.

Theorem C30_valid_wf :
  forall (slow : bool) (S : schema) (dep tid : nat) (v : value),
    msg_typed slow S dep tid v = true -> eqm_wf S (KMsg tid) v = true.
Proof. exact eqm_typed_wf. Qed.
Print Assumptions C30_valid_wf.

Theorem C30_equal_decode_encode_partial :
  forall (slow : bool) (S : schema) (limit : nat) (tid : nat) (v : value),
    msg_valid slow S limit tid v = true ->
    exists v', msg_decode slow S limit tid (msg_encode S tid v) = DOk v' /\ eqm_equal S tid v v' = true.
Proof. exact eqm_equal_decode_encode. Qed.
Print Assumptions C30_equal_decode_encode_partial.

(* ---------- non-vacuity ---------- *)
(* the example message of C03 (a NaN double, maps, a group list, a oneof member, an extension,
   unknown fields) is well-formed and Equal to itself under both algorithms *)
Example C30_example_wf :
  eqm_wf ex_schema (KMsg 0) ex_msg = true /\ eqm_equal ex_schema 0 ex_msg ex_msg = true /\
  eqm_fast ex_schema (KMsg 0) ex_msg ex_msg = true.
Proof. vm_compute. repeat split; reflexivity. Qed.

(* NaN payloads, +0 / -0 (field 10 is a required double); the bytes differ, the messages are Equal *)
Definition c30_with10 (bits : N) : value := VMsg [(1, [VS (SZ 5)]); (10, [VS (SN bits)])] [].
Example C30_example_floats :
  eqm_equal ex_schema 0 (c30_with10 9221120237041090561) (c30_with10 18442240474082181411) = true /\
  eqm_equal ex_schema 0 (c30_with10 0) (c30_with10 9223372036854775808) = true /\
  eqm_equal ex_schema 0 (c30_with10 0) (c30_with10 1) = false /\
  msg_encode ex_schema 0 (c30_with10 0) <> msg_encode ex_schema 0 (c30_with10 9223372036854775808).
Proof. vm_compute. repeat split; try reflexivity. discriminate. Qed.

(* presence matters: an explicit zero is not an unset field; an empty binding is an unset field;
   an extension-map entry holding nothing is an unset extension for both algorithms *)
Example C30_example_presence :
  eqm_equal ex_schema 0 (VMsg [(1, [VS (SZ 0)])] []) (VMsg [] []) = false /\
  eqm_equal ex_schema 0 (VMsg [(4, [])] []) (VMsg [] []) = true /\
  eqm_fast ex_schema (KMsg 0) (VMsg [(100, [])] []) (VMsg [] []) = true /\
  eqm_fast ex_schema (KMsg 0) (VMsg [] []) (VMsg [(100, []); (4, [])] []) = true /\
  eqm_fast ex_schema (KMsg 0) (VMsg [] []) (VMsg [(100, [VS (SN 0)])] []) = false.
Proof. vm_compute. repeat split; reflexivity. Qed.

(* unknown fields: 99:varint 7 and 100:fixed32 may be exchanged; two occurrences of number 99 with
   different values may not *)
Example C30_example_unknown :
  eqm_is_chunk (99, [x98; x06; x07]) /\ eqm_is_chunk (100, [xa5; x06; x01; x02; x03; x04]) /\
  eqm_unknown [x98; x06; x07; xa5; x06; x01; x02; x03; x04] [xa5; x06; x01; x02; x03; x04; x98; x06; x07] = true /\
  eqm_unknown [x98; x06; x07; x98; x06; x08] [x98; x06; x08; x98; x06; x07] = false.
Proof.
  split; [exists 0; vm_compute; reflexivity|]. split; [exists 5; vm_compute; reflexivity|].
  split; vm_compute; reflexivity.
Qed.

(* map entries and bindings in another order *)
Example C30_example_order :
  eqm_equal ex_schema 0
    (VMsg [(12, [VEntry (SZ 3) (VS (SZ 0)); VEntry (SZ (-7)) (VS (SZ 1))]); (1, [VS (SZ 5)])] [])
    (VMsg [(1, [VS (SZ 5)]); (12, [VEntry (SZ (-7)) (VS (SZ 1)); VEntry (SZ 3) (VS (SZ 0))])] []) = true.
Proof. vm_compute. reflexivity. Qed.
