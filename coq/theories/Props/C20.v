(* C20 — protojson round-trips every JSON-representable message.
   Statements only; each closed by [exact] of a lemma proved in Json/JsonMsgP.v.

   Model (tree level): Json/JsonMsgModel.v -- [to_json] / [of_json] map canonical message values
   (WP-B's Msg/MsgValue.v) to abstract JSON values and back, mirroring encoding/protojson/encode.go,
   decode.go and well_known_types.go: member order (declared fields by index, extensions by full name),
   JSON name or proto name, enums by name or number (unknown numbers as numbers, NullValue as null),
   EmitUnpopulated / EmitDefaultValues (unpopulatedFieldRanger), 64-bit integers as strings, bytes as
   base64, non-finite floats as strings, maps with stringified sorted keys, and the special mappings
   of Any, Timestamp, Duration, the wrappers, Struct, ListValue, Value, FieldMask, Empty.
   The option record is a universally quantified parameter of every theorem (all 2^6 combinations at
   once); Multiline and Indent do not influence the tree at all (C20_rendering_options_irrelevant).
   The byte level (tokenizer, string escapes, number text) is C21/C22; base64 and the Timestamp /
   Duration strings enter as the codec parameter [cd] (C22/C23; executable instance Json/JsonWktLite.v).

   Full statement (DESIGN.md section 7):
     forall opts S m, representable S m -> to_json opts S m = Ok j -> of_json S j = Ok (strip_unknown m)
   Refuted as the code stands (C20_json_roundtrip_refuted, finding F11): under EmitUnpopulated an unset
   explicit-presence field of type google.protobuf.NullValue (or Value) is written as null, and null
   unmarshals into a set field.
   Proved (C20_json_roundtrip_except_F11_partial): the statement with exactly the exclusion of F11
   ([json_valid true]: EmitUnpopulated /\ an unset explicit-presence Value/NullValue field outside
   every oneof), for all option records, every schema table accepted by [json_schema_ok] (decidable;
   every schema the harness uses is checked with the extracted function) and every representable
   canonical value ([json_valid2] = [json_valid] of Json/JsonMsgValid.v plus: a Value has exactly one kind and
   a finite number).
   _partial, because:
     [json_core2] every message type of the table that carries the code of a special JSON mapping has the
                  shape of the corresponding well-known type (Any, Timestamp, Duration, the wrappers,
                  Struct, ListValue, Value, FieldMask, Empty: Json/JsonWktValid.v) -- a decidable check
                  that the real descriptors pass; all special mappings are inside the proved part;
     [codec_ok]   the string forms owned by other properties enter as round-trip hypotheses on the codec:
                  base64 (C22) -- proved for the executable codec, Json/JsonB64RtP.v -- and the Timestamp /
                  Duration strings (C23: parse (format s n) = (s, n) on the range Marshal accepts);
     floats are strconv-relative (NF32/NF64 nodes), lexing is by composition with C21.
   C20_json_marshal_fails_only_when_partial: representable content never makes Marshal fail (core);
   that every failure is one of the enumerated classes is checked on the implementation and on the
   model by the harness (error classes are compared on every failing case). *)
From Coq Require Import List NArith ZArith Bool.
From PB Require Import Base.PBytes Msg.MsgSchema Msg.MsgValue Json.RtSchema.
From PB Require Import Json.JsonMsgModel Json.JsonMsgValid Json.JsonWktValid Json.JsonWktLite Json.JsonMsgP Json.JsonWktP.
From PB Require Import Text.TextMsgExample.
Import ListNotations.
Open Scope N_scope.

Theorem C20_json_roundtrip_except_F11_partial :
  forall (cd : jcodec) (o : jopts) (S : schema) (nm : names) (lim fuel tid : nat) (v : value),
    codec_ok cd ->
    json_schema_ok S nm = true -> json_core2 S nm = true ->
    json_valid2 true (o_emit_unpop o) S nm lim fuel tid v = true ->
    exists j, to_json cd o S nm lim fuel tid v = JOk j /\ of_json cd S nm fuel tid j = JOk (strip_unknown v).
Proof. exact json_roundtrip_wkt_except_F11_partial. Qed.
Print Assumptions C20_json_roundtrip_except_F11_partial.

(* the same for the executable codec: the base64 hypothesis is proved (Json/JsonB64RtP.v); the
   Timestamp / Duration string forms stay explicit hypotheses (they are the subject of C23) *)
Theorem C20_json_roundtrip_std_except_F11_partial :
  forall (o : jopts) (S : schema) (nm : names) (lim fuel tid : nat) (v : value),
    (forall s n, ts_in_range s n = true -> ts_parse_canon (ts_format s n) = Some (s, n)) ->
    (forall s n, dur_in_range s n = true -> dur_parse_s (dur_format s n) = Some (s, n)) ->
    json_schema_ok S nm = true -> json_core2 S nm = true ->
    json_valid2 true (o_emit_unpop o) S nm lim fuel tid v = true ->
    exists j, to_json std_codec o S nm lim fuel tid v = JOk j /\ of_json std_codec S nm fuel tid j = JOk (strip_unknown v).
Proof. exact json_roundtrip_std_except_F11_partial. Qed.
Print Assumptions C20_json_roundtrip_std_except_F11_partial.

(* the full statement ([json_valid2 false]: no exclusion) is refuted: verif.KW{} -- unset optional
   Value and NullValue fields, as in textpb2.KnownTypes{} -- with EmitUnpopulated *)
Theorem C20_json_roundtrip_refuted :
  exists (cd : jcodec) (o : jopts) (S : schema) (nm : names) (lim fuel tid : nat) (v : value) (j : jv),
    json_schema_ok S nm = true /\ json_core2 S nm = true /\
    json_valid2 false (o_emit_unpop o) S nm lim fuel tid v = true /\
    to_json cd o S nm lim fuel tid v = JOk j /\ of_json cd S nm fuel tid j <> JOk (strip_unknown v).
Proof.
  exists std_codec, (mkJO false false false false true false), ex_schema_w, ex_names_w, 100%nat, 3%nat, 2%nat, ex_kw_empty.
  eexists. split; [vm_compute; reflexivity|]. split; [vm_compute; reflexivity|]. split; [vm_compute; reflexivity|].
  split; [vm_compute; reflexivity|]. vm_compute. discriminate.
Qed.
Print Assumptions C20_json_roundtrip_refuted.

Theorem C20_json_marshal_fails_only_when_partial :
  forall (cd : jcodec) (o : jopts) (S : schema) (nm : names) (lim fuel tid : nat) (v : value),
    codec_ok cd ->
    json_schema_ok S nm = true -> json_core2 S nm = true ->
    json_valid2 true (o_emit_unpop o) S nm lim fuel tid v = true ->
    exists j, to_json cd o S nm lim fuel tid v = JOk j.
Proof. exact json_marshal_total_wkt_partial. Qed.
Print Assumptions C20_json_marshal_fails_only_when_partial.

Theorem C20_rendering_options_irrelevant :
  forall (cd : jcodec) (ml ml' ind ind' pn en eu ed : bool) (S : schema) (nm : names) (lim fuel tid : nat) (v : value),
    to_json cd (mkJO ml ind pn en eu ed) S nm lim fuel tid v = to_json cd (mkJO ml' ind' pn en eu ed) S nm lim fuel tid v.
Proof. exact json_rendering_options_irrelevant. Qed.
Print Assumptions C20_rendering_options_irrelevant.

(* non-vacuity: the example tables pass the checks; messages with scalars of many kinds, NaN /
   infinity / -0 in a list, a map with an int64 boundary value, nested messages with unknown fields,
   an Empty, enums, oneof members, an extension, a Value of every kind, a Struct with nested lists, a
   ListValue, an Int64Value wrapper, a repeated Value, a Timestamp, a negative sub-second Duration, a
   FieldMask and Any values (embedding an ordinary message, a wrapper, an Empty; empty) are representable, and their round trips
   compute for several option records *)
Example C20_example_schema_ok :
  json_schema_ok ex_schema_w ex_names_w = true /\ json_core2 ex_schema_w ex_names_w = true.
Proof. vm_compute. split; reflexivity. Qed.
Example C20_example_valid :
  json_valid2 true true ex_schema_w ex_names_w 100 6 1 ex_tj = true /\ json_valid2 true true ex_schema_w ex_names_w 100 8 2 ex_kw = true.
Proof. vm_compute. split; reflexivity. Qed.
Example C20_example_roundtrip_all_on :
  exists j, to_json std_codec (mkJO true true true true true true) ex_schema_w ex_names_w 100 6 1 ex_tj = JOk j /\
            of_json std_codec ex_schema_w ex_names_w 6 1 j = JOk (strip_unknown ex_tj).
Proof. eexists. split; [vm_compute; reflexivity|]. vm_compute. reflexivity. Qed.
Example C20_example_roundtrip_all_off :
  exists j, to_json std_codec (mkJO false false false false false false) ex_schema_w ex_names_w 100 6 1 ex_tj = JOk j /\
            of_json std_codec ex_schema_w ex_names_w 6 1 j = JOk (strip_unknown ex_tj).
Proof. eexists. split; [vm_compute; reflexivity|]. vm_compute. reflexivity. Qed.
Example C20_example_roundtrip_wkt :
  exists j, to_json std_codec (mkJO false false true false true true) ex_schema_w ex_names_w 100 8 2 ex_kw = JOk j /\
            of_json std_codec ex_schema_w ex_names_w 8 2 j = JOk (strip_unknown ex_kw).
Proof. eexists. split; [vm_compute; reflexivity|]. vm_compute. reflexivity. Qed.
(* the F11 witness is excluded only by the F11 condition, and only under EmitUnpopulated *)
Example C20_example_f11_excluded :
  json_valid2 true true ex_schema_w ex_names_w 100 3 2 ex_kw_empty = false /\
  json_valid2 false true ex_schema_w ex_names_w 100 3 2 ex_kw_empty = true /\
  json_valid2 true false ex_schema_w ex_names_w 100 3 2 ex_kw_empty = true.
Proof. vm_compute. repeat split; reflexivity. Qed.
