(* C36 — Descriptor views are internally consistent.
   Statements only; each closed by [exact] of a lemma proved in Desc/*P.v. *)
From Coq Require Import List ZArith Bool.
From PB Require Import Desc.DescRangesModel Desc.DescRangesP.
Import ListNotations.
Open Scope Z_scope.

Theorem C36_ranges_has_iff_member : forall k ms l n, check_valid k ms l = CVOk ->
  (ranges_has k l n = Some true <-> exists r, In r l /\ contains k r n).
Proof. exact ranges_has_iff_member. Qed.
Print Assumptions C36_ranges_has_iff_member.
