(* C36 — Descriptor views are internally consistent.
   Statements only; each closed by [exact] of a lemma proved in Desc/*P.v.

   Vocabulary (Desc/DescRangesP.v, Desc/DescLookupP.v, Desc/DescStructP.v):
     contains k r n      r_start r <= n <= r_end k r  (r_end = r[1]-1 in int32 for field ranges, r[1] for enum ranges)
     range_ok k ms r     the number checks of CheckValid pass and start <= end
     disjoint k a b      the two ranges share no number (as the code tests it)
     find_index p l      index of the FIRST element of l satisfying p   (find_last_index: the last)
     json_key s d        d answers to JSON name s in Fields: JSONName = s, or d is group-like and ToLower(JSONName) = s
     join_full_name p n  n if p is empty, p ++ "." ++ n otherwise *)
From Coq Require Import List ZArith Bool Sorting.Sorted Sorting.Permutation SetoidList.
From PB Require Import Base.PBytes Desc.DescRangesModel Desc.DescRangesP
  Desc.DescLookupModel Desc.DescLookupP Desc.DescStructP.
From PB Require Import Base.GoInt Desc.GoPairs Gen.RangesGo Desc.RangesGoP.
Import ListNotations.
Open Scope Z_scope.

(* ================= ranges: Has, CheckValid, CheckOverlap ================= *)

(* the binary search never runs out of fuel / indexes out of range, and never reports a number
   that no listed range contains — for every list, valid or not *)
Theorem C36_ranges_has_total_sound : forall k l n,
  ranges_has k l n <> None /\
  (ranges_has k l n = Some true -> exists r, In r l /\ contains k r n).
Proof. exact (fun k l n => conj (ranges_has_total k l n) (ranges_has_sound k l n)). Qed.
Print Assumptions C36_ranges_has_total_sound.

(* Has = membership in the listed ranges, for every list that passes CheckValid
   (sortedness is established by the modelled lazyInit; the binary search needs the
   non-overlap that CheckValid checks — see C36_ranges_has_needs_valid) *)
Theorem C36_ranges_has_iff_member : forall k ms l n, check_valid k ms l = CVOk ->
  (ranges_has k l n = Some true <-> exists r, In r l /\ contains k r n).
Proof. exact ranges_has_iff_member. Qed.
Print Assumptions C36_ranges_has_iff_member.

Example C36_ranges_has_iff_member_nonvacuous :
  check_valid FieldR false [(100, 200); (1, 5); (5, 7)] = CVOk /\
  ranges_has FieldR [(100, 200); (1, 5); (5, 7)] 6 = Some true /\
  ranges_has FieldR [(100, 200); (1, 5); (5, 7)] 7 = Some false.
Proof. vm_compute. auto. Qed.

(* without CheckValid the binary search can miss a member: [1,10) and [2,3), number 5 *)
Theorem C36_ranges_has_needs_valid :
  exists l n, (exists r, In r l /\ contains FieldR r n) /\ ranges_has FieldR l n = Some false.
Proof. exact ranges_has_incomplete_without_valid. Qed.
Print Assumptions C36_ranges_has_needs_valid.

(* field ranges are half open whenever r[1]-1 does not wrap in int32 *)
Theorem C36_field_range_halfopen : forall r n, -2147483648 < snd r <= 2147483647 ->
  (contains FieldR r n <-> fst r <= n < snd r).
Proof. exact field_contains_halfopen. Qed.
Print Assumptions C36_field_range_halfopen.

Example C36_field_range_halfopen_nonvacuous : -2147483648 < snd (1, 536870912) <= 2147483647.
Proof. vm_compute. split; [reflexivity|discriminate]. Qed.

(* CheckValid accepts exactly the lists whose ranges are well formed and pairwise disjoint *)
Theorem C36_check_valid_spec : forall k ms l,
  check_valid k ms l = CVOk <-> Forall (range_ok k ms) l /\ ForallOrdPairs (disjoint k) l.
Proof. exact check_valid_spec. Qed.
Print Assumptions C36_check_valid_spec.

(* CheckOverlap reports an error iff some range of one list intersects some range of the other
   (equivalently: the two lists share a number), for lists that each pass CheckValid *)
Theorem C36_check_overlap_spec : forall msp msq p q,
  check_valid FieldR msp p = CVOk -> check_valid FieldR msq q = CVOk ->
  (check_overlap p q = true <-> exists rp rq, In rp p /\ In rq q /\ intersects FieldR rp rq = true) /\
  (check_overlap p q = true <->
   exists rp rq n, In rp p /\ In rq q /\ contains FieldR rp n /\ contains FieldR rq n).
Proof.
  exact (fun msp msq p q Hp Hq =>
    conj (check_overlap_spec msp msq p q Hp Hq) (check_overlap_shared_number msp msq p q Hp Hq)).
Qed.
Print Assumptions C36_check_overlap_spec.

Example C36_check_overlap_nonvacuous :
  check_valid FieldR false [(10, 20); (1, 5)] = CVOk /\ check_valid FieldR false [(5, 10); (19, 30)] = CVOk /\
  check_overlap [(10, 20); (1, 5)] [(5, 10); (19, 30)] = true /\
  check_overlap [(10, 20); (1, 5)] [(5, 10); (20, 30)] = false.
Proof. vm_compute. auto. Qed.

(* the same facts for ANY outcome of sort.Slice: s is a permutation of List sorted by start *)
Theorem C36_ranges_any_sort : forall k l s ms n,
  Permutation s l -> StronglySorted start_le s ->
  (check_valid_loop k ms true (0, 0) s = CVOk <-> Forall (range_ok k ms) l /\ ForallOrdPairs (disjoint k) l) /\
  (check_valid_loop k ms true (0, 0) s = CVOk ->
   (has_loop (length s) k s n = Some true <-> exists r, In r l /\ contains k r n)).
Proof.
  exact (fun k l s ms n Hp Hs =>
    conj (any_check_valid_spec k l s Hp Hs ms) (any_has_iff_member k l s Hp ms n)).
Qed.
Print Assumptions C36_ranges_any_sort.

(* ================= keyed lookups ================= *)

(* what "the first element with that key" means, and what nil means *)
Theorem C36_first_means_first : forall (A : Type) (p : A -> bool) l,
  (forall i, find_index p l = Some i <->
     (exists a, nth_error l i = Some a /\ p a = true) /\
     (forall j b, (j < i)%nat -> nth_error l j = Some b -> p b = false)) /\
  (find_index p l = None <-> forall a, In a l -> p a = false).
Proof. exact (fun A p l => conj (fun i => find_index_Some p l i) (find_index_None p l)). Qed.
Print Assumptions C36_first_means_first.

(* Fields: ByName / ByJSONName / ByTextName / ByNumber return the first element with that key *)
Theorem C36_lookup_first_wins_fields : forall l,
  (forall s, fields_by_name l s = find_index (fun d => bytes_eqb s (f_name d)) l) /\
  (forall s, fields_by_json l s = find_index (json_key s) l) /\
  (forall s, fields_by_text l s = find_index (text_key s) l) /\
  (forall n, fields_by_number l n = find_index (fun d => Z.eqb n (f_num d)) l).
Proof.
  exact (fun l => conj (fields_by_name_first l) (conj (fields_by_json_first l)
                 (conj (fields_by_text_first l) (fields_by_number_first l)))).
Qed.
Print Assumptions C36_lookup_first_wins_fields.

(* Enums, Messages, Oneofs, Extensions, Services, Methods (ByName) and EnumValues (ByName, ByNumber) *)
Theorem C36_lookup_first_wins_lists :
  (forall l s, list_by_name l s = find_index (fun d => bytes_eqb s d) l) /\
  (forall l s, enumvalues_by_name l s = find_index (fun d => bytes_eqb s (fst d)) l) /\
  (forall l n, enumvalues_by_number l n = find_index (fun d => Z.eqb n (snd d)) l).
Proof. exact (conj list_by_name_first (conj enumvalues_by_name_first enumvalues_by_number_first)). Qed.
Print Assumptions C36_lookup_first_wins_lists.

(* OneofFields assigns, so the LAST member with the key is returned ... *)
Theorem C36_oneof_lookup_last_wins : forall l,
  (forall s, oneof_by_name l s = find_last_index (fun d => bytes_eqb s (f_name d)) l) /\
  (forall s, oneof_by_json l s = find_last_index (fun d => bytes_eqb s (f_json d)) l) /\
  (forall s, oneof_by_text l s = find_last_index (fun d => bytes_eqb s (f_text d)) l) /\
  (forall n, oneof_by_number l n = find_last_index (fun d => Z.eqb n (f_num d)) l).
Proof.
  exact (fun l => conj (oneof_by_name_last l) (conj (oneof_by_json_last l)
                 (conj (oneof_by_text_last l) (oneof_by_number_last l)))).
Qed.
Print Assumptions C36_oneof_lookup_last_wins.

(* ... hence first-wins is REFUTED for OneofFields (finding F8): members a_b and aB with JSON name "aB";
   on the same list Fields.ByJSONName does return the first *)
Theorem C36_oneof_lookup_first_wins_refuted :
  exists l s, oneof_by_json l s <> find_index (fun d => bytes_eqb s (f_json d)) l
              /\ fields_by_json l s = find_index (fun d => bytes_eqb s (f_json d)) l.
Proof. exact oneof_lookup_first_wins_refuted. Qed.
Print Assumptions C36_oneof_lookup_first_wins_refuted.

(* ... and holds outside the recogniser of F8 (no two members share the JSON / text name);
   names and numbers are unique among the fields of every validated message *)
Theorem C36_oneof_lookup_first_wins_except_F8 : forall l,
  (excl_F8_json l = false -> forall s, oneof_by_json l s = find_index (fun d => bytes_eqb s (f_json d)) l) /\
  (excl_F8_text l = false -> forall s, oneof_by_text l s = find_index (fun d => bytes_eqb s (f_text d)) l) /\
  (NoDup (map f_name l) -> forall s, oneof_by_name l s = find_index (fun d => bytes_eqb s (f_name d)) l) /\
  (NoDup (map f_num l) -> forall n, oneof_by_number l n = find_index (fun d => Z.eqb n (f_num d)) l).
Proof.
  exact (fun l => conj (fun H s => oneof_by_json_first_except_F8 l s H)
                 (conj (fun H s => oneof_by_text_first_except_F8 l s H)
                 (conj (fun H s => oneof_by_name_first_unique l s H)
                       (fun H n => oneof_by_number_first_unique l n H)))).
Qed.
Print Assumptions C36_oneof_lookup_first_wins_except_F8.

Example C36_except_F8_nonvacuous :
  excl_F8_json F8_witness = true /\ excl_F8_text F8_witness = false /\
  excl_F8_json (firstn 1 F8_witness) = false.
Proof. vm_compute. auto. Qed.

(* Names (reserved names: Has, CheckValid) and FieldNumbers (RequiredNumbers: Has) *)
Theorem C36_names_numbers_spec :
  (forall l s, names_has l s = true <-> In s l) /\
  (forall l, names_check_dup l = false <-> NoDup l) /\
  (forall l n, numbers_has l n = true <-> In n l).
Proof. exact (conj names_has_iff (conj names_check_dup_false numbers_has_iff)). Qed.
Print Assumptions C36_names_numbers_spec.

(* ================= index, full name, required numbers, oneof links ================= *)

(* Get(i).Index() = i for the fields and oneofs of a message; the lists have the declared lengths *)
Theorem C36_get_index : forall parent fps onames m, build_message parent fps onames = Some m ->
  (forall i f, nth_error (md_fields m) i = Some f -> fd_index f = i) /\
  (forall k o, nth_error (md_oneofs m) k = Some o -> od_index o = k) /\
  length (md_fields m) = length fps /\ length (md_oneofs m) = length onames.
Proof. exact build_get_index. Qed.
Print Assumptions C36_get_index.

(* strs.Builder.AppendFullName is the join, and FullName.Name() / FullName.Parent() invert it
   for a dot-free name *)
Theorem C36_fullname_join : forall prefix name,
  append_full_name prefix name = join_full_name prefix name /\
  (~ In dot name ->
   fullname_name (append_full_name prefix name) = name /\ fullname_parent (append_full_name prefix name) = prefix).
Proof.
  exact (fun prefix name => conj (append_full_name_join prefix name)
           (fullname_name_parent_join prefix name)).
Qed.
Print Assumptions C36_fullname_join.

(* every field / oneof full name is the message's full name joined with the declared name *)
Theorem C36_fullname_of_children : forall parent fps onames m, build_message parent fps onames = Some m ->
  (forall i f, nth_error (md_fields m) i = Some f ->
     exists p, nth_error fps i = Some p /\ fd_fullname f = join_full_name parent (fp_name p)
               /\ fd_num f = fp_num p /\ fd_card f = fp_card p /\ fd_oneof f = fp_oneof p) /\
  (forall k o, nth_error (md_oneofs m) k = Some o ->
     exists s, nth_error onames k = Some s /\ od_fullname o = join_full_name parent s).
Proof. exact build_fullname. Qed.
Print Assumptions C36_fullname_of_children.

(* RequiredNumbers = the numbers of exactly the required fields, in declaration order *)
Theorem C36_required_numbers_exact : forall parent fps onames m, build_message parent fps onames = Some m ->
  md_required m = map fp_num (filter is_required fps) /\
  (forall n, numbers_has (md_required m) n = true <->
             exists p, In p fps /\ fp_card p = card_required /\ fp_num p = n).
Proof.
  exact (fun parent fps onames m H =>
    conj (build_required parent fps onames m H) (fun n => build_required_has parent fps onames m n H)).
Qed.
Print Assumptions C36_required_numbers_exact.

(* Oneof.Fields and Field.ContainingOneof are mutual *)
Theorem C36_oneof_links_mutual : forall parent fps onames m, build_message parent fps onames = Some m ->
  (forall k o, nth_error (md_oneofs m) k = Some o ->
     forall j, In j (od_fields o) <-> exists f, nth_error (md_fields m) j = Some f /\ fd_oneof f = Some k) /\
  (forall j f k, nth_error (md_fields m) j = Some f -> fd_oneof f = Some k ->
     exists o, nth_error (md_oneofs m) k = Some o /\ In j (od_fields o)).
Proof.
  exact (fun parent fps onames m H =>
    conj (build_oneof_mutual parent fps onames m H) (build_containing_oneof_exists parent fps onames m H)).
Qed.
Print Assumptions C36_oneof_links_mutual.

(* construction fails only for an out-of-range oneof index *)
Theorem C36_build_ok_iff : forall parent fps onames,
  (exists m, build_message parent fps onames = Some m) <->
  forall p k, In p fps -> fp_oneof p = Some k -> (k < length onames)%nat.
Proof. exact build_message_ok_iff. Qed.
Print Assumptions C36_build_ok_iff.

Example C36_build_nonvacuous :
  let pM := ["p"; "."; "M"]%byte in
  exists m,
  build_message pM
    [ {| fp_name := ["a"]%byte; fp_num := 1; fp_card := 2; fp_oneof := None |};
      {| fp_name := ["x"]%byte; fp_num := 5; fp_card := 1; fp_oneof := Some 0%nat |};
      {| fp_name := ["y"]%byte; fp_num := 6; fp_card := 1; fp_oneof := Some 0%nat |} ] [["o"]%byte] = Some m
  /\ md_required m = [1] /\ map od_fields (md_oneofs m) = [[1%nat; 2%nat]]
  /\ map fd_fullname (md_fields m) = [pM ++ [dot; "a"]; pM ++ [dot; "x"]; pM ++ [dot; "y"]]%byte.
Proof. eexists. vm_compute. repeat split; reflexivity. Qed.

(* ================= Tier T: the translated source of internal/filedesc/desc_list.go =================
   Gen/RangesGo.v is regenerated from the repository on every run (srcmodel_ranges).  l is p.List, s is
   what lazyInit leaves in p.sorted: ANY permutation of l sorted by start (sort.Slice is not translated; its
   source text is pinned by C36_go_accessors_and_lazyInit_pinned).  Slices are shorter than 2^63 elements
   (Go's int). *)
From Coq Require String.
Import String.StringSyntax.
Local Open Scope string_scope.

(* EnumRanges.Has as written in the source: never panics, never loops forever (no Panic / Fuel outcome),
   never reports a number no listed range contains, and — when the translated CheckValid returns nil —
   is exactly membership.  All int32 numbers, all lists. *)
Theorem C36_go_EnumRanges_Has_iff_member : forall l s n,
  Permutation s l -> len s <= 9223372036854775807 ->
  (go_EnumRanges_Has s n = Val true \/ go_EnumRanges_Has s n = Val false) /\
  (go_EnumRanges_Has s n = Val true -> exists r, In r l /\ contains EnumR r n) /\
  (go_EnumRanges_CheckValid s = ENil ->
   (go_EnumRanges_Has s n = Val true <-> exists r, In r l /\ contains EnumR r n)).
Proof. exact (fun l s n Hp Hl => go_has_iff_member EnumR l s Hp Hl false n). Qed.
Print Assumptions C36_go_EnumRanges_Has_iff_member.

Example C36_go_EnumRanges_Has_nonvacuous :
  go_EnumRanges_CheckValid [(-5, -1); (3, 2147483647)] = ENil /\
  go_EnumRanges_Has [(-5, -1); (3, 2147483647)] 2147483647 = Val true /\
  go_EnumRanges_Has [(-5, -1); (3, 2147483647)] 0 = Val false.
Proof. vm_compute. auto. Qed.

(* FieldRanges.Has: the same, with fieldRange.End() = r[1] - 1 computed in int32 as the source does
   (contains FieldR uses the wrapped end; C36_field_range_halfopen relates it to start <= n < end) *)
Theorem C36_go_FieldRanges_Has_iff_member : forall l s ms n,
  Permutation s l -> len s <= 9223372036854775807 ->
  (go_FieldRanges_Has s n = Val true \/ go_FieldRanges_Has s n = Val false) /\
  (go_FieldRanges_Has s n = Val true -> exists r, In r l /\ contains FieldR r n) /\
  (go_FieldRanges_CheckValid s ms = ENil ->
   (go_FieldRanges_Has s n = Val true <-> exists r, In r l /\ contains FieldR r n)).
Proof. exact (fun l s ms n Hp Hl => go_has_iff_member FieldR l s Hp Hl ms n). Qed.
Print Assumptions C36_go_FieldRanges_Has_iff_member.

Example C36_go_FieldRanges_Has_nonvacuous :
  go_FieldRanges_CheckValid [(1, 5); (5, 7); (100, 2147483647)] true = ENil /\
  go_FieldRanges_Has [(1, 5); (5, 7); (100, 2147483647)] 6 = Val true /\
  go_FieldRanges_Has [(1, 5); (5, 7); (100, 2147483647)] 2147483646 = Val true /\
  go_FieldRanges_Has [(1, 5); (5, 7); (100, 2147483647)] 2147483647 = Val false /\
  go_FieldRanges_Has [(1, 5); (5, 7); (100, 2147483647)] 7 = Val false.
Proof. vm_compute. auto 6. Qed.

(* CheckValid as written in the source returns nil exactly for the lists whose ranges are well formed
   and pairwise disjoint; and it returns the error of the same site as the model, site for site *)
Theorem C36_go_CheckValid_spec : forall l s ms,
  Permutation s l -> StronglySorted start_le s ->
  (go_EnumRanges_CheckValid s = ENil <-> Forall (range_ok EnumR ms) l /\ ForallOrdPairs (disjoint EnumR) l) /\
  (go_FieldRanges_CheckValid s ms = ENil <-> Forall (range_ok FieldR ms) l /\ ForallOrdPairs (disjoint FieldR) l) /\
  go_EnumRanges_CheckValid s = cverr_go (check_valid_loop EnumR ms true (0, 0) s) /\
  go_FieldRanges_CheckValid s ms = cverr_go (check_valid_loop FieldR ms true (0, 0) s).
Proof.
  exact (fun l s ms Hp Hs =>
    conj (go_check_valid_spec EnumR l s Hp Hs ms) (conj (go_check_valid_spec FieldR l s Hp Hs ms)
      (conj (go_EnumRanges_CheckValid_model ms s) (go_FieldRanges_CheckValid_model ms s)))).
Qed.
Print Assumptions C36_go_CheckValid_spec.

Example C36_go_CheckValid_nonvacuous :
  go_FieldRanges_CheckValid [(1, 5); (4, 7)] false = E_err_overlapping_ranges /\
  go_FieldRanges_CheckValid [(1, 536870913)] false = E_err_invalid_field_number /\
  go_FieldRanges_CheckValid [(1, 536870913)] true = ENil /\
  go_FieldRanges_CheckValid [(5, 5)] false = E_err_invalid_range /\
  go_EnumRanges_CheckValid [(1, 5); (5, 7)] = E_err_overlapping_ranges.
Proof. vm_compute. auto 6. Qed.

(* CheckOverlap as written in the source: never panics / runs out of fuel, and reports an error iff
   a range of one list intersects a range of the other, for lists that pass the translated CheckValid *)
Theorem C36_go_CheckOverlap_spec : forall p q ps qs msp msq,
  Permutation ps p -> Permutation qs q -> len ps + len qs <= 9223372036854775807 ->
  go_FieldRanges_CheckValid ps msp = ENil -> go_FieldRanges_CheckValid qs msq = ENil ->
  (go_FieldRanges_CheckOverlap ps qs = Val ENil \/
   go_FieldRanges_CheckOverlap ps qs = Val E_err_overlapping_ranges) /\
  (go_FieldRanges_CheckOverlap ps qs = Val E_err_overlapping_ranges <->
   exists rp rq, In rp p /\ In rq q /\ intersects FieldR rp rq = true).
Proof. exact go_check_overlap_spec. Qed.
Print Assumptions C36_go_CheckOverlap_spec.

Example C36_go_CheckOverlap_nonvacuous :
  go_FieldRanges_CheckOverlap [(1, 5); (10, 20)] [(5, 10); (19, 30)] = Val E_err_overlapping_ranges /\
  go_FieldRanges_CheckOverlap [(1, 5); (10, 20)] [(5, 10); (20, 30)] = Val ENil.
Proof. vm_compute. auto. Qed.

(* the accessors and the number check of the source are those of the model (fieldRange.End wraps in int32),
   the constants are protowire's, and the text of the untranslated lazyInit is the one the model of the
   sorted copy (sort by r[0] of a copy of List) was written against *)
Theorem C36_go_accessors_and_lazyInit_pinned :
  (forall r, go_enumRange_Start r = r_start r /\ go_enumRange_End r = r_end EnumR r /\
             go_fieldRange_Start r = r_start r /\ go_fieldRange_End r = r_end FieldR r) /\
  (forall n ms, go_isValidFieldNumber n ms = valid_field_number n ms) /\
  (c_MinValidNumber = 1 /\ c_MaxValidNumber = 536870911) /\
  go_fieldRange_End (0, -2147483648) = 2147483647 /\
  (c_EnumRanges_lazyInit_src =
    "func (p *EnumRanges) lazyInit() *EnumRanges { p.once.Do(func() { p.sorted = append(p.sorted, p.List...) sort.Slice(p.sorted, func(i, j int) bool { return p.sorted[i][0] < p.sorted[j][0] }) }) return p }" /\
   c_FieldRanges_lazyInit_src =
    "func (p *FieldRanges) lazyInit() *FieldRanges { p.once.Do(func() { p.sorted = append(p.sorted, p.List...) sort.Slice(p.sorted, func(i, j int) bool { return p.sorted[i][0] < p.sorted[j][0] }) }) return p }").
Proof.
  exact (conj (fun r => conj (go_enumRange_Start_model r) (conj (go_enumRange_End_model r)
                  (conj (go_fieldRange_Start_model r) (go_fieldRange_End_model r))))
        (conj go_isValidFieldNumber_model (conj ranges_constants_match_source (conj eq_refl lazyInit_pinned)))).
Qed.
Print Assumptions C36_go_accessors_and_lazyInit_pinned.
