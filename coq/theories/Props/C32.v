(* C32 — protorange visits every populated value exactly once.
   Statements about the model Msg/RangeModel.v of reflect/protorange
   (Options{Stable:true}.Range); each closed by [exact] of a lemma of Msg/RangeP.v.

   Reading conventions: a [tree] is a message value with its populated fields in
   range order; [push]/[pop] are arbitrary callbacks (functions of the path);
   [range push pop root] = (error returned by Range, sequence of callback
   events); [wf] = field numbers / map keys are distinct at every level;
   [at_path q V] = the callback returning V exactly at path q; [cont] = the
   callback that always returns nil; [paths] forgets the values of the events. *)
From Coq Require Import List NArith Bool.
From PB Require Import Msg.RangeModel Msg.RangeP.
Import ListNotations.
Open Scope N_scope.

(* pushes and pops are balanced and properly nested, for every callback
   behaviour (also after Break, Terminate and errors: pop is always called) *)
Theorem C32_range_balanced :
  forall push pop root, wn [] (snd (range push pop root)).
Proof. exact range_wn. Qed.
Print Assumptions C32_range_balanced.

(* the first push and the last pop are those of the Root step *)
Theorem C32_range_root_first_last :
  forall push pop root, exists inner,
  snd (range push pop root) = Push [SRoot] root :: inner ++ [Pop [SRoot] root] /\ wn [SRoot] inner.
Proof. exact range_root_events. Qed.
Print Assumptions C32_range_root_first_last.

(* with callbacks that always continue, the pushes are exactly the populated
   positions, depth first, and Range returns nil ... *)
Theorem C32_range_visits_once :
  forall root,
  range cont cont root = (Continue, snd (range cont cont root)) /\
  pushes (snd (range cont cont root)) = all_positions root.
Proof. exact range_visits_once. Qed.
Print Assumptions C32_range_visits_once.

(* ... and no position occurs twice *)
Theorem C32_positions_distinct : forall root, wf root -> NoDup (all_positions root).
Proof. exact all_positions_nodup. Qed.
Print Assumptions C32_positions_distinct.

(* the value handed to a callback is the one obtained by applying the steps of
   its path to the root value, for every callback behaviour *)
Theorem C32_range_step_value :
  forall push pop root e, wf root -> In e (snd (range push pop root)) ->
  resolve root (ev_path e) = Some (ev_val e).
Proof. exact range_step_value. Qed.
Print Assumptions C32_range_step_value.

(* Break returned by push at a populated position SRoot :: r: the callback
   sequence is that of an all-continue traversal of the tree in which the value
   at r has no children and its later siblings (incl. unknown fields) are
   removed; Range returns nil *)
Theorem C32_break_semantics :
  forall r root, r <> [] -> wf root -> apply_steps root r <> None ->
  fst (range (at_path (SRoot :: r) Break) cont root) = Continue /\
  paths (snd (range (at_path (SRoot :: r) Break) cont root))
  = paths (snd (range cont cont (brk strip r root))).
Proof. exact break_semantics. Qed.
Print Assumptions C32_break_semantics.

(* Break returned by pop: the children have been visited, the later siblings are skipped *)
Theorem C32_break_pop_semantics :
  forall r root, r <> [] -> wf root -> apply_steps root r <> None ->
  fst (range cont (at_path (SRoot :: r) Break) root) = Continue /\
  paths (snd (range cont (at_path (SRoot :: r) Break) root))
  = paths (snd (range cont cont (brk keep r root))).
Proof. exact break_pop_semantics. Qed.
Print Assumptions C32_break_pop_semantics.

(* Terminate (final V = nil) or a callback error (final V = that error) from
   push at SRoot :: r: at every level along r the later siblings are skipped,
   all open steps are popped, nothing else is visited *)
Theorem C32_terminate_semantics :
  forall V r root, is_nil V = false -> V <> Break ->
  r <> [] -> wf root -> apply_steps root r <> None ->
  fst (range (at_path (SRoot :: r) V) cont root) = final V /\
  paths (snd (range (at_path (SRoot :: r) V) cont root))
  = paths (snd (range cont cont (trm strip r root))).
Proof. exact terminate_semantics. Qed.
Print Assumptions C32_terminate_semantics.

Theorem C32_terminate_pop_semantics :
  forall V r root, is_nil V = false -> V <> Break ->
  r <> [] -> wf root -> apply_steps root r <> None ->
  fst (range cont (at_path (SRoot :: r) V) root) = final V /\
  paths (snd (range cont (at_path (SRoot :: r) V) root))
  = paths (snd (range cont cont (trm keep r root))).
Proof. exact terminate_pop_semantics. Qed.
Print Assumptions C32_terminate_pop_semantics.

(* verdicts at the Root step itself *)
Theorem C32_root_push_verdict :
  forall V root, is_nil V = false ->
  range (at_path [SRoot] V) cont root = (final V, [Push [SRoot] root; Pop [SRoot] root]).
Proof. exact root_push_verdict. Qed.
Print Assumptions C32_root_push_verdict.

Theorem C32_root_pop_verdict :
  forall V root, range cont (at_path [SRoot] V) root = (final V, snd (range cont cont root)).
Proof. exact root_pop_verdict. Qed.
Print Assumptions C32_root_pop_verdict.

(* ---------- non-vacuity: a concrete well-formed tree and a position in it ---------- *)
Definition ex_tree : tree :=
  Message [(1, Scalar);
           (2, TList [Scalar; Message [(5, Scalar)] true None]);
           (3, TMap [(0, Scalar); (1, Message [] false (Some (Message [(7, Scalar)] false None)))]);
           (4, Scalar)] true None.
Definition ex_path : list step := [SField 2; SIndex 1; SField 5].

Ltac solve_nodup := cbn; repeat (constructor; [cbn; intuition discriminate|]); constructor.
Ltac solve_wf :=
  constructor; [solve_nodup |
    cbn; let s := fresh "s" in let v := fresh "v" in let H := fresh "H" in
    intros s v H;
    repeat (destruct H as [H|H]; [inversion H; subst; solve_wf|]); destruct H].

Example C32_nonvacuous_wf : wf ex_tree.
Proof. solve_wf. Qed.
Example C32_nonvacuous_position : ex_path <> [] /\ apply_steps ex_tree ex_path <> None.
Proof. split; [discriminate | cbn; discriminate]. Qed.
Example C32_nonvacuous_verdicts :
  is_nil Terminate = false /\ Terminate <> Break /\ is_nil (Error 1) = false /\ Error 1 <> Break.
Proof. repeat split; discriminate. Qed.
(* the Break theorem says something: the pruned traversal is strictly shorter *)
Example C32_break_example :
  length (snd (range (at_path (SRoot :: [SField 2; SIndex 0]) Break) cont ex_tree)) = 22%nat /\
  length (snd (range cont cont ex_tree)) = 28%nat.
Proof. split; vm_compute; reflexivity. Qed.
Example C32_step_value_example :
  In (Push [SRoot; SField 3; SKey 1; SAny; SField 7] Scalar) (snd (range cont cont ex_tree)).
Proof. vm_compute. tauto. Qed.
