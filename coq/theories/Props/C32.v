(* C32 — placeholder while the proofs are developed *)
From PB Require Import Msg.RangeModel.
