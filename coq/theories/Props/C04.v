(* C04 — Size equals the length of Marshal output.
   Statements only; each closed by [exact] of a lemma proved in Msg/MsgSizeP.v.

   [msg_sizes_ok S tid v] (Msg/MsgValid.v, a boolean) says that every varint the encoder emits
   for v is a uint64: integer scalars in uint64 range, byte strings / sub-message bodies / packed
   payloads / map entries shorter than 2^64 bytes, field numbers below 2^61.  Nothing else is
   assumed: the theorem holds for every schema table, typed or ill-typed values, any unknown
   bytes, any nesting depth.

   [C04_speculative_length_ok]: the byte-shifting length fix-up of the reflection encoder
   (appendSpeculativeLength / finishSpeculativeLength, modelled on lists in Msg/MsgEnc.v) yields
   varint(len body) ++ body for every body length, i.e. exactly what [msg_encode] emits for a
   length-delimited value.  The lazy-buffer exception of the property text belongs to the lazy
   model (C17). *)
From Coq Require Import List NArith ZArith.
From PB Require Import Base.PBytes Wire.WireModel.
From PB Require Import Msg.MsgSchema Msg.MsgValue Msg.MsgEnc Msg.MsgValid Msg.MsgSizeP Msg.MsgExample.
Import ListNotations.
Open Scope N_scope.

Theorem C04_size_eq_length :
  forall (S : schema) (tid : nat) (v : value),
    msg_sizes_ok S tid v = true ->
    msg_size_body S tid v = N.of_nat (length (msg_encode S tid v)).
Proof. exact msg_size_eq_length. Qed.
Print Assumptions C04_size_eq_length.

Theorem C04_marshal_append_prefix :
  forall (prefix : list byte) (S : schema) (tid : nat) (v : value),
    msg_sizes_ok S tid v = true ->
    firstn (length prefix) (msg_marshal_append prefix S tid v) = prefix /\
    skipn (length prefix) (msg_marshal_append prefix S tid v) = msg_encode S tid v /\
    N.of_nat (length (msg_marshal_append prefix S tid v)) = N.of_nat (length prefix) + msg_size_body S tid v.
Proof. exact msg_marshal_append_prefix. Qed.
Print Assumptions C04_marshal_append_prefix.

Theorem C04_speculative_length_ok :
  forall (pre body : list byte),
    N.of_nat (length body) < 2^64 ->
    msg_finish_spec (fst (msg_append_spec pre) ++ body) (snd (msg_append_spec pre)) =
    pre ++ enc_varint (N.of_nat (length body)) ++ body.
Proof. exact msg_finish_spec_ok. Qed.
Print Assumptions C04_speculative_length_ok.

(* a body of 200 bytes needs a two-byte length: the body is moved up by one byte *)
Example C04_example_speculative :
  msg_finish_spec ([x0a] ++ [x00] ++ repeat x41 200) 1 = [x0a; xc8; x01] ++ repeat x41 200.
Proof. vm_compute. reflexivity. Qed.

(* non-vacuity: the hypothesis holds of a message using every field shape, and the two sides
   are the concrete number 149 *)
Example C04_example_hyp : msg_sizes_ok ex_schema 0 ex_msg = true.
Proof. vm_compute. reflexivity. Qed.
Example C04_example_size :
  msg_size_body ex_schema 0 ex_msg = N.of_nat (length (msg_encode ex_schema 0 ex_msg)) /\
  msg_size_body ex_schema 0 ex_msg = 149.
Proof. vm_compute. split; reflexivity. Qed.
