(* C04 — Size equals the length of Marshal output.
   Statements only; each closed by [exact] of a lemma proved in Msg/MsgSizeP.v.

   [msg_sizes_ok S tid v] (Msg/MsgValid.v, a boolean) says that every varint the encoder emits
   for v is a uint64: integer scalars in uint64 range, byte strings / sub-message bodies / packed
   payloads / map entries shorter than 2^64 bytes, field numbers below 2^61.  Nothing else is
   assumed: the theorem holds for every schema table, typed or ill-typed values, any unknown
   bytes, any nesting depth.

   [C04_speculative_length_ok]: the byte-shifting length fix-up of the reflection encoder
   (appendSpeculativeLength / finishSpeculativeLength, modelled on lists in Msg/MsgEnc.v) yields
   varint(len body) ++ body for every body length, i.e. exactly what [msg_encode] emits for a
   length-delimited value.  The lazy-buffer exception of the property text belongs to the lazy
   model (C17). *)
From Coq Require Import List NArith ZArith.
From PB Require Import Base.PBytes Wire.WireModel.
From PB Require Import Msg.MsgSchema Msg.MsgValue Msg.MsgEnc Msg.MsgValid Msg.MsgSizeP Msg.MsgExample.
Import ListNotations.
Open Scope N_scope.

Theorem C04_size_eq_length :
  forall (S : schema) (tid : nat) (v : value),
    msg_sizes_ok S tid v = true ->
    msg_size_body S tid v = N.of_nat (length (msg_encode S tid v)).
Proof. exact msg_size_eq_length. Qed.
Print Assumptions C04_size_eq_length.

Theorem C04_marshal_append_prefix :
  forall (prefix : list byte) (S : schema) (tid : nat) (v : value),
    msg_sizes_ok S tid v = true ->
    firstn (length prefix) (msg_marshal_append prefix S tid v) = prefix /\
    skipn (length prefix) (msg_marshal_append prefix S tid v) = msg_encode S tid v /\
    N.of_nat (length (msg_marshal_append prefix S tid v)) = N.of_nat (length prefix) + msg_size_body S tid v.
Proof. exact msg_marshal_append_prefix. Qed.
Print Assumptions C04_marshal_append_prefix.

Theorem C04_speculative_length_ok :
  forall (pre body : list byte),
    N.of_nat (length body) < 2^64 ->
    msg_finish_spec (fst (msg_append_spec pre) ++ body) (snd (msg_append_spec pre)) =
    pre ++ enc_varint (N.of_nat (length body)) ++ body.
Proof. exact msg_finish_spec_ok. Qed.
Print Assumptions C04_speculative_length_ok.

(* a body of 200 bytes needs a two-byte length: the body is moved up by one byte *)
Example C04_example_speculative :
  msg_finish_spec ([x0a] ++ [x00] ++ repeat x41 200) 1 = [x0a; xc8; x01] ++ repeat x41 200.
Proof. vm_compute. reflexivity. Qed.

(* non-vacuity: the hypothesis holds of a message using every field shape, and the two sides
   are the concrete number 149 *)
Example C04_example_hyp : msg_sizes_ok ex_schema 0 ex_msg = true.
Proof. vm_compute. reflexivity. Qed.
Example C04_example_size :
  msg_size_body ex_schema 0 ex_msg = N.of_nat (length (msg_encode ex_schema 0 ex_msg)) /\
  msg_size_body ex_schema 0 ex_msg = 149.
Proof. vm_compute. split; reflexivity. Qed.

(* ---------- Tier T: the generated scalar coders (internal/impl/codec_gen.go) ----------
   Over Gen/CodecGenTable.v, regenerated from codec_gen.go on every run (see Props/C03.v and
   Msg/CodecGenP.v).  For every size* function there is an append* function of the same kind and
   variant in the table, with the same NoZero test; the size expression (protowire.SizeVarint(conv),
   SizeFixed32(), SizeFixed64(), SizeBytes(len(conv))) evaluates to the number of bytes the append
   function's protowire.Append*(b, conv) writes -- which is the model's closed form [msg_size_scalar]
   and the length of the model's [msg_enc_scalar] -- for every value of the kind whose varints fit
   uint64.  (That the packed variants compute the length prefix with the same size expression is part
   of C03_go_codecgen_classified: [r_same].) *)
Require Import PB.Gen.CodecGenTable PB.Msg.CodecGenP.

Theorem C04_go_codecgen_size_matches_append :
  forall r, In r funcs -> r_role r = role_size ->
    exists sk wfs cs a, row_kind r = Some sk /\ row_size r = Some (wfs, cs) /\
      In a funcs /\ r_role a = role_append /\ r_kind a = r_kind r /\ r_variant a = r_variant r /\
      r_zero a = r_zero r /\
      forall s, sk_ok sk s = true -> msg_wval_ok (sk_enc sk s) = true ->
        size_sem wfs cs s = Some (N.of_nat (length (msg_enc_scalar sk s))) /\
        size_sem wfs cs s = Some (msg_size_scalar sk s).
Proof. exact codecgen_size_matches_append. Qed.
Print Assumptions C04_go_codecgen_size_matches_append.

(* non-vacuity: sizeSint32PackedSlice is a size row; its element size is SizeVarint of the zigzag value *)
Example C04_example_codecgen_row :
  exists r, row_named fn_sizeSint32PackedSlice r /\ r_role r = role_size /\
            row_size r = Some (WfVarint, Some EcZigZag).
Proof.
  destruct (find_row fn_sizeSint32PackedSlice) as [r|] eqn:E; [|vm_compute in E; discriminate E].
  exists r. split; [apply find_row_named; exact E|]. vm_compute in E. inversion E. vm_compute. repeat split.
Qed.
Example C04_example_codecgen_sem :
  size_sem WfVarint (Some EcZigZag) (SZ (-64)) = Some 1 /\ size_sem WfVarint (Some EcZigZag) (SZ 64) = Some 2.
Proof. vm_compute. split; reflexivity. Qed.
