(* C04 — Size equals the length of Marshal output.
   Statements only; each closed by [exact] of a lemma proved in Msg/MsgSizeP.v.

   [msg_sizes_ok S tid v] (Msg/MsgValid.v, a boolean) says that every varint the encoder emits
   for v is a uint64: integer scalars in uint64 range, byte strings / sub-message bodies / packed
   payloads / map entries shorter than 2^64 bytes, field numbers below 2^61.  Nothing else is
   assumed: the theorem holds for every schema table, typed or ill-typed values, any unknown
   bytes, any nesting depth.

   Not stated here (see props/C04.json level_note): the speculative-length fix-up of the
   reflection encoder (finishSpeculativeLength) is not modelled on its own; its output is part
   of the bytes compared with [msg_encode] on every run.  The lazy-buffer exception of the
   property text belongs to the lazy model (C17). *)
From Coq Require Import List NArith ZArith.
From PB Require Import Base.PBytes Wire.WireModel.
From PB Require Import Msg.MsgSchema Msg.MsgValue Msg.MsgEnc Msg.MsgValid Msg.MsgSizeP Msg.MsgExample.
Import ListNotations.
Open Scope N_scope.

Theorem C04_size_eq_length :
  forall (S : schema) (tid : nat) (v : value),
    msg_sizes_ok S tid v = true ->
    msg_size_body S tid v = N.of_nat (length (msg_encode S tid v)).
Proof. exact msg_size_eq_length. Qed.
Print Assumptions C04_size_eq_length.

Theorem C04_marshal_append_prefix :
  forall (prefix : list byte) (S : schema) (tid : nat) (v : value),
    msg_sizes_ok S tid v = true ->
    firstn (length prefix) (msg_marshal_append prefix S tid v) = prefix /\
    skipn (length prefix) (msg_marshal_append prefix S tid v) = msg_encode S tid v /\
    N.of_nat (length (msg_marshal_append prefix S tid v)) = N.of_nat (length prefix) + msg_size_body S tid v.
Proof. exact msg_marshal_append_prefix. Qed.
Print Assumptions C04_marshal_append_prefix.

(* non-vacuity: the hypothesis holds of a message using every field shape, and the two sides
   are the concrete number 149 *)
Example C04_example_hyp : msg_sizes_ok ex_schema 0 ex_msg = true.
Proof. vm_compute. reflexivity. Qed.
Example C04_example_size :
  msg_size_body ex_schema 0 ex_msg = N.of_nat (length (msg_encode ex_schema 0 ex_msg)) /\
  msg_size_body ex_schema 0 ex_msg = 149.
Proof. vm_compute. split; reflexivity. Qed.
