(* C04 — Size equals the length of Marshal output.  (placeholder; theorems follow) *)
From Coq Require Import List NArith ZArith.
From PB Require Import Base.PBytes Wire.WireModel Msg.MsgSchema Msg.MsgValue Msg.MsgEnc.
