(* C10 — Required-field checks are exact.
   Statements only; each closed by [exact] of a lemma proved in Msg/InitP.v. *)
From Coq Require Import List NArith ZArith.
From PB Require Import Base.PBytes Wire.WireModel.
From PB Require Import Msg.MsgSchema Msg.MsgValue Msg.MsgEnc Msg.MsgDec Msg.InitModel Msg.InitP.
Import ListNotations.
Open Scope N_scope.

Theorem C10_allow_partial_no_error_unmarshal :
  forall (S : schema) (ni : nat -> bool) (limit tid : nat) (bs : list byte),
    msg_unmarshal S ni limit tid true bs <> URequired.
Proof. exact msg_allow_partial_unmarshal. Qed.
Print Assumptions C10_allow_partial_no_error_unmarshal.
