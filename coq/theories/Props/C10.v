(* C10 — Required-field checks are exact.
   Statements only; each closed by [exact] of a lemma proved in Msg/InitP.v.

   Model: Msg/InitModel.v -- [msg_check_init] (the tree walk of proto.CheckInitialized: list
   elements, map values, oneof members, extensions), [msg_init_flag] (the UnmarshalInitialized flag of
   the table-driven eager decoder: requiredMask / numRequiredFields accounting, conjunction over
   message-typed occurrences, with the quirk of the code for map entries),
   [msg_unmarshal] / [msg_unmarshal_slow] / [msg_marshal_checked] (the AllowPartial logic of
   proto.Unmarshal / proto.Marshal), [msg_unmarshal_lazy] (lazy decoding).

   Proved at full strength: checkinit_exact, mask_sound (every number of required fields, more than
   64 included), unmarshal_slow_error_iff_partial, marshal_error_iff_partial, allow_partial_no_error.
   fast_flag_sound and unmarshal_error_iff_partial (table-driven path) are proved for schemas
   satisfying [msg_init_wf]:
     - field numbers identify fields; required fields are neither extensions nor oneof members
       (guaranteed by protodesc);
     - (finding FA2 -- a partial message in a non-first oneof member left the flag set -- was repaired in
       the code by commit "check required fields of every message-typed oneof member on unmarshal";
       the model follows the repaired code, C10_example_FA2_repaired replays the former witness);
     - [msg_maps_wf]  the value type of a map either needs no init check or is a LEAF type (all its fields
       of scalar kind, e.g. map<int32, TestRequired>); for such maps the theorem holds for ARBITRARY
       input, duplicated key/value occurrences included (a required field, once decoded, is never
       removed).  For value types with sub-messages the faithful model refutes the statement
       (C10_fast_flag_sound_refuted_FA5, finding FA5: two value occurrences in one entry); the version
       "canonical input, any value type" is checked on the implementation only: hence _partial;
     - [msg_ni_sound]  the needsInitCheck oracle is sound (a type it declares free of init checks has
       only initialized values); finding FA4 is a violation of exactly this by the implementation's memo.
   Lazy decoding: C10_unmarshal_lazy_exact_refuted_FA1 (finding FA1). *)
From Coq Require Import List NArith ZArith.
From PB Require Import Base.PBytes Wire.WireModel.
From PB Require Import Msg.MsgSchema Msg.MsgValue Msg.MsgEnc Msg.MsgDec Msg.InitModel Msg.InitP.
Import ListNotations.
Open Scope N_scope.

(* error <-> some message of the tree (list elements, map values, oneof members, extensions)
   lacks a required field *)
Theorem C10_checkinit_exact :
  forall (S : schema) (tid : nat) (v : value),
    msg_check_init S tid v = false <-> msg_missing S tid v.
Proof. exact msg_checkinit_exact. Qed.
Print Assumptions C10_checkinit_exact.

(* requiredMask accounting, for every number of required fields: if each bit of the mask is the
   bit of some field with property P and popcount(mask) = numRequiredFields, every required field
   has property P (P = "was decoded" / "is present") *)
Theorem C10_mask_sound :
  forall (md : mdesc) (hits : list N),
    msg_nums_unique md ->
    msg_popcount (msg_mask_of md hits 0) = msg_num_required md ->
    forall fd, In fd md -> f_ext fd = false -> msg_is_req fd = true -> In (f_num fd) hits.
Proof. exact msg_mask_sound. Qed.
Print Assumptions C10_mask_sound.

(* the fast path never marks a partial message as initialized *)
Theorem C10_fast_flag_sound_partial :
  forall (S : schema) (ni : nat -> bool) (limit tid : nat) (bs : list byte) (v : value),
    msg_init_wf S ni ->
    msg_decode false S limit tid bs = DOk v ->
    msg_init_flag S ni limit tid bs = DOk true ->
    msg_check_init S tid v = true.
Proof. exact msg_fast_flag_sound. Qed.
Print Assumptions C10_fast_flag_sound_partial.

Theorem C10_fast_flag_sound_refuted_FA5 :
  exists S ni bs v, msg_decode false S 100 0 bs = DOk v /\ msg_init_flag S ni 100 0 bs = DOk true /\
                    msg_check_init S 0 v = false.
Proof. exact msg_fast_flag_sound_refuted_FA5. Qed.
Print Assumptions C10_fast_flag_sound_refuted_FA5.

(* Unmarshal without AllowPartial: required-field error iff the decoded message is partial *)
Theorem C10_unmarshal_error_iff_partial_partial :
  forall (S : schema) (ni : nat -> bool) (limit tid : nat) (bs : list byte),
    msg_init_wf S ni ->
    (msg_unmarshal S ni limit tid false bs = URequired <->
     exists v, msg_decode false S limit tid bs = DOk v /\ msg_check_init S tid v = false).
Proof. exact msg_unmarshal_exact. Qed.
Print Assumptions C10_unmarshal_error_iff_partial_partial.

Theorem C10_unmarshal_slow_error_iff_partial :
  forall (S : schema) (limit tid : nat) (bs : list byte),
    msg_unmarshal_slow S limit tid false bs = URequired <->
    exists v, msg_decode true S limit tid bs = DOk v /\ msg_check_init S tid v = false.
Proof. exact msg_unmarshal_slow_exact. Qed.
Print Assumptions C10_unmarshal_slow_error_iff_partial.

Theorem C10_marshal_error_iff_partial :
  forall (S : schema) (tid : nat) (v : value),
    msg_marshal_checked S tid false v = None <-> msg_check_init S tid v = false.
Proof. exact msg_marshal_exact. Qed.
Print Assumptions C10_marshal_error_iff_partial.

Theorem C10_unmarshal_lazy_exact_refuted_FA1 :
  exists S ni bs v, msg_unmarshal_lazy S ni 100 0 false bs = UOk v /\ msg_check_init S 0 v = false.
Proof. exact msg_unmarshal_lazy_exact_refuted_FA1. Qed.
Print Assumptions C10_unmarshal_lazy_exact_refuted_FA1.

Theorem C10_allow_partial_no_error_unmarshal :
  forall (S : schema) (ni : nat -> bool) (limit tid : nat) (bs : list byte),
    msg_unmarshal S ni limit tid true bs <> URequired.
Proof. exact msg_allow_partial_unmarshal. Qed.
Print Assumptions C10_allow_partial_no_error_unmarshal.

Theorem C10_allow_partial_no_error_unmarshal_slow :
  forall (S : schema) (limit tid : nat) (bs : list byte),
    msg_unmarshal_slow S limit tid true bs <> URequired.
Proof. exact msg_allow_partial_unmarshal_slow. Qed.
Print Assumptions C10_allow_partial_no_error_unmarshal_slow.

Theorem C10_allow_partial_no_error_marshal :
  forall (S : schema) (tid : nat) (v : value),
    msg_marshal_checked S tid true v = Some (msg_encode S tid v).
Proof. exact msg_allow_partial_marshal. Qed.
Print Assumptions C10_allow_partial_no_error_marshal.

(* non-vacuity: the hypothesis of the flag theorems holds of TestRequiredForeign (singular, repeated, map
   value and oneof member of a message with a required field), and the theorem's conclusion is not
   trivially true there: a partial input clears the flag; the map entry with a complete value keeps it *)
Example C10_example_wf : msg_init_wf ex_wf (fun _ => true).
Proof. exact ex_wf_ok. Qed.
Example C10_example_flag :
  msg_init_flag ex_wf (fun _ => true) 100 0 (map n2b [10; 2; 8; 1; 34; 2; 8; 5]) = DOk true /\
  msg_init_flag ex_wf (fun _ => true) 100 0 (map n2b [10; 2; 8; 1; 34; 0]) = DOk false /\
  msg_init_flag ex_wf (fun _ => true) 100 0 (map n2b [18; 0]) = DOk false /\
  msg_init_flag ex_wf (fun _ => true) 100 0 (map n2b [26; 6; 8; 7; 18; 2; 8; 1]) = DOk true /\
  msg_init_flag ex_wf (fun _ => true) 100 0 (map n2b [26; 8; 8; 7; 18; 2; 8; 1; 18; 0]) = DOk true /\
  msg_init_flag ex_wf (fun _ => true) 100 0 (map n2b [26; 4; 8; 7; 18; 0]) = DOk false.
Proof. vm_compute. repeat split; reflexivity. Qed.
Example C10_example_FA2_repaired :
  msg_init_flag ex_fa2 (fun _ => true) 100 0 [n2b 18; n2b 0] = DOk false /\
  msg_init_flag ex_fa2 (fun _ => true) 100 0 [n2b 18; n2b 2; n2b 8; n2b 1] = DOk true.
Proof. exact msg_flag_oneof_member_FA2_repaired. Qed.
Example C10_example_missing :
  msg_missing ex_wf 0 (VMsg [(1, [VMsg [] []])] []).
Proof. apply C10_checkinit_exact. vm_compute. reflexivity. Qed.
