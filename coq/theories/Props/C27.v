(* C27 — Size-delimited streams frame messages exactly.
   Statements about the model Msg/DelimModel.v of encoding/protodelim; each is
   closed by [exact] of a lemma proved in Msg/DelimP.v.

   Reading conventions: [body_ok] is the message codec's verdict on a body
   (opaque here), [terr = false] means the reader ends with io.EOF, [orc i] is
   the arbitrary behaviour (bufio or not, Peek success, Read chunking) of the
   reader during the i-th call, [frame_ok max body] says the body is accepted
   by the codec, its length fits the effective MaxSize and math.MaxInt (every Go
   slice does). *)
From Coq Require Import List NArith ZArith Lia.
From PB Require Import Base.PBytes Wire.WireModel Msg.DelimModel Msg.DelimP Gen.DelimConsts.
Import ListNotations.
Open Scope N_scope.

(* Tier T: the constants of the model are the ones extracted from protodelim.go
   (defaultMaxSize, maxPreallocSize, len(sizeArr), the MaxSize value that disables the limit and its bound) *)
Theorem C27_constants_match_source :
  default_max_size = DelimConsts.defaultMaxSize /\
  N.of_nat size_arr_len = DelimConsts.sizeArrLen /\
  max_int = DelimConsts.unlimitedBound /\
  effective_max DelimConsts.unlimitedMaxSize = DelimConsts.unlimitedBound /\
  effective_max 0 = DelimConsts.defaultMaxSize /\
  max_prealloc_size = DelimConsts.maxPreallocSize.
Proof. exact delim_consts_ok. Qed.
Print Assumptions C27_constants_match_source.

(* every list of bodies, every reader behaviour: the bodies come back in order, then io.EOF *)
Theorem C27_delim_roundtrip :
  forall (body_ok : list byte -> bool) (orc : nat -> oracle) (max : Z) (bs : list (list byte)),
  Forall (frame_ok body_ok max) bs ->
  read_stream body_ok false orc max (stream_of bs) = map DOk bs ++ [DEOF].
Proof. exact roundtrip. Qed.
Print Assumptions C27_delim_roundtrip.
Example C27_delim_roundtrip_nonvacuous :
  Forall (frame_ok (fun _ => true) 0) [[]; [x08; x01]; repeat x00 200].
Proof. repeat (apply Forall_cons; [unfold frame_ok; cbn; unfold default_max_size, max_int; repeat split; lia|]). apply Forall_nil. Qed.

(* a single call returns io.EOF iff the stream is empty (and ends with EOF) *)
Theorem C27_delim_eof_exact :
  forall body_ok terr o max s,
  fst (unmarshal_from body_ok terr o max s) = DEOF <-> s = [] /\ terr = false.
Proof. exact eof_exact. Qed.
Print Assumptions C27_delim_eof_exact.

(* after any number of whole frames, io.EOF iff nothing follows *)
Theorem C27_delim_eof_at_boundary :
  forall body_ok orc max bs tail,
  Forall (frame_ok body_ok max) bs ->
  (read_stream body_ok false orc max (stream_of bs ++ tail) = map DOk bs ++ [DEOF] <-> tail = []).
Proof. exact eof_at_boundary. Qed.
Print Assumptions C27_delim_eof_at_boundary.

(* a stream cut strictly inside a frame (size varint or body) gives io.ErrUnexpectedEOF *)
Theorem C27_delim_truncation :
  forall body_ok orc max bs body j,
  Forall (frame_ok body_ok max) bs -> frame_ok body_ok max body ->
  (0 < j < length (marshal_to body))%nat ->
  read_stream body_ok false orc max (stream_of bs ++ firstn j (marshal_to body))
  = map DOk bs ++ [DUnexpectedEOF].
Proof. exact truncation. Qed.
Print Assumptions C27_delim_truncation.
Example C27_delim_truncation_nonvacuous :
  frame_ok (fun _ => true) 0 [x08; x01] /\ (0 < 2 < length (marshal_to [x08; x01]))%nat.
Proof. split; [unfold frame_ok; cbn; unfold default_max_size, max_int; repeat split; lia | cbn; lia]. Qed.

(* regression for the repaired F15: MaxSize = -1 and the size prefix 2^63-1 with
   no body is a truncated stream, not a panic *)
Theorem C27_delim_truncation_unbacked_size :
  unmarshal_from (fun _ => true) false plain_oracle (-1) f15_stream = (DUnexpectedEOF, []).
Proof. exact f15_unexpected_eof. Qed.
Print Assumptions C27_delim_truncation_unbacked_size.

(* SizeTooLargeError{Size, MaxSize} iff the size read exceeds the effective maximum *)
Theorem C27_delim_too_large :
  forall body_ok terr o max s sz m,
  fst (unmarshal_from body_ok terr o max s) = DTooLarge sz m <->
  exists buf r rest, read_size terr size_arr_len true [] s = RSBuf buf r /\ dec_varint buf = Ok (sz, rest) /\
                     m = effective_max max /\ m < sz.
Proof. exact too_large_iff. Qed.
Print Assumptions C27_delim_too_large.

Theorem C27_delim_too_large_frame :
  forall body_ok terr o max sz rest, sz < 2^64 ->
  (fst (unmarshal_from body_ok terr o max (enc_varint sz ++ rest)) = DTooLarge sz (effective_max max)
   <-> effective_max max < sz).
Proof. exact too_large_frame. Qed.
Print Assumptions C27_delim_too_large_frame.
Example C27_delim_too_large_nonvacuous : effective_max 0 < 4194305 /\ 4194305 < 2^64.
Proof. cbn; unfold default_max_size; lia. Qed.

(* the result of one call does not depend on the reader (bufio/Peek/chunking) *)
Theorem C27_delim_reader_independent :
  forall body_ok terr o max s,
  unmarshal_from body_ok terr o max s = unmarshal_from_ref body_ok terr max s.
Proof. exact unmarshal_from_ref_eq. Qed.
Print Assumptions C27_delim_reader_independent.

(* io.ReadFull delivers exactly the next [need] bytes, whatever the chunking *)
Theorem C27_read_full_chunk_independent :
  forall fuel o i need acc s, (length s < fuel)%nat ->
  read_full fuel o i need acc s =
    if need <=? N.of_nat (length s)
    then RFOk (acc ++ firstn (N.to_nat need) s) (skipn (N.to_nat need) s)
    else RFShort.
Proof. exact read_full_spec. Qed.
Print Assumptions C27_read_full_chunk_independent.
Example C27_read_full_nonvacuous : (length [x00] < 2)%nat.
Proof. cbn; lia. Qed.

(* the out-of-fuel outcome of the model is unreachable *)
Theorem C27_model_fuel_suffices :
  forall body_ok terr orc max s, ~ In DOutOfFuel (read_stream body_ok terr orc max s).
Proof. exact read_stream_no_fuel. Qed.
Print Assumptions C27_model_fuel_suffices.
