(* C02 — Wire field parser accepts exactly the wire grammar and never overreads.
   Statements only; each closed by [exact] of a lemma proved in Wire/VarintP.v,
   Wire/ScanP.v.  The grammar ([varint_bytes], [is_tag], [wf_value], [wf_field],
   [wf_fields]) is Wire/WireGrammar.v; the scanner is Wire/WireModel.v
   ([default_dep] = DefaultRecursionLimit + 1 = 10001 group levels). *)
From Coq Require Import List NArith ZArith.
From PB Require Import Base.PBytes Base.GoInt Wire.WireModel Wire.WireGrammar Wire.VarintP Wire.ScanP.
From PB Require Import Gen.WireGo Wire.WireGoP Wire.WireGoLoopP.
Import ListNotations.
Open Scope N_scope.

(* ---- ConsumeVarint = the varint grammar ---- *)
Theorem C02_consume_varint_sound_complete :
  forall bs v r, dec_varint bs = Ok (v, r) <-> exists p, bs = p ++ r /\ varint_bytes p /\ varint_val p = v.
Proof. exact dec_varint_iff. Qed.
Print Assumptions C02_consume_varint_sound_complete.

(* the recursive [varint_bytes] read declaratively: at most 9 continuation
   bytes (>= 128) followed by one byte < 128, which must be 0 or 1 in position 10 *)
Theorem C02_varint_grammar :
  forall p, varint_bytes p <->
    exists init last, p = init ++ [last] /\ Forall (fun b => 128 <= b2n b) init /\
                      (length init <= 9)%nat /\
                      b2n last < (if Nat.eqb (length init) 9 then 2 else 128).
Proof. exact varint_bytes_decl. Qed.
Print Assumptions C02_varint_grammar.

(* ---- ConsumeTag ---- *)
Theorem C02_consume_tag_sound_complete :
  (forall bs num typ r, dec_tag bs = Ok (num, typ, r) <-> exists p, bs = p ++ r /\ is_tag p num typ) /\
  (forall bs e, dec_tag bs = Err e -> e = Truncated \/ e = Overflow \/ e = FieldNumber).
Proof. exact (conj dec_tag_iff dec_tag_err). Qed.
Print Assumptions C02_consume_tag_sound_complete.

(* ---- ConsumeFieldValue / ConsumeField: Ok exactly on the grammar ---- *)
Theorem C02_consume_field_value_sound_complete :
  forall num typ bs n,
    consume_field_value num typ bs = Ok n <->
    exists val rest, bs = val ++ rest /\ wf_value default_dep num typ val /\ n = N.of_nat (length val).
Proof. exact consume_field_value_iff. Qed.
Print Assumptions C02_consume_field_value_sound_complete.

Theorem C02_consume_field_sound_complete :
  forall bs num typ n, consume_field bs = Ok (num, typ, n) <-> wf_field default_dep bs num typ n.
Proof. exact consume_field_iff. Qed.
Print Assumptions C02_consume_field_sound_complete.

(* ---- never overreads ---- *)
Theorem C02_never_overreads :
  (forall bs num typ n, consume_field bs = Ok (num, typ, n) ->
    n <= N.of_nat (length bs) /\ exists used rest, bs = used ++ rest /\ n = N.of_nat (length used)) /\
  (forall num typ bs n, consume_field_value num typ bs = Ok n -> n <= N.of_nat (length bs)) /\
  (forall dep num typ bs v r, parse_val dep num typ bs = Ok (v, r) -> exists p, bs = p ++ r).
Proof. exact (conj consume_field_no_overread (conj consume_field_value_no_overread parse_val_suffix)). Qed.
Print Assumptions C02_never_overreads.

(* ---- totality: the fuel the model passes always suffices ---- *)
Theorem C02_total :
  (forall dep num typ bs, parse_val dep num typ bs <> Err OutOfFuel) /\
  (forall dep num bs acc, group_loop (parse_val dep) num (x00 :: bs) bs acc <> Err OutOfFuel) /\
  (forall bs, consume_field bs <> Err OutOfFuel) /\
  (forall num typ bs, consume_field_value num typ bs <> Err OutOfFuel) /\
  (forall num bs, consume_group num bs <> Err OutOfFuel).
Proof. exact (conj parse_val_not_fuel (conj group_loop_total (conj consume_field_total (conj consume_field_value_total consume_group_total)))). Qed.
Print Assumptions C02_total.

(* every failure carries one of the six Go error codes -1..-6 *)
Theorem C02_error_code_range :
  forall bs e, consume_field bs = Err e -> (-6 <= werr_code e <= -1)%Z.
Proof. exact consume_field_err_code. Qed.
Print Assumptions C02_error_code_range.

(* ---- ConsumeGroup: the end-tag stripping never underflows the slice ---- *)
Theorem C02_consume_group_strip_safe :
  forall num bs n, consume_group num bs <> Ok (None, n).
Proof. exact consume_group_no_panic. Qed.
Print Assumptions C02_consume_group_strip_safe.

Theorem C02_consume_group_sound_complete :
  (forall num bs body n, consume_group num bs = Ok (Some body, n) ->
    exists etag rest, bs = body ++ etag ++ rest /\ wf_fields (N.to_nat 10000) body /\
                      is_tag etag num 4 /\ n = N.of_nat (length body + length etag)) /\
  (forall num body etag rest, wf_fields (N.to_nat 10000) body -> is_tag etag num 4 ->
    consume_group num (body ++ etag ++ rest) = Ok (Some body, N.of_nat (length body + length etag))).
Proof. exact (conj consume_group_iff consume_group_complete). Qed.
Print Assumptions C02_consume_group_sound_complete.

(* ---- "the error is that of the first defect": the verdict is decided by the
   bytes read so far.  (a) Appending bytes to the input changes nothing unless
   the verdict was Truncated; (b) every proper prefix of a well-formed field is
   Truncated.  So a non-Truncated error is caused by the shortest prefix that
   produces it, and nothing but Truncated can be reported before a defect. ---- *)
Theorem C02_verdict_decided_by_prefix :
  forall bs ext,
    match consume_field bs with
    | Ok res => consume_field (bs ++ ext) = Ok res
    | Err Truncated => True
    | Err e => consume_field (bs ++ ext) = Err e
    end.
Proof. exact consume_field_ext. Qed.
Print Assumptions C02_verdict_decided_by_prefix.

Theorem C02_proper_prefix_is_truncated :
  forall q ext num typ n,
    wf_field default_dep (q ++ ext) num typ n -> N.of_nat (length q) < n -> consume_field q = Err Truncated.
Proof. exact consume_field_prefix_truncated. Qed.
Print Assumptions C02_proper_prefix_is_truncated.

(* ---- ParseError: code -> error value (the Go function is regenerated and
   proved equal to the table [parse_error]) ---- *)
Theorem C02_parse_error_mapping :
  ((forall n, parse_error n = PNil <-> (0 <= n)%Z) /\
  parse_error (werr_code Truncated) = PUnexpectedEOF /\
  parse_error (werr_code FieldNumber) = PFieldNumber /\
  parse_error (werr_code Overflow) = POverflow /\
  parse_error (werr_code Reserved) = PReserved /\
  parse_error (werr_code EndGroup) = PEndGroup /\
  parse_error (werr_code RecursionDepth) = PParse /\
  (forall e, parse_error (werr_code e) <> PNil)) /\
  (forall n, go_ParseError n = perr_go (parse_error n)).
Proof. exact (conj parse_error_mapping go_ParseError_spec). Qed.
Print Assumptions C02_parse_error_mapping.

(* ---- Tier T: ConsumeVarint / ConsumeTag / ConsumeBytes of wire.go, regenerated
   on every run, equal the model; in particular they never panic (the result
   is a [Val]) and the error codes are those of the model ---- *)
Theorem C02_go_Consume :
  (forall bs, go_ConsumeVarint (zbytes bs) = Val (zres_vn (dec_varint bs) bs)) /\
  (forall bs, go_ConsumeTag (zbytes bs) = Val (zres_tag (dec_tag bs) bs)) /\
  (forall bs, (Z.of_nat (length bs) < 2^63)%Z ->
    go_ConsumeBytes (zbytes bs) = Val (zres_bytes (dec_bytes bs) bs)).
Proof. exact (conj go_ConsumeVarint_spec (conj go_ConsumeTag_spec go_ConsumeBytes_spec)). Qed.
Print Assumptions C02_go_Consume.

(* ---- Tier T, stage 2: the functions with loops / recursion (consumeFieldValueD,
   ConsumeFieldValue, ConsumeField, ConsumeGroup incl. its strip loop), translated
   with fuel-indexed local fixpoints, equal the hand model on every input of
   Go-representable length: they return [Val] (neither Panic nor Fuel), the
   model's length or error code, and for ConsumeGroup the model's value ---- *)
Theorem C02_go_Scanner :
  (forall num typ bs depth, (-1 <= depth < 2^62 - 1)%Z -> (Z.of_nat (length bs) < 2^63)%Z ->
     go_consumeFieldValueD (Z.of_N num) (Z.of_N typ) (zbytes bs) depth
     = Val (zres_n (parse_val (Z.to_nat (depth + 1)) num typ bs) bs)) /\
  (forall num typ bs, (Z.of_nat (length bs) < 2^63)%Z ->
     go_ConsumeFieldValue (Z.of_N num) (Z.of_N typ) (zbytes bs) = Val (zres_len (consume_field_value num typ bs))) /\
  (forall bs, (Z.of_nat (length bs) < 2^63)%Z ->
     go_ConsumeField (zbytes bs) = Val (zres_field (consume_field bs))) /\
  (forall num bs, num <= 2147483647 -> (Z.of_nat (length bs) < 2^63)%Z ->
     go_ConsumeGroup (Z.of_N num) (zbytes bs) = zres_group (consume_group num bs) /\
     exists res, go_ConsumeGroup (Z.of_N num) (zbytes bs) = Val res).
Proof. exact go_Scanner_spec. Qed.
Print Assumptions C02_go_Scanner.

(* the constants of wire.go are those the model uses *)
Theorem C02_go_constants :
  (c_VarintType = 0 /\ c_Fixed64Type = 1 /\ c_BytesType = 2 /\ c_StartGroupType = 3 /\
   c_EndGroupType = 4 /\ c_Fixed32Type = 5 /\
   c_errCodeTruncated = werr_code Truncated /\ c_errCodeFieldNumber = werr_code FieldNumber /\
   c_errCodeOverflow = werr_code Overflow /\ c_errCodeReserved = werr_code Reserved /\
   c_errCodeEndGroup = werr_code EndGroup /\ c_errCodeRecursionDepth = werr_code RecursionDepth /\
   c_MinValidNumber = 1 /\ c_MaxValidNumber = 2^29 - 1 /\
   Z.to_nat (c_DefaultRecursionLimit + 1) = default_dep)%Z.
Proof. exact go_constants. Qed.
Print Assumptions C02_go_constants.

(* ---- non-vacuity ---- *)
(* field 1, varint 150 written non-minimally in three bytes *)
Example C02_ex_field_padded_varint : wf_field default_dep [x08; x96; x81; x00; xff] 1 0 4.
Proof. apply C02_consume_field_sound_complete. vm_compute. reflexivity. Qed.
(* field 1 group { field 2 LEN "ab"; field 3 group {} } with a padded end tag *)
Example C02_ex_field_group :
  wf_field default_dep [x0b; x12; x02; x61; x62; x1b; x1c; x8c; x00] 1 3 9.
Proof. apply C02_consume_field_sound_complete. vm_compute. reflexivity. Qed.
Example C02_ex_group_value :
  consume_group 1 [x12; x02; x61; x62; x8c; x80; x00; x07] = Ok (Some [x12; x02; x61; x62], 7).
Proof. vm_compute. reflexivity. Qed.
Example C02_ex_varint_10 : varint_bytes [xff; xff; xff; xff; xff; xff; xff; xff; xff; x01].
Proof.
  apply C02_varint_grammar. exists [xff; xff; xff; xff; xff; xff; xff; xff; xff], x01.
  split; [reflexivity|]. split; [repeat constructor; vm_compute; discriminate|].
  split; [cbn; auto|vm_compute; reflexivity].
Qed.
Example C02_ex_errors :
  consume_field [] = Err Truncated /\ consume_field [x00] = Err FieldNumber /\
  consume_field [xff; xff; xff; xff; xff; xff; xff; xff; xff; x02] = Err Overflow /\
  consume_field [x0e] = Err Reserved /\ consume_field [x0b; x14] = Err EndGroup /\
  consume_field [x0c] = Err EndGroup /\ parse_val 1 1 3 [x0b; x0c; x0c] = Err RecursionDepth.
Proof. vm_compute. repeat split; reflexivity. Qed.
Example C02_ex_prefix :
  consume_field [x0b; x12; x02; x61] = Err Truncated.
Proof.
  apply (C02_proper_prefix_is_truncated [x0b; x12; x02; x61] [x62; x1b; x1c; x8c; x00] 1 3 9).
  - exact C02_ex_field_group.
  - vm_compute. reflexivity.
Qed.
Example C02_ex_go_tag : go_ConsumeTag [0]%Z = Val (0, 0, -2)%Z.
Proof. apply (proj1 (proj2 C02_go_Consume) [x00]). Qed.
Example C02_ex_go_field : go_ConsumeField [11; 8; 1; 12; 255]%Z = Val (1, 3, 4)%Z.
Proof. apply (proj1 (proj2 (proj2 C02_go_Scanner)) [x0b; x08; x01; x0c; xff]). vm_compute. reflexivity. Qed.
