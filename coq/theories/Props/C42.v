From PB Require Import CodeGen.NamesModel.
