(* C42 — Go identifiers derived from schemas are valid and unique.
   Statements only; each closed by [exact] of a lemma proved in CodeGen/NamesP.v
   or CodeGen/UniqueP.v, or a computed witness. *)
From Coq Require Import List NArith ZArith Bool Lia.
From PB Require Import Base.PBytes CodeGen.NamesModel CodeGen.NamesP CodeGen.UniqueModel CodeGen.UniqueP CodeGen.OpaqueModel.
From PB Require Import Base.GoInt Gen.StrsGo CodeGen.StrsGoBase CodeGen.StrsTrimModel CodeGen.StrsGoP.
Import ListNotations.
Open Scope N_scope.

Definition s (l : list byte) : list byte := l.

(* ---------- GoCamelCase ---------- *)
(* for every protobuf identifier [A-Za-z_][A-Za-z0-9_]* the result is non-empty,
   starts with an upper-case ASCII letter and consists of [A-Za-z0-9_] *)
Theorem C42_camel_exported_identifier :
  forall s, proto_ident s = true ->
  exists c r, go_camel_case s = c :: r /\ is_upper c = true /\
              forallb is_letter_digit_b (c :: r) = true.
Proof. exact camel_exported_identifier. Qed.
Print Assumptions C42_camel_exported_identifier.
Example C42_camel_nonvacuous :
  proto_ident [ "_"; "f"; "o"; "o"; "_"; "b"; "1" ]%byte = true /\
  go_camel_case [ "_"; "f"; "o"; "o"; "_"; "b"; "1" ]%byte = [ "X"; "F"; "o"; "o"; "B"; "1" ]%byte.
Proof. split; reflexivity. Qed.

(* ---------- GoSanitized ----------
   for every string (as the rune sequence that ranging over it yields) and every
   classification of runes by unicode.IsLetter / unicode.IsDigit in which U+FFFD
   is not a letter: the result is a Go identifier (go/token.IsIdentifier relative
   to the same classification), in particular not a keyword *)
Theorem C42_sanitized_valid_nonkeyword :
  forall (u_letter u_digit : N -> bool), u_letter rune_error = false ->
  forall rs, go_identifier u_letter u_digit (go_sanitized_runes u_letter u_digit rs) = true.
Proof. exact sanitized_valid_nonkeyword. Qed.
Print Assumptions C42_sanitized_valid_nonkeyword.
(* the same on strings: for every byte string s (valid UTF-8 or not), ranging over
   GoSanitized(s) yields a Go identifier *)
Theorem C42_sanitized_valid_nonkeyword_bytes :
  forall (u_letter u_digit : N -> bool), u_letter rune_error = false ->
  forall s, go_identifier u_letter u_digit (decode_runes (go_sanitized u_letter u_digit s)) = true.
Proof. exact sanitized_valid_nonkeyword_bytes. Qed.
Print Assumptions C42_sanitized_valid_nonkeyword_bytes.
Example C42_sanitized_nonvacuous :
  tbl_letter [] rune_error = false /\
  go_sanitized_tbl [] [ "g"; "o" ]%byte = [ "_"; "g"; "o" ]%byte /\
  go_sanitized_tbl [] [ "1"; "-"; "a" ]%byte = [ "_"; "1"; "_"; "a" ]%byte /\
  go_sanitized_tbl [] [] = [ "_" ]%byte.
Proof. repeat split; reflexivity. Qed.

(* ---------- JSONCamelCase / JSONSnakeCase ----------
   the exact condition under which the conversion is reversible: no upper-case
   letter, and every '_' is followed by a lower-case letter *)
Theorem C42_snake_camel_inverse :
  forall s, json_snake_case (json_camel_case s) = s <-> snake_ok s = true.
Proof. exact snake_camel_inverse. Qed.
Print Assumptions C42_snake_camel_inverse.
(* and that is what protojson's marshalFieldMask checks, on top of FullName.IsValid *)
Theorem C42_snake_camel_inverse_when_accepted :
  forall s out, fieldmask_path s = (0, out) -> out = json_camel_case s /\ json_snake_case out = s.
Proof. exact fieldmask_accepted_roundtrip. Qed.
Print Assumptions C42_snake_camel_inverse_when_accepted.
Theorem C42_fieldmask_accepts_iff :
  forall s, fst (fieldmask_path s) = 0 <-> fullname_valid s = true /\ snake_ok s = true.
Proof. exact fieldmask_accepts_iff. Qed.
Print Assumptions C42_fieldmask_accepts_iff.
Example C42_fieldmask_nonvacuous :
  fieldmask_path [ "a"; "_"; "b"; "."; "c" ]%byte = (0, [ "a"; "B"; "."; "c" ]%byte) /\
  fst (fieldmask_path [ "a"; "_"; "1" ]%byte) = 2 /\ fst (fieldmask_path [ "a"; "B" ]%byte) = 2 /\
  fst (fieldmask_path [ "a"; "." ]%byte) = 1.
Proof. repeat split; reflexivity. Qed.

(* ---------- makeNameUnique ---------- *)
Definition f (n : name) : fieldspec := mkfield n None.
Definition fo (n : name) (i : N) : fieldspec := mkfield n (Some i).

(* "all field, getter and oneof names of a message are pairwise distinct":
   refuted (finding F12).  message M { optional int32 get_y = 1; oneof y { int32 a = 2; } }
   gives the struct field GetY and the oneof getter GetY(). *)
Theorem C42_names_pairwise_distinct_refuted :
  exists fs onames, ~ NoDup (full_names (message_hist fs onames)).
Proof.
  exists [ f [ "g"; "e"; "t"; "_"; "y" ]%byte; fo [ "a" ]%byte 0 ], [ [ "y" ]%byte ].
  intros H. apply nodupb_nodup in H. vm_compute in H. discriminate.
Qed.
Print Assumptions C42_names_pairwise_distinct_refuted.

(* the erasure usedNames["Get"+name] = false can even give two *fields* the same
   Go name: fields get_get_v, getGetV with oneofs get_v, Get_get_v, v, getV in between *)
Theorem C42_field_names_distinct_refuted :
  exists fs onames, ~ NoDup (fst (message_names fs onames)).
Proof.
  exists [ f [ "g"; "e"; "t"; "_"; "g"; "e"; "t"; "_"; "v" ]%byte;
           fo [ "a" ]%byte 0; fo [ "b" ]%byte 1; fo [ "c" ]%byte 2; fo [ "d" ]%byte 3;
           f [ "g"; "e"; "t"; "G"; "e"; "t"; "V" ]%byte ],
         [ [ "g"; "e"; "t"; "_"; "v" ]%byte; [ "G"; "e"; "t"; "_"; "g"; "e"; "t"; "_"; "v" ]%byte;
           [ "v" ]%byte; [ "g"; "e"; "t"; "V" ]%byte ].
  intros H. apply nodupb_nodup in H. vm_compute in H. discriminate.
Qed.
Print Assumptions C42_field_names_distinct_refuted.

(* What holds instead, for every sequence of makeNameUnique calls (every message):
   the results, their Get-forms and the reserved method names are pairwise
   distinct exactly when no oneof's getter name "Get"+GoName is itself the Go
   name of a field or oneof. *)
Theorem C42_names_distinct_iff :
  forall evs, let h := run_hist evs init_used [] in
  NoDup (full_names h) <-> (forall n, In (n, false) h -> ~ In (getter n) (map fst h)).
Proof. exact names_distinct_iff. Qed.
Print Assumptions C42_names_distinct_iff.
Theorem C42_message_names_distinct_iff :
  forall fs onames,
  nodupb (full_names (message_hist fs onames)) = oneof_getter_free (message_hist fs onames).
Proof. exact message_names_distinct_iff. Qed.
Print Assumptions C42_message_names_distinct_iff.

(* partial: a message without oneofs — for every list of field names the Go
   names, the getters and the reserved method names are pairwise distinct
   (missing for the full property: oneofs, see the refutations above; setters
   and the opaque API's Has/Clear/Which are not modelled) *)
Theorem C42_names_distinct_partial :
  forall fs onames, (forall f, In f fs -> f_oneof f = None) ->
  NoDup (full_names (message_hist fs onames)).
Proof. exact message_names_distinct_no_oneof. Qed.
Print Assumptions C42_names_distinct_partial.
Example C42_names_distinct_nonvacuous :
  message_names [ f [ "x" ]%byte; f [ "X" ]%byte; f [ "g"; "e"; "t"; "_"; "x" ]%byte; f [ "r"; "e"; "s"; "e"; "t" ]%byte ] [] =
  ([ [ "X" ]%byte; [ "X"; "_" ]%byte; [ "G"; "e"; "t"; "X"; "_"; "_" ]%byte; [ "R"; "e"; "s"; "e"; "t"; "_" ]%byte ], []).
Proof. vm_compute. reflexivity. Qed.

(* "every method emitted for each message is in the reserved set": refuted
   (finding FH1) — ProtoReflect is not; a field proto_reflect keeps the Go name
   ProtoReflect next to the method ProtoReflect() *)
Theorem C42_base_methods_reserved_refuted :
  exists b fs, In b base_methods /\ ~ In b reserved /\ In b (fst (message_names fs [])).
Proof.
  exists [ "P"; "r"; "o"; "t"; "o"; "R"; "e"; "f"; "l"; "e"; "c"; "t" ]%byte,
         [ f [ "p"; "r"; "o"; "t"; "o"; "_"; "r"; "e"; "f"; "l"; "e"; "c"; "t" ]%byte ].
  split; [vm_compute; tauto|]. split.
  - intros H. apply mem_name_in in H. vm_compute in H. discriminate.
  - vm_compute. tauto.
Qed.
Print Assumptions C42_base_methods_reserved_refuted.

(* oneof wrapper types: never the Go identifier of a nested message or enum ... *)
Theorem C42_wrapper_not_nested :
  forall msg taken g, ~ In (wrapper_name msg taken g) taken.
Proof. exact wrapper_not_taken. Qed.
Print Assumptions C42_wrapper_not_nested.
(* ... but "wrapper types of distinct Go names are distinct": refuted (finding FH2):
   message M { message Foo {} oneof o { int32 foo = 1; int32 foo_ = 2; } } *)
Theorem C42_wrappers_distinct_refuted :
  exists msg taken g1 g2, g1 <> g2 /\ wrapper_name msg taken g1 = wrapper_name msg taken g2.
Proof.
  exists [ "M" ]%byte, [ [ "M"; "_"; "F"; "o"; "o" ]%byte ], [ "F"; "o"; "o" ]%byte, [ "F"; "o"; "o"; "_" ]%byte.
  split; [discriminate|reflexivity].
Qed.
Print Assumptions C42_wrappers_distinct_refuted.

(* ---------- opaque API (protogen_opaque.go) ----------
   "the accessor methods Get/Set/Has/Clear<camelCase> and Has/Clear/Which<oneof> of a
   message are pairwise distinct": refuted twice.
   FH4: _foo and X_foo both camel-case to XFoo and are renamed XFoo_1, XFoo_2; the
   field x_foo_2 is XFoo_2 already. *)
Theorem C42_opaque_suffix_collision_refuted :
  exists fs, ~ NoDup (opaque_methods fs [] []).
Proof.
  exists [ mkofield [ "_"; "f"; "o"; "o" ]%byte 1 None true;
           mkofield [ "X"; "_"; "f"; "o"; "o" ]%byte 2 None true;
           mkofield [ "x"; "_"; "f"; "o"; "o"; "_"; "2" ]%byte 3 None true ].
  intros H. apply nodupb_nodup in H. vm_compute in H. discriminate.
Qed.
Print Assumptions C42_opaque_suffix_collision_refuted.
(* FH5: two oneofs x_x and XX (the open API names them XX and XX_; the opaque API
   uses the camel-case name and resolves collisions between fields only) *)
Theorem C42_opaque_oneof_collision_refuted :
  exists fs onames real, ~ NoDup (opaque_methods fs onames real).
Proof.
  exists [ mkofield [ "a" ]%byte 1 (Some 0) true; mkofield [ "b" ]%byte 2 (Some 1) true ],
         [ [ "x"; "_"; "x" ]%byte; [ "X"; "X" ]%byte ], [ true; true ].
  intros H. apply nodupb_nodup in H. vm_compute in H. discriminate.
Qed.
Print Assumptions C42_opaque_oneof_collision_refuted.

(* ---------- Tier T: internal/strs/strings.go as translated by srcmodel_strs (Gen/StrsGo.v) ----------
   [zb s] is the string s as the translation sees it (list of byte values in Z);
   [go_len_ok s] says len(s) < 2^63, which holds for every Go string. *)
Theorem C42_go_isASCII_eq_model :
  forall c, go_isASCIILower (zc c) = is_lower c /\ go_isASCIIUpper (zc c) = is_upper c /\
            go_isASCIIDigit (zc c) = is_digit c.
Proof. exact go_isASCII_eq. Qed.
Print Assumptions C42_go_isASCII_eq_model.
Theorem C42_go_GoCamelCase_eq_model :
  forall s, go_len_ok s -> go_GoCamelCase (zb s) = Val (zb (go_camel_case s)).
Proof. exact go_GoCamelCase_eq. Qed.
Print Assumptions C42_go_GoCamelCase_eq_model.
Theorem C42_go_JSONCamelCase_eq_model :
  forall s, go_len_ok s -> go_JSONCamelCase (zb s) = Val (zb (json_camel_case s)).
Proof. exact go_JSONCamelCase_eq. Qed.
Print Assumptions C42_go_JSONCamelCase_eq_model.
Theorem C42_go_JSONSnakeCase_eq_model :
  forall s, go_len_ok s -> go_JSONSnakeCase (zb s) = Val (zb (json_snake_case s)).
Proof. exact go_JSONSnakeCase_eq. Qed.
Print Assumptions C42_go_JSONSnakeCase_eq_model.
(* the translated source never panics (index out of range) and its loops never
   exhaust their fuel *)
Theorem C42_go_strs_never_panic :
  forall s, go_len_ok s ->
  (exists o, go_GoCamelCase (zb s) = Val o) /\ (exists o, go_JSONCamelCase (zb s) = Val o) /\
  (exists o, go_JSONSnakeCase (zb s) = Val o).
Proof. exact go_strs_total. Qed.
Print Assumptions C42_go_strs_never_panic.
(* the translated GoCamelCase maps every protobuf identifier to an exported Go identifier *)
Theorem C42_go_GoCamelCase_exported_identifier :
  forall s, go_len_ok s -> proto_ident s = true ->
  exists c r, go_GoCamelCase (zb s) = Val (zb (c :: r)) /\ go_isASCIIUpper (zc c) = true /\
              forallb is_letter_digit_b (c :: r) = true.
Proof. exact go_GoCamelCase_exported_identifier. Qed.
Print Assumptions C42_go_GoCamelCase_exported_identifier.
(* the translated JSONSnakeCase inverts the translated JSONCamelCase exactly on snake_ok *)
Theorem C42_go_snake_camel_inverse :
  forall s, go_len_ok s ->
  (bind (go_JSONCamelCase (zb s)) go_JSONSnakeCase = Val (zb s) <-> snake_ok s = true).
Proof. exact go_snake_camel_inverse. Qed.
Print Assumptions C42_go_snake_camel_inverse.
Example C42_go_nonvacuous :
  go_len_ok [ "_"; "f"; "o"; "o"; "_"; "b"; "1" ]%byte /\
  go_GoCamelCase (zb [ "_"; "f"; "o"; "o"; "_"; "b"; "1" ]%byte) = Val (zb [ "X"; "F"; "o"; "o"; "B"; "1" ]%byte) /\
  go_GoCamelCase (zb [ "a"; "."; "b"; "."; "_"; "c"; "_" ]%byte) = Val (zb [ "A"; "B"; "_"; "X"; "C"; "_" ]%byte) /\
  go_JSONCamelCase (zb [ "a"; "_"; "b"; "_"; "_"; "1" ]%byte) = Val (zb [ "a"; "B"; "1" ]%byte) /\
  go_JSONSnakeCase (zb [ "a"; "B"; "c" ]%byte) = Val (zb [ "a"; "_"; "b"; "c" ]%byte).
Proof. unfold go_len_ok. repeat split; reflexivity. Qed.

(* strs.TrimEnumPrefix as translated (loop with `continue`; unicode.ToLower(rune(byte)) and
   strings.TrimLeft(s, "_") enter through the hand-written CodeGen/StrsGoBase.v, compared with
   the library on every run): equals the hand model on all strings, never panics, returns a
   suffix of the value name, and never the empty string for a non-empty name *)
Theorem C42_go_TrimEnumPrefix_eq_model :
  forall s prefix, go_TrimEnumPrefix (zb s) (zb prefix) = Val (zb (trim_enum_prefix s prefix)).
Proof. exact go_TrimEnumPrefix_eq. Qed.
Print Assumptions C42_go_TrimEnumPrefix_eq_model.
Theorem C42_go_TrimEnumPrefix_suffix_nonempty :
  forall s prefix, exists p o, go_TrimEnumPrefix (zb s) (zb prefix) = Val (zb o) /\ s = p ++ o /\ (s <> [] -> o <> []).
Proof. exact go_TrimEnumPrefix_suffix_nonempty. Qed.
Print Assumptions C42_go_TrimEnumPrefix_suffix_nonempty.
Example C42_go_trim_nonvacuous :
  go_TrimEnumPrefix (zb [ "F"; "O"; "O"; "_"; "B"; "A"; "R" ]%byte) (zb [ "f"; "o"; "o" ]%byte) = Val (zb [ "B"; "A"; "R" ]%byte) /\
  go_TrimEnumPrefix (zb [ "F"; "O"; "O"; "_" ]%byte) (zb [ "f"; "o"; "o" ]%byte) = Val (zb [ "F"; "O"; "O"; "_" ]%byte) /\
  go_TrimEnumPrefix (zb [ "F"; "_"; "O"; "x" ]%byte) (zb [ "f"; "o"; "o" ]%byte) = Val (zb [ "F"; "_"; "O"; "x" ]%byte).
Proof. repeat split; reflexivity. Qed.
