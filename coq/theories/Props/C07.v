(* C07 — Merge equals concatenated decoding.
   Statements only; each closed by [exact] of a lemma proved in Msg/MergeP.v. *)
From Coq Require Import List NArith ZArith.
From PB Require Import Base.PBytes Wire.WireModel.
From PB Require Import Msg.MsgSchema Msg.MsgValue Msg.MsgEnc Msg.MsgDec Msg.MsgValid Msg.MergeModel Msg.MergeP.
Import ListNotations.
Open Scope N_scope.

Theorem C07_merge_empty_r :
  forall (S : schema) (d tid : nat) (fs : fields) (u : list byte),
    msg_merge S (Datatypes.S d) tid (VMsg fs u) msg_empty = Some (VMsg fs u).
Proof. exact msg_merge_empty_r. Qed.
Print Assumptions C07_merge_empty_r.
