(* C07 — Merge equals concatenated decoding.
   Statements only; each closed by [exact] of a lemma proved in Msg/MergeP.v.

   Model: Msg/MergeModel.v ([msg_merge]: scalars overwrite when populated in the source, lists
   append, maps upsert whole entries, a oneof member replaces the other members and merges with the
   same member, singular sub-messages merge recursively, unknown bytes append) and the merging
   decoder of Msg/MsgDec.v ([msg_decode_into] = UnmarshalOptions{Merge:true}).

   [msg_valid] is the canonical-value predicate of C03 (Msg/MsgValid.v).  Since WP-B completed C03 it
   has no restriction on the table-driven path; on the reflection path ([slow] = true) it demands
   that group-typed values pass the wire scanner ([msg_group_scans], finding FB3 of C03).  The
   suffix _partial of the theorems that assume it now only stands for this FB3 exclusion built
   into [msg_valid] for [slow] = true; for [slow] = false they are the full statements.  Note that
   the DESTINATION of a merge is arbitrary in C07_unmarshal_merge_option_partial: only the source
   must be a canonical value.

   The clause "Unmarshal(x || y) = Merge(Unmarshal x, Unmarshal y) for all decodable x, y" of the
   property text is refuted by the faithful model (C07_concat_eq_merge_refuted_FA6: an explicit
   zero of an implicit-presence field in y clears the field on the wire, Merge cannot); it holds
   in the form "decode (x || y) = decode y into (decode x)" for EVERY pair of byte strings that
   decode (C07_decode_app: no validity hypothesis, both decoder paths, any schema), and as
   "Unmarshal(x || Marshal(b)) = Merge(Unmarshal(x), b)" for every decodable x and canonical b
   (C07_concat_eq_merge: the exclusion of FA6 in the form "y is an encoder output"; the weaker
   exclusion "y merely has no zero-valued implicit-presence occurrence" is not proved). *)
From Coq Require Import List NArith ZArith.
From PB Require Import Base.PBytes Wire.WireModel.
From PB Require Import Msg.MsgSchema Msg.MsgValue Msg.MsgEnc Msg.MsgDec Msg.MsgValid Msg.MsgExample Msg.MergeModel Msg.MergeP.
Import ListNotations.
Open Scope N_scope.

Theorem C07_merge_eq_decode_concat_partial :
  forall (slow : bool) (S : schema) (limit tid : nat) (a b : value),
    msg_valid slow S limit tid a = true -> msg_valid slow S limit tid b = true ->
    exists m, msg_merge S limit tid a b = Some m /\
              msg_decode slow S limit tid (msg_encode S tid a ++ msg_encode S tid b) = DOk m.
Proof. exact msg_merge_eq_decode_concat. Qed.
Print Assumptions C07_merge_eq_decode_concat_partial.

(* UnmarshalOptions{Merge:true}: decoding Marshal(b) into an arbitrary message a gives Merge(a, b) *)
Theorem C07_unmarshal_merge_option_partial :
  forall (slow : bool) (S : schema) (limit tid : nat) (b : value) (afs : fields) (au : list byte),
    msg_valid slow S limit tid b = true ->
    exists m, msg_merge S limit tid (VMsg afs au) b = Some m /\
              msg_decode_into slow S limit tid (msg_encode S tid b) (VMsg afs au) = DOk m.
Proof. exact msg_decode_into_merge. Qed.
Print Assumptions C07_unmarshal_merge_option_partial.

(* Clone(m) = Merge(empty, m) = m *)
Theorem C07_merge_empty_l_partial :
  forall (slow : bool) (S : schema) (limit tid : nat) (m : value),
    msg_valid slow S limit tid m = true -> msg_clone S limit tid m = Some m.
Proof. exact msg_merge_empty_l. Qed.
Print Assumptions C07_merge_empty_l_partial.

Theorem C07_merge_empty_r :
  forall (S : schema) (d tid : nat) (fs : fields) (u : list byte),
    msg_merge S (Datatypes.S d) tid (VMsg fs u) msg_empty = Some (VMsg fs u).
Proof. exact msg_merge_empty_r. Qed.
Print Assumptions C07_merge_empty_r.

(* decode (Marshal a || y): after the encoding of a the tag loop continues with y and the accumulator a *)
Theorem C07_decode_app_partial :
  forall (slow : bool) (S : schema) (limit tid : nat) (a : value) (y : list byte),
    msg_valid slow S limit tid a = true ->
    exists g, (length y < length g)%nat /\
      msg_decode_msg slow S limit tid 0 (x00 :: msg_encode S tid a ++ y) (msg_encode S tid a ++ y) ([], []) =
      msg_decode_msg slow S limit tid 0 g y (msg_macc_of a).
Proof. exact msg_decode_app_encoded. Qed.
Print Assumptions C07_decode_app_partial.

(* decode (x || y) = decode y into (decode x), for all byte strings x, y that decode *)
Theorem C07_decode_app :
  forall (slow : bool) (S : schema) (limit tid : nat) (x y : list byte) (vx v : value),
    msg_decode slow S limit tid x = DOk vx ->
    msg_decode_into slow S limit tid y vx = DOk v ->
    msg_decode slow S limit tid (x ++ y) = DOk v.
Proof. exact msg_decode_app. Qed.
Print Assumptions C07_decode_app.

(* Unmarshal(x || Marshal(b)) = Merge(Unmarshal(x), b): x ANY decodable byte string *)
Theorem C07_concat_eq_merge :
  forall (slow : bool) (S : schema) (limit tid : nat) (x : list byte) (vx b : value),
    msg_decode slow S limit tid x = DOk vx ->
    msg_valid slow S limit tid b = true ->
    exists m, msg_merge S limit tid vx b = Some m /\
              msg_decode slow S limit tid (x ++ msg_encode S tid b) = DOk m.
Proof. exact msg_concat_eq_merge. Qed.
Print Assumptions C07_concat_eq_merge.

Theorem C07_concat_eq_merge_refuted_FA6 :
  exists S x y vx vy vxy m,
    msg_decode false S 100 0 x = DOk vx /\ msg_decode false S 100 0 y = DOk vy /\
    msg_decode false S 100 0 (x ++ y) = DOk vxy /\ msg_merge S 100 0 vx vy = Some m /\ m <> vxy.
Proof. exact msg_concat_eq_merge_refuted_FA6. Qed.
Print Assumptions C07_concat_eq_merge_refuted_FA6.

(* non-vacuity: the example message of C03 (scalars, lists, maps, nested recursive sub-message, group
   list, oneof member, extension, unknown fields) is valid, and merging it with itself computes *)
Example C07_example_valid : msg_valid false ex_schema 3 0 ex_msg = true.
Proof. vm_compute. reflexivity. Qed.
(* non-vacuity of C07_decode_app / C07_concat_eq_merge: a non-canonical x (the FA6 bytes) *)
Example C07_example_decode_app :
  exists vx, msg_decode false ex_fa6 100 0 [n2b 8; n2b 3; n2b 8; n2b 0] = DOk vx /\
             msg_decode_into false ex_fa6 100 0 [n2b 8; n2b 5] vx = DOk (VMsg [(1, [VS (SZ 5)])] []).
Proof. eexists. split; vm_compute; reflexivity. Qed.
Example C07_example_merge :
  exists m, msg_merge ex_schema 3 0 ex_msg ex_msg = Some m /\ m <> ex_msg /\
            msg_decode false ex_schema 3 0 (msg_encode ex_schema 0 ex_msg ++ msg_encode ex_schema 0 ex_msg) = DOk m.
Proof. eexists. split; [vm_compute; reflexivity|]. split; [discriminate|vm_compute; reflexivity]. Qed.
