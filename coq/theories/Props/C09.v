(* C09 — Unknown fields are preserved and DiscardUnknown removes them.
   Statements only; each closed by [exact] of a lemma proved in Msg/UnkP.v / Msg/MergeP.v.

   Model: the decoder of Msg/MsgDec.v keeps a field in the unknown section iff [msg_rejects] (no
   schema entry for the number, or a wire type the field's kind rejects); the tag bytes kept are
   [enc_tag num typ] on the table-driven path (AppendTag: minimal re-encoding) and the raw input
   bytes on the reflection path; Msg/MsgEnc.v writes the unknown section after the known fields;
   Msg/UnkModel.v adds DiscardUnknown, schema restriction and the evolution round trip.

   Proved: unknown_preserved at the level of one field occurrence (C09_unknown_preserved_step:
   appended verbatim; C09_unknown_untouched_step: every other occurrence leaves the section alone)
   and for a run of rejected fields anywhere in the input (C09_unknown_preserved_run: appended in
   input order, decoding continues after it); unknown_reemitted; discard_unknown.
   schema_evolution: decode S (encode S' (decode S' (encode S m))) = m, identity of canonical values, for
   S' = S with an ARBITRARY set of fields deleted in every message type ([msg_restrict keep S]), is
   proved for every valid m whose populated top-level fields that are KEPT are of scalar kind
   ([msg_kept_scalar]: all 16 scalar kinds, explicit/implicit/required presence, packed and expanded
   lists, maps with scalar values, oneofs of scalars, extensions); the DELETED populated fields are
   arbitrary -- scalars, messages with any nested content, groups, lists and maps of messages -- and so
   are the unknown fields: C09_schema_evolution_partial.  Second version, C09_schema_evolution_top_partial:
   ANY set of fields of the ROOT message type deleted, kept and deleted fields of EVERY kind (messages,
   groups, lists and maps of messages, with any nested content), for every valid m -- provided the nested
   message types are left unchanged ([keep t n = true] for t <> 0) and the root type is not recursive
   ([msg_root_unref]).  MISSING for the general statement: deletions inside the type of a KEPT populated
   message-typed field -- its encoding (full schema) is then decoded by a reduced schema one level down,
   which needs the induction with two schemas at every depth; this case is checked on the implementation
   and against the model on every run (harness op `evo`) and computed on the C03 example
   (C09_schema_evolution_example).
   The hypothesis "an encoding of a message" is necessary:
   C09_schema_evolution_arbitrary_bytes_refuted. *)
From Coq Require Import List NArith ZArith.
From PB Require Import Base.PBytes Wire.WireModel.
From PB Require Import Msg.MsgSchema Msg.MsgValue Msg.MsgEnc Msg.MsgDec Msg.MsgValid Msg.MsgRoundP Msg.MsgExample
  Msg.UnkModel Msg.UnkP Msg.MergeModel Msg.MergeP.
Import ListNotations.
Open Scope N_scope.

Theorem C09_unknown_preserved_step :
  forall (slow : bool) (S : schema) (d : nat) (md : mdesc) (tagraw : list byte) (num typ : N)
         (r : list byte) (acc acc' : msg_macc) (r' : list byte),
    msg_rejects md (match d with O => false | _ => true end) num typ = true ->
    msg_step slow md (msg_decode_msg slow S d) (msg_dsub2 slow S d) tagraw num typ r acc = DOk (acc', r') ->
    acc' = (fst acc, snd acc ++ tagraw ++ firstn (length r - length r') r) /\
    exists w, parse_val default_dep num typ r = Ok (w, r').
Proof. exact msg_unknown_preserved_step. Qed.
Print Assumptions C09_unknown_preserved_step.

Theorem C09_unknown_untouched_step :
  forall (slow : bool) (S : schema) (d : nat) (md : mdesc) (tagraw : list byte) (num typ : N)
         (r : list byte) (acc acc' : msg_macc) (r' : list byte),
    msg_rejects md (match d with O => false | _ => true end) num typ = false ->
    msg_step slow md (msg_decode_msg slow S d) (msg_dsub2 slow S d) tagraw num typ r acc = DOk (acc', r') ->
    snd acc' = snd acc.
Proof. exact msg_unknown_untouched_step. Qed.
Print Assumptions C09_unknown_untouched_step.

(* a run [u] of well-formed fields that the message type rejects ([msg_unknown_ok]: minimal tags on
   the table-driven path), followed by any input: the run is appended to the unknown section in
   input order and decoding continues with the rest, at top level and inside groups *)
Theorem C09_unknown_preserved_run :
  forall (slow : bool) (S : schema) (d tid : nat) (md : mdesc) (grp : N),
    nth_error S tid = Some md ->
    forall (gf u g : list byte) (accf : fields) (pre tail : list byte),
      msg_unknown_ok slow md (match d with O => false | _ => true end) gf u = true ->
      (length (u ++ tail) < length g)%nat ->
      exists g2, (length tail < length g2)%nat /\
        msg_decode_msg slow S (Datatypes.S d) tid grp g (u ++ tail) (accf, pre) =
        msg_decode_msg slow S (Datatypes.S d) tid grp g2 tail (accf, pre ++ u).
Proof. exact msg_unknown_loop_k. Qed.
Print Assumptions C09_unknown_preserved_run.

Theorem C09_unknown_reemitted :
  forall (S : schema) (tid : nat) (fs : fields) (u : list byte),
    msg_encode S tid (VMsg fs u) = msg_encode S tid (VMsg fs []) ++ u.
Proof. exact msg_unknown_reemitted. Qed.
Print Assumptions C09_unknown_reemitted.

Theorem C09_discard_unknown :
  forall (slow : bool) (S : schema) (limit tid : nat) (bs : list byte) (v : value),
    msg_decode_discard slow S limit tid bs = DOk v -> msg_has_unknown v = false.
Proof. exact msg_discard_unknown. Qed.
Print Assumptions C09_discard_unknown.

(* [m] must be canonical for the path that decodes with the full schema ([slow]) and for the
   reflection path, which decodes with the reduced schema (dynamicpb of the reduced descriptor) *)
Theorem C09_schema_evolution_partial :
  forall (slow : bool) (S : schema) (keep : nat -> N -> bool) (limit : nat) (fs : fields) (unk : list byte),
    msg_valid slow S limit O (VMsg fs unk) = true ->
    msg_valid true S limit O (VMsg fs unk) = true ->
    msg_kept_scalar (keep O) (nth O S []) fs = true ->
    msg_evolve slow S (msg_restrict keep S) limit (msg_encode S O (VMsg fs unk)) = DOk (VMsg fs unk).
Proof. exact msg_schema_evolution_kept_scalar. Qed.
Print Assumptions C09_schema_evolution_partial.
Example C09_schema_evolution_partial_nonvacuous :
  msg_valid false ex_schema 3 O ex_msg = true /\ msg_valid true ex_schema 3 O ex_msg = true /\
  (match ex_msg with VMsg fs _ => msg_kept_scalar (ex_keep_scalar O) (nth O ex_schema []) fs | _ => false end) = true.
Proof. exact ex_kept_scalar_ok. Qed.

(* any fields of the (non-recursive) root message type deleted; nested types unchanged; all kinds *)
Theorem C09_schema_evolution_top_partial :
  forall (slow : bool) (S : schema) (keep : nat -> N -> bool) (limit : nat) (fs : fields) (unk : list byte),
    (forall t n, t <> O -> keep t n = true) -> msg_root_unref S ->
    msg_valid slow S limit O (VMsg fs unk) = true ->
    msg_valid true S limit O (VMsg fs unk) = true ->
    msg_evolve slow S (msg_restrict keep S) limit (msg_encode S O (VMsg fs unk)) = DOk (VMsg fs unk).
Proof. exact msg_schema_evolution_top. Qed.
Print Assumptions C09_schema_evolution_top_partial.
Example C09_schema_evolution_top_nonvacuous :
  msg_root_unref ex_top /\ msg_valid false ex_top 4 O ex_top_msg = true /\ msg_valid true ex_top 4 O ex_top_msg = true.
Proof. split; [exact ex_top_unref|exact ex_top_ok]. Qed.

Theorem C09_schema_evolution_arbitrary_bytes_refuted :
  exists S keep bs v v',
    msg_decode false S 100 0 bs = DOk v /\
    msg_evolve false S (msg_restrict keep S) 100 bs = DOk v' /\ v <> v'.
Proof. exact msg_schema_evolution_arbitrary_bytes_refuted. Qed.
Print Assumptions C09_schema_evolution_arbitrary_bytes_refuted.

(* non-vacuity / the positive statement on the C03 example: five fields (scalars, lists, a group
   list, an extension) deleted in every message type; the reduced decode holds unknown fields *)
Example C09_schema_evolution_example :
  msg_evolve false ex_schema (msg_restrict ex_keep ex_schema) 3 (msg_encode ex_schema 0 ex_msg) = DOk ex_msg /\
  (exists v', msg_decode true (msg_restrict ex_keep ex_schema) 3 0 (msg_encode ex_schema 0 ex_msg) = DOk v' /\
              msg_has_unknown v' = true /\ v' <> ex_msg).
Proof. exact msg_schema_evolution_example. Qed.
Example C09_example_rejects :
  msg_rejects (nth 0 ex_schema []) true 1 5 = true /\ msg_rejects (nth 0 ex_schema []) true 1 0 = false /\
  msg_rejects (nth 0 ex_schema []) true 99999 2 = true.
Proof. vm_compute. repeat split; reflexivity. Qed.
