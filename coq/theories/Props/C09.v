(* C09 — Unknown fields are preserved and DiscardUnknown removes them.
   Statements only; each closed by [exact] of a lemma proved in Msg/UnkP.v. *)
From Coq Require Import List NArith ZArith.
From PB Require Import Base.PBytes Wire.WireModel.
From PB Require Import Msg.MsgSchema Msg.MsgValue Msg.MsgEnc Msg.MsgDec Msg.MsgValid Msg.UnkModel Msg.UnkP.
Import ListNotations.
Open Scope N_scope.

Theorem C09_discard_unknown :
  forall (slow : bool) (S : schema) (limit tid : nat) (bs : list byte) (v : value),
    msg_decode_discard slow S limit tid bs = DOk v -> msg_has_unknown v = false.
Proof. exact msg_discard_unknown. Qed.
Print Assumptions C09_discard_unknown.
