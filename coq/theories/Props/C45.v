(* C45 — Struct, Value and Any conversions round-trip.
   Statements only; each closed by [exact] of a lemma proved in Known/StructP.v or Known/AnyP.v.
   Models: Known/StructModel.v (structpb.NewValue / AsInterface), Known/AnyModel.v (anypb). *)
From Coq Require Import List NArith ZArith Bool.
From PB Require Import Base.PBytes Known.StructModel Known.StructP Known.AnyModel Known.AnyP.
Import ListNotations.
Open Scope N_scope.

(* ---- structpb *)

(* NewValue(v).AsInterface() = v on the JSON-like domain: nil, bool, finite float64, valid UTF-8
   strings, lists and maps with valid UTF-8 keys, arbitrarily nested. *)
Theorem C45_value_roundtrip :
  forall v, json_like v = true -> exists p, new_value v = Some p /\ as_interface p = v.
Proof. exact value_roundtrip. Qed.
Print Assumptions C45_value_roundtrip.

Example C45_value_roundtrip_nonvacuous :
  json_like (GMap [([n2b 97], GList [GNil; GBool true; GNum 0x3ff0000000000000; GStr [n2b 0xC3; n2b 0xA9]])]) = true.
Proof. vm_compute. reflexivity. Qed.

(* On the whole documented domain (everything that contains no invalid string/key and no
   unsupported type) NewValue succeeds and AsInterface returns the documented conversion [norm]:
   integers and float32 become float64, []byte becomes its base64 text, NaN and the infinities become
   the strings "NaN", "Infinity", "-Infinity". *)
Theorem C45_value_roundtrip_conversions :
  forall v, rejected v = false -> exists p, new_value v = Some p /\ as_interface p = norm v.
Proof. exact value_roundtrip_conversions. Qed.
Print Assumptions C45_value_roundtrip_conversions.

Example C45_value_roundtrip_conversions_nonvacuous :
  rejected (GList [GInt (-5); GBytes [n2b 1; n2b 2]; GF32 0x7fc00000; GNum f64_ninf]) = false /\
  norm (GList [GInt (-5); GBytes [n2b 1; n2b 2]; GF32 0x7fc00000; GNum f64_ninf])
  = GList [GNum 0xc014000000000000; GStr [n2b 65; n2b 81; n2b 73; n2b 61]; GStr str_NaN; GStr str_mInfinity].
Proof. vm_compute. split; reflexivity. Qed.

(* NewValue fails exactly on the rejected inputs *)
Theorem C45_value_error_iff :
  forall v, new_value v = None <-> rejected v = true.
Proof. exact new_value_none_iff. Qed.
Print Assumptions C45_value_error_iff.

(* in particular invalid UTF-8 in any string or map key at any depth is rejected *)
Theorem C45_value_invalid_utf8_rejected :
  forall v, has_invalid_utf8 v = true -> new_value v = None.
Proof. exact value_invalid_utf8_rejected. Qed.
Print Assumptions C45_value_invalid_utf8_rejected.

Example C45_value_invalid_utf8_rejected_nonvacuous :
  has_invalid_utf8 (GList [GMap [([n2b 0xC0; n2b 0x80], GNil)]]) = true /\
  has_invalid_utf8 (GMap [([n2b 97], GStr [n2b 0xED; n2b 0xA0; n2b 0x80])]) = true.
Proof. vm_compute. split; reflexivity. Qed.

(* the documented integer conversion is exact up to 2^53 in magnitude (and then finite, so that
   AsInterface returns the number itself) *)
Theorem C45_int_conversion_exact :
  forall z, (Z.abs z <= 2^53)%Z -> f64_to_Z (z_to_f64 z) = Some z /\ f64_finite (z_to_f64 z) = true.
Proof. exact int_conversion_exact. Qed.
Print Assumptions C45_int_conversion_exact.

Example C45_int_conversion_exact_nonvacuous :
  (Z.abs (- 2^53) <= 2^53)%Z /\ f64_to_Z (z_to_f64 (- 2^53)) = Some (- 2^53)%Z /\ z_to_f64 (- 2^53) = 0xc340000000000000.
Proof. vm_compute. repeat split; congruence. Qed.

(* and not beyond: 2^53 + 1 is the first integer that is changed *)
Example C45_int_conversion_inexact_above :
  f64_to_Z (z_to_f64 (2^53 + 1)) = Some (2^53)%Z.
Proof. vm_compute. reflexivity. Qed.

(* the documented []byte conversion loses nothing and always yields a valid string *)
Theorem C45_bytes_conversion_invertible :
  forall bs, b64_decode (b64_encode bs) = Some bs /\ utf8_valid (b64_encode bs) = true.
Proof. exact bytes_conversion_invertible. Qed.
Print Assumptions C45_bytes_conversion_invertible.

(* encoding/json of AsInterface agrees with protojson of the Value whenever protojson succeeds.
   _partial: proved for the abstract JSON trees only (which value becomes which JSON kind, NaN/Inf
   and unset Values being protojson errors); number formatting, string escaping and key order of
   the two encoders are compared by the harness (semantic JSON equality), not proved. *)
Theorem C45_value_json_agrees_partial :
  forall p j, json_of_pval p = Some j -> json_of_gval (as_interface p) = Some j.
Proof. exact value_json_agrees_tree. Qed.
Print Assumptions C45_value_json_agrees_partial.

Example C45_value_json_agrees_partial_nonvacuous :
  json_of_pval (PStruct [([n2b 97], PList [PNull; PNumber 0x8000000000000000; PString []])])
  = Some (JObj [([n2b 97], JArr [JNull; JNum 0x8000000000000000; JStr []])]).
Proof. vm_compute. reflexivity. Qed.

(* ---- anypb *)

(* MessageIs is exactly: URL == name, or URL ends with "/" ++ name (for arbitrary byte strings) *)
Theorem C45_message_is_suffix_rule :
  forall url name, message_is url name = true <-> (url = name \/ exists p, url = p ++ slash :: name).
Proof. exact message_is_suffix_rule. Qed.
Print Assumptions C45_message_is_suffix_rule.

(* after New, MessageIs holds for the packed type and MessageName is its full name *)
Theorem C45_message_is_name :
  forall name, message_is (any_new_url name) name = true /\
               (full_name_valid name = true -> message_name (any_new_url name) = name).
Proof. exact message_is_name_both. Qed.
Print Assumptions C45_message_is_name.

Example C45_message_is_name_nonvacuous :
  full_name_valid (map (fun n => n2b (N.of_nat n)) [103; 46; 112; 46; 65; 110; 121]%nat) = true.
Proof. vm_compute. reflexivity. Qed.

(* the validity check inside MessageName accepts exactly ident(.ident)*; in particular the fuel of
   the model's loop never runs out *)
Theorem C45_full_name_valid_iff :
  forall s, full_name_valid s = true <-> full_name s.
Proof. exact full_name_valid_iff. Qed.
Print Assumptions C45_full_name_valid_iff.

(* MessageName and MessageIs agree, for arbitrary URLs *)
Theorem C45_message_name_is_agree :
  (forall url name, full_name_valid name = true -> message_is url name = true -> message_name url = name) /\
  (forall url, message_name url <> [] -> message_is url (message_name url) = true).
Proof. exact message_name_is_agree. Qed.
Print Assumptions C45_message_name_is_agree.

(* MessageIs is false for any other valid name *)
Theorem C45_message_is_other_false :
  forall name other, full_name_valid name = true -> full_name_valid other = true -> other <> name ->
  message_is (any_new_url name) other = false.
Proof. exact message_is_other_false. Qed.
Print Assumptions C45_message_is_other_false.

(* New then UnmarshalTo / UnmarshalNew return the message, relative to the round-trip property of
   the underlying codec (C03), which enters as a hypothesis; UnmarshalTo into another type fails. *)
Theorem C45_any_roundtrip :
  forall (msg : Type) (name_of : msg -> list byte) (marshal : msg -> option (list byte))
         (unmarshal : list byte -> list byte -> option msg) (resolve : list byte -> bool),
  (forall m b, marshal m = Some b -> unmarshal (name_of m) b = Some m) ->
  forall m a, any_new msg name_of marshal m = Some a ->
  unmarshal_to msg unmarshal a (name_of m) = Some m /\
  (full_name_valid (name_of m) = true -> resolve (name_of m) = true ->
   unmarshal_new msg unmarshal resolve a = Some m) /\
  (forall other, full_name_valid (name_of m) = true -> full_name_valid other = true -> other <> name_of m ->
   unmarshal_to msg unmarshal a other = None).
Proof. exact any_roundtrip_all. Qed.
Print Assumptions C45_any_roundtrip.

(* the hypothesis is satisfiable and New succeeds: a one-type codec over byte strings *)
Example C45_any_roundtrip_nonvacuous :
  let name := [n2b 65] in
  (forall (m b : list byte), Some m = Some b -> (fun _ v => Some v) name b = Some m) /\
  any_new (list byte) (fun _ => name) (fun m => Some m) [n2b 1] <> None.
Proof. cbv zeta. split; [intros m b H; now inversion H|discriminate]. Qed.
