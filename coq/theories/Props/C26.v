(* C26 — JSON and text decoders are total and enforce field uniqueness.
   Statements only; each closed by [exact] of a lemma proved in Json/UniqP.v.

   The documents are field-event trees (Json/UniqModel.v [fld]); [jmsg] / [tmsg] are the event-level
   models of protojson / prototext unmarshalMessage with RecursionLimit [rem]. *)
From Coq Require Import List NArith Bool.
From PB Require Import Json.UniqModel Json.UniqP.
Import ListNotations.

(* internal/set.Ints: Has/Set/Clear/Len of the 64-bit word + map representation refine a finite set of
   numbers, for every op history; no history panics (the nil map is made before the first store) *)
Theorem C26_ints_refines_set : forall ops,
  exists s, ints_run ops ints_empty = Some s /\
    NoDup (spec_run ops []) /\
    (forall n, ints_has s n = mem n (spec_run ops [])) /\
    ints_len s = length (spec_run ops []).
Proof. exact ints_refines_set. Qed.
Print Assumptions C26_ints_refines_set.

(* ---- protojson *)
(* every message body that names one field number twice is rejected (lists and maps too) *)
Theorem C26_json_duplicate_rejected : forall discard rem fs,
  names_twice_j fs -> jmsg discard rem fs <> Accept.
Proof. exact j_duplicate_rejected. Qed.
Print Assumptions C26_json_duplicate_rejected.
Example C26_json_duplicate_rejected_ex :
  names_twice_j [Known 1 CSingular None false []; Unknown false 0; Known 1 CSingular None false []].
Proof. exists [], 1%N, CSingular, None, false, [], [Unknown false 0; Known 1 CSingular None false []], CSingular, None, false, []. cbn. auto. Qed.

Theorem C26_json_two_oneof_members_rejected : forall discard rem fs,
  two_oneof_j fs -> jmsg discard rem fs <> Accept.
Proof. exact j_two_oneof_rejected. Qed.
Print Assumptions C26_json_two_oneof_members_rejected.
Example C26_json_two_oneof_members_rejected_ex :
  two_oneof_j [Known 111 CSingular (Some 0%N) false []; Known 113 CSingular (Some 0%N) false []].
Proof. exists [], 111%N, 0%N, [], [Known 113 CSingular (Some 0%N) false []], 113%N, []. cbn. auto. Qed.

(* anywhere in the document: a duplicate, a oneof pair, or a nested message with one of them *)
Theorem C26_json_violation_rejected : forall discard fs,
  violates_j fs -> forall rem, jmsg discard rem fs <> Accept.
Proof. exact j_violation_rejected. Qed.
Print Assumptions C26_json_violation_rejected.
Example C26_json_violation_rejected_ex :
  violates_j [Known 18 CSingular None false [[Known 1 CSingular None false []; Known 1 CSingular None false []]]].
Proof.
  eapply VJ_child; [left; reflexivity|left; reflexivity|]. apply VJ_dup.
  exists [], 1%N, CSingular, None, false, [], [Known 1 CSingular None false []], CSingular, None, false, []. cbn. auto.
Qed.

(* accepted => the nesting (messages, and brackets of skipped values) is at most RecursionLimit *)
Theorem C26_json_depth_bounded : forall discard rem fs,
  jmsg discard rem fs = Accept -> depth_j fs <= rem.
Proof. exact j_depth_bounded_num. Qed.
Print Assumptions C26_json_depth_bounded.
Example C26_json_depth_bounded_ex :
  jmsg true 3 [Known 2 CSingular None false [[Unknown false 1]]] = Accept /\
  jmsg true 3 [Known 2 CSingular None false [[Unknown false 2]]] = Reject RDepth /\
  depth_j [Known 2 CSingular None false [[Unknown false 1]]] = 3 /\ depth_j [Known 2 CSingular None false [[Unknown false 2]]] = 4.
Proof. vm_compute. auto. Qed.

Theorem C26_json_no_panic : forall discard rem fs, jmsg discard rem fs <> Panic.
Proof. exact j_no_panic. Qed.
Print Assumptions C26_json_no_panic.

(* ---- prototext *)
Theorem C26_text_duplicate_rejected : forall discard rem fs,
  names_twice_t fs -> tmsg discard rem fs <> Accept.
Proof. exact t_duplicate_rejected. Qed.
Print Assumptions C26_text_duplicate_rejected.
Example C26_text_duplicate_rejected_ex :
  names_twice_t [Known 1 CSingular None false []; Known 1 CSingular None false []].
Proof. exists [], 1%N, None, false, [], [Known 1 CSingular None false []], None, false, []. cbn. auto. Qed.

Theorem C26_text_two_oneof_members_rejected : forall discard rem fs,
  two_oneof_t fs -> tmsg discard rem fs <> Accept.
Proof. exact t_two_oneof_rejected. Qed.
Print Assumptions C26_text_two_oneof_members_rejected.
Example C26_text_two_oneof_members_rejected_ex :
  two_oneof_t [Known 111 CSingular (Some 0%N) false []; Known 113 CSingular (Some 0%N) false []].
Proof. exists [], 111%N, 0%N, false, [], [Known 113 CSingular (Some 0%N) false []], 113%N, false, []. cbn. auto. Qed.

Theorem C26_text_violation_rejected : forall discard fs,
  violates_t fs -> forall rem, tmsg discard rem fs <> Accept.
Proof. exact t_violation_rejected. Qed.
Print Assumptions C26_text_violation_rejected.
Example C26_text_violation_rejected_ex :
  violates_t [Known 4 CMap None false [[Known 2 CSingular None false []; ByNum]]].
Proof. eapply VT_child; [left; reflexivity|left; reflexivity|]. apply VT_bynum. cbn. auto. Qed.

(* accepted => nesting (messages, map entries, skipped messages) fits into RecursionLimit;
   the skip path is included (F5 repaired: skipMessageValue decrements) *)
Theorem C26_text_depth_bounded : forall discard rem fs,
  tmsg discard rem fs = Accept -> depth_t fs <= rem.
Proof. exact t_depth_bounded_num. Qed.
Print Assumptions C26_text_depth_bounded.
Example C26_text_depth_bounded_ex :
  tmsg false 3 [Known 4 CMap None false [[Unknown true 0]]] = Accept /\
  tmsg false 3 [Known 4 CMap None false [[Unknown true 1]]] = Reject RDepth /\
  tmsg false 1 [Known 4 CMap None false []] = Reject RDepth /\
  depth_t [Known 4 CMap None false [[Unknown true 0]]] = 3 /\ depth_t [Known 4 CMap None false []] = 2.
Proof. vm_compute. repeat split. Qed.

Theorem C26_text_no_panic : forall discard rem fs, tmsg discard rem fs <> Panic.
Proof. exact t_no_panic. Qed.
Print Assumptions C26_text_no_panic.

(* ---- prototext unmarshalAny has a loop of its own (type_url: / value: / [type.url] { ... }).
   Full statement (refuted by the faithful model, finding FL3): an Any body that gives Any.value a
   value twice is rejected.  The expanded form tests seenTypeUrl and isExpanded but not seenValue. *)
Theorem C26_text_any_value_twice_refuted :
  exists evs, 2 <= value_sets evs /\ tany evs false false false = Accept.
Proof. exact tany_value_twice_refuted. Qed.
Print Assumptions C26_text_any_value_twice_refuted.

Theorem C26_text_any_value_twice_except_FL3 : forall evs,
  excl_FL3 evs = false -> 2 <= value_sets evs -> tany evs false false false <> Accept.
Proof. exact tany_value_twice_except_FL3. Qed.
Print Assumptions C26_text_any_value_twice_except_FL3.
Example C26_text_any_value_twice_except_FL3_ex :
  excl_FL3 [AE Accept; AV] = false /\ 2 <= value_sets [AE Accept; AV].
Proof. cbn. auto. Qed.
