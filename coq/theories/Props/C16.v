(* C16 — The size cache never makes Marshal output stale.
   Statements only; each closed by [exact] of a lemma of Msg/SizeCacheP.v.

   Model: Msg/SizeCacheModel.v.  [enc] is the true encoding of the current
   content (it never looks at a cache); [size_pass uc] is impl.sizePointer,
   [append_pass uc] is impl.marshalAppendPointer, [marshal ouc] is
   proto.MarshalOptions{UseCachedSize: ouc}.marshal.  [fits n] says that the
   encoding is shorter than 2^64 bytes (a Go slice is shorter than 2^63).
   Mutations ([OSet]/[OIns]/[ODel]) never touch a cache. *)
From Coq Require Import List NArith Bool.
From PB Require Import Base.PBytes Wire.WireModel Msg.SizeCacheModel Msg.SizeCacheP.
Import ListNotations.
Open Scope N_scope.

(* Size (without UseCachedSize) returns the length of the true encoding, whatever
   the caches contain. *)
Theorem C16_size_eq_length_enc :
  forall n, fits n -> fst (size_pass false n) = len (enc n).
Proof. exact (fun n Hf => proj1 (size_pass_spec false n Hf (fun H => False_ind _ (Bool.diff_false_true H)))). Qed.
Print Assumptions C16_size_eq_length_enc.

(* After the size pass every cache of the returned tree holds exactly what
   sizePointerSlow stores for the true size of its node (size+1, or 0 above
   MaxInt32-1), and the content is unchanged. *)
Theorem C16_size_pass_cache_ok :
  forall n, fits n ->
    cache_fresh (snd (size_pass false n)) /\ cache_valid (snd (size_pass false n)) /\
    clone (snd (size_pass false n)) = clone n.
Proof.
  exact (fun n Hf =>
    match size_pass_spec false n Hf (fun H => False_ind _ (Bool.diff_false_true H)) with
    | conj _ (conj Hv Hfr) => conj (Hfr eq_refl) (conj Hv (size_pass_clone false n))
    end).
Qed.
Print Assumptions C16_size_pass_cache_ok.

(* The append pass with UseCachedSize on a tree whose caches are all
   unset-or-correct outputs the true encoding (and keeps that invariant). *)
Theorem C16_append_pass_on_cache_ok :
  forall n, fits n -> cache_valid n ->
    fst (append_pass true n) = ABytes (enc n) /\ cache_valid (snd (append_pass true n)).
Proof.
  exact (fun n Hf Hv =>
    match append_pass_complete true n Hf (fun _ => Hv) with
    | conj H1 H2 => conj H1 (H2 Hv)
    end).
Qed.
Print Assumptions C16_append_pass_on_cache_ok.

(* proto.Marshal from EVERY cache state (stale, unset, arbitrary numbers):
   the output is the encoding of the current content. *)
Theorem C16_marshal_any_caches :
  forall n, fits n -> fst (marshal false n) = ABytes (enc n) /\ cache_valid (snd (marshal false n)).
Proof. exact marshal_spec. Qed.
Print Assumptions C16_marshal_any_caches.

(* The property: for every history of mutations / Size / Marshal / Equal /
   Clone at any paths, starting from the empty message, a Marshal of any
   submessage returns the encoding of that submessage's current content. *)
Theorem C16_marshal_current :
  forall (ops : list op) (p : list nat) (s : node),
    subtree p (run ops empty) = Some s -> fits s ->
    snd (step (run ops empty) (OMarshal p false)) = OBytes (enc s).
Proof. exact (fun ops p s => step_marshal (run ops empty) p s). Qed.
Print Assumptions C16_marshal_current.

(* The same along a whole history, from any start state: every Marshal and Size
   observation is current; a Marshal with the caller's UseCachedSize is current
   whenever it does not fail. *)
Theorem C16_history_current :
  forall ops t, observations_current ops t.
Proof. exact history_current. Qed.
Print Assumptions C16_history_current.

(* MarshalOptions{UseCachedSize: true} (public API; its contract is "Size was
   called and nothing was mutated since"):
   (a) under the contract it returns the true encoding; *)
Theorem C16_cached_marshal_after_size :
  forall n, fits n -> fst (marshal true (snd (size_pass false n))) = ABytes (enc n).
Proof.
  exact (fun n Hf =>
    match C16_size_pass_cache_ok n Hf with
    | conj _ (conj Hv Hc) =>
        eq_trans
          (proj1 (cmarshal_valid (snd (size_pass false n))
                    (eq_ind_r (fun b => len b < 2^64) Hf (same_enc _ _ Hc)) Hv))
          (f_equal ABytes (same_enc _ _ Hc))
    end).
Qed.
Print Assumptions C16_cached_marshal_after_size.

(* (b) outside the contract (arbitrary caches) it either reports
   MismatchedSizeCalculation or still returns the true encoding: a stale cache
   is never silently written into the output. *)
Theorem C16_cached_marshal_sound :
  forall ouc n b, fits n -> fst (marshal ouc n) = ABytes b -> b = enc n.
Proof. exact marshal_sound. Qed.
Print Assumptions C16_cached_marshal_sound.

(* the recursion fuel of the model's append pass always suffices *)
Theorem C16_marshal_total :
  forall ouc n, fst (marshal ouc n) <> AFuel.
Proof. exact marshal_no_fuel. Qed.
Print Assumptions C16_marshal_total.

(* Size, Marshal, Equal and Clone are read-only on the content. *)
Theorem C16_readonly_ops_preserve_content :
  forall t o, readonly o = true -> clone (fst (step t o)) = clone t.
Proof. exact step_readonly. Qed.
Print Assumptions C16_readonly_ops_preserve_content.

(* Equal is a function of the contents only (no cache is consulted) ... *)
Theorem C16_equal_ignores_caches :
  forall a a' b b', clone a = clone a' -> clone b = clone b' -> equal a b = equal a' b'.
Proof. exact equal_cache_independent. Qed.
Print Assumptions C16_equal_ignores_caches.

Theorem C16_equal_iff_same_content :
  forall a b, equal a b = true <-> clone a = clone b.
Proof. exact equal_iff. Qed.
Print Assumptions C16_equal_iff_same_content.

(* ... and Clone yields a tree with all caches unset whose Marshal is the
   encoding of the source's content. *)
Theorem C16_clone_fresh_and_current :
  forall n, fits n ->
    Forall (fun c => c = 0) (caches (clone n)) /\ fst (marshal false (clone n)) = ABytes (enc n).
Proof. exact (fun n Hf => conj (clone_caches_zero n) (clone_marshal n Hf)). Qed.
Print Assumptions C16_clone_fresh_and_current.

(* ---------- non-vacuity: a 3-level tree whose caches are stale before the Marshal ---------- *)
Definition ex_grandchild : node := Node 0 [Raw [x08; x03]].
Definition ex_child : node := Node 0 [Raw [x08; x02]; Sub (KLen [x1a]) ex_grandchild].
Definition ex_history : list op :=
  [ OIns [] 0 (Raw [x08; x01]);
    OIns [] 1 (Sub (KLen [x12]) ex_child);
    OSize [] false;                                   (* fills all three caches: 11, 7, 3 *)
    OSet [1%nat; 1%nat] 0 (Raw (repeat x2a 200)) ].   (* the grandchild grows across the 127/128 boundary *)
Definition ex_state : node := run ex_history empty.

(* the caches are stale: they still say 10 / 6 / 2 bytes, the truth is 210 / 205 / 200 *)
Example C16_ex_caches_stale :
  caches ex_state = [11; 7; 3] /\
  len (enc ex_state) = 210 /\
  ~ cache_valid ex_state.
Proof.
  split; [vm_compute; reflexivity|]. split; [vm_compute; reflexivity|].
  intros H. apply all_nodes_unfold in H. destruct H as [[H|H] _]; vm_compute in H; discriminate.
Qed.

(* using the stale caches directly fails loudly; the ordinary entry point is current *)
Example C16_ex_marshal :
  subtree [] ex_state = Some ex_state /\ fits ex_state /\
  snd (step ex_state (OMarshal [] true)) = OMismatch /\
  snd (step ex_state (OMarshal [] false)) = OBytes (enc ex_state) /\
  snd (step ex_state (OSize [] true)) = OSz 10 /\
  snd (step ex_state (OSize [] false)) = OSz 210.
Proof.
  split; [reflexivity|]. split; [unfold fits; vm_compute; reflexivity|].
  repeat split; vm_compute; reflexivity.
Qed.

(* hypotheses of the cached-marshal theorem are satisfiable and needed *)
Example C16_ex_cached_after_size :
  fst (marshal true (snd (size_pass false ex_state))) = ABytes (enc ex_state) /\
  fst (marshal true ex_state) = AMismatch.
Proof. split; vm_compute; reflexivity. Qed.

(* above MaxInt32-1 the size is not cached (cache stays 0) and is recomputed *)
Example C16_ex_store :
  store 2147483646 = 2147483647 /\ store 2147483647 = 0 /\ store 0 = 1.
Proof. repeat split; reflexivity. Qed.

Example C16_ex_equal_clone :
  equal ex_state (clone ex_state) = true /\ caches (clone ex_state) = [0; 0; 0] /\
  equal ex_state (run [ODel [1%nat] 0] ex_state) = false.
Proof. repeat split; vm_compute; reflexivity. Qed.
