(* C18 — Concurrent readers of a lazily decoded message are safe and consistent.
   Statements only; each closed by [exact] of a lemma proved in Conc/LazyCasP.v.

   The theorems are about the protocol model Conc/LazyCasModel.v (sequentially
   consistent atomic steps).  They hold for every configuration, every number of
   threads and every trace ([reachable c s] = some trace of the executable step
   function leads from [init c] to [s]).

   NOT proved (the "_partial" of this property, see props/C18.json level_note):
   data-race freedom in the sense of the Go memory model.  The model takes the
   atomic load / CAS / store of sync/atomic as sequentially consistent atomic
   steps and the private decode writes as invisible to other threads until the
   CAS; that these assumptions hold of the compiled code is only supported by the
   race-detector runs of the harness (family conc18).                            *)
From Coq Require Import List NArith.
From PB Require Import Conc.LazyCasModel Conc.LazyCasP.
Import ListNotations.

(* In every reachable state all pointers returned for one lazy field, by any
   threads, are equal; they equal the unique pointer published in the message
   (nil exactly when the presence bit is clear); at most one CAS succeeded. *)
Theorem C18_readers_agree :
  forall c s, reachable c s ->
  forall t1 t2 f r1 r2,
    In (f, r1) (rets (thr s t1)) -> In (f, r2) (rets (thr s t2)) ->
    r1 = r2 /\
    r1 = (if present c f then fld s f else None) /\
    (present c f = true -> exists p, r1 = Some p) /\
    wins s f <= 1.
Proof. exact readers_agree. Qed.
Print Assumptions C18_readers_agree.

Example C18_readers_agree_nonvacuous :
  reachable ex_cfg ex_state /\
  In (0, Some 1) (rets (thr ex_state 0)) /\ In (0, Some 1) (rets (thr ex_state 1)) /\
  In (0, Some 1) (rets (thr ex_state 2)) /\ In (1, None) (rets (thr ex_state 2)) /\
  wins ex_state 0 = 1 /\ heap ex_state 1 = [1; 2; 3]%N /\ heap ex_state 0 = [1; 2; 3]%N /\
  fld ex_state 0 = Some 1.
Proof. exact ex_two_readers. Qed.

(* The object behind every published and every returned pointer holds the
   result of the sequential decode (build/look up the index, decode the range). *)
Theorem C18_readers_equal_sequential :
  forall c s, reachable c s ->
  (forall f p, fld s f = Some p -> heap s p = seq_result c f) /\
  (forall t f p, In (f, Some p) (rets (thr s t)) -> heap s p = seq_result c f).
Proof. exact readers_equal_sequential. Qed.
Print Assumptions C18_readers_equal_sequential.

(* Publication happens after the private copy is complete: an object that a
   thread is still filling is not reachable from the message, has not been
   returned to any reader, and is not shared with any other decoding thread ... *)
Theorem C18_no_reader_sees_partial :
  forall c s, reachable c s ->
  forall t, at_pc (thr s t) = PDecode ->
    (forall f, fld s f <> Some (priv (thr s t))) /\
    (forall u f, ~ In (f, Some (priv (thr s t))) (rets (thr s u))) /\
    (forall u, u <> t -> at_pc (thr s u) = PDecode -> priv (thr s u) <> priv (thr s t)).
Proof. exact no_reader_sees_partial. Qed.
Print Assumptions C18_no_reader_sees_partial.

(* ... and a decode write never changes an object that is published or was returned. *)
Theorem C18_published_objects_immutable :
  forall c s t s', reachable c s -> step c s t ADecode = Some s' ->
  (forall f p, fld s f = Some p -> heap s' p = heap s p) /\
  (forall u f p, In (f, Some p) (rets (thr s u)) -> heap s' p = heap s p).
Proof. exact published_objects_immutable. Qed.
Print Assumptions C18_published_objects_immutable.

Example C18_no_reader_sees_partial_nonvacuous :
  reachable ex_cfg ex_mid_state /\ at_pc (thr ex_mid_state 0) = PDecode /\
  todo (thr ex_mid_state 0) = [2; 3]%N /\ at_pc (thr ex_mid_state 1) = PDecode /\
  (exists s', step ex_cfg ex_mid_state 1 ADecode = Some s').
Proof. exact ex_mid. Qed.

(* The lazy index is only ever published with the value buildIndex computes,
   every decoding thread uses that value, and a duplicate store (two readers
   found the index nil) leaves the value every later loader sees unchanged. *)
Theorem C18_index_publication_idempotent :
  forall c s, reachable c s ->
  (forall m io, index s m = Some io -> ival io = build_index c m) /\
  (forall t, at_pc (thr s t) = PDecode -> idx (thr s t) = build_index c (msg_of c (cur (thr s t)))) /\
  (forall t s', step c s t AIdxStore = Some s' ->
     forall m io, index s m = Some io -> exists io', index s' m = Some io' /\ ival io' = ival io).
Proof. exact index_publication_idempotent. Qed.
Print Assumptions C18_index_publication_idempotent.

Example C18_index_publication_nonvacuous :
  reachable ex_cfg ex_idx_state /\
  (exists io, index ex_idx_state 0 = Some io) /\
  (exists s', step ex_cfg ex_idx_state 1 AIdxStore = Some s').
Proof. exact ex_idx. Qed.

(* The trace checker the harness runs on real executions is sound: an accepted
   observation list is explained by a model trace, carries the sequential
   result as content, and never contains two pointer classes for one field. *)
Theorem C18_check_observed_sound :
  forall c os, check_observed c os = true ->
  exists tr s, run_trace c tr (init c) = Some s /\
    forall o, In o os ->
      (exists t p, In (o_fld o, p) (rets (thr s t))) /\
      (o_cls o <> 0 -> o_parts o = seq_result c (o_fld o)) /\
      (o_cls o = 0 <-> present c (o_fld o) = false).
Proof. exact check_observed_sound. Qed.
Print Assumptions C18_check_observed_sound.

Theorem C18_check_observed_classes :
  forall c os, check_observed c os = true ->
  forall o1 o2, In o1 os -> In o2 os -> o_fld o1 = o_fld o2 -> o_cls o1 = o_cls o2.
Proof. exact check_observed_classes. Qed.
Print Assumptions C18_check_observed_classes.

Example C18_check_observed_nonvacuous : check_observed ex_cfg ex_obs = true.
Proof. exact ex_obs_accepted. Qed.

(* No schedule of the executable model gets stuck, and every scheduler-driven run is a trace. *)
Theorem C18_schedules_are_traces :
  forall c sched s s' tr, run_schedule c sched s [] = Some (s', tr) -> run_trace c tr s = Some s'.
Proof. exact (fun c sched s s' tr => run_schedule_trace c sched s [] s s' tr eq_refl). Qed.
Print Assumptions C18_schedules_are_traces.

Theorem C18_next_action_enabled :
  forall c s t f, exists s', step c s t (next_action c s t f) = Some s'.
Proof. exact next_action_enabled. Qed.
Print Assumptions C18_next_action_enabled.

(* Finding FG1 (recorded, not repaired).  "Every result equals the sequential result" fails for
   non-deterministic Marshal: a reader that publishes a lazy field between Marshal's size pass and
   append pass makes the size check fail when the field's raw encoding is not as long as its
   re-encoding.  Refuted by the witness the harness replays (raw 10 bytes, re-encoded 7); it holds
   outside the recogniser [excl_FG1] (the same predicate the harness uses: non-canonical lazy
   field), and always holds sequentially. *)
Theorem C18_marshal_concurrent_reader_refuted :
  exists raw enc s a, passes_possible s a = true /\ marshal_size_check raw enc s a = false.
Proof. exact marshal_concurrent_reader_refuted. Qed.
Print Assumptions C18_marshal_concurrent_reader_refuted.

Theorem C18_marshal_concurrent_reader_except_FG1 :
  forall raw enc s a, excl_FG1 raw enc = false -> marshal_size_check raw enc s a = true.
Proof. exact marshal_concurrent_reader_except_FG1. Qed.
Print Assumptions C18_marshal_concurrent_reader_except_FG1.

Theorem C18_marshal_sequential_ok :
  forall raw enc s, marshal_size_check raw enc s s = true.
Proof. exact marshal_sequential_ok. Qed.
Print Assumptions C18_marshal_sequential_ok.
