(* C29 — all API flavours of one schema are interchangeable.
   Statements only; each closed by [exact] of a lemma of Msg/ReflectFlavP.v.

   Corollaries of the C28 refinement theorems: any two representations that satisfy the cell
   laws (Msg/ReflectCellP.v: dynamicpb cells, opaque cells; open structs are the opaque cells
   without presence bits) and hold the same content, driven by the same history of reflection
   calls, give the same result for every call and end with the same content -- hence the same
   deterministic wire bytes ([msg_encode], the encoder of C03), the same size, and the same value
   of every function of the abstract message.  The JSON and text encoders are such functions in
   the codec models of C20 / C24 (not part of this branch: the statement quantifies over every
   function F of the abstract value instead of naming them).

   What is not a theorem here: that the generated setters / builders / struct literals of the
   Go API perform these reflection calls -- that is what the harness family "flavors" searches
   (wire bytes, dumps, JSON, text, cross-decoding, getters, for every flavour). *)
From Coq Require Import List NArith ZArith Bool.
From PB Require Import Base.PBytes Wire.WireModel Msg.MsgSchema Msg.MsgValue Msg.MsgEnc.
From PB Require Import Msg.ReflectModel Msg.ReflectP Msg.ReflectCellModel Msg.ReflectCellP Msg.ReflectFlavP.
Import ListNotations.
Open Scope N_scope.

Theorem C29_same_abstraction_same_encodings :
  forall (cellA cellB : Type) (opsA : cellops cellA) (opsB : cellops cellB) (S : schema)
         (a : cmsg cellA) (b : cmsg cellB),
    refl_val_of (cm_abs cellA opsA (nth O S []) a) = refl_val_of (cm_abs cellB opsB (nth O S []) b) ->
    msg_encode S O (refl_val_of (cm_abs cellA opsA (nth O S []) a)) =
      msg_encode S O (refl_val_of (cm_abs cellB opsB (nth O S []) b)) /\
    msg_size_body S O (refl_val_of (cm_abs cellA opsA (nth O S []) a)) =
      msg_size_body S O (refl_val_of (cm_abs cellB opsB (nth O S []) b)) /\
    forall (X : Type) (F : value -> X),
      F (refl_val_of (cm_abs cellA opsA (nth O S []) a)) = F (refl_val_of (cm_abs cellB opsB (nth O S []) b)).
Proof. exact same_abstraction_same_encodings. Qed.
Print Assumptions C29_same_abstraction_same_encodings.

Theorem C29_flavours_agree :
  forall (cellA cellB : Type) (opsA : cellops cellA) (opsB : cellops cellB)
         (invA : fdesc -> cellA -> Prop) (invB : fdesc -> cellB -> Prop),
    celllaws cellA opsA invA -> celllaws cellB opsB invB ->
    forall (S : schema) (D : rdefs) (steps : list rstep) (a : cmsg cellA) (b : cmsg cellB),
      md_ok (nth O S []) ->
      CInv cellA invA (nth O S []) (cm_cells a) -> CInv cellB invB (nth O S []) (cm_cells b) ->
      refl_val_of (cm_abs cellA opsA (nth O S []) a) = refl_val_of (cm_abs cellB opsB (nth O S []) b) ->
      let a' := fst (cm_run cellA opsA S D a steps) in
      let b' := fst (cm_run cellB opsB S D b steps) in
      msg_encode S O (refl_val_of (cm_abs cellA opsA (nth O S []) a')) =
        msg_encode S O (refl_val_of (cm_abs cellB opsB (nth O S []) b')) /\
      msg_size_body S O (refl_val_of (cm_abs cellA opsA (nth O S []) a')) =
        msg_size_body S O (refl_val_of (cm_abs cellB opsB (nth O S []) b')) /\
      (forall (X : Type) (F : value -> X),
         F (refl_val_of (cm_abs cellA opsA (nth O S []) a')) = F (refl_val_of (cm_abs cellB opsB (nth O S []) b'))) /\
      snd (cm_run cellA opsA S D a steps) = snd (cm_run cellB opsB S D b steps).
Proof. exact flavours_agree. Qed.
Print Assumptions C29_flavours_agree.

Theorem C29_dynamic_and_opaque_agree :
  forall (S : schema) (D : rdefs) (steps : list rstep),
    md_ok (nth O S []) ->
    let a' := fst (cm_run dyncell dyn_ops S D (mkCM [] []) steps) in
    let b' := fst (cm_run ocell opq_ops S D (mkCM [] []) steps) in
    msg_encode S O (refl_val_of (cm_abs dyncell dyn_ops (nth O S []) a')) =
    msg_encode S O (refl_val_of (cm_abs ocell opq_ops (nth O S []) b')) /\
    snd (cm_run dyncell dyn_ops S D (mkCM [] []) steps) = snd (cm_run ocell opq_ops S D (mkCM [] []) steps).
Proof. exact dynamic_and_opaque_agree. Qed.
Print Assumptions C29_dynamic_and_opaque_agree.

(* non-vacuity: the hypotheses hold for a schema with every field shape; the two representations
   hold different cells and produce the same bytes *)
Definition c29_md : mdesc :=
  [ mkF 1 (KS SkInt32) COpt None false false false;
    mkF 2 (KS SkInt32) CRep None false false false;
    mkF 3 (KMsg O) COpt (Some 0) false false false;
    mkF 4 (KS SkString) COpt (Some 0) true false false;
    mkF 5 (KMsg O) COpt None false false true;
    mkF 6 (KS SkInt64) CImp None false false false ].
Definition c29_steps : list rstep :=
  [ mkStep true [] (RSet 1 [VS (SZ 5%Z)]);
    mkStep true [] (RSet 6 [VS (SZ 0%Z)]);
    mkStep true [] (RMutable 2);
    mkStep true [PF 5] (RSet 1 [VS (SZ 7%Z)]);
    mkStep true [] (RSet 4 [VS (SBy [x61])]);
    mkStep true [] (RMutable 3) ].
Example C29_example_md_ok : md_ok c29_md.
Proof. split; [repeat constructor; cbn; intuition discriminate | intros fd H; cbn in H; intuition; subst; reflexivity]. Qed.
Example C29_example_bytes_agree :
  let a' := fst (cm_run dyncell dyn_ops [c29_md] (mkRD [] []) (mkCM [] []) c29_steps) in
  let b' := fst (cm_run ocell opq_ops [c29_md] (mkRD [] []) (mkCM [] []) c29_steps) in
  (* the implicit-presence zero is stored in both representations and populated in neither *)
  dc_known (cs_get dyncell dyn_ops (cm_cells a') 6) = Some (DOne (VS (SZ 0%Z))) /\
  cs_get ocell opq_ops (cm_cells b') 6 = OCDirect (SZ 0%Z) /\
  msg_encode [c29_md] O (refl_val_of (cm_abs dyncell dyn_ops c29_md a')) =
    [x08; x05; x2a; x02; x08; x07; x1a; x00] /\
  msg_encode [c29_md] O (refl_val_of (cm_abs ocell opq_ops c29_md b')) =
    [x08; x05; x2a; x02; x08; x07; x1a; x00].
Proof. vm_compute. repeat split. Qed.
